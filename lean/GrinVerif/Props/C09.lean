import GrinVerif.Model.Crash
import GrinVerif.Model.CrashCompact
import GrinVerif.Lemmas.CrashBasic
import GrinVerif.Lemmas.CrashPath
import GrinVerif.Lemmas.CrashRecover
import GrinVerif.Lemmas.CrashSteps
import GrinVerif.Lemmas.CrashExt
import GrinVerif.Lemmas.CrashUnspent
import GrinVerif.Lemmas.CrashWindow
import GrinVerif.Lemmas.CrashCompactL
import GrinVerif.Lemmas.CrashReorg
/-! # C09 — a crash at any persistence step never bricks or corrupts the chain

Theorems about the crash model (`Model/Crash.lean`, compaction: `Model/CrashCompact.lean`). The
property is FALSE of the unchanged code in four windows (and the model, which agrees with the real
node on every enumerated crash point, says so). This file says, for ALL chains (block table, old
path, new block, bitmap-commitment function universally quantified; no size bound), at which crash
points recovery works and at which it does not, and where the node lands:

* plain extension (17 steps): `safe_prefix_all` (k ≤ 2, 5 ≤ k ≤ 11 → old tip), `header_torn_bricks_all`
  (k = 3, 4 → does not open), `txhashset_window_violates_all` / `txhashset_window_exact` /
  `txhashset_window_general` / `txhashset_window_to_genesis` / `txhashset_window_precommit_silent`
  (12 ≤ k ≤ 16), `no_inputs_crash_safe`, `completed_extension_all` (k ≥ 17 → new block);
* header reorganisation: `header_reorg_window_bricks_all`, `header_reorg_ends_ok_all`,
  `header_reorg_equal_length_silent`; reorganising block: `block_reorg_header_window_bricks_all`,
  `block_reorg_ends_ok_all`, `block_reorg_files_window_all`, `block_reorg_leaf_window_all`;
* compaction (13 steps): `compaction_safe_steps_all`, `compaction_interrupted_first_all`,
  `compaction_interrupted_again_all`; block on a compacted node: `compacted_safe_prefix_all`,
  `compacted_window_bricks_all`, `compacted_window_lands_all`; `recoverC_conservative`;
* concrete kernel-checked negation witnesses (`decide`) and non-vacuity examples for every
  general theorem.

What is NOT covered by a theorem: the property's clauses "the reopened state passes full
validation" and "re-delivery reaches the uninterrupted head" (the model's `recover` returns the
reopen outcome and head only; those clauses are evaluated on the real node by the harness). -/
namespace GV.Props.C09
open GV GV.Crash

/-! A concrete chain used as witness: genesis b0 creates o0; b1 creates o1 (coinbase) ; …;
heights ≥ 6 commit to the bitmap. Block b8 spends o6 (created by b6). -/
def blk (i : Nat) (ins : List Nat) : BlkInfo :=
  { id := i, parent := if i = 0 then none else some (i - 1), work := i + 1, outs := [i], ins := ins }

def tbl9 : List BlkInfo := [blk 0 [], blk 1 [], blk 2 [], blk 3 [], blk 4 [], blk 5 [], blk 6 [], blk 7 [], blk 8 [6]]
def old8 : List BlkInfo := tbl9.take 8
def tgt9 : Target := { newPath := tbl9, forkLen := 8, movesHHead := true, movesHead := true }
def bc (h : Nat) : Bool := decide (h ≥ 6)

/-- sanity: an uninterrupted acceptance recovers to the new head, no crash recovers to the old -/
theorem witness_uninterrupted :
    recover bc tbl9 (crashAfter tgt9 (consistent old8) blockSteps blockSteps.length) = .ok 8 ∧
    recover bc tbl9 (crashAfter tgt9 (consistent old8) blockSteps 0) = .ok 7 := by decide

/-- **Negation (txhashset window).** Killing the process after the output leaf set of a block that
spends an output has been renamed into place, and before the final LMDB commit, makes the node
reopen on neither the old nor the new head: the fallback loop walks back to the parent of the
block that created the spent output (here b5, two blocks below the old head b7). -/
theorem txhashset_window_violates :
    recover bc tbl9 (crashAfter tgt9 (consistent old8) blockSteps 12) = .ok 5 ∧
    (∀ k, 12 ≤ k → k < 17 → recover bc tbl9 (crashAfter tgt9 (consistent old8) blockSteps k) = .ok 5) := by
  refine ⟨by decide, ?_⟩
  intro k h1 h2
  have : k = 12 ∨ k = 13 ∨ k = 14 ∨ k = 15 ∨ k = 16 := by omega
  rcases this with rfl | rfl | rfl | rfl | rfl <;> decide

/-- **Negation (header MMR torn).** Killing the process after the header hash file was appended
and before the header data file was, leaves a header MMR whose head hash cannot be read:
`Chain::init` fails and the node does not open. -/
theorem header_torn_bricks :
    recover bc tbl9 (crashAfter tgt9 (consistent old8) blockSteps 3) = .openFail .other ∧
    recover bc tbl9 (crashAfter tgt9 (consistent old8) blockSteps 4) = .openFail .other := by decide

/-- a header-only reorganisation: header b9 on b5 with more work than the header head b7 -/
def tblFork : List BlkInfo := old8 ++ [{ id := 9, parent := some 5, work := 20, outs := [9], ins := [] }]
def tgtFork : Target :=
  { newPath := tblFork.take 6 ++ [{ id := 9, parent := some 5, work := 20, outs := [9], ins := [] }],
    forkLen := 6, movesHHead := true, movesHead := false }

/-- **Negation (header reorg window).** During a header reorganisation the header MMR is rewound
and re-extended on disk before the LMDB commit that moves `header_head`; a process death anywhere
in between leaves the MMR on the new fork and `header_head` on the old one: `init_head` reports
"header PMMR inconsistent" and the node does not open. -/
theorem header_reorg_window_bricks :
    ∀ k, 2 ≤ k → k < 6 → recover bc tblFork (crashAfter tgtFork (consistent old8) headerSteps k) = .openFail .other := by
  intro k h1 h2
  have : k = 2 ∨ k = 3 ∨ k = 4 ∨ k = 5 := by omega
  rcases this with rfl | rfl | rfl | rfl <;> decide

/-- … while the completed header acceptance, and a death before the first file step, reopen fine -/
theorem header_reorg_ends_ok :
    recover bc tblFork (crashAfter tgtFork (consistent old8) headerSteps 6) = .ok 7 ∧
    recover bc tblFork (crashAfter tgtFork (consistent old8) headerSteps 1) = .ok 7 := by decide

/-- **Safe prefix, witness chain.** Every crash point of the block acceptance before the header
data append window and, in the txhashset phase, before the leaf-set rename recovers to the old
head (appended-but-uncommitted hash/data entries are truncated away by the rewind). -/
theorem safe_prefix_witness :
    ∀ k, (k ≤ 2 ∨ (5 ≤ k ∧ k ≤ 11)) → recover bc tbl9 (crashAfter tgt9 (consistent old8) blockSteps k) = .ok 7 := by
  intro k h
  have : k = 0 ∨ k = 1 ∨ k = 2 ∨ k = 5 ∨ k = 6 ∨ k = 7 ∨ k = 8 ∨ k = 9 ∨ k = 10 ∨ k = 11 := by omega
  rcases this with rfl | rfl | rfl | rfl | rfl | rfl | rfl | rfl | rfl | rfl <;> decide

/-! ### General statements (all chains) -/

/-- The header part of recovery depends only on the header files and `header_head`: whenever the
hash file and the data file of the header MMR disagree in length, the node does not open —
for every chain and every other content of the durable state. -/
theorem header_len_mismatch_bricks (bcf : Nat → Bool) (tbl : List BlkInfo) (d : Durable)
    (h : d.hdrHash.length ≠ d.hdrData.length) : recover bcf tbl d = .openFail .other := by
  unfold recover
  simp [h]

/-- Steps that only touch the txhashset files or the final commit never change what the header
check of recovery sees. -/
theorem tx_steps_keep_header_files (t : Target) (d : Durable) (s : Step)
    (hs : s = .childCommit ∨ s = .outHashTrunc ∨ s = .outHashApp ∨ s = .outDataTrunc ∨ s = .outDataApp ∨
          s = .leafRename ∨ s = .kerHashTrunc ∨ s = .kerHashApp ∨ s = .kerDataTrunc ∨ s = .kerDataApp) :
    (applyStep t d s).hdrHash = d.hdrHash ∧ (applyStep t d s).hdrData = d.hdrData ∧
    (applyStep t d s).dbHHead = d.dbHHead ∧ (applyStep t d s).dbHead = d.dbHead := by
  rcases hs with h | h | h | h | h | h | h | h | h | h <;> subst h <;> simp [applyStep]

/-- Only the two LMDB commits move `head` / `header_head`: no file step publishes a new head. -/
theorem only_commits_move_heads (t : Target) (d : Durable) (s : Step)
    (h1 : s ≠ .hdrCommit) (h2 : s ≠ .finalCommit) :
    (applyStep t d s).dbHead = d.dbHead ∧ (applyStep t d s).dbHHead = d.dbHHead := by
  cases s <;> simp_all [applyStep]

/-- **Every chain: a cleanly stopped node reopens on its head.** For any block table and any stored
path (genesis first) ending in `tip`, the consistent durable state of that path — head and
header head = `tip`, every MMR file holding exactly the path's entries, leaf set = replayed
unspent set — is recovered by `Chain::init`'s model as `ok tip`: the header-MMR check passes and
the fallback loop stops at its first candidate. (No bound on the chain's length or shape.) -/
theorem recover_consistent (bcf : Nat → Bool) (tbl : List BlkInfo) (path : List BlkInfo) (tip : Nat)
    (hp : pathOf tbl (tbl.length + 1) tip [] = some path)
    (htip : (path.getLast?.map (·.id)).getD 0 = tip) :
    recover bcf tbl (consistent path) = .ok tip := by
  unfold recover
  have hd : (consistent path).dbHHead = tip := by simp [consistent, htip]
  have hh : (consistent path).dbHead = tip := by simp [consistent, htip]
  have e1 : (consistent path).hdrHash.length = (consistent path).hdrData.length := by simp [consistent]
  have e2 : (consistent path).hdrData = path.map (·.id) := by simp [consistent]
  rw [if_neg (by simpa using e1), hd, hp]
  have t : List.take path.length (List.map (fun x => x.id) path) = List.map (fun x => x.id) path := by
    rw [← List.length_map (f := fun (x : BlkInfo) => x.id)]; exact List.take_length
  simp only [e2, t, ne_eq, not_true_eq_false, if_false, hh]
  unfold fallback
  simp only [hp]
  split
  · rfl
  · simp [validAt_consistent]

-- non-vacuity: the 8-block prefix of the witness chain
example : recover bc tbl9 (consistent old8) = .ok 7 :=
  recover_consistent bc tbl9 old8 7 (by decide) (by decide)

/-! ### Plain extension, every chain (task 1)

`PlainExt tbl O b t`: in the block table `tbl` the stored path of the old tip is `O`, the stored
path of the new block `b` is `O ++ [b]`, and the target `t` describes exactly this acceptance.
No bound on the length or shape of the chain, on what the blocks spend or create, or on which
heights commit to the bitmap. -/

/-- **Characterisation of the safe durable states (all chains).** If the header files are consistent
with `header_head` (equal counts; the data file holds the path of `header_head`), and the state
agrees with the consistent state of `O` on the body head, the leaf set and the `O`-prefix of the
output hash/data and kernel hash/data files (whatever was appended behind those prefixes), then
`Chain::init` reopens on the tip of `O`. -/
theorem recover_of_agrees_old (bcf : Nat → Bool) (tbl O : List BlkInfo) (d : Durable)
    (hO : pathOf tbl (tbl.length + 1) (tipOf O) [] = some O)
    (hh : HdrOk tbl d) (ha : AgreesOld O d) :
    recover bcf tbl d = .ok (tipOf O) :=
  recover_of_agrees bcf tbl O d hO hh ha

/-- **Safe steps of a plain extension, all chains.** A process death before the header window
(`k ≤ 2`) or between the header data append and the leaf-set rename (`5 ≤ k ≤ 11`) reopens on the
old tip: appended-but-uncommitted header, output and kernel entries are ignored / truncated away. -/
theorem safe_prefix_all (bcf : Nat → Bool) (tbl O : List BlkInfo) (b : BlkInfo) (t : Target)
    (h : PlainExt tbl O b t) (k : Nat) (hk : k ≤ 2 ∨ (5 ≤ k ∧ k ≤ 11)) :
    recover bcf tbl (crashAfter t (consistent O) blockSteps k) = .ok (tipOf O) := by
  rw [crashAfter_ext t O b h.newPath h.forkLen k]
  apply recover_of_agrees bcf tbl O _ h.old
  · exact extState_hdrOk tbl O b t h _ _ k (by omega)
  · exact extState_agrees O b _ _ k (by omega)

/-- **Completed acceptance, all chains.** After the last step (the final LMDB commit) the node
reopens on the new block. -/
theorem completed_extension_all (bcf : Nat → Bool) (tbl O : List BlkInfo) (b : BlkInfo) (t : Target)
    (h : PlainExt tbl O b t) (hm : t.movesHead = true) (k : Nat) (hk : 17 ≤ k) :
    recover bcf tbl (crashAfter t (consistent O) blockSteps k) = .ok b.id := by
  rw [crashAfter_ext t O b h.newPath h.forkLen k, hm]
  have := recover_of_agrees bcf tbl (O ++ [b]) (extState O b t.movesHHead true k)
    (by rw [tipOf_snoc]; exact h.new) (extState_hdrOk tbl O b t h _ _ k (by omega))
    (extState_agrees_new O b _ k hk)
  rwa [tipOf_snoc] at this

-- non-vacuity: the witness chain is a plain extension; the general theorems give its safe steps
example : PlainExt tbl9 old8 (blk 8 [6]) tgt9 := ⟨by decide, by decide, by decide, by decide⟩
example : recover bc tbl9 (crashAfter tgt9 (consistent old8) blockSteps 9) = .ok 7 :=
  safe_prefix_all bc tbl9 old8 (blk 8 [6]) tgt9 ⟨by decide, by decide, by decide, by decide⟩ 9 (by omega)
example : recover bc tbl9 (crashAfter tgt9 (consistent old8) blockSteps 17) = .ok 8 :=
  completed_extension_all bc tbl9 old8 (blk 8 [6]) tgt9 ⟨by decide, by decide, by decide, by decide⟩ rfl 17 (by omega)

/-! ### Header windows, every chain (task 3) -/

/-- **Header MMR torn, all chains.** Plain extension killed after the header hash file was appended
and before the header data file was (`k = 3, 4`): `Chain::init` fails, for every chain. -/
theorem header_torn_bricks_all (bcf : Nat → Bool) (tbl O : List BlkInfo) (b : BlkInfo) (t : Target)
    (h : PlainExt tbl O b t) (k : Nat) (hk : k = 3 ∨ k = 4) :
    recover bcf tbl (crashAfter t (consistent O) blockSteps k) = .openFail .other := by
  rw [crashAfter_ext t O b h.newPath h.forkLen k]
  apply header_len_mismatch_bricks
  rcases hk with rfl | rfl <;> simp [extState]

/-- **Header reorganisation window, all chains.** While a header on another fork is being accepted
(the header MMR is rewound to the fork point and re-extended on disk before the LMDB commit that
moves `header_head`), a process death after the hash-file truncate and before that commit leaves
files that do not match `header_head`: `Chain::init` fails. `k = 2, 4, 5` for every fork; `k = 3`
whenever the new header path and the old one differ in length. -/
theorem header_reorg_window_bricks_all (bcf : Nat → Bool) (tbl O N : List BlkInfo) (t : Target)
    (h : HdrReorg tbl O N t) (k : Nat) (hk : k = 2 ∨ (k = 3 ∧ N.length ≠ O.length) ∨ k = 4 ∨ k = 5) :
    recover bcf tbl (crashAfter t (consistent O) headerSteps k) = .openFail .other := by
  rw [crashAfter_hdr t O k, h.newPath]
  have h1 := h.lt_old
  have h2 := h.lt_new
  rcases hk with rfl | ⟨rfl, hne⟩ | rfl | rfl
  · apply header_len_mismatch_bricks
    simp [hdrState]; omega
  · apply header_len_mismatch_bricks
    simpa [hdrState] using hne
  · apply header_len_mismatch_bricks
    simp [hdrState]; omega
  · apply recover_hdr_mismatch bcf tbl _ O (by simp [hdrState])
    · simpa [hdrState] using h.old
    · simp only [hdrState, Nat.le_refl, if_true]
      intro heq
      apply h.diverge
      rw [← heq, List.getElem?_take_of_lt h1]

/-- the same window in a block acceptance that reorganises the header chain (its first six steps
are the header acceptance) -/
theorem block_reorg_header_window_bricks_all (bcf : Nat → Bool) (tbl O N : List BlkInfo) (t : Target)
    (h : HdrReorg tbl O N t) (k : Nat) (hk : k = 2 ∨ (k = 3 ∧ N.length ≠ O.length) ∨ k = 4 ∨ k = 5) :
    recover bcf tbl (crashAfter t (consistent O) blockSteps k) = .openFail .other := by
  rw [crashAfter_block_le6 t _ k (by omega)]
  exact header_reorg_window_bricks_all bcf tbl O N t h k hk

/-- **… and its ends, all chains.** Before the first file step, and after the commit that moves
`header_head` (`k ≥ 6`), the node reopens on the old body head (the header chain is then on the
new fork, the body chain still on the old one — the normal state of a header-first node). -/
theorem header_reorg_ends_ok_all (bcf : Nat → Bool) (tbl O N : List BlkInfo) (t : Target)
    (h : HdrReorg tbl O N t) (hm : t.movesHHead = true) (k : Nat) (hk : k ≤ 1 ∨ 6 ≤ k) :
    recover bcf tbl (crashAfter t (consistent O) headerSteps k) = .ok (tipOf O) := by
  rw [crashAfter_hdr t O k, h.newPath, hm]
  apply recover_of_agrees bcf tbl O _ h.old _ (hdrState_agrees O N _ _ k)
  rcases hk with hk | hk
  · have e2 : ¬ 2 ≤ k := by omega
    have e3 : ¬ 3 ≤ k := by omega
    have e4 : ¬ 4 ≤ k := by omega
    have e5 : ¬ 5 ≤ k := by omega
    have e6 : ¬ (6 ≤ k) := by omega
    exact ⟨by simp [hdrState, e2, e3, e4, e5], O, by simpa [hdrState, e6] using h.old,
      by simp [hdrState, e4, e5]⟩
  · have e3 : 3 ≤ k := by omega
    have e5 : 5 ≤ k := by omega
    exact ⟨by simp [hdrState, e3, e5], N, by simpa [hdrState, hk] using h.new,
      by simp [hdrState, e5]⟩

/-- **Model prediction (not among the enumerated scenarios): equal-length fork, `k = 3`.** When the
new header path is exactly as long as the old one, the crash point "hash file on the new fork, data
file still on the old" passes both checks of `Chain::init` (they read the data file only): the
node opens on the old head with a header hash file that belongs to the other fork. -/
theorem header_reorg_equal_length_silent (bcf : Nat → Bool) (tbl O N : List BlkInfo) (t : Target)
    (h : HdrReorg tbl O N t) (hlen : N.length = O.length) :
    let d := crashAfter t (consistent O) headerSteps 3
    recover bcf tbl d = .ok (tipOf O) ∧ d.hdrHash ≠ d.hdrData := by
  simp only
  rw [crashAfter_hdr t O 3, h.newPath]
  refine ⟨?_, ?_⟩
  · apply recover_of_agrees bcf tbl O _ h.old _ (hdrState_agrees O N _ _ 3)
    exact ⟨by simp [hdrState, hlen], O, by simpa [hdrState] using h.old, by simp [hdrState]⟩
  · simp only [hdrState]
    intro heq
    apply h.diverge
    simp at heq
    rw [heq]

-- non-vacuity: the witness header reorganisation (header b9 on b5 against header head b7)
example : HdrReorg tblFork old8 tgtFork.newPath tgtFork :=
  ⟨by decide, by decide, rfl, by decide, by decide, by decide⟩
example : recover bc tblFork (crashAfter tgtFork (consistent old8) headerSteps 3) = .openFail .other :=
  header_reorg_window_bricks_all bc tblFork old8 tgtFork.newPath tgtFork
    ⟨by decide, by decide, rfl, by decide, by decide, by decide⟩ 3 (Or.inr (Or.inl ⟨rfl, by decide⟩))
-- an equal-length fork: header b9' on b6 (same height as the header head b7, more work)
def tblEq : List BlkInfo := old8 ++ [{ id := 9, parent := some 6, work := 20, outs := [9], ins := [] }]
def tgtEq : Target :=
  { newPath := tblEq.take 7 ++ [{ id := 9, parent := some 6, work := 20, outs := [9], ins := [] }],
    forkLen := 7, movesHHead := true, movesHead := false }
example : HdrReorg tblEq old8 tgtEq.newPath tgtEq ∧ tgtEq.newPath.length = old8.length :=
  ⟨⟨by decide, by decide, rfl, by decide, by decide, by decide⟩, by decide⟩

/-! ### The txhashset window, every chain (task 2)

`lost O b` = the leaves of the old unspent set that are missing from the leaf set of `O ++ [b]`,
i.e. what `b` spends. `BlocksWF O`: no block of `O` lists an output or an input twice. Block ids
on a stored path are pairwise distinct (`pathOf_ids_nodup`, proved — a repeated id would be a parent
cycle), so every leaf `(creating block, output id)` is created once. -/

/-- every leaf of a well-formed plain extension is created exactly once -/
theorem plainExt_leaves_nodup (tbl O : List BlkInfo) (b : BlkInfo) (t : Target) (h : PlainExt tbl O b t)
    (hwf : BlocksWF O) (hbo : b.outs.Nodup) : (leavesOf (O ++ [b])).Nodup := by
  apply leavesOf_nodup _ (pathOf_ids_nodup tbl _ b.id _ h.new)
  intro x hx
  rcases List.mem_append.1 hx with hx | hx
  · exact hwf.outs x hx
  · simp at hx; subst hx; exact hbo

/-- **Coinbase-only blocks are crash-safe, all chains.** A block that spends nothing reopens on the
old tip at every crash point before the final commit except the header window `k = 3, 4`: its leaf
set only adds leaves beyond the old output MMR size, which the rewind drops. -/
theorem no_inputs_crash_safe (bcf : Nat → Bool) (tbl O : List BlkInfo) (b : BlkInfo) (t : Target)
    (h : PlainExt tbl O b t) (hins : b.ins = []) (k : Nat) (hk : k < 17) (hk3 : k ≠ 3) (hk4 : k ≠ 4) :
    recover bcf tbl (crashAfter t (consistent O) blockSteps k) = .ok (tipOf O) := by
  by_cases hle : k ≤ 11
  · exact safe_prefix_all bcf tbl O b t h k (by omega)
  · have h12 : 12 ≤ k := by omega
    rw [crashAfter_ext t O b h.newPath h.forkLen k]
    have hd := extState_window O b t.movesHHead t.movesHead k h12 (by omega)
    rw [recover_of_hdrOk bcf tbl _ (extState_hdrOk tbl O b t h _ _ k (by omega)), hd.1]
    apply fallback_stop bcf tbl _ _ _ _ O h.old
    right
    apply validAt_true_of bcf _ [] O (extState_files O b _ _ k O [] (by simp))
    intro l
    rw [hd.2]
    simp only [applyU, hins, List.foldl_nil, List.mem_append, List.not_mem_nil, or_false]
    constructor
    · intro hl; exact ⟨unspentOf_subset_leaves O l hl, Or.inl hl⟩
    · rintro ⟨hlO, hl | hl⟩
      · exact hl
      · exfalso
        -- a leaf of `b` cannot have been created on `O`: `b.id` is not an id of `O`
        have hids := pathOf_ids_nodup tbl _ b.id _ h.new
        rw [List.map_append, List.nodup_append] at hids
        obtain ⟨x, hx, hxid, _⟩ := (mem_leavesOf O l).1 hlO
        have : l.1 = b.id := by
          simp only [List.mem_map] at hl
          obtain ⟨o, _, rfl⟩ := hl; rfl
        exact hids.2.2 x.id (List.mem_map.2 ⟨x, hx, rfl⟩) b.id (by simp) (by rw [hxid, this])

/-- **The txhashset window violates the property, all chains.** If `b` spends at least one output
that is unspent on the old path and the old tip's header commits to the bitmap, then a process
death after the leaf-set rename and before the final commit (`12 ≤ k ≤ 16`) makes the node reopen
on a block that is NEITHER the old tip NOR the new block: it is a strict ancestor of the old tip
(blocks are forgotten; re-delivering `b` alone cannot restore the head). -/
theorem txhashset_window_violates_all (bcf : Nat → Bool) (tbl O : List BlkInfo) (b : BlkInfo) (t : Target)
    (h : PlainExt tbl O b t) (h2 : 2 ≤ O.length) (hwf : BlocksWF O) (hbo : b.outs.Nodup)
    (hspend : ∃ o ∈ b.ins, ∃ l ∈ unspentOf O, l.2 = o)
    (hbc : bcf (O.length - 1) = true) (k : Nat) (hk : 12 ≤ k ∧ k ≤ 16) :
    ∃ a, recover bcf tbl (crashAfter t (consistent O) blockSteps k) = .ok a ∧
      a ≠ tipOf O ∧ a ≠ b.id ∧ a ∈ O.dropLast.map (·.id) := by
  have hn := plainExt_leaves_nodup tbl O b t h hwf hbo
  have hnO : (leavesOf O).Nodup := by
    rw [leavesOf_append] at hn; exact (List.nodup_append.1 hn).1
  obtain ⟨l, hl⟩ := lost_ne_nil O b hnO hspend
  rw [crashAfter_ext t O b h.newPath h.forkLen k]
  have hd := extState_window O b t.movesHHead t.movesHead k hk.1 hk.2
  have hw := extState_inWindow O b t.movesHHead t.movesHead k hk.1
  rw [recover_of_hdrOk bcf tbl _ (extState_hdrOk tbl O b t h _ _ k (by omega)), hd.1]
  have hOne : O ≠ [] := by intro e; rw [e] at h2; simp at h2
  obtain ⟨O0, x0, hO⟩ : ∃ O0 x0, O = O0 ++ [x0] :=
    ⟨O.dropLast, O.getLast hOne, (List.dropLast_concat_getLast hOne).symm⟩
  have hO0 : O0 ≠ [] := by intro e; rw [hO, e] at h2; simp at h2
  have hinv := window_invalid bcf O b _ O [] hw (by simp) hn hwf hbc l hl
    (unspentOf_subset_leaves O l ((mem_lost O b l).1 hl).1)
  have hpre : ∀ Q S, Q ++ S = O → Q ≠ [] → pathOf tbl (tbl.length + 1) (tipOf Q) [] = some Q := by
    intro Q S e hne
    exact pathOf_prefix tbl _ Q hne S (tipOf O) (by rw [e]; exact h.old)
  have hstep : ∀ d', validAt bcf d' [] (O0 ++ [x0]) = false →
      fallback bcf tbl d' (tbl.length + 1) (tipOf (O0 ++ [x0])) [] =
      fallback bcf tbl d' tbl.length (tipOf O0) ([] ++ spentLeaves (unspentOf O0) x0) := by
    intro d' hv
    exact fallback_step bcf tbl d' tbl.length [] O0 x0 hO0 (by rw [← hO]; exact h.old) hv
  simp only [undo] at hinv
  rw [hO] at hinv ⊢
  rw [hstep _ hinv]
  obtain ⟨Q', S, e, hne, hr⟩ := fallback_lands bcf tbl (extState (O0 ++ [x0]) b t.movesHHead t.movesHead k)
    tbl.length O0 ([] ++ spentLeaves (unspentOf O0) x0) hO0
    (fun Q' S e hne => hpre Q' (S ++ [x0]) (by rw [← List.append_assoc, e, hO]) hne)
  refine ⟨tipOf Q', hr, ?_⟩
  obtain ⟨Q'', z, hz⟩ : ∃ Q'' z, Q' = Q'' ++ [z] :=
    ⟨Q'.dropLast, Q'.getLast hne, (List.dropLast_concat_getLast hne).symm⟩
  have hzO0 : z ∈ O0 := by rw [← e, hz]; simp
  have hids := pathOf_ids_nodup tbl _ b.id _ h.new
  rw [hO, List.append_assoc, List.map_append, List.nodup_append] at hids
  have hzid : z.id ∈ O0.map (·.id) := List.mem_map.2 ⟨z, hzO0, rfl⟩
  rw [hz, tipOf_snoc, tipOf_snoc, List.dropLast_concat]
  exact ⟨hids.2.2 z.id hzid x0.id (by simp), hids.2.2 z.id hzid b.id (by simp), hzid⟩

/-- **Where exactly the node lands, all chains.** Split the old path as `M ++ x :: T` where `x` is the
block that created the earliest-created leaf `b` spends (`x` created a lost leaf, no block of `M`
did), `M ≠ []` (so `x` is not genesis) and every height from `x` up to the old tip commits to the
bitmap. Then every crash point of the window reopens on the tip of `M` — the **parent of the
block that created the earliest-created spent output** — having forgotten `x`, `T` and `b`. (This is
what the real node shows at each of the enumerated crash points.) -/
theorem txhashset_window_exact (bcf : Nat → Bool) (tbl O M T : List BlkInfo) (x b : BlkInfo) (t : Target)
    (h : PlainExt tbl O b t) (hsplit : O = M ++ x :: T) (hM : M ≠ [])
    (hwf : BlocksWF O) (hbo : b.outs.Nodup)
    (hx : ∃ l ∈ lost O b, l ∈ leavesOf [x])
    (hfirst : ∀ l ∈ lost O b, l ∉ leavesOf M)
    (hbc : ∀ i, M.length ≤ i → i < O.length → bcf i = true)
    (k : Nat) (hk : 12 ≤ k ∧ k ≤ 16) :
    recover bcf tbl (crashAfter t (consistent O) blockSteps k) = .ok (tipOf M) := by
  have hn := plainExt_leaves_nodup tbl O b t h hwf hbo
  rw [crashAfter_ext t O b h.newPath h.forkLen k]
  have hd := extState_window O b t.movesHHead t.movesHead k hk.1 hk.2
  have hw := extState_inWindow O b t.movesHHead t.movesHead k hk.1
  rw [recover_of_hdrOk bcf tbl _ (extState_hdrOk tbl O b t h _ _ k (by omega)), hd.1]
  have hpre : ∀ Q S, Q ++ S = M ++ x :: T → Q ≠ [] → pathOf tbl (tbl.length + 1) (tipOf Q) [] = some Q := by
    intro Q S e hne
    exact pathOf_prefix tbl _ Q hne S (tipOf O) (by rw [e, ← hsplit]; exact h.old)
  have hlen : (x :: T).length < tbl.length + 1 := by
    have h1 := pathOf_length_le tbl _ _ _ h.old
    have h2 : M.length ≠ 0 := fun e => hM (List.length_eq_zero_iff.mp e)
    rw [hsplit] at h1
    simp only [List.length_append, List.length_cons] at h1 ⊢
    omega
  have hwalk := fallback_walk bcf tbl (extState O b t.movesHHead t.movesHead k) M hM (x :: T) []
    (tbl.length + 1) hlen hpre ?_ ?_
  · have e : tipOf O = tipOf (M ++ x :: T) := by rw [hsplit]
    rw [e]; simpa [undo] using hwalk
  · -- every candidate that still contains `x` fails validation
    intro T1 y T2 e
    obtain ⟨l, hl, hlx⟩ := hx
    have hxQ : x ∈ M ++ T1 ++ [y] := by
      cases T1 with
      | nil => simp at e; simp [e.1]
      | cons z T1' => simp at e; simp [e.1]
    have hlQ : l ∈ leavesOf (M ++ T1 ++ [y]) := by
      obtain ⟨z, hz, h1, h2⟩ := (mem_leavesOf [x] l).1 hlx
      simp at hz; subst hz
      exact (mem_leavesOf _ l).2 ⟨z, hxQ, h1, h2⟩
    have hQR : (M ++ T1 ++ [y]) ++ (T2 ++ []) = O := by rw [hsplit, e]; simp
    apply window_invalid bcf O b _ _ _ hw hQR hn hwf _ l hl hlQ
    apply hbc
    · simp
    · rw [← hQR]; simp
  · right
    exact window_valid bcf O b _ M (x :: T ++ []) hw (by rw [hsplit]; simp) hn hwf hfirst

-- non-vacuity on the witness chain: b8 spends o6, created by b6 = `x`; `M` = b0..b5, `T` = [b7]
example : recover bc tbl9 (crashAfter tgt9 (consistent old8) blockSteps 14) = .ok 5 :=
  txhashset_window_exact bc tbl9 old8 (tbl9.take 6) [blk 7 []] (blk 6 []) (blk 8 [6]) tgt9
    ⟨by decide, by decide, by decide, by decide⟩ (by decide) (by decide)
    ⟨by decide, by decide⟩ (by decide) (by decide) (by decide)
    (by intro i h1 h2; have : 6 ≤ i := h1; simp [bc, this]) 14 (by omega)
example : ∃ a, recover bc tbl9 (crashAfter tgt9 (consistent old8) blockSteps 12) = .ok a ∧
    a ≠ tipOf old8 ∧ a ≠ (blk 8 [6]).id ∧ a ∈ old8.dropLast.map (·.id) :=
  txhashset_window_violates_all bc tbl9 old8 (blk 8 [6]) tgt9
    ⟨by decide, by decide, by decide, by decide⟩ (by decide) ⟨by decide, by decide⟩ (by decide)
    (by decide) (by decide) 12 (by omega)

/-- **General form of the walk in the window, all chains, any bitmap-commitment function.** The
fallback loop stops at the longest prefix `M` of the old path that is genesis, or whose header does
not commit to the bitmap, or that contains the creation of no lost leaf — provided every longer
prefix commits to the bitmap and contains the creation of a lost leaf. -/
theorem txhashset_window_general (bcf : Nat → Bool) (tbl O M T : List BlkInfo) (b : BlkInfo) (t : Target)
    (h : PlainExt tbl O b t) (hsplit : O = M ++ T) (hM : M ≠ [])
    (hwf : BlocksWF O) (hbo : b.outs.Nodup)
    (hstop : M.length ≤ 1 ∨ bcf (M.length - 1) = false ∨ ∀ l ∈ lost O b, l ∉ leavesOf M)
    (habove : ∀ T1 y T2, T = T1 ++ y :: T2 →
      bcf (M.length + T1.length) = true ∧ ∃ l ∈ lost O b, l ∈ leavesOf (M ++ T1 ++ [y]))
    (k : Nat) (hk : 12 ≤ k ∧ k ≤ 16) :
    recover bcf tbl (crashAfter t (consistent O) blockSteps k) = .ok (tipOf M) := by
  have hn := plainExt_leaves_nodup tbl O b t h hwf hbo
  rw [crashAfter_ext t O b h.newPath h.forkLen k]
  have hd := extState_window O b t.movesHHead t.movesHead k hk.1 hk.2
  have hw := extState_inWindow O b t.movesHHead t.movesHead k hk.1
  rw [recover_of_hdrOk bcf tbl _ (extState_hdrOk tbl O b t h _ _ k (by omega)), hd.1]
  have hpre : ∀ Q S, Q ++ S = M ++ T → Q ≠ [] → pathOf tbl (tbl.length + 1) (tipOf Q) [] = some Q := by
    intro Q S e hne
    exact pathOf_prefix tbl _ Q hne S (tipOf O) (by rw [e, ← hsplit]; exact h.old)
  have hlen : T.length < tbl.length + 1 := by
    have h1 := pathOf_length_le tbl _ _ _ h.old
    have h2 : M.length ≠ 0 := fun e => hM (List.length_eq_zero_iff.mp e)
    rw [hsplit] at h1
    simp only [List.length_append] at h1
    omega
  have hwalk := fallback_walk bcf tbl (extState O b t.movesHHead t.movesHead k) M hM T []
    (tbl.length + 1) hlen hpre ?_ ?_
  · have e : tipOf O = tipOf (M ++ T) := by rw [hsplit]
    rw [e]; simpa [undo] using hwalk
  · intro T1 y T2 e
    obtain ⟨hb, l, hl, hlQ⟩ := habove T1 y T2 e
    have hQR : (M ++ T1 ++ [y]) ++ (T2 ++ []) = O := by rw [hsplit, e]; simp
    apply window_invalid bcf O b _ _ _ hw hQR hn hwf _ l hl hlQ
    have : (M ++ T1 ++ [y]).length - 1 = M.length + T1.length := by simp
    rw [this]; exact hb
  · have hQR : M ++ (T ++ []) = O := by rw [hsplit]; simp
    rcases hstop with h1 | h1 | h1
    · exact Or.inl h1
    · exact Or.inr (validAt_true_of_not_bc bcf _ _ M (hw.files M _ hQR) h1)
    · exact Or.inr (window_valid bcf O b _ M (T ++ []) hw hQR hn hwf h1)

/-- **Before the bitmap is committed (header version < 3): the wrong state is accepted, all
chains.** If the old tip's header does not commit to the bitmap, every crash point of the window
reopens on the old tip — with a leaf set from which the outputs `b` spends are silently missing
although they are unspent on the reopened chain. -/
theorem txhashset_window_precommit_silent (bcf : Nat → Bool) (tbl O : List BlkInfo) (b : BlkInfo) (t : Target)
    (h : PlainExt tbl O b t) (hwf : BlocksWF O) (hbo : b.outs.Nodup)
    (hbc : bcf (O.length - 1) = false) (k : Nat) (hk : 12 ≤ k ∧ k ≤ 16) :
    let d := crashAfter t (consistent O) blockSteps k
    recover bcf tbl d = .ok (tipOf O) ∧ ∀ l ∈ lost O b, l ∈ unspentOf O ∧ l ∉ d.leaf := by
  simp only
  refine ⟨?_, ?_⟩
  · exact txhashset_window_general bcf tbl O O [] b t h (by simp) (pathOf_ne_nil tbl _ _ O h.old) hwf hbo
      (Or.inr (Or.inl hbc)) (by intro T1 y T2 e; simp at e) k hk
  · intro l hl
    have hn := plainExt_leaves_nodup tbl O b t h hwf hbo
    rw [crashAfter_ext t O b h.newPath h.forkLen k]
    have hd := extState_window O b t.movesHHead t.movesHead k hk.1 hk.2
    obtain ⟨hu, hnot⟩ := (mem_lost O b l).1 hl
    refine ⟨hu, ?_⟩
    rw [hd.2, window_leaf_mem O b hn l (unspentOf_subset_leaves O l hu)]
    exact hnot

/-- **A spent genesis output walks the node back to genesis.** If `b` spends a leaf created by the
first block of the old path and every later height commits to the bitmap, every crash point of the
window reopens on genesis. -/
theorem txhashset_window_to_genesis (bcf : Nat → Bool) (tbl O T : List BlkInfo) (g b : BlkInfo) (t : Target)
    (h : PlainExt tbl O b t) (hsplit : O = g :: T)
    (hwf : BlocksWF O) (hbo : b.outs.Nodup)
    (hg : ∃ l ∈ lost O b, l ∈ leavesOf [g])
    (hbc : ∀ i, 1 ≤ i → i < O.length → bcf i = true)
    (k : Nat) (hk : 12 ≤ k ∧ k ≤ 16) :
    recover bcf tbl (crashAfter t (consistent O) blockSteps k) = .ok g.id := by
  have := txhashset_window_general bcf tbl O [g] T b t h (by rw [hsplit]; simp) (by simp) hwf hbo
    (Or.inl (by simp)) ?_ k hk
  · simpa [tipOf] using this
  · intro T1 y T2 e
    refine ⟨hbc _ (by simp) (by rw [hsplit, e]; simp; omega), ?_⟩
    obtain ⟨l, hl, hlg⟩ := hg
    refine ⟨l, hl, ?_⟩
    rw [List.append_assoc, leavesOf_append]
    exact List.mem_append_left _ hlg

-- non-vacuity: on the witness chain with NO height committing to the bitmap the window reopens on
-- the old tip b7 with o6 missing from the leaf set
example : recover (fun _ => false) tbl9 (crashAfter tgt9 (consistent old8) blockSteps 12) = .ok 7 ∧
    ∀ l ∈ lost old8 (blk 8 [6]), l ∈ unspentOf old8 ∧
      l ∉ (crashAfter tgt9 (consistent old8) blockSteps 12).leaf :=
  txhashset_window_precommit_silent (fun _ => false) tbl9 old8 (blk 8 [6]) tgt9
    ⟨by decide, by decide, by decide, by decide⟩ ⟨by decide, by decide⟩ (by decide) rfl 12 (by omega)
example : (6, 6) ∈ lost old8 (blk 8 [6]) := by decide
-- a block spending the genesis output: b2 spends o0 on b0-b1
def tblG : List BlkInfo := [blk 0 [], blk 1 [], blk 2 [0]]
def tgtG : Target := { newPath := tblG, forkLen := 2, movesHHead := true, movesHead := true }
example : recover (fun _ => true) tblG (crashAfter tgtG (consistent (tblG.take 2)) blockSteps 13) = .ok 0 :=
  txhashset_window_to_genesis (fun _ => true) tblG (tblG.take 2) [blk 1 []] (blk 0 []) (blk 2 [0]) tgtG
    ⟨by decide, by decide, by decide, by decide⟩ (by decide) ⟨by decide, by decide⟩ (by decide)
    (by decide) (by intros; rfl) 13 (by omega)

/-! ### Compaction (task 4; model `Model/CrashCompact.lean`)

Durable steps of `Chain::compact`: for the output MMR and then the range-proof MMR — hash file
removed, compacted hash file renamed into place, data file removed, compacted data file renamed
into place, prune list renamed, leaf set renamed — then the LMDB commit that moves the tail and
deletes old blocks (13 steps). `recoverC` = `recover` with coherence of the compacted files and
deleted blocks taken into account. The model agrees with the real node on all 22 crash points of
the `compaction` scenario and all 65 of `compaction-then-block` of the recorded run. -/

/-- witness chain for compaction: b3 spends o1, so a compaction with its horizon at height 5
prunes the leaf (1, o1) -/
def tblC : List BlkInfo :=
  [blk 0 [], blk 1 [], blk 2 [], blk 3 [1], blk 4 [], blk 5 [], blk 6 [], blk 7 [], blk 8 []]
def ctgt : CTarget := { newPrun := prunedAt tblC 5, newTail := 5 }

/-- **Negation (interrupted compaction).** Killing a first compaction between the removal of the
output (or range-proof) hash file and the rename of the matching prune list makes the node reopen
on GENESIS (every stored block is forgotten), although the chain had 9 blocks. -/
theorem compaction_interrupted_witness :
    prunedAt tblC 5 = [(1, 1)] ∧
    (∀ k, (1 ≤ k ∧ k ≤ 4) ∨ (7 ≤ k ∧ k ≤ 10) →
      recoverC bc tblC (crashAfterC ctgt (consistentC tblC [] 0) k) = .ok 0) ∧
    (∀ k, k = 0 ∨ k = 5 ∨ k = 6 ∨ k = 11 ∨ k = 12 ∨ k = 13 →
      recoverC bc tblC (crashAfterC ctgt (consistentC tblC [] 0) k) = .ok 8) := by
  refine ⟨by decide, ?_, ?_⟩
  · intro k hk
    have : k = 1 ∨ k = 2 ∨ k = 3 ∨ k = 4 ∨ k = 7 ∨ k = 8 ∨ k = 9 ∨ k = 10 := by omega
    rcases this with rfl | rfl | rfl | rfl | rfl | rfl | rfl | rfl <;> decide
  · intro k hk
    rcases hk with rfl | rfl | rfl | rfl | rfl | rfl <;> decide

/-- **`recoverC` extends `recover` conservatively**: on a node that never compacted (coherent
files, nothing deleted) the two coincide, so every theorem above is also a theorem about `recoverC`. -/
theorem recoverC_conservative (bcf : Nat → Bool) (tbl : List BlkInfo) (d : Durable) (prun : List Leaf) :
    recoverC bcf tbl { base := d, out := PFiles.clean prun, rp := PFiles.clean prun, tail := 0 } =
      recover bcf tbl d :=
  recoverC_eq_recover bcf tbl _ (by simp [PFiles.coherent, PFiles.clean])
    (by simp [PFiles.coherent, PFiles.clean]) rfl

/-- **Safe steps of a compaction, all chains.** Before the first removal, between the output prune
list rename and the range-proof hash removal (`k = 5, 6`), and from the range-proof prune list rename
on (`k ≥ 11`, including the final commit) the node reopens on its head — for every chain, every
old prune list / tail and every compaction target. -/
theorem compaction_safe_steps_all (bcf : Nat → Bool) (tbl O : List BlkInfo) (prun : List Leaf) (tail : Nat)
    (t : CTarget) (hO : pathOf tbl (tbl.length + 1) (tipOf O) [] = some O)
    (k : Nat) (hk : k = 0 ∨ k = 5 ∨ k = 6 ∨ 11 ≤ k) :
    recoverC bcf tbl (crashAfterC t (consistentC O prun tail) k) = .ok (tipOf O) := by
  rw [crashAfterC_eq]
  obtain ⟨h1, h2⟩ := cState_coherent t O prun tail k hk
  exact recoverC_of_agrees bcf tbl O _ hO h1 h2 (consistent_hdrOk tbl O hO) (consistent_agrees O)

/-- **Interrupted first compaction, all chains.** On a node that has not deleted blocks yet
(`tail ≤ 1`) with at least two blocks, a process death while a hash or data file is absent
(`k = 1, 3, 7, 9`) or — if the compaction prunes anything new — while a compacted file sits beside
the stale prune list (`k = 2, 4, 8, 10`) makes the node reopen on genesis, which is not its head. -/
theorem compaction_interrupted_first_all (bcf : Nat → Bool) (tbl T : List BlkInfo) (g : BlkInfo)
    (prun : List Leaf) (tail : Nat) (t : CTarget)
    (hO : pathOf tbl (tbl.length + 1) (tipOf (g :: T)) [] = some (g :: T)) (hT : T ≠ []) (ht : tail ≤ 1)
    (k : Nat) (hk : k = 1 ∨ k = 3 ∨ k = 7 ∨ k = 9 ∨ (t.newPrun ≠ prun ∧ (k = 2 ∨ k = 4 ∨ k = 8 ∨ k = 10))) :
    recoverC bcf tbl (crashAfterC t (consistentC (g :: T) prun tail) k) = .ok g.id ∧
      g.id ≠ tipOf (g :: T) := by
  have hk13 : ¬ 13 ≤ k := by omega
  refine ⟨?_, ?_⟩
  · rw [crashAfterC_eq]
    have hinc := cState_incoherent t (g :: T) prun tail k hk
    rw [recoverC_of_hdrOk bcf tbl _ (consistent_hdrOk tbl _ hO)]
    have hhead : (cState t (consistentC (g :: T) prun tail) k).base.dbHead = tipOf ([g] ++ T) := by
      simp [cState, consistentC, consistent, tipOf]
    have hpre : ∀ Q S, Q ++ S = [g] ++ T → Q ≠ [] → pathOf tbl (tbl.length + 1) (tipOf Q) [] = some Q := by
      intro Q S e hne
      exact pathOf_prefix tbl _ Q hne S (tipOf (g :: T)) (by rw [e]; exact hO)
    have hlen : T.length < tbl.length + 1 := by
      have := pathOf_length_le tbl _ _ _ hO
      simp at this; omega
    have hwalk := fallbackC_walk bcf tbl (cState t (consistentC (g :: T) prun tail) k) [g] (by simp)
      (.ok g.id) (by simp [cState, consistentC, hk13]; exact ht) T [] (tbl.length + 1) hlen hpre
      (fun T1 x T2 _ => validAtC_of_incoherent bcf _ _ _ hinc)
      (fun f => by
        have := fallbackC_stop bcf tbl (cState t (consistentC (g :: T) prun tail) k) f (tipOf [g])
          (undo [g] (T ++ [])) [g] (hpre [g] T rfl (by simp)) (Or.inl (by simp))
        simpa [tipOf] using this)
    rw [hhead]; simpa [undo] using hwalk
  · obtain ⟨T0, z, hz⟩ : ∃ T0 z, T = T0 ++ [z] :=
      ⟨T.dropLast, T.getLast hT, (List.dropLast_concat_getLast hT).symm⟩
    have hids := pathOf_ids_nodup tbl _ _ _ hO
    rw [hz, List.map_cons, List.nodup_cons] at hids
    have : tipOf (g :: (T0 ++ [z])) = z.id := by
      rw [← List.cons_append, tipOf_snoc]
    rw [hz, this]
    intro e
    apply hids.1
    rw [e]; simp

/-- **Interrupted repeated compaction (model prediction, not among the enumerated scenarios).** On a
node that already deleted the blocks below `tail ≥ 2`, the same crash points make `Chain::init`
FAIL with a store error: the fallback loop needs a deleted block before it finds a valid state. -/
theorem compaction_interrupted_again_all (bcf : Nat → Bool) (tbl M T : List BlkInfo)
    (prun : List Leaf) (t : CTarget)
    (hO : pathOf tbl (tbl.length + 1) (tipOf (M ++ T)) [] = some (M ++ T)) (h2 : 2 ≤ M.length)
    (k : Nat) (hk : k = 1 ∨ k = 3 ∨ k = 7 ∨ k = 9 ∨ (t.newPrun ≠ prun ∧ (k = 2 ∨ k = 4 ∨ k = 8 ∨ k = 10))) :
    recoverC bcf tbl (crashAfterC t (consistentC (M ++ T) prun M.length) k) = .openFail .storeErr := by
  have hk13 : ¬ 13 ≤ k := by omega
  have hM : M ≠ [] := by intro e; rw [e] at h2; simp at h2
  rw [crashAfterC_eq]
  have hinc := cState_incoherent t (M ++ T) prun M.length k hk
  rw [recoverC_of_hdrOk bcf tbl _ (consistent_hdrOk tbl _ hO)]
  have hhead : (cState t (consistentC (M ++ T) prun M.length) k).base.dbHead = tipOf (M ++ T) := by
    simp [cState, consistentC, consistent, tipOf]
  have htail : (cState t (consistentC (M ++ T) prun M.length) k).tail = M.length := by
    simp [cState, consistentC, hk13]
  have hpre : ∀ Q S, Q ++ S = M ++ T → Q ≠ [] → pathOf tbl (tbl.length + 1) (tipOf Q) [] = some Q := by
    intro Q S e hne
    exact pathOf_prefix tbl _ Q hne S (tipOf (M ++ T)) (by rw [e]; exact hO)
  have hlen : T.length < tbl.length + 1 := by
    have := pathOf_length_le tbl _ _ _ hO
    simp at this; omega
  have hwalk := fallbackC_walk bcf tbl (cState t (consistentC (M ++ T) prun M.length) k) M hM
    (.openFail .storeErr) (by rw [htail]; exact Nat.le_refl _) T [] (tbl.length + 1) hlen hpre
    (fun T1 x T2 _ => validAtC_of_incoherent bcf _ _ _ hinc)
    (fun f => fallbackC_brick bcf tbl _ f (tipOf M) _ M (hpre M T rfl hM) (by omega)
      (validAtC_of_incoherent bcf _ _ _ hinc) (by rw [htail]; omega))
  rw [hhead]; simpa [undo] using hwalk

/-! #### Block acceptance on a compacted node (known finding C09-compact-block-window) -/

/-- **Safe steps and completion on a compacted node, all chains**: as on a fresh node. -/
theorem compacted_safe_prefix_all (bcf : Nat → Bool) (tbl O : List BlkInfo) (b : BlkInfo) (t : Target)
    (prun : List Leaf) (tail : Nat)
    (h : PlainExt tbl O b t) (k : Nat) (hk : k ≤ 2 ∨ (5 ≤ k ∧ k ≤ 11)) :
    recoverC bcf tbl (crashAfterCB t (consistentC O prun tail) blockSteps k) = .ok (tipOf O) := by
  obtain ⟨hb, ho, hr, _⟩ := crashAfterCB_base t (consistentC O prun tail) blockSteps k
  obtain ⟨c1, c2⟩ := consistentC_coherent O prun tail
  have hbase : (crashAfterCB t (consistentC O prun tail) blockSteps k).base =
      extState O b t.movesHHead t.movesHead k := by
    rw [hb]; exact crashAfter_ext t O b h.newPath h.forkLen k
  apply recoverC_of_agrees bcf tbl O _ h.old (by rw [ho]; exact c1) (by rw [hr]; exact c2)
  · rw [hbase]; exact extState_hdrOk tbl O b t h _ _ k (by omega)
  · rw [hbase]; exact extState_agrees O b _ _ k (by omega)

/-- **The txhashset window on a compacted node bricks it, all chains.** If `b` spends a leaf created
by a block `x` whose height is below the tail (its creation is older than the blocks the node
kept — the normal case for an old output), and the heights from the tail's parent up commit to the
bitmap, then every crash point of the window makes `Chain::init` FAIL with a store error: the
fallback loop walks down to the tail, still finds the leaf missing, and needs a deleted block.
`O = M ++ x :: (T1 ++ T2)` with the tail at height `|M| + 1 + |T1|`. -/
theorem compacted_window_bricks_all (bcf : Nat → Bool) (tbl O M T1 T2 : List BlkInfo) (x b : BlkInfo)
    (t : Target) (prun : List Leaf) (tail : Nat)
    (h : PlainExt tbl O b t) (hsplit : O = M ++ x :: (T1 ++ T2))
    (htail : tail = M.length + 1 + T1.length) (ht2 : 2 ≤ tail)
    (hwf : BlocksWF O) (hbo : b.outs.Nodup)
    (hx : ∃ l ∈ lost O b, l ∈ leavesOf [x])
    (hbc : ∀ i, tail - 1 ≤ i → i < O.length → bcf i = true)
    (k : Nat) (hk : 12 ≤ k ∧ k ≤ 16) :
    recoverC bcf tbl (crashAfterCB t (consistentC O prun tail) blockSteps k) = .openFail .storeErr := by
  have hn := plainExt_leaves_nodup tbl O b t h hwf hbo
  obtain ⟨hb, ho, hr, htl⟩ := crashAfterCB_base t (consistentC O prun tail) blockSteps k
  obtain ⟨c1, c2⟩ := consistentC_coherent O prun tail
  have hbase : (crashAfterCB t (consistentC O prun tail) blockSteps k).base =
      extState O b t.movesHHead t.movesHead k := by
    rw [hb]; exact crashAfter_ext t O b h.newPath h.forkLen k
  have hco : (crashAfterCB t (consistentC O prun tail) blockSteps k).out.coherent = true := by rw [ho]; exact c1
  have hcr : (crashAfterCB t (consistentC O prun tail) blockSteps k).rp.coherent = true := by rw [hr]; exact c2
  have htl' : (crashAfterCB t (consistentC O prun tail) blockSteps k).tail = tail := by
    rw [htl]; simp [consistentC]
  have hd := extState_window O b t.movesHHead t.movesHead k hk.1 hk.2
  have hw := extState_inWindow O b t.movesHHead t.movesHead k hk.1
  rw [recoverC_of_hdrOk bcf tbl _ (by rw [hbase]; exact extState_hdrOk tbl O b t h _ _ k (by omega)),
    hbase, hd.1]
  -- the level at which the loop gives up: M' = M ++ x :: T1 (length = tail)
  have hM'len : (M ++ x :: T1).length = tail := by simp [htail]; omega
  have hsplit' : O = (M ++ x :: T1) ++ T2 := by rw [hsplit]; simp
  have hpre : ∀ Q S, Q ++ S = (M ++ x :: T1) ++ T2 → Q ≠ [] →
      pathOf tbl (tbl.length + 1) (tipOf Q) [] = some Q := by
    intro Q S e hne
    exact pathOf_prefix tbl _ Q hne S (tipOf O) (by rw [e, ← hsplit']; exact h.old)
  have hlen : T2.length < tbl.length + 1 := by
    have h1 := pathOf_length_le tbl _ _ _ h.old
    rw [hsplit'] at h1
    simp only [List.length_append, List.length_cons] at h1
    omega
  obtain ⟨l, hl, hlx⟩ := hx
  have hxmem : ∀ Q, x ∈ Q → l ∈ leavesOf Q := by
    intro Q hxQ
    obtain ⟨z, hz, h1, h2⟩ := (mem_leavesOf [x] l).1 hlx
    simp at hz; subst hz
    exact (mem_leavesOf _ l).2 ⟨z, hxQ, h1, h2⟩
  have hinvalid : ∀ Q R, Q ++ R = O → x ∈ Q → tail ≤ Q.length →
      validAtC bcf (crashAfterCB t (consistentC O prun tail) blockSteps k) (undo Q R) Q = false := by
    intro Q R hQR hxQ hQlen
    rw [validAtC_of_coherent bcf _ _ _ hco hcr, hbase]
    apply window_invalid bcf O b _ Q R hw hQR hn hwf _ l hl (hxmem Q hxQ)
    apply hbc
    · omega
    · rw [← hQR]; simp; omega
  have hM'ne : M ++ x :: T1 ≠ [] := by simp
  have hwalk := fallbackC_walk bcf tbl (crashAfterCB t (consistentC O prun tail) blockSteps k)
    (M ++ x :: T1) hM'ne (.openFail .storeErr) (by rw [htl', hM'len]; exact Nat.le_refl _)
    T2 [] (tbl.length + 1) hlen hpre ?_ ?_
  · have e : tipOf O = tipOf ((M ++ x :: T1) ++ T2) := by rw [hsplit']
    rw [e]; simpa [undo] using hwalk
  · intro U1 y U2 e
    apply hinvalid _ _ (by rw [hsplit', e]; simp) (by simp)
    simp only [List.length_append, List.length_cons, List.length_nil] at hM'len ⊢
    omega
  · intro f
    apply fallbackC_brick bcf tbl _ f _ _ (M ++ x :: T1) (hpre _ T2 rfl hM'ne)
    · rw [hM'len]; omega
    · exact hinvalid _ _ (by rw [hsplit']; simp) (by simp) (by rw [hM'len]; exact Nat.le_refl _)
    · rw [htl', hM'len]; omega

/-- … while a spent leaf whose creating block (and everything above it) is still stored behaves as on
a fresh node: the loop lands on the parent of the creating block. -/
theorem compacted_window_lands_all (bcf : Nat → Bool) (tbl O M T : List BlkInfo) (x b : BlkInfo) (t : Target)
    (prun : List Leaf) (tail : Nat)
    (h : PlainExt tbl O b t) (hsplit : O = M ++ x :: T) (hM : M ≠ []) (htail : tail ≤ M.length)
    (hwf : BlocksWF O) (hbo : b.outs.Nodup)
    (hx : ∃ l ∈ lost O b, l ∈ leavesOf [x])
    (hfirst : ∀ l ∈ lost O b, l ∉ leavesOf M)
    (hbc : ∀ i, M.length ≤ i → i < O.length → bcf i = true)
    (k : Nat) (hk : 12 ≤ k ∧ k ≤ 16) :
    recoverC bcf tbl (crashAfterCB t (consistentC O prun tail) blockSteps k) = .ok (tipOf M) := by
  have hn := plainExt_leaves_nodup tbl O b t h hwf hbo
  obtain ⟨hb, ho, hr, htl⟩ := crashAfterCB_base t (consistentC O prun tail) blockSteps k
  obtain ⟨c1, c2⟩ := consistentC_coherent O prun tail
  have hbase : (crashAfterCB t (consistentC O prun tail) blockSteps k).base =
      extState O b t.movesHHead t.movesHead k := by
    rw [hb]; exact crashAfter_ext t O b h.newPath h.forkLen k
  have hco : (crashAfterCB t (consistentC O prun tail) blockSteps k).out.coherent = true := by rw [ho]; exact c1
  have hcr : (crashAfterCB t (consistentC O prun tail) blockSteps k).rp.coherent = true := by rw [hr]; exact c2
  have htl' : (crashAfterCB t (consistentC O prun tail) blockSteps k).tail = tail := by
    rw [htl]; simp [consistentC]
  have hd := extState_window O b t.movesHHead t.movesHead k hk.1 hk.2
  have hw := extState_inWindow O b t.movesHHead t.movesHead k hk.1
  rw [recoverC_of_hdrOk bcf tbl _ (by rw [hbase]; exact extState_hdrOk tbl O b t h _ _ k (by omega)),
    hbase, hd.1]
  have hpre : ∀ Q S, Q ++ S = M ++ x :: T → Q ≠ [] → pathOf tbl (tbl.length + 1) (tipOf Q) [] = some Q := by
    intro Q S e hne
    exact pathOf_prefix tbl _ Q hne S (tipOf O) (by rw [e, ← hsplit]; exact h.old)
  have hlen : (x :: T).length < tbl.length + 1 := by
    have h1 := pathOf_length_le tbl _ _ _ h.old
    have h2 : M.length ≠ 0 := fun e => hM (List.length_eq_zero_iff.mp e)
    rw [hsplit] at h1
    simp only [List.length_append, List.length_cons] at h1 ⊢
    omega
  have hwalk := fallbackC_walk bcf tbl (crashAfterCB t (consistentC O prun tail) blockSteps k) M hM
    (.ok (tipOf M)) (by rw [htl']; exact htail) (x :: T) [] (tbl.length + 1) hlen hpre ?_ ?_
  · have e : tipOf O = tipOf (M ++ x :: T) := by rw [hsplit]
    rw [e]; simpa [undo] using hwalk
  · intro T1 y T2 e
    obtain ⟨l, hl, hlx⟩ := hx
    have hxQ : x ∈ M ++ T1 ++ [y] := by
      cases T1 with
      | nil => simp at e; simp [e.1]
      | cons z T1' => simp at e; simp [e.1]
    have hlQ : l ∈ leavesOf (M ++ T1 ++ [y]) := by
      obtain ⟨z, hz, h1, h2⟩ := (mem_leavesOf [x] l).1 hlx
      simp at hz; subst hz
      exact (mem_leavesOf _ l).2 ⟨z, hxQ, h1, h2⟩
    have hQR : (M ++ T1 ++ [y]) ++ (T2 ++ []) = O := by rw [hsplit, e]; simp
    rw [validAtC_of_coherent bcf _ _ _ hco hcr, hbase]
    apply window_invalid bcf O b _ _ _ hw hQR hn hwf _ l hl hlQ
    apply hbc
    · simp
    · rw [← hQR]; simp
  · intro f
    apply fallbackC_stop bcf tbl _ f _ _ M (hpre M (x :: T) rfl hM)
    right
    rw [validAtC_of_coherent bcf _ _ _ hco hcr, hbase]
    exact window_valid bcf O b _ M (x :: T ++ []) hw (by rw [hsplit]; simp) hn hwf hfirst

-- non-vacuity. Compaction: the general theorems on the witness chain `tblC`
example : recoverC bc tblC (crashAfterC ctgt (consistentC tblC [] 0) 4) = .ok 0 ∧ (0 : Nat) ≠ tipOf tblC :=
  compaction_interrupted_first_all bc tblC (tblC.drop 1) (blk 0 []) [] 0 ctgt (by decide) (by decide)
    (by decide) 4 (Or.inr (Or.inr (Or.inr (Or.inr ⟨by decide, Or.inr (Or.inl rfl)⟩))))
example : recoverC bc tblC (crashAfterC ctgt (consistentC tblC [(0, 0)] 5) 8) = .openFail .storeErr :=
  compaction_interrupted_again_all bc tblC (tblC.take 5) (tblC.drop 5) [(0, 0)] ctgt (by decide) (by decide)
    8 (Or.inr (Or.inr (Or.inr (Or.inr ⟨by decide, Or.inr (Or.inr (Or.inl rfl))⟩))))
-- the witness block acceptance on a compacted node with its tail at height 7: b8 spends o6, created
-- by b6, below the tail ⇒ the node does not open
example : recoverC bc tbl9 (crashAfterCB tgt9 (consistentC old8 [] 7) blockSteps 12) = .openFail .storeErr :=
  compacted_window_bricks_all bc tbl9 old8 (tbl9.take 6) [] [blk 7 []] (blk 6 []) (blk 8 [6]) tgt9 [] 7
    ⟨by decide, by decide, by decide, by decide⟩ (by decide) (by decide) (by decide)
    ⟨by decide, by decide⟩ (by decide) (by decide)
    (by intro i h1 h2; have : 6 ≤ i := h1; simp [bc, this]) 12 (by omega)
-- … and with the tail at height 5 the creating block is still stored: lands on b5 as on a fresh node
example : recoverC bc tbl9 (crashAfterCB tgt9 (consistentC old8 [] 5) blockSteps 12) = .ok 5 :=
  compacted_window_lands_all bc tbl9 old8 (tbl9.take 6) [blk 7 []] (blk 6 []) (blk 8 [6]) tgt9 [] 5
    ⟨by decide, by decide, by decide, by decide⟩ (by decide) (by decide) (by decide)
    ⟨by decide, by decide⟩ (by decide) (by decide) (by decide)
    (by intro i h1 h2; have : 6 ≤ i := h1; simp [bc, this]) 12 (by omega)

/-! ### A block that reorganises the body chain, every chain

Old path `F ++ x :: O1`, new path `F ++ y :: N1` (`F` the common prefix, `x.id ≠ y.id`), head and
header head move. Steps 2–5 are the header window (`block_reorg_header_window_bricks_all`). -/

/-- **Reorganising block: where the old head survives and where the new one is reached.** Before
the first file step and between the `header_head` commit and the output-file truncate (`k = 6, 7`)
the node reopens on the old head; after the final commit on the new one. -/
theorem block_reorg_ends_ok_all (bcf : Nat → Bool) (tbl F : List BlkInfo) (x : BlkInfo) (O1 : List BlkInfo)
    (y : BlkInfo) (N1 : List BlkInfo) (t : Target) (h : BlockReorg tbl F x O1 y N1 t) (k : Nat) :
    ((k ≤ 1 ∨ k = 6 ∨ k = 7) →
      recover bcf tbl (crashAfter t (consistent (F ++ x :: O1)) blockSteps k) = .ok (tipOf (F ++ x :: O1))) ∧
    (17 ≤ k →
      recover bcf tbl (crashAfter t (consistent (F ++ x :: O1)) blockSteps k) = .ok (tipOf (F ++ y :: N1))) := by
  rw [crashAfter_reorg t F (x :: O1) (y :: N1) h.newPath h.forkLen h.mvHH h.mvH k]
  refine ⟨?_, ?_⟩
  · intro hk
    apply recover_of_agrees bcf tbl _ _ h.old
    · rcases hk with hk | hk | hk
      · have e2 : ¬ 2 ≤ k := by omega
        have e3 : ¬ 3 ≤ k := by omega
        have e4 : ¬ 4 ≤ k := by omega
        have e5 : ¬ 5 ≤ k := by omega
        have e6 : ¬ 6 ≤ k := by omega
        exact ⟨by simp [reorgState, e2, e3, e4, e5], _, by simpa [reorgState, e6] using h.old,
          by simp [reorgState, e4, e5]⟩
      · subst hk
        exact ⟨by simp [reorgState], _, by simpa [reorgState] using h.new, by simp [reorgState]⟩
      · subst hk
        exact ⟨by simp [reorgState], _, by simpa [reorgState] using h.new, by simp [reorgState]⟩
    · have e8 : ¬ 8 ≤ k := by omega
      have e9 : ¬ 9 ≤ k := by omega
      have e10 : ¬ 10 ≤ k := by omega
      have e11 : ¬ 11 ≤ k := by omega
      have e12 : ¬ 12 ≤ k := by omega
      have e13 : ¬ 13 ≤ k := by omega
      have e14 : ¬ 14 ≤ k := by omega
      have e15 : ¬ 15 ≤ k := by omega
      have e16 : ¬ 16 ≤ k := by omega
      have e17 : ¬ 17 ≤ k := by omega
      refine ⟨by simp [reorgState, e17], by simp [reorgState, e12], ?_⟩
      constructor <;> simp [reorgState, e8, e9, e10, e11, e13, e14, e15, e16]
  · intro hk
    have e : ∀ n, n ≤ 17 → n ≤ k := by intro n hn; omega
    apply recover_of_agrees bcf tbl _ _ h.new
    · exact ⟨by simp [reorgState, e], _, by simpa [reorgState, e] using h.new, by simp [reorgState, e]⟩
    · refine ⟨by simp [reorgState, e], by simp [reorgState, e], ?_⟩
      constructor <;> simp [reorgState, e]

/-- **Reorganising block, output-file window: the node falls back to the fork point, all chains.**
From the truncation of the output hash file to just before the leaf-set rename (`8 ≤ k ≤ 11`) the
output files no longer hold the old fork beyond the fork point, so every old-fork candidate above
it fails; the fork point itself validates (rewinding with the old fork's spent indices is exact).
The node reopens on the last common block: an ancestor of both heads. -/
theorem block_reorg_files_window_all (bcf : Nat → Bool) (tbl F : List BlkInfo) (x : BlkInfo) (O1 : List BlkInfo)
    (y : BlkInfo) (N1 : List BlkInfo) (t : Target) (h : BlockReorg tbl F x O1 y N1 t)
    (hwf : BlocksWF (F ++ x :: O1)) (hx : x.outs ≠ []) (k : Nat) (hk : 8 ≤ k ∧ k ≤ 11) :
    recover bcf tbl (crashAfter t (consistent (F ++ x :: O1)) blockSteps k) = .ok (tipOf F) := by
  rw [crashAfter_reorg t F (x :: O1) (y :: N1) h.newPath h.forkLen h.mvHH h.mvH k]
  have hn : (leavesOf (F ++ x :: O1)).Nodup :=
    leavesOf_nodup _ (pathOf_ids_nodup tbl _ _ _ h.old) hwf.outs
  have e3 : 3 ≤ k := by omega
  have e5 : 5 ≤ k := by omega
  have e6 : 6 ≤ k := by omega
  have e8 : 8 ≤ k := by omega
  have e12 : ¬ 12 ≤ k := by omega
  have e17 : ¬ 17 ≤ k := by omega
  rw [recover_of_hdrOk bcf tbl _ ⟨by simp [reorgState, e3, e5], _, by simpa [reorgState, e6] using h.new,
    by simp [reorgState, e5]⟩]
  have hhead : (reorgState F (x :: O1) (y :: N1) k).dbHead = tipOf (F ++ x :: O1) := by
    simp [reorgState, e17]
  have hpre : ∀ Q S, Q ++ S = F ++ x :: O1 → Q ≠ [] → pathOf tbl (tbl.length + 1) (tipOf Q) [] = some Q := by
    intro Q S e hne
    exact pathOf_prefix tbl _ Q hne S _ (by rw [e]; exact h.old)
  have hlen : (x :: O1).length < tbl.length + 1 := by
    have h1 := pathOf_length_le tbl _ _ _ h.old
    have h2 : F.length ≠ 0 := fun e => h.forkNe (List.length_eq_zero_iff.mp e)
    simp only [List.length_append, List.length_cons] at h1 ⊢
    omega
  have hwalk := fallback_walk bcf tbl (reorgState F (x :: O1) (y :: N1) k) F h.forkNe (x :: O1) []
    (tbl.length + 1) hlen hpre ?_ ?_
  · rw [hhead]; simpa [undo] using hwalk
  · intro T1 z T2 e
    obtain ⟨Q1, hQ1⟩ : ∃ Q1, F ++ T1 ++ [z] = F ++ x :: Q1 := by
      cases T1 with
      | nil => simp at e; exact ⟨[], by simp [e.1]⟩
      | cons w T1' => simp at e; exact ⟨T1' ++ [z], by simp [e.1]⟩
    rw [hQ1]
    apply validAt_false_of_outHash
    apply outHash_mismatch F x Q1 (y :: N1) hx h.new_ids_ne
    by_cases e9 : 9 ≤ k
    · right; simp [reorgState, e9]
    · left; simp [reorgState, e9, e8]
  · right
    have := fork_valid_old_leaf bcf F (x :: O1) (reorgState F (x :: O1) (y :: N1) k)
      (reorgState_files F _ _ k F [] (by simp)) (by simp [reorgState, e12]) hn hwf
    simpa using this

/-- **Reorganising block, leaf-set window, all chains.** After the leaf-set rename and before the
final commit (`12 ≤ k ≤ 16`) the leaf set is the new fork's while only the old fork's spent indices
can be replayed. Every old-fork candidate above the fork point fails on the output files; from the
fork point `F = M ++ TF` down, a candidate validates iff it contains the creation of no leaf that is
unspent on the old path and missing from the new leaf set (`lostIn`), or its header does not commit
to the bitmap. The loop stops at the longest such prefix `M` — possibly far below both heads. -/
theorem block_reorg_leaf_window_all (bcf : Nat → Bool) (tbl M TF : List BlkInfo) (x : BlkInfo) (O1 : List BlkInfo)
    (y : BlkInfo) (N1 : List BlkInfo) (t : Target) (h : BlockReorg tbl (M ++ TF) x O1 y N1 t) (hM : M ≠ [])
    (hwfO : BlocksWF (M ++ TF ++ x :: O1)) (hwfN : BlocksWF (M ++ TF ++ y :: N1)) (hx : x.outs ≠ [])
    (hstop : M.length ≤ 1 ∨ bcf (M.length - 1) = false ∨
      ∀ l ∈ lostIn (M ++ TF ++ x :: O1) (unspentOf (M ++ TF ++ y :: N1)), l ∉ leavesOf M)
    (habove : ∀ T1 z T2, TF = T1 ++ z :: T2 → bcf (M.length + T1.length) = true ∧
      ∃ l ∈ lostIn (M ++ TF ++ x :: O1) (unspentOf (M ++ TF ++ y :: N1)), l ∈ leavesOf (M ++ T1 ++ [z]))
    (k : Nat) (hk : 12 ≤ k ∧ k ≤ 16) :
    recover bcf tbl (crashAfter t (consistent (M ++ TF ++ x :: O1)) blockSteps k) = .ok (tipOf M) := by
  rw [crashAfter_reorg t (M ++ TF) (x :: O1) (y :: N1) h.newPath h.forkLen h.mvHH h.mvH k]
  have hnO : (leavesOf (M ++ TF ++ x :: O1)).Nodup :=
    leavesOf_nodup _ (pathOf_ids_nodup tbl _ _ _ h.old) hwfO.outs
  have hnN : (leavesOf (M ++ TF ++ y :: N1)).Nodup :=
    leavesOf_nodup _ (pathOf_ids_nodup tbl _ _ _ h.new) hwfN.outs
  have e3 : 3 ≤ k := by omega
  have e5 : 5 ≤ k := by omega
  have e6 : 6 ≤ k := by omega
  have e9 : 9 ≤ k := by omega
  have e12 : 12 ≤ k := by omega
  have e17 : ¬ 17 ≤ k := by omega
  rw [recover_of_hdrOk bcf tbl _ ⟨by simp [reorgState, e3, e5], _, by simpa [reorgState, e6] using h.new,
    by simp [reorgState, e5]⟩]
  have hhead : (reorgState (M ++ TF) (x :: O1) (y :: N1) k).dbHead = tipOf (M ++ TF ++ x :: O1) := by
    simp [reorgState, e17]
  have hleaf : (reorgState (M ++ TF) (x :: O1) (y :: N1) k).leaf = unspentOf (M ++ TF ++ y :: N1) := by
    simp [reorgState, e12]
  have hpre : ∀ Q S, Q ++ S = M ++ TF ++ x :: O1 → Q ≠ [] → pathOf tbl (tbl.length + 1) (tipOf Q) [] = some Q := by
    intro Q S e hne
    exact pathOf_prefix tbl _ Q hne S _ (by rw [e]; exact h.old)
  have hlenAll := pathOf_length_le tbl _ _ _ h.old
  have hMlen : M.length ≠ 0 := fun e => hM (List.length_eq_zero_iff.mp e)
  simp only [List.length_append, List.length_cons] at hlenAll
  have hw : LeafWindow (M ++ TF) (reorgState (M ++ TF) (x :: O1) (y :: N1) k) :=
    ⟨fun Q S e => reorgState_files (M ++ TF) _ _ k Q S e,
     fun Q S e l hl hlQ => unspent_new_sound (M ++ TF) (y :: N1) hnN Q S e l (by rw [← hleaf]; exact hl) hlQ⟩
  -- inner walk: from the fork point down to M
  have hinner : fallback bcf tbl (reorgState (M ++ TF) (x :: O1) (y :: N1) k)
      (tbl.length + 1 - (x :: O1).length) (tipOf (M ++ TF)) (undo (M ++ TF) (x :: O1)) = .ok (tipOf M) := by
    apply fallback_walk bcf tbl _ M hM TF (x :: O1) _ (by simp only [List.length_cons]; omega)
    · intro Q S e hne
      exact hpre Q (S ++ x :: O1) (by rw [← List.append_assoc, e]) hne
    · intro T1 z T2 e
      obtain ⟨hb, l, hl, hlQ⟩ := habove T1 z T2 e
      have hQS : (M ++ T1 ++ [z]) ++ T2 = M ++ TF := by rw [e]; simp
      have hb' : bcf ((M ++ T1 ++ [z]).length - 1) = true := by
        have : (M ++ T1 ++ [z]).length - 1 = M.length + T1.length := by simp
        rw [this]; exact hb
      exact leafwin_invalid bcf (M ++ TF) (x :: O1) _ _ T2 hQS hnO hwfO hb' l (by rw [hleaf]; exact hl) hlQ
    · rcases hstop with h1 | h1 | h1
      · exact Or.inl h1
      · exact Or.inr (validAt_true_of_not_bc bcf _ _ M (hw.files M TF rfl) h1)
      · exact Or.inr (leafwin_valid bcf (M ++ TF) (x :: O1) _ M TF hw rfl hnO hwfO (by rw [hleaf]; exact h1))
  have hF : M ++ TF ≠ [] := h.forkNe
  have hwalk := fallback_walk_r bcf tbl (reorgState (M ++ TF) (x :: O1) (y :: N1) k) (M ++ TF) hF
    (.ok (tipOf M)) (x :: O1) [] (tbl.length + 1) (by simp only [List.length_cons]; omega) hpre ?_
    (by simpa using hinner)
  · rw [hhead]; simpa [undo] using hwalk
  · intro T1 z T2 e
    obtain ⟨Q1, hQ1⟩ : ∃ Q1, M ++ TF ++ T1 ++ [z] = M ++ TF ++ x :: Q1 := by
      cases T1 with
      | nil => simp at e; exact ⟨[], by simp [e.1]⟩
      | cons w T1' => simp at e; exact ⟨T1' ++ [z], by simp [e.1]⟩
    rw [hQ1]
    apply validAt_false_of_outHash
    apply outHash_mismatch (M ++ TF) x Q1 (y :: N1) hx h.new_ids_ne
    right; simp [reorgState, e9]

-- non-vacuity: a two-block fork off b5 of the witness chain replaced by a heavier block b9 on b5
-- that spends o3 (unspent on both forks' common part): old path b0..b7, new path b0..b5,b9
def tblR : List BlkInfo := old8 ++ [{ id := 9, parent := some 5, work := 20, outs := [9], ins := [3] }]
def tgtR : Target :=
  { newPath := old8.take 6 ++ [{ id := 9, parent := some 5, work := 20, outs := [9], ins := [3] }],
    forkLen := 6, movesHHead := true, movesHead := true }
example : BlockReorg tblR (old8.take 6) (blk 6 []) [blk 7 []]
    { id := 9, parent := some 5, work := 20, outs := [9], ins := [3] } [] tgtR :=
  ⟨by decide, by decide, by decide, by decide, by decide, by decide, rfl, rfl⟩
example : recover bc tblR (crashAfter tgtR (consistent old8) blockSteps 9) = .ok 5 :=
  block_reorg_files_window_all bc tblR (old8.take 6) (blk 6 []) [blk 7 []]
    { id := 9, parent := some 5, work := 20, outs := [9], ins := [3] } [] tgtR
    ⟨by decide, by decide, by decide, by decide, by decide, by decide, rfl, rfl⟩
    ⟨by decide, by decide⟩ (by decide) 9 (by omega)
-- leaf-set window: o3 (created by b3) is lost; heights ≥ 6 commit to the bitmap only, so the loop
-- stops at b5 (height 5 does not commit): M = b0..b5, TF = []
example : recover bc tblR (crashAfter tgtR (consistent old8) blockSteps 12) = .ok 5 :=
  block_reorg_leaf_window_all bc tblR (old8.take 6) [] (blk 6 []) [blk 7 []]
    { id := 9, parent := some 5, work := 20, outs := [9], ins := [3] } [] tgtR
    ⟨by decide, by decide, by decide, by decide, by decide, by decide, rfl, rfl⟩ (by decide)
    ⟨by decide, by decide⟩ ⟨by decide, by decide⟩ (by decide) (Or.inr (Or.inl (by decide)))
    (by intro T1 z T2 e; simp at e) 12 (by omega)
-- with every height committing to the bitmap the same crash walks back to b2, the parent of the block
-- that created o3: M = b0..b2, TF = b3..b5
example : recover (fun _ => true) tblR (crashAfter tgtR (consistent old8) blockSteps 12) = .ok 2 :=
  block_reorg_leaf_window_all (fun _ => true) tblR (old8.take 3) [blk 3 [], blk 4 [], blk 5 []] (blk 6 []) [blk 7 []]
    { id := 9, parent := some 5, work := 20, outs := [9], ins := [3] } [] tgtR
    ⟨by decide, by decide, by decide, by decide, by decide, by decide, rfl, rfl⟩ (by decide)
    ⟨by decide, by decide⟩ ⟨by decide, by decide⟩ (by decide) (Or.inr (Or.inr (by decide)))
    (by
      intro T1 z T2 e
      refine ⟨rfl, (3, 3), by decide, ?_⟩
      cases T1 with
      | nil => simp at e; rw [← e.1]; decide
      | cons w T1' =>
        simp at e
        rw [← e.1]
        simp [leavesOf, blk])
    12 (by omega)

end GV.Props.C09
