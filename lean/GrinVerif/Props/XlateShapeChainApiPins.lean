import GrinVerif.Gen.PipeShapeChainApi
/-! # Pinned shapes of the validation pipelines (ChainApi)

Every `def pin_<fn>` below is a COPY, made when the shape was last reviewed, of the step list that
tools/gen_pipeshape.py reads from the source (`Gen/PipeShapeChainApi.lean`, regenerated on every check run);
`<fn>_pinned` states that the current source still has exactly that shape (kernel-checked by `rfl` /
`decide`).  A change of the order of checks, a dropped `?`, a new guard or early return, another error
variant, another argument breaks the theorem.  After a REVIEWED harmless change re-pin with
`python3 tools/gen_pipeshape.py --pin ChainApi > lean/GrinVerif/Props/XlateShapeChainApiPins.lean`.
The semantic obligations (order the hand models assume, every check propagated, early returns) are in
`Props/XlateShapeChainApi.lean`, stated over the GENERATED tables. -/
namespace GV.Props.XlateShapeChainApiPins
open GV.Gen.PipeShape

/-- reviewed shape of `Chain::process_block (chain/src/chain.rs)` -/
def pin_chain_process_block : List Step := [
  ⟨.call, "check_orphans", "self.check_orphans(($2 + 1))", "", ["$3.is_ok()"]⟩,
  ⟨.tail, "res", "$3", "", []⟩
]
/-- reviewed `let`s / assignments that feed a guard of `Chain::process_block (chain/src/chain.rs)` -/
def pin_lets_chain_process_block : List LetRec := [
  ⟨["$3"], "process_block_single", "self.process_block_single($0, $1)", []⟩
]
theorem chain_process_block_pinned : chain_process_block.parseError = none ∧ chain_process_block.steps = pin_chain_process_block ∧ chain_process_block.lets = pin_lets_chain_process_block := ⟨rfl, rfl, rfl⟩

/-- reviewed shape of `Chain::is_known (chain/src/chain.rs)` -/
def pin_chain_is_known : List Step := [
  ⟨.check, "head", "self.head()", "", []⟩,
  ⟨.fail, "Unfit", "Error::Unfit(\"…\".into())", "", ["($1.hash() == $0.hash())"]⟩,
  ⟨.check, "block_exists", "self.block_exists($0.hash())", "", ["($0.total_difficulty() <= $1.total_difficulty)"]⟩,
  ⟨.fail, "Unfit", "Error::Unfit(\"…\".into())", "", ["($0.total_difficulty() <= $1.total_difficulty)", "self.block_exists($0.hash())?"]⟩,
  ⟨.okFinal, "", "()", "", []⟩
]
/-- reviewed `let`s / assignments that feed a guard of `Chain::is_known (chain/src/chain.rs)` -/
def pin_lets_chain_is_known : List LetRec := [
  ⟨["$1"], "head", "self.head()?", []⟩
]
theorem chain_is_known_pinned : chain_is_known.parseError = none ∧ chain_is_known.steps = pin_chain_is_known ∧ chain_is_known.lets = pin_lets_chain_is_known := ⟨rfl, rfl, rfl⟩

/-- reviewed shape of `Chain::check_orphan (chain/src/chain.rs)` -/
def pin_chain_check_orphan : List Step := [
  ⟨.check, "head", "self.head()", "", []⟩,
  ⟨.check, "block_exists", "self.block_exists($0.header.prev_hash)", "", ["!($3)"]⟩,
  ⟨.okEarly, "", "()", "", ["($3 || self.block_exists($0.header.prev_hash)?)"]⟩,
  ⟨.call, "add", "self.orphans.add($5)", "", []⟩,
  ⟨.fail, "Orphan", "Error::Orphan", "", []⟩
]
/-- reviewed `let`s / assignments that feed a guard of `Chain::check_orphan (chain/src/chain.rs)` -/
def pin_lets_chain_check_orphan : List LetRec := [
  ⟨["$2"], "head", "self.head()?", []⟩,
  ⟨["$3"], "<bin>", "($0.header.prev_hash == $2.last_block_h)", []⟩
]
theorem chain_check_orphan_pinned : chain_check_orphan.parseError = none ∧ chain_check_orphan.steps = pin_chain_check_orphan ∧ chain_check_orphan.lets = pin_lets_chain_check_orphan := ⟨rfl, rfl, rfl⟩

/-- reviewed shape of `Chain::process_block_single (chain/src/chain.rs)` -/
def pin_chain_process_block_single : List Step := [
  ⟨.check, "process_block_header", "self.process_block_header(&$0.header, $1)", "", []⟩,
  ⟨.check, "is_known", "self.is_known(&$0.header)", "", []⟩,
  ⟨.check, "check_orphan", "self.check_orphan(&$0, $1)", "", []⟩,
  ⟨.check, "batch", "self.store.batch()", "", []⟩,
  ⟨.check, "head", "$4.head()", "", []⟩,
  ⟨.check, "new_ctx", "self.new_ctx($1, $4, &$2, &$3)", "", []⟩,
  ⟨.check, "process_block", "pipe::process_block(&$0, &$6)", "", []⟩,
  ⟨.check, "commit", "$6.batch.commit()", "", []⟩,
  ⟨.check, "get_previous_header", "self.get_previous_header(&$0.header)", "", []⟩,
  ⟨.call, "block_accepted", "self.adapter.block_accepted(&$0, $13, $1)", "", []⟩,
  ⟨.okFinal, "", "$9", "", []⟩
]
/-- reviewed `let`s / assignments that feed a guard of `Chain::process_block_single (chain/src/chain.rs)` -/
def pin_lets_chain_process_block_single : List LetRec := [
]
theorem chain_process_block_single_pinned : chain_process_block_single.parseError = none ∧ chain_process_block_single.steps = pin_chain_process_block_single ∧ chain_process_block_single.lets = pin_lets_chain_process_block_single := ⟨rfl, rfl, rfl⟩

/-- reviewed shape of `Chain::process_block_header (chain/src/chain.rs)` -/
def pin_chain_process_block_header : List Step := [
  ⟨.check, "batch", "self.store.batch()", "", []⟩,
  ⟨.check, "new_ctx", "self.new_ctx($1, $4, &$2, &$3)", "", []⟩,
  ⟨.check, "process_block_header", "pipe::process_block_header($0, &$5)", "", []⟩,
  ⟨.check, "commit", "$5.batch.commit()", "", []⟩,
  ⟨.okFinal, "", "()", "", []⟩
]
/-- reviewed `let`s / assignments that feed a guard of `Chain::process_block_header (chain/src/chain.rs)` -/
def pin_lets_chain_process_block_header : List LetRec := [
]
theorem chain_process_block_header_pinned : chain_process_block_header.parseError = none ∧ chain_process_block_header.steps = pin_chain_process_block_header ∧ chain_process_block_header.lets = pin_lets_chain_process_block_header := ⟨rfl, rfl, rfl⟩

/-- reviewed shape of `Chain::sync_block_headers (chain/src/chain.rs)` -/
def pin_chain_sync_block_headers : List Step := [
  ⟨.check, "batch", "self.store.batch()", "", []⟩,
  ⟨.check, "new_ctx", "self.new_ctx($2, $5, &$3, &$4)", "", []⟩,
  ⟨.check, "process_block_headers", "pipe::process_block_headers($0, $1, &$6)", "", []⟩,
  ⟨.check, "commit", "$6.batch.commit()", "", []⟩,
  ⟨.okFinal, "", "$7", "", []⟩
]
/-- reviewed `let`s / assignments that feed a guard of `Chain::sync_block_headers (chain/src/chain.rs)` -/
def pin_lets_chain_sync_block_headers : List LetRec := [
]
theorem chain_sync_block_headers_pinned : chain_sync_block_headers.parseError = none ∧ chain_sync_block_headers.steps = pin_chain_sync_block_headers ∧ chain_sync_block_headers.lets = pin_lets_chain_sync_block_headers := ⟨rfl, rfl, rfl⟩

/-- reviewed shape of `Chain::check_orphans (chain/src/chain.rs)` -/
def pin_chain_check_orphans : List Step := [
]
/-- reviewed `let`s / assignments that feed a guard of `Chain::check_orphans (chain/src/chain.rs)` -/
def pin_lets_chain_check_orphans : List LetRec := [
  ⟨["$2"], "<boollit>", "false", ["loop"]⟩,
  ⟨["$3"], "height", "$0", ["loop"]⟩,
  ⟨["$8"], "height", "$7.block.header.height", ["loop", "self.orphans.remove_by_height($0) ~ Some(_)", "for $4.into_iter().enumerate()"]⟩,
  ⟨["$9"], "process_block_single", "self.process_block_single($7.block, $7.opts)", ["loop", "self.orphans.remove_by_height($0) ~ Some(_)", "for $4.into_iter().enumerate()"]⟩,
  ⟨["$2"], "<boollit>", "= true", ["loop", "self.orphans.remove_by_height($0) ~ Some(_)", "for $4.into_iter().enumerate()", "$9.is_ok()"]⟩,
  ⟨["$3"], "height", "= $8", ["loop", "self.orphans.remove_by_height($0) ~ Some(_)", "for $4.into_iter().enumerate()", "$9.is_ok()"]⟩,
  ⟨["$0"], "<bin>", "= ($3 + 1)", ["loop", "self.orphans.remove_by_height($0) ~ Some(_)", "$2"]⟩
]
theorem chain_check_orphans_pinned : chain_check_orphans.parseError = none ∧ chain_check_orphans.steps = pin_chain_check_orphans ∧ chain_check_orphans.lets = pin_lets_chain_check_orphans := ⟨rfl, rfl, rfl⟩

/-- reviewed shape of `Chain::reset_chain_head (chain/src/chain.rs)` -/
def pin_chain_reset_chain_head : List Step := [
  ⟨.check, "batch", "self.store.batch()", "", []⟩,
  ⟨.check, "get_block_header", "$5.get_block_header(&$2.hash())", "", []⟩,
  ⟨.check, "rewind_and_apply_fork", "self.rewind_and_apply_fork(&$6, $7, $8)", "", ["closure"]⟩,
  ⟨.check, "save_body_head", "$8.save_body_head(&$2)", "", ["closure"]⟩,
  ⟨.okFinal, "", "()", "", ["closure"]⟩,
  ⟨.check, "extending", "txhashset::extending(&$3, &$4, &$5, |..|{..})", "", []⟩,
  ⟨.check, "rewind_and_apply_header_fork", "self.rewind_and_apply_header_fork(&$6, $9, $10)", "", ["$1", "closure"]⟩,
  ⟨.check, "save_header_head", "$10.save_header_head(&$2)", "", ["$1", "closure"]⟩,
  ⟨.okFinal, "", "()", "", ["$1", "closure"]⟩,
  ⟨.check, "header_extending", "txhashset::header_extending(&$3, &$5, |..|{..})", "", ["$1"]⟩,
  ⟨.check, "commit", "$5.commit()", "", []⟩,
  ⟨.okFinal, "", "()", "", []⟩
]
/-- reviewed `let`s / assignments that feed a guard of `Chain::reset_chain_head (chain/src/chain.rs)` -/
def pin_lets_chain_reset_chain_head : List LetRec := [
]
theorem chain_reset_chain_head_pinned : chain_reset_chain_head.parseError = none ∧ chain_reset_chain_head.steps = pin_chain_reset_chain_head ∧ chain_reset_chain_head.lets = pin_lets_chain_reset_chain_head := ⟨rfl, rfl, rfl⟩

/-- reviewed shape of `Chain::validate_tx (chain/src/chain.rs)` -/
def pin_chain_validate_tx : List Step := [
  ⟨.check, "validate_tx_against_utxo", "self.validate_tx_against_utxo($0)", "", []⟩,
  ⟨.check, "validate_tx_kernels", "self.validate_tx_kernels($0)", "", []⟩,
  ⟨.okFinal, "", "()", "", []⟩
]
/-- reviewed `let`s / assignments that feed a guard of `Chain::validate_tx (chain/src/chain.rs)` -/
def pin_lets_chain_validate_tx : List LetRec := [
]
theorem chain_validate_tx_pinned : chain_validate_tx.parseError = none ∧ chain_validate_tx.steps = pin_chain_validate_tx ∧ chain_validate_tx.lets = pin_lets_chain_validate_tx := ⟨rfl, rfl, rfl⟩

/-- reviewed shape of `Chain::verify_coinbase_maturity (chain/src/chain.rs)` -/
def pin_chain_verify_coinbase_maturity : List Step := [
  ⟨.check, "next_block_height", "self.next_block_height()", "", []⟩,
  ⟨.check, "head", "self.head()", "", []⟩,
  ⟨.check, "verify_coinbase_maturity", "$7.verify_coinbase_maturity($0, $1, $8)", "", ["$6", "closure"]⟩,
  ⟨.okFinal, "", "()", "", ["$6", "closure"]⟩,
  ⟨.tail, "utxo_view", "txhashset::utxo_view(&$3, &$4, |..|{..})", "", ["$6"]⟩,
  ⟨.check, "head_header", "$12.head_header()", "", ["closure"]⟩,
  ⟨.check, "rewind_and_apply_fork", "self.rewind_and_apply_fork(&$13, $11, $12)", "", ["closure"]⟩,
  ⟨.check, "verify_coinbase_maturity", "$11.extension.utxo_view(&$11.header_extension).verify_coinbase_maturity($0, $1, $12)", "", ["closure"]⟩,
  ⟨.okFinal, "", "()", "", ["closure"]⟩,
  ⟨.tail, "extending_readonly", "txhashset::extending_readonly(&$9, &$10, |..|{..})", "", []⟩
]
/-- reviewed `let`s / assignments that feed a guard of `Chain::verify_coinbase_maturity (chain/src/chain.rs)` -/
def pin_lets_chain_verify_coinbase_maturity : List LetRec := [
  ⟨["$6"], "<match>", "<match>", []⟩
]
theorem chain_verify_coinbase_maturity_pinned : chain_verify_coinbase_maturity.parseError = none ∧ chain_verify_coinbase_maturity.steps = pin_chain_verify_coinbase_maturity ∧ chain_verify_coinbase_maturity.lets = pin_lets_chain_verify_coinbase_maturity := ⟨rfl, rfl, rfl⟩

/-- reviewed shape of `Chain::verify_tx_lock_height (chain/src/chain.rs)` -/
def pin_chain_verify_tx_lock_height : List Step := [
  ⟨.check, "next_block_height", "self.next_block_height()", "", []⟩,
  ⟨.okFinal, "", "()", "", ["($0.lock_height() <= $1)"]⟩,
  ⟨.fail, "TxLockHeight", "Error::TxLockHeight", "", ["!(($0.lock_height() <= $1))"]⟩
]
/-- reviewed `let`s / assignments that feed a guard of `Chain::verify_tx_lock_height (chain/src/chain.rs)` -/
def pin_lets_chain_verify_tx_lock_height : List LetRec := [
  ⟨["$1"], "next_block_height", "self.next_block_height()?", []⟩
]
theorem chain_verify_tx_lock_height_pinned : chain_verify_tx_lock_height.parseError = none ∧ chain_verify_tx_lock_height.steps = pin_chain_verify_tx_lock_height ∧ chain_verify_tx_lock_height.lets = pin_lets_chain_verify_tx_lock_height := ⟨rfl, rfl, rfl⟩

/-- reviewed shape of `Chain::set_txhashset_roots (chain/src/chain.rs)` -/
def pin_chain_set_txhashset_roots : List Step := [
  ⟨.check, "get_previous_header", "$4.get_previous_header(&$0.header)", "", ["closure"]⟩,
  ⟨.check, "rewind_and_apply_fork", "self.rewind_and_apply_fork(&$5, $3, $4)", "", ["closure"]⟩,
  ⟨.check, "root", "$7.root()", "", ["closure"]⟩,
  ⟨.check, "apply_block", "$6.apply_block($0, $7, $4)", "", ["closure"]⟩,
  ⟨.check, "roots", "$6.roots()", "", ["closure"]⟩,
  ⟨.okFinal, "", "($8, $6.roots()?, $6.sizes())", "", ["closure"]⟩,
  ⟨.check, "extending_readonly", "txhashset::extending_readonly(&$1, &$2, |..|{..})", "", []⟩,
  ⟨.okFinal, "", "()", "", []⟩
]
/-- reviewed `let`s / assignments that feed a guard of `Chain::set_txhashset_roots (chain/src/chain.rs)` -/
def pin_lets_chain_set_txhashset_roots : List LetRec := [
]
theorem chain_set_txhashset_roots_pinned : chain_set_txhashset_roots.parseError = none ∧ chain_set_txhashset_roots.steps = pin_chain_set_txhashset_roots ∧ chain_set_txhashset_roots.lets = pin_lets_chain_set_txhashset_roots := ⟨rfl, rfl, rfl⟩

/-- reviewed shape of `Chain::compact (chain/src/chain.rs)` -/
def pin_chain_compact : List Step := [
  ⟨.okEarly, "", "()", "", ["(self.tail(), self.head()) ~ (Ok(_), Ok(_))", "($4 > $1.height)"]⟩,
  ⟨.check, "txhashset_archive_header", "self.txhashset_archive_header()", "", []⟩,
  ⟨.check, "batch", "self.store.batch()", "", []⟩,
  ⟨.check, "head_header", "$8.head_header()", "", []⟩,
  ⟨.check, "get_header_hash_by_height", "$6.get_header_hash_by_height($11)", "", []⟩,
  ⟨.check, "get_block_header", "$8.get_block_header(&$12)", "", []⟩,
  ⟨.check, "compact", "$7.compact(&$13, &$8)", "", []⟩,
  ⟨.check, "remove_historical_blocks", "self.remove_historical_blocks(&$6, $5, &$8)", "", ["!(self.archive_mode())"]⟩,
  ⟨.check, "init_output_pos_index", "$7.init_output_pos_index(&$6, &$8)", "", []⟩,
  ⟨.check, "init_recent_kernel_pos_index", "$7.init_recent_kernel_pos_index(&$6, &$8)", "", []⟩,
  ⟨.check, "commit", "$8.commit()", "", []⟩,
  ⟨.okFinal, "", "()", "", []⟩
]
/-- reviewed `let`s / assignments that feed a guard of `Chain::compact (chain/src/chain.rs)` -/
def pin_lets_chain_compact : List LetRec := [
  ⟨["$2"], "cut_through_horizon", "global::cut_through_horizon() as _", ["(self.tail(), self.head()) ~ (Ok(_), Ok(_))"]⟩,
  ⟨["$3"], "saturating_add", "$2.saturating_add(60)", ["(self.tail(), self.head()) ~ (Ok(_), Ok(_))"]⟩,
  ⟨["$4"], "saturating_add", "$0.height.saturating_add($3)", ["(self.tail(), self.head()) ~ (Ok(_), Ok(_))"]⟩
]
theorem chain_compact_pinned : chain_compact.parseError = none ∧ chain_compact.steps = pin_chain_compact ∧ chain_compact.lets = pin_lets_chain_compact := ⟨rfl, rfl, rfl⟩

end GV.Props.XlateShapeChainApiPins
