import GrinVerif.Lemmas.XlateVerifyT
import GrinVerif.Props.XlateSipnode

/-! # Translated Cuckatoo verifier (`Gen/FnsVerify.lean`) = hand-written model (`Model/Pow.lean`)

`GV.Gen.Fns.Cuckatoo_verify` is regenerated from the CURRENT `core/src/pow/cuckatoo.rs`
(`CuckatooContext::verify_impl`) with release-build semantics (wrapping `2 * n`, `2 * n + 1`, `n - 1`,
`n += 1`; `Vec`s as lists; the two `self.params.sipnode(..)?` calls as `Option` matches; index
conditions and loop exits collected in `Cuckatoo_verify_ok`).  The hand model `verifyCuckatoo`
(= `verifyU cfgCuckatoo`) works on function arrays and one packed `head` map.  Under
`Cuckatoo_verify_ok = true` (the Rust function returns normally) both give the same verdict.

Loop-level ties (all universally quantified, by induction; `Lemmas/XlateVerifyT.lean`, `t4_eq` in
`Lemmas/XlateVerify.lean`): `t1_eq` first `for` = `uBuild`; `t2_eq` second `for` = `uCirc`; `t4_eq` inner
`loop` (test `uvs[k]>>1 == uvs[i]>>1`) = `uFind`; `t3_eq` outer `loop` (dead-end test
`j == i || uvs[j] == uvs[i]`) = `uWalk (uStep …)`.  Array relation: `R l f`; `headu[b] = head (2*b)`,
`headv[b] = head (2*b+1)` with `b = (u >> 1) & mask`; initial xors `(size / 2) & 1 = (size/2) % 2`.

The endpoint hypothesis `hep` says the two `sipnode` calls return `Ok` with the model's endpoints.
`CuckooParams_sipnode` always returns `some` (`sipnode_some` below, by unfolding), and its value is tied
to the `UInt64` model `Pow.sipnode` by `Props/XlateSipnode.lean` `sipnode_eq`; `cuckatoo_verify_eq_sip`
is the corollary with `ep` given explicitly and no `Option` hypothesis left.

No disagreement between translation and model was found. -/

namespace GV.Props.XlateVerifyT
open GV GV.Gen GV.Gen.Fns GV.Pow GV.Lemmas.XlateVerify GV.Lemmas.XlateVerifyT

theorem proofsize_le (ct : ChainTypes) : proofsize ct ≤ 42 := by
  cases ct <;> decide

/-- Cuckatoo: the translated `verify_impl` and the model agree on accept / reject, for every chain
type, every parameter set, every proof on which the Rust function returns normally. -/
theorem cuckatoo_verify_rel (ct : ChainTypes) (params : CuckooParams) (proof : Proof)
    (P : Pow.Params) (ep : Nat → Nat × Nat)
    (hP1 : P.proofsize = proofsize ct) (hP2 : P.edgeMask = params.edge_mask)
    (hbk : ∀ u, P.bk u = u &&& shrW (2^64-1) (leadingZeros64 proof.nonces.length))
    (hep : ∀ x, CuckooParams_sipnode params.siphash_keys params.node_mask x 0 = some (ep x).1 ∧
                CuckooParams_sipnode params.siphash_keys params.node_mask x 1 = some (ep x).2)
    (hok : Cuckatoo_verify_ok ct params proof = true) :
    (Cuckatoo_verify ct params proof = some () ∧ verifyCuckatoo P ep proof.nonces = .ok ()) ∨
    (Cuckatoo_verify ct params proof = none ∧ ∃ e, verifyCuckatoo P ep proof.nonces = .error e) := by
  unfold Cuckatoo_verify_ok at hok
  unfold Cuckatoo_verify verifyCuckatoo verifyU
  dsimp only [Proof_proof_size] at hok ⊢
  by_cases hs : proof.nonces.length = proofsize ct
  · have h42 : proof.nonces.length ≤ 42 := by rw [hs]; exact proofsize_le ct
    rw [if_neg (by simpa using hs), Bool.and_eq_true] at hok
    rw [if_neg (by simpa using hs), if_neg (by rw [hP1]; simpa using hs)]
    rw [Nat.sub_zero, mulW_two _ (by omega)] at hok ⊢
    obtain ⟨hok1, hok2⟩ := hok
    have hinit : RelU k0 k1 (List.replicate (2 * proof.nonces.length) 0,
        proof.nonces.length / 2 &&& 1, proof.nonces.length / 2 &&& 1,
        List.replicate (addW 1 (shrW 18446744073709551615 (leadingZeros64 proof.nonces.length)))
          (2 * proof.nonces.length),
        List.replicate (addW 1 (shrW 18446744073709551615 (leadingZeros64 proof.nonces.length)))
          (2 * proof.nonces.length),
        List.replicate (2 * proof.nonces.length) 0) (USt.init cfgCuckatoo proof.nonces.length) :=
      ⟨R_replicate _ _, Nat.and_one_is_mod _, Nat.and_one_is_mod _, RK_replicate _ _ _,
        RK_replicate _ _ _, R_replicate _ _⟩
    have h1 := t1_eq params proof.nonces _ P ep (by omega) hP2 hbk hep proof.nonces.length 0
      _ _ _ _ _ _ _ (by omega) hinit hok1
    rw [List.drop_zero, show lastOf proof.nonces 0 = none from rfl] at h1
    rcases h1 with ⟨e1, e, e2⟩ | ⟨st, s', e1, e2, r1, r2, r3, r4, r5, r6⟩
    · right
      rw [e1, e2]
      exact ⟨rfl, _, rfl⟩
    · rw [e1] at hok2 ⊢
      rw [e2]
      dsimp only at hok2 ⊢
      simp only [cfgCuckatoo, Bool.false_eq_true, if_false]
      rw [← r2, ← r3]
      by_cases hx : st.2.1 ||| st.2.2.1 = 0
      · rw [if_neg (by simpa using hx)] at hok2
        rw [if_neg (by simpa using hx), if_neg (by simpa using hx)]
        rw [Bool.and_eq_true] at hok2
        obtain ⟨hok3, hok4⟩ := hok2
        have hR := t2_eq proof.nonces.length st.1 _ st.2.2.2.1 st.2.2.2.2.1 P s' (by omega) hbk
          r1 r4 r5 proof.nonces.length 0 st.2.2.2.2.2 s'.prev (by omega) r6 hok3
        have h3 := t3_eq proof.nonces.length st.1 _ s'.uvs _ r1 hR (2 * proof.nonces.length + 1)
          0 0 0 (by omega) hok4
        rcases h3 with ⟨f1, e, f2⟩ | ⟨n', i', j', f1, f2⟩
        · right
          rw [f1]; simp only [cfgCuckatoo] at f2; rw [f2]
          exact ⟨rfl, _, rfl⟩
        · rw [f1]; simp only [cfgCuckatoo] at f2; rw [f2]
          dsimp only
          by_cases hn : n' = proof.nonces.length
          · left
            rw [if_pos (by simpa using hn), if_pos hn]
            exact ⟨rfl, rfl⟩
          · right
            rw [if_neg (by simpa using hn), if_neg hn]
            exact ⟨rfl, _, rfl⟩
      · right
        rw [if_pos (by simpa using hx), if_pos (by simpa using hx)]
        exact ⟨rfl, _, rfl⟩
  · right
    rw [if_pos (by simpa using hs), if_pos (by rw [hP1]; simpa using hs)]
    exact ⟨rfl, _, rfl⟩

/-- accept form: the translated Cuckatoo verifier returns `Ok(())` iff the model does -/
theorem cuckatoo_verify_eq (ct : ChainTypes) (params : CuckooParams) (proof : Proof)
    (P : Pow.Params) (ep : Nat → Nat × Nat)
    (hP1 : P.proofsize = proofsize ct) (hP2 : P.edgeMask = params.edge_mask)
    (hbk : ∀ u, P.bk u = u &&& shrW (2^64-1) (leadingZeros64 proof.nonces.length))
    (hep : ∀ x, CuckooParams_sipnode params.siphash_keys params.node_mask x 0 = some (ep x).1 ∧
                CuckooParams_sipnode params.siphash_keys params.node_mask x 1 = some (ep x).2)
    (hok : Cuckatoo_verify_ok ct params proof = true) :
    (Cuckatoo_verify ct params proof = some ()) ↔ (verifyCuckatoo P ep proof.nonces = .ok ()) := by
  rcases cuckatoo_verify_rel ct params proof P ep hP1 hP2 hbk hep hok with ⟨a, b⟩ | ⟨a, e, b⟩
  · exact ⟨fun _ => b, fun _ => a⟩
  · rw [a, b]; exact ⟨fun h => (by cases h), fun h => (by cases h)⟩

/-- reject form: `Err(_)` iff the model returns an error -/
theorem cuckatoo_verify_eq_none (ct : ChainTypes) (params : CuckooParams) (proof : Proof)
    (P : Pow.Params) (ep : Nat → Nat × Nat)
    (hP1 : P.proofsize = proofsize ct) (hP2 : P.edgeMask = params.edge_mask)
    (hbk : ∀ u, P.bk u = u &&& shrW (2^64-1) (leadingZeros64 proof.nonces.length))
    (hep : ∀ x, CuckooParams_sipnode params.siphash_keys params.node_mask x 0 = some (ep x).1 ∧
                CuckooParams_sipnode params.siphash_keys params.node_mask x 1 = some (ep x).2)
    (hok : Cuckatoo_verify_ok ct params proof = true) :
    (Cuckatoo_verify ct params proof = none) ↔ (∃ e, verifyCuckatoo P ep proof.nonces = .error e) := by
  rcases cuckatoo_verify_rel ct params proof P ep hP1 hP2 hbk hep hok with ⟨a, b⟩ | ⟨a, e, b⟩
  · rw [a, b]; exact ⟨fun h => (by cases h), fun ⟨_, h⟩ => (by cases h)⟩
  · exact ⟨fun _ => ⟨e, b⟩, fun _ => a⟩

/-! ## discharging the endpoint hypothesis -/

/-- the translated `sipnode` never takes the `Err` arm of `?` (the Rust function only returns `Ok`) -/
theorem sipnode_some (keys : List Nat) (mask x uorv : Nat) :
    CuckooParams_sipnode keys mask x uorv = some (siphash24 keys (addW (mulW 2 x) uorv) &&& mask) := by
  unfold CuckooParams_sipnode; rfl

/-- the model's endpoint function read off the translated `sipnode` -/
def epSip (params : CuckooParams) (x : Nat) : Nat × Nat :=
  (siphash24 params.siphash_keys (addW (mulW 2 x) 0) &&& params.node_mask,
   siphash24 params.siphash_keys (addW (mulW 2 x) 1) &&& params.node_mask)

theorem epSip_hep (params : CuckooParams) (x : Nat) :
    CuckooParams_sipnode params.siphash_keys params.node_mask x 0 = some (epSip params x).1 ∧
    CuckooParams_sipnode params.siphash_keys params.node_mask x 1 = some (epSip params x).2 :=
  ⟨sipnode_some _ _ _ _, sipnode_some _ _ _ _⟩

/-- on `UInt64` keys / mask / nonce `epSip` is the model's `Pow.sipnode` (from `XlateSipnode.sipnode_eq`) -/
theorem epSip_model (k : GV.Pow.Keys) (mask edge : UInt64) (ps ne em : Nat) :
    epSip ⟨ps, ne, [k.k0.toNat, k.k1.toNat, k.k2.toNat, k.k3.toNat], em, mask.toNat⟩ edge.toNat =
      ((GV.Pow.sipnode k mask edge 0).toNat, (GV.Pow.sipnode k mask edge 1).toNat) := by
  have h0 := GV.Props.XlateSipnode.sipnode_eq k mask edge 0
  have h1 := GV.Props.XlateSipnode.sipnode_eq k mask edge 1
  rw [sipnode_some] at h0 h1
  have z0 : (0 : UInt64).toNat = 0 := rfl
  have z1 : (1 : UInt64).toNat = 1 := rfl
  rw [z0] at h0
  rw [z1] at h1
  unfold epSip
  dsimp only
  rw [Option.some.inj h0, Option.some.inj h1]

/-- `cuckatoo_verify_eq` with the endpoint hypothesis discharged: no `Option` hypothesis left -/
theorem cuckatoo_verify_eq_sip (ct : ChainTypes) (params : CuckooParams) (proof : Proof)
    (P : Pow.Params)
    (hP1 : P.proofsize = proofsize ct) (hP2 : P.edgeMask = params.edge_mask)
    (hbk : ∀ u, P.bk u = u &&& shrW (2^64-1) (leadingZeros64 proof.nonces.length))
    (hok : Cuckatoo_verify_ok ct params proof = true) :
    (Cuckatoo_verify ct params proof = some ()) ↔
      (verifyCuckatoo P (epSip params) proof.nonces = .ok ()) :=
  cuckatoo_verify_eq ct params proof P (epSip params) hP1 hP2 hbk (epSip_hep params) hok

/-- non-vacuity: the hypotheses are satisfiable (wrong-length proof on Mainnet: `_ok = true`, result `none`) -/
example : Cuckatoo_verify_ok ChainTypes.Mainnet ⟨42, 0, [0, 0, 0, 0], 0, 0⟩ ⟨29, []⟩ = true ∧
    Cuckatoo_verify ChainTypes.Mainnet ⟨42, 0, [0, 0, 0, 0], 0, 0⟩ ⟨29, []⟩ = none := by
  constructor <;> rfl

/-! ## non-vacuity on a proof that reaches every loop

An 8-cycle on AutomatedTesting (proof size 8) with 16 edges, node mask 15, keys `[243, 1, 2, 3]`, found
by search: `_ok = true`, the translated verifier accepts, hence (by the theorem) so does the model.
A second proof with the same parameters passes loop 1 and is rejected. -/

def wParams : CuckooParams := ⟨8, 16, [243, 1, 2, 3], 15, 15⟩
def wProof : Proof := ⟨4, [0, 1, 4, 6, 10, 12, 13, 15]⟩
def wProofBad : Proof := ⟨4, [0, 1, 2, 3, 4, 5, 6, 7]⟩
def wP : Pow.Params := ⟨8, 15, 8, fun u => u &&& shrW (2^64-1) (leadingZeros64 8)⟩

theorem w_lz : leadingZeros64 (Proof_proof_size wProof.nonces) = 60 := by
  simp [leadingZeros64, bitLen, Proof_proof_size, wProof]

theorem w_lz_bad : leadingZeros64 (Proof_proof_size wProofBad.nonces) = 60 := by
  simp [leadingZeros64, bitLen, Proof_proof_size, wProofBad]

theorem w_ok : Cuckatoo_verify_ok ChainTypes.AutomatedTesting wParams wProof = true := by
  unfold Cuckatoo_verify_ok
  simp only [w_lz]
  rfl

theorem w_accepts : Cuckatoo_verify ChainTypes.AutomatedTesting wParams wProof = some () := by
  unfold Cuckatoo_verify
  simp only [w_lz]
  rfl

/-- every hypothesis of `cuckatoo_verify_eq_sip` holds for the witness; the model accepts it -/
example : verifyCuckatoo wP (epSip wParams) wProof.nonces = .ok () :=
  (cuckatoo_verify_eq_sip ChainTypes.AutomatedTesting wParams wProof wP rfl rfl (fun _ => rfl) w_ok).1
    w_accepts

theorem w_ok_bad : Cuckatoo_verify_ok ChainTypes.AutomatedTesting wParams wProofBad = true := by
  unfold Cuckatoo_verify_ok
  simp only [w_lz_bad]
  rfl

theorem w_rejects : Cuckatoo_verify ChainTypes.AutomatedTesting wParams wProofBad = none := by
  unfold Cuckatoo_verify
  simp only [w_lz_bad]
  rfl

/-- … and the model rejects the second proof -/
example : ∃ e, verifyCuckatoo wP (epSip wParams) wProofBad.nonces = .error e :=
  (cuckatoo_verify_eq_none ChainTypes.AutomatedTesting wParams wProofBad wP (epSip wParams) rfl rfl
    (fun _ => rfl) (epSip_hep wParams) w_ok_bad).1 w_rejects

end GV.Props.XlateVerifyT
