import GrinVerif.Model.TxBlock
import GrinVerif.Model.ChainTxVal
import GrinVerif.Model.Chain
import GrinVerif.Model.Pool
import GrinVerif.Gen.PipeShapeChain
import GrinVerif.Gen.PipeShapeCore
import GrinVerif.Gen.PipeShapePool
import GrinVerif.Props.XlateShapeLib
/-! # shape = model for the body / transaction / block validation pipelines

The pattern of `Props/XlateShapeModel.lean` (`pipe::validate_header`) for
`TransactionBody::{validate_read, validate}`, `Transaction::{validate_read, validate}`,
`Block::{validate_read, validate}`, `pipe::validate_block` and `TransactionPool::add_to_pool`:

1. each hand model function is shown, FOR ALL INPUTS, to be the "first failing stage" interpreter `run` over an
   explicit LIST of named stages (`…_stages` theorems);
2. the code step names the stages stand for (`Stage.code`), in order, are shown (`decide`) to be the error spine
   that tools/gen_pipeshape.py reads from the CURRENT Rust source (`…_shape_is_model` theorems).  Where the hand
   model writes a callee in line (`verify_sorted`, `verify_features`, `body.validate`, `validate_read`), the
   callee's own regenerated spine is put in its place (`inline`), after checking that the callee has no early `Ok`.

A stage's `code` is the list of code steps it stands for: one name normally, `[]` for a model-only stage or for a
second model test inside the same code step, several names when ONE model test (a tag) stands for a CONTIGUOUS run
of code steps.  Code steps a model does not represent at all are removed by an explicit, commented filter.

One order disagreement was found (`Chain.validateBody`, see `chainBody_order_finding`). -/
namespace GV.Props.XlateShapeModel2
open GV GV.Gen.PipeShape GV.Props.XlateShape

/-! ## the generic interpreter -/

/-- a stage over inputs `ι` with errors `ε`: a descriptive name, the code steps it stands for, when it fails -/
structure Stage (ι ε : Type) where
  name : String
  code : List String
  fails : ι → Option ε

/-- first failing stage -/
def run {ι ε : Type} (x : ι) : List (Stage ι ε) → Option ε
  | [] => none
  | s :: rest => match s.fails x with
    | some e => some e
    | none => run x rest

/-- the code steps a stage list stands for, in order -/
def codeNames {ι ε : Type} (l : List (Stage ι ε)) : List String := l.flatMap (·.code)

/-- the same stage on another input type -/
def Stage.comap {ι κ ε : Type} (f : κ → ι) (s : Stage ι ε) : Stage κ ε := ⟨s.name, s.code, fun x => s.fails (f x)⟩

/-- the same stage with the error renamed -/
def Stage.mapErr {ι ε δ : Type} (g : ε → δ) (s : Stage ι ε) : Stage ι δ := ⟨s.name, s.code, fun x => (s.fails x).map g⟩

theorem run_append {ι ε : Type} (x : ι) (a b : List (Stage ι ε)) :
    run x (a ++ b) = match run x a with | some e => some e | none => run x b := by
  induction a with
  | nil => rfl
  | cons s t ih =>
    simp only [List.cons_append, run]
    cases s.fails x with
    | some e => rfl
    | none => exact ih

theorem run_comap {ι κ ε : Type} (f : κ → ι) (x : κ) (l : List (Stage ι ε)) :
    run x (l.map (Stage.comap f)) = run (f x) l := by
  induction l with
  | nil => rfl
  | cons s t ih =>
    simp only [List.map_cons, run, Stage.comap]
    cases s.fails (f x) with
    | some e => rfl
    | none => exact ih

/-- a caller's spine with the spine `sub` of the callee `n` written in place of the call -/
def inline (n : String) (sub : List String) (l : List String) : List String :=
  l.flatMap fun x => if x == n then sub else [x]

/-- the expressions of the spine steps (for operands that mention no local: `self.inputs…`, `Weighting::AsBlock`) -/
def whats (f : FnShape) : List String :=
  (f.steps.filter fun s => s.kind == .check || s.kind == .fail || s.kind == .tail).map (·.what)

/-! ## 1. `TransactionBody::validate_read` = `Tx.bodyValidateRead` (Model/TxBlock.lean) -/

structure BodyIn where
  K : Tx.Keys
  M : Tx.KMeta
  ct : Cons.ChainType
  nrdEnabled : Bool
  w : Tx.Weighting
  inputs : List Nat
  outputs : List Nat
  kernels : List Nat

/-- the stages of `validate_read(weighting)`; `verify_sorted` is written in line by the model (three
`verify_sorted_and_unique`: inputs, outputs, kernels) -/
def bodyReadStages : List (Stage BodyIn Tx.BErr) := [
  ⟨"verify_weight", ["verify_weight"],
    fun x => Tx.verifyWeight x.ct x.w x.inputs.length x.outputs.length x.kernels.length⟩,
  ⟨"verify_no_nrd_duplicates", ["verify_no_nrd_duplicates"],
    fun x => Tx.verifyNoNrdDuplicates x.M x.nrdEnabled x.kernels⟩,
  ⟨"verify_sorted: inputs", ["verify_sorted_and_unique"], fun x => (Tx.sortedUnique x.K.ik x.inputs).map .ofV⟩,
  ⟨"verify_sorted: outputs", ["verify_sorted_and_unique"], fun x => (Tx.sortedUnique x.K.ok x.outputs).map .ofV⟩,
  ⟨"verify_sorted: kernels", ["verify_sorted_and_unique"], fun x => (Tx.sortedUnique x.K.kk x.kernels).map .ofV⟩,
  ⟨"verify_cut_through", ["verify_cut_through"],
    fun x => (Tx.verifyCutThrough ⟨0, false, x.inputs, x.outputs, x.kernels⟩).map .ofV⟩ ]

/-- **the model is the stage list** -/
theorem bodyValidateRead_stages (x : BodyIn) :
    Tx.bodyValidateRead x.K x.M x.ct x.nrdEnabled x.w x.inputs x.outputs x.kernels = run x bodyReadStages := by
  unfold Tx.bodyValidateRead
  simp only [bodyReadStages, run]
  cases Tx.verifyWeight x.ct x.w x.inputs.length x.outputs.length x.kernels.length with
  | some e => rfl
  | none =>
  cases Tx.verifyNoNrdDuplicates x.M x.nrdEnabled x.kernels with
  | some e => rfl
  | none =>
  cases Tx.sortedUnique x.K.ik x.inputs with
  | some e => rfl
  | none =>
  cases Tx.sortedUnique x.K.ok x.outputs with
  | some e => rfl
  | none =>
  cases Tx.sortedUnique x.K.kk x.kernels with
  | some e => rfl
  | none =>
  cases Tx.verifyCutThrough ⟨0, false, x.inputs, x.outputs, x.kernels⟩ with
  | some e => rfl
  | none => rfl

/-- the code's spine of `validate_read`, `verify_sorted` opened -/
def bodyReadSpine : List String := inline "verify_sorted" (spine body_verify_sorted) (spine body_validate_read)

/-- **shape = model**: weight, NRD duplicates, sorted (×3), cut-through, in the code's current order; neither
function returns `Ok` early or discards a result -/
theorem body_validate_read_shape_is_model :
    readOk body_validate_read = true ∧ readOk body_verify_sorted = true ∧
    bodyReadSpine = codeNames bodyReadStages ∧
    earlyOks body_validate_read = [] ∧ calls body_validate_read = [] ∧
    earlyOks body_verify_sorted = [] ∧ calls body_verify_sorted = [] := by decide

/-- `verify_sorted` looks at inputs, outputs, kernels in the model's order (`K.ik`, `K.ok`, `K.kk`) -/
theorem body_verify_sorted_operands :
    whats body_verify_sorted =
      ["self.inputs.verify_sorted_and_unique()", "self.outputs.verify_sorted_and_unique()",
       "self.kernels.verify_sorted_and_unique()"] := by decide

/-- the inside of the one-stage callees as the model has them: `verify_weight` answers `Ok` at once exactly for
`NoLimit` (`maxWeightOf … = none`) and otherwise fails exactly under `weight > max`; `verify_no_nrd_duplicates`
answers `Ok` at once exactly when the flag is off and otherwise compares the two lengths; `verify_cut_through`
fails on two equal neighbours -/
theorem body_read_callees_shape :
    earlyOks body_verify_weight = [["$0 ~ Weighting::NoLimit"]] ∧
    fails body_verify_weight = [("TooHeavy", "(self.weight() > $3)")] ∧
    earlyOks body_verify_no_nrd_duplicates = [["!(global::is_nrd_enabled())"]] ∧
    fails body_verify_no_nrd_duplicates = [("InvalidNRDRelativeHeight", "!(($3 == $4))")] ∧
    calls body_verify_no_nrd_duplicates = ["sort", "dedup"] ∧
    fails body_verify_cut_through = [("CutThrough", "($1[0] == $1[1])")] := by decide

example : run (⟨⟨id, id, id⟩, ⟨fun _ => 0, fun _ => 0, fun _ => 0, id, fun _ => 0⟩, .mainnet, false, .asTransaction,
    [3, 2], [], []⟩ : BodyIn) bodyReadStages = some .sort := by decide

/-! ## 2. `Transaction::validate_read` = `Tx.validateReadFull` / `Tx.validateReadW` -/

structure TxIn where
  K : Tx.Keys
  M : Tx.KMeta
  ct : Cons.ChainType
  nrdEnabled : Bool
  t : Tx.Tx

def TxIn.body (w : Tx.Weighting) (x : TxIn) : BodyIn :=
  ⟨x.K, x.M, x.ct, x.nrdEnabled, w, x.t.inputs, x.t.outputs, x.t.kernels⟩

/-- `verify_features`, written in line by the models: `verify_output_features`, `verify_kernel_features` -/
def featureStages : List (Stage TxIn Tx.BErr) := [
  ⟨"verify_output_features", ["verify_output_features"],
    fun x => if x.t.outputs.any Tx.isCoinbase then some .outputFeatures else none⟩,
  ⟨"verify_kernel_features", ["verify_kernel_features"],
    fun x => if x.t.kernels.any Tx.isCoinbase then some .kernelFeatures else none⟩ ]

def txReadStages (w : Tx.Weighting) : List (Stage TxIn Tx.BErr) :=
  bodyReadStages.map (Stage.comap (TxIn.body w)) ++ featureStages

theorem featureStages_run (x : TxIn) :
    run x featureStages =
      if x.t.outputs.any Tx.isCoinbase then some .outputFeatures
      else if x.t.kernels.any Tx.isCoinbase then some .kernelFeatures else none := by
  simp only [featureStages, run]
  by_cases h1 : x.t.outputs.any Tx.isCoinbase = true
  · simp [h1]
  · simp only [h1, Bool.false_eq_true, if_false]
    by_cases h2 : x.t.kernels.any Tx.isCoinbase = true
    · simp [h2]
    · simp [h2]

/-- **the model is the stage list** (any weighting) -/
theorem validateReadW_stages (x : TxIn) (w : Tx.Weighting) :
    Tx.validateReadW x.K x.M x.ct x.nrdEnabled w x.t = run x (txReadStages w) := by
  unfold Tx.validateReadW txReadStages
  rw [run_append, run_comap, ← bodyValidateRead_stages (TxIn.body w x), featureStages_run]
  simp only [TxIn.body]
  cases Tx.bodyValidateRead x.K x.M x.ct x.nrdEnabled w x.t.inputs x.t.outputs x.t.kernels <;> rfl

/-- `Transaction::validate_read()` itself: the weighting is `AsTransaction` -/
theorem validateReadFull_stages (x : TxIn) :
    Tx.validateReadFull x.K x.M x.ct x.nrdEnabled x.t = run x (txReadStages .asTransaction) :=
  validateReadW_stages x .asTransaction

theorem txReadStages_code (w : Tx.Weighting) :
    codeNames (txReadStages w) =
      ["verify_weight", "verify_no_nrd_duplicates", "verify_sorted_and_unique", "verify_sorted_and_unique",
       "verify_sorted_and_unique", "verify_cut_through", "verify_output_features", "verify_kernel_features"] := rfl

/-- the code's spine of `Transaction::validate_read`, the callees the model writes in line opened -/
def txReadSpine : List String :=
  inline "verify_features" (spine body_verify_features) (inline "validate_read" bodyReadSpine (spine tx_validate_read))

/-- **shape = model**: the body gates under `Weighting::AsTransaction`, then the two feature checks -/
theorem tx_validate_read_shape_is_model :
    readOk tx_validate_read = true ∧ readOk body_verify_features = true ∧
    txReadSpine = codeNames (txReadStages .asTransaction) ∧
    whats tx_validate_read = ["self.body.validate_read(Weighting::AsTransaction)", "self.body.verify_features()"] ∧
    earlyOks tx_validate_read = [] ∧ calls tx_validate_read = [] ∧
    earlyOks body_verify_features = [] ∧ calls body_verify_features = [] ∧
    fails body_verify_output_features = [("InvalidOutputFeatures", "self.outputs.iter().any(|..|{..})")] ∧
    fails body_verify_kernel_features = [("InvalidKernelFeatures", "self.kernels.iter().any(|..|{..})")] := by decide

example : run (⟨⟨id, id, id⟩, ⟨fun _ => 0, fun _ => 0, fun _ => 0, id, fun _ => 0⟩, .mainnet, false, ⟨0, false, [], [3], [4]⟩⟩ : TxIn)
    ((txReadStages .asTransaction).drop 6) = some .outputFeatures := by decide

/-! ## 3. `Transaction::validate(weighting)`

Three hand models: `Tx.txValidateGates` (Model/TxBlock.lean, C12), `Chain.TxVal.validate` (Model/ChainTxVal.lean,
C01) and `Pool.Tx.validate` (Model/Pool.lean, C13 / C14). -/

/-- `if c then some e else none` as the head stage -/
theorem run_ite {ι ε : Type} (x : ι) (n : String) (cd : List String) (c : ι → Prop) [DecidablePred c] (e : ι → ε)
    (rest : List (Stage ι ε)) :
    run x (⟨n, cd, fun y => if c y then some (e y) else none⟩ :: rest) = if c x then some (e x) else run x rest := by
  simp only [run]
  by_cases h : c x
  · simp [h]
  · simp [h]

/-- the code's spine of `Transaction::validate`: `verify_features`, `body.validate` and, inside it,
`validate_read` opened -/
def txValidateSpine : List String :=
  inline "validate_read" bodyReadSpine
    (inline "validate" (spine body_validate)
      (inline "verify_features" (spine body_verify_features) (spine tx_validate)))

/-- what the current source has, every callee the models write in line opened (and none of them returns `Ok`
early; the only discarded calls are the two `push`es collecting the range proofs; the range proofs are
verified exactly when there are outputs) -/
theorem tx_validate_spine :
    readOk tx_validate = true ∧ readOk body_validate = true ∧
    txValidateSpine =
      ["verify_output_features", "verify_kernel_features", "verify_weight", "verify_no_nrd_duplicates",
       "verify_sorted_and_unique", "verify_sorted_and_unique", "verify_sorted_and_unique", "verify_cut_through",
       "batch_verify_proofs", "batch_sig_verify", "verify_kernel_sums"] ∧
    earlyOks tx_validate = [] ∧ calls tx_validate = [] ∧
    earlyOks body_validate = [] ∧ calls body_validate = ["push", "push"] ∧
    under "!(self.outputs.is_empty())" body_validate = ["batch_verify_proofs"] ∧
    whats tx_validate = ["self.body.verify_features()", "self.body.validate($0)",
                         "self.verify_kernel_sums(self.overage(), self.offset.clone())"] := by decide

/-! ### `Tx.txValidateGates` -/

/-- the gates in the code's order; everything after them (range proofs, kernel signatures, kernel sums) is ONE
handed-in outcome `later` in this model: the last stage stands for the last three code steps -/
def txValidateStages (w : Tx.Weighting) (later : Option Tx.BErr) : List (Stage TxIn Tx.BErr) :=
  featureStages ++ bodyReadStages.map (Stage.comap (TxIn.body w)) ++
    [⟨"later (cryptography, handed in)", ["batch_verify_proofs", "batch_sig_verify", "verify_kernel_sums"],
      fun _ => later⟩]

theorem txValidateGates_stages (x : TxIn) (w : Tx.Weighting) (later : Option Tx.BErr) :
    Tx.txValidateGates x.K x.M x.ct x.nrdEnabled w x.t later = run x (txValidateStages w later) := by
  unfold Tx.txValidateGates txValidateStages
  rw [List.append_assoc, run_append, featureStages_run, run_append, run_comap,
    ← bodyValidateRead_stages (TxIn.body w x)]
  simp only [TxIn.body, run]
  by_cases h1 : x.t.outputs.any Tx.isCoinbase = true
  · simp [h1]
  · simp only [h1, Bool.false_eq_true, if_false]
    by_cases h2 : x.t.kernels.any Tx.isCoinbase = true
    · simp [h2]
    · simp only [h2, Bool.false_eq_true, if_false]
      cases Tx.bodyValidateRead x.K x.M x.ct x.nrdEnabled w x.t.inputs x.t.outputs x.t.kernels with
      | some e => rfl
      | none => cases later <;> rfl

theorem txValidateStages_code (w : Tx.Weighting) (later : Option Tx.BErr) :
    codeNames (txValidateStages w later) =
      ["verify_output_features", "verify_kernel_features", "verify_weight", "verify_no_nrd_duplicates",
       "verify_sorted_and_unique", "verify_sorted_and_unique", "verify_sorted_and_unique", "verify_cut_through",
       "batch_verify_proofs", "batch_sig_verify", "verify_kernel_sums"] := rfl

/-- **shape = model** (`verify_features` FIRST here, last in `validate_read`) -/
theorem tx_validate_shape_is_txValidateGates (w : Tx.Weighting) (later : Option Tx.BErr) :
    txValidateSpine = codeNames (txValidateStages w later) := by
  rw [txValidateStages_code]; exact tx_validate_spine.2.2.1

example : run (⟨⟨id, id, id⟩, ⟨fun _ => 0, fun _ => 0, fun _ => 0, id, fun _ => 0⟩, .mainnet, false, ⟨0, false, [], [3], [4]⟩⟩ : TxIn)
    ((txValidateStages .asTransaction none).take 2) = some .outputFeatures := by decide

/-! ### `Chain.TxVal.validate` -/

structure ValIn where
  P : Chain.TxVal.WParams
  w : Chain.TxVal.Weighting
  t : Chain.TxVal.TxV

/-- sorting, NRD duplicates and cut-through are ONE tag in this model (`readFault`), evaluated where the code has
the contiguous run `verify_no_nrd_duplicates`, `verify_sorted` (×3), `verify_cut_through` -/
def txValStages : List (Stage ValIn String) := [
  ⟨"verify_output_features", ["verify_output_features"],
    fun x => if x.t.outs.any (·.coinbase) then some "InvalidOutputFeatures" else none⟩,
  ⟨"verify_kernel_features", ["verify_kernel_features"],
    fun x => if x.t.kers.any (·.word.isNone) then some "InvalidKernelFeatures" else none⟩,
  ⟨"verify_weight", ["verify_weight"], fun x => Chain.TxVal.verifyWeight x.P x.w x.t⟩,
  ⟨"readFault (tag)", ["verify_no_nrd_duplicates", "verify_sorted_and_unique", "verify_sorted_and_unique",
      "verify_sorted_and_unique", "verify_cut_through"], fun x => x.t.readFault⟩,
  ⟨"batch_verify_proofs", ["batch_verify_proofs"],
    fun x => if x.t.outs.any (·.proofBad) then some "Secp:InvalidRangeProof" else none⟩,
  ⟨"batch_sig_verify", ["batch_sig_verify"],
    fun x => if x.t.kers.any (·.sigBad) then some "IncorrectSignature" else none⟩,
  ⟨"verify_kernel_sums", ["verify_kernel_sums"], fun x => Chain.TxVal.verifyKernelSums x.t⟩ ]

/-- **the model is the stage list** -/
theorem txVal_validate_stages (x : ValIn) : Chain.TxVal.validate x.P x.w x.t = run x txValStages := by
  unfold Chain.TxVal.validate Chain.TxVal.verifyFeatures Chain.TxVal.validateRest
  simp only [txValStages, run]
  by_cases h1 : x.t.outs.any (·.coinbase) = true
  · simp [h1]
  · simp only [h1, Bool.false_eq_true, if_false]
    by_cases h2 : x.t.kers.any (·.word.isNone) = true
    · simp [h2]
    · simp only [h2, Bool.false_eq_true, if_false]
      cases Chain.TxVal.verifyWeight x.P x.w x.t with
      | some e => rfl
      | none =>
        simp only []
        cases x.t.readFault with
        | some e => rfl
        | none =>
          simp only []
          by_cases h3 : x.t.outs.any (·.proofBad) = true
          · simp [h3]
          · simp only [h3, Bool.false_eq_true, if_false]
            by_cases h4 : x.t.kers.any (·.sigBad) = true
            · simp [h4]
            · simp only [h4, Bool.false_eq_true, if_false]
              cases Chain.TxVal.verifyKernelSums x.t <;> rfl

/-- **shape = model** -/
theorem tx_validate_shape_is_txVal : txValidateSpine = codeNames txValStages := by decide

example : run (⟨{}, .asTransaction, { ins := [], outs := [⟨1, false, true⟩], kers := [⟨some 0, false⟩] }⟩ : ValIn)
    txValStages = some "Secp:InvalidRangeProof" := by decide

/-! ### `Pool.Tx.validate` -/

structure PoolValIn where
  c : Pool.Ctx
  w : Pool.Weighting
  t : Pool.Tx

/-- `verify_sorted` is two model tests (uniqueness from the ids, order as the tag `unsorted`; both answer
`Serialization`, so their relative order is not observable), `verify_kernel_sums` is two model tests (both answer
`Committed`).  The model has NO stage for `verify_output_features`: a pool-model output is a bare id, never
coinbase-flagged. -/
def poolValStages : List (Stage PoolValIn String) := [
  ⟨"verify_kernel_features", ["verify_kernel_features"],
    fun x => if x.t.kers.any (fun k => k.ker == .cb) then some "InvalidTx:InvalidKernelFeatures" else none⟩,
  ⟨"verify_weight", ["verify_weight"],
    fun x => if Pool.overWeight x.c.cfg x.w x.t then some "InvalidTx:TooHeavy" else none⟩,
  ⟨"verify_no_nrd_duplicates", ["verify_no_nrd_duplicates"],
    fun x => if x.c.cfg.nrdEnabled && !Pool.strNodupB (Pool.nrdExcesses x.t) then some "InvalidTx:InvalidNRDRelativeHeight" else none⟩,
  ⟨"verify_sorted: unique (inputs, outputs, kernels)",
    ["verify_sorted_and_unique", "verify_sorted_and_unique", "verify_sorted_and_unique"],
    fun x => if !(Pool.nodupB x.t.ins && Pool.nodupB x.t.outs && Pool.nodupB (x.t.kers.map (·.kid))) then some "InvalidTx:Serialization" else none⟩,
  ⟨"verify_sorted: order (tag)", [],
    fun x => if x.t.tags.contains "unsorted" then some "InvalidTx:Serialization" else none⟩,
  ⟨"verify_cut_through", ["verify_cut_through"],
    fun x => if x.t.ins.any (fun i => x.t.outs.contains i) then some "InvalidTx:CutThrough" else none⟩,
  ⟨"batch_verify_proofs (tag)", ["batch_verify_proofs"],
    fun x => if x.t.tags.contains "rproof" then some "InvalidTx:Secp" else none⟩,
  ⟨"batch_sig_verify (tag)", ["batch_sig_verify"],
    fun x => if x.t.tags.contains "sig" then some "InvalidTx:IncorrectSignature" else none⟩,
  ⟨"verify_kernel_sums: nothing to sum", ["verify_kernel_sums"],
    fun x => if x.t.kers.isEmpty || (x.t.ins.isEmpty && x.t.outs.isEmpty && x.t.fee == 0) then some "InvalidTx:Committed" else none⟩,
  ⟨"verify_kernel_sums: balance (value, tag)", [],
    fun x => if x.t.tags.contains "sum" || !x.t.balanced x.c.outs then some "InvalidTx:Committed" else none⟩ ]

/-- **the model is the stage list** -/
theorem pool_validate_stages (x : PoolValIn) : x.t.validate x.c x.w = run x poolValStages := by
  unfold Pool.Tx.validate
  simp only [poolValStages, run_ite]
  rfl

/-- the code's spine without the step the pool model has no counterpart for (`verify_output_features`: no
coinbase-flagged outputs exist in the pool model) -/
def poolValCodeSpine : List String := txValidateSpine.filter (· != "verify_output_features")

/-- **shape = model** -/
theorem tx_validate_shape_is_poolValidate : poolValCodeSpine = codeNames poolValStages := by decide

example : run (⟨{ head := {} }, .asTransaction, { ins := [1], outs := [1], kers := [⟨0, .plain 1, 0⟩] }⟩ : PoolValIn)
    (poolValStages.drop 5) = some "InvalidTx:CutThrough" := by decide

/-! ## 4. `Block::validate_read` = `Tx.blockValidateRead`, `Block::validate` = `Tx.blockValidate` (Model/TxBlock.lean) -/

structure BlockIn where
  K : Tx.Keys
  M : Tx.KMeta
  ct : Cons.ChainType
  nrdEnabled : Bool
  b : Tx.Block
  hdr : Tx.Hdr
  prevOffset : Nat
  claimedFees : Nat
  bodyOffset : Nat

def BlockIn.body (x : BlockIn) : BodyIn :=
  ⟨x.K, x.M, x.ct, x.nrdEnabled, .asBlock, x.b.inputs, x.b.outputs, x.b.kernels⟩

def lockStage : Stage BlockIn Tx.BErr :=
  ⟨"verify_kernel_lock_heights", ["verify_kernel_lock_heights"],
    fun x => Tx.verifyKernelLockHeights x.M x.hdr.height x.b.kernels⟩

def blockReadStages : List (Stage BlockIn Tx.BErr) := bodyReadStages.map (Stage.comap BlockIn.body) ++ [lockStage]

/-- **the model is the stage list** -/
theorem blockValidateRead_stages (x : BlockIn) :
    Tx.blockValidateRead x.K x.M x.ct x.nrdEnabled x.b x.hdr = run x blockReadStages := by
  unfold Tx.blockValidateRead blockReadStages
  rw [run_append, run_comap, ← bodyValidateRead_stages x.body]
  simp only [BlockIn.body, run, lockStage]
  cases Tx.bodyValidateRead x.K x.M x.ct x.nrdEnabled .asBlock x.b.inputs x.b.outputs x.b.kernels with
  | some e => rfl
  | none => cases Tx.verifyKernelLockHeights x.M x.hdr.height x.b.kernels <;> rfl

def blockReadSpine : List String := inline "validate_read" bodyReadSpine (spine block_validate_read)

/-- **shape = model**: the body gates under `Weighting::AsBlock`, then the kernel lock heights -/
theorem block_validate_read_shape_is_model :
    readOk block_validate_read = true ∧ blockReadSpine = codeNames blockReadStages ∧
    whats block_validate_read = ["self.body.validate_read(Weighting::AsBlock)", "self.verify_kernel_lock_heights()"] ∧
    earlyOks block_validate_read = [] ∧ calls block_validate_read = [] := by decide

/-- the stages of `Block::validate` after the body: this model has NO stage for the range proofs and the kernel
signatures (`blockValidate` is stated for blocks with honest proofs and signatures); `verify_coinbase` is one
test on openings; the `?` on `block_kernel_offset` is evaluated before the call of `verify_kernel_sums` it is an
argument of -/
def blockTailStages : List (Stage BlockIn Tx.BErr) := [
  lockStage,
  ⟨"verify_nrd_kernels_for_header_version", ["verify_nrd_kernels_for_header_version"],
    fun x => Tx.verifyNrdForHeaderVersion x.M x.nrdEnabled x.hdr.version x.b.kernels⟩,
  ⟨"verify_coinbase", ["verify_coinbase"],
    fun x => if min U64MAX (Gen.REWARD + x.claimedFees) ≠ min U64MAX (Gen.REWARD + Tx.totalFees x.M x.b.kernels)
      then some .coinbaseSum else none⟩,
  ⟨"block_kernel_offset", ["block_kernel_offset"],
    fun x => match Tx.blockKernelOffset x.b.totalOffset x.prevOffset with
      | .error _ => some .secp
      | .ok _ => none⟩,
  ⟨"verify_kernel_sums", ["verify_kernel_sums"],
    fun x => match Tx.blockKernelOffset x.b.totalOffset x.prevOffset with
      | .error _ => none
      | .ok off => if off = x.bodyOffset then none else some .kernelSum⟩ ]

def blockValidateStages : List (Stage BlockIn Tx.BErr) :=
  bodyReadStages.map (Stage.comap BlockIn.body) ++ blockTailStages

/-- **the model is the stage list** -/
theorem blockValidate_stages (x : BlockIn) :
    Tx.blockValidate x.K x.M x.ct x.nrdEnabled x.b x.hdr x.prevOffset x.claimedFees x.bodyOffset
      = run x blockValidateStages := by
  unfold Tx.blockValidate blockValidateStages
  rw [run_append, run_comap, ← bodyValidateRead_stages x.body]
  simp only [BlockIn.body, run, blockTailStages, lockStage]
  cases Tx.bodyValidateRead x.K x.M x.ct x.nrdEnabled .asBlock x.b.inputs x.b.outputs x.b.kernels with
  | some e => rfl
  | none =>
  simp only []
  cases Tx.verifyKernelLockHeights x.M x.hdr.height x.b.kernels with
  | some e => rfl
  | none =>
  simp only []
  cases Tx.verifyNrdForHeaderVersion x.M x.nrdEnabled x.hdr.version x.b.kernels with
  | some e => rfl
  | none =>
  simp only []
  by_cases h : min U64MAX (Gen.REWARD + x.claimedFees) ≠ min U64MAX (Gen.REWARD + Tx.totalFees x.M x.b.kernels)
  · simp [h]
  · simp only [h, if_false]
    cases Tx.blockKernelOffset x.b.totalOffset x.prevOffset with
    | error e => rfl
    | ok off =>
      simp only []
      by_cases h2 : off = x.bodyOffset
      · simp [h2]
      · simp [h2]

/-- the code's spine of `Block::validate`, `body.validate` and `validate_read` opened -/
def blockValidateSpine : List String :=
  inline "validate_read" bodyReadSpine (inline "validate" (spine body_validate) (spine block_validate))

/-- … without the two steps `Tx.blockValidate` does not represent (batch verification of range proofs and kernel
signatures: the model is about blocks whose proofs and signatures are honest) -/
def blockValidateCodeSpine : List String :=
  blockValidateSpine.filter fun n => !(["batch_verify_proofs", "batch_sig_verify"].contains n)

/-- **shape = model** -/
theorem block_validate_shape_is_model :
    readOk block_validate = true ∧ blockValidateCodeSpine = codeNames blockValidateStages ∧
    (whats block_validate).take 1 = ["self.body.validate(Weighting::AsBlock)"] ∧
    whats body_validate = ["self.validate_read($0)", "Output::batch_verify_proofs(&$1, &$2)",
                           "TxKernel::batch_sig_verify(&self.kernels)"] ∧
    earlyOks block_validate = [] ∧ calls block_validate = [] := by decide

/-- the two omitted steps sit between the body gates and the lock heights -/
theorem block_validate_omitted_position :
    (blockValidateSpine.drop 5).take 4 =
      ["verify_cut_through", "batch_verify_proofs", "batch_sig_verify", "verify_kernel_lock_heights"] := by decide

/-- the inside of the block-level callees as `Tx.verifyKernelLockHeights` / `Tx.verifyNrdForHeaderVersion` have
them: first height-locked kernel above the header's height; any NRD kernel: flag first, then header version -/
theorem block_callees_shape :
    fails block_verify_kernel_lock_heights = [("KernelLockHeight", "($1 > self.header.height)")] ∧
    fails block_verify_nrd_kernels_for_header_version =
      [("NRDKernelNotEnabled", "!(global::is_nrd_enabled())"),
       ("NRDKernelPreHF3", "(self.header.version < HeaderVersion(4))")] ∧
    under "self.kernels().iter().any(|..|{..})" block_verify_nrd_kernels_for_header_version =
      ["NRDKernelNotEnabled", "NRDKernelPreHF3"] ∧
    earlyOks block_verify_kernel_lock_heights = [] ∧ earlyOks block_verify_nrd_kernels_for_header_version = [] ∧
    (spine block_verify_coinbase).getLast? = some "CoinbaseSumMismatch" := by decide

example : run (⟨⟨id, id, id⟩, ⟨fun _ => 3, fun _ => 0, fun _ => 0, id, fun _ => 0⟩, .mainnet, false,
    ⟨0, false, [], [], [2]⟩, ⟨1, 1, 1⟩, 0, 0, 0⟩ : BlockIn) blockTailStages = some .nrdNotEnabled := by decide

/-! ## 5. `pipe::validate_block` → `Block::validate` = `Chain.validateBody` (Model/Chain.lean)

`Chain.validateBody` is what `pipeProcessBlockK`'s stage `validate_block` evaluates (`Props/C03Shape.lean` ties the
stages of `process_block`; this section opens that one stage). -/

structure ChainBodyIn where
  p : Chain.Params
  outs : List Chain.OutDef
  b : Chain.Blk
  insVals : Nat

/-- the model's order.  The first stage is a TAG that stands for faults the harness injected and the model does
not compute: swapped range proofs, a foreign kernel signature, unsorted outputs (`body:` tags of
harness/src/bin/chain.rs) -/
def chainBodyStages : List (Stage ChainBodyIn String) := [
  ⟨"body: tag (range proof / kernel signature / order)", [], fun x => Chain.hasTag x.b "body:"⟩,
  ⟨"verify_sorted (duplicate input / output)", ["verify_sorted"],
    fun x => if Chain.dupInBody x.b then some "Block:Transaction:Serialization" else none⟩,
  ⟨"verify_cut_through", ["verify_cut_through"],
    fun x => if Chain.cutThroughViolation x.b then some "Block:Transaction:CutThrough" else none⟩,
  ⟨"verify_kernel_lock_heights", ["verify_kernel_lock_heights"],
    fun x => if Chain.lockViolation x.b then some "Block:KernelLockHeight" else none⟩,
  ⟨"verify_nrd_kernels_for_header_version", ["verify_nrd_kernels_for_header_version"],
    fun x => if Chain.nrdEraViolation x.b then some "Block:NRDKernelPreHF3" else none⟩,
  ⟨"verify_coinbase", ["verify_coinbase"],
    fun x => if Chain.coinbaseMismatch x.p x.outs x.b then
      some (if (x.b.kers.filter (· == .cb)).length = 0 then "Block:Secp" else "Block:CoinbaseSumMismatch") else none⟩,
  ⟨"verify_kernel_sums: value", ["verify_kernel_sums"],
    fun x => if Chain.valueMismatch x.p x.outs x.b x.insVals then some "Block:KernelSumMismatch" else none⟩,
  ⟨"verify_kernel_sums: blinding (tag)", [], fun x => Chain.hasTag x.b "ksum:"⟩ ]

/-- **the model is the stage list** -/
theorem chain_validateBody_stages (x : ChainBodyIn) :
    Chain.validateBody x.p x.outs x.b x.insVals = run x chainBodyStages := by
  unfold Chain.validateBody
  simp only [chainBodyStages, run]
  cases Chain.hasTag x.b "body:" with
  | some e => rfl
  | none =>
    simp only []
    by_cases h1 : Chain.dupInBody x.b = true
    · simp [h1]
    · simp only [h1, Bool.false_eq_true, if_false]
      by_cases h2 : Chain.cutThroughViolation x.b = true
      · simp [h2]
      · simp only [h2, Bool.false_eq_true, if_false]
        by_cases h3 : Chain.lockViolation x.b = true
        · simp [h3]
        · simp only [h3, Bool.false_eq_true, if_false]
          by_cases h4 : Chain.nrdEraViolation x.b = true
          · simp [h4]
          · simp only [h4, Bool.false_eq_true, if_false]
            by_cases h5 : Chain.coinbaseMismatch x.p x.outs x.b = true
            · simp [h5]
            · simp only [h5, Bool.false_eq_true, if_false]
              by_cases h6 : Chain.valueMismatch x.p x.outs x.b x.insVals = true
              · simp [h6]
              · simp only [h6, Bool.false_eq_true, if_false]
                cases Chain.hasTag x.b "ksum:" <;> rfl

/-- `pipe::validate_block`: the previous header (a store look-up the model abstracts: a missing parent was
answered by `process_block_header`), then `Block::validate` with the previous header's total kernel offset -/
theorem pipe_validate_block_shape :
    readOk pipe_validate_block = true ∧
    spine pipe_validate_block = ["get_previous_header", "validate"] ∧
    whats pipe_validate_block = ["$1.batch.get_previous_header(&$0.header)", "$0.validate(&$2.total_kernel_offset)"] ∧
    earlyOks pipe_validate_block = [] ∧ calls pipe_validate_block = [] := by decide

/-- the code's spine of `Block::validate` with `body.validate` and `validate_read` opened (`verify_sorted` kept
as one step: this model has one test for it) -/
def blockValidateSpine1 : List String :=
  inline "validate_read" (spine body_validate_read) (inline "validate" (spine body_validate) (spine block_validate))

/-- … without the steps `Chain.validateBody` has no stage of its own for: the weight and the NRD duplicates
(not represented here; `Model/ChainNrdDup.lean` has the latter), the `?` on `block_kernel_offset` (not
represented), and the range proofs and kernel signatures — which the model DOES answer, but through the `body:`
tag stage at the head of its list (see `chainBody_order_finding`) -/
def chainBodyCodeSpine : List String :=
  blockValidateSpine1.filter fun n =>
    !(["verify_weight", "verify_no_nrd_duplicates", "block_kernel_offset", "batch_verify_proofs", "batch_sig_verify"].contains n)

/-- **shape = model, for the computed stages**: the stages `Chain.validateBody` computes are in the code's order -/
theorem block_validate_shape_is_chainBody_partial : chainBodyCodeSpine = codeNames chainBodyStages := by decide

/- FULL STATEMENT THAT DOES NOT HOLD (order disagreement, reported):
     blockValidateSpine1 minus {verify_weight, verify_no_nrd_duplicates, block_kernel_offset}
       = names of `chainBodyStages` with the `body:` tag stage standing for `batch_verify_proofs`, `batch_sig_verify`
   The model tests the `body:` tag FIRST; the code verifies range proofs and kernel signatures AFTER `verify_sorted`
   and `verify_cut_through`.  A block that has a `body:` fault (bad range proof / signature) AND a duplicate or
   cut-through commitment is answered `Block:Transaction:Secp` / `IncorrectSignature` by the model and
   `Serialization` / `CutThrough` by the code.  (For the third use of the tag, unsorted outputs, the model's
   position is the code's: `verify_sorted` comes before `verify_cut_through`, and outputs before the duplicates
   test only matters for the same error name.)  The harness injects one fault kind per block, so the check does
   not see the difference. -/

/-- **the order disagreement, stated**: in the model the `body:` tag stage precedes the cut-through stage; in the
current source the two steps it stands for follow `verify_cut_through` -/
theorem chainBody_order_finding :
    (chainBodyStages.map (·.name)).take 3 =
      ["body: tag (range proof / kernel signature / order)", "verify_sorted (duplicate input / output)",
       "verify_cut_through"] ∧
    (blockValidateSpine1.drop 2).take 4 =
      ["verify_sorted", "verify_cut_through", "batch_verify_proofs", "batch_sig_verify"] := by decide

/-- the disagreement on a concrete block (it spends the output it creates AND carries the range-proof tag): the
model's first three stages answer the tag; the code's order answers `CutThrough` for such a block -/
def demoBlk : Chain.Blk :=
  { id := 1, parent := some 0, h := 1, work := 2, ver := 1, ts := 1, ins := [7], outs := [(7, false)], kers := [], tags := ["body:Block:Transaction:Secp"] }

/-- the model answers the tag whatever else is wrong with the block … -/
theorem chainBody_tag_first (x : ChainBodyIn) (e : String) (h : Chain.hasTag x.b "body:" = some e) :
    Chain.validateBody x.p x.outs x.b x.insVals = some e := by
  unfold Chain.validateBody
  simp [h]

/-- … e.g. for this block, which also spends the output it creates: its computed stages answer `CutThrough`, which
is what the code's order answers for a block with swapped range proofs that also has a cut-through violation -/
example : run (⟨{}, [], demoBlk, 0⟩ : ChainBodyIn) ((chainBodyStages.take 3).drop 1) = some "Block:Transaction:CutThrough" := by
  decide

/-! ## 6. `TransactionPool::add_to_pool` = `Pool.TxPool.addToPool` / `addCore` (Model/Pool.lean)

The model returns the pool state together with the result, and later stages use what earlier ones computed (the
de-aggregated entry, the `evict` flag, the txpool aggregate, the spent outputs): the interpreter threads an
environment, and a stage either STOPS with (state, result) — an error, or the early `Ok` — or goes on. -/

structure AddIn where
  c : Pool.Ctx
  src : Pool.Src
  tx : Pool.Tx
  stem : Bool
  stemOk : Bool

structure Env where
  s : Pool.TxPool
  entry : Pool.Entry
  evict : Bool := false
  extra : Option Pool.Tx := none
  spent : List Nat := []

inductive Out
  | stop (s : Pool.TxPool) (r : Pool.Res)
  | next (v : Env)

structure PStage where
  name : String
  code : List String
  step : AddIn → Env → Out

/-- first stopping stage (an empty list stops with `Ok` on the state reached) -/
def runS (x : AddIn) : Env → List PStage → Pool.TxPool × Pool.Res
  | v, [] => (v.s, none)
  | v, st :: rest => match st.step x v with
    | .stop s r => (s, r)
    | .next v' => runS x v' rest

def addStages : List PStage := [
  ⟨"DuplicateTx (txpool)", ["DuplicateTx"],
    fun x v => if v.s.txpool.containsTx x.tx then .stop v.s (some "DuplicateTx") else .next v⟩,
  ⟨"deaggregate_tx (fluff only)", ["deaggregate_tx"],
    fun x v => match (if x.stem then .ok { tx := x.tx, src := x.src } else v.s.deaggregateTx { tx := x.tx, src := x.src }
        : Except Pool.Err Pool.Entry) with
      | .error er => .stop v.s (some er)
      | .ok entry => .next { v with entry := entry }⟩,
  ⟨"verify_kernel_variants", ["verify_kernel_variants"],
    fun x v => match Pool.verifyKernelVariants x.c v.entry.tx with
      | some er => .stop v.s (some er)
      | none => .next v⟩,
  ⟨"is_acceptable / acceptability", ["acceptability"],
    fun x v =>
      if !(!x.stem && v.s.isAcceptable x.c v.entry.tx x.stem == some "OverCapacity")
          && (v.s.isAcceptable x.c v.entry.tx x.stem).isSome
      then .stop v.s (v.s.isAcceptable x.c v.entry.tx x.stem)
      else .next { v with evict := !x.stem && v.s.isAcceptable x.c v.entry.tx x.stem == some "OverCapacity" }⟩,
  ⟨"validate(AsTransaction)", ["validate"],
    fun x v => match v.entry.tx.validate x.c .asTransaction with
      | some er => .stop v.s (some er)
      | none => .next v⟩,
  ⟨"verify_tx_lock_height", ["verify_tx_lock_height"],
    fun x v => if v.entry.tx.lockHeight > x.c.head.height + 1 then .stop v.s (some "ImmatureTransaction") else .next v⟩,
  ⟨"all_transactions_aggregate (stem only)", ["all_transactions_aggregate"],
    fun x v => match (if x.stem then Pool.Pool.allAggregate x.c v.s.txpool none else .ok none) with
      | .error er => .stop v.s (some er)
      | .ok extra => .next { v with extra := extra }⟩,
  ⟨"locate_spends", ["<if>"],
    fun x v => match (if x.stem then v.s.stempool.locateSpends x.c v.entry.tx v.extra
                      else v.s.txpool.locateSpends x.c v.entry.tx none) with
      | .error er => .stop v.s (some er)
      | .ok (_, spentUtxo) => .next { v with spent := spentUtxo }⟩,
  ⟨"verify_coinbase_maturity", ["verify_coinbase_maturity"],
    fun x v => if Pool.immatureCoinbase x.c v.spent then .stop v.s (some "ImmatureCoinbase") else .next v⟩,
  ⟨"add_to_stempool (stem only)", ["add_to_stempool"],
    fun x v => if x.stem then
        match Pool.Pool.addToPool x.c v.s.stempool v.entry v.extra with
        | .error er => .stop v.s (some er)
        | .ok sp => .next { v with s := { v.s with stempool := sp } }
      else .next v⟩,
  ⟨"stem_tx_accepted: early Ok", [],
    fun x v => if x.stem && x.stemOk then .stop v.s none else .next v⟩,
  ⟨"add_to_txpool", ["add_to_txpool"],
    fun x v => match v.s.addToTxpool x.c v.entry with
      | (s2, some er) => .stop s2 (some er)
      | (s2, none) => .next { v with s := s2 }⟩,
  ⟨"add_to_reorg_cache, evict_from_txpool (results discarded)", [],
    fun x v =>
      let s3 := v.s.addToReorgCache x.c v.entry
      .stop (if v.evict then { s3 with txpool := s3.txpool.evict x.c } else s3) none⟩ ]

/-- **the model is the stage list** -/
theorem addCore_stages (c : Pool.Ctx) (s : Pool.TxPool) (src : Pool.Src) (tx : Pool.Tx) (stem stemOk : Bool) :
    s.addCore c src tx stem stemOk =
      runS ⟨c, src, tx, stem, stemOk⟩ { s := s, entry := { tx := tx, src := src } } addStages := by
  unfold Pool.TxPool.addCore
  simp only [addStages, runS]
  by_cases h0 : s.txpool.containsTx tx = true
  · simp [h0]
  · simp only [h0, Bool.false_eq_true, if_false]
    cases hd : (if stem = true then Except.ok { tx := tx, src := src } else s.deaggregateTx { tx := tx, src := src }
        : Except Pool.Err Pool.Entry) with
    | error er => rfl
    | ok entry =>
      simp only []
      cases hk : Pool.verifyKernelVariants c entry.tx with
      | some er => rfl
      | none =>
        simp only []
        generalize Pool.TxPool.isAcceptable c s entry.tx stem = acc
        generalize (!(!stem && acc == some "OverCapacity") && acc.isSome) = stopNow
        cases stopNow
        case true => rfl
        case false =>
          simp only [Bool.false_eq_true, if_false]
          cases Pool.Tx.validate c .asTransaction entry.tx with
          | some er => rfl
          | none =>
            simp only []
            by_cases hl : entry.tx.lockHeight > c.head.height + 1
            · simp [hl]
            · simp only [hl, if_false]
              cases (if stem = true then Pool.Pool.allAggregate c s.txpool none else Except.ok none) with
              | error er => rfl
              | ok extra =>
                simp only []
                cases (if stem = true then Pool.Pool.locateSpends c s.stempool entry.tx extra
                       else Pool.Pool.locateSpends c s.txpool entry.tx none) with
                | error er => rfl
                | ok pr =>
                  cases pr with
                  | mk fst spentUtxo =>
                  simp only []
                  by_cases hi : Pool.immatureCoinbase c spentUtxo = true
                  · simp [hi]
                  · simp only [hi, Bool.false_eq_true, if_false]
                    generalize (!stem && acc == some "OverCapacity") = ev
                    clear hd
                    cases stem
                    case false =>
                      simp only [Bool.false_eq_true, if_false, Bool.false_and]
                      cases Pool.TxPool.addToTxpool c s entry with
                      | mk s2 r => cases r <;> cases ev <;> rfl
                    case true =>
                      simp only [if_true, Bool.true_and]
                      cases Pool.Pool.addToPool c s.stempool entry extra with
                      | error er => rfl
                      | ok sp =>
                        simp only []
                        cases stemOk
                        case true => rfl
                        case false =>
                          simp only [Bool.false_eq_true, if_false]
                          cases Pool.TxPool.addToTxpool c { txpool := s.txpool, stempool := sp, cache := s.cache } entry with
                          | mk s2 r => cases r <;> cases ev <;> rfl

/-- `add_to_pool` itself: a stem transaction already in the stempool is sent through the same function once more
with `stem = false` (the code's first step: the recursive tail call under `stem && stempool.contains_tx(tx)`) -/
theorem addToPool_stages (c : Pool.Ctx) (s : Pool.TxPool) (src : Pool.Src) (tx : Pool.Tx) (stem stemOk : Bool) :
    s.addToPool c src tx stem stemOk =
      runS ⟨c, src, tx, if stem && s.stempool.containsTx tx then false else stem, stemOk⟩
        { s := s, entry := { tx := tx, src := src } } addStages := by
  unfold Pool.TxPool.addToPool
  by_cases h : (stem && s.stempool.containsTx tx) = true
  · simp only [h, if_true]; exact addCore_stages c s src tx false stemOk
  · simp only [h, Bool.false_eq_true, if_false]; exact addCore_stages c s src tx stem stemOk

def addCodeNames : List String := addStages.flatMap (·.code)

/-- the code's spine without: `is_coinbase` (the tail of the closure that filters the coinbase inputs: not a
failing step) and `convert_tx_v2` (re-validates the SAME transaction with its inputs in the other form: nothing
new in the model, which reads the inputs through their commitments only) -/
def addCodeSpine : List String :=
  (spine tpool_add_to_pool).filter fun n => !(["is_coinbase", "convert_tx_v2"].contains n)

/-- **shape = model**: the recursive call for a stem duplicate, then the stages of `addCore` in the code's
current order -/
theorem add_to_pool_shape_is_model :
    readOk tpool_add_to_pool = true ∧ addCodeSpine = "add_to_pool" :: addCodeNames := by decide

/-- the guards as the model has them: the recursion under `stem && stempool.contains_tx`; `DuplicateTx` under its
negation and `txpool.contains_tx`; de-aggregation for fluff only; the txpool aggregate and the stempool for stem
only; the ONE early `Ok` under `stem` and `stem_tx_accepted(..).is_ok()` (the model's `stemOk`), after
`add_to_stempool`; eviction under the `evict` flag; the only discarded calls are the reorg cache, the adapter
notification and the eviction (the model's last stage) -/
theorem add_to_pool_guards_are_model :
    under "($2 && self.stempool.contains_tx(&$1))" tpool_add_to_pool = ["add_to_pool"] ∧
    under "!(($2 && self.stempool.contains_tx(&$1)))" tpool_add_to_pool = ["DuplicateTx"] ∧
    fails tpool_add_to_pool = [("DuplicateTx", "self.txpool.contains_tx(&$1)")] ∧
    under "!($2)" tpool_add_to_pool = ["deaggregate_tx"] ∧
    under "$2" tpool_add_to_pool = ["all_transactions_aggregate", "add_to_stempool"] ∧
    earlyOks tpool_add_to_pool = [["$2", "self.adapter.stem_tx_accepted($13).is_ok()"]] ∧
    spineBeforeFirstEarlyOk tpool_add_to_pool = (spine tpool_add_to_pool).dropLast ∧
    calls tpool_add_to_pool = ["add_to_reorg_cache", "tx_accepted", "evict_from_txpool"] ∧
    ((tpool_add_to_pool.steps.filter fun s => s.kind == .call).map (·.guard)) = [[], [], ["$7"]] ∧
    mapped tpool_add_to_pool = [("validate", "InvalidTx")] ∧
    ((tpool_add_to_pool.steps.filter fun s => s.name == "validate").map (·.what)) =
      ["$5.validate(Weighting::AsTransaction).map_err(PoolError::InvalidTx)"] := by decide

/-- non-vacuity: a transaction whose kernels are already in the txpool stops at the first stage -/
example : runS ⟨{}, .pushApi, { ins := [1], outs := [2], kers := [⟨0, .plain 1, 0⟩] }, false, false⟩
    { s := { txpool := [{ tx := { ins := [1], outs := [2], kers := [⟨0, .plain 1, 0⟩] }, src := .pushApi }] },
      entry := { tx := { ins := [1], outs := [2], kers := [⟨0, .plain 1, 0⟩] }, src := .pushApi } }
    (addStages.take 1) = ({ txpool := [{ tx := { ins := [1], outs := [2], kers := [⟨0, .plain 1, 0⟩] }, src := .pushApi }] }, some "DuplicateTx") := by
  decide

end GV.Props.XlateShapeModel2
