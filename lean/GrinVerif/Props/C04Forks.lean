import GrinVerif.Props.C04
import GrinVerif.Lemmas.ConsFork
/-! # C04 on side branches: a header is validated against ITS OWN ancestors

Theorems about the node model of `Model/Cons.lean` (`chain/src/store.rs::DifficultyIter`,
`chain/src/pipe.rs::{validate_header, process_block_header, process_block_headers,
rewind_and_apply_header_fork}`, `txhashset::HeaderExtension::{rewind, apply_header,
is_on_current_chain}`) for header trees, not just chains:

* the difficulty window of a header, and so the verdict of `validate_header`, is a function of the
  headers on the walk back from its parent — other branches, later headers and the position of
  `header_head` do not enter (`window_own_ancestors`, `validate_header_own_ancestors`,
  `validate_header_ignores_other_branches`);
* whatever the header MMR held, `rewind_and_apply_header_fork(h)` leaves it holding exactly the chain
  of ancestors of `h` (`fork_mmr_is_the_ancestor_chain`, unique by `ancestor_chain_unique`), so
  `validate_root` compares `prev_root` with the MMR of the header's own ancestors;
* over every history of deliveries (single headers, batches, blocks; accepted or refused; forks and
  header reorgs of any depth) the header MMR holds the chain of ancestors of `header_head`
  (`hmmr_is_ancestor_chain`).

Definitions (`walk`, `IsChain`, `NodeInv`, `Admissible`, …) are in `Lemmas/ConsFork.lean`.
The run `cons forks` compares all of this with a real `Chain` on header trees. -/
namespace GV.Props.C04Forks
open GV GV.Gen GV.Cons

/-- **The difficulty window is that of the header's own ancestors.**  Two stores that agree on the
`DMA_WINDOW + 2` keys looked up on the walk back from `start` yield the same `DifficultyIter`
prefix — whatever else they hold. -/
theorem window_own_ancestors (s s' : List FHdr) (start : Nat)
    (h : ∀ k ∈ walk s (DMA_WINDOW + 2) start, getHdr s' k = getHdr s k) :
    windowFrom s' (DMA_WINDOW + 1) start = windowFrom s (DMA_WINDOW + 1) start :=
  windowFrom_congr s s' _ _ h

/-- **`validate_header` depends on the header's own ancestors only.** -/
theorem validate_header_own_ancestors (ct : ChainType) (skip : Bool) (s s' : List FHdr) (f : FHdr)
    (h : ∀ k ∈ walk s (DMA_WINDOW + 2) f.prevHash, getHdr s' k = getHdr s k) :
    validateHeader (ctxFor ct skip s' f) f.h = validateHeader (ctxFor ct skip s f) f.h := by
  have hp : getHdr s' f.prevHash = getHdr s f.prevHash := h _ (walk_head s _ _)
  have hw := window_own_ancestors s s' f.prevHash h
  simp only [ctxFor, hp, hw]

/-- headers of other branches (any headers whose hashes are not on the walk back from the parent),
stored before or after, do not change the verdict on `f` -/
theorem validate_header_ignores_other_branches (ct : ChainType) (skip : Bool) (s xs : List FHdr)
    (f : FHdr) (hx : ∀ x ∈ xs, x.hash ∉ walk s (DMA_WINDOW + 2) f.prevHash) :
    validateHeader (ctxFor ct skip (xs ++ s) f) f.h = validateHeader (ctxFor ct skip s f) f.h := by
  apply validate_header_own_ancestors
  intro k hk
  apply getHdr_append_ne
  intro x hxm e
  exact hx x hxm (e ▸ hk)

/-- genesis `1`, two children `2` and `3` with different timestamps and a child `4` of `3` -/
def exTree : List FHdr :=
  [ ⟨4, 3, ⟨2, 1300, 1, 12, 0, 10, 0, 4, 4⟩, 0, true, true⟩,
    ⟨3, 1, ⟨1, 1200, 1, 7, 0, 10, 0, 3, 3⟩, 0, true, true⟩,
    ⟨2, 1, ⟨1, 1030, 1, 6, 0, 29, 0, 3, 3⟩, 0, true, true⟩,
    ⟨1, 0, ⟨0, 1000, 1, 3, 0, 10, 0, 1, 1⟩, 0, true, true⟩ ]

-- the windows of the two branches differ, and each is what it is without the other branch
example : windowFrom exTree 61 2 = [⟨1030, 3, 0, true⟩, ⟨1000, 3, 0, false⟩] ∧
    windowFrom exTree 61 4 = [⟨1300, 5, 0, false⟩, ⟨1200, 4, 0, false⟩, ⟨1000, 3, 0, false⟩] ∧
    windowFrom (exTree.drop 2) 61 2 = windowFrom exTree 61 2 := by decide +kernel
example : ∀ x ∈ exTree.take 2, x.hash ∉ walk (exTree.drop 2) (DMA_WINDOW + 2) 2 := by decide +kernel

/-- a chain is determined by its last header -/
theorem ancestor_chain_unique (s : List FHdr) (l l' : List Nat) (h : IsChain s l)
    (h' : IsChain s l') (hne : l ≠ []) (hlast : l.getLast? = l'.getLast?) : l = l' :=
  isChain_unique l l' h h' hne hlast

/-- **`rewind_and_apply_header_fork(f)` puts the header MMR on the ancestors of `f`**: if the
extension held a chain of stored headers before (any chain: the current `header_head`'s), then
afterwards it holds the chain of stored headers that ends in `f` (the only one, by
`ancestor_chain_unique`), and its head is `f`. -/
theorem fork_mmr_is_the_ancestor_chain (s : List FHdr) (e e' : HExt) (g : Nat) (f : FHdr)
    (hi : ExtInv s e) (hs : StoreInv s g) (hf : getHdr s f.hash = some f)
    (h : rewindAndApplyHeaderFork s e f = .ok e') :
    IsChain s e'.mmr ∧ e'.mmr.length = f.h.height + 1 ∧ e'.mmr.getLast? = some f.hash ∧
    e'.head.hash = f.hash := by
  obtain ⟨hi', hh, hht⟩ := rewindAndApplyHeaderFork_chain f hi hs.linked hs.gen hf h
  refine ⟨hi'.chain, by rw [hi'.len, hht], ?_, hh⟩
  rw [List.getLast?_eq_getElem?, ← hh, ← hi'.last]
  congr 1
  have := hi'.len
  omega

theorem genesis_inv (ct : ChainType) (g : FHdr) (h0 : g.h.height = 0) (hb : g.h.height < 2^64) :
    NodeInv (HNode.genesis ct g) g.hash := by
  have hget : ∀ k x, getHdr [g] k = some x → x = g ∧ k = g.hash := by
    intro k x hx
    have hk := getHdr_hash hx
    unfold getHdr at hx
    have := List.mem_of_find?_eq_some hx
    simp at this
    subst this
    exact ⟨rfl, hk.symm⟩
  refine ⟨⟨?_, ?_, ?_⟩, ⟨?_, ?_, ?_⟩, ⟨g, getHdr_cons_self g [], rfl⟩⟩
  · intro k x hx hx0
    obtain ⟨rfl, _⟩ := hget k x hx
    exact absurd h0 hx0
  · intro k x hx _
    exact (hget k x hx).2
  · intro k x hx
    obtain ⟨rfl, _⟩ := hget k x hx
    exact hb
  · intro i k hk
    simp only [HNode.genesis] at hk
    have hi : i = 0 := by
      have := (List.getElem?_eq_some_iff.mp hk).1
      simp at this
      exact this
    subst hi
    simp at hk
    subst hk
    exact ⟨g, getHdr_cons_self g [], h0, by intro j hj; omega⟩
  · simp [HNode.genesis, Tip.ofHdr, h0]
  · simp [HNode.genesis, Tip.ofHdr, h0]

/-- the part of `process_block_header` behind the short-cuts keeps the invariant -/
theorem pbhApply_inv (n n' : HNode) (g : Nat) (opts : Opts) (f prev : FHdr) (hinv : NodeInv n g)
    (hprev : getHdr n.hdrs f.prevHash = some prev) (hc : Compat n.hdrs f) (hnz : f.h.height ≠ 0)
    (h : pbhApply n opts f prev = .ok n') : NodeInv n' g := by
  unfold pbhApply at h
  split at h
  · cases h
  rename_i hv
  obtain ⟨_, pv, hpv, hheight, _⟩ := (C04.validate_header_iff _ _).mp hv
  have hpv' : pv = prev.h := by
    simp only [ctxFor, hprev, Option.map_some, Option.some.injEq] at hpv
    exact hpv.symm
  subst hpv'
  split at h
  · cases h
  rename_i e0 he0
  have := extInit_of_inv hinv (StoreLe.refl _) he0
  subst this
  split at h
  · cases h
  rename_i e1 hfk
  have hprevself : getHdr n.hdrs prev.hash = some prev := by rw [getHdr_hash hprev]; exact hprev
  obtain ⟨hi1, hh1, hht1⟩ :=
    rewindAndApplyHeaderFork_chain prev hinv.ext hinv.store.linked hinv.store.gen hprevself hfk
  split at h
  · cases h
  rename_i e2 hva
  have he2 : e2 = { head := Tip.ofHdr f, mmr := e1.mmr ++ [f.hash] } := by
    unfold HExt.validateApply at hva
    split at hva
    · cases hva
    · cases hva; rfl
  obtain ⟨hst, hfh⟩ := storeInv_cons hinv.store hc hprev hheight hnz
  have hle := storeLe_cons hc
  have hlen1 := hi1.len
  split at h
  · cases h
    refine ⟨hst, ?_, ⟨f, getHdr_cons_self f _, rfl⟩⟩
    rw [he2]
    refine ⟨isChain_snoc (isChain_mono hle hi1.chain) (getHdr_cons_self f _) (by omega) ?_, ?_, ?_⟩
    · intro j hj
      have hj' : j = e1.head.height := by omega
      rw [hj', hi1.last, hh1, getHdr_hash hprev]
    · simp only [List.length_append, List.length_singleton, Tip.ofHdr]; omega
    · simp only [Tip.ofHdr]
      have : f.h.height = e1.mmr.length := by omega
      rw [this, List.getElem?_append_right (Nat.le_refl _)]
      simp
  · cases h
    obtain ⟨x, hx, hxt⟩ := hinv.head
    exact ⟨hst, extInv_mono hle hinv.ext, ⟨x, hle _ _ hx, hxt⟩⟩

/-- `process_block_header` keeps the invariant -/
theorem node_process_block_header_inv (n n' : HNode) (g : Nat) (opts : Opts) (f : FHdr)
    (hinv : NodeInv n g) (hc : Compat n.hdrs f) (hnz : f.h.height ≠ 0)
    (h : nodeProcessBlockHeader n opts f = .ok n') : NodeInv n' g := by
  unfold nodeProcessBlockHeader at h
  split at h
  · cases h; exact hinv
  split at h
  · cases h
  rename_i prev hprev
  split at h
  · split at h
    · exact pbhApply_inv n n' g opts f prev hinv hprev hc hnz h
    · cases h; exact hinv
  · exact pbhApply_inv n n' g opts f prev hinv hprev hc hnz h

/-- the loop of `process_block_headers` keeps the store invariants and only adds to the store -/
theorem batch_store_inv (ct : ChainType) (skip : Bool) (g : Nat) :
    ∀ (b s : List FHdr), StoreInv s g → BatchOk ct skip s b → BatchFresh s b →
      StoreInv (b.reverse ++ s) g ∧ StoreLe s (b.reverse ++ s) := by
  intro b
  induction b with
  | nil => intro s hs _ _; exact ⟨hs, StoreLe.refl s⟩
  | cons a t ih =>
    intro s hs hok hfr
    obtain ⟨hva, hok'⟩ := hok
    obtain ⟨hc, hnz, hfr'⟩ := hfr
    obtain ⟨_, pv, hpv, hheight, _⟩ := (C04.validate_header_iff _ _).mp hva
    simp only [ctxFor, Option.map_eq_some_iff] at hpv
    obtain ⟨p, hp, hpe⟩ := hpv
    subst hpe
    obtain ⟨hst, _⟩ := storeInv_cons hs hc hp hheight hnz
    obtain ⟨a1, a2⟩ := ih (a :: s) hst hok' hfr'
    have e : (a :: t).reverse ++ s = t.reverse ++ a :: s := by simp
    rw [e]
    exact ⟨a1, StoreLe.trans (storeLe_cons hc) a2⟩

/-- `sync_block_headers` keeps the invariant (accepted or refused) -/
theorem sync_inv (n : HNode) (g : Nat) (opts : Opts) (sh : Tip) (b : List FHdr)
    (hinv : NodeInv n g) (hfr : BatchFresh n.hdrs b) : NodeInv (syncStep n opts sh b) g := by
  unfold syncStep
  split
  · rename_i n' r hp
    unfold processBlockHeaders at hp
    split at hp
    · cases hp; exact hinv
    rename_i last hlast
    split at hp
    · cases hp
    rename_i s hvl
    obtain ⟨hok, hs⟩ := (validateLoop_ok_iff b n.hdrs s).mp hvl
    subst hs
    obtain ⟨hst, hle⟩ := batch_store_inv n.ct opts.skipPow g b n.hdrs hinv.store hok hfr
    split at hp
    · cases hp
    rename_i e0 he0
    have := extInit_of_inv hinv hle he0
    subst this
    split at hp
    · cases hp
    rename_i e1 hfk
    have hself : getHdr (b.reverse ++ n.hdrs) last.hash = some last := by
      obtain ⟨pre, hpre⟩ : ∃ pre, b = pre ++ [last] := by
        rcases List.eq_nil_or_concat b with rfl | ⟨pre, x, rfl⟩
        · simp at hlast
        · simp at hlast; subst hlast; exact ⟨pre, by simp⟩
      rw [hpre]
      simp only [List.reverse_append, List.reverse_cons, List.reverse_nil, List.nil_append,
        List.cons_append]
      exact getHdr_cons_self last _
    obtain ⟨hi1, hh1, hht1⟩ :=
      rewindAndApplyHeaderFork_chain last (extInv_mono hle hinv.ext) hst.linked hst.gen hself hfk
    split at hp
    · cases hp
    split at hp
    · cases hp
      refine ⟨hst, ⟨hi1.chain, ?_, ?_⟩, ⟨last, hself, rfl⟩⟩
      · simp only [Tip.ofHdr]; rw [hi1.len, hht1]
      · simp only [Tip.ofHdr]; rw [← hht1, ← hh1]; exact hi1.last
    · cases hp
      obtain ⟨x, hx, hxt⟩ := hinv.head
      exact ⟨hst, extInv_mono hle hinv.ext, ⟨x, hle _ _ hx, hxt⟩⟩
  · exact hinv

/-- only the header stages of `process_block` touch the header store and the header MMR -/
theorem node_process_block_inv (n : HNode) (g : Nat) (opts : Opts) (f : FHdr) (bodyOk : Bool)
    (hinv : NodeInv n g) (hc : Compat n.hdrs f) (hnz : f.h.height ≠ 0) :
    NodeInv (nodeProcessBlock n opts f bodyOk).1 g := by
  unfold nodeProcessBlock
  split
  · exact hinv
  rename_i n1 h1
  have hinv1 := node_process_block_header_inv n n1 g opts f hinv hc hnz h1
  split
  · exact hinv1
  split
  · exact hinv1
  split
  · exact hinv1
  split
  · exact hinv1
  split
  · exact hinv1
  split
  · exact hinv1
  split
  · exact hinv1
  split
  · exact hinv1
  rename_i n2 h2
  split
  · exact hinv1
  -- the second pass: the header is stored now (or the first pass short-cut and nothing changed)
  have hc1 : Compat n1.hdrs f := by
    have hsound := C04.node_process_block_header_sound n opts f n1 h1
    rcases hsound with hsame | ⟨_, _, hh, _⟩
    · rw [hsame]; exact hc
    · right; rw [hh]; exact getHdr_cons_self f _
  have hinv2 := node_process_block_header_inv n1 n2 g opts f hinv1 hc1 hnz h2
  have hinv3 : NodeInv { n2 with blocks := f.hash :: n2.blocks } g :=
    ⟨hinv2.store, hinv2.ext, hinv2.head⟩
  split
  · exact ⟨hinv3.store, hinv3.ext, hinv3.head⟩
  · exact hinv3

theorem deliver_inv (n : HNode) (g : Nat) (d : Delivery) (hinv : NodeInv n g)
    (ha : Admissible n d) : NodeInv (deliver n d) g := by
  cases d with
  | header o f =>
    simp only [deliver]
    split
    · rename_i n' h
      exact node_process_block_header_inv n n' g o f hinv ha.1 ha.2 h
    · exact hinv
  | batch o sh b => exact sync_inv n g o sh b hinv ha
  | block o f bodyOk => exact node_process_block_inv n g o f bodyOk hinv ha.1 ha.2

/-- **The header MMR holds the ancestors of `header_head`, over every history.**  From a node that
knows its genesis, after any sequence of deliveries — single headers, sync batches, full blocks;
accepted or refused, under any options; extending the head, forking off anywhere, overtaking
(header reorgs of any depth) or not — in which every delivered header has a new hash or is a
re-delivery of the stored header and does not claim height 0:
the header MMR lists, genesis first, a chain of stored headers in which the entry at index `i`
has height `i` and links to the entry before it, and whose last entry is `header_head`. -/
theorem hmmr_is_ancestor_chain (g : Nat) : ∀ (ds : List Delivery) (n : HNode), NodeInv n g →
    AdmissibleRun n ds → NodeInv (ds.foldl deliver n) g := by
  intro ds
  induction ds with
  | nil => intro n h _; exact h
  | cons d t ih =>
    intro n h ha
    exact ih (deliver n d) (deliver_inv n g d h ha.1) ha.2

/-- the statement spelled out for a node started from its genesis -/
theorem header_mmr_is_ancestors_of_header_head (ct : ChainType) (gen : FHdr) (h0 : gen.h.height = 0)
    (ds : List Delivery) (ha : AdmissibleRun (HNode.genesis ct gen) ds) :
    let n := ds.foldl deliver (HNode.genesis ct gen)
    IsChain n.hdrs n.hmmr ∧ n.hmmr.getLast? = some n.headerHead.hash ∧
    n.hmmr.length = n.headerHead.height + 1 ∧
    (∀ l, IsChain n.hdrs l → l.getLast? = some n.headerHead.hash → l = n.hmmr) := by
  intro n
  have hinv : NodeInv n gen.hash :=
    hmmr_is_ancestor_chain gen.hash ds _ (genesis_inv ct gen h0 (by omega)) ha
  have hlen := hinv.ext.len
  have hlast := hinv.ext.last
  simp only at hlen hlast
  have hgl : n.hmmr.getLast? = some n.headerHead.hash := by
    rw [List.getLast?_eq_getElem?, ← hlast]; congr 1; omega
  refine ⟨hinv.ext.chain, hgl, hlen, ?_⟩
  intro l hl hll
  have hne : n.hmmr ≠ [] := by intro e; rw [e] at hlen; simp at hlen
  exact (isChain_unique n.hmmr l hinv.ext.chain hl hne (by rw [hgl, hll])).symm

/-- **`prev_root` is compared with the MMR of the header's own ancestors.**  When
`process_block_header` validates a header `f` behind its short-cuts, the extension on which
`validate_root(f)` runs holds exactly the chain of stored headers ending in `f`'s parent —
wherever `header_head` is. -/
theorem root_checked_against_own_ancestors (n : HNode) (g : Nat) (f prev : FHdr) (e0 e1 : HExt)
    (hinv : NodeInv n g) (hprev : getHdr n.hdrs f.prevHash = some prev)
    (he0 : extInit n.hdrs n.hmmr = some e0)
    (hfk : rewindAndApplyHeaderFork n.hdrs e0 prev = .ok e1) :
    IsChain n.hdrs e1.mmr ∧ e1.mmr.getLast? = some f.prevHash ∧
    (∀ l, IsChain n.hdrs l → l.getLast? = some f.prevHash → l = e1.mmr) := by
  have := extInit_of_inv hinv (StoreLe.refl _) he0
  subst this
  have hprevself : getHdr n.hdrs prev.hash = some prev := by rw [getHdr_hash hprev]; exact hprev
  obtain ⟨hc, hlen, hl, _⟩ :=
    fork_mmr_is_the_ancestor_chain n.hdrs _ e1 g prev hinv.ext hinv.store hprevself hfk
  rw [getHdr_hash hprev] at hl
  refine ⟨hc, hl, ?_⟩
  intro l hlc hll
  have hne : e1.mmr ≠ [] := by intro e; rw [e] at hlen; simp at hlen
  exact (isChain_unique e1.mmr l hc hlc hne (by rw [hl, hll])).symm

/-! ### a concrete header reorg (non-vacuity) -/

/-- genesis `1`; `2` on it (work 6); then the sibling branch `3`, `4` (work 7, 12) overtakes -/
def exG : FHdr := ⟨1, 0, ⟨0, 1000, 1, 3, 0, 10, 0, 1, 1⟩, 0, true, true⟩
def exA : FHdr := ⟨2, 1, ⟨1, 1030, 1, 6, 0, 10, 0, 3, 3⟩, 0, true, true⟩
def exB : FHdr := ⟨3, 1, ⟨1, 1200, 1, 7, 0, 10, 0, 3, 3⟩, 0, true, true⟩
def exC : FHdr := ⟨4, 3, ⟨2, 1300, 1, 12, 0, 10, 0, 4, 4⟩, 0, true, true⟩

def exRun : List Delivery :=
  [.header Opts.SKIP_POW exA, .batch Opts.SKIP_POW (Tip.ofHdr exA) [exB, exC], .header Opts.SKIP_POW exA]

example : AdmissibleRun (HNode.genesis .automatedTesting exG) exRun := by decide +kernel
example : (exRun.foldl deliver (HNode.genesis .automatedTesting exG)).hmmr = [1, 3, 4] ∧
    ((exRun.take 1).foldl deliver (HNode.genesis .automatedTesting exG)).hmmr = [1, 2] ∧
    (exRun.foldl deliver (HNode.genesis .automatedTesting exG)).headerHead = Tip.ofHdr exC := by
  decide +kernel

end GV.Props.C04Forks
