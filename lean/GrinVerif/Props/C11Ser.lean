import GrinVerif.Lemmas.DecSerSeg
import GrinVerif.Lemmas.DecSerAgree
import GrinVerif.Props.C11
/-! # C11 (continued) — the decoders of the consensus objects, and `decode_message` without payload hypotheses

`Props/C11.lean` proves panic-freedom and the allocation bound for the frame header, the handshake and
every message body that `p2p/src/msg.rs` defines, and takes the payload decoders of the large types as
hypotheses of `body_no_panic` / `body_alloc_bound`.  This file closes that gap: for the instrumented
models of `Model/DecSer.lean` (transliterations of `Readable::read` of `Transaction`,
`UntrustedBlock`, `UntrustedCompactBlock`, `UntrustedBlockHeader` incl. `Proof::read`, `Output`,
`RangeProof`, `TxKernel`, `KernelFeatures`, `Inputs`, `TransactionBody`, `BitmapBlock`, `BitmapSegment`
and the segment responses, with every allocation and every release-mode panic site explicit)

* `D_no_panic     : (D … bytes).isPanic = false`            for all bytes, both readers, every `Cfg`
                                                            (protocol version, NRD flag, weight limit, …)
* `D_alloc_bound  : (D … bytes).alloc ≤ c · bytes.length + k` with explicit `c`, `k`
* loop progress   : `read_multi` yields at most one item per `w` consumed bytes (`w` = the item's
                    minimal wire size), whatever count is announced

and finally `decode_message_no_panic` / `decode_message_alloc_bound` for every type byte.

The read-time checks on the decoded value (`TransactionBody::validate_read`, `verify_sorted`,
`verify_cut_through`, `CompactBlockBody::verify_sorted`, the `UntrustedBlockHeader` checks,
`BitmapSegment::validate_blocks`) are part of the decoders and therefore covered; their panic-freedom is
also stated on its own.

Why `c` is not 1: an `Output` with a zero-length range proof takes 42 bytes on the wire and 728 bytes
in memory; `read_multi` collects by `push` (amortised ≤ 4 × the final size requested in total),
`TransactionBody::init` copies the vectors, `verify_cut_through` collects the commitments.  The ghost
counter charges all of these (see the header of `Model/DecSer.lean`), so it bounds the bytes *requested
in total*; 93 = 1 + ⌈(4·728 + 728 + 200) / 42⌉.  The additive constants are the capped pre-allocations.

Only assumption: `cfg.proofSize · 8 ≤ isize::MAX` (`global::proofsize()` is 42 or 8). -/
namespace GV.Props.C11Ser
open GV GV.Ser GV.Dec GV.Msg GV.DecSer

/-! ## items -/

theorem rangeProof_no_panic (rd : Rdr) (bytes : Bytes) : (rRangeProof rd bytes).isPanic = false :=
  noPanic_rRangeProof rd bytes
/-- `RangeProof::read` requests what it reads, and at most 675 bytes before it finds the input short —
whatever length field is announced -/
theorem rangeProof_alloc_bound (rd : Rdr) (bytes : Bytes) : (rRangeProof rd bytes).alloc ≤ 1 * bytes.length + 675 :=
  (bnd_rRangeProof rd).alloc_le bytes

/-- a length field of 2^64 − 1 with nothing behind it: `IOErr`, 675 bytes requested by the `BinReader` -/
example : rRangeProof .bin [255, 255, 255, 255, 255, 255, 255, 255] = .err .ioEof 675 := by decide

theorem output_no_panic (rd : Rdr) (bytes : Bytes) : (rOutput rd bytes).isPanic = false := noPanic_rOutput rd bytes
theorem output_alloc_bound (rd : Rdr) (bytes : Bytes) : (rOutput rd bytes).alloc ≤ 1 * bytes.length + 675 :=
  (bnd_rOutput rd).alloc_le bytes

theorem outputIdentifier_no_panic (rd : Rdr) (bytes : Bytes) : (rOutputId rd bytes).isPanic = false :=
  noPanic_rOutputId rd bytes
theorem input_no_panic (rd : Rdr) (bytes : Bytes) : (rInput rd bytes).isPanic = false := noPanic_rInput rd bytes
theorem input_alloc_bound (rd : Rdr) (bytes : Bytes) : (rInput rd bytes).alloc ≤ 1 * bytes.length + 33 :=
  (bnd_rInput rd).alloc_le bytes

/-- `KernelFeatures::read` (v1 and v2 layouts, NRD on or off): the `expect` on `WEEK_HEIGHT` fitting a
`u16` is the only panic site and is unreachable; nothing is allocated -/
theorem kernelFeatures_no_panic (c : Cfg) (bytes : Bytes) : (rKernelFeatures c bytes).isPanic = false :=
  noPanic_rKernelFeatures c bytes
theorem kernelFeatures_alloc_bound (c : Cfg) (bytes : Bytes) : (rKernelFeatures c bytes).alloc ≤ 1 * bytes.length + 0 :=
  (bnd_rKernelFeatures 1 c).alloc_le bytes

theorem txKernel_no_panic (rd : Rdr) (c : Cfg) (bytes : Bytes) : (rTxKernel rd c bytes).isPanic = false :=
  noPanic_rTxKernel rd c bytes
theorem txKernel_alloc_bound (rd : Rdr) (c : Cfg) (bytes : Bytes) :
    (rTxKernel rd c bytes).alloc ≤ 1 * bytes.length + 64 := (bnd_rTxKernel rd c).alloc_le bytes

/-! ## `read_multi`: progress -/

/-- whatever count is announced, `read_multi::<Output>` yields at most one output per 42 consumed bytes
(and exactly `count` of them when it succeeds): it stops at the end of the input -/
theorem output_loop_progress (rd : Rdr) (count : Nat) (bytes : Bytes) (xs : List Output) (rest : Bytes) (n : Nat)
    (h : DecSer.readMulti (rOutput rd) OUTPUT_MEM count bytes = .ok xs rest n) :
    xs.length = count ∧ xs.length * 42 + rest.length ≤ bytes.length :=
  readMulti_progress (progW_rOutput rd) h

theorem kernel_loop_progress (rd : Rdr) (c : Cfg) (count : Nat) (bytes : Bytes) (xs : List TxKernel) (rest : Bytes)
    (n : Nat) (h : DecSer.readMulti (rTxKernel rd c) KERNEL_MEM count bytes = .ok xs rest n) :
    xs.length = count ∧ xs.length * 97 + rest.length ≤ bytes.length :=
  readMulti_progress (progW_rTxKernel rd c) h

theorem input_loop_progress (rd : Rdr) (count : Nat) (bytes : Bytes) (xs : List Input) (rest : Bytes) (n : Nat)
    (h : DecSer.readMulti (rInput rd) INPUT_MEM count bytes = .ok xs rest n) :
    xs.length = count ∧ xs.length * 34 + rest.length ≤ bytes.length :=
  readMulti_progress (progW_rInput rd) h

theorem commit_loop_progress (rd : Rdr) (count : Nat) (bytes : Bytes) (xs : List Bytes) (rest : Bytes) (n : Nat)
    (h : DecSer.readMulti (rCommitWrapper rd) COMMIT_MEM count bytes = .ok xs rest n) :
    xs.length = count ∧ xs.length * 33 + rest.length ≤ bytes.length :=
  readMulti_progress (progW_rCommit rd) h

theorem shortId_loop_progress (rd : Rdr) (count : Nat) (bytes : Bytes) (xs : List Bytes) (rest : Bytes) (n : Nat)
    (h : DecSer.readMulti (rShortId rd) SHORT_ID_MEM count bytes = .ok xs rest n) :
    xs.length = count ∧ xs.length * 6 + rest.length ≤ bytes.length :=
  readMulti_progress (progW_rShortId rd) h

/-- a count above the `read_multi` cap is refused before anything is read or allocated -/
theorem readMulti_cap {α : Type} (p : Dec α) (sz count : Nat) (bytes : Bytes) (h : count > MAX_MULTI_COUNT) :
    DecSer.readMulti p sz count bytes = .err .tooLarge 0 := by
  unfold DecSer.readMulti; rw [if_pos h]

/-- the amortised push charge is sound: a `Vec` grown by `i` pushes has requested at most `4 · i`
elements in total (capacities 4, 8, 16, …) -/
theorem vec_growth_amortised (i : Nat) : vecReq i ≤ GROW * i := vecReq_le i

/-! ## read-time checks on the decoded value -/

/-- `verify_sorted_and_unique`: the `windows(2)` indexing `pair[0]`, `pair[1]` never panics; the result
is `Ok`, `SortError` or `DuplicateError` -/
theorem verifySorted_no_panic (keys : List Nat) (s : Site) : verifySortedP keys ≠ .panic s :=
  verifySortedP_noPanic keys s

theorem bodyVerifySorted_no_panic (key : Bytes → Nat) (b : TxBody) (s : Site) : bodyVerifySortedP key b ≠ .panic s :=
  bodyVerifySortedP_noPanic key b s

theorem compactVerifySorted_no_panic (key : Bytes → Nat) (b : CompactBlockBody) (s : Site) :
    compactVerifySortedP key b ≠ .panic s := compactVerifySortedP_noPanic key b s

/-- `TransactionBody::validate_read` (weight, NRD duplicates, sortedness, cut-through) on ANY body —
decoded or not — returns `Ok` or an error: the weight arithmetic saturates, the window indexing is in
range -/
theorem validateRead_no_panic (c : Cfg) (maxW : Nat) (b : TxBody) (rest : Bytes) :
    (validateReadBody c maxW b rest).isPanic = false := noPanic_validateReadBody c maxW b rest

/-- … and it allocates at most 200 bytes per input and output plus 132 per kernel -/
theorem validateRead_alloc_bound (c : Cfg) (maxW : Nat) (b : TxBody) (rest : Bytes) :
    (validateReadBody c maxW b rest).alloc ≤
      200 * b.inputs.len + 200 * b.outputs.length + 132 * b.kernels.length := by
  have h := validateReadBody_alloc c maxW b rest
  simpa [νBody, CUT_THROUGH_MEM, GROW, COMMIT_MEM] using h

/-- `BitmapSegment::validate_blocks`: `(n_chunks - 1)` never underflows -/
theorem validateBlocks_no_panic (id : SegmentId) (blocks : List BitmapBlock) (s : Site) :
    validateBlocks id blocks ≠ .panic s := validateBlocks_noPanic id blocks s

/-- the checks of `UntrustedBlockHeader::read` on a decoded header never panic in the shipped
(release) arithmetic -/
theorem untrustedChecks_no_panic (e : Env) (h : BlockHeader) (rest : Bytes) :
    (untrustedChecks e h rest).isPanic = false := noPanic_untrustedChecks e h rest

/-- … but two of its expressions are unchecked `u64` arithmetic that overflows on a header the reader
accepts (`header.height + 1` for `height = 2^64 − 1`): a debug build (overflow checks on) panics where
the release build wraps and answers `Ok`.  AutomatedTesting parameters; `powOk` = the header is mined. -/
def overflowHeader : BlockHeader :=
  { version := GV.Cons.headerVersion .automatedTesting (2^64 - 1), height := 2^64 - 1, prevHash := [], prevRoot := [],
    timestamp := 0, outputRoot := [], rangeProofRoot := [], kernelRoot := [], totalKernelOffset := [],
    outputMmrSize := 0, kernelMmrSize := 0,
    pow := { totalDifficulty := 1, secondaryScaling := 0, nonce := 0, proof := { edgeBits := 10, nonces := [] } } }

theorem untrustedHeader_debug_overflow :
    (GV.Cons.untrustedHeaderCheck .automatedTesting 0 300 true (toHdr overflowHeader)).toBool = true ∧
    headerArithOverflows .automatedTesting overflowHeader = true := by decide

/-! ## `Proof::read`, headers -/

/-- `read_number` stays inside the packed buffer: no slice, shift or subtraction of `extract_bits` /
`read_number` can fail for `edge_bits ≤ 63` and a buffer of `pack_len(edge_bits) ≥ 8` bytes -/
theorem readNumber_in_range (bits : Bytes) (bitStart bitCount : Nat) (hl : 8 ≤ bits.length)
    (hs : bitStart + bitCount ≤ bits.length * 8) (hc : bitCount ≤ 63) :
    ∃ v, readNumberP bits bitStart bitCount = .ok v := readNumberP_ok hl hs hc

theorem proof_no_panic (rd : Rdr) (c : Cfg) (hps : c.proofSize * 8 ≤ ISIZE_MAX) (bytes : Bytes) :
    (rProof rd c bytes).isPanic = false := noPanic_rProof rd c hps bytes

/-- `Proof::read`: the nonce vector (`8 · proofsize`), the packed bytes read, one failed read of at
most `8 · proofsize` bytes — for every `edge_bits` byte -/
theorem proof_alloc_bound (rd : Rdr) (c : Cfg) (bytes : Bytes) :
    (rProof rd c bytes).alloc ≤ 1 * bytes.length + (8 * c.proofSize + 8 * c.proofSize) :=
  (bnd_rProof rd c).alloc_le bytes

/-- edge_bits = 63 with an empty tail: 8·42 for the vector plus the 331 packed bytes a `BinReader` asks for -/
example : (rProof .bin { ver := 1, nrd := false, maxWeight := 40000, proofSize := 42, key := fun _ => 0 } [63]).alloc
    = 8 * 42 + 331 := by decide

theorem blockHeader_no_panic (rd : Rdr) (c : Cfg) (hps : c.proofSize * 8 ≤ ISIZE_MAX) (bytes : Bytes) :
    (rBlockHeader rd c bytes).isPanic = false := noPanic_rBlockHeader rd c hps bytes

theorem untrustedBlockHeader_no_panic (rd : Rdr) (e : Env) (hps : e.cfg.proofSize * 8 ≤ ISIZE_MAX) (bytes : Bytes) :
    (rUntrustedHeader rd e bytes).isPanic = false := noPanic_rUntrustedHeader rd e hps bytes

/-- `UntrustedBlockHeader::read`: `1 · len + 72 · proofsize + 1024` (+ one failed read) — mainnet: 4048 + 368 -/
theorem untrustedBlockHeader_alloc_bound (rd : Rdr) (e : Env) (bytes : Bytes) :
    (rUntrustedHeader rd e bytes).alloc ≤ 1 * bytes.length + (hdrK e.cfg.proofSize + hdrE e.cfg.proofSize) :=
  (bnd_rUntrustedHeader rd e).alloc_le bytes

example : hdrK 42 + hdrE 42 = 4416 := by decide

/-! ## bodies, transactions, blocks -/

theorem transactionBody_no_panic (rd : Rdr) (c : Cfg) (bytes : Bytes) : (rTxBody rd c bytes).isPanic = false :=
  noPanic_rTxBody rd c bytes

/-- `TransactionBody::read`: the weight pre-check runs before `read_multi`, and the allocation is
proportional to the bytes actually consumed whatever counts are announced -/
theorem transactionBody_alloc_bound (rd : Rdr) (c : Cfg) (bytes : Bytes) :
    (rTxBody rd c bytes).alloc ≤ 93 * bytes.length + 675 := by
  have := (bndS_rTxBody rd c).toBnd.alloc_le bytes
  simpa [CB] using this

/-- counts that fail the weight pre-check are refused with nothing allocated -/
theorem transactionBody_weight_precheck (rd : Rdr) (c : Cfg) (ni no nk : Nat) (rest : Bytes)
    (hni : ni < 2^64) (hno : no < 2^64) (hnk : nk < 2^64) (hw : weightByIok ni no nk > c.maxWeight) :
    rTxBody rd c (writeU64 ni ++ (writeU64 no ++ (writeU64 nk ++ rest))) = .err .tooLarge 0 := by
  unfold rTxBody
  rw [rU64_write ni hni, bind_ok, rU64_write no hno, bind_ok, rU64_write nk hnk, bind_ok, if_pos hw]
  rfl

theorem transaction_no_panic (rd : Rdr) (c : Cfg) (bytes : Bytes) : (rTransaction rd c bytes).isPanic = false :=
  noPanic_rTransaction rd c bytes
theorem transaction_alloc_bound (rd : Rdr) (c : Cfg) (bytes : Bytes) :
    (rTransaction rd c bytes).alloc ≤ 93 * bytes.length + 675 := by
  have := (bnd_rTransaction rd c).alloc_le bytes
  simpa [CB] using this

theorem untrustedBlock_no_panic (rd : Rdr) (e : Env) (hps : e.cfg.proofSize * 8 ≤ ISIZE_MAX) (bytes : Bytes) :
    (rUntrustedBlock rd e bytes).isPanic = false := noPanic_rUntrustedBlock rd e hps bytes
theorem untrustedBlock_alloc_bound (rd : Rdr) (e : Env) (bytes : Bytes) :
    (rUntrustedBlock rd e bytes).alloc ≤ 93 * bytes.length + (hdrK e.cfg.proofSize + (675 + hdrE e.cfg.proofSize)) := by
  have := (bnd_rUntrustedBlock rd e).alloc_le bytes
  simpa [CB] using this

theorem compactBlockBody_no_panic (rd : Rdr) (c : Cfg) (bytes : Bytes) : (rCompactBody rd c bytes).isPanic = false :=
  noPanic_rCompactBody rd c bytes
/-- `CompactBlockBody::read` has no weight pre-check (only the `read_multi` cap of 10^6 per list);
its allocation is still proportional to the bytes consumed -/
theorem compactBlockBody_alloc_bound (rd : Rdr) (c : Cfg) (bytes : Bytes) :
    (rCompactBody rd c bytes).alloc ≤ 71 * bytes.length + 675 := by
  have := (bnd_rCompactBody rd c).alloc_le bytes
  simpa [CC] using this

theorem untrustedCompactBlock_no_panic (rd : Rdr) (e : Env) (hps : e.cfg.proofSize * 8 ≤ ISIZE_MAX) (bytes : Bytes) :
    (rUntrustedCompactBlock rd e bytes).isPanic = false := noPanic_rUntrustedCompactBlock rd e hps bytes
theorem untrustedCompactBlock_alloc_bound (rd : Rdr) (e : Env) (bytes : Bytes) :
    (rUntrustedCompactBlock rd e bytes).alloc ≤
      71 * bytes.length + (hdrK e.cfg.proofSize + (675 + hdrE e.cfg.proofSize)) := by
  have := (bnd_rUntrustedCompactBlock rd e).alloc_le bytes
  simpa [CC] using this

/-! ## bitmap segments, segment responses -/

theorem bitmapBlock_no_panic (rd : Rdr) (bytes : Bytes) : (rBitmapBlock rd bytes).isPanic = false :=
  noPanic_rBitmapBlock rd bytes
/-- a `BitmapBlock` reserves its zeroed `BitVec` (≤ 8 KiB) before it reads the entry count -/
theorem bitmapBlock_alloc_bound (rd : Rdr) (bytes : Bytes) : (rBitmapBlock rd bytes).alloc ≤ 1 * bytes.length + 16384 :=
  (bnd_rBitmapBlock rd).alloc_le bytes

/-- 4 bytes in (64 chunks, positive mode, 0 entries), 8 KiB requested: the constant is attained -/
example : (rBitmapBlock .buf [64, 1, 0, 0]).alloc = 8192 ∧ (rBitmapBlock .buf [64, 1, 0, 0]).isPanic = false :=
  ⟨rfl, rfl⟩

theorem bitmapBlock_loop_progress (rd : Rdr) (count : Nat) (bytes : Bytes) (xs : List BitmapBlock) (rest : Bytes)
    (n : Nat) (h : readN (rBitmapBlock rd) count bytes = .ok xs rest n) :
    xs.length * 2 + rest.length ≤ bytes.length := readN_progressW (progW_rBitmapBlock rd) count bytes xs rest n h

theorem bitmapSegment_no_panic (rd : Rdr) (bytes : Bytes) : (rBitmapSegment rd bytes).isPanic = false :=
  noPanic_rBitmapSegment rd bytes
/-- `BitmapSegment::read`: the block count is capped at 128 (height ≤ 13) before anything is allocated;
128 blocks × 8 KiB + the block vector + the proof's capped pre-allocation -/
theorem bitmapSegment_alloc_bound (rd : Rdr) (bytes : Bytes) :
    (rBitmapSegment rd bytes).alloc ≤ 1 * bytes.length + 1093632 := by
  have := (bnd_rBitmapSegment rd).alloc_le bytes
  have e : BITMAP_K = 1085440 := by decide
  rw [e] at this
  exact this

theorem segmentResponse_no_panic {α : Type} (rd : Rdr) (p : Dec α) (hp : ∀ bytes, (p bytes).isPanic = false)
    (sz : Nat) (hsz : 1024 * sz ≤ ISIZE_MAX) (bytes : Bytes) : (rSegmentResponse rd p sz bytes).isPanic = false :=
  noPanic_rSegmentResponse rd hp sz hsz bytes

theorem outputSegmentResponse_alloc_bound (rd : Rdr) (bytes : Bytes) :
    (rOutputSegmentResponse rd bytes).alloc ≤ 1 * bytes.length + 116769 :=
  (bnd_rOutputSegmentResponse rd).alloc_le bytes

theorem rangeProofSegmentResponse_alloc_bound (rd : Rdr) (bytes : Bytes) :
    (rSegmentResponse rd (rRangeProof rd) RANGE_PROOF_MEM bytes).alloc ≤ 1 * bytes.length + 787107 := by
  have := (bnd_rSegmentResponse rd (bnd_rRangeProof rd) RANGE_PROOF_MEM).alloc_le bytes
  have e : 81920 + 1024 * RANGE_PROOF_MEM + max 32 675 = 787107 := by decide
  omega

theorem kernelSegmentResponse_alloc_bound (rd : Rdr) (c : Cfg) (bytes : Bytes) :
    (rSegmentResponse rd (rTxKernel rd c) KERNEL_MEM bytes).alloc ≤ 1 * bytes.length + 213056 := by
  have := (bnd_rSegmentResponse rd (bnd_rTxKernel rd c) KERNEL_MEM).alloc_le bytes
  have e : 81920 + 1024 * KERNEL_MEM + max 32 64 = 213056 := by decide
  omega

theorem bitmapSegmentResponse_no_panic (rd : Rdr) (bytes : Bytes) : (rBitmapSegmentResponse rd bytes).isPanic = false :=
  noPanic_rBitmapSegmentResponse rd bytes

/-! ## `decode_message`, every type byte, no payload hypotheses -/

/-- every payload decoder of `decode_message` is panic-free: the hypothesis of `C11.body_no_panic` -/
theorem payload_no_panic (rd : Rdr) (e : Env) (hps : e.cfg.proofSize * 8 ≤ ISIZE_MAX) (t : Nat) (bytes : Bytes) :
    (payload rd e t bytes).isPanic = false := noPanic_payload rd e hps t bytes

/-- **no arm of `decode_message` panics**, for any type byte, any body bytes, either reader, any
protocol version / chain parameters (`e`) -/
theorem decode_message_no_panic (rd : Rdr) (e : Env) (hps : e.cfg.proofSize * 8 ≤ ISIZE_MAX) (t : Nat) (bytes : Bytes) :
    (decodeMessageBody rd e t bytes).isPanic = false :=
  GV.Props.C11.body_no_panic (payload rd e) (payload_no_panic rd e hps) rd t bytes

/-- **allocation of `decode_message`**: at most `93 · len` plus the capped pre-allocations -/
theorem decode_message_alloc_bound (rd : Rdr) (e : Env) (t : Nat) (bytes : Bytes) :
    (decodeMessageBody rd e t bytes).alloc ≤
      93 * bytes.length + (payloadK e.cfg.proofSize + payloadE e.cfg.proofSize) := by
  have := (bnd_decodeMessageBody rd e t).alloc_le bytes
  simpa [CB] using this

/-- mainnet / testnet parameters (`proofsize = 42`): `93 · len + 1 098 723` -/
theorem decode_message_alloc_bound_mainnet (rd : Rdr) (e : Env) (h42 : e.cfg.proofSize = 42) (t : Nat) (bytes : Bytes) :
    (decodeMessageBody rd e t bytes).alloc ≤ 93 * bytes.length + 1098723 := by
  have := decode_message_alloc_bound rd e t bytes
  rw [h42] at this
  have e1 : payloadK 42 + payloadE 42 = 1098723 := by decide
  omega

/-- the hypotheses are satisfiable: a concrete environment -/
example : ∃ e : Env, e.cfg.proofSize * 8 ≤ ISIZE_MAX ∧ e.cfg.proofSize = 42 :=
  ⟨{ cfg := { ver := 3, nrd := false, maxWeight := 40000, proofSize := 42, key := fun _ => 0 },
     ct := .mainnet, now := 0, ftl := 300, powOk := fun _ => true }, by decide, rfl⟩

/-- a `Ping` through the assembled `decode_message` model -/
example : (decodeMessageBody .buf
    { cfg := { ver := 3, nrd := false, maxWeight := 40000, proofSize := 42, key := fun _ => 0 },
      ct := .mainnet, now := 0, ftl := 300, powOk := fun _ => true } 3
    [0, 0, 0, 0, 0, 0, 0, 5, 0, 0, 0, 0, 0, 0, 0, 9]).alloc = 0 := by decide

/-! ## reader independence (`BinReader` = `ser::deserialize`, `BufReader` = the codec)

The models distinguish the readers only in *when* `read_fixed_bytes` allocates; value, unread rest
(hence consumed length) and error kind do not depend on the reader.  Stated for every input, so in
particular for every prefix of a valid encoding. -/

/-- forgetting the allocation ghost determines the class text the harness prints -/
theorem cls_of_toExcept {α : Type} {o1 o2 : Outcome α} (h : o1.toExcept = o2.toExcept) (len : Nat) :
    o1.cls len = o2.cls len := by
  cases o1 <;> cases o2 <;> simp_all [Outcome.toExcept, Outcome.cls]

/-- every payload decoder of `decode_message` (transactions, blocks, compact blocks, headers, the four
segment responses incl. bitmap segments) gives the same value / rest / error through both readers -/
theorem payload_readers_agree (e : Env) (t : Nat) (bytes : Bytes) :
    (payload .bin e t bytes).toExcept = (payload .buf e t bytes).toExcept := agree_payload .bin .buf e t bytes

/-- **the two readers agree on every prefix** (cut at any offset `n`) of any byte string `enc`, for every
body `decode_message` dispatches except `BanReason`, at every protocol version / chain parameters `e`:
same verdict class, same consumed length, same decoded value -/
theorem readers_agree_on_prefixes (e : Env) (t : Nat) (ht : t ≠ GV.Gen.Msg.T_BanReason) (enc : Bytes) (n : Nat) :
    (decodeMessageBody .bin e t (enc.take n)).toExcept = (decodeMessageBody .buf e t (enc.take n)).toExcept ∧
    (decodeMessageBody .bin e t (enc.take n)).cls (enc.take n).length =
      (decodeMessageBody .buf e t (enc.take n)).cls (enc.take n).length := by
  have h := agree_decBody (pl := payload .bin e) (pl' := payload .buf e) .bin .buf (agree_payload .bin .buf e) t ht
    (enc.take n)
  exact ⟨h, cls_of_toExcept h _⟩

/-- the item decoders the harness also feeds directly -/
theorem item_readers_agree (c : Cfg) (bytes : Bytes) :
    (rTxKernel .bin c bytes).toExcept = (rTxKernel .buf c bytes).toExcept ∧
    (rInput .bin bytes).toExcept = (rInput .buf bytes).toExcept ∧
    (rOutput .bin bytes).toExcept = (rOutput .buf bytes).toExcept ∧
    (rRangeProof .bin bytes).toExcept = (rRangeProof .buf bytes).toExcept ∧
    (rBlockHeader .bin c bytes).toExcept = (rBlockHeader .buf c bytes).toExcept ∧
    (rBitmapSegment .bin bytes).toExcept = (rBitmapSegment .buf bytes).toExcept :=
  ⟨agree_rTxKernel _ _ c bytes, agree_rInput _ _ bytes, agree_rOutput _ _ bytes, agree_rRangeProof _ _ bytes,
   agree_rBlockHeader _ _ c bytes, agree_rBitmapSegment _ _ bytes⟩

/-- `Segment<T>::read` for any leaf reader that is itself reader-independent -/
theorem segment_readers_agree {α : Type} (p q : Dec α) (hp : ∀ bytes, (p bytes).toExcept = (q bytes).toExcept)
    (sz : Nat) (bytes : Bytes) : (segment .bin p sz bytes).toExcept = (segment .buf q sz bytes).toExcept :=
  agree_segment .bin .buf hp sz bytes

/-- the exception is real: `BanReason::read` replaces a failed `read_i32` by 0, after which a `BinReader`
over a slice has consumed the rest of the slice and a `BufReader` nothing — on the 1-byte prefix `[1]`
both answer `ok`, with consumed lengths 1 and 0 -/
example : (match decBanReason (P := Unit) .bin [1], decBanReason (P := Unit) .buf [1] with
    | .ok _ r1 _, .ok _ r2 _ => r1.length + 1 == r2.length
    | _, _ => false) = true := by decide

/-- a cut inside the zero padding of a v1 `Plain` kernel (feature byte, fee, 3 of 8 padding bytes):
`IOErr` with nothing allocated, through either reader -/
example : ∀ rd, rTxKernel rd { ver := 1, nrd := false, maxWeight := 40000, proofSize := 42, key := fun _ => 0 }
    [0, 0, 0, 0, 0, 0, 0, 0, 9, 0, 0, 0] = .err .ioEof 0 := by
  intro rd; cases rd <;> decide

end GV.Props.C11Ser
