import GrinVerif.Model.DecProg
/-! # C10 / C11 — the three readers agree on every decoder within the caps: ONE theorem

For every program over the `Reader` trait's methods (`Model/DecProg.lean`) and every input:
`BufReader` and `BinReader` return the same value, rest and error (`buf_eq_bin`), and so does
`StreamingReader` whenever the run stays within the 100 000-byte cap of `read_fixed_bytes`
(`stream_eq_bin_of_capped`) - which is ALWAYS the case for a decoder whose `read_fixed_bytes` lengths
are constants and that reads no length prefix (`capped_of_constLens`, `three_readers_agree_constLens`).
Instances: `CommitPos`, `SizeEntry`, `BlockSums`, the NRD list wrapper, and the network payloads `Ping` /
`Pong`, `TxHashSetRequest`, `TxHashSetArchive`, each also proved to BE the plain model's decoder (`run_*_eq`). A start: the payload decoders of `Model/DecSer.lean` are not yet
re-expressed as programs. Beyond the cap the readers really differ (`bytesP_differs`). -/
namespace GV.Props.C11Prog
open GV GV.Ser GV.SerDb GV.DecProg

theorem buf_eq_bin {α : Type} (p : Prog α) : ∀ bs, run .buf p bs = run .bin p bs := by
  induction p with
  | pure a => intro bs; rfl
  | fail e => intro bs; rfl
  | u8 k ih => intro bs; simp only [run]; cases readU8 bs with
    | error e => rfl
    | ok v => exact ih v.1 v.2
  | u16 k ih => intro bs; simp only [run]; cases readU16 bs with
    | error e => rfl
    | ok v => exact ih v.1 v.2
  | u32 k ih => intro bs; simp only [run]; cases readU32 bs with
    | error e => rfl
    | ok v => exact ih v.1 v.2
  | u64 k ih => intro bs; simp only [run]; cases readU64 bs with
    | error e => rfl
    | ok v => exact ih v.1 v.2
  | fixed len k ih => intro bs; simp only [run, readFixedR]; cases readFixed len bs with
    | error e => rfl
    | ok v => exact ih v.1 v.2
  | lenPrefix k ih => intro bs; simp only [run, readFixedR]; cases readU64 bs with
    | error e => rfl
    | ok v =>
      simp only
      cases readFixed v.1 v.2 with
      | error e => rfl
      | ok w => exact ih w.1 w.2

/-- the streaming `read_fixed_bytes` is the capped one for lengths within the cap -/
theorem readFixedR_stream (len : Nat) (h : len ≤ MAX_FIXED_READ) (bs : Bytes) :
    readFixedR .stream len bs = readFixed len bs := by
  have : ¬ len > MAX_FIXED_READ := by omega
  simp only [readFixedR, readFixed, this, ↓reduceIte]
  cases splitExact len bs with
  | none => rfl
  | some p => rfl

theorem run_fixed {α : Type} (rd : Rdr3) (len : Nat) (k : Bytes → Prog α) (bs : Bytes) :
    run rd (.fixed len k) bs = (match readFixedR rd len bs with
      | .ok (x, r) => run rd (k x) r
      | .error e => .error e) := by
  simp only [run]
  cases readFixedR rd len bs with
  | error e => rfl
  | ok v => rfl

theorem run_lenPrefix {α : Type} (rd : Rdr3) (k : Bytes → Prog α) (bs : Bytes) :
    run rd (.lenPrefix k) bs = (match readU64 bs with
      | .ok (len, r) =>
        (match readFixedR rd len r with
         | .ok (x, r') => run rd (k x) r'
         | .error e => .error e)
      | .error e => .error e) := by
  simp only [run]
  cases readU64 bs with
  | error e => rfl
  | ok v =>
    simp only
    cases readFixedR rd v.1 v.2 with
    | error e => rfl
    | ok w => rfl

theorem readFixedR_bin (len : Nat) (bs : Bytes) : readFixedR .bin len bs = readFixed len bs := rfl

theorem stream_eq_bin_of_capped {α : Type} (p : Prog α) :
    ∀ bs, capped p bs = true → run .stream p bs = run .bin p bs := by
  induction p with
  | pure a => intro bs _; rfl
  | fail e => intro bs _; rfl
  | u8 k ih => intro bs hc; simp only [run]; simp only [capped] at hc; cases h : readU8 bs with
    | error e => rfl
    | ok v => rw [h] at hc; exact ih v.1 v.2 hc
  | u16 k ih => intro bs hc; simp only [run]; simp only [capped] at hc; cases h : readU16 bs with
    | error e => rfl
    | ok v => rw [h] at hc; exact ih v.1 v.2 hc
  | u32 k ih => intro bs hc; simp only [run]; simp only [capped] at hc; cases h : readU32 bs with
    | error e => rfl
    | ok v => rw [h] at hc; exact ih v.1 v.2 hc
  | u64 k ih => intro bs hc; simp only [run]; simp only [capped] at hc; cases h : readU64 bs with
    | error e => rfl
    | ok v => rw [h] at hc; exact ih v.1 v.2 hc
  | fixed len k ih =>
    intro bs hc
    simp only [capped, Bool.and_eq_true, decide_eq_true_eq] at hc
    rw [run_fixed, run_fixed, readFixedR_stream len hc.1, readFixedR_bin]
    cases h : readFixed len bs with
    | error e => rfl
    | ok v => have h2 := hc.2; rw [h] at h2; exact ih v.1 v.2 h2
  | lenPrefix k ih =>
    intro bs hc
    rw [run_lenPrefix, run_lenPrefix]
    simp only [capped] at hc
    cases h : readU64 bs with
    | error e => rfl
    | ok v =>
      rw [h] at hc
      simp only [Bool.and_eq_true, decide_eq_true_eq] at hc
      simp only
      rw [readFixedR_stream v.1 hc.1, readFixedR_bin]
      cases h3 : readFixed v.1 v.2 with
      | error e => rfl
      | ok w => have h2 := hc.2; rw [h3] at h2; exact ih w.1 w.2 h2

theorem capped_of_constLens {α : Type} (p : Prog α) : constLens p → ∀ bs, capped p bs = true := by
  induction p with
  | pure a => intro _ bs; rfl
  | fail e => intro _ bs; rfl
  | u8 k ih => intro hc bs; simp only [capped]; cases readU8 bs with
    | error e => rfl
    | ok v => exact ih v.1 (hc v.1) v.2
  | u16 k ih => intro hc bs; simp only [capped]; cases readU16 bs with
    | error e => rfl
    | ok v => exact ih v.1 (hc v.1) v.2
  | u32 k ih => intro hc bs; simp only [capped]; cases readU32 bs with
    | error e => rfl
    | ok v => exact ih v.1 (hc v.1) v.2
  | u64 k ih => intro hc bs; simp only [capped]; cases readU64 bs with
    | error e => rfl
    | ok v => exact ih v.1 (hc v.1) v.2
  | fixed len k ih =>
    intro hc bs
    simp only [capped, Bool.and_eq_true, decide_eq_true_eq]
    refine ⟨hc.1, ?_⟩
    cases readFixed len bs with
    | error e => rfl
    | ok v => exact ih v.1 (hc.2 v.1) v.2
  | lenPrefix k ih => intro hc; exact absurd hc (by simp [constLens])

/-- THE schema: a decoder with constant read lengths gives the same value, rest and error through
`BinReader`, `BufReader` and `StreamingReader`, on every input -/
theorem three_readers_agree_constLens {α : Type} (p : Prog α) (h : constLens p) (rd : Rdr3) (bs : Bytes) :
    run rd p bs = run .bin p bs := by
  cases rd with
  | bin => rfl
  | buf => exact buf_eq_bin p bs
  | stream => exact stream_eq_bin_of_capped p bs (capped_of_constLens p h bs)

/-! ## instances -/

theorem run_commitPosP_eq (bs : Bytes) : run .bin commitPosP bs = decCommitPos bs := by
  simp only [commitPosP, run, decCommitPos, andThen]
  cases readU64 bs with
  | error e => rfl
  | ok v => simp only; cases readU64 v.2 with
    | error e => rfl
    | ok w => rfl

theorem run_sizeEntryP_eq (bs : Bytes) : run .bin sizeEntryP bs = decSizeEntry bs := by
  simp only [sizeEntryP, run, decSizeEntry, andThen]
  cases readU64 bs with
  | error e => rfl
  | ok v => simp only; cases readU16 v.2 with
    | error e => rfl
    | ok w => rfl

theorem run_blockSumsP_eq (bs : Bytes) : run .bin blockSumsP bs = decBlockSums bs := by
  simp only [blockSumsP, run, readFixedR, decBlockSums, andThen]
  cases readFixed COMMIT_SIZE bs with
  | error e => rfl
  | ok v => simp only; cases readFixed COMMIT_SIZE v.2 with
    | error e => rfl
    | ok w => rfl

theorem commitPos_three_readers (rd : Rdr3) (bs : Bytes) : run rd commitPosP bs = decCommitPos bs := by
  rw [three_readers_agree_constLens commitPosP (by simp [commitPosP, constLens]) rd bs, run_commitPosP_eq]

theorem sizeEntry_three_readers (rd : Rdr3) (bs : Bytes) : run rd sizeEntryP bs = decSizeEntry bs := by
  rw [three_readers_agree_constLens sizeEntryP (by simp [sizeEntryP, constLens]) rd bs, run_sizeEntryP_eq]

theorem blockSums_three_readers (rd : Rdr3) (bs : Bytes) : run rd blockSumsP bs = decBlockSums bs := by
  rw [three_readers_agree_constLens blockSumsP
    (by simp only [blockSumsP, constLens]; exact ⟨by decide, fun _ => ⟨by decide, fun _ => trivial⟩⟩) rd bs,
    run_blockSumsP_eq]

theorem nrdList_three_readers (rd : Rdr3) (bs : Bytes) : run rd nrdListP bs = run .bin nrdListP bs :=
  three_readers_agree_constLens nrdListP (by
    simp only [nrdListP, constLens]
    intro t
    split
    · simp [constLens]
    · split <;> simp [constLens]) rd bs

/-! ### network payloads -/

theorem run_pingPongP_eq (bs : Bytes) : run .bin pingPongP bs = GV.SerMsg.decPingPong bs := by
  simp only [pingPongP, run, GV.SerMsg.decPingPong, andThen]
  cases readU64 bs with
  | error e => rfl
  | ok v => simp only; cases readU64 v.2 with
    | error e => rfl
    | ok w => rfl

/-- `Ping` / `Pong`: the same value, rest and error through all three readers, on every input -/
theorem pingPong_three_readers (rd : Rdr3) (bs : Bytes) : run rd pingPongP bs = GV.SerMsg.decPingPong bs := by
  rw [three_readers_agree_constLens pingPongP (by simp [pingPongP, constLens]) rd bs, run_pingPongP_eq]

theorem run_txHashSetRequestP_eq (bs : Bytes) :
    run .bin txHashSetRequestP bs = GV.SerMsg.decTxHashSetRequest bs := by
  simp only [txHashSetRequestP, run, readFixedR, GV.SerMsg.decTxHashSetRequest, decHash, andThen]
  cases readFixed HASH_SIZE bs with
  | error e => rfl
  | ok v => simp only; cases readU64 v.2 with
    | error e => rfl
    | ok w => rfl

theorem txHashSetRequest_three_readers (rd : Rdr3) (bs : Bytes) :
    run rd txHashSetRequestP bs = GV.SerMsg.decTxHashSetRequest bs := by
  rw [three_readers_agree_constLens txHashSetRequestP
    (by simp only [txHashSetRequestP, constLens]; exact ⟨by decide, fun _ _ => trivial⟩) rd bs,
    run_txHashSetRequestP_eq]

theorem run_txHashSetArchiveP_eq (bs : Bytes) :
    run .bin txHashSetArchiveP bs = GV.SerMsg.decTxHashSetArchive bs := by
  simp only [txHashSetArchiveP, run, readFixedR, GV.SerMsg.decTxHashSetArchive, decHash, andThen]
  cases readFixed HASH_SIZE bs with
  | error e => rfl
  | ok v => simp only; cases readU64 v.2 with
    | error e => rfl
    | ok w => simp only; cases readU64 w.2 with
      | error e => rfl
      | ok x => rfl

theorem txHashSetArchive_three_readers (rd : Rdr3) (bs : Bytes) :
    run rd txHashSetArchiveP bs = GV.SerMsg.decTxHashSetArchive bs := by
  rw [three_readers_agree_constLens txHashSetArchiveP
    (by simp only [txHashSetArchiveP, constLens]; exact ⟨by decide, fun _ _ _ => trivial⟩) rd bs,
    run_txHashSetArchiveP_eq]

/-- the zero-padding check is a program over `u8`: the same for every reader -/
theorem emptyBytes_three_readers {α : Type} (n : Nat) (k : Prog α) (hk : constLens k) (rd : Rdr3) (bs : Bytes) :
    run rd (emptyBytes n k) bs = run .bin (emptyBytes n k) bs := by
  apply three_readers_agree_constLens
  induction n with
  | zero => exact hk
  | succ n ih =>
    simp only [emptyBytes, constLens]
    intro b
    split
    · trivial
    · exact ih

/-- beyond the cap the readers really differ: a length prefix of 100 001 over an empty rest is
`TooLargeReadErr` for the capped readers and an I/O error (after requesting the bytes) for the streaming one -/
theorem bytesP_differs :
    run .bin bytesP (writeU64 100001) = .error .tooLarge ∧ run .stream bytesP (writeU64 100001) = .error .ioEof := by
  constructor <;> rfl

end GV.Props.C11Prog
