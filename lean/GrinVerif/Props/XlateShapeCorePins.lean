import GrinVerif.Gen.PipeShapeCore
/-! # Pinned shapes of the validation pipelines (Core)

Every `def pin_<fn>` below is a COPY, made when the shape was last reviewed, of the step list that
tools/gen_pipeshape.py reads from the source (`Gen/PipeShapeCore.lean`, regenerated on every check run);
`<fn>_pinned` states that the current source still has exactly that shape (kernel-checked by `rfl` /
`decide`).  A change of the order of checks, a dropped `?`, a new guard or early return, another error
variant, another argument breaks the theorem.  After a REVIEWED harmless change re-pin with
`python3 tools/gen_pipeshape.py --pin Core > lean/GrinVerif/Props/XlateShapeCorePins.lean`.
The semantic obligations (order the hand models assume, every check propagated, early returns) are in
`Props/XlateShapeCore.lean`, stated over the GENERATED tables. -/
namespace GV.Props.XlateShapeCorePins
open GV.Gen.PipeShape

/-- reviewed shape of `Block::validate_read (core/src/core/block.rs)` -/
def pin_block_validate_read : List Step := [
  ⟨.check, "validate_read", "self.body.validate_read(Weighting::AsBlock)", "", []⟩,
  ⟨.check, "verify_kernel_lock_heights", "self.verify_kernel_lock_heights()", "", []⟩,
  ⟨.okFinal, "", "()", "", []⟩
]
/-- reviewed `let`s / assignments that feed a guard of `Block::validate_read (core/src/core/block.rs)` -/
def pin_lets_block_validate_read : List LetRec := [
]
theorem block_validate_read_pinned : block_validate_read.parseError = none ∧ block_validate_read.steps = pin_block_validate_read ∧ block_validate_read.lets = pin_lets_block_validate_read := ⟨rfl, rfl, rfl⟩

/-- reviewed shape of `Block::validate (core/src/core/block.rs)` -/
def pin_block_validate : List Step := [
  ⟨.check, "validate", "self.body.validate(Weighting::AsBlock)", "", []⟩,
  ⟨.check, "verify_kernel_lock_heights", "self.verify_kernel_lock_heights()", "", []⟩,
  ⟨.check, "verify_nrd_kernels_for_header_version", "self.verify_nrd_kernels_for_header_version()", "", []⟩,
  ⟨.check, "verify_coinbase", "self.verify_coinbase()", "", []⟩,
  ⟨.check, "block_kernel_offset", "self.block_kernel_offset($0.clone())", "", []⟩,
  ⟨.check, "verify_kernel_sums", "self.verify_kernel_sums(self.header.overage(), self.block_kernel_offset($0.clone())?)", "", []⟩,
  ⟨.okFinal, "", "()", "", []⟩
]
/-- reviewed `let`s / assignments that feed a guard of `Block::validate (core/src/core/block.rs)` -/
def pin_lets_block_validate : List LetRec := [
]
theorem block_validate_pinned : block_validate.parseError = none ∧ block_validate.steps = pin_block_validate ∧ block_validate.lets = pin_lets_block_validate := ⟨rfl, rfl, rfl⟩

/-- reviewed shape of `Block::verify_coinbase (core/src/core/block.rs)` -/
def pin_block_verify_coinbase : List Step := [
  ⟨.tail, "is_coinbase", "$0.is_coinbase()", "", ["closure"]⟩,
  ⟨.tail, "is_coinbase", "$2.is_coinbase()", "", ["closure"]⟩,
  ⟨.check, "commit_value", "$5.commit_value(reward(self.total_fees()))", "", []⟩,
  ⟨.check, "commit_sum", "$5.commit_sum(map_vec!(..), [$6])", "", []⟩,
  ⟨.tail, "excess", "$8.excess", "", ["closure"]⟩,
  ⟨.check, "commit_sum", "$5.commit_sum($3.iter().map(|..|{..}).collect(), [])", "", []⟩,
  ⟨.fail, "CoinbaseSumMismatch", "Error::CoinbaseSumMismatch", "", ["($9 != $7)"]⟩,
  ⟨.okFinal, "", "()", "", []⟩
]
/-- reviewed `let`s / assignments that feed a guard of `Block::verify_coinbase (core/src/core/block.rs)` -/
def pin_lets_block_verify_coinbase : List LetRec := [
  ⟨["$3"], "kernels", "self.body.kernels.iter().filter(|..|{..}).collect()", []⟩,
  ⟨["$4"], "static_secp_instance", "static_secp_instance()", []⟩,
  ⟨["$5"], "lock", "$4.lock()", []⟩,
  ⟨["$6"], "commit_value", "$5.commit_value(reward(self.total_fees()))?", []⟩,
  ⟨["$7"], "commit_sum", "$5.commit_sum(map_vec!(..), [$6])?", []⟩,
  ⟨["$9"], "commit_sum", "$5.commit_sum($3.iter().map(|..|{..}).collect(), [])?", []⟩
]
theorem block_verify_coinbase_pinned : block_verify_coinbase.parseError = none ∧ block_verify_coinbase.steps = pin_block_verify_coinbase ∧ block_verify_coinbase.lets = pin_lets_block_verify_coinbase := ⟨rfl, rfl, rfl⟩

/-- reviewed shape of `Block::verify_kernel_lock_heights (core/src/core/block.rs)` -/
def pin_block_verify_kernel_lock_heights : List Step := [
  ⟨.fail, "KernelLockHeight", "Error::KernelLockHeight($1)", "", ["for self.kernels()", "$0.features ~ KernelFeatures::HeightLocked{lock_height: _, ..}", "($1 > self.header.height)"]⟩,
  ⟨.okFinal, "", "()", "", []⟩
]
/-- reviewed `let`s / assignments that feed a guard of `Block::verify_kernel_lock_heights (core/src/core/block.rs)` -/
def pin_lets_block_verify_kernel_lock_heights : List LetRec := [
]
theorem block_verify_kernel_lock_heights_pinned : block_verify_kernel_lock_heights.parseError = none ∧ block_verify_kernel_lock_heights.steps = pin_block_verify_kernel_lock_heights ∧ block_verify_kernel_lock_heights.lets = pin_lets_block_verify_kernel_lock_heights := ⟨rfl, rfl, rfl⟩

/-- reviewed shape of `Block::verify_nrd_kernels_for_header_version (core/src/core/block.rs)` -/
def pin_block_verify_nrd_kernels_for_header_version : List Step := [
  ⟨.tail, "is_nrd", "$0.is_nrd()", "", ["closure"]⟩,
  ⟨.fail, "NRDKernelNotEnabled", "Error::NRDKernelNotEnabled", "", ["self.kernels().iter().any(|..|{..})", "!(global::is_nrd_enabled())"]⟩,
  ⟨.fail, "NRDKernelPreHF3", "Error::NRDKernelPreHF3", "", ["self.kernels().iter().any(|..|{..})", "(self.header.version < HeaderVersion(4))"]⟩,
  ⟨.okFinal, "", "()", "", []⟩
]
/-- reviewed `let`s / assignments that feed a guard of `Block::verify_nrd_kernels_for_header_version (core/src/core/block.rs)` -/
def pin_lets_block_verify_nrd_kernels_for_header_version : List LetRec := [
]
theorem block_verify_nrd_kernels_for_header_version_pinned : block_verify_nrd_kernels_for_header_version.parseError = none ∧ block_verify_nrd_kernels_for_header_version.steps = pin_block_verify_nrd_kernels_for_header_version ∧ block_verify_nrd_kernels_for_header_version.lets = pin_lets_block_verify_nrd_kernels_for_header_version := ⟨rfl, rfl, rfl⟩

/-- reviewed shape of `<UntrustedBlockHeader as Readable>::read (core/src/core/block.rs)` -/
def pin_untrusted_header_read : List Step := [
  ⟨.check, "read_block_header", "read_block_header($0)", "", []⟩,
  ⟨.fail, "CorruptedData", "ser::Error::CorruptedData", "", ["($1.timestamp > (Utc::now() + Duration::seconds($2 as _)))"]⟩,
  ⟨.fail, "InvalidBlockVersion", "ser::Error::InvalidBlockVersion", "", ["!(consensus::valid_header_version($1.height, $1.version))"]⟩,
  ⟨.fail, "CorruptedData", "ser::Error::CorruptedData", "", ["(!($1.pow.is_primary()) && !($1.pow.is_secondary()))"]⟩,
  ⟨.fail, "CorruptedData", "ser::Error::CorruptedData", "", ["verify_size(&$1) ~ Err(_)"]⟩,
  ⟨.fail, "CorruptedData", "ser::Error::CorruptedData", "", ["($4 > (global::max_block_weight() * ($1.height + 1)))"]⟩,
  ⟨.okFinal, "", "UntrustedBlockHeader($1)", "", []⟩
]
/-- reviewed `let`s / assignments that feed a guard of `<UntrustedBlockHeader as Readable>::read (core/src/core/block.rs)` -/
def pin_lets_untrusted_header_read : List LetRec := [
  ⟨["$1"], "read_block_header", "read_block_header($0)?", []⟩,
  ⟨["$2"], "get_future_time_limit", "global::get_future_time_limit()", []⟩,
  ⟨["$4"], "weight_by_iok", "TransactionBody::weight_by_iok(0, $1.output_mmr_count(), $1.kernel_mmr_count())", []⟩
]
theorem untrusted_header_read_pinned : untrusted_header_read.parseError = none ∧ untrusted_header_read.steps = pin_untrusted_header_read ∧ untrusted_header_read.lets = pin_lets_untrusted_header_read := ⟨rfl, rfl, rfl⟩

/-- reviewed shape of `<UntrustedBlock as Readable>::read (core/src/core/block.rs)` -/
def pin_untrusted_block_read : List Step := [
  ⟨.check, "read", "UntrustedBlockHeader::read($0)", "", []⟩,
  ⟨.check, "read", "TransactionBody::read($0)", "", []⟩,
  ⟨.tail, "CorruptedData", "ser::Error::CorruptedData", "", ["closure"]⟩,
  ⟨.check, "validate_read", "$2.validate_read(Weighting::AsBlock).map_err(|..|{..})", "CorruptedData", []⟩,
  ⟨.okFinal, "", "UntrustedBlock($4)", "", []⟩
]
/-- reviewed `let`s / assignments that feed a guard of `<UntrustedBlock as Readable>::read (core/src/core/block.rs)` -/
def pin_lets_untrusted_block_read : List LetRec := [
]
theorem untrusted_block_read_pinned : untrusted_block_read.parseError = none ∧ untrusted_block_read.steps = pin_untrusted_block_read ∧ untrusted_block_read.lets = pin_lets_untrusted_block_read := ⟨rfl, rfl, rfl⟩

/-- reviewed shape of `TransactionBody::validate_read (core/src/core/transaction.rs)` -/
def pin_body_validate_read : List Step := [
  ⟨.check, "verify_weight", "self.verify_weight($0)", "", []⟩,
  ⟨.check, "verify_no_nrd_duplicates", "self.verify_no_nrd_duplicates()", "", []⟩,
  ⟨.check, "verify_sorted", "self.verify_sorted()", "", []⟩,
  ⟨.check, "verify_cut_through", "self.verify_cut_through()", "", []⟩,
  ⟨.okFinal, "", "()", "", []⟩
]
/-- reviewed `let`s / assignments that feed a guard of `TransactionBody::validate_read (core/src/core/transaction.rs)` -/
def pin_lets_body_validate_read : List LetRec := [
]
theorem body_validate_read_pinned : body_validate_read.parseError = none ∧ body_validate_read.steps = pin_body_validate_read ∧ body_validate_read.lets = pin_lets_body_validate_read := ⟨rfl, rfl, rfl⟩

/-- reviewed shape of `TransactionBody::validate (core/src/core/transaction.rs)` -/
def pin_body_validate : List Step := [
  ⟨.check, "validate_read", "self.validate_read($0)", "", []⟩,
  ⟨.call, "push", "$1.push($3.commitment())", "", ["!(self.outputs.is_empty())", "for &self.outputs"]⟩,
  ⟨.call, "push", "$2.push($3.proof)", "", ["!(self.outputs.is_empty())", "for &self.outputs"]⟩,
  ⟨.check, "batch_verify_proofs", "Output::batch_verify_proofs(&$1, &$2)", "", ["!(self.outputs.is_empty())"]⟩,
  ⟨.check, "batch_sig_verify", "TxKernel::batch_sig_verify(&self.kernels)", "", []⟩,
  ⟨.okFinal, "", "()", "", []⟩
]
/-- reviewed `let`s / assignments that feed a guard of `TransactionBody::validate (core/src/core/transaction.rs)` -/
def pin_lets_body_validate : List LetRec := [
]
theorem body_validate_pinned : body_validate.parseError = none ∧ body_validate.steps = pin_body_validate ∧ body_validate.lets = pin_lets_body_validate := ⟨rfl, rfl, rfl⟩

/-- reviewed shape of `TransactionBody::verify_weight (core/src/core/transaction.rs)` -/
def pin_body_verify_weight : List Step := [
  ⟨.okEarly, "", "()", "", ["$0 ~ Weighting::NoLimit"]⟩,
  ⟨.fail, "TooHeavy", "Error::TooHeavy", "", ["(self.weight() > $3)"]⟩,
  ⟨.okFinal, "", "()", "", []⟩
]
/-- reviewed `let`s / assignments that feed a guard of `TransactionBody::verify_weight (core/src/core/transaction.rs)` -/
def pin_lets_body_verify_weight : List LetRec := [
  ⟨["$3"], "<match>", "<match>", []⟩
]
theorem body_verify_weight_pinned : body_verify_weight.parseError = none ∧ body_verify_weight.steps = pin_body_verify_weight ∧ body_verify_weight.lets = pin_lets_body_verify_weight := ⟨rfl, rfl, rfl⟩

/-- reviewed shape of `TransactionBody::verify_no_nrd_duplicates (core/src/core/transaction.rs)` -/
def pin_body_verify_no_nrd_duplicates : List Step := [
  ⟨.okEarly, "", "()", "", ["!(global::is_nrd_enabled())"]⟩,
  ⟨.tail, "<boollit>", "true", "", ["closure", "$0.features ~ KernelFeatures::NoRecentDuplicate{, ..}"]⟩,
  ⟨.tail, "<boollit>", "false", "", ["closure", "$0.features ~ _"]⟩,
  ⟨.tail, "excess", "$1.excess()", "", ["closure"]⟩,
  ⟨.call, "sort", "$2.sort()", "", []⟩,
  ⟨.call, "dedup", "$2.dedup()", "", []⟩,
  ⟨.okFinal, "", "()", "", ["($3 == $4)"]⟩,
  ⟨.fail, "InvalidNRDRelativeHeight", "Error::InvalidNRDRelativeHeight", "", ["!(($3 == $4))"]⟩
]
/-- reviewed `let`s / assignments that feed a guard of `TransactionBody::verify_no_nrd_duplicates (core/src/core/transaction.rs)` -/
def pin_lets_body_verify_no_nrd_duplicates : List LetRec := [
  ⟨["$2"], "kernels", "self.kernels.iter().filter(|..|{..}).map(|..|{..}).collect()", []⟩,
  ⟨["$3"], "len", "$2.len()", []⟩,
  ⟨["$4"], "len", "$2.len()", []⟩
]
theorem body_verify_no_nrd_duplicates_pinned : body_verify_no_nrd_duplicates.parseError = none ∧ body_verify_no_nrd_duplicates.steps = pin_body_verify_no_nrd_duplicates ∧ body_verify_no_nrd_duplicates.lets = pin_lets_body_verify_no_nrd_duplicates := ⟨rfl, rfl, rfl⟩

/-- reviewed shape of `TransactionBody::verify_sorted (core/src/core/transaction.rs)` -/
def pin_body_verify_sorted : List Step := [
  ⟨.check, "verify_sorted_and_unique", "self.inputs.verify_sorted_and_unique()", "", []⟩,
  ⟨.check, "verify_sorted_and_unique", "self.outputs.verify_sorted_and_unique()", "", []⟩,
  ⟨.check, "verify_sorted_and_unique", "self.kernels.verify_sorted_and_unique()", "", []⟩,
  ⟨.okFinal, "", "()", "", []⟩
]
/-- reviewed `let`s / assignments that feed a guard of `TransactionBody::verify_sorted (core/src/core/transaction.rs)` -/
def pin_lets_body_verify_sorted : List LetRec := [
]
theorem body_verify_sorted_pinned : body_verify_sorted.parseError = none ∧ body_verify_sorted.steps = pin_body_verify_sorted ∧ body_verify_sorted.lets = pin_lets_body_verify_sorted := ⟨rfl, rfl, rfl⟩

/-- reviewed shape of `TransactionBody::verify_cut_through (core/src/core/transaction.rs)` -/
def pin_body_verify_cut_through : List Step := [
  ⟨.fail, "CutThrough", "Error::CutThrough", "", ["for $0.windows(2)", "($1[0] == $1[1])"]⟩,
  ⟨.okFinal, "", "()", "", []⟩
]
/-- reviewed `let`s / assignments that feed a guard of `TransactionBody::verify_cut_through (core/src/core/transaction.rs)` -/
def pin_lets_body_verify_cut_through : List LetRec := [
  ⟨["$0"], "inputs_outputs_committed", "self.inputs_outputs_committed()", []⟩
]
theorem body_verify_cut_through_pinned : body_verify_cut_through.parseError = none ∧ body_verify_cut_through.steps = pin_body_verify_cut_through ∧ body_verify_cut_through.lets = pin_lets_body_verify_cut_through := ⟨rfl, rfl, rfl⟩

/-- reviewed shape of `TransactionBody::verify_features (core/src/core/transaction.rs)` -/
def pin_body_verify_features : List Step := [
  ⟨.check, "verify_output_features", "self.verify_output_features()", "", []⟩,
  ⟨.check, "verify_kernel_features", "self.verify_kernel_features()", "", []⟩,
  ⟨.okFinal, "", "()", "", []⟩
]
/-- reviewed `let`s / assignments that feed a guard of `TransactionBody::verify_features (core/src/core/transaction.rs)` -/
def pin_lets_body_verify_features : List LetRec := [
]
theorem body_verify_features_pinned : body_verify_features.parseError = none ∧ body_verify_features.steps = pin_body_verify_features ∧ body_verify_features.lets = pin_lets_body_verify_features := ⟨rfl, rfl, rfl⟩

/-- reviewed shape of `TransactionBody::verify_output_features (core/src/core/transaction.rs)` -/
def pin_body_verify_output_features : List Step := [
  ⟨.tail, "is_coinbase", "$0.is_coinbase()", "", ["closure"]⟩,
  ⟨.fail, "InvalidOutputFeatures", "Error::InvalidOutputFeatures", "", ["self.outputs.iter().any(|..|{..})"]⟩,
  ⟨.okFinal, "", "()", "", []⟩
]
/-- reviewed `let`s / assignments that feed a guard of `TransactionBody::verify_output_features (core/src/core/transaction.rs)` -/
def pin_lets_body_verify_output_features : List LetRec := [
]
theorem body_verify_output_features_pinned : body_verify_output_features.parseError = none ∧ body_verify_output_features.steps = pin_body_verify_output_features ∧ body_verify_output_features.lets = pin_lets_body_verify_output_features := ⟨rfl, rfl, rfl⟩

/-- reviewed shape of `TransactionBody::verify_kernel_features (core/src/core/transaction.rs)` -/
def pin_body_verify_kernel_features : List Step := [
  ⟨.tail, "is_coinbase", "$0.is_coinbase()", "", ["closure"]⟩,
  ⟨.fail, "InvalidKernelFeatures", "Error::InvalidKernelFeatures", "", ["self.kernels.iter().any(|..|{..})"]⟩,
  ⟨.okFinal, "", "()", "", []⟩
]
/-- reviewed `let`s / assignments that feed a guard of `TransactionBody::verify_kernel_features (core/src/core/transaction.rs)` -/
def pin_lets_body_verify_kernel_features : List LetRec := [
]
theorem body_verify_kernel_features_pinned : body_verify_kernel_features.parseError = none ∧ body_verify_kernel_features.steps = pin_body_verify_kernel_features ∧ body_verify_kernel_features.lets = pin_lets_body_verify_kernel_features := ⟨rfl, rfl, rfl⟩

/-- reviewed shape of `Transaction::validate_read (core/src/core/transaction.rs)` -/
def pin_tx_validate_read : List Step := [
  ⟨.check, "validate_read", "self.body.validate_read(Weighting::AsTransaction)", "", []⟩,
  ⟨.check, "verify_features", "self.body.verify_features()", "", []⟩,
  ⟨.okFinal, "", "()", "", []⟩
]
/-- reviewed `let`s / assignments that feed a guard of `Transaction::validate_read (core/src/core/transaction.rs)` -/
def pin_lets_tx_validate_read : List LetRec := [
]
theorem tx_validate_read_pinned : tx_validate_read.parseError = none ∧ tx_validate_read.steps = pin_tx_validate_read ∧ tx_validate_read.lets = pin_lets_tx_validate_read := ⟨rfl, rfl, rfl⟩

/-- reviewed shape of `Transaction::validate (core/src/core/transaction.rs)` -/
def pin_tx_validate : List Step := [
  ⟨.check, "verify_features", "self.body.verify_features()", "", []⟩,
  ⟨.check, "validate", "self.body.validate($0)", "", []⟩,
  ⟨.check, "verify_kernel_sums", "self.verify_kernel_sums(self.overage(), self.offset.clone())", "", []⟩,
  ⟨.okFinal, "", "()", "", []⟩
]
/-- reviewed `let`s / assignments that feed a guard of `Transaction::validate (core/src/core/transaction.rs)` -/
def pin_lets_tx_validate : List LetRec := [
]
theorem tx_validate_pinned : tx_validate.parseError = none ∧ tx_validate.steps = pin_tx_validate ∧ tx_validate.lets = pin_lets_tx_validate := ⟨rfl, rfl, rfl⟩

end GV.Props.XlateShapeCorePins
