import GrinVerif.Gen.PipeShapeCore
/-! # Pinned shapes of the validation pipelines (Core)

Every `def pin_<fn>` below is a COPY, made when the shape was last reviewed, of the step list that
tools/gen_pipeshape.py reads from the source (`Gen/PipeShapeCore.lean`, regenerated on every check run);
`<fn>_pinned` states that the current source still has exactly that shape (kernel-checked by `rfl` /
`decide`).  A change of the order of checks, a dropped `?`, a new guard or early return, another error
variant, another argument breaks the theorem.  After a REVIEWED harmless change re-pin with
`python3 tools/gen_pipeshape.py --pin Core > lean/GrinVerif/Props/XlateShapeCorePins.lean`.
The semantic obligations (order the hand models assume, every check propagated, early returns) are in
`Props/XlateShapeCore.lean`, stated over the GENERATED tables. -/
namespace GV.Props.XlateShapeCorePins
open GV.Gen.PipeShape

/-- reviewed shape of `Block::validate_read (core/src/core/block.rs)` -/
def pin_block_validate_read : List Step := [
  ⟨.check, "validate_read", "self.body.validate_read(Weighting::AsBlock)", "", []⟩,
  ⟨.check, "verify_kernel_lock_heights", "self.verify_kernel_lock_heights()", "", []⟩,
  ⟨.okFinal, "", "()", "", []⟩
]
theorem block_validate_read_pinned : block_validate_read.parseError = none ∧ block_validate_read.steps = pin_block_validate_read := ⟨rfl, rfl⟩

/-- reviewed shape of `Block::validate (core/src/core/block.rs)` -/
def pin_block_validate : List Step := [
  ⟨.check, "validate", "self.body.validate(Weighting::AsBlock)", "", []⟩,
  ⟨.check, "verify_kernel_lock_heights", "self.verify_kernel_lock_heights()", "", []⟩,
  ⟨.check, "verify_nrd_kernels_for_header_version", "self.verify_nrd_kernels_for_header_version()", "", []⟩,
  ⟨.check, "verify_coinbase", "self.verify_coinbase()", "", []⟩,
  ⟨.check, "block_kernel_offset", "self.block_kernel_offset($0.clone())", "", []⟩,
  ⟨.check, "verify_kernel_sums", "self.verify_kernel_sums(self.header.overage(), self.block_kernel_offset($0.clone())?)", "", []⟩,
  ⟨.okFinal, "", "()", "", []⟩
]
theorem block_validate_pinned : block_validate.parseError = none ∧ block_validate.steps = pin_block_validate := ⟨rfl, rfl⟩

/-- reviewed shape of `Block::verify_coinbase (core/src/core/block.rs)` -/
def pin_block_verify_coinbase : List Step := [
  ⟨.tail, "is_coinbase", "$0.is_coinbase()", "", ["closure"]⟩,
  ⟨.tail, "is_coinbase", "$2.is_coinbase()", "", ["closure"]⟩,
  ⟨.check, "commit_value", "$5.commit_value(reward(self.total_fees()))", "", []⟩,
  ⟨.check, "commit_sum", "$5.commit_sum(map_vec!(..), [$6])", "", []⟩,
  ⟨.tail, "excess", "$8.excess", "", ["closure"]⟩,
  ⟨.check, "commit_sum", "$5.commit_sum($3.iter().map(|..|{..}).collect(), [])", "", []⟩,
  ⟨.fail, "CoinbaseSumMismatch", "Error::CoinbaseSumMismatch", "", ["($9 != $7)"]⟩,
  ⟨.okFinal, "", "()", "", []⟩
]
theorem block_verify_coinbase_pinned : block_verify_coinbase.parseError = none ∧ block_verify_coinbase.steps = pin_block_verify_coinbase := ⟨rfl, rfl⟩

/-- reviewed shape of `Block::verify_kernel_lock_heights (core/src/core/block.rs)` -/
def pin_block_verify_kernel_lock_heights : List Step := [
  ⟨.fail, "KernelLockHeight", "Error::KernelLockHeight($1)", "", ["for self.kernels()", "$0.features ~ KernelFeatures::HeightLocked{lock_height: _, ..}", "($1 > self.header.height)"]⟩,
  ⟨.okFinal, "", "()", "", []⟩
]
theorem block_verify_kernel_lock_heights_pinned : block_verify_kernel_lock_heights.parseError = none ∧ block_verify_kernel_lock_heights.steps = pin_block_verify_kernel_lock_heights := ⟨rfl, rfl⟩

/-- reviewed shape of `Block::verify_nrd_kernels_for_header_version (core/src/core/block.rs)` -/
def pin_block_verify_nrd_kernels_for_header_version : List Step := [
  ⟨.tail, "is_nrd", "$0.is_nrd()", "", ["closure"]⟩,
  ⟨.fail, "NRDKernelNotEnabled", "Error::NRDKernelNotEnabled", "", ["self.kernels().iter().any(|..|{..})", "!(global::is_nrd_enabled())"]⟩,
  ⟨.fail, "NRDKernelPreHF3", "Error::NRDKernelPreHF3", "", ["self.kernels().iter().any(|..|{..})", "(self.header.version < HeaderVersion(4))"]⟩,
  ⟨.okFinal, "", "()", "", []⟩
]
theorem block_verify_nrd_kernels_for_header_version_pinned : block_verify_nrd_kernels_for_header_version.parseError = none ∧ block_verify_nrd_kernels_for_header_version.steps = pin_block_verify_nrd_kernels_for_header_version := ⟨rfl, rfl⟩

/-- reviewed shape of `<UntrustedBlockHeader as Readable>::read (core/src/core/block.rs)` -/
def pin_untrusted_header_read : List Step := [
  ⟨.check, "read_block_header", "read_block_header($0)", "", []⟩,
  ⟨.fail, "CorruptedData", "ser::Error::CorruptedData", "", ["($1.timestamp > (Utc::now() + Duration::seconds($2 as _)))"]⟩,
  ⟨.fail, "InvalidBlockVersion", "ser::Error::InvalidBlockVersion", "", ["!(consensus::valid_header_version($1.height, $1.version))"]⟩,
  ⟨.fail, "CorruptedData", "ser::Error::CorruptedData", "", ["(!($1.pow.is_primary()) && !($1.pow.is_secondary()))"]⟩,
  ⟨.fail, "CorruptedData", "ser::Error::CorruptedData", "", ["verify_size(&$1) ~ Err(_)"]⟩,
  ⟨.fail, "CorruptedData", "ser::Error::CorruptedData", "", ["($4 > (global::max_block_weight() * ($1.height + 1)))"]⟩,
  ⟨.okFinal, "", "UntrustedBlockHeader($1)", "", []⟩
]
theorem untrusted_header_read_pinned : untrusted_header_read.parseError = none ∧ untrusted_header_read.steps = pin_untrusted_header_read := ⟨rfl, rfl⟩

/-- reviewed shape of `<UntrustedBlock as Readable>::read (core/src/core/block.rs)` -/
def pin_untrusted_block_read : List Step := [
  ⟨.check, "read", "UntrustedBlockHeader::read($0)", "", []⟩,
  ⟨.check, "read", "TransactionBody::read($0)", "", []⟩,
  ⟨.tail, "CorruptedData", "ser::Error::CorruptedData", "", ["closure"]⟩,
  ⟨.check, "validate_read", "$2.validate_read(Weighting::AsBlock).map_err(|..|{..})", "CorruptedData", []⟩,
  ⟨.okFinal, "", "UntrustedBlock($4)", "", []⟩
]
theorem untrusted_block_read_pinned : untrusted_block_read.parseError = none ∧ untrusted_block_read.steps = pin_untrusted_block_read := ⟨rfl, rfl⟩

/-- reviewed shape of `TransactionBody::validate_read (core/src/core/transaction.rs)` -/
def pin_body_validate_read : List Step := [
  ⟨.check, "verify_weight", "self.verify_weight($0)", "", []⟩,
  ⟨.check, "verify_no_nrd_duplicates", "self.verify_no_nrd_duplicates()", "", []⟩,
  ⟨.check, "verify_sorted", "self.verify_sorted()", "", []⟩,
  ⟨.check, "verify_cut_through", "self.verify_cut_through()", "", []⟩,
  ⟨.okFinal, "", "()", "", []⟩
]
theorem body_validate_read_pinned : body_validate_read.parseError = none ∧ body_validate_read.steps = pin_body_validate_read := ⟨rfl, rfl⟩

/-- reviewed shape of `TransactionBody::validate (core/src/core/transaction.rs)` -/
def pin_body_validate : List Step := [
  ⟨.check, "validate_read", "self.validate_read($0)", "", []⟩,
  ⟨.call, "push", "$1.push($3.commitment())", "", ["!(self.outputs.is_empty())", "for &self.outputs"]⟩,
  ⟨.call, "push", "$2.push($3.proof)", "", ["!(self.outputs.is_empty())", "for &self.outputs"]⟩,
  ⟨.check, "batch_verify_proofs", "Output::batch_verify_proofs(&$1, &$2)", "", ["!(self.outputs.is_empty())"]⟩,
  ⟨.check, "batch_sig_verify", "TxKernel::batch_sig_verify(&self.kernels)", "", []⟩,
  ⟨.okFinal, "", "()", "", []⟩
]
theorem body_validate_pinned : body_validate.parseError = none ∧ body_validate.steps = pin_body_validate := ⟨rfl, rfl⟩

/-- reviewed shape of `TransactionBody::verify_weight (core/src/core/transaction.rs)` -/
def pin_body_verify_weight : List Step := [
  ⟨.okEarly, "", "()", "", ["$0 ~ Weighting::NoLimit"]⟩,
  ⟨.fail, "TooHeavy", "Error::TooHeavy", "", ["(self.weight() > $3)"]⟩,
  ⟨.okFinal, "", "()", "", []⟩
]
theorem body_verify_weight_pinned : body_verify_weight.parseError = none ∧ body_verify_weight.steps = pin_body_verify_weight := ⟨rfl, rfl⟩

/-- reviewed shape of `TransactionBody::verify_no_nrd_duplicates (core/src/core/transaction.rs)` -/
def pin_body_verify_no_nrd_duplicates : List Step := [
  ⟨.okEarly, "", "()", "", ["!(global::is_nrd_enabled())"]⟩,
  ⟨.tail, "<boollit>", "true", "", ["closure", "$0.features ~ KernelFeatures::NoRecentDuplicate{, ..}"]⟩,
  ⟨.tail, "<boollit>", "false", "", ["closure", "$0.features ~ _"]⟩,
  ⟨.tail, "excess", "$1.excess()", "", ["closure"]⟩,
  ⟨.call, "sort", "$2.sort()", "", []⟩,
  ⟨.call, "dedup", "$2.dedup()", "", []⟩,
  ⟨.okFinal, "", "()", "", ["($3 == $4)"]⟩,
  ⟨.fail, "InvalidNRDRelativeHeight", "Error::InvalidNRDRelativeHeight", "", ["!(($3 == $4))"]⟩
]
theorem body_verify_no_nrd_duplicates_pinned : body_verify_no_nrd_duplicates.parseError = none ∧ body_verify_no_nrd_duplicates.steps = pin_body_verify_no_nrd_duplicates := ⟨rfl, rfl⟩

/-- reviewed shape of `TransactionBody::verify_sorted (core/src/core/transaction.rs)` -/
def pin_body_verify_sorted : List Step := [
  ⟨.check, "verify_sorted_and_unique", "self.inputs.verify_sorted_and_unique()", "", []⟩,
  ⟨.check, "verify_sorted_and_unique", "self.outputs.verify_sorted_and_unique()", "", []⟩,
  ⟨.check, "verify_sorted_and_unique", "self.kernels.verify_sorted_and_unique()", "", []⟩,
  ⟨.okFinal, "", "()", "", []⟩
]
theorem body_verify_sorted_pinned : body_verify_sorted.parseError = none ∧ body_verify_sorted.steps = pin_body_verify_sorted := ⟨rfl, rfl⟩

/-- reviewed shape of `TransactionBody::verify_cut_through (core/src/core/transaction.rs)` -/
def pin_body_verify_cut_through : List Step := [
  ⟨.fail, "CutThrough", "Error::CutThrough", "", ["for $0.windows(2)", "($1[0] == $1[1])"]⟩,
  ⟨.okFinal, "", "()", "", []⟩
]
theorem body_verify_cut_through_pinned : body_verify_cut_through.parseError = none ∧ body_verify_cut_through.steps = pin_body_verify_cut_through := ⟨rfl, rfl⟩

/-- reviewed shape of `TransactionBody::verify_features (core/src/core/transaction.rs)` -/
def pin_body_verify_features : List Step := [
  ⟨.check, "verify_output_features", "self.verify_output_features()", "", []⟩,
  ⟨.check, "verify_kernel_features", "self.verify_kernel_features()", "", []⟩,
  ⟨.okFinal, "", "()", "", []⟩
]
theorem body_verify_features_pinned : body_verify_features.parseError = none ∧ body_verify_features.steps = pin_body_verify_features := ⟨rfl, rfl⟩

/-- reviewed shape of `TransactionBody::verify_output_features (core/src/core/transaction.rs)` -/
def pin_body_verify_output_features : List Step := [
  ⟨.tail, "is_coinbase", "$0.is_coinbase()", "", ["closure"]⟩,
  ⟨.fail, "InvalidOutputFeatures", "Error::InvalidOutputFeatures", "", ["self.outputs.iter().any(|..|{..})"]⟩,
  ⟨.okFinal, "", "()", "", []⟩
]
theorem body_verify_output_features_pinned : body_verify_output_features.parseError = none ∧ body_verify_output_features.steps = pin_body_verify_output_features := ⟨rfl, rfl⟩

/-- reviewed shape of `TransactionBody::verify_kernel_features (core/src/core/transaction.rs)` -/
def pin_body_verify_kernel_features : List Step := [
  ⟨.tail, "is_coinbase", "$0.is_coinbase()", "", ["closure"]⟩,
  ⟨.fail, "InvalidKernelFeatures", "Error::InvalidKernelFeatures", "", ["self.kernels.iter().any(|..|{..})"]⟩,
  ⟨.okFinal, "", "()", "", []⟩
]
theorem body_verify_kernel_features_pinned : body_verify_kernel_features.parseError = none ∧ body_verify_kernel_features.steps = pin_body_verify_kernel_features := ⟨rfl, rfl⟩

/-- reviewed shape of `Transaction::validate_read (core/src/core/transaction.rs)` -/
def pin_tx_validate_read : List Step := [
  ⟨.check, "validate_read", "self.body.validate_read(Weighting::AsTransaction)", "", []⟩,
  ⟨.check, "verify_features", "self.body.verify_features()", "", []⟩,
  ⟨.okFinal, "", "()", "", []⟩
]
theorem tx_validate_read_pinned : tx_validate_read.parseError = none ∧ tx_validate_read.steps = pin_tx_validate_read := ⟨rfl, rfl⟩

/-- reviewed shape of `Transaction::validate (core/src/core/transaction.rs)` -/
def pin_tx_validate : List Step := [
  ⟨.check, "verify_features", "self.body.verify_features()", "", []⟩,
  ⟨.check, "validate", "self.body.validate($0)", "", []⟩,
  ⟨.check, "verify_kernel_sums", "self.verify_kernel_sums(self.overage(), self.offset.clone())", "", []⟩,
  ⟨.okFinal, "", "()", "", []⟩
]
theorem tx_validate_pinned : tx_validate.parseError = none ∧ tx_validate.steps = pin_tx_validate := ⟨rfl, rfl⟩

end GV.Props.XlateShapeCorePins
