import GrinVerif.Lemmas.TxDeaggX
import GrinVerif.Props.C12
/-! # C12 — `deaggregate` when the known subset and the remainder DO spend each other's outputs

`deaggregate_inverse` (Props/C12.lean) covers operands that share nothing and have no spend link.
Here the link is allowed: a known transaction may spend an output of the remainder or the other way
round (the pair was cut through in the multi-kernel transaction). -/
namespace GV.Props.C12
open GV GV.Tx GV.Tx.Ex List

/-- **what `deaggregate` returns in general** (normal operands, no commitment twice among the
inputs, none twice among the outputs, no kernel twice; spend links between the known subset `A` and
the remainder `B` allowed): never an error; kernels and offset are those of the remainder; the
inputs are the remainder's inputs that spend nothing created inside `A ++ B`; the outputs are the
remainder's outputs that nothing inside `A ++ B` spends.  So a link between `A` and `B` does not make
`deaggregate` fail — it silently returns the remainder with both ends of every such link removed
(the input of `B` that spends an output of `A`, the output of `B` that `A` spends), a transaction
whose kernel-sum equation no longer holds. -/
theorem deaggregate_general {K : Keys} {A B : List Tx} {mk a : Tx} (kinj : KInj K)
    (hn : ∀ t ∈ A ++ B, Normal K t)
    (ndI : (allIns K (A ++ B)).Nodup) (ndO : ((allOuts (A ++ B)).map outCommit).Nodup)
    (ndK : (allKers (A ++ B)).Nodup)
    (hmk : aggregate K (A ++ B) = .ok mk) (hA : aggregate K A = .ok a) :
    deaggregate K mk A = .ok
      ⟨(toSecrets (allOffs B)).sum % N, false,
       sortBy K.ik ((allIns K B).filter fun x => !((allOuts (A ++ B)).map outCommit).contains x),
       sortBy K.ok ((allOuts B).filter fun o => !(allIns K (A ++ B)).contains (outCommit o)),
       sortBy K.kk (allKers B)⟩ := by
  have hnA : ∀ t ∈ A, Normal K t := fun t ht => hn t (mem_append_left _ ht)
  rw [aggregate_eq_full hn] at hmk
  have hA' := hA
  rw [aggregate_eq_full hnA] at hA'
  obtain ⟨m1, m2, mo, mv, mi, mout, mk'⟩ := aggregateFull_ok hmk
  obtain ⟨a1, a2, ao, av, ai, aout, ak⟩ := aggregateFull_ok hA'
  -- duplicate-freeness of everything in sight
  have ndIA : (allIns K A).Nodup := by rw [allIns_append] at ndI; exact (nodup_append.1 ndI).1
  have ndIB : (allIns K B).Nodup := by rw [allIns_append] at ndI; exact (nodup_append.1 ndI).2.1
  have ndOel : (allOuts (A ++ B)).Nodup := nodup_of_nodup_map _ ndO
  have ndOA' : ((allOuts A).map outCommit).Nodup := by
    rw [allOuts_append, map_append] at ndO; exact (nodup_append.1 ndO).1
  have ndOB : (allOuts B).Nodup := by rw [allOuts_append] at ndOel; exact (nodup_append.1 ndOel).2.1
  have ndMI : (merged id outCommit (allIns K (A ++ B)) (allOuts (A ++ B))).ins.Nodup :=
    (adjDup_sortBy (kinj.ik _)).1 m1
  have ndMO : (merged id outCommit (allIns K (A ++ B)) (allOuts (A ++ B))).outs.Nodup :=
    (adjDup_sortBy (kinj.ok _)).1 m2
  -- offsets
  have hm : mk.offset = ((toSecrets (allOffs A)).sum + (toSecrets (allOffs B)).sum) % N := by
    rw [(sumKernelOffsets_ok mo).2, allOffs_append, toSecrets_append, sum_append]
  have hoffset := deagg_offset mk.offset a.offset _ _ hm (sumKernelOffsets_ok ao).2
  -- the three loops
  unfold deaggregate
  rw [hA]
  simp only [Tx.inputsCO_of_not_v2 K mv, Tx.inputsCO_of_not_v2 K av]
  rw [mi, mout, mk', ai, aout, ak]
  rw [pushNew_nodup _ _ [] ((sortBy_perm _ _).nodup_iff.2 ndMI) (by simp),
      pushNew_nodup _ _ [] ((sortBy_perm _ _).nodup_iff.2 ndMO) (by simp),
      pushNew_nodup _ _ [] ((sortBy_perm _ _).nodup_iff.2 ndK) (by simp)]
  simp only [nil_append]
  -- kernels: the union minus the known part
  have fK : (sortBy K.kk (allKers (A ++ B))).filter (fun x => !(sortBy K.kk (allKers A)).contains x) ~ allKers B := by
    rw [allKers_append] at ndK ⊢
    exact filter_remove_left ndK (sortBy_perm K.kk _) (sortBy_perm K.kk _)
  -- inputs
  have fI : (sortBy K.ik (merged id outCommit (allIns K (A ++ B)) (allOuts (A ++ B))).ins).filter
        (fun x => !(sortBy K.ik (merged id outCommit (allIns K A) (allOuts A)).ins).contains x) ~
      (allIns K B).filter fun x => !((allOuts (A ++ B)).map outCommit).contains x := by
    apply perm_filter_of_mem_iff (((sortBy_perm _ _).nodup_iff.2 ndMI).filter _) (ndIB.filter _)
    intro x
    simp only [mem_filter, mem_sortBy, mem_merged_ins_iff ndI, mem_merged_ins_iff ndIA, Bool.not_eq_true',
      List.contains_eq_mem, decide_eq_false_iff_not, not_and, Decidable.not_not]
    rw [allIns_append, allOuts_append, map_append] at *
    simp only [mem_append, not_or]
    constructor
    · rintro ⟨⟨hi, ho⟩, hna⟩
      rcases hi with hi | hi
      · exact absurd (hna hi) ho.1
      · exact ⟨hi, ho⟩
    · rintro ⟨hi, ho⟩
      refine ⟨⟨Or.inr hi, ho⟩, fun hia => ?_⟩
      exact absurd rfl ((nodup_append.1 ndI).2.2 x hia x hi)
  -- outputs
  have fO : (sortBy K.ok (merged id outCommit (allIns K (A ++ B)) (allOuts (A ++ B))).outs).filter
        (fun x => !(sortBy K.ok (merged id outCommit (allIns K A) (allOuts A)).outs).contains x) ~
      (allOuts B).filter fun o => !(allIns K (A ++ B)).contains (outCommit o) := by
    apply perm_filter_of_mem_iff (((sortBy_perm _ _).nodup_iff.2 ndMO).filter _) (ndOB.filter _)
    intro o
    simp only [mem_filter, mem_sortBy, mem_merged_outs_iff ndO, mem_merged_outs_iff ndOA', Bool.not_eq_true',
      List.contains_eq_mem, decide_eq_false_iff_not, not_and, Decidable.not_not]
    rw [allIns_append, allOuts_append] at *
    simp only [mem_append, not_or]
    constructor
    · rintro ⟨⟨ho, hi⟩, hna⟩
      rcases ho with ho | ho
      · exact absurd (hna ho) hi.1
      · exact ⟨ho, hi⟩
    · rintro ⟨ho, hi⟩
      refine ⟨⟨Or.inr ho, hi⟩, fun hoa => ?_⟩
      exact absurd rfl ((nodup_append.1 ndOel).2.2 o hoa o ho)
  rw [sortBy_congr (kinj.ik _) fI, sortBy_congr (kinj.ok _) fO, sortBy_congr (kinj.kk _) fK, hoffset]

/-- … so `deaggregate` returns the remainder **iff there is no spend link into or out of the known
subset**, in this precise sense: the result's inputs / outputs are those of `aggregate B` with the
inputs that spend an output of `A` and the outputs that `A` spends removed. -/
theorem deaggregate_vs_remainder {K : Keys} {A B : List Tx} {mk a b : Tx} (kinj : KInj K)
    (hn : ∀ t ∈ A ++ B, Normal K t)
    (ndI : (allIns K (A ++ B)).Nodup) (ndO : ((allOuts (A ++ B)).map outCommit).Nodup)
    (ndK : (allKers (A ++ B)).Nodup)
    (hmk : aggregate K (A ++ B) = .ok mk) (hA : aggregate K A = .ok a) (hB : aggregate K B = .ok b) :
    ∃ r, deaggregate K mk A = .ok r ∧ r.offset = b.offset ∧ r.kernels = b.kernels ∧
      (∀ x, x ∈ r.inputs ↔ x ∈ b.inputs ∧ x ∉ (allOuts A).map outCommit) ∧
      (∀ o, o ∈ r.outputs ↔ o ∈ b.outputs ∧ outCommit o ∉ allIns K A) := by
  refine ⟨_, deaggregate_general kinj hn ndI ndO ndK hmk hA, ?_, ?_, ?_, ?_⟩
  all_goals
    have hnB : ∀ t ∈ B, Normal K t := fun t ht => hn t (mem_append_right _ ht)
    rw [aggregate_eq_full hnB] at hB
    obtain ⟨b1, b2, bo, bv, bi, bout, bk⟩ := aggregateFull_ok hB
  · exact (sumKernelOffsets_ok bo).2.symm
  · exact bk.symm
  · intro x
    have ndIB : (allIns K B).Nodup := by rw [allIns_append] at ndI; exact (nodup_append.1 ndI).2.1
    simp only [bi, mem_sortBy, mem_filter, mem_merged_ins_iff ndIB, allOuts_append, map_append, mem_append,
      Bool.not_eq_true', List.contains_eq_mem, decide_eq_false_iff_not, not_or]
    constructor
    · rintro ⟨h1, h2, h3⟩; exact ⟨⟨h1, h3⟩, h2⟩
    · rintro ⟨⟨h1, h3⟩, h2⟩; exact ⟨h1, h2, h3⟩
  · intro o
    have ndOB' : ((allOuts B).map outCommit).Nodup := by
      rw [allOuts_append, map_append] at ndO; exact (nodup_append.1 ndO).2.1
    simp only [bout, mem_sortBy, mem_filter, mem_merged_outs_iff ndOB', allIns_append, mem_append,
      Bool.not_eq_true', List.contains_eq_mem, decide_eq_false_iff_not, not_or]
    constructor
    · rintro ⟨h1, h2, h3⟩; exact ⟨⟨h1, h3⟩, h2⟩
    · rintro ⟨⟨h1, h3⟩, h2⟩; exact ⟨h1, h2, h3⟩

/-- the hypotheses are satisfiable and the link really is dropped: `t2` spends commitment 5, the
output of `t1`.  De-aggregating `t1` out of their aggregate gives `t2` WITHOUT its input, and
de-aggregating `t2` gives `t1` WITHOUT its output — neither is the remainder. -/
example : aggregate K0 [t1, t2] = .ok ⟨3, false, [1], [12], [0, 2]⟩ := by tx_eval
example : deaggregate K0 ⟨3, false, [1], [12], [0, 2]⟩ [t1] = .ok ⟨2, false, [], [12], [2]⟩ := by tx_eval
example : deaggregate K0 ⟨3, false, [1], [12], [0, 2]⟩ [t2] = .ok ⟨1, false, [1], [], [0]⟩ := by tx_eval

end GV.Props.C12
