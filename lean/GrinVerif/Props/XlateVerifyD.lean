import GrinVerif.Lemmas.XlateVerifyD
import GrinVerif.Lemmas.PowTotal

/-! # Translated Cuckaroom / Cuckarood verifiers (`Gen/FnsVerify.lean`) = hand model (`Model/Pow.lean`)

`GV.Gen.Fns.Cuckaroom_verify` / `Cuckarood_verify` are regenerated from the CURRENT
`core/src/pow/cuckaroom.rs` / `cuckarood.rs` with release-build semantics; `…_verify_ok` = "the Rust
function returns normally" (every index in range, every `loop`/`while` exits within its fuel).
Under `…_verify_ok = true` the translation and the model give the same verdict:
`cuckaroom_verify_eq` / `_eq_none` / `_rel`, `cuckarood_verify_eq` / `_eq_none` / `_rel` (all FULL, no
`_partial`).

Loop-level ties (`Lemmas/XlateVerifyD.lean`, universally quantified, by induction over the loop and
its `_ok` / `_exits` companion):
* Cuckaroom: `m1_eq` first `for` = `roomBuild`; `m3_eq` inner `loop` = `roomFind`; `m2_eq` outer
  `loop` = `roomWalk` (`visited : Vec<bool>` vs `Nat → Bool` through `RB`).
* Cuckarood: `d1_eq` first `for` = `roodBuild` (`ndir` = `[nd0, nd1]`; the wrapping key
  `((u << 1) | dir) & mask` = `(2*u + dir) & mask` for EVERY `u`, `key_eq`, because the mask has at
  most 64 bits); `d3_eq` inner `while` = `roodFind`; `d2_eq` outer `loop` = `roodWalk (roodStep …)`.

No behavioural disagreement between translation and model was found.  One fuel-boundary difference
(not a disagreement on `verify`): the translated `while k != 2*size` with fuel `f` allows `f`
iterations followed by a false condition, the model's `roodFind` with fuel `f` allows `f - 1`; so
`d3_eq` / `d2_eq` / `cuckarood_verify_rel_hang` carry a third alternative "model = `hang`", which the
already proved `verifyCuckarood_no_hang` (`Lemmas/PowTotal.lean`) excludes at the top level (see the
last `example`).
-/

namespace GV.Props.XlateVerifyD
open GV GV.Gen GV.Gen.Fns GV.Pow GV.Lemmas.XlateVerify GV.Lemmas.XlateVerifyD

theorem proofsize_le (ct : ChainTypes) : proofsize ct ≤ 42 := by
  cases ct <;> decide

/-! ## Cuckaroom -/

/-- Cuckaroom: the translated `verify` and the model agree on accept / reject, for every chain type,
every parameter set, every proof on which the Rust function returns normally. -/
theorem cuckaroom_verify_rel (ct : ChainTypes) (params : CuckooParams) (proof : Proof)
    (P : Pow.Params) (ep : Nat → Nat × Nat)
    (hP1 : P.proofsize = proofsize ct) (hP2 : P.edgeMask = params.edge_mask)
    (hbk : ∀ u, P.bk u = u &&& shrW (2^64-1) (leadingZeros64 proof.nonces.length))
    (hep : ∀ x, ep x = (let e := siphash_block params.siphash_keys x 21 true
                        (e &&& params.node_mask, (shrW e 32) &&& params.node_mask)))
    (hok : Cuckaroom_verify_ok ct params proof = true) :
    (Cuckaroom_verify ct params proof = some () ∧ verifyCuckaroom P ep proof.nonces = .ok ()) ∨
    (Cuckaroom_verify ct params proof = none ∧ ∃ e, verifyCuckaroom P ep proof.nonces = .error e) := by
  unfold Cuckaroom_verify_ok at hok
  unfold Cuckaroom_verify verifyCuckaroom
  dsimp only [Proof_proof_size] at hok ⊢
  by_cases hs : proof.nonces.length = proofsize ct
  · have h42 : proof.nonces.length ≤ 42 := by rw [hs]; exact proofsize_le ct
    rw [if_neg (by simpa using hs), Bool.and_eq_true] at hok
    rw [if_neg (by simpa using hs), if_neg (by rw [hP1]; simpa using hs)]
    rw [Nat.sub_zero] at hok ⊢
    obtain ⟨hok1, hok2⟩ := hok
    have hinit : RelM (List.replicate proof.nonces.length 0, List.replicate proof.nonces.length 0, 0, 0,
        List.replicate (addW 1 (shrW 18446744073709551615 (leadingZeros64 proof.nonces.length)))
          proof.nonces.length,
        List.replicate proof.nonces.length 0) (RoomSt.init proof.nonces.length) :=
      ⟨R_replicate _ _, R_replicate _ _, rfl, rfl, R_replicate _ _, R_replicate _ _⟩
    have h1 := m1_eq params proof.nonces _ P ep (by omega) hP2 hbk hep proof.nonces.length 0
      _ _ _ _ _ _ _ (by omega) hinit hok1
    rw [List.drop_zero, show lastOf proof.nonces 0 = none from rfl] at h1
    rcases h1 with ⟨e1, e, e2⟩ | ⟨st, s', e1, e2, r1, r2, r3, r4, r5, r6⟩
    · right
      rw [e1, e2]
      exact ⟨rfl, _, rfl⟩
    · rw [e1] at hok2 ⊢
      rw [e2]
      dsimp only at hok2 ⊢
      rw [← r3, ← r4]
      by_cases hx : st.2.2.1 = st.2.2.2.1
      · rw [if_neg (by simpa using hx)] at hok2
        rw [if_neg (by simpa using hx), if_neg (by simpa using hx)]
        have h2 := m2_eq proof.nonces.length st.1 st.2.1 _ st.2.2.2.2.1 st.2.2.2.2.2 P s' hbk
          r1 r2 r5 r6 (proof.nonces.length + 1) _ _ 0 0 (by omega) (RB_replicate _) hok2
        rcases h2 with ⟨f1, e, f2⟩ | ⟨vis', n', i', f1, f2⟩
        · right
          rw [f1, f2]
          exact ⟨rfl, _, rfl⟩
        · rw [f1, f2]
          dsimp only
          by_cases hn : n' = proof.nonces.length
          · left
            rw [if_pos (by simpa using hn), if_pos hn]
            exact ⟨rfl, rfl⟩
          · right
            rw [if_neg (by simpa using hn), if_neg hn]
            exact ⟨rfl, _, rfl⟩
      · right
        rw [if_pos (by simpa using hx), if_pos (by simpa using hx)]
        exact ⟨rfl, _, rfl⟩
  · right
    rw [if_pos (by simpa using hs), if_pos (by rw [hP1]; simpa using hs)]
    exact ⟨rfl, _, rfl⟩

/-- accept form: the translated Cuckaroom verifier returns `Ok(())` iff the model does -/
theorem cuckaroom_verify_eq (ct : ChainTypes) (params : CuckooParams) (proof : Proof)
    (P : Pow.Params) (ep : Nat → Nat × Nat)
    (hP1 : P.proofsize = proofsize ct) (hP2 : P.edgeMask = params.edge_mask)
    (hbk : ∀ u, P.bk u = u &&& shrW (2^64-1) (leadingZeros64 proof.nonces.length))
    (hep : ∀ x, ep x = (let e := siphash_block params.siphash_keys x 21 true
                        (e &&& params.node_mask, (shrW e 32) &&& params.node_mask)))
    (hok : Cuckaroom_verify_ok ct params proof = true) :
    (Cuckaroom_verify ct params proof = some ()) ↔ (verifyCuckaroom P ep proof.nonces = .ok ()) := by
  rcases cuckaroom_verify_rel ct params proof P ep hP1 hP2 hbk hep hok with ⟨a, b⟩ | ⟨a, e, b⟩
  · exact ⟨fun _ => b, fun _ => a⟩
  · rw [a, b]; exact ⟨fun h => (by cases h), fun h => (by cases h)⟩

/-- reject form: `Err(_)` iff the model returns an error -/
theorem cuckaroom_verify_eq_none (ct : ChainTypes) (params : CuckooParams) (proof : Proof)
    (P : Pow.Params) (ep : Nat → Nat × Nat)
    (hP1 : P.proofsize = proofsize ct) (hP2 : P.edgeMask = params.edge_mask)
    (hbk : ∀ u, P.bk u = u &&& shrW (2^64-1) (leadingZeros64 proof.nonces.length))
    (hep : ∀ x, ep x = (let e := siphash_block params.siphash_keys x 21 true
                        (e &&& params.node_mask, (shrW e 32) &&& params.node_mask)))
    (hok : Cuckaroom_verify_ok ct params proof = true) :
    (Cuckaroom_verify ct params proof = none) ↔ (∃ e, verifyCuckaroom P ep proof.nonces = .error e) := by
  rcases cuckaroom_verify_rel ct params proof P ep hP1 hP2 hbk hep hok with ⟨a, b⟩ | ⟨a, e, b⟩
  · rw [a, b]; exact ⟨fun h => (by cases h), fun ⟨_, h⟩ => (by cases h)⟩
  · exact ⟨fun _ => ⟨e, b⟩, fun _ => a⟩

/-- Non-vacuity: the hypotheses are satisfiable (wrong-length proof on Mainnet: `_ok = true`,
result `none`). -/
example : Cuckaroom_verify_ok ChainTypes.Mainnet ⟨42, 0, [0, 0, 0, 0], 0, 0⟩ ⟨29, []⟩ = true ∧
    Cuckaroom_verify ChainTypes.Mainnet ⟨42, 0, [0, 0, 0, 0], 0, 0⟩ ⟨29, []⟩ = none := by
  constructor <;> rfl

/-! ## Cuckarood -/

/-- Cuckarood, raw three-way form (the third alternative is excluded in `cuckarood_verify_rel`). -/
theorem cuckarood_verify_rel_hang (ct : ChainTypes) (params : CuckooParams) (proof : Proof)
    (P : Pow.Params) (ep : Nat → Nat × Nat)
    (hP1 : P.proofsize = proofsize ct) (hP2 : P.edgeMask = params.edge_mask)
    (hbk : ∀ u, P.bk u = u &&& shrW (2^64-1) (leadingZeros64 proof.nonces.length))
    (hep : ∀ x, ep x = (let e := siphash_block params.siphash_keys x 25 false
                        (e &&& params.node_mask, (shrW e 32) &&& params.node_mask)))
    (hok : Cuckarood_verify_ok ct params proof = true) :
    (Cuckarood_verify ct params proof = some () ∧ verifyCuckarood P ep proof.nonces = .ok ()) ∨
    (Cuckarood_verify ct params proof = none ∧ ∃ e, verifyCuckarood P ep proof.nonces = .error e) ∨
    verifyCuckarood P ep proof.nonces = .error .hang := by
  unfold Cuckarood_verify_ok at hok
  unfold Cuckarood_verify verifyCuckarood
  dsimp only [Proof_proof_size] at hok ⊢
  by_cases hs : proof.nonces.length = proofsize ct
  · have h42 : proof.nonces.length ≤ 42 := by rw [hs]; exact proofsize_le ct
    rw [if_neg (by simpa using hs), Bool.and_eq_true] at hok
    rw [if_neg (by simpa using hs), if_neg (by rw [hP1]; simpa using hs)]
    rw [Nat.sub_zero, mulW_two _ (by omega)] at hok ⊢
    obtain ⟨hok1, hok2⟩ := hok
    have hinit : RelD (List.replicate (2 * proof.nonces.length) 0, List.replicate 2 0, 0, 0,
        List.replicate (addW 1 (shrW 18446744073709551615 (leadingZeros64 proof.nonces.length)))
          (2 * proof.nonces.length),
        List.replicate (addW 1 (shrW 18446744073709551615 (leadingZeros64 proof.nonces.length)))
          (2 * proof.nonces.length),
        List.replicate (2 * proof.nonces.length) 0) (RoodSt.init proof.nonces.length) :=
      ⟨R_replicate _ _, rfl, rfl, rfl, R_replicate _ _, R_replicate _ _, R_replicate _ _⟩
    have h1 := d1_eq params proof.nonces.length proof.nonces _ P ep (by omega) (by omega)
      (mask_lt _) hP2 hbk hep proof.nonces.length 0 _ _ _ _ _ _ _ _ (by omega) hinit hok1
    rw [List.drop_zero, show lastOf proof.nonces 0 = none from rfl] at h1
    rcases h1 with ⟨e1, e, e2⟩ | ⟨st, s', e1, e2, r1, r2, r3, r4, r5, r6, r7⟩
    · right; left
      rw [e1, e2]
      exact ⟨rfl, _, rfl⟩
    · rw [e1] at hok2 ⊢
      rw [e2]
      dsimp only at hok2 ⊢
      rw [← r3, ← r4]
      by_cases hx : st.2.2.1 ||| st.2.2.2.1 = 0
      · rw [if_neg (by simpa using hx)] at hok2
        rw [if_neg (by simpa using hx), if_neg (by simpa using hx)]
        have h2 := d2_eq proof.nonces.length st.1 _ st.2.2.2.2.1 st.2.2.2.2.2.1 st.2.2.2.2.2.2 P s'
          (by omega) (mask_lt _) hbk r1 r5 r6 r7 (proof.nonces.length + 1) 0 0 0 (by omega) hok2
        rcases h2 with ⟨f1, e, f2⟩ | ⟨n', i', j', f1, f2⟩ | f2
        · right; left
          rw [f1, f2]
          exact ⟨rfl, _, rfl⟩
        · rw [f1, f2]
          dsimp only
          by_cases hn : n' = proof.nonces.length
          · left
            rw [if_pos (by simpa using hn), if_pos hn]
            exact ⟨rfl, rfl⟩
          · right; left
            rw [if_neg (by simpa using hn), if_neg hn]
            exact ⟨rfl, _, rfl⟩
        · right; right
          rw [f2]
      · right; left
        rw [if_pos (by simpa using hx), if_pos (by simpa using hx)]
        exact ⟨rfl, _, rfl⟩
  · right; left
    rw [if_pos (by simpa using hs), if_pos (by rw [hP1]; simpa using hs)]
    exact ⟨rfl, _, rfl⟩

/-- Cuckarood: the translated `verify` and the model agree on accept / reject, for every chain type,
every parameter set, every proof on which the Rust function returns normally.  (`hang` of the model
is excluded by `verifyCuckarood_no_hang`, `Lemmas/PowTotal.lean`.) -/
theorem cuckarood_verify_rel (ct : ChainTypes) (params : CuckooParams) (proof : Proof)
    (P : Pow.Params) (ep : Nat → Nat × Nat)
    (hP1 : P.proofsize = proofsize ct) (hP2 : P.edgeMask = params.edge_mask)
    (hbk : ∀ u, P.bk u = u &&& shrW (2^64-1) (leadingZeros64 proof.nonces.length))
    (hep : ∀ x, ep x = (let e := siphash_block params.siphash_keys x 25 false
                        (e &&& params.node_mask, (shrW e 32) &&& params.node_mask)))
    (hok : Cuckarood_verify_ok ct params proof = true) :
    (Cuckarood_verify ct params proof = some () ∧ verifyCuckarood P ep proof.nonces = .ok ()) ∨
    (Cuckarood_verify ct params proof = none ∧ ∃ e, verifyCuckarood P ep proof.nonces = .error e) := by
  rcases cuckarood_verify_rel_hang ct params proof P ep hP1 hP2 hbk hep hok with h | h | h
  · exact Or.inl h
  · exact Or.inr h
  · exact absurd h (verifyCuckarood_no_hang P ep proof.nonces)

/-- accept form: the translated Cuckarood verifier returns `Ok(())` iff the model does -/
theorem cuckarood_verify_eq (ct : ChainTypes) (params : CuckooParams) (proof : Proof)
    (P : Pow.Params) (ep : Nat → Nat × Nat)
    (hP1 : P.proofsize = proofsize ct) (hP2 : P.edgeMask = params.edge_mask)
    (hbk : ∀ u, P.bk u = u &&& shrW (2^64-1) (leadingZeros64 proof.nonces.length))
    (hep : ∀ x, ep x = (let e := siphash_block params.siphash_keys x 25 false
                        (e &&& params.node_mask, (shrW e 32) &&& params.node_mask)))
    (hok : Cuckarood_verify_ok ct params proof = true) :
    (Cuckarood_verify ct params proof = some ()) ↔ (verifyCuckarood P ep proof.nonces = .ok ()) := by
  rcases cuckarood_verify_rel ct params proof P ep hP1 hP2 hbk hep hok with ⟨a, b⟩ | ⟨a, e, b⟩
  · exact ⟨fun _ => b, fun _ => a⟩
  · rw [a, b]; exact ⟨fun h => (by cases h), fun h => (by cases h)⟩

/-- reject form: `Err(_)` iff the model returns an error -/
theorem cuckarood_verify_eq_none (ct : ChainTypes) (params : CuckooParams) (proof : Proof)
    (P : Pow.Params) (ep : Nat → Nat × Nat)
    (hP1 : P.proofsize = proofsize ct) (hP2 : P.edgeMask = params.edge_mask)
    (hbk : ∀ u, P.bk u = u &&& shrW (2^64-1) (leadingZeros64 proof.nonces.length))
    (hep : ∀ x, ep x = (let e := siphash_block params.siphash_keys x 25 false
                        (e &&& params.node_mask, (shrW e 32) &&& params.node_mask)))
    (hok : Cuckarood_verify_ok ct params proof = true) :
    (Cuckarood_verify ct params proof = none) ↔ (∃ e, verifyCuckarood P ep proof.nonces = .error e) := by
  rcases cuckarood_verify_rel ct params proof P ep hP1 hP2 hbk hep hok with ⟨a, b⟩ | ⟨a, e, b⟩
  · rw [a, b]; exact ⟨fun h => (by cases h), fun ⟨_, h⟩ => (by cases h)⟩
  · exact ⟨fun _ => ⟨e, b⟩, fun _ => a⟩

/-- Non-vacuity (wrong-length proof on Mainnet: `_ok = true`, result `none`). -/
example : Cuckarood_verify_ok ChainTypes.Mainnet ⟨42, 0, [0, 0, 0, 0], 0, 0⟩ ⟨29, []⟩ = true ∧
    Cuckarood_verify ChainTypes.Mainnet ⟨42, 0, [0, 0, 0, 0], 0, 0⟩ ⟨29, []⟩ = none := by
  constructor <;> rfl

/-! ## further non-vacuity: right-length proofs (the loops are entered), loop-level instances -/

theorem lz8 : leadingZeros64 8 = 60 := by
  simp [leadingZeros64, bitLen]

/-- AutomatedTesting (proof size 8), ascending nonces `0..7`: the whole first loop runs (8 siphash
blocks), `_ok = true`, the verdict is `Err` — the hypotheses of `cuckaroom_verify_eq` hold with a
proof of the right length. -/
example : Cuckaroom_verify_ok ChainTypes.AutomatedTesting ⟨8, 0, [1, 2, 3, 4], 1023, 1023⟩
      ⟨10, [0, 1, 2, 3, 4, 5, 6, 7]⟩ = true ∧
    Cuckaroom_verify ChainTypes.AutomatedTesting ⟨8, 0, [1, 2, 3, 4], 1023, 1023⟩
      ⟨10, [0, 1, 2, 3, 4, 5, 6, 7]⟩ = none := by
  constructor
  · unfold Cuckaroom_verify_ok
    dsimp only [Proof_proof_size, List.length]
    rw [lz8]
    set_option maxRecDepth 100000 in decide
  · unfold Cuckaroom_verify
    dsimp only [Proof_proof_size, List.length]
    rw [lz8]
    set_option maxRecDepth 100000 in decide

/-- the same for Cuckarood (4 even + 4 odd nonces: the balance test passes on every iteration) -/
example : Cuckarood_verify_ok ChainTypes.AutomatedTesting ⟨8, 0, [1, 2, 3, 4], 1023, 511⟩
      ⟨10, [0, 1, 2, 3, 4, 5, 6, 7]⟩ = true ∧
    Cuckarood_verify ChainTypes.AutomatedTesting ⟨8, 0, [1, 2, 3, 4], 1023, 511⟩
      ⟨10, [0, 1, 2, 3, 4, 5, 6, 7]⟩ = none := by
  constructor
  · unfold Cuckarood_verify_ok
    dsimp only [Proof_proof_size, List.length]
    rw [lz8]
    set_option maxRecDepth 100000 in decide
  · unfold Cuckarood_verify
    dsimp only [Proof_proof_size, List.length]
    rw [lz8]
    set_option maxRecDepth 100000 in decide

/-- loop level, Cuckaroom: a closed 2-cycle (`7 → 9`, `9 → 7`, one bucket) is walked to the end:
`_exits = true` and the loop ends with `n = 2`, `i = 0` (hypotheses of `m2_eq`). -/
example : Cuckaroom_verify_loop2_exits 2 [7, 9] [9, 7] 1 [2, 1] [2, 0] 3 [false, false] 0 0 = true ∧
    Cuckaroom_verify_loop2 2 [7, 9] [9, 7] 1 [2, 1] [2, 0] 3 [false, false] 0 0
      = .go ([true, true], 2, 0) := ⟨rfl, rfl⟩

/-- loop level, Cuckarood: the fuel boundary behind the third alternative of `d3_eq` / `d2_eq`.
With the SAME fuel `1` the translated `while` performs one iteration and then finds its condition
false (`_exits = true`, result `.go`), the model's `roodFind` reports `hang`: the model's fuel counts
condition tests, the translation's counts iterations.  Not reachable from `verify` (a bucket chain has
at most `2*size` slots, fuel is `2*size+1`): `verifyCuckarood_no_hang`. -/
example : Cuckarood_verify_loop3_exits 1 [5, 6] [2, 2] 0 1 0 1 = true ∧
    Cuckarood_verify_loop3 1 [5, 6] [2, 2] 0 1 0 1 = .go (0, 2) ∧
    roodFind 1 { RoodSt.init 1 with uvs := fun x => 5 + x, prev := fun _ => 2 } 0 1 1 0
      = .error .hang := ⟨rfl, rfl, rfl⟩

end GV.Props.XlateVerifyD
