import GrinVerif.Model.CodecSend
import GrinVerif.Lemmas.CodecTimed
import GrinVerif.Gen.CodecDispatch
/-! # C19 — concurrent senders through one `ConnHandle`; the handshake within its read timeout

Model: `Model/CodecSend.lean`.

**Concurrent senders.**  Any number of threads call `ConnHandle::send` (atomic `try_send`) while the
`peer_write` thread takes and writes one whole message at a time.  For EVERY schedule of these events:

* `per_sender_order_kept` — what the writer has written, restricted to one sender, is a subsequence of
  what that sender offered, in its order (also when the channel was full and messages were dropped);
* `nothing_lost_below_capacity` — when no `send` found the channel full and everything has been taken,
  the written stream restricted to each sender is exactly that sender's list: the stream is an
  interleaving of the senders' lists;
* `no_drop_when_sends_fit` — no `send` finds the channel full when at most `SEND_CHANNEL_CAP` messages
  are offered in total (the regime of the `csend` run);
* the frames themselves are written whole and read back as typed messages by `C19Conn.writer_thread_in_order`
  and `C19Conn.written_sequence_read_back`, which hold for any message list, in particular for `written`.

**Handshake reads.**  `handshake_read_within_timeout` — if no byte of the Hand / Shake lets the reader
wait as long as the read timeout, the timed `read_message` is the untimed one on the same bytes (so all
handshake theorems of `Props/C19`, `Props/C19Conn` apply); `handshake_read_times_out` — a wait that
reaches the timeout while the frame header is being read (in particular a peer that stays silent) ends the
handshake with a connection error, `handshake_body_times_out` the same inside the announced body. -/
namespace GV.Props.C19Send
open GV GV.Ser GV.Dec GV.Msg GV.Codec GV.Gen.Msg GV.Gen.CodecConn

variable {α : Type}

theorem fromSender_append (i : Nat) (a b : List (Nat × α)) :
    fromSender i (a ++ b) = fromSender i a ++ fromSender i b := by
  simp [fromSender]

theorem fromSender_single_same (i : Nat) (m : α) : fromSender i [(i, m)] = [m] := by
  simp [fromSender]

theorem fromSender_single_other (i j : Nat) (m : α) (h : j ≠ i) : fromSender i [(j, m)] = [] := by
  simp [fromSender, h]

/-- the invariant of a concurrent execution -/
def CInv (lists : Nat → List α) (s : CSt α) : Prop :=
  ∀ i, ∃ done, lists i = done ++ s.pending i ∧
    (fromSender i (s.written ++ s.queue)).Sublist done ∧
    (s.dropped = 0 → fromSender i (s.written ++ s.queue) = done)

theorem cinv_init (lists : Nat → List α) : CInv lists (CSt.init lists) := by
  intro i
  exact ⟨[], by simp [CSt.init], by simp [CSt.init, fromSender], by simp [CSt.init, fromSender]⟩

theorem cinv_step (cap : Nat) (lists : Nat → List α) (s : CSt α) (h : CInv lists s) (e : CEv) :
    CInv lists (cstep cap s e) := by
  cases e with
  | take =>
    unfold cstep
    cases hq : s.queue with
    | nil => simpa [hq] using h
    | cons x q =>
      intro i
      obtain ⟨done, h1, h2, h3⟩ := h i
      have e1 : (s.written ++ [x]) ++ q = s.written ++ s.queue := by rw [hq]; simp
      exact ⟨done, h1, by simpa [e1] using h2, by simpa [e1] using h3⟩
  | send i0 =>
    unfold cstep
    cases hp : s.pending i0 with
    | nil => simpa [hp] using h
    | cons m rest =>
      simp only [hp]
      by_cases hfull : s.queue.length ≥ cap
      · rw [if_pos hfull]
        intro i
        obtain ⟨done, h1, h2, _⟩ := h i
        by_cases hi : i = i0
        · subst hi
          refine ⟨done ++ [m], ?_, ?_, ?_⟩
          · simp only [if_true]; rw [h1, hp]; simp
          · exact h2.trans (List.sublist_append_left _ _)
          · intro h0; simp at h0
        · refine ⟨done, ?_, h2, ?_⟩
          · simp only [hi, if_false]; exact h1
          · intro h0; simp at h0
      · rw [if_neg hfull]
        intro i
        obtain ⟨done, h1, h2, h3⟩ := h i
        by_cases hi : i = i0
        · subst hi
          refine ⟨done ++ [m], ?_, ?_, ?_⟩
          · simp only [if_true]; rw [h1, hp]; simp
          · rw [← List.append_assoc, fromSender_append, fromSender_single_same]
            exact List.Sublist.append h2 (List.Sublist.refl _)
          · intro h0
            rw [← List.append_assoc, fromSender_append, fromSender_single_same, h3 h0]
        · refine ⟨done, ?_, ?_, ?_⟩
          · simp only [hi, if_false]; exact h1
          · rw [← List.append_assoc, fromSender_append, fromSender_single_other i i0 m (Ne.symm hi), List.append_nil]
            exact h2
          · intro h0
            rw [← List.append_assoc, fromSender_append, fromSender_single_other i i0 m (Ne.symm hi), List.append_nil]
            exact h3 h0

theorem cinv_run (cap : Nat) (lists : Nat → List α) : ∀ (evs : List CEv) (s : CSt α), CInv lists s →
    CInv lists (crun cap s evs)
  | [], _, h => h
  | e :: evs, s, h => by
    simpa [crun] using cinv_run cap lists evs (cstep cap s e) (cinv_step cap lists s h e)

/-- **per-sender order is kept under every schedule** (and every channel capacity): what has been
written for sender `i` is a subsequence of what `i` offered, in order -/
theorem per_sender_order_kept (cap : Nat) (lists : Nat → List α) (evs : List CEv) (i : Nat) :
    (fromSender i (crun cap (CSt.init lists) evs).written).Sublist (lists i) := by
  obtain ⟨done, h1, h2, _⟩ := cinv_run cap lists evs _ (cinv_init lists) i
  rw [fromSender_append] at h2
  have h3 : (fromSender i (crun cap (CSt.init lists) evs).written).Sublist done :=
    (List.sublist_append_left _ _).trans h2
  rw [h1]
  exact h3.trans (List.sublist_append_left _ _)

/-- **nothing is lost, nothing is reordered below the capacity**: when no `send` met a full channel and
everything offered has been taken by the writer, the written stream restricted to each sender is that
sender's list — the stream is an interleaving of the senders' lists -/
theorem nothing_lost_below_capacity (cap : Nat) (lists : Nat → List α) (evs : List CEv)
    (hd : (crun cap (CSt.init lists) evs).dropped = 0) (hq : (crun cap (CSt.init lists) evs).queue = [])
    (i : Nat) (hp : (crun cap (CSt.init lists) evs).pending i = []) :
    fromSender i (crun cap (CSt.init lists) evs).written = lists i := by
  obtain ⟨done, h1, _, h3⟩ := cinv_run cap lists evs _ (cinv_init lists) i
  have := h3 hd
  rw [hq, List.append_nil] at this
  rw [h1, hp, List.append_nil, this]

/-- number of `send` events of a schedule -/
def nSends : List CEv → Nat
  | [] => 0
  | .send _ :: r => nSends r + 1
  | .take :: r => nSends r

theorem no_drop_aux (cap : Nat) : ∀ (evs : List CEv) (s : CSt α), s.dropped = 0 →
    s.queue.length + nSends evs ≤ cap → (crun cap s evs).dropped = 0
  | [], _, h, _ => h
  | .take :: evs, s, h, hb => by
    simp only [crun, List.foldl_cons]
    apply no_drop_aux cap evs
    · unfold cstep; cases hq : s.queue <;> simp [h]
    · unfold cstep
      cases hq : s.queue with
      | nil => simpa [hq, nSends] using hb
      | cons x q => simp [nSends, hq] at hb ⊢; omega
  | .send i :: evs, s, h, hb => by
    simp only [crun, List.foldl_cons]
    simp only [nSends] at hb
    apply no_drop_aux cap evs
    · unfold cstep
      cases hp : s.pending i with
      | nil => simpa [hp] using h
      | cons m rest =>
        have : ¬ s.queue.length ≥ cap := by omega
        simp [hp, this, h]
    · unfold cstep
      cases hp : s.pending i with
      | nil => simp [hp]; omega
      | cons m rest =>
        have : ¬ s.queue.length ≥ cap := by omega
        simp [hp, this]; omega

/-- **no message is dropped when the sends fit the channel**: a schedule with at most `cap` `send` events
never meets a full channel, whatever the senders and however slow the writer -/
theorem no_drop_when_sends_fit (cap : Nat) (lists : Nat → List α) (evs : List CEv) (h : nSends evs ≤ cap) :
    (crun cap (CSt.init lists) evs).dropped = 0 :=
  no_drop_aux cap evs _ rfl (by simpa [CSt.init] using h)

/-- non-vacuity: two senders racing, the writer in between; the stream is an interleaving -/
example :
    let lists : Nat → List Nat := fun i => if i = 0 then [10, 11, 12] else if i = 1 then [20, 21] else []
    let s := crun SEND_CHANNEL_CAP (CSt.init lists) [.send 1, .send 0, .take, .send 0, .send 1, .take, .take, .send 0, .take, .take]
    s.written = [(1, 20), (0, 10), (0, 11), (1, 21), (0, 12)] ∧ s.dropped = 0 ∧ s.queue = [] ∧
    fromSender 0 s.written = [10, 11, 12] ∧ fromSender 1 s.written = [20, 21] := by decide

/-- … and with a channel of capacity 1 the second message is dropped, order still kept -/
example :
    let lists : Nat → List Nat := fun i => if i = 0 then [10, 11, 12] else []
    let s := crun 1 (CSt.init lists) [.send 0, .send 0, .take, .send 0, .take]
    s.written = [(0, 10), (0, 12)] ∧ s.dropped = 1 := by decide

/-! ## the writer stalled (parked, or blocked in a write): only `send` events -/

/-- a schedule without `take` events -/
def noTake : List CEv → Bool
  | [] => true
  | .take :: _ => false
  | .send _ :: r => noTake r

theorem crun_cons (cap : Nat) (s : CSt α) (e : CEv) (evs : List CEv) :
    crun cap s (e :: evs) = crun cap (cstep cap s e) evs := rfl

theorem full_stays_full (cap : Nat) : ∀ (evs : List CEv) (s : CSt α), noTake evs = true → s.queue.length ≥ cap →
    (crun cap s evs).queue = s.queue ∧ (crun cap s evs).written = s.written
  | [], _, _, _ => ⟨rfl, rfl⟩
  | .take :: _, _, h, _ => by simp [noTake] at h
  | .send i :: evs, s, h, hf => by
    simp only [noTake] at h
    rw [crun_cons]
    have hs : (cstep cap s (.send i)).queue = s.queue ∧ (cstep cap s (.send i)).written = s.written := by
      unfold cstep
      cases hp : s.pending i with
      | nil => simp [hp]
      | cons m rest => simp [hp, hf]
    have := full_stays_full cap evs (cstep cap s (.send i)) h (by rw [hs.1]; exact hf)
    exact ⟨this.1.trans hs.1, this.2.trans hs.2⟩

/-- **while the writer is stalled every sender gets a PREFIX of its messages into the channel**: a message is
never accepted after an earlier message of the same sender was dropped (once full the channel stays full),
nothing is written, and what is in the channel is whole messages in per-sender order -/
theorem stalled_writer_accepts_prefixes (cap : Nat) : ∀ (evs : List CEv) (s : CSt α), noTake evs = true → ∀ i,
    ∃ pre, fromSender i (crun cap s evs).queue = fromSender i s.queue ++ pre ∧ pre <+: s.pending i ∧
      (crun cap s evs).written = s.written
  | [], s, _, i => ⟨[], by simp [crun], List.nil_prefix, rfl⟩
  | .take :: _, _, h, _ => by simp [noTake] at h
  | .send j :: evs, s, h, i => by
    simp only [noTake] at h
    rw [crun_cons]
    cases hp : s.pending j with
    | nil =>
      have e : cstep cap s (.send j) = s := by simp [cstep, hp]
      rw [e]
      exact stalled_writer_accepts_prefixes cap evs s h i
    | cons m rest =>
      by_cases hf : s.queue.length ≥ cap
      · -- dropped; the channel stays as it is
        have e : cstep cap s (.send j) = { s with pending := fun k => if k = j then rest else s.pending k, dropped := s.dropped + 1 } := by
          simp [cstep, hp, hf]
        rw [e]
        have := full_stays_full cap evs { s with pending := fun k => if k = j then rest else s.pending k, dropped := s.dropped + 1 } h hf
        exact ⟨[], by rw [this.1]; simp, List.nil_prefix, by rw [this.2]⟩
      · have e : cstep cap s (.send j) = { s with pending := fun k => if k = j then rest else s.pending k, queue := s.queue ++ [(j, m)] } := by
          simp [cstep, hp, hf]
        rw [e]
        obtain ⟨pre, h1, h2, h3⟩ := stalled_writer_accepts_prefixes cap evs
          { s with pending := fun k => if k = j then rest else s.pending k, queue := s.queue ++ [(j, m)] } h i
        by_cases hi : i = j
        · subst hi
          refine ⟨m :: pre, ?_, ?_, h3⟩
          · rw [h1, fromSender_append, fromSender_single_same]; simp
          · simp only [if_true] at h2
            rw [hp]
            obtain ⟨t, ht⟩ := h2
            exact ⟨t, by simp [← ht]⟩
        · refine ⟨pre, ?_, ?_, h3⟩
          · rw [h1, fromSender_append, fromSender_single_other i j m (Ne.symm hi)]; simp
          · simpa [hi] using h2

/-- non-vacuity: capacity 2, the writer stalled: sender 0 gets two in, everything later is dropped -/
example :
    let lists : Nat → List Nat := fun i => if i = 0 then [10, 11, 12] else if i = 1 then [20, 21] else []
    let s := crun 2 (CSt.init lists) [.send 0, .send 0, .send 1, .send 0, .send 1]
    s.queue = [(0, 10), (0, 11)] ∧ s.dropped = 3 ∧ s.written = [] := by decide

/-! ## the handshake reads under `HAND_READ_TIMEOUT` / `SHAKE_READ_TIMEOUT` -/

theorem waitsBelow_take {lim : Nat} {ts : TStream} (h : WaitsBelow lim ts) (n : Nat) : WaitsBelow lim (ts.take n) :=
  fun p hp => h p (List.mem_of_mem_take hp)

/-- **within the read timeout the handshake reads exactly what the untimed `read_message` reads** -/
theorem handshake_read_within_timeout {β : Type} (T : Nat) (net : NetCfg) (expected : Nat) (dec : Dec β)
    (ts : TStream) (hw : WaitsBelow T ts) :
    readMessageT T net expected dec ts = .done (readMessage net expected dec (tbytes ts)) := by
  unfold readMessageT readMessage
  rw [rxT_ok T _ ts (waitsBelow_take hw _), splitExact_eq, tbytes_length]
  by_cases h11 : MSG_HEADER_LEN ≤ ts.length
  · simp only [h11, if_true, tbytes_take]
    cases hh : decHeader net ((tbytes ts).take MSG_HEADER_LEN) with
    | err e a => rfl
    | panic s a => rfl
    | ok w r a =>
      cases w with
      | known t len =>
        simp only
        by_cases ht : t = expected
        · simp only [ht, if_true]
          rw [rxT_ok T _ _ (waitsBelow_take (waitsBelow_drop hw _) _), splitExact_eq]
          simp only [List.length_drop, tbytes_length, tbytes_take, tbytes_drop]
          by_cases hl : len ≤ ts.length - MSG_HEADER_LEN
          · simp only [hl, if_true]
            cases dec (List.take len (List.drop MSG_HEADER_LEN (tbytes ts))) <;> rfl
          · simp only [hl, if_false]
        · simp only [ht, if_false]
      | unknown len t =>
        simp only
        rw [rxT_ok T _ _ (waitsBelow_take (waitsBelow_drop hw _) _), splitExact_eq]
        simp only [List.length_drop, tbytes_length]
        by_cases hl : len ≤ ts.length - MSG_HEADER_LEN
        · simp only [hl, if_true]
        · simp only [hl, if_false]
  · simp only [h11, if_false]

/-- a wait that reaches the timeout among the next `n` bytes makes `read_exact(n)` fail -/
theorem rxT_timeout_of_mem (T : Nat) : ∀ (n : Nat) (ts : TStream), (∃ p ∈ ts.take n, T ≤ p.1) →
    ∃ s, rxT T n ts = .timeout s
  | 0, ts, h => by simp at h
  | n+1, [], h => by simp at h
  | n+1, (w, b) :: s, h => by
    by_cases hw : T ≤ w
    · exact ⟨(w - T, b) :: s, by simp [rxT, hw]⟩
    · obtain ⟨p, hp, hT⟩ := h
      simp only [List.take_succ_cons, List.mem_cons] at hp
      rcases hp with rfl | hp
      · exact absurd hT hw
      · obtain ⟨s', hs'⟩ := rxT_timeout_of_mem T n s ⟨p, hp, hT⟩
        exact ⟨s', by simp [rxT, hw, hs']⟩

/-- **a pause that reaches the read timeout while the frame header is awaited ends the handshake**
(no Hand read ⇒ `accept` returns the connection error before any check and before any write; no Shake
read ⇒ `initiate` fails) -/
theorem handshake_read_times_out {β : Type} (T : Nat) (net : NetCfg) (expected : Nat) (dec : Dec β) (ts : TStream)
    (h : ∃ p ∈ ts.take MSG_HEADER_LEN, T ≤ p.1) :
    readMessageT T net expected dec ts = .timedOut := by
  obtain ⟨s, hs⟩ := rxT_timeout_of_mem T _ ts h
  unfold readMessageT
  rw [hs]

/-- a peer that connects and stays silent for `T` ms (then sends whatever it likes) -/
theorem silent_peer_times_out {β : Type} (T : Nat) (net : NetCfg) (expected : Nat) (dec : Dec β) (w b : Nat) (s : TStream)
    (h : T ≤ w) : readMessageT T net expected dec ((w, b) :: s) = .timedOut :=
  handshake_read_times_out T net expected dec _ ⟨(w, b), by simp [MSG_HEADER_LEN], h⟩

/-- **… and inside the announced body**: the header of the expected type arrived in time, then a wait
reaches the timeout before the body is complete -/
theorem handshake_body_times_out {β : Type} (T : Nat) (net : NetCfg) (expected len : Nat) (dec : Dec β) (ts : TStream)
    (hhead : WaitsBelow T (ts.take MSG_HEADER_LEN)) (h11 : MSG_HEADER_LEN ≤ ts.length)
    (hdec : ∃ r a, decHeader net ((tbytes ts).take MSG_HEADER_LEN) = .ok (.known expected len) r a)
    (h : ∃ p ∈ (ts.drop MSG_HEADER_LEN).take len, T ≤ p.1) :
    readMessageT T net expected dec ts = .timedOut := by
  obtain ⟨r, a, hd⟩ := hdec
  obtain ⟨s, hs⟩ := rxT_timeout_of_mem T _ _ h
  unfold readMessageT
  rw [rxT_ok T _ ts hhead]
  simp only [h11, if_true, tbytes_take, hd, hs]

/-- non-vacuity of the three statements at the regenerated timeout: a Ping-sized frame of the expected
type (3) whose bytes arrive with waits of 4 s is read; the same with 10 s before byte 5, or before the
last body byte, times out -/
example :
    let frame : Bytes := encHeader netAutomatedTesting 3 16 ++ List.replicate 16 7
    let T := GV.Gen.CodecDispatch.HAND_READ_TIMEOUT_MS
    (readMessageT (α := Body Unit) T netAutomatedTesting 3 decPingPong (tagSched [(4000, frame.take 5), (4000, frame.drop 5)])).okConsumed = some 27 ∧
    (readMessageT (α := Body Unit) T netAutomatedTesting 3 decPingPong (tagSched [(0, frame.take 5), (10000, frame.drop 5)])).isTimedOut = true ∧
    (readMessageT (α := Body Unit) T netAutomatedTesting 3 decPingPong (tagSched [(0, frame.take 26), (10000, frame.drop 26)])).isTimedOut = true := by
  decide

/-! ## the receive tracker does not see the fragmentation -/

theorem runCounts_sim {B H σ1 σ2 : Type} (env : Env B H) {ops1 : SockOps σ1} {ops2 : SockOps σ2} {R : σ1 → σ2 → Prop}
    (hs : Sim ops1 ops2 R) (attach : Message B H → Option Nat) (quiet : Res B H → Bool) :
    ∀ (fuel : Nat) (c : Codec H) (s : σ1) (b : σ2), R s b →
      runCounts env ops1 attach quiet fuel c s = runCounts env ops2 attach quiet fuel c b := by
  intro fuel
  induction fuel with
  | zero => intro c s b _; rfl
  | succ fuel ih =>
    intro c s b h
    obtain ⟨e1, e2, _, e4, e5⟩ := read_sim env hs c s b h
    simp only [runCounts]
    rw [e1, e2, e4]
    cases hres : (read env ops2 c b).res with
    | msg m =>
      simp only
      cases hc : nextCodec attach (read env ops2 c b).codec m with
      | none => rfl
      | some c' => simp only [ih c' _ _ e5]
    | err e => rfl
    | panic st => rfl
    | hang => rfl

/-- **`Tracker.received_bytes` is independent of the fragmentation**: the reader loop reports the same
sequence of (bytes, counted-as-a-message?) entries - one per `codec.read()` - however the stream is cut -/
theorem tracker_counts_frag_irrelevant {B H : Type} (env : Env B H) (attach : Message B H → Option Nat)
    (quiet : Res B H → Bool) (fuel : Nat) (c : Codec H) (frags : List Bytes) :
    runCounts env fragOps attach quiet fuel c frags = runCounts env fragOps attach quiet fuel c [frags.flatten] :=
  (runCounts_sim env sim_frag_flat attach quiet fuel c frags frags.flatten rfl).trans
    (runCounts_sim env sim_frag_flat attach quiet fuel c [frags.flatten] frags.flatten (by simp)).symm

/-! ## the handshake writes under their timeouts -/

/-- **a remote that does not take the handshake message within the write timeout fails the handshake**
(no `PeerInfo`, so no `Peer` is created), one that takes it in time changes nothing -/
theorem write_stall_fails_handshake (v : Nat) (stall : Option Nat) :
    (acceptWithWrite stall (.ok v) = .ok v ↔ ∃ w, stall = some w ∧ w < shakeWriteTimeout) ∧
    (acceptWithWrite stall (.ok v) ≠ .ok v → acceptWithWrite stall (.ok v) = .writeTimeout) ∧
    (initiateWithWrite stall (.ok v) = .ok v ↔ ∃ w, stall = some w ∧ w < handWriteTimeout) ∧
    shakeWriteTimeout = 2000 ∧ handWriteTimeout = 2000 := by
  refine ⟨?_, ?_, ?_, rfl, rfl⟩
  · cases stall with
    | none => simp [acceptWithWrite, writeCompletes]
    | some w => by_cases h : w < shakeWriteTimeout <;> simp [acceptWithWrite, writeCompletes, h]
  · cases stall with
    | none => simp [acceptWithWrite, writeCompletes]
    | some w => by_cases h : w < shakeWriteTimeout <;> simp [acceptWithWrite, writeCompletes, h]
  · cases stall with
    | none => simp [initiateWithWrite, writeCompletes]
    | some w => by_cases h : w < handWriteTimeout <;> simp [initiateWithWrite, writeCompletes, h]

/-- **a refusal by `accept` does not depend on the write path** (nothing is written to a refused peer, so a
peer that never reads is refused exactly like any other); `initiate` writes before it can judge, so there
the stall wins -/
theorem accept_refusal_independent_of_write (e : HsErr) (stall : Option Nat) :
    acceptWithWrite stall (.error e) = .refused e ∧ initiateWithWrite none (.error e) = .writeTimeout := by
  simp [acceptWithWrite, initiateWithWrite, writeCompletes]

example : acceptWithWrite (some 1999) (.ok 1000) = .ok 1000 ∧ acceptWithWrite (some 2000) (.ok 1000) = .writeTimeout ∧
    acceptWithWrite none (.ok 2) = .writeTimeout := by decide

end GV.Props.C19Send
