import GrinVerif.Lemmas.TxDeaggAny
import GrinVerif.Lemmas.TxNormal
/-! # C12 — `deaggregate` on ANY multi-kernel side and ANY known list

`core/src/core/transaction.rs::deaggregate(mk_tx, txs)`.  `Props/C12.lean` (`deaggregate_inverse`)
and `Props/C12Deagg.lean` (`deaggregate_general`) describe it when `mk_tx` IS the aggregate of the
known list and a remainder.  Nothing in the function checks that: the known list may hold a
transaction that is not inside `mk_tx` (foreign), the same transaction twice, more than was
aggregated; `mk_tx` may be a single transaction or the empty one.  The theorems here hold for every
`mk` and every known list (no normal-form, no duplicate-freedom, no collision-freedom hypothesis):
the three membership loops are set differences with de-duplication, the offset is the scalar
difference, and the only error is the one `aggregate(txs)` reports.  The harness runs these shapes on
the real code (`tx deagg` lines of the odd-shape section). -/
namespace GV.Props.C12
open GV GV.Tx GV.Tx.Ex List

/-- **`deaggregate` in closed form, for every multi-kernel side and every known list**: whenever the
known list aggregates (to `a`), the call succeeds; the result is in commit-only form, each of its
three vectors is duplicate-free and holds exactly the elements of `mk` that are not in `a`; its
offset is `mk.offset − a.offset` mod n (blinding factors that are not scalars count as zero). -/
theorem deaggregate_any (K : Keys) (mk : Tx) (txs : List Tx) (a : Tx) (h : aggregate K txs = .ok a) :
    ∃ d, deaggregate K mk txs = .ok d ∧ d.v2 = false ∧
      d.inputs.Nodup ∧ (∀ x, x ∈ d.inputs ↔ x ∈ mk.inputs ∧ x ∉ a.inputs) ∧
      d.outputs.Nodup ∧ (∀ x, x ∈ d.outputs ↔ x ∈ mk.outputs ∧ x ∉ a.outputs) ∧
      d.kernels.Nodup ∧ (∀ x, x ∈ d.kernels ↔ x ∈ mk.kernels ∧ x ∉ a.kernels) ∧
      d.offset = scalarSum (toSecrets [mk.offset]) (toSecrets [a.offset]) := by
  have memCO : ∀ (t : Tx) (x : Nat), x ∈ t.inputsCO K ↔ x ∈ t.inputs := by
    intro t x; unfold Tx.inputsCO; split
    · exact mem_sortBy
    · exact Iff.rfl
  unfold deaggregate
  simp only [h, deagg_offset_any]
  refine ⟨_, rfl, rfl, ?_, ?_, ?_, ?_, ?_, ?_, rfl⟩
  · exact (sortBy_perm _ _).nodup_iff.2 (pushNew_nodup_any _ _ _ nodup_nil)
  · intro x
    rw [mem_sortBy, mem_pushNew, memCO, memCO]; simp
  · exact (sortBy_perm _ _).nodup_iff.2 (pushNew_nodup_any _ _ _ nodup_nil)
  · intro x
    rw [mem_sortBy, mem_pushNew]; simp
  · exact (sortBy_perm _ _).nodup_iff.2 (pushNew_nodup_any _ _ _ nodup_nil)
  · intro x
    rw [mem_sortBy, mem_pushNew]; simp

/-- **the only error of `deaggregate` is the one of `aggregate(known list)`** (a commitment left
twice on a side after cut-through — e.g. the same transaction handed in twice); the multi-kernel
side and the offsets never make it fail. -/
theorem deaggregate_error_iff (K : Keys) (mk : Tx) (txs : List Tx) (e : Err) :
    deaggregate K mk txs = .error e ↔ aggregate K txs = .error e := by
  cases h : aggregate K txs with
  | error e' =>
    unfold deaggregate; simp only [h]
  | ok a =>
    obtain ⟨d, hd, _⟩ := deaggregate_any K mk txs a h
    rw [hd]; simp

/-- **a foreign known transaction removes nothing and is not noticed**: when no element of `mk` occurs
in the aggregate of the known list, the result keeps every input, output and kernel of `mk` — but its
offset is `mk.offset − a.offset`, so for a known list with a non-zero offset the result is `mk` with
a WRONG offset, returned as `Ok` (an observation about the code, reproduced by the harness:
`part-minus-foreign`). -/
theorem deaggregate_foreign (K : Keys) (mk : Tx) (txs : List Tx) (a : Tx) (h : aggregate K txs = .ok a)
    (hi : ∀ x ∈ mk.inputs, x ∉ a.inputs) (ho : ∀ x ∈ mk.outputs, x ∉ a.outputs)
    (hk : ∀ x ∈ mk.kernels, x ∉ a.kernels) :
    ∃ d, deaggregate K mk txs = .ok d ∧
      (∀ x, x ∈ d.inputs ↔ x ∈ mk.inputs) ∧ (∀ x, x ∈ d.outputs ↔ x ∈ mk.outputs) ∧
      (∀ x, x ∈ d.kernels ↔ x ∈ mk.kernels) ∧
      d.offset = scalarSum (toSecrets [mk.offset]) (toSecrets [a.offset]) := by
  obtain ⟨d, hd, _, _, mi, _, mo, _, mk', hoff⟩ := deaggregate_any K mk txs a h
  refine ⟨d, hd, ?_, ?_, ?_, hoff⟩
  · intro x; rw [mi]; exact ⟨fun p => p.1, fun p => ⟨p, hi x p⟩⟩
  · intro x; rw [mo]; exact ⟨fun p => p.1, fun p => ⟨p, ho x p⟩⟩
  · intro x; rw [mk']; exact ⟨fun p => p.1, fun p => ⟨p, hk x p⟩⟩

/-- **a known list that covers `mk` leaves an empty body** (everything of `mk` occurs in `a`: the
whole set, or more than was aggregated); the offset is still the difference. -/
theorem deaggregate_covered (K : Keys) (mk : Tx) (txs : List Tx) (a : Tx) (h : aggregate K txs = .ok a)
    (hi : ∀ x ∈ mk.inputs, x ∈ a.inputs) (ho : ∀ x ∈ mk.outputs, x ∈ a.outputs)
    (hk : ∀ x ∈ mk.kernels, x ∈ a.kernels) :
    ∃ d, deaggregate K mk txs = .ok d ∧ d.inputs = [] ∧ d.outputs = [] ∧ d.kernels = [] ∧
      d.offset = scalarSum (toSecrets [mk.offset]) (toSecrets [a.offset]) := by
  obtain ⟨d, hd, _, _, mi, _, mo, _, mk', hoff⟩ := deaggregate_any K mk txs a h
  refine ⟨d, hd, ?_, ?_, ?_, hoff⟩
  · exact eq_nil_iff_forall_not_mem.2 fun x hx => ((mi x).1 hx).2 (hi x ((mi x).1 hx).1)
  · exact eq_nil_iff_forall_not_mem.2 fun x hx => ((mo x).1 hx).2 (ho x ((mo x).1 hx).1)
  · exact eq_nil_iff_forall_not_mem.2 fun x hx => ((mk' x).1 hx).2 (hk x ((mk' x).1 hx).1)

/-- an empty known list: `mk` comes back de-duplicated, in commit-only form, with its own offset
(reduced to a scalar) -/
theorem deaggregate_nothing (K : Keys) (mk : Tx) :
    ∃ d, deaggregate K mk [] = .ok d ∧ d.v2 = false ∧
      (∀ x, x ∈ d.inputs ↔ x ∈ mk.inputs) ∧ (∀ x, x ∈ d.outputs ↔ x ∈ mk.outputs) ∧
      (∀ x, x ∈ d.kernels ↔ x ∈ mk.kernels) ∧ d.offset = scalarSum (toSecrets [mk.offset]) [] := by
  obtain ⟨d, hd, hv, _, mi, _, mo, _, mk', hoff⟩ := deaggregate_any K mk [] Tx.empty rfl
  refine ⟨d, hd, hv, ?_, ?_, ?_, ?_⟩
  · intro x; rw [mi]; simp [Tx.empty]
  · intro x; rw [mo]; simp [Tx.empty]
  · intro x; rw [mk']; simp [Tx.empty]
  · rw [hoff]; simp [Tx.empty, toSecrets]

/-- non-vacuity / the observation on concrete values (`t1`, `t2` of `Lemmas/TxNormal.lean`): `mk` = the
single transaction `t1`, known list = the FOREIGN transaction `t2`: the call succeeds and returns
`t1`'s body with the offset `t1.offset − t2.offset`. -/
example : ∃ d, deaggregate K0 t1 [t2] = .ok d ∧ d.inputs = t1.inputs ∧ d.outputs = t1.outputs ∧
    d.kernels = t1.kernels ∧ d.offset = (t1.offset + (N - t2.offset)) % N := by
  refine ⟨_, rfl, ?_, ?_, ?_, ?_⟩ <;> tx_eval
/-- the same transaction twice in the known list: `CutThrough` -/
example : deaggregate K0 t1 [t2, t2] = .error .cutThrough := by tx_eval

end GV.Props.C12
