import GrinVerif.Props.C05
/-! # C05 — `Difficulty::from_proof_scaled` / `from_proof_adjusted` at the extremes, in closed form

`Props/C05.lean toDifficulty_exact` gives the general closed form (`max 1 (min (2^64-1)
(⌊scale·2^64 / max 1 h⌋))`).  The corner values, for every packed proof (every hash prefix `h`):
secondary scaling 0 and `u32::MAX`, the smallest and the largest primary graph (`edge_bits =
base_edge_bits` and 63), and the C31 weight after its phase-out. -/
namespace GV.Props.C05Diff
open GV GV.Pow GV.Gen GV.Props.C05

/-- `from_proof_scaled(proof, 0)`: the quotient is 0, `Difficulty::from_num` lifts it to 1 — whatever
the proof -/
theorem secondary_scaling_zero (c : ChainType) (height : Nat) (packed : Bytes) :
    toDifficulty c height SECOND_POW_EDGE_BITS 0 packed = 1 := by
  rw [toDifficulty_exact _ _ _ _ _ (by decide), if_pos rfl]
  have : diffExact 0 (hashPrefix packed) = 0 := by unfold diffExact; simp
  rw [this]; rfl

/-- `from_proof_scaled(proof, u32::MAX)`: `min (2^64-1) ⌊(2^32-1)·2^64 / max 1 h⌋`; it saturates at
`u64::MAX` exactly for hash prefixes `h ≤ 2^32 - 1` (`(2^32-1)·2^64 / h ≥ 2^64 - 1 ⟺ h ≤ 2^32 - 1`
up to rounding: stated through `diffExact_saturated_iff_le`) -/
theorem secondary_scaling_max (c : ChainType) (height : Nat) (packed : Bytes) :
    toDifficulty c height SECOND_POW_EDGE_BITS (2^32 - 1) packed =
      max (min (((2^32 - 1) * 2^64) / max 1 (hashPrefix packed)) (2^64 - 1)) 1 := by
  rw [toDifficulty_exact _ _ _ _ _ (by decide), if_pos rfl]
  rfl

/-- the smallest primary graph (`edge_bits = base_edge_bits`, not the C31 phase-out case): weight
`2 · edge_bits`, difficulty `max 1 (min (2^64-1) ⌊2·eb·2^64 / max 1 h⌋)` -/
theorem primary_at_base (c : ChainType) (height sec : Nat) (packed : Bytes) (hsec : sec < 2^32)
    (hne : baseEdgeBits c ≠ SECOND_POW_EDGE_BITS) (h31 : baseEdgeBits c ≠ 31) :
    graphWeight c height (baseEdgeBits c) = 2 * baseEdgeBits c ∧
    toDifficulty c height (baseEdgeBits c) sec packed =
      max (diffExact (2 * baseEdgeBits c) (hashPrefix packed)) 1 := by
  have hb63 : baseEdgeBits c ≤ 63 := by cases c <;> decide
  have hw : graphWeight c height (baseEdgeBits c) = 2 * baseEdgeBits c := by
    rw [graphWeight_nowrap c height _ (Nat.le_refl _) hb63]
    have : xprEdgeBits height (baseEdgeBits c) = baseEdgeBits c := by
      unfold xprEdgeBits; rw [if_neg (fun h => h31 h.1)]
    rw [this, Nat.sub_self]
  refine ⟨hw, ?_⟩
  rw [toDifficulty_exact _ _ _ _ _ hsec, if_neg hne, hw]

/-- the largest graph a wire proof can claim (`edge_bits = 63`): weight `2^(64 - base) · 63`, no wrap -/
theorem primary_at_63 (c : ChainType) (height sec : Nat) (packed : Bytes) (hsec : sec < 2^32) :
    graphWeight c height 63 = 2^(64 - baseEdgeBits c) * 63 ∧
    toDifficulty c height 63 sec packed =
      max (diffExact (2^(64 - baseEdgeBits c) * 63) (hashPrefix packed)) 1 := by
  have hb : baseEdgeBits c ≤ 63 := by cases c <;> decide
  have hw : graphWeight c height 63 = 2^(64 - baseEdgeBits c) * 63 := by
    rw [graphWeight_nowrap c height 63 hb (Nat.le_refl _)]
    have : xprEdgeBits height 63 = 63 := by unfold xprEdgeBits; rw [if_neg (by omega)]
    rw [this]
    congr 2
    omega
  refine ⟨hw, ?_⟩
  have : (63 : Nat) ≠ SECOND_POW_EDGE_BITS := by decide
  rw [toDifficulty_exact _ _ _ _ _ hsec, if_neg this, hw]

/-- C31 after its phase-out (31 weeks past the first year and later): weight 0, so every C31 proof
is worth the minimum difficulty 1 -/
theorem c31_phased_out (c : ChainType) (height sec : Nat) (packed : Bytes) (hsec : sec < 2^32)
    (hh : YEAR_HEIGHT + 30 * WEEK_HEIGHT ≤ height) :
    toDifficulty c height 31 sec packed = 1 := by
  have hx : xprEdgeBits height 31 = 0 := by
    unfold xprEdgeBits satSub
    have hy : height ≥ YEAR_HEIGHT := by omega
    rw [if_pos ⟨rfl, hy⟩]
    have hw : 0 < WEEK_HEIGHT := by decide
    have : 30 ≤ (height - YEAR_HEIGHT) / WEEK_HEIGHT := by
      rw [Nat.le_div_iff_mul_le hw]; omega
    omega
  have hw : graphWeight c height 31 = 0 := by
    unfold graphWeight
    simp only [hx]
    unfold mulW; simp
  have : (31 : Nat) ≠ SECOND_POW_EDGE_BITS := by decide
  rw [toDifficulty_exact _ _ _ _ _ hsec, if_neg this, hw]
  have : diffExact 0 (hashPrefix packed) = 0 := by unfold diffExact; simp
  rw [this]; rfl

example : baseEdgeBits .mainnet ≠ SECOND_POW_EDGE_BITS ∧ baseEdgeBits .mainnet ≠ 31 := by decide
example : graphWeight .mainnet 0 63 = 2^40 * 63 := by decide

end GV.Props.C05Diff
