import GrinVerif.Gen.PipeShapeTypes
/-! # Observables of a validation-pipeline shape (`Gen/PipeShape*.lean`)

Small executable projections of the generated step tables; the obligations in `Props/XlateShape*.lean` are
`decide`-closed statements about them.  They are insensitive to the arguments of the calls and to the numbering
of locals (unlike the exact pins in `Props/XlateShape*Pins.lean`). -/
namespace GV.Props.XlateShape
open GV.Gen.PipeShape

/-- the source was read -/
def readOk (f : FnShape) : Bool := f.parseError.isNone

/-- the steps that can end the function with an error, in evaluation order: `?`-propagated calls (`check`), explicit
`Err` (`fail`) and the tail expression (`tail`) — by principal name -/
def spine (f : FnShape) : List String :=
  (f.steps.filter fun s => s.kind == .check || s.kind == .fail || s.kind == .tail).map (·.name)

/-- calls whose result is discarded, restricted to the names in `watch` (the validation functions) -/
def discarded (watch : List String) (f : FnShape) : List String :=
  (f.steps.filter fun s => s.kind == .call && watch.contains s.name).map (·.name)

/-- all calls whose result is discarded -/
def calls (f : FnShape) : List String := (f.steps.filter fun s => s.kind == .call).map (·.name)

/-- the guards under which the function returns `Ok` early (`return Ok(..)`) -/
def earlyOks (f : FnShape) : List (List String) := (f.steps.filter fun s => s.kind == .okEarly).map (·.guard)

/-- position of the first early `Ok` in the list of all steps (`none`: there is none) and the spine names before it -/
def spineBeforeFirstEarlyOk (f : FnShape) : List String :=
  ((f.steps.takeWhile fun s => s.kind != .okEarly).filter
    fun s => s.kind == .check || s.kind == .fail || s.kind == .tail).map (·.name)

/-- the explicit error variants with the innermost guard they sit under -/
def fails (f : FnShape) : List (String × String) :=
  (f.steps.filter fun s => s.kind == .fail).map fun s => (s.name, s.guard.getLast?.getD "")

/-- the error variants `map_err` / `ok_or` introduce on `?` operands -/
def mapped (f : FnShape) : List (String × String) :=
  (f.steps.filter fun s => s.kind == .check && s.err != "").map fun s => (s.name, s.err)

/-- the names of the spine steps that sit under a guard containing `g` -/
def under (g : String) (f : FnShape) : List String :=
  (f.steps.filter fun s => (s.kind == .check || s.kind == .fail || s.kind == .tail) && s.guard.contains g).map (·.name)

/-- the number of enclosing conditions of each spine step -/
def depths (f : FnShape) : List Nat :=
  (f.steps.filter fun s => s.kind == .check || s.kind == .fail || s.kind == .tail).map (·.guard.length)

/-- the principal callees of the `let` initialisers / assignments that feed a guard (the exact initialisers, with
their arguments, are in the pins) -/
def guardInputs (f : FnShape) : List String := f.lets.map (·.name)

/-- the validation functions of the code base: a discarded call to one of these is a dropped check -/
def watch : List String :=
  ["validate", "validate_read", "validate_header", "validate_block", "validate_pow_only", "validate_header_ctx",
   "validate_header_denylist", "validate_utxo", "validate_tx", "validate_input", "validate_inputs",
   "validate_output", "validate_roots", "validate_sizes", "validate_mmrs", "validate_root",
   "validate_kernel_sums", "validate_raw_tx", "validate_raw_txs", "verify_coinbase_maturity",
   "verify_block_sums", "verify_kernel_sums", "verify_coinbase", "verify_kernel_lock_heights",
   "verify_nrd_kernels_for_header_version", "verify_weight", "verify_no_nrd_duplicates", "verify_sorted",
   "verify_cut_through", "verify_features", "verify_output_features", "verify_kernel_features",
   "verify_kernel_variants", "verify_rangeproofs", "verify_kernel_signatures", "verify_sorted_and_unique",
   "check_known", "check_known_head", "check_known_store", "apply_block", "apply_block_to_txhashset",
   "apply_header", "apply_input", "apply_output", "apply_kernel", "rewind", "rewind_and_apply_fork",
   "rewind_and_apply_header_fork", "process_block_header", "add_to_pool", "add_to_txpool", "add_to_stempool",
   "batch_verify", "verify", "verify_size", "verify_rel_height", "verify_nrd_relative_height", "commit_index",
   -- phase 5 (chain.rs API)
   "process_block", "process_block_single", "process_block_headers", "is_known", "check_orphan",
   "validate_tx_against_utxo", "validate_tx_kernels", "verify_tx_lock_height"]

/-! ## commit / discard decision of an extension wrapper (`txhashset::extending`, `header_extending`; phase 6) -/

/-- the steps that make an extension durable: the child batch `commit()` and the backends' `sync()` -/
def durable (f : FnShape) : List Step := f.steps.filter fun s => s.name == "commit" || s.name == "sync"

/-- the local that holds the closure's result (`res = inner(..)`) and the one that holds the rollback flag
(`rollback = <extension>.rollback`) with its initialiser, read from the `lets` table -/
def resultLocal (f : FnShape) : List String := ((f.lets.filter fun l => l.name == "inner").map (·.vars)).flatten
def rollbackLocal (f : FnShape) : List (List String × String) :=
  (f.lets.filter fun l => l.name == "rollback").map fun l => (l.vars, l.init)

/-- every durable step (`commit`, `sync`) and every GUARDED assignment (the writes of the new sizes / bitmap accumulator
back into the handles) sits under exactly the guard `g`, and there is at least one durable step -/
def commitsOnlyUnder (g : List String) (f : FnShape) : Bool :=
  !(durable f).isEmpty && (durable f).all (fun s => s.guard == g) &&
  (f.lets.filter fun l => !l.guard.isEmpty).all (fun l => l.guard == g)

/-- number of backend `discard()` calls under the guard `g` -/
def discardsUnder (g : List String) (f : FnShape) : Nat :=
  (f.steps.filter fun s => s.kind == .call && s.name == "discard" && s.guard == g).length

/-- the unconditional `discard()` calls of a read-only wrapper -/
def unconditionalDiscards (f : FnShape) : Nat :=
  (f.steps.filter fun s => s.kind == .call && s.name == "discard" && s.guard == []).length

end GV.Props.XlateShape
