import GrinVerif.Model.Pow
import GrinVerif.Gen.FnsPow
import GrinVerif.Lemmas.XlatePow

/-! # Translated `core/src/pow/siphash.rs` = hand-written model (`Model/Pow.lean`, siphash part)

`GV.Gen.Fns.*` (file `Gen/FnsPow.lean`) is regenerated on every check run from the CURRENT Rust
source by `tools/rs2lean.py` (release-build semantics: `wrapping_add`/`+` wrap at `2^64`, the shift
amount of a u64 shift is masked `% 64`, `64 - rot_e` is u8 arithmetic, `64 - 13` etc. u32 arithmetic).
Every integer of the translation is a `Nat` (invariant: a u64 value is `< 2^64`); the hand-written
model is on `UInt64`.  The tie is the map `ofSip : Sip → Fns.SipHash24` (componentwise `toNat`) and,
for the scalar functions, `toNat` of the model's result.  A change of one of these Rust function
bodies changes the generated definition and the corresponding theorem stops checking.

Ranges.  Keys, nonce: every u64 (they are `UInt64` values, or `Nat`s `< 2^64` in the `_nat` forms).
`rot_e`: EVERY `Nat` — no hypothesis is needed, in particular the whole `u8` range of the Rust
parameter: the code's `64 - rot_e` wraps in u8, the model's `64 - r` wraps in `UInt64`, and both
amounts are then masked `% 64`; since `64 ∣ 2^8` and `64 ∣ 2^64` the two agree `% 64` (lemma
`rotl_eq`; the callers only use 21 and 25).  `rot_e = 0` and multiples of 64 rotate by 0 on both sides
(`x << 0 | x >> 0 = x`).  No disagreement between translation and model was found.

`<fn>_ok`: `SipHash24::new`/`siphash24`/`siphash_block` index a `&[u64; 4]` with 0..3 and the 64-element
`nonce_hash` with `i < 64`, `nonce_i = nonce & 63`, `xor_from..64`; the `_ok` theorems show that none
of these is out of range for any 4-element key and ANY nonce / rot_e / xor_all.

Proof-engineering note: `rfl`, `simp [f]`, `rw [f]` and `show` on the generated loop functions were
observed not to terminate within minutes (already generating the equation lemmas of
`SipHash24_hash_loop1` does not; presumably the unifier compares `self =?= SipHash24_round self r` on
open terms and starts unfolding `Nat` bit operations).  The `…_cons`/`…_nil` lemmas below are therefore
obtained with `conv => lhs; unfold f`, and everything else uses `rw` with them. -/

namespace GV.Props.XlatePow
open GV GV.Pow GV.Xlate
open GV.Gen

/-! ## state map, rotation -/

/-- the model state as a state of the translation -/
def ofSip (s : Sip) : Fns.SipHash24 := ⟨s.v0.toNat, s.v1.toNat, s.v2.toNat, s.v3.toNat⟩

theorem ofSip_inj {s t : Sip} (h : ofSip s = ofSip t) : s = t := by
  cases s; cases t
  simp only [ofSip, Fns.SipHash24.mk.injEq, UInt64.toNat_inj] at h
  obtain ⟨h0, h1, h2, h3⟩ := h
  subst h0 h1 h2 h3; rfl

/-- every u64 state of the translation is the image of a model state -/
theorem ofSip_surj (t : Fns.SipHash24) (h0 : t.f0 < 2^64) (h1 : t.f1 < 2^64) (h2 : t.f2 < 2^64)
    (h3 : t.f3 < 2^64) : ∃ s : Sip, ofSip s = t :=
  ⟨⟨t.f0.toUInt64, t.f1.toUInt64, t.f2.toUInt64, t.f3.toUInt64⟩, by
    cases t
    simp only [ofSip, toNat_toUInt64_of_lt h0, toNat_toUInt64_of_lt h1, toNat_toUInt64_of_lt h2,
      toNat_toUInt64_of_lt h3]⟩

/-- the macro `rotl!(x, rot_e)` with `rot_e : u8` (`64 - rot_e` in wrapping u8 arithmetic, both shift
amounts masked `% 64`) is the model's `rotl` — for EVERY amount `r` (no `r < 64` needed) -/
theorem rotl_eq (x : UInt64) (r : Nat) :
    shlW x.toNat r ||| shrW x.toNat (Fns.subN 8 64 r) = (rotl x r.toUInt64).toNat :=
  rotl_toNat_u8 x r

/-- the same for the literal amounts (`64 - 13` … in u32 arithmetic) -/
theorem rotl_lit_eq (x : UInt64) (r : Nat) :
    shlW x.toNat r ||| shrW x.toNat (Fns.subN 32 64 r) = (rotl x r.toUInt64).toNat :=
  rotl_toNat_u32 x r

/-- amounts 1 and 65, 0 and 64 rotate alike (the amount is taken `% 64` on both sides); amount 200 -/
example : (rotl 0x8000000000000001 1).toNat = 3 ∧ (rotl 0x8000000000000001 65).toNat = 3
    ∧ (rotl 5 0).toNat = 5 ∧ (rotl 5 64).toNat = 5 := by decide
example : shlW 0x8000000000000001 200 ||| shrW 0x8000000000000001 (Fns.subN 8 64 200)
    = (rotl 0x8000000000000001 200).toNat := by decide

/-! ## `SipHash24::round`, `hash`, `digest`, `siphash24` -/

/-- `SipHash24::round(rot_e)` = `Sip.round`, every state, every `rot_e` -/
theorem round_eq (s : Sip) (rotE : Nat) :
    Fns.SipHash24_round (ofSip s) rotE = ofSip (s.round rotE.toUInt64) := by
  cases s with
  | mk v0 v1 v2 v3 =>
    simp only [Fns.SipHash24_round, ofSip, Sip.round, addW_toNat, rotl13, rotl16, rotl32, rotl17,
      rotl_toNat_u8, xor_toNat]

example : Fns.SipHash24_round (ofSip ⟨1, 2, 3, 4⟩) 21 = ofSip ((⟨1, 2, 3, 4⟩ : Sip).round 21)
    ∧ Fns.SipHash24_round ⟨1, 2, 3, 4⟩ 21 = ⟨12885164039, 2147893258, 70411693850624, 562655657991⟩
    ∧ Fns.SipHash24_round ⟨1, 2, 3, 4⟩ 200 = ofSip ((⟨1, 2, 3, 4⟩ : Sip).round 200) := by decide

theorem hash_loop1_cons (r a : Nat) (t : List Nat) (s : Fns.SipHash24) :
    Fns.SipHash24_hash_loop1 r (a :: t) s
      = Fns.SipHash24_hash_loop1 r t (Fns.SipHash24_round s r) := by
  conv => lhs; unfold Fns.SipHash24_hash_loop1

theorem hash_loop1_nil (r : Nat) (s : Fns.SipHash24) : Fns.SipHash24_hash_loop1 r [] s = s := by
  conv => lhs; unfold Fns.SipHash24_hash_loop1

theorem hash_loop1_eq (rotE : Nat) (l : List Nat) (s : Sip) :
    Fns.SipHash24_hash_loop1 rotE l (ofSip s)
      = ofSip (l.foldl (fun s _ => s.round rotE.toUInt64) s) := by
  induction l generalizing s with
  | nil => rw [hash_loop1_nil, List.foldl_nil]
  | cons a t ih => rw [hash_loop1_cons, round_eq, ih, List.foldl_cons]

theorem hash_loop1_four (s : Sip) (rotE : Nat) :
    Fns.SipHash24_hash_loop1 rotE (List.range' 0 (4 - 0)) (ofSip s)
      = ofSip ((((s.round rotE.toUInt64).round rotE.toUInt64).round rotE.toUInt64).round
          rotE.toUInt64) := by
  have h : List.range' 0 (4 - 0) = [0, 1, 2, 3] := by decide
  rw [hash_loop1_eq, h]
  simp only [List.foldl_cons, List.foldl_nil]

/-- `SipHash24::hash(nonce, rot_e)` = `Sip.hash` (2 rounds, then 4), `UInt64` nonce -/
theorem hash_eq_u (s : Sip) (nonce : UInt64) (rotE : Nat) :
    Fns.SipHash24_hash (ofSip s) nonce.toNat rotE = ofSip (s.hash nonce rotE.toUInt64) := by
  have e3 : ∀ t : Sip, ({ ofSip t with f3 := (ofSip t).f3 ^^^ nonce.toNat } : Fns.SipHash24)
      = ofSip { t with v3 := t.v3 ^^^ nonce } := by
    intro t; simp only [ofSip, xor_toNat]
  have e02 : ∀ t : Sip, ({ ({ ofSip t with f0 := (ofSip t).f0 ^^^ nonce.toNat } : Fns.SipHash24) with
        f2 := ({ ofSip t with f0 := (ofSip t).f0 ^^^ nonce.toNat } : Fns.SipHash24).f2 ^^^ 255 } :
          Fns.SipHash24)
      = ofSip { t with v0 := t.v0 ^^^ nonce, v2 := t.v2 ^^^ 0xff } := by
    intro t; simp only [ofSip, xor_toNat]
    rw [show (255 : Nat) = (0xff : UInt64).toNat from rfl, xor_toNat]
  unfold Fns.SipHash24_hash Sip.hash
  simp only [e3, round_eq, e02, hash_loop1_four]

/-- the same with a `Nat` nonce `< 2^64` -/
theorem hash_eq (s : Sip) (nonce rotE : Nat) (hn : nonce < 2^64) :
    Fns.SipHash24_hash (ofSip s) nonce rotE = ofSip (s.hash nonce.toUInt64 rotE.toUInt64) := by
  have := hash_eq_u s nonce.toUInt64 rotE
  rwa [toNat_toUInt64_of_lt hn] at this

example : Fns.SipHash24_hash (ofSip ⟨1, 2, 3, 4⟩) 10 21 = ofSip ((⟨1, 2, 3, 4⟩ : Sip).hash 10 21) :=
  hash_eq _ 10 21 (by decide)

/-- `SipHash24::digest` = `Sip.digest` -/
theorem digest_eq (s : Sip) :
    Fns.SipHash24_digest (ofSip s).f0 (ofSip s).f1 (ofSip s).f2 (ofSip s).f3 = s.digest.toNat := by
  simp only [Fns.SipHash24_digest, ofSip, Sip.digest, xor_toNat]

theorem new_eq (k : Keys) :
    Fns.SipHash24_new [k.k0.toNat, k.k1.toNat, k.k2.toNat, k.k3.toNat] = ofSip k.sip := rfl

theorem new_ok (a b c d : Nat) : Fns.SipHash24_new_ok [a, b, c, d] = true := by
  simp [Fns.SipHash24_new_ok]

/-- `siphash24(&[k0,k1,k2,k3], nonce)` = `GV.Pow.siphash24`, every key, every nonce -/
theorem siphash24_eq (k : Keys) (n : UInt64) :
    Fns.siphash24 [k.k0.toNat, k.k1.toNat, k.k2.toNat, k.k3.toNat] n.toNat
      = (GV.Pow.siphash24 k n).toNat := by
  unfold Fns.siphash24 GV.Pow.siphash24
  have h : Fns.SipHash24_hash (ofSip k.sip) n.toNat 21 = ofSip (k.sip.hash n 21) :=
    hash_eq_u k.sip n 21
  simp only [new_eq, h, digest_eq]

/-- `siphash24` never indexes out of range on a 4-element key -/
theorem siphash24_ok (a b c d n : Nat) : Fns.siphash24_ok [a, b, c, d] n = true := by
  unfold Fns.siphash24_ok; exact new_ok a b c d

/-- `Nat` form: every 4-element key of u64 values, every u64 nonce -/
theorem siphash24_eq_nat (a b c d n : Nat) (ha : a < 2^64) (hb : b < 2^64) (hc : c < 2^64)
    (hd : d < 2^64) (hn : n < 2^64) :
    Fns.siphash24 [a, b, c, d] n
      = (GV.Pow.siphash24 ⟨a.toUInt64, b.toUInt64, c.toUInt64, d.toUInt64⟩ n.toUInt64).toNat := by
  have h := siphash24_eq ⟨a.toUInt64, b.toUInt64, c.toUInt64, d.toUInt64⟩ n.toUInt64
  simp only [toNat_toUInt64_of_lt ha, toNat_toUInt64_of_lt hb, toNat_toUInt64_of_lt hc,
    toNat_toUInt64_of_lt hd, toNat_toUInt64_of_lt hn] at h
  exact h

/-- the Rust unit-test vectors (`hash_some`), on the translation and, through `siphash24_eq`, on the
model -/
example : Fns.siphash24 [1, 2, 3, 4] 10 = 928382149599306901
    ∧ Fns.siphash24 [1, 2, 3, 4] 111 = 10524991083049122233
    ∧ Fns.siphash24 [9, 7, 6, 7] 12 = 1305683875471634734
    ∧ Fns.siphash24 [9, 7, 6, 7] 10 = 11589833042187638814 := by decide
example : (GV.Pow.siphash24 ⟨1, 2, 3, 4⟩ 10).toNat = 928382149599306901 := by
  rw [← siphash24_eq]; decide
example : Fns.siphash24_ok [1, 2, 3, 4] 10 = true := siphash24_ok 1 2 3 4 10

/-! ## `siphash_block` -/

theorem block_size_eq : Fns.SIPHASH_BLOCK_SIZE = 64 := by decide
theorem block_mask_eq : Fns.SIPHASH_BLOCK_MASK = 63 := by decide
theorem block_notmask_eq : Fns.notN 64 Fns.SIPHASH_BLOCK_MASK = 2^64 - 1 - 63 := by decide

theorem block_loop1_cons (r n0 i : Nat) (rest nh : List Nat) (s : Fns.SipHash24) :
    Fns.siphash_block_loop1 r n0 (i :: rest) nh s
      = Fns.siphash_block_loop1 r n0 rest
          (List.set nh i (Fns.SipHash24_digest (Fns.SipHash24_hash s (addW n0 i) r).f0
            (Fns.SipHash24_hash s (addW n0 i) r).f1 (Fns.SipHash24_hash s (addW n0 i) r).f2
            (Fns.SipHash24_hash s (addW n0 i) r).f3))
          (Fns.SipHash24_hash s (addW n0 i) r) := by
  conv => lhs; unfold Fns.siphash_block_loop1

theorem block_loop1_nil (r n0 : Nat) (nh : List Nat) (s : Fns.SipHash24) :
    Fns.siphash_block_loop1 r n0 [] nh s = (nh, s) := by
  conv => lhs; unfold Fns.siphash_block_loop1

/-- loop 1 of `siphash_block` run over `i .. i+n` on a vector `pre ++ suf` (`pre` = the `i` slots
already written) overwrites the next `n` slots with the model's chained digests -/
theorem block_loop1_eq (rotE : Nat) (nonce0 : UInt64) :
    ∀ (n i : Nat) (s : Sip) (pre suf : List Nat), pre.length = i → n ≤ suf.length → i + n ≤ 2^64 →
      (Fns.siphash_block_loop1 rotE nonce0.toNat (List.range' i n) (pre ++ suf) (ofSip s)).1
        = pre ++ (digestsL nonce0 rotE.toUInt64 s i n).map UInt64.toNat ++ suf.drop n := by
  intro n
  induction n with
  | zero =>
    intro i s pre suf _ _ _
    rw [List.range'_zero, block_loop1_nil, digestsL, List.map_nil, List.append_nil, List.drop_zero]
  | succ n ih =>
    intro i s pre suf hp hs hi
    cases suf with
    | nil => simp at hs
    | cons x suf' =>
      rw [List.range'_succ, block_loop1_cons, addW_toNat_nat nonce0 i (by omega), hash_eq_u,
        digest_eq, List.set_append_right _ _ (by omega), hp, Nat.sub_self, List.set_cons_zero]
      have h := ih (i + 1) (s.hash (nonce0 + i.toUInt64) rotE.toUInt64)
        (pre ++ [(s.hash (nonce0 + i.toUInt64) rotE.toUInt64).digest.toNat]) suf'
        (by rw [List.length_append, hp]; rfl) (by simpa using hs) (by omega)
      rw [List.append_assoc, List.singleton_append] at h
      rw [h, digestsL, List.map_cons, List.drop_succ_cons]
      simp only [List.append_assoc, List.cons_append, List.nil_append]

theorem block_loop1_ok_cons (r n0 i : Nat) (rest nh : List Nat) (s : Fns.SipHash24) :
    Fns.siphash_block_loop1_ok r n0 (i :: rest) nh s
      = (decide (i < List.length nh) &&
          Fns.siphash_block_loop1_ok r n0 rest
            (List.set nh i (Fns.SipHash24_digest (Fns.SipHash24_hash s (addW n0 i) r).f0
              (Fns.SipHash24_hash s (addW n0 i) r).f1 (Fns.SipHash24_hash s (addW n0 i) r).f2
              (Fns.SipHash24_hash s (addW n0 i) r).f3))
            (Fns.SipHash24_hash s (addW n0 i) r)) := by
  conv => lhs; unfold Fns.siphash_block_loop1_ok

theorem block_loop1_ok_nil (r n0 : Nat) (nh : List Nat) (s : Fns.SipHash24) :
    Fns.siphash_block_loop1_ok r n0 [] nh s = true := by
  conv => lhs; unfold Fns.siphash_block_loop1_ok

/-- no store of loop 1 is out of range when the iterated indices are below the vector length
(any state, any `rot_e`, any `nonce0`) -/
theorem block_loop1_ok (r n0 : Nat) :
    ∀ (n i : Nat) (nh : List Nat) (s : Fns.SipHash24), i + n ≤ nh.length →
      Fns.siphash_block_loop1_ok r n0 (List.range' i n) nh s = true := by
  intro n
  induction n with
  | zero => intro i nh s _; rw [List.range'_zero, block_loop1_ok_nil]
  | succ n ih =>
    intro i nh s h
    rw [List.range'_succ, block_loop1_ok_cons, ih (i + 1) _ _ (by rw [List.length_set]; omega)]
    simp only [Bool.and_true, decide_eq_true_eq]; omega

theorem block_loop2_cons (nh : List Nat) (i : Nat) (rest : List Nat) (x : Nat) :
    Fns.siphash_block_loop2 nh (i :: rest) x
      = Fns.siphash_block_loop2 nh rest (x ^^^ Fns.idx nh i) := by
  conv => lhs; unfold Fns.siphash_block_loop2

theorem block_loop2_nil (nh : List Nat) (x : Nat) : Fns.siphash_block_loop2 nh [] x = x := by
  conv => lhs; unfold Fns.siphash_block_loop2

/-- loop 2 of `siphash_block` = the model's `xorRange` (any start, any count: out-of-range reads are
0 on both sides, and are excluded by `block_loop2_ok`) -/
theorem block_loop2_eq (hs : Array UInt64) :
    ∀ (n i : Nat) (x : UInt64),
      Fns.siphash_block_loop2 (hs.toList.map UInt64.toNat) (List.range' i n) x.toNat
        = (xorRange hs x i n).toNat := by
  intro n
  induction n with
  | zero => intro i x; rw [List.range'_zero, block_loop2_nil, xorRange]
  | succ n ih =>
    intro i x
    rw [List.range'_succ, block_loop2_cons, idx_map_toNat, xor_toNat, ih, xorRange]

theorem block_loop2_ok_cons (nh : List Nat) (i : Nat) (rest : List Nat) (x : Nat) :
    Fns.siphash_block_loop2_ok nh (i :: rest) x
      = (decide (i < List.length nh) &&
          Fns.siphash_block_loop2_ok nh rest (x ^^^ Fns.idx nh i)) := by
  conv => lhs; unfold Fns.siphash_block_loop2_ok

theorem block_loop2_ok_nil (nh : List Nat) (x : Nat) :
    Fns.siphash_block_loop2_ok nh [] x = true := by
  conv => lhs; unfold Fns.siphash_block_loop2_ok

theorem block_loop2_ok (nh : List Nat) :
    ∀ (n i x : Nat), i + n ≤ nh.length →
      Fns.siphash_block_loop2_ok nh (List.range' i n) x = true := by
  intro n
  induction n with
  | zero => intro i x _; rw [List.range'_zero, block_loop2_ok_nil]
  | succ n ih =>
    intro i x h
    rw [List.range'_succ, block_loop2_ok_cons, ih (i + 1) _ (by omega)]
    simp only [Bool.and_true, decide_eq_true_eq]; omega

/-- after loop 1 the whole vector holds the model's 64 chained digests -/
theorem block_loop1_full (k : Keys) (nonce0 : UInt64) (rotE : Nat) :
    (Fns.siphash_block_loop1 rotE nonce0.toNat (List.range' 0 64) (List.replicate 64 0)
        (ofSip k.sip)).1
      = (sipBlockDigests k nonce0 rotE.toUInt64).toList.map UInt64.toNat := by
  have h := block_loop1_eq rotE nonce0 64 0 k.sip [] (List.replicate 64 0) rfl
    (by rw [List.length_replicate]; omega) (by omega)
  rw [List.nil_append, List.nil_append, List.drop_replicate, Nat.sub_self, List.replicate_zero,
    List.append_nil] at h
  rw [h, sipBlockDigests_toList]

theorem notN_63 : Fns.notN 64 63 = 18446744073709551552 := by decide
theorem and_not63 (n : UInt64) :
    n.toNat &&& 18446744073709551552 = (n &&& ~~~(63 : UInt64)).toNat := and_not63_toNat n

/-- `siphash_block(&[k0,k1,k2,k3], nonce, rot_e, xor_all)` = `GV.Pow.siphashBlock`: every key, every
nonce, every `rot_e`, both `xor_all` -/
theorem siphash_block_eq (k : Keys) (nonce : UInt64) (rotE : Nat) (xorAll : Bool) :
    Fns.siphash_block [k.k0.toNat, k.k1.toNat, k.k2.toNat, k.k3.toNat] nonce.toNat rotE xorAll
      = (siphashBlock k nonce rotE.toUInt64 xorAll).toNat := by
  have hj : (nonce &&& 63).toNat ≤ 63 := by rw [← and63_toNat]; exact and63_le _
  have ha : addW (nonce &&& 63).toNat 1 = (nonce &&& 63).toNat + 1 := by unfold addW; omega
  unfold Fns.siphash_block siphashBlock
  simp only [block_size_eq, block_mask_eq, notN_63, new_eq, and_not63, and63_toNat,
    Nat.sub_zero, block_loop1_full, idx_map_toNat, ha, block_loop2_eq]

theorem block_loop1_length (r n0 : Nat) :
    ∀ (l nh : List Nat) (s : Fns.SipHash24),
      (Fns.siphash_block_loop1 r n0 l nh s).1.length = nh.length := by
  intro l
  induction l with
  | nil => intro nh s; rw [block_loop1_nil]
  | cons i rest ih => intro nh s; rw [block_loop1_cons, ih, List.length_set]

/-- `siphash_block` never indexes out of range (4-element key; any nonce, `rot_e`, `xor_all`, even
outside the u64 range) -/
theorem siphash_block_ok (a b c d nonce rotE : Nat) (xorAll : Bool) :
    Fns.siphash_block_ok [a, b, c, d] nonce rotE xorAll = true := by
  have hj : nonce &&& 63 ≤ 63 := and63_le _
  have ha : addW (nonce &&& 63) 1 = (nonce &&& 63) + 1 := by unfold addW; omega
  unfold Fns.siphash_block_ok
  simp only [block_size_eq, block_mask_eq, new_ok, Nat.sub_zero, Bool.true_and, ha,
    block_loop1_length, List.length_replicate]
  rw [block_loop1_ok _ _ 64 0 _ _ (by rw [List.length_replicate]; omega),
    block_loop2_ok _ _ _ _ (by rw [block_loop1_length, List.length_replicate]; split <;> omega)]
  simp only [Bool.and_true, Bool.true_and, decide_eq_true_eq]; omega

/-- `Nat` form -/
theorem siphash_block_eq_nat (a b c d n rotE : Nat) (xorAll : Bool) (ha : a < 2^64) (hb : b < 2^64)
    (hc : c < 2^64) (hd : d < 2^64) (hn : n < 2^64) :
    Fns.siphash_block [a, b, c, d] n rotE xorAll
      = (siphashBlock ⟨a.toUInt64, b.toUInt64, c.toUInt64, d.toUInt64⟩ n.toUInt64 rotE.toUInt64
          xorAll).toNat := by
  have h := siphash_block_eq ⟨a.toUInt64, b.toUInt64, c.toUInt64, d.toUInt64⟩ n.toUInt64 rotE xorAll
  simp only [toNat_toUInt64_of_lt ha, toNat_toUInt64_of_lt hb, toNat_toUInt64_of_lt hc,
    toNat_toUInt64_of_lt hd, toNat_toUInt64_of_lt hn] at h
  exact h

/-- the Rust unit-test vectors (`hash_block`) -/
example : Fns.siphash_block [1, 2, 3, 4] 10 21 false = 1182162244994096396 := by decide +kernel
example : (siphashBlock ⟨1, 2, 3, 4⟩ 10 21 false).toNat = 1182162244994096396 := by
  rw [show (21 : UInt64) = (21 : Nat).toUInt64 from rfl, ← siphash_block_eq]; decide +kernel
example : Fns.siphash_block_ok [1, 2, 3, 4] 10 21 false = true := siphash_block_ok 1 2 3 4 10 21 false
/-- both branches of `xor_from` and the last slot of a block are exercised -/
example : Fns.siphash_block [1, 2, 3, 4] 63 21 false = Fns.siphash_block [1, 2, 3, 4] 63 21 true
    ∧ Fns.siphash_block [1, 2, 3, 4] 10 21 true ≠ Fns.siphash_block [1, 2, 3, 4] 10 21 false := by
  decide +kernel

end GV.Props.XlatePow
