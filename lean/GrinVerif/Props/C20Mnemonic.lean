import GrinVerif.Lemmas.KeysMnemonic
import GrinVerif.Gen.Wordlist
/-! # C20 — BIP39: the bit packing of `keychain/src/mnemonic.rs` and the regenerated word list

Model: `Model/KeysMnemonic.lean` (`fromEntropy`, `toEntropy`; the checksum hash is a parameter);
lemmas: `Lemmas/KeysMnemonic.lean`.  Theorems, for EVERY entropy of 16 / 20 / 24 / 28 / 32 bytes and
every hash function: the words decode back to the entropy (`entropy_roundtrip`); `to_entropy` accepts
exactly when the checksum bits are the hash's (`toEntropy_ok_iff`), so a mnemonic whose checksum
bits were changed is refused with `BadChecksum` (`wrong_checksum_refused`).  Obligations on the
GENERATED word list (`Gen/Wordlist.lean`, from `wordlists/en.txt` on every run): 2048 words,
strictly increasing (what `search`'s `binary_search` needs to find every word), the two size tables
of the source are the model's. -/
namespace GV.Props.C20
open GV GV.Mnemonic List

/-! ## obligations on the regenerated word list -/
open GV.Gen.Wordlist in
def strictlyInc : List String → Bool
  | [] => true
  | [_] => true
  | a :: b :: r => decide (a < b) && strictlyInc (b :: r)

open GV.Gen.Wordlist in
set_option maxRecDepth 100000 in
/-- 16 lists of 128 = 2048 words (11 bits per word) -/
theorem wordlist_has_2048_words : chunks.map List.length = List.replicate 16 128 := by decide

section
open GV.Gen.Wordlist
set_option maxRecDepth 100000 in
theorem wordlist_chunk_0_sorted : strictlyInc (chunks.getD 0 []) = true := by decide
set_option maxRecDepth 100000 in
theorem wordlist_chunk_1_sorted : strictlyInc (chunks.getD 1 []) = true := by decide
set_option maxRecDepth 100000 in
theorem wordlist_chunk_2_sorted : strictlyInc (chunks.getD 2 []) = true := by decide
set_option maxRecDepth 100000 in
theorem wordlist_chunk_3_sorted : strictlyInc (chunks.getD 3 []) = true := by decide
set_option maxRecDepth 100000 in
theorem wordlist_chunk_4_sorted : strictlyInc (chunks.getD 4 []) = true := by decide
set_option maxRecDepth 100000 in
theorem wordlist_chunk_5_sorted : strictlyInc (chunks.getD 5 []) = true := by decide
set_option maxRecDepth 100000 in
theorem wordlist_chunk_6_sorted : strictlyInc (chunks.getD 6 []) = true := by decide
set_option maxRecDepth 100000 in
theorem wordlist_chunk_7_sorted : strictlyInc (chunks.getD 7 []) = true := by decide
set_option maxRecDepth 100000 in
theorem wordlist_chunk_8_sorted : strictlyInc (chunks.getD 8 []) = true := by decide
set_option maxRecDepth 100000 in
theorem wordlist_chunk_9_sorted : strictlyInc (chunks.getD 9 []) = true := by decide
set_option maxRecDepth 100000 in
theorem wordlist_chunk_10_sorted : strictlyInc (chunks.getD 10 []) = true := by decide
set_option maxRecDepth 100000 in
theorem wordlist_chunk_11_sorted : strictlyInc (chunks.getD 11 []) = true := by decide
set_option maxRecDepth 100000 in
theorem wordlist_chunk_12_sorted : strictlyInc (chunks.getD 12 []) = true := by decide
set_option maxRecDepth 100000 in
theorem wordlist_chunk_13_sorted : strictlyInc (chunks.getD 13 []) = true := by decide
set_option maxRecDepth 100000 in
theorem wordlist_chunk_14_sorted : strictlyInc (chunks.getD 14 []) = true := by decide
set_option maxRecDepth 100000 in
theorem wordlist_chunk_15_sorted : strictlyInc (chunks.getD 15 []) = true := by decide

set_option maxRecDepth 100000 in
/-- … and across the cut points: last word of a list < first word of the next -/
theorem wordlist_boundaries_sorted :
    (List.range 15).all (fun k => decide (((chunks.getD k []).getLast?.getD "") < ((chunks.getD (k + 1) []).head?.getD ""))) = true := by
  decide

/-- the size tables read from `to_entropy` / `from_entropy` are the model's -/
theorem size_tables_are_the_models : wordCountsSrc = wordCounts ∧ entropySizesSrc = entropySizes := by
  decide
end

/-! ## the packing -/

/-- bytes -/
def IsBytes (e : Bytes) : Prop := ∀ b ∈ e, b < 256

/-- the arithmetic of the five sizes: `L` bytes, `cs = L/4` checksum bits, `n` words -/
theorem size_facts (L : Nat) (h : L ∈ entropySizes) :
    let cs := L / 4
    let n := (L * 8 + cs) / 11
    8 * L + cs = 11 * n ∧ n / 3 = cs ∧ cs ≤ 8 ∧ n ∈ wordCounts ∧ (11 * n - cs) / 8 = L ∧ 11 * n - cs = 8 * L := by
  simp only [entropySizes, mem_cons, mem_nil_iff, or_false] at h
  rcases h with rfl | rfl | rfl | rfl | rfl <;> decide

/-- the bit string behind the indexes `from_entropy` produces is entropy ++ checksum bits -/
theorem packed_bits (e : Bytes) (cbits : List Bool) (n : Nat) (h : (e.flatMap (bitsOf 8) ++ cbits).length = 11 * n) :
    ((chunksN 11 n (e.flatMap (bitsOf 8) ++ cbits)).map ofBits).flatMap (bitsOf 11) = e.flatMap (bitsOf 8) ++ cbits := by
  have hl := chunksN_lengths 11 n _ h
  rw [flatMap_def, map_map]
  have : map (bitsOf 11 ∘ ofBits) (chunksN 11 n (e.flatMap (bitsOf 8) ++ cbits)) =
      map id (chunksN 11 n (e.flatMap (bitsOf 8) ++ cbits)) := by
    apply map_congr_left
    intro c hc
    have := bitsOf_ofBits c
    rw [hl c hc] at this
    exact this
  rw [this, map_id, chunksN_flatten 11 n _ h]

theorem entropy_bits_length (e : Bytes) : (e.flatMap (bitsOf 8)).length = 8 * e.length := by
  induction e with
  | nil => rfl
  | cons a t ih => simp [flatMap_cons, bitsOf_length, ih]; omega

theorem bytes_back (e : Bytes) (hb : IsBytes e) :
    (chunksN 8 e.length (e.flatMap (bitsOf 8))).map ofBits = e := by
  have := chunksN_flatMap 8 (bitsOf 8) e [] (fun x _ => bitsOf_length 8 x)
  rw [append_nil] at this
  rw [this, map_map]
  have : ∀ x ∈ e, (ofBits ∘ bitsOf 8) x = id x := fun x hx => ofBits_bitsOf 8 x (hb x hx)
  rw [map_congr_left this, map_id]

/-- every index `from_entropy` produces is below 2048 -/
theorem fromEntropy_indexes_lt (h0 : Bytes → Nat) (e : Bytes) (idx : List Nat) (h : fromEntropy h0 e = .ok idx) :
    ∀ i ∈ idx, i < 2048 := by
  unfold fromEntropy at h
  simp only at h
  split at h
  · cases h
  · rename_i hs
    have hs' : e.length ∈ entropySizes := by simpa using hs
    obtain ⟨f1, _, f3, _, _, _⟩ := size_facts e.length hs'
    have e1 := Except.ok.inj h
    subst e1
    intro i hi
    obtain ⟨c, hc, rfl⟩ := mem_map.1 hi
    have hlen : (e.flatMap (bitsOf 8) ++ take (e.length / 4) (bitsOf 8 (h0 e))).length = 11 * ((e.length * 8 + e.length / 4) / 11) := by
      rw [length_append, entropy_bits_length, length_take, bitsOf_length, Nat.min_eq_left f3]; exact f1
    have := chunksN_lengths 11 _ _ hlen c hc
    have hl := ofBits_lt c
    rw [this] at hl
    exact hl

/-- **entropy → words → entropy**: for every entropy of 16 / 20 / 24 / 28 / 32 bytes (any byte
values) and every checksum hash, `to_entropy` of the indexes `from_entropy` produces is the entropy. -/
theorem entropy_roundtrip (h0 : Bytes → Nat) (e : Bytes) (hs : e.length ∈ entropySizes) (hb : IsBytes e) :
    ∃ idx, fromEntropy h0 e = .ok idx ∧ idx.length = (e.length * 8 + e.length / 4) / 11 ∧ toEntropy h0 idx = .ok e := by
  obtain ⟨f1, f2, f3, f4, f5, f6⟩ := size_facts e.length hs
  have hfrom : fromEntropy h0 e = .ok ((chunksN 11 ((e.length * 8 + e.length / 4) / 11)
      (e.flatMap (bitsOf 8) ++ (bitsOf 8 (h0 e)).take (e.length / 4))).map ofBits) := by
    unfold fromEntropy; simp [hs]
  refine ⟨_, hfrom, by rw [length_map, chunksN_length], ?_⟩
  have hlt := fromEntropy_indexes_lt h0 e _ hfrom
  generalize hn : (e.length * 8 + e.length / 4) / 11 = n at *
  generalize hcs : e.length / 4 = cs at *
  have hclen : ((bitsOf 8 (h0 e)).take cs).length = cs := by
    rw [length_take, bitsOf_length, Nat.min_eq_left f3]
  have hlen : (e.flatMap (bitsOf 8) ++ (bitsOf 8 (h0 e)).take cs).length = 11 * n := by
    rw [length_append, entropy_bits_length, hclen]; exact f1
  have hbits := packed_bits e ((bitsOf 8 (h0 e)).take cs) n hlen
  unfold toEntropy
  simp only [length_map, chunksN_length]
  have hw : wordCounts.contains n = true := by simpa using f4
  have hany : (map ofBits (chunksN 11 n (e.flatMap (bitsOf 8) ++ take cs (bitsOf 8 (h0 e))))).any (fun i => decide (2048 ≤ i)) = false := by
    rw [any_eq_false]
    intro i hi
    have := hlt i hi
    simp; omega
  simp only [hw, hany, f2, hbits, f6, f5, Bool.not_true, Bool.false_eq_true, if_false, not_true_eq_false]
  have hel : (e.flatMap (bitsOf 8)).length = 8 * e.length := entropy_bits_length e
  have h8 : 8 * e.length / 8 = e.length := Nat.mul_div_cancel_left _ (by decide)
  rw [take_left' hel, drop_left' hel, h8, bytes_back e hb]
  simp

/-- **`to_entropy` accepts exactly when the checksum bits are the hash's**: for a list of the right
length whose words are all in the list, the answer is the data part when the last `n/3` bits equal
the first `n/3` bits of the hash byte of the data part, and `BadChecksum(given, computed)` otherwise. -/
theorem toEntropy_ok_iff (h0 : Bytes → Nat) (idx : List Nat) (hn : idx.length ∈ wordCounts)
    (hw : ∀ i ∈ idx, i < 2048) :
    let n := idx.length
    let bits := idx.flatMap (bitsOf 11)
    let data := (chunksN 8 ((11 * n - n / 3) / 8) (bits.take (11 * n - n / 3))).map ofBits
    let given := ofBits (bits.drop (11 * n - n / 3))
    let actual := ofBits ((bitsOf 8 (h0 data)).take (n / 3))
    toEntropy h0 idx = if actual = given then .ok data else .error (.badChecksum given actual) := by
  have hc : wordCounts.contains idx.length = true := by simpa using hn
  have hany : idx.any (fun i => decide (2048 ≤ i)) = false := by
    rw [any_eq_false]; intro i hi; have := hw i hi; simp; omega
  unfold toEntropy
  simp only [hc, hany, Bool.not_true, Bool.false_eq_true, if_false]
  split <;> simp_all

/-- the arithmetic of the five word counts -/
theorem word_facts (n : Nat) (h : n ∈ wordCounts) :
    let cs := n / 3
    let L := (11 * n - cs) / 8
    11 * n - cs = 8 * L ∧ L ∈ entropySizes ∧ L / 4 = cs ∧ (L * 8 + cs) / 11 = n ∧ cs ≤ 8 ∧ 8 * L + cs = 11 * n := by
  simp only [wordCounts, mem_cons, mem_nil_iff, or_false] at h
  rcases h with rfl | rfl | rfl | rfl | rfl <;> decide

theorem flatMap_bits11_length (idx : List Nat) : (idx.flatMap (bitsOf 11)).length = 11 * idx.length := by
  induction idx with
  | nil => rfl
  | cons a t ih => simp [flatMap_cons, bitsOf_length, ih]; omega

/-- bit lists of the same length with the same value are equal -/
theorem ofBits_inj {a b : List Bool} (hl : a.length = b.length) (h : ofBits a = ofBits b) : a = b := by
  rw [← bitsOf_ofBits a, ← bitsOf_ofBits b, hl, h]

/-- **words → entropy → words**: whenever `to_entropy` accepts a word list (right length, every word
in the list, checksum right), `from_entropy` of the answer gives exactly these words back — so the
two functions are inverse bijections between the entropies of the five lengths and the accepted
mnemonics (with `entropy_roundtrip`). -/
theorem words_roundtrip (h0 : Bytes → Nat) (idx : List Nat) (e : Bytes) (hw : ∀ i ∈ idx, i < 2048)
    (h : toEntropy h0 idx = .ok e) : fromEntropy h0 e = .ok idx := by
  have hn : idx.length ∈ wordCounts := by
    by_cases c : idx.length ∈ wordCounts
    · exact c
    · exfalso; unfold toEntropy at h; simp [c] at h
  have hiff := toEntropy_ok_iff h0 idx hn hw
  simp only at hiff
  rw [hiff] at h
  obtain ⟨f1, f2, f3, f4, f5, f6⟩ := word_facts idx.length hn
  generalize hcs : idx.length / 3 = cs at *
  generalize hL : (11 * idx.length - cs) / 8 = L at *
  have hbl := flatMap_bits11_length idx
  generalize hb : idx.flatMap (bitsOf 11) = bits at *
  split at h
  · rename_i hck
    have he := Except.ok.inj h
    -- the data part
    have htl : (bits.take (11 * idx.length - cs)).length = 8 * L := by
      rw [length_take, hbl, f1]; omega
    have hel : e.length = L := by rw [← he, length_map, chunksN_length]
    have hflat : e.flatMap (bitsOf 8) = bits.take (11 * idx.length - cs) := by
      rw [← he, flatMap_def, map_map]
      have hl8 := chunksN_lengths 8 L _ htl
      have : map (bitsOf 8 ∘ ofBits) (chunksN 8 L (bits.take (11 * idx.length - cs))) =
          map id (chunksN 8 L (bits.take (11 * idx.length - cs))) := by
        apply map_congr_left
        intro c hc
        have := bitsOf_ofBits c
        rw [hl8 c hc] at this
        exact this
      rw [this, map_id, chunksN_flatten 8 L _ htl]
    -- the checksum part
    have hdl : (bits.drop (11 * idx.length - cs)).length = cs := by
      rw [length_drop, hbl]; omega
    have hcl : ((bitsOf 8 (h0 e)).take cs).length = cs := by
      rw [length_take, bitsOf_length, Nat.min_eq_left f5]
    have hcs' : (bitsOf 8 (h0 e)).take cs = bits.drop (11 * idx.length - cs) := by
      apply ofBits_inj (by rw [hcl, hdl])
      rw [← he]; exact hck
    -- put together
    have hsz : entropySizes.contains e.length = true := by rw [hel]; simpa using f2
    unfold fromEntropy
    simp only [hsz, Bool.not_true, Bool.false_eq_true, if_false, not_true_eq_false]
    rw [hel, f3, hflat, hcs', take_append_drop, f4]
    have hmap := chunksN_flatMap 11 (bitsOf 11) idx [] (fun x _ => bitsOf_length 11 x)
    rw [append_nil, hb] at hmap
    rw [hmap, map_map]
    have : ∀ x ∈ idx, (ofBits ∘ bitsOf 11) x = id x := fun x hx => ofBits_bitsOf 11 x (by have := hw x hx; omega)
    rw [map_congr_left this, map_id]
  · cases h

/-- **a wrong checksum is refused**: … in particular, whenever the checksum bits differ from the
hash's, the answer is `BadChecksum` — never an entropy. -/
theorem wrong_checksum_refused (h0 : Bytes → Nat) (idx : List Nat) (hn : idx.length ∈ wordCounts)
    (hw : ∀ i ∈ idx, i < 2048)
    (hbad : ofBits ((bitsOf 8 (h0 ((chunksN 8 ((11 * idx.length - idx.length / 3) / 8)
        ((idx.flatMap (bitsOf 11)).take (11 * idx.length - idx.length / 3))).map ofBits))).take (idx.length / 3)) ≠
      ofBits ((idx.flatMap (bitsOf 11)).drop (11 * idx.length - idx.length / 3))) :
    ∃ g a, toEntropy h0 idx = .error (.badChecksum g a) ∧ g ≠ a := by
  have := toEntropy_ok_iff h0 idx hn hw
  simp only at this
  rw [this, if_neg hbad]
  exact ⟨_, _, rfl, fun h => hbad h.symm⟩

/-- a wrong number of words / an unknown word, in the order of the code -/
theorem toEntropy_refusals (h0 : Bytes → Nat) (idx : List Nat) :
    (idx.length ∉ wordCounts → toEntropy h0 idx = .error (.invalidLength idx.length)) ∧
    (idx.length ∈ wordCounts → (∃ i ∈ idx, 2048 ≤ i) → toEntropy h0 idx = .error .badWord) := by
  constructor
  · intro h
    unfold toEntropy; simp [h]
  · intro h ⟨i, hi, h2⟩
    have : ∃ x, x ∈ idx ∧ 2048 ≤ x := ⟨i, hi, h2⟩
    unfold toEntropy; simp [h, this]

/-- non-vacuity (checksum hash constantly 0): 16 zero bytes are twelve times the word 0, and back;
with the last index changed to 1 (a checksum bit set) the mnemonic is refused -/
example : (match fromEntropy (fun _ => 0) (List.replicate 16 0) with | .ok l => decide (l = List.replicate 12 0) | _ => false) = true := by decide
example : (match toEntropy (fun _ => 0) (List.replicate 12 0) with | .ok l => decide (l = List.replicate 16 0) | _ => false) = true := by decide
example : (match toEntropy (fun _ => 0) (List.replicate 11 0 ++ [1]) with | .error e => decide (e = .badChecksum 1 0) | _ => false) = true := by decide

end GV.Props.C20
