import GrinVerif.Model.ChainKnown
/-! The verdict on a block does not depend on the processing options, except that `SKIP_POW` skips
the proof-of-work stage (`Model/ChainKnown.lean` `processBlockSingleO`). On the real code the run
`hist` offers every per-stage invalid block to a node that has its parent under every union of
`SKIP_POW` with `SYNC` / `MINE` (compared line by line) and without `SKIP_POW` (must be refused). -/
namespace GV.Props.C06Opts
open GV GV.Chain

/-- **`SYNC` and `MINE` never change the verdict**: options that agree on `SKIP_POW` give the same
node, result and notification -/
theorem verdict_independent_of_sync_mine (p : Params) (deny : List Nat) (o o' : Opts) (n : Node) (b : Blk)
    (h : o.skipPow = o'.skipPow) :
    processBlockSingleO p deny o n b = processBlockSingleO p deny o' n b := by
  unfold processBlockSingleO Blk.withOpts
  rw [h]

/-- **without a proof-of-work fault no option matters at all** -/
theorem verdict_independent_of_opts (p : Params) (deny : List Nat) (o o' : Opts) (n : Node) (b : Blk)
    (hp : ∀ t ∈ b.tags, isPowTag t = false) :
    processBlockSingleO p deny o n b = processBlockSingleO p deny o' n b := by
  have hkeep : b.tags.filter (fun t => !isPowTag t) = b.tags := by
    apply List.filter_eq_self.mpr
    intro t ht; simp [hp t ht]
  have hnone : b.tags.filter isPowTag = [] := by
    apply List.filter_eq_nil_iff.mpr
    intro t ht; simp [hp t ht]
  have : ∀ x : Opts, b.withOpts x = b := by
    intro x
    unfold Blk.withOpts
    split
    · rw [hkeep]
    · rw [hkeep, hnone]; rfl
  unfold processBlockSingleO
  rw [this o, this o']

/-- ... and then it is the coded step of every other theorem -/
theorem processBlockSingleO_eq_K (p : Params) (deny : List Nat) (o : Opts) (n : Node) (b : Blk)
    (hp : ∀ t ∈ b.tags, isPowTag t = false) :
    processBlockSingleO p deny o n b = processBlockSingleK p deny n b := by
  have := verdict_independent_of_opts p deny o { skipPow := true } n b hp
  rw [this]
  unfold processBlockSingleO Blk.withOpts
  have hkeep : b.tags.filter (fun t => !isPowTag t) = b.tags := by
    apply List.filter_eq_self.mpr
    intro t ht; simp [hp t ht]
  simp only [if_true, hkeep]

/-- the seven option words and their three bits -/
example : (Opts.ofBits 5 = { skipPow := true, sync := false, mine := true }) ∧
    (Opts.ofBits 6 = { skipPow := false, sync := true, mine := true }) := by decide

end GV.Props.C06Opts
