import GrinVerif.Lemmas.ChainBasic
import GrinVerif.Lemmas.ChainExampleFacts
import GrinVerif.Lemmas.ChainApply
import GrinVerif.Lemmas.ChainImplRefine
/-! # C02 — every input spends an existing unspent output exactly once, on every fork

Two layers. `Model/Chain.lean` *defines* the unspent set of a block by replay of its own path from
genesis (first two theorems). `Model/ChainImpl.lean` is the implementation-shaped incremental
txhashset (output leaves, leaf set, `output_pos` index, per-block spent index; `apply_block`,
`rewind_single_block`, `rewind_and_apply_fork`); the remaining theorems show that moving this one
txhashset along the block tree — apply, rewind, fork switch, re-created commitments included —
always yields the replay's unspent set. Definitions used in statements: `TxHS.RInv`
(`Lemmas/ChainImplBasic.lean`), `BlockApplied` (`Lemmas/ChainImplBlock.lean`), `TxHS.Equiv`
(`Lemmas/ChainImplRewind.lean`), `withPrevSizes` (`Lemmas/ChainImplFork.lean`), `Blk.Sane`
(`Lemmas/ChainValue.lean`). -/
namespace GV.Props.C02
open GV GV.Chain

/-- A block is accepted (stored) only if every input names an output that is unspent in the
state replayed through the block's own ancestors, and no created output duplicates a commitment
unspent there. -/
theorem accept_requires_unspent (p : Params) (n : Node) (b : Blk)
    (h : ∀ e, (processBlockSingle p n b).2 ≠ .err e) :
    ∃ n1 par sPar, processHeader p n b = .ok n1 ∧ b.parent = some par ∧
      n1.stateAt p par = .ok sPar ∧
      (∀ i ∈ b.ins, sPar.has i = true) ∧ (∀ o ∈ b.outs, sPar.has o.1 = false) := by
  rcases processBlockSingle_cases p n b with ⟨e, he, _, _⟩ | ⟨n1, par, s', h1, h2, h3, _⟩
  · exact absurd he (h e)
  · have hpar : b.parent = some par := by
      unfold precheck at h2
      repeat' split at h2
      all_goals first | (simp at h2) | skip
      all_goals (subst h2; assumption)
    unfold checkBlock at h3
    split at h3
    · simp at h3
    · rename_i sPar hst
      split at h3
      · simp at h3
      · have := applyBlock_ok p sPar s' b h3
        exact ⟨n1, par, sPar, h1, hpar, hst, this.1, this.2.1⟩

/-- Applying a block removes exactly its inputs from the unspent set and adds exactly its
outputs: a spent output does not reappear unless a later output re-creates the commitment, and an
unspent output that is not an input does not vanish. -/
theorem apply_spends_exactly (p : Params) (s s' : UState) (b : Blk) (h : applyBlock p s b = .ok s')
    (o : Nat) :
    s'.has o = ((s.has o && !b.ins.contains o) || b.outs.any (·.1 == o)) := by
  have he := (applyBlock_ok p s s' b h).2.2.2.2
  subst he
  exact effects_has s b o

-- non-vacuity: spending o1 and creating o2 in a state holding o1
example : applyBlock {} { utxo := [(1, 0, false)] }
    { id := 1, parent := some 0, h := 1, work := 2, ver := 1, ts := 1, ins := [1], outs := [(2, false)], kers := [.plain 1], tags := [] }
    = .ok { utxo := [(2, 1, false)], nrd := [], height := 1 } := by
  simp [applyBlock, stateChecks, immature, dupOutput, nrdBad, hasTag, effects, UState.has, UState.find]


/-! ## the incremental txhashset -/

open TxHS in
/-- **`rewind_single_block` undoes `apply_block`.** Under the representation invariant (index and
leaf set describe the same unspent leaves), for a block that does not spend its own outputs:
rewinding the block just applied — to the previous header's output size — gives back the same
leaves, the same set of unspent positions, the same `output_pos` lookups and therefore the same
answer of `get_unspent` for every commitment. The re-save of `output_pos` for un-spent positions
is what restores the entries of the block's inputs (re-created commitments included). -/
theorem rewind_apply_inverse (S S' : TxHS) (b : Blk) (hi : RInv S)
    (hct : cutThroughViolation b = false) (hr : applyBlockImpl S b = .ok S') :
    (rewindSingleBlock S' b S.leaves.length).Equiv S ∧
    ∀ c, (rewindSingleBlock S' b S.leaves.length).getUnspent c = S.getUnspent c := by
  obtain ⟨sp, A⟩ := applyBlockImpl_ok hi hct hr
  have he := rewind_apply_equiv hi A
  exact ⟨he, he.getUnspent⟩

open TxHS in
/-- **The incremental txhashset refines the replay** (`utxo_eq_replay` for the implementation-shaped
model). For every path `g :: bs` that `replay` accepts (bodies duplicate-free and without
cut-through, as `Block::validate` enforces): folding `applyBlockImpl` from the empty txhashset
succeeds, keeps the representation invariant, and the commitments `get_unspent` reports are
exactly the unspent set of the replayed state — spent outputs never reappear, unspent ones never
vanish, a re-created commitment is unspent again at its new position. -/
theorem impl_refines_replay (p : Params) (g : Blk) (bs : List Blk) (s : UState)
    (hgi : g.ins = []) (hgo : (g.outs.map (·.1)).Nodup)
    (hb : ∀ b ∈ bs, b.Sane ∧ cutThroughViolation b = false)
    (hr : replay p (genesisState g) bs = .ok s) :
    ∃ S, applyBlocks {} (g :: bs) = .ok S ∧ RInv S ∧
      (∀ c, (S.getUnspent c).isSome = s.has c) ∧ (∀ c, c ∈ S.reported ↔ c ∈ s.utxo.map (·.1)) := by
  obtain ⟨S0, h0, hi0, ha0⟩ := impl_genesis g hgi hgo
  obtain ⟨S, hS, hi, ha⟩ := impl_replay p bs hi0 ha0 hb hr
  refine ⟨S, by simp only [applyBlocks, h0, hS], hi, ?_, ?_⟩
  · intro c; rw [hi.getUnspent_eq]; exact ha c
  · intro c; rw [reported_iff hi, ha c, has_iff_mem]

open TxHS in
/-- … in particular for every path whose blocks pass body validation (`validateBody = none`, which
computes duplicate-freeness and the cut-through rule): the hypotheses `Blk.Sane` and
`cutThroughViolation = false` above are discharged by `Block::validate`. -/
theorem impl_refines_replay_validated (p : Params) (outs : List OutDef) (g : Blk) (bs : List Blk)
    (s : UState) (hgi : g.ins = []) (hgo : (g.outs.map (·.1)).Nodup)
    (hb : ∀ b ∈ bs, ∃ iv, validateBody p outs b iv = none)
    (hr : replay p (genesisState g) bs = .ok s) :
    ∃ S, applyBlocks {} (g :: bs) = .ok S ∧ RInv S ∧
      (∀ c, (S.getUnspent c).isSome = s.has c) ∧ (∀ c, c ∈ S.reported ↔ c ∈ s.utxo.map (·.1)) :=
  impl_refines_replay p g bs s hgi hgo (fun b h => by
    obtain ⟨iv, hv⟩ := hb b h
    exact ⟨sane_of_validateBody p outs b iv hv, (validateBody_none p outs b iv hv).1⟩) hr

open TxHS in
/-- **Fork switch.** `P` = txhashset at the fork point (invariant holds), `d` = the branch being
left, `u` = the branch being joined, both applicable from `P`. From the tip of `d`, rewinding
block by block (tip first, each to its previous header's output size) and then applying `u` gives
a txhashset observably equal to the one of `u`'s own path — `get_unspent` answers alike for every
commitment. So validation "against the fork being extended" really sees that fork's state. -/
theorem fork_switch (P S T : TxHS) (d u : List Blk) (hi : RInv P)
    (hctd : ∀ b ∈ d, cutThroughViolation b = false) (hctu : ∀ b ∈ u, cutThroughViolation b = false)
    (hnd : (d.map (·.id)).Nodup)
    (hd : applyBlocks P d = .ok S) (hu : applyBlocks P u = .ok T) :
    ∃ T', rewindAndApplyFork S (withPrevSizes P.leaves.length d).reverse u = .ok T' ∧
      T'.Equiv T ∧ ∀ c, T'.getUnspent c = T.getUnspent c := by
  obtain ⟨T', h, he⟩ := fork_switch_equiv d u hi hctd hctu hnd hd hu (Equiv.refl S) (fun _ _ => rfl)
  exact ⟨T', h, he, he.getUnspent⟩

open TxHS in
/-- … in terms of the replay: after a fork switch from any branch to the path `g :: pre ++ u`, the
txhashset reports exactly the unspent set of `replay` along `g :: pre ++ u`. -/
theorem fork_switch_refines_replay (p : Params) (g : Blk) (pre d u : List Blk) (s : UState) (S : TxHS)
    (hgi : g.ins = []) (hgo : (g.outs.map (·.1)).Nodup)
    (hbp : ∀ b ∈ pre, b.Sane ∧ cutThroughViolation b = false)
    (hbu : ∀ b ∈ u, b.Sane ∧ cutThroughViolation b = false)
    (hctd : ∀ b ∈ d, cutThroughViolation b = false) (hnd : (d.map (·.id)).Nodup)
    (hd : applyBlocks {} (g :: pre ++ d) = .ok S)
    (hr : replay p (genesisState g) (pre ++ u) = .ok s) :
    ∃ P T', applyBlocks {} (g :: pre) = .ok P ∧
      rewindAndApplyFork S (withPrevSizes P.leaves.length d).reverse u = .ok T' ∧
      ∀ c, (T'.getUnspent c).isSome = s.has c := by
  have hb : ∀ b ∈ pre ++ u, b.Sane ∧ cutThroughViolation b = false := by
    intro b hb
    rcases List.mem_append.mp hb with h | h
    · exact hbp b h
    · exact hbu b h
  obtain ⟨T, hT, hiT, haT, _⟩ := impl_refines_replay p g (pre ++ u) s hgi hgo hb hr
  rw [show g :: (pre ++ u) = (g :: pre) ++ u from rfl, applyBlocks_append] at hT
  rw [show g :: pre ++ d = (g :: pre) ++ d from rfl, applyBlocks_append] at hd
  cases hP : applyBlocks {} (g :: pre) with
  | error e => rw [hP] at hT; cases hT
  | ok P =>
    rw [hP] at hT hd
    simp only at hT hd
    have hctg : cutThroughViolation g = false := by
      apply (cutThrough_false_iff g).mpr; intro c hc; rw [hgi] at hc; cases hc
    have hiP : RInv P := (applyBlocks_ok (g :: pre) RInv.empty (by
      intro b hb
      rcases List.mem_cons.mp hb with h | h
      · exact h ▸ hctg
      · exact (hbp b h).2) hP).1
    obtain ⟨T', h, _, hu'⟩ := fork_switch P S T d u hiP hctd (fun b hb => (hbu b hb).2) hnd hd hT
    exact ⟨P, T', rfl, h, fun c => by rw [hu' c]; exact haT c⟩

open TxHS in
/-- … and `switchTo` — the function the correspondence driver runs next to the real node on every
head change (`Drv/ChainD.lean`), given the two root-first paths — *is* that fork switch: from the
txhashset of path `g :: pre ++ d` to path `g :: pre ++ u` (diverging after `pre`) it ends in a
txhashset that reports exactly the unspent set of `replay` along the new path. -/
theorem switchTo_refines_replay (p : Params) (g : Blk) (pre d u : List Blk) (s : UState) (S : TxHS)
    (hgi : g.ins = []) (hgo : (g.outs.map (·.1)).Nodup)
    (hbp : ∀ b ∈ pre, b.Sane ∧ cutThroughViolation b = false)
    (hbu : ∀ b ∈ u, b.Sane ∧ cutThroughViolation b = false)
    (hctd : ∀ b ∈ d, cutThroughViolation b = false) (hnd : (d.map (·.id)).Nodup)
    (hdiff : ∀ x y, d.head? = some x → u.head? = some y → x.id ≠ y.id)
    (hd : applyBlocks {} (g :: pre ++ d) = .ok S)
    (hr : replay p (genesisState g) (pre ++ u) = .ok s) :
    ∃ T', switchTo S (g :: pre ++ d) (g :: pre ++ u) = .ok T' ∧
      ∀ c, (T'.getUnspent c).isSome = s.has c := by
  obtain ⟨P, T', hP, hsw, hun⟩ :=
    fork_switch_refines_replay p g pre d u s S hgi hgo hbp hbu hctd hnd hd hr
  have hctg : cutThroughViolation g = false := by
    apply (cutThrough_false_iff g).mpr; intro c hc; rw [hgi] at hc; cases hc
  have hct : ∀ b ∈ g :: pre, cutThroughViolation b = false := by
    intro b hb
    rcases List.mem_cons.mp hb with h | h
    · exact h ▸ hctg
    · exact (hbp b h).2
  refine ⟨T', ?_, hun⟩
  rw [show g :: pre ++ d = (g :: pre) ++ d from rfl, show g :: pre ++ u = (g :: pre) ++ u from rfl,
    switchTo_eq S (g :: pre) d u hct hP hdiff]
  exact hsw

open TxHS in
/-- **After every applied block the last output leaf is unspent** (the hypothesis of the C15
bitmap-accumulator theorem): a block cannot spend its own outputs (`cutThroughViolation`) and has
at least one output. -/
theorem last_leaf_unspent (S S' : TxHS) (b : Blk) (hi : RInv S)
    (hct : cutThroughViolation b = false) (hne : b.outs ≠ [])
    (hr : applyBlockImpl S b = .ok S') : S'.leaves.length - 1 ∈ S'.leafSet := by
  obtain ⟨sp, A⟩ := applyBlockImpl_ok hi hct hr
  exact last_leaf_unspent_of A hne

/-- … and a block whose body passes validation has an output whenever the subsidy is positive. -/
theorem valid_body_has_output (p : Params) (outs : List OutDef) (b : Blk) (iv : Nat)
    (h : validateBody p outs b iv = none) (hpos : 0 < p.reward) : b.outs ≠ [] :=
  outs_ne_nil_of_coinbase p outs b (validateBody_none p outs b iv h).2.2.2.1 (by omega)

/-! ## non-vacuity: the hypotheses hold on the concrete tree of `Lemmas/ChainExamples.lean`
(0 ── 1 ── 3 ── 4, sibling 2 of 1, invalid child 9 of 1; 3 spends the genesis output 100 and
4 re-creates that commitment) -/
section Examples
open GV.Chain.Ex TxHS

-- the path 0,1,3,4: block 3 spends the genesis output 100, block 4 re-creates commitment 100
example : ∃ S, applyBlocks {} [G, B1, B3, B4] = .ok S ∧
    S.leaves = [100, 101, 103, 104, 105, 100] ∧ S.getUnspent 100 = some ⟨5, 3⟩ ∧
    S.getUnspent 104 = none ∧ S.reported = [100, 105, 103, 101] := ⟨_, rfl, by decide⟩

-- `impl_refines_replay`: hypotheses hold on that path
example : ∃ S, applyBlocks {} (G :: [B1, B3, B4]) = .ok S ∧ RInv S ∧
    (∀ c, (S.getUnspent c).isSome = UState.has
      { utxo := [(101, 1, true), (103, 2, true), (105, 3, true), (100, 3, false)], nrd := [], height := 3 } c) ∧
    (∀ c, c ∈ S.reported ↔ c ∈ [101, 103, 105, 100]) :=
  impl_refines_replay P G [B1, B3, B4] _ rfl (by decide)
    (by
      intro b hb
      simp only [List.mem_cons, List.not_mem_nil, or_false] at hb
      rcases hb with rfl | rfl | rfl <;> exact ⟨⟨by decide, by decide⟩, by decide⟩)
    (rfl : replay P (genesisState G) [B1, B3, B4] = .ok
      { utxo := [(101, 1, true), (103, 2, true), (105, 3, true), (100, 3, false)], nrd := [], height := 3 })

-- `rewind_apply_inverse` with a re-created commitment: rewinding 4 and then 3 un-spends the
-- *old* instance of 100 at position 0 (the re-save of `output_pos`)
example : ∃ S3 S4, applyBlocks {} [G, B1, B3] = .ok S3 ∧ applyBlockImpl S3 B4 = .ok S4 ∧
    (rewindSingleBlock S4 B4 S3.leaves.length).getUnspent 100 = none ∧
    (rewindSingleBlock S4 B4 S3.leaves.length).getUnspent 104 = some ⟨3, 2⟩ ∧
    (rewindSingleBlock (rewindSingleBlock S4 B4 4) B3 2).getUnspent 100 = some ⟨0, 0⟩ :=
  ⟨_, _, rfl, rfl, by decide⟩

-- `fork_switch`: from the tip of 0,1,3,4 to the sibling branch 0,2
example : ∃ P0 S T, applyBlocks {} [G] = .ok P0 ∧ applyBlocks P0 [B1, B3, B4] = .ok S ∧
    applyBlocks P0 [B2] = .ok T ∧
    ∃ T', rewindAndApplyFork S (withPrevSizes P0.leaves.length [B1, B3, B4]).reverse [B2] = .ok T' ∧
      T'.reported = T.reported ∧ T'.reported = [102, 100] := ⟨_, _, _, rfl, rfl, rfl, _, rfl, by decide⟩

end Examples
end GV.Props.C02
