import GrinVerif.Lemmas.ChainBasic
import GrinVerif.Lemmas.ChainApply
/-! # C02 — every input spends an existing unspent output exactly once, on every fork -/
namespace GV.Props.C02
open GV GV.Chain

/-- A block is accepted (stored) only if every input names an output that is unspent in the
state replayed through the block's own ancestors, and no created output duplicates a commitment
unspent there. -/
theorem accept_requires_unspent (p : Params) (n : Node) (b : Blk)
    (h : ∀ e, (processBlockSingle p n b).2 ≠ .err e) :
    ∃ n1 par sPar, processHeader p n b = .ok n1 ∧ b.parent = some par ∧
      n1.stateAt p par = .ok sPar ∧
      (∀ i ∈ b.ins, sPar.has i = true) ∧ (∀ o ∈ b.outs, sPar.has o.1 = false) := by
  rcases processBlockSingle_cases p n b with ⟨e, he, _, _⟩ | ⟨n1, par, s', h1, h2, h3, _⟩
  · exact absurd he (h e)
  · have hpar : b.parent = some par := by
      unfold precheck at h2
      repeat' split at h2
      all_goals first | (simp at h2) | skip
      all_goals (subst h2; assumption)
    unfold checkBlock at h3
    split at h3
    · simp at h3
    · rename_i sPar hst
      split at h3
      · simp at h3
      · have := applyBlock_ok p sPar s' b h3
        exact ⟨n1, par, sPar, h1, hpar, hst, this.1, this.2.1⟩

/-- Applying a block removes exactly its inputs from the unspent set and adds exactly its
outputs: a spent output does not reappear unless a later output re-creates the commitment, and an
unspent output that is not an input does not vanish. -/
theorem apply_spends_exactly (p : Params) (s s' : UState) (b : Blk) (h : applyBlock p s b = .ok s')
    (o : Nat) :
    s'.has o = ((s.has o && !b.ins.contains o) || b.outs.any (·.1 == o)) := by
  have he := (applyBlock_ok p s s' b h).2.2.2.2
  subst he
  simp only [UState.has, effects, List.any_append, List.any_filter, List.any_map]
  congr 1
  · induction s.utxo with
    | nil => simp
    | cons u us ih =>
      simp only [List.any_cons, ih]
      by_cases hu : u.1 = o
      · subst hu; simp
      · have : (u.1 == o) = false := by simpa using hu
        simp [this]

-- non-vacuity: spending o1 and creating o2 in a state holding o1
example : applyBlock {} { utxo := [(1, 0, false)] }
    { id := 1, parent := some 0, h := 1, work := 2, ver := 1, ts := 1, ins := [1], outs := [(2, false)], kers := [.plain 1], tags := [] }
    = .ok { utxo := [(2, 1, false)], nrd := [], height := 1 } := by
  simp [applyBlock, stateChecks, immature, dupOutput, nrdBad, hasTag, effects, UState.has, UState.find]

end GV.Props.C02
