import GrinVerif.Lemmas.ChainBasic
import GrinVerif.Lemmas.ChainExampleFacts
import GrinVerif.Lemmas.ChainApply
import GrinVerif.Lemmas.ChainImplRefine
import GrinVerif.Lemmas.ChainMoreReject
import GrinVerif.Lemmas.ChainMoreExamples
/-! # C02 — every input spends an existing unspent output exactly once, on every fork

Two layers. `Model/Chain.lean` *defines* the unspent set of a block by replay of its own path from
genesis (first two theorems). `Model/ChainImpl.lean` is the implementation-shaped incremental
txhashset (output leaves, leaf set, `output_pos` index, per-block spent index; `apply_block`,
`rewind_single_block`, `rewind_and_apply_fork`); the remaining theorems show that moving this one
txhashset along the block tree — apply, rewind, fork switch, re-created commitments included —
always yields the replay's unspent set. Definitions used in statements: `TxHS.RInv`
(`Lemmas/ChainImplBasic.lean`), `BlockApplied` (`Lemmas/ChainImplBlock.lean`), `TxHS.Equiv`
(`Lemmas/ChainImplRewind.lean`), `withPrevSizes` (`Lemmas/ChainImplFork.lean`), `Blk.Sane`
(`Lemmas/ChainValue.lean`). -/
namespace GV.Props.C02
open GV GV.Chain

/-- A block is accepted (stored) only if every input names an output that is unspent in the
state replayed through the block's own ancestors, and no created output duplicates a commitment
unspent there. -/
theorem accept_requires_unspent (p : Params) (n : Node) (b : Blk)
    (h : ∀ e, (processBlockSingle p n b).2 ≠ .err e) :
    ∃ n1 par sPar, processHeader p n b = .ok n1 ∧ b.parent = some par ∧
      n1.stateAt p par = .ok sPar ∧
      (∀ i ∈ b.ins, sPar.has i = true) ∧ (∀ o ∈ b.outs, sPar.has o.1 = false) := by
  rcases processBlockSingle_cases p n b with ⟨e, he, _, _⟩ | ⟨n1, par, s', h1, h2, h3, _⟩
  · exact absurd he (h e)
  · have hpar : b.parent = some par := by
      unfold precheck at h2
      repeat' split at h2
      all_goals first | (simp at h2) | skip
      all_goals (subst h2; assumption)
    unfold checkBlock at h3
    split at h3
    · simp at h3
    · rename_i sPar hst
      split at h3
      · simp at h3
      · have := applyBlock_ok p sPar s' b h3
        exact ⟨n1, par, sPar, h1, hpar, hst, this.1, this.2.1⟩

/-- Applying a block removes exactly its inputs from the unspent set and adds exactly its
outputs: a spent output does not reappear unless a later output re-creates the commitment, and an
unspent output that is not an input does not vanish. -/
theorem apply_spends_exactly (p : Params) (s s' : UState) (b : Blk) (h : applyBlock p s b = .ok s')
    (o : Nat) :
    s'.has o = ((s.has o && !b.ins.contains o) || b.outs.any (·.1 == o)) := by
  have he := (applyBlock_ok p s s' b h).2.2.2.2
  subst he
  exact effects_has s b o

-- non-vacuity: spending o1 and creating o2 in a state holding o1
example : applyBlock {} { utxo := [(1, 0, false)] }
    { id := 1, parent := some 0, h := 1, work := 2, ver := 1, ts := 1, ins := [1], outs := [(2, false)], kers := [.plain 1], tags := [] }
    = .ok { utxo := [(2, 1, false)], nrd := [], height := 1 } := by
  simp [applyBlock, stateChecks, immature, dupOutput, nrdBad, hasTag, effects, UState.has, UState.find]


/-! ## the incremental txhashset -/

open TxHS in
/-- **`rewind_single_block` undoes `apply_block`.** Under the representation invariant (index and
leaf set describe the same unspent leaves), for a block that does not spend its own outputs:
rewinding the block just applied — to the previous header's output size — gives back the same
leaves, the same set of unspent positions, the same `output_pos` lookups and therefore the same
answer of `get_unspent` for every commitment. The re-save of `output_pos` for un-spent positions
is what restores the entries of the block's inputs (re-created commitments included). -/
theorem rewind_apply_inverse (S S' : TxHS) (b : Blk) (hi : RInv S)
    (hct : cutThroughViolation b = false) (hr : applyBlockImpl S b = .ok S') :
    (rewindSingleBlock S' b S.leaves.length).Equiv S ∧
    ∀ c, (rewindSingleBlock S' b S.leaves.length).getUnspent c = S.getUnspent c := by
  obtain ⟨sp, A⟩ := applyBlockImpl_ok hi hct hr
  have he := rewind_apply_equiv hi A
  exact ⟨he, he.getUnspent⟩

open TxHS in
/-- **The incremental txhashset refines the replay** (`utxo_eq_replay` for the implementation-shaped
model). For every path `g :: bs` that `replay` accepts (bodies duplicate-free and without
cut-through, as `Block::validate` enforces): folding `applyBlockImpl` from the empty txhashset
succeeds, keeps the representation invariant, and the commitments `get_unspent` reports are
exactly the unspent set of the replayed state — spent outputs never reappear, unspent ones never
vanish, a re-created commitment is unspent again at its new position. -/
theorem impl_refines_replay (p : Params) (g : Blk) (bs : List Blk) (s : UState)
    (hgi : g.ins = []) (hgo : (g.outs.map (·.1)).Nodup)
    (hb : ∀ b ∈ bs, b.Sane ∧ cutThroughViolation b = false)
    (hr : replay p (genesisState g) bs = .ok s) :
    ∃ S, applyBlocks {} (g :: bs) = .ok S ∧ RInv S ∧
      (∀ c, (S.getUnspent c).isSome = s.has c) ∧ (∀ c, c ∈ S.reported ↔ c ∈ s.utxo.map (·.1)) := by
  obtain ⟨S0, h0, hi0, ha0⟩ := impl_genesis g hgi hgo
  obtain ⟨S, hS, hi, ha⟩ := impl_replay p bs hi0 ha0 hb hr
  refine ⟨S, by simp only [applyBlocks, h0, hS], hi, ?_, ?_⟩
  · intro c; rw [hi.getUnspent_eq]; exact ha c
  · intro c; rw [reported_iff hi, ha c, has_iff_mem]

open TxHS in
/-- … in particular for every path whose blocks pass body validation (`validateBody = none`, which
computes duplicate-freeness and the cut-through rule): the hypotheses `Blk.Sane` and
`cutThroughViolation = false` above are discharged by `Block::validate`. -/
theorem impl_refines_replay_validated (p : Params) (outs : List OutDef) (g : Blk) (bs : List Blk)
    (s : UState) (hgi : g.ins = []) (hgo : (g.outs.map (·.1)).Nodup)
    (hb : ∀ b ∈ bs, ∃ iv, validateBody p outs b iv = none)
    (hr : replay p (genesisState g) bs = .ok s) :
    ∃ S, applyBlocks {} (g :: bs) = .ok S ∧ RInv S ∧
      (∀ c, (S.getUnspent c).isSome = s.has c) ∧ (∀ c, c ∈ S.reported ↔ c ∈ s.utxo.map (·.1)) :=
  impl_refines_replay p g bs s hgi hgo (fun b h => by
    obtain ⟨iv, hv⟩ := hb b h
    exact ⟨sane_of_validateBody p outs b iv hv, (validateBody_none p outs b iv hv).1⟩) hr

open TxHS in
/-- **Fork switch.** `P` = txhashset at the fork point (invariant holds), `d` = the branch being
left, `u` = the branch being joined, both applicable from `P`. From the tip of `d`, rewinding
block by block (tip first, each to its previous header's output size) and then applying `u` gives
a txhashset observably equal to the one of `u`'s own path — `get_unspent` answers alike for every
commitment. So validation "against the fork being extended" really sees that fork's state. -/
theorem fork_switch (P S T : TxHS) (d u : List Blk) (hi : RInv P)
    (hctd : ∀ b ∈ d, cutThroughViolation b = false) (hctu : ∀ b ∈ u, cutThroughViolation b = false)
    (hnd : (d.map (·.id)).Nodup)
    (hd : applyBlocks P d = .ok S) (hu : applyBlocks P u = .ok T) :
    ∃ T', rewindAndApplyFork S (withPrevSizes P.leaves.length d).reverse u = .ok T' ∧
      T'.Equiv T ∧ ∀ c, T'.getUnspent c = T.getUnspent c := by
  obtain ⟨T', h, he⟩ := fork_switch_equiv d u hi hctd hctu hnd hd hu (Equiv.refl S) (fun _ _ => rfl)
  exact ⟨T', h, he, he.getUnspent⟩

open TxHS in
/-- … in terms of the replay: after a fork switch from any branch to the path `g :: pre ++ u`, the
txhashset reports exactly the unspent set of `replay` along `g :: pre ++ u`. -/
theorem fork_switch_refines_replay (p : Params) (g : Blk) (pre d u : List Blk) (s : UState) (S : TxHS)
    (hgi : g.ins = []) (hgo : (g.outs.map (·.1)).Nodup)
    (hbp : ∀ b ∈ pre, b.Sane ∧ cutThroughViolation b = false)
    (hbu : ∀ b ∈ u, b.Sane ∧ cutThroughViolation b = false)
    (hctd : ∀ b ∈ d, cutThroughViolation b = false) (hnd : (d.map (·.id)).Nodup)
    (hd : applyBlocks {} (g :: pre ++ d) = .ok S)
    (hr : replay p (genesisState g) (pre ++ u) = .ok s) :
    ∃ P T', applyBlocks {} (g :: pre) = .ok P ∧
      rewindAndApplyFork S (withPrevSizes P.leaves.length d).reverse u = .ok T' ∧
      ∀ c, (T'.getUnspent c).isSome = s.has c := by
  have hb : ∀ b ∈ pre ++ u, b.Sane ∧ cutThroughViolation b = false := by
    intro b hb
    rcases List.mem_append.mp hb with h | h
    · exact hbp b h
    · exact hbu b h
  obtain ⟨T, hT, hiT, haT, _⟩ := impl_refines_replay p g (pre ++ u) s hgi hgo hb hr
  rw [show g :: (pre ++ u) = (g :: pre) ++ u from rfl, applyBlocks_append] at hT
  rw [show g :: pre ++ d = (g :: pre) ++ d from rfl, applyBlocks_append] at hd
  cases hP : applyBlocks {} (g :: pre) with
  | error e => rw [hP] at hT; cases hT
  | ok P =>
    rw [hP] at hT hd
    simp only at hT hd
    have hctg : cutThroughViolation g = false := by
      apply (cutThrough_false_iff g).mpr; intro c hc; rw [hgi] at hc; cases hc
    have hiP : RInv P := (applyBlocks_ok (g :: pre) RInv.empty (by
      intro b hb
      rcases List.mem_cons.mp hb with h | h
      · exact h ▸ hctg
      · exact (hbp b h).2) hP).1
    obtain ⟨T', h, _, hu'⟩ := fork_switch P S T d u hiP hctd (fun b hb => (hbu b hb).2) hnd hd hT
    exact ⟨P, T', rfl, h, fun c => by rw [hu' c]; exact haT c⟩

open TxHS in
/-- … and `switchTo` — the function the correspondence driver runs next to the real node on every
head change (`Drv/ChainD.lean`), given the two root-first paths — *is* that fork switch: from the
txhashset of path `g :: pre ++ d` to path `g :: pre ++ u` (diverging after `pre`) it ends in a
txhashset that reports exactly the unspent set of `replay` along the new path. -/
theorem switchTo_refines_replay (p : Params) (g : Blk) (pre d u : List Blk) (s : UState) (S : TxHS)
    (hgi : g.ins = []) (hgo : (g.outs.map (·.1)).Nodup)
    (hbp : ∀ b ∈ pre, b.Sane ∧ cutThroughViolation b = false)
    (hbu : ∀ b ∈ u, b.Sane ∧ cutThroughViolation b = false)
    (hctd : ∀ b ∈ d, cutThroughViolation b = false) (hnd : (d.map (·.id)).Nodup)
    (hdiff : ∀ x y, d.head? = some x → u.head? = some y → x.id ≠ y.id)
    (hd : applyBlocks {} (g :: pre ++ d) = .ok S)
    (hr : replay p (genesisState g) (pre ++ u) = .ok s) :
    ∃ T', switchTo S (g :: pre ++ d) (g :: pre ++ u) = .ok T' ∧
      ∀ c, (T'.getUnspent c).isSome = s.has c := by
  obtain ⟨P, T', hP, hsw, hun⟩ :=
    fork_switch_refines_replay p g pre d u s S hgi hgo hbp hbu hctd hnd hd hr
  have hctg : cutThroughViolation g = false := by
    apply (cutThrough_false_iff g).mpr; intro c hc; rw [hgi] at hc; cases hc
  have hct : ∀ b ∈ g :: pre, cutThroughViolation b = false := by
    intro b hb
    rcases List.mem_cons.mp hb with h | h
    · exact h ▸ hctg
    · exact (hbp b h).2
  refine ⟨T', ?_, hun⟩
  rw [show g :: pre ++ d = (g :: pre) ++ d from rfl, show g :: pre ++ u = (g :: pre) ++ u from rfl,
    switchTo_eq S (g :: pre) d u hct hP hdiff]
  exact hsw

open TxHS in
/-- **After every applied block the last output leaf is unspent** (the hypothesis of the C15
bitmap-accumulator theorem): a block cannot spend its own outputs (`cutThroughViolation`) and has
at least one output. -/
theorem last_leaf_unspent (S S' : TxHS) (b : Blk) (hi : RInv S)
    (hct : cutThroughViolation b = false) (hne : b.outs ≠ [])
    (hr : applyBlockImpl S b = .ok S') : S'.leaves.length - 1 ∈ S'.leafSet := by
  obtain ⟨sp, A⟩ := applyBlockImpl_ok hi hct hr
  exact last_leaf_unspent_of A hne

/-- … and a block whose body passes validation has an output whenever the subsidy is positive. -/
theorem valid_body_has_output (p : Params) (outs : List OutDef) (b : Blk) (iv : Nat)
    (h : validateBody p outs b iv = none) (hpos : 0 < p.reward) : b.outs ≠ [] :=
  outs_ne_nil_of_coinbase p outs b (validateBody_none p outs b iv h).2.2.2.1 (by omega)

/-! ## delivery histories (`deliverBlock` = `Chain::process_block`, `run` = any finite history)

`Refused p n b` (`Lemmas/ChainMoreReject.lean`): the delivery of `b` to `n` returns an error and
head, stored blocks and the reported unspent set are what they were. `HeadPath`, `IsPath`
(`Lemmas/ChainMorePath.lean`): the explicit path of a block that is valid on its own path. -/

/-- **Every accepted block, on every fork, at all times.** After any delivery history from a fresh
node (forks, reorganisations in both directions, orphans connected later, duplicates, refused
blocks), every stored block other than the genesis has pairwise distinct inputs and pairwise
distinct outputs, does not spend its own outputs, and — against the replayed state `sPar` of *its
own* parent, the fork it extends — every input is unspent and no output duplicates an unspent
commitment. -/
theorem stored_blocks_spend_unspent (p : Params) (n : Node) (es : List Event) (hf : Fresh n)
    (hreg : Registered n es) (b : Blk) (hb : n.blk b.id = some b) (h0 : b.id ≠ 0)
    (hs : b.id ∈ (run p n es).stored) :
    ∃ par sPar, b.parent = some par ∧ par ∈ (run p n es).stored ∧ n.stateAt p par = .ok sPar ∧
      b.ins.Nodup ∧ (b.outs.map (·.1)).Nodup ∧ cutThroughViolation b = false ∧
      (∀ i ∈ b.ins, sPar.has i = true) ∧ (∀ o ∈ b.outs, sPar.has o.1 = false) := by
  have hi := run_preserved (preserved_inv p) n es hreg (hf.inv p)
  have hdf := run_defs p n es
  have hv : VOP p n b.id := (VOP_congr hdf.2 hdf.1 p b.id).mp (hi.2.valid b.id hs)
  obtain ⟨par, s', hpar, _, _, hc⟩ := hv.inv hb h0
  obtain ⟨sPar, hst, hvb, hab⟩ := checkBlock_ok p n b par s' hc
  obtain ⟨h1, h2, _⟩ := applyBlock_ok p sPar s' b hab
  obtain ⟨n1, n2⟩ := validateBody_none_nodup p n.outs b _ hvb
  exact ⟨par, sPar, hpar,
    hi.2.closed.parent b.id hs b par (by rw [blk_congr hdf.1]; exact hb) hpar, hst, n1, n2,
    (validateBody_none p n.outs b _ hvb).1, h1, h2⟩

/-- **The reported unspent set is the replay of the winning chain** (`utxo_eq_replay` over
histories). After any delivery history from a fresh node whose genesis outputs are distinct: the
path of the head exists, `replay` accepts it, and the set the node reports as unspent is exactly
the unspent set of that replay, each commitment once — whatever was applied and rewound on the way. -/
theorem reported_is_replay_of_head_path (p : Params) (n : Node) (es : List Event) (hf : Fresh n)
    (hreg : Registered n es) (g : Blk) (hg : n.blk 0 = some g) (hgo : (g.outs.map (·.1)).Nodup) :
    ∃ rest s, (run p n es).path (run p n es).head = some (g :: rest) ∧
      replay p (genesisState g) rest = .ok s ∧
      (run p n es).reportedUtxo p = s.utxo.map (·.1) ∧ ((run p n es).reportedUtxo p).Nodup ∧
      ∀ c, c ∈ (run p n es).reportedUtxo p ↔ s.has c = true := by
  obtain ⟨rest, s, H, hst⟩ := head_path_after_run p n es hf hreg g hg
  have hrep : (run p n es).reportedUtxo p = s.utxo.map (·.1) := by
    unfold Node.reportedUtxo; rw [hst]
  have hnd0 : ((genesisState g).utxo.map (·.1)).Nodup := by
    simp only [genesisState, List.map_map]; exact hgo
  have hnd := (replay_value p n.outs rest _ s hnd0 H.replay (fun b h =>
    ⟨sane_of_validateBody p n.outs b _ (H.valid b h).1,
     (validateBody_none p n.outs b _ (H.valid b h).1).2.2.2.2⟩)).2
  refine ⟨rest, s, by rw [path_congr (run_defs p n es).1]; exact H.path, H.replay, hrep,
    hrep ▸ hnd, ?_⟩
  intro c
  rw [hrep, has_iff_mem]

open TxHS in
/-- … and the incremental txhashset folded along the head's path (`Model/ChainImpl.lean`, what
the node keeps and what the driver runs next to it) reports that same set. -/
theorem reported_is_impl_of_head_path (p : Params) (n : Node) (es : List Event) (hf : Fresh n)
    (hreg : Registered n es) (g : Blk) (hg : n.blk 0 = some g) (hgi : g.ins = [])
    (hgo : (g.outs.map (·.1)).Nodup) :
    ∃ rest S, (run p n es).path (run p n es).head = some (g :: rest) ∧
      applyBlocks {} (g :: rest) = .ok S ∧ RInv S ∧
      ∀ c, c ∈ S.reported ↔ c ∈ (run p n es).reportedUtxo p := by
  obtain ⟨rest, s, H, hst⟩ := head_path_after_run p n es hf hreg g hg
  obtain ⟨S, hS, hi, _, hrep⟩ := impl_refines_replay_validated p n.outs g rest s hgi hgo
    (fun b hb => ⟨_, (H.valid b hb).1⟩) H.replay
  refine ⟨rest, S, by rw [path_congr (run_defs p n es).1]; exact H.path, hS, hi, ?_⟩
  intro c
  rw [hrep c]
  unfold Node.reportedUtxo
  rw [hst]

/-- **Double spend within a block**: a block that names the same output twice among its inputs (or
creates the same commitment twice) is refused by every node in every state. -/
theorem double_spend_in_block_refused (p : Params) (n : Node) (b : Blk)
    (h : ¬ b.ins.Nodup ∨ ¬ (b.outs.map (·.1)).Nodup) : Refused p n b := by
  apply refused_of_body_fault
  intro hv
  obtain ⟨h1, h2⟩ := validateBody_none_nodup p n.outs b _ hv
  rcases h with h | h
  · exact h h1
  · exact h h2

/-- **Spend of an output that is not unspent in the state of the block's own parent** — for
whatever reason — is refused. -/
theorem spend_of_missing_output_refused (p : Params) (n : Node) (b : Blk) (par : Nat) (sPar : UState)
    (hpar : b.parent = some par) (hst : n.stateAt p par = .ok sPar) (i : Nat) (hi : i ∈ b.ins)
    (hm : sPar.has i = false) : Refused p n b := by
  apply refused_of_state_fault
  intro par' sPar' hpar' hst' hn
  rw [hpar] at hpar'
  cases hpar'
  rw [hst] at hst'
  cases hst'
  have := ((stateChecks_none_iff p sPar b).mp hn).1
  have := List.all_eq_true.mp this i hi
  rw [hm] at this; cases this

/-- **Double spend across blocks on the same path.** `par` is valid on its own path `g :: rest`
(every stored block is), some block `a` of that path spends `i` and no later block of the path
re-creates the commitment: a child of `par` spending `i` again is refused — by any node over this
block tree, in any state, after any history. -/
theorem double_spend_across_blocks_refused (p : Params) (n N : Node) (hbl : N.blks = n.blks)
    (g : Blk) (par : Nat) (rest : List Blk) (sPar : UState) (H : HeadPath p n g par rest sPar)
    (pre post : List Blk) (a : Blk) (hsplit : rest = pre ++ a :: post) (i : Nat) (ha : i ∈ a.ins)
    (hpost : ∀ c ∈ post, i ∉ c.outs.map (·.1)) (b : Blk) (hpar : b.parent = some par)
    (hi : i ∈ b.ins) : Refused p N b := by
  have hct : cutThroughViolation a = false :=
    (validateBody_none p n.outs a _ (H.valid a (by rw [hsplit]; simp)).1).1
  have hm : sPar.has i = false :=
    replay_has_of_spent p pre post a _ sPar i (hsplit ▸ H.replay) ha hct hpost
  exact spend_of_missing_output_refused p N b par sPar hpar
    (by rw [stateAt_congr hbl]; exact H.state) i hi hm

/-- **Spend of an output that exists only on another fork.** No block on the path of `par`
(genesis included) creates `i` — other registered or stored blocks may: a child of `par` spending
`i` is refused. -/
theorem fork_foreign_spend_refused (p : Params) (n N : Node) (hbl : N.blks = n.blks)
    (g : Blk) (par : Nat) (rest : List Blk) (sPar : UState) (H : HeadPath p n g par rest sPar)
    (i : Nat) (hg : i ∉ g.outs.map (·.1)) (hrest : ∀ c ∈ rest, i ∉ c.outs.map (·.1))
    (b : Blk) (hpar : b.parent = some par) (hi : i ∈ b.ins) : Refused p N b := by
  have h0 : (genesisState g).has i = false := by
    cases h : (genesisState g).has i with
    | false => rfl
    | true => exact absurd ((genesisState_has_iff g i).mp h) hg
  have hm : sPar.has i = false :=
    replay_has_of_never_created p rest _ sPar i H.replay h0 hrest
  exact spend_of_missing_output_refused p N b par sPar hpar
    (by rw [stateAt_congr hbl]; exact H.state) i hi hm

/-- **Duplicate of an unspent commitment** (coinbase or not): some block `c` of the path of `par`
created the commitment `o` and no later block of the path spent it: a child of `par` creating `o`
again is refused. -/
theorem duplicate_unspent_refused (p : Params) (n N : Node) (hbl : N.blks = n.blks)
    (g : Blk) (par : Nat) (rest : List Blk) (sPar : UState) (H : HeadPath p n g par rest sPar)
    (pre post : List Blk) (c : Blk) (hsplit : rest = pre ++ c :: post) (o : Nat)
    (hc : o ∈ c.outs.map (·.1)) (hpost : ∀ d ∈ post, o ∉ d.ins) (b : Blk)
    (hpar : b.parent = some par) (ho : o ∈ b.outs.map (·.1)) : Refused p N b := by
  have hm : sPar.has o = true :=
    replay_has_of_created p pre post c _ sPar o (hsplit ▸ H.replay) hc hpost
  apply refused_of_state_fault
  intro par' sPar' hpar' hst' hn
  rw [hpar] at hpar'
  cases hpar'
  rw [stateAt_congr hbl, H.state] at hst'
  cases hst'
  have hd := ((stateChecks_none_iff p sPar b).mp hn).2.2.1
  obtain ⟨x, hx, hxo⟩ := List.mem_map.mp ho
  have : dupOutput sPar b = true := List.any_eq_true.mpr ⟨x, hx, by rw [hxo]; exact hm⟩
  rw [this] at hd; cases hd

/-- … the same for a commitment still unspent since the genesis. -/
theorem duplicate_unspent_genesis_refused (p : Params) (n N : Node) (hbl : N.blks = n.blks)
    (g : Blk) (par : Nat) (rest : List Blk) (sPar : UState) (H : HeadPath p n g par rest sPar)
    (o : Nat) (hc : o ∈ g.outs.map (·.1)) (hrest : ∀ d ∈ rest, o ∉ d.ins) (b : Blk)
    (hpar : b.parent = some par) (ho : o ∈ b.outs.map (·.1)) : Refused p N b := by
  have hm : sPar.has o = true :=
    replay_has_of_unspent_since p rest _ sPar o H.replay ((genesisState_has_iff g o).mpr hc) hrest
  apply refused_of_state_fault
  intro par' sPar' hpar' hst' hn
  rw [hpar] at hpar'
  cases hpar'
  rw [stateAt_congr hbl, H.state] at hst'
  cases hst'
  have hd := ((stateChecks_none_iff p sPar b).mp hn).2.2.1
  obtain ⟨x, hx, hxo⟩ := List.mem_map.mp ho
  have : dupOutput sPar b = true := List.any_eq_true.mpr ⟨x, hx, by rw [hxo]; exact hm⟩
  rw [this] at hd; cases hd

/-- the path hypotheses of the four theorems above are available for every stored block after any
history -/
theorem stored_has_headPath (p : Params) (n : Node) (es : List Event) (hf : Fresh n)
    (hreg : Registered n es) (g : Blk) (hg : n.blk 0 = some g) (par : Nat)
    (hs : par ∈ (run p n es).stored) : ∃ rest sPar, HeadPath p n g par rest sPar := by
  have hi := run_preserved (preserved_inv p) n es hreg (hf.inv p)
  have hdf := run_defs p n es
  exact vop_headPath p n g hg (hf.genesis g hg)
    ((VOP_congr hdf.2 hdf.1 p par).mp (hi.2.valid par hs))

/-- **Re-spend after a reorganisation un-spends.** After any delivery history: if the commitment
`o` was created by a block `c` of the *current* head's path (or by the genesis) and no later block
of that path spends it, then `o` is in the reported unspent set and the input check of a new block
on the head passes for it — no matter which stored blocks outside the head's path (the branch that
was the best chain before and was rewound) spent it. -/
theorem unspent_again_after_reorg (p : Params) (n : Node) (es : List Event) (hf : Fresh n)
    (hreg : Registered n es) (g : Blk) (hg : n.blk 0 = some g) :
    ∃ rest s, (run p n es).path (run p n es).head = some (g :: rest) ∧
      (run p n es).stateAt p (run p n es).head = .ok s ∧
      (∀ o, o ∈ g.outs.map (·.1) → (∀ d ∈ rest, o ∉ d.ins) →
        s.has o = true ∧ o ∈ (run p n es).reportedUtxo p) ∧
      (∀ pre c post o, rest = pre ++ c :: post → o ∈ c.outs.map (·.1) → (∀ d ∈ post, o ∉ d.ins) →
        s.has o = true ∧ o ∈ (run p n es).reportedUtxo p) := by
  obtain ⟨rest, s, H, hst⟩ := head_path_after_run p n es hf hreg g hg
  have hrep : ∀ o, s.has o = true → o ∈ (run p n es).reportedUtxo p := by
    intro o ho
    unfold Node.reportedUtxo
    rw [hst]
    exact (has_iff_mem s o).mp ho
  refine ⟨rest, s, by rw [path_congr (run_defs p n es).1]; exact H.path, hst, ?_, ?_⟩
  · intro o ho hn
    have := replay_has_of_unspent_since p rest _ s o H.replay ((genesisState_has_iff g o).mpr ho) hn
    exact ⟨this, hrep o this⟩
  · intro pre c post o hsplit ho hn
    have := replay_has_of_created p pre post c _ s o (hsplit ▸ H.replay) ho hn
    exact ⟨this, hrep o this⟩

/-! ## non-vacuity: the hypotheses hold on the concrete tree of `Lemmas/ChainExamples.lean`
(0 ── 1 ── 3 ── 4, sibling 2 of 1, invalid child 9 of 1; 3 spends the genesis output 100 and
4 re-creates that commitment) -/
section Examples
open GV.Chain.Ex TxHS

-- the path 0,1,3,4: block 3 spends the genesis output 100, block 4 re-creates commitment 100
example : ∃ S, applyBlocks {} [G, B1, B3, B4] = .ok S ∧
    S.leaves = [100, 101, 103, 104, 105, 100] ∧ S.getUnspent 100 = some ⟨5, 3⟩ ∧
    S.getUnspent 104 = none ∧ S.reported = [100, 105, 103, 101] := ⟨_, rfl, by decide⟩

-- `impl_refines_replay`: hypotheses hold on that path
example : ∃ S, applyBlocks {} (G :: [B1, B3, B4]) = .ok S ∧ RInv S ∧
    (∀ c, (S.getUnspent c).isSome = UState.has
      { utxo := [(101, 1, true), (103, 2, true), (105, 3, true), (100, 3, false)], nrd := [], height := 3 } c) ∧
    (∀ c, c ∈ S.reported ↔ c ∈ [101, 103, 105, 100]) :=
  impl_refines_replay P G [B1, B3, B4] _ rfl (by decide)
    (by
      intro b hb
      simp only [List.mem_cons, List.not_mem_nil, or_false] at hb
      rcases hb with rfl | rfl | rfl <;> exact ⟨⟨by decide, by decide⟩, by decide⟩)
    (rfl : replay P (genesisState G) [B1, B3, B4] = .ok
      { utxo := [(101, 1, true), (103, 2, true), (105, 3, true), (100, 3, false)], nrd := [], height := 3 })

-- `rewind_apply_inverse` with a re-created commitment: rewinding 4 and then 3 un-spends the
-- *old* instance of 100 at position 0 (the re-save of `output_pos`)
example : ∃ S3 S4, applyBlocks {} [G, B1, B3] = .ok S3 ∧ applyBlockImpl S3 B4 = .ok S4 ∧
    (rewindSingleBlock S4 B4 S3.leaves.length).getUnspent 100 = none ∧
    (rewindSingleBlock S4 B4 S3.leaves.length).getUnspent 104 = some ⟨3, 2⟩ ∧
    (rewindSingleBlock (rewindSingleBlock S4 B4 4) B3 2).getUnspent 100 = some ⟨0, 0⟩ :=
  ⟨_, _, rfl, rfl, by decide⟩

-- `fork_switch`: from the tip of 0,1,3,4 to the sibling branch 0,2
example : ∃ P0 S T, applyBlocks {} [G] = .ok P0 ∧ applyBlocks P0 [B1, B3, B4] = .ok S ∧
    applyBlocks P0 [B2] = .ok T ∧
    ∃ T', rewindAndApplyFork S (withPrevSizes P0.leaves.length [B1, B3, B4]).reverse [B2] = .ok T' ∧
      T'.reported = T.reported ∧ T'.reported = [102, 100] := ⟨_, _, _, rfl, rfl, rfl, _, rfl, by decide⟩

end Examples

/-! ### the history-level theorems on the tree of `Lemmas/ChainMoreExamples.lean` (a1 spends the
genesis output 100 and becomes the head; b1 takes over — reorganisation — and 100 is unspent again) -/
section HistoryExamples
open GV.Chain.Ex2

-- after a1 the output 100 is spent; after the reorganisation to b1 it is reported unspent again,
-- although a1 (which spent it) is still stored
example : NA.reportedUtxo Ex2.P = [111, 112] ∧ NB.head = 11 ∧ 1 ∈ NB.stored ∧
    NB.reportedUtxo Ex2.P = [100, 121] := ⟨NA_head.2, NB_head.1, by decide, NB_head.2.2⟩

-- `unspent_again_after_reorg`: the hypotheses hold there; and the re-spend b2 is accepted
example : ∃ rest s, NB.path NB.head = some (Ex2.G :: rest) ∧ NB.stateAt Ex2.P NB.head = .ok s ∧
    (∀ o, o ∈ Ex2.G.outs.map (·.1) → (∀ d ∈ rest, o ∉ d.ins) →
      s.has o = true ∧ o ∈ NB.reportedUtxo Ex2.P) ∧
    (∀ pre c post o, rest = pre ++ c :: post → o ∈ c.outs.map (·.1) → (∀ d ∈ post, o ∉ d.ins) →
      s.has o = true ∧ o ∈ NB.reportedUtxo Ex2.P) :=
  unspent_again_after_reorg Ex2.P Ex2.N esReorg Ex2.fresh_N reg_reorg Ex2.G rfl
example : (deliverBlock Ex2.P NB Ex2.B2).2 = .okHead ∧
    (deliverBlock Ex2.P NB Ex2.B2).1.reportedUtxo Ex2.P = [121, 131, 132] := by decide

-- `double_spend_across_blocks_refused`: a2 spends 100 again on top of a1
example : Refused Ex2.P NA Ex2.A2 := by
  obtain ⟨rest, sPar, H⟩ := stored_has_headPath Ex2.P Ex2.N [.block Ex2.A1] Ex2.fresh_N reg_A1
    Ex2.G rfl 1 (by decide)
  have hr : rest = [Ex2.A1] := by
    have h1 := H.path
    have h2 : Ex2.N.path 1 = some [Ex2.G, Ex2.A1] := rfl
    rw [h2] at h1
    injection h1 with h1
    injection h1 with _ h1
    exact h1.symm
  exact double_spend_across_blocks_refused Ex2.P Ex2.N NA rfl Ex2.G 1 rest sPar H [] [] Ex2.A1
    (by rw [hr]; rfl) 100 (by decide) (by intro c hc; cases hc) Ex2.A2 rfl (by decide)
example : (deliverBlock Ex2.P NA Ex2.A2).2 = .err "AlreadySpent" := by decide

-- `double_spend_in_block_refused`: a3 names 112 twice
example : Refused Ex2.P NA Ex2.A3 := double_spend_in_block_refused Ex2.P NA Ex2.A3 (Or.inl (by decide))

-- `fork_foreign_spend_refused`: b3 (on b1) spends 112, created only by a1 on the other fork
example : Refused Ex2.P NB Ex2.B3 := by
  obtain ⟨rest, sPar, H⟩ := stored_has_headPath Ex2.P Ex2.N esReorg Ex2.fresh_N reg_reorg
    Ex2.G rfl 11 (by decide)
  have hr : rest = [Ex2.B1] := by
    have h1 := H.path
    have h2 : Ex2.N.path 11 = some [Ex2.G, Ex2.B1] := rfl
    rw [h2] at h1
    injection h1 with h1
    injection h1 with _ h1
    exact h1.symm
  exact fork_foreign_spend_refused Ex2.P Ex2.N NB rfl Ex2.G 11 rest sPar H 112 (by decide)
    (by rw [hr]; intro c hc; simp only [List.mem_cons, List.not_mem_nil, or_false] at hc
        subst hc; decide) Ex2.B3 rfl (by decide)

-- `duplicate_unspent_refused`: b4 re-creates the unspent coinbase commitment 121 of b1
example : Refused Ex2.P NB Ex2.B4 := by
  obtain ⟨rest, sPar, H⟩ := stored_has_headPath Ex2.P Ex2.N esReorg Ex2.fresh_N reg_reorg
    Ex2.G rfl 11 (by decide)
  have hr : rest = [Ex2.B1] := by
    have h1 := H.path
    have h2 : Ex2.N.path 11 = some [Ex2.G, Ex2.B1] := rfl
    rw [h2] at h1
    injection h1 with h1
    injection h1 with _ h1
    exact h1.symm
  exact duplicate_unspent_refused Ex2.P Ex2.N NB rfl Ex2.G 11 rest sPar H [] [] Ex2.B1
    (by rw [hr]; rfl) 121 (by decide) (by intro c hc; cases hc) Ex2.B4 rfl (by decide)
example : (deliverBlock Ex2.P NB Ex2.B4).2 = .err "DuplicateCommitment" := by decide

-- `stored_blocks_spend_unspent` / `reported_is_replay_of_head_path`: hypotheses hold
example : ∃ par sPar, Ex2.A1.parent = some par ∧ par ∈ NB.stored ∧ Ex2.N.stateAt Ex2.P par = .ok sPar ∧
    Ex2.A1.ins.Nodup ∧ (Ex2.A1.outs.map (·.1)).Nodup ∧ cutThroughViolation Ex2.A1 = false ∧
    (∀ i ∈ Ex2.A1.ins, sPar.has i = true) ∧ (∀ o ∈ Ex2.A1.outs, sPar.has o.1 = false) :=
  stored_blocks_spend_unspent Ex2.P Ex2.N esReorg Ex2.fresh_N reg_reorg Ex2.A1 rfl (by decide)
    (by decide)
example : ∃ rest s, NB.path NB.head = some (Ex2.G :: rest) ∧
    replay Ex2.P (genesisState Ex2.G) rest = .ok s ∧ NB.reportedUtxo Ex2.P = s.utxo.map (·.1) ∧
    (NB.reportedUtxo Ex2.P).Nodup ∧ ∀ c, c ∈ NB.reportedUtxo Ex2.P ↔ s.has c = true :=
  reported_is_replay_of_head_path Ex2.P Ex2.N esReorg Ex2.fresh_N reg_reorg Ex2.G rfl (by decide)

end HistoryExamples
end GV.Props.C02
