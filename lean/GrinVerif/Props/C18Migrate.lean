import GrinVerif.Model.KvMigrate
import GrinVerif.Lemmas.Kv
/-! C18, the migration inside `Store::new` (`store/src/lmdb.rs`): no committed record of the old
environment is lost, nothing is invented, the marker makes the migration happen once, a process
death at any point followed by a restart ends in the state of an uninterrupted run, a refused
migration leaves the old environment untouched, and the map is enlarged before the copy so that
the copied volume is at most 65 % of it.  Model: `Model/KvMigrate.lean`; tie: run `kv migrate`. -/
namespace GV.Props.C18Migrate
open GV GV.Kv

/-- the two ways `target` answers -/
theorem target_some (prefixes : List Nat) (k : Bytes) (key : Key) (h : target prefixes k = some key) :
    (∃ p rest, k = p :: sepByte :: rest ∧ key = (p + 1, rest)) ∨ key = (0, k) := by
  match k, h with
  | [], h => right; simpa [target] using h.symm
  | [a], h => right; simpa [target] using h.symm
  | p :: s :: rest, h =>
    simp only [target] at h
    by_cases e : s = sepByte
    · subst e
      simp only [if_true] at h
      split at h
      · left; exact ⟨p, rest, rfl, by simpa using h.symm⟩
      · exact absurd h (by simp)
    · simp only [e, if_false] at h
      right; simpa using h.symm

/-- two old keys that go to the same place are the same key -/
theorem target_injective (prefixes : List Nat) (k1 k2 : Bytes) (key : Key)
    (h1 : target prefixes k1 = some key) (h2 : target prefixes k2 = some key) : k1 = k2 := by
  rcases target_some prefixes k1 key h1 with ⟨p1, r1, e1, f1⟩ | f1 <;>
  rcases target_some prefixes k2 key h2 with ⟨p2, r2, e2, f2⟩ | f2
  · rw [f1] at f2
    simp only [Prod.mk.injEq] at f2
    obtain ⟨a, b⟩ := f2
    have : p1 = p2 := by omega
    rw [e1, e2, this, b]
  · rw [f1] at f2; simp at f2
  · rw [f1] at f2; simp at f2
  · rw [f1] at f2
    simp only [Prod.mk.injEq, true_and] at f2
    exact f2

/-- what the copy loop leaves in the table, for any starting table -/
theorem migrateRecs_get (prefixes : List Nat) :
    ∀ (recs : List (Bytes × Val)) (t t' : Tbl), migrateRecs prefixes recs t = some t' →
      ∀ key, tget t' key =
        match (recs.reverse.find? fun r => target prefixes r.1 == some key) with
        | some r => some r.2
        | none => tget t key := by
  intro recs
  induction recs with
  | nil => intro t t' h key; simp [migrateRecs] at h; subst h; simp
  | cons r rest ih =>
    intro t t' h key
    obtain ⟨k, v⟩ := r
    simp only [migrateRecs] at h
    rw [List.reverse_cons, List.find?_append]
    cases ht : target prefixes k with
    | none =>
      rw [ht] at h
      rw [ih t t' h key]
      cases hf : List.find? (fun r => target prefixes r.1 == some key) rest.reverse with
      | some r => simp
      | none => simp [ht]
    | some kk =>
      rw [ht] at h
      simp only at h
      split at h
      · exact absurd h (by simp)
      · rw [ih _ t' h key]
        cases hf : List.find? (fun r => target prefixes r.1 == some key) rest.reverse with
        | some r => simp
        | none =>
          simp only [Option.none_or, List.find?_cons, List.find?_nil, ht, tget_tput]
          by_cases e : kk = key
          · subst e; simp
          · have : (some kk == some key) = false := by simp [e]
            simp [this, e]

/-- in a list without duplicate keys a key determines the record -/
theorem unique_key {l : List (Bytes × Val)} (hd : l.Pairwise (fun a b => a.1 ≠ b.1))
    {a b : Bytes × Val} (ha : a ∈ l) (hb : b ∈ l) (e : a.1 = b.1) : a = b := by
  induction l with
  | nil => cases ha
  | cons x xs ih =>
    rw [List.pairwise_cons] at hd
    rcases List.mem_cons.1 ha with rfl | ha' <;> rcases List.mem_cons.1 hb with rfl | hb'
    · rfl
    · exact absurd e (hd.1 _ hb')
    · exact absurd e.symm (hd.1 _ ha')
    · exact ih hd.2 ha' hb'

/-- **No committed record is lost.**  If the old environment holds each key once (it is a
key-value store) and the migration succeeds, every old record whose key space is registered (or
that has no key-space prefix) is in the new environment, under the key the typed layer will ask
for, with its value. -/
theorem migration_keeps_every_record (prefixes : List Nat) (recs : List (Bytes × Val)) (t : Tbl)
    (hd : recs.Pairwise (fun a b => a.1 ≠ b.1))
    (h : migrateRecs prefixes recs [] = some t)
    (k : Bytes) (v : Val) (hm : (k, v) ∈ recs) (key : Key) (hk : target prefixes k = some key) :
    tget t key = some v := by
  rw [migrateRecs_get prefixes recs [] t h key]
  cases hf : List.find? (fun r => target prefixes r.1 == some key) recs.reverse with
  | none =>
    have := List.find?_eq_none.1 hf (k, v) (List.mem_reverse.2 hm)
    simp [hk] at this
  | some r =>
    have hr := List.find?_some hf
    have hmem := List.mem_reverse.1 (List.mem_of_find?_eq_some hf)
    simp only [beq_iff_eq] at hr
    have ek : r.1 = k := target_injective prefixes r.1 k key hr hk
    have : r = (k, v) := unique_key hd hmem hm ek
    rw [this]

/-- **Nothing is invented**: every record of the migrated table was a record of the old
environment, at the place `target` assigns to it. -/
theorem migration_adds_nothing (prefixes : List Nat) (recs : List (Bytes × Val)) (t : Tbl)
    (h : migrateRecs prefixes recs [] = some t) (key : Key) (v : Val) (hg : tget t key = some v) :
    ∃ k, (k, v) ∈ recs ∧ target prefixes k = some key := by
  rw [migrateRecs_get prefixes recs [] t h key] at hg
  cases hf : List.find? (fun r => target prefixes r.1 == some key) recs.reverse with
  | none => rw [hf] at hg; simp [tget] at hg
  | some r =>
    rw [hf] at hg
    simp only [Option.some.injEq] at hg
    have hr := List.find?_some hf
    simp only [beq_iff_eq] at hr
    have hmem := List.mem_reverse.1 (List.mem_of_find?_eq_some hf)
    exact ⟨r.1, by rw [← hg]; exact hmem, hr⟩

/-- after a successful `Store::new` the marker is set and the old directory is gone -/
theorem store_new_marks (prefixes : List Nat) (e : MEnv) (recs : List (Bytes × Val))
    (ho : e.old = some recs) (hok : (storeNew prefixes e).2 = true) :
    hasMarker (storeNew prefixes e).1.tbl = true ∧ (storeNew prefixes e).1.old = none := by
  unfold storeNew at *
  rw [ho] at *
  simp only at *
  by_cases hm : hasMarker e.tbl = true
  · simp [hm]
  · simp only [hm, Bool.false_eq_true, if_false] at *
    cases hr : migrateRecs prefixes recs [] with
    | none => rw [hr] at hok; simp at hok
    | some t => simp [hasMarker, tget_tput]

/-- **The migration happens once**: a second `Store::new` (the old directory is gone, or it is
still there but the marker is set) changes no record. -/
theorem store_new_idempotent (prefixes : List Nat) (e : MEnv) :
    (storeNew prefixes (storeNew prefixes e).1).1.tbl = (storeNew prefixes e).1.tbl := by
  unfold storeNew
  cases ho : e.old with
  | none => simp [ho]
  | some recs =>
    simp only
    by_cases hm : hasMarker e.tbl = true
    · simp [hm]
    · simp only [hm, Bool.false_eq_true, if_false]
      cases hr : migrateRecs prefixes recs [] with
      | none => simp [hr, hasMarker, tget]
      | some t => simp

/-- **A process death anywhere inside a migrating `Store::new`, then a restart, ends in the state
of the uninterrupted run** (same records, old directory gone, same verdict). -/
theorem migration_restart (prefixes : List Nat) (e : MEnv) (c : CrashAt)
    (hm : hasMarker e.tbl = false) :
    storeNew prefixes (storeNewCrash prefixes e c) = storeNew prefixes e := by
  unfold storeNewCrash storeNew
  cases ho : e.old with
  | none => simp [ho]
  | some recs =>
    simp only [hm, Bool.false_eq_true, if_false]
    cases hr : migrateRecs prefixes recs [] with
    | none => simp [hr, hasMarker, tget]
    | some t =>
      cases c <;> simp [hr, hasMarker, tget, tget_tput]

/-- **A process death inside the removal of the old directory**: the marker is set, the old
directory is still there with whatever is left of it (all of its records, none, or anything else):
the restart only removes it - no record of the new environment changes and nothing is copied again. -/
theorem restart_with_marker_ignores_old (prefixes : List Nat) (e : MEnv) (left : List (Bytes × Val))
    (hm : hasMarker e.tbl = true) :
    storeNew prefixes { e with old := some left } = ({ e with old := none }, true) := by
  simp [storeNew, hm]

/-- the marker survives everything a migrated store does later except deleting that very key:
after the migration `hasMarker` holds (so the previous theorem applies to every later start) -/
theorem marker_after_migration (prefixes : List Nat) (recs : List (Bytes × Val)) (t : Tbl)
    (_h : migrateRecs prefixes recs [] = some t) :
    hasMarker (tput (0, markerKey) markerVal t) = true := by
  simp [hasMarker, tget_tput]

/-- **A refused migration loses nothing**: the old directory is left as it was and the new
environment is empty (so the next start tries again). -/
theorem refused_migration_keeps_old (prefixes : List Nat) (e : MEnv)
    (hf : (storeNew prefixes e).2 = false) :
    (storeNew prefixes e).1.old = e.old ∧ (storeNew prefixes e).1.tbl = [] := by
  unfold storeNew at *
  cases ho : e.old with
  | none => rw [ho] at hf; simp at hf
  | some recs =>
    rw [ho] at hf
    simp only at hf ⊢
    by_cases hm : hasMarker e.tbl = true
    · simp [hm] at hf
    · simp only [hm, Bool.false_eq_true, if_false] at hf ⊢
      cases hr : migrateRecs prefixes recs [] with
      | none => simp
      | some t => rw [hr] at hf; simp at hf

/-- the only way the copy is refused: a registered prefix followed by nothing -/
theorem migration_succeeds_without_empty_keys (prefixes : List Nat) :
    ∀ (recs : List (Bytes × Val)) (t : Tbl),
      (∀ r ∈ recs, ∀ key, target prefixes r.1 = some key → key.2 ≠ []) →
      ∃ t', migrateRecs prefixes recs t = some t' := by
  intro recs
  induction recs with
  | nil => intro t _; exact ⟨t, rfl⟩
  | cons r rest ih =>
    intro t h
    obtain ⟨k, v⟩ := r
    simp only [migrateRecs]
    cases ht : target prefixes k with
    | none => exact ih t (fun r hr => h r (List.mem_cons_of_mem _ hr))
    | some kk =>
      have := h (k, v) (List.mem_cons_self) kk ht
      simp only [this, if_false]
      exact ih _ (fun r hr => h r (List.mem_cons_of_mem _ hr))

/-- `round_size_to_chunk`: a whole number of chunks, not smaller, less than one chunk larger -/
theorem round_to_chunk (size chunk : Nat) (hc : 0 < chunk) :
    roundSizeToChunk size chunk % chunk = 0 ∧ size ≤ roundSizeToChunk size chunk ∧
    roundSizeToChunk size chunk < size + chunk := by
  unfold roundSizeToChunk
  simp only
  have hlt := Nat.mod_lt size hc
  split
  · rename_i h; exact ⟨h, Nat.le_refl _, by omega⟩
  · rename_i h
    refine ⟨?_, by omega, by omega⟩
    have hdm := Nat.div_add_mod size chunk
    have e : size + (chunk - size % chunk) = chunk * (size / chunk + 1) := by
      rw [Nat.mul_add, Nat.mul_one]; omega
    rw [e]; exact Nat.mul_mod_right _ _

/-- **Head-room before the copy**: after the resize step of `migrate_to_default_env` the map is a
whole number of chunks or the old map, never smaller than before, and what both environments
use together is at most 65 % of it. -/
theorem migration_headroom (toUsed fromUsed chunk mapSize : Nat) (hc : 0 < chunk) :
    mapSize ≤ migrationMapSize toUsed fromUsed chunk mapSize ∧
    (toUsed + fromUsed) * 100 ≤ 65 * migrationMapSize toUsed fromUsed chunk mapSize ∧
    (migrationMapSize toUsed fromUsed chunk mapSize = mapSize ∨
      migrationMapSize toUsed fromUsed chunk mapSize % chunk = 0) := by
  have hr := round_to_chunk (((toUsed + fromUsed) * 100 + 65 - 1) / 65) chunk hc
  have hq : (toUsed + fromUsed) * 100 ≤ 65 * (((toUsed + fromUsed) * 100 + 65 - 1) / 65) := by
    have := Nat.div_add_mod ((toUsed + fromUsed) * 100 + 65 - 1) 65
    have := Nat.mod_lt ((toUsed + fromUsed) * 100 + 65 - 1) (by omega : 0 < 65)
    omega
  unfold migrationMapSize migrationRequired
  simp only
  split
  · exact ⟨by omega, by omega, Or.inr hr.1⟩
  · exact ⟨Nat.le_refl _, by omega, Or.inl rfl⟩

/-! ### the hypotheses are satisfiable -/

/-- an old environment with a registered key space, an unknown one, a bare key and a key whose
second byte is not the separator; prefixes `A` (65) and `B` (66) -/
def oldEx : List (Bytes × Val) :=
  [([65, 58, 1, 2], [7]), ([66, 58, 58], [8]), ([72], [9]), ([81, 58, 3], [10]), ([120, 121, 58], [11])]

example : migrateRecs [65, 66] oldEx [] =
    some [((0, [72]), [9]), ((0, [120, 121, 58]), [11]), ((66, [1, 2]), [7]), ((67, [58]), [8])] := by decide

example : oldEx.Pairwise (fun a b => a.1 ≠ b.1) := by decide

example : (storeNew [65, 66] { tbl := [], old := some oldEx }).2 = true ∧
    hasMarker (storeNew [65, 66] { tbl := [], old := some oldEx }).1.tbl = true := by decide

/-- a registered prefix followed by nothing is refused, the old records stay -/
example : (storeNew [65] { tbl := [((0, [1]), [1])], old := some [([65, 58], [1])] }).2 = false ∧
    (storeNew [65] { tbl := [((0, [1]), [1])], old := some [([65, 58], [1])] }).1.tbl = [] ∧
    (storeNew [65] { tbl := [((0, [1]), [1])], old := some [([65, 58], [1])] }).1.old =
      some [([65, 58], [1])] := by decide

example : migrationMapSize 8192 2170880 1048576 1048576 = 4194304 := by decide

end GV.Props.C18Migrate
