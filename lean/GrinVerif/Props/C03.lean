import GrinVerif.Lemmas.ChainBasic
/-! # C03 — head is the most-work validated chain (theorems on `Model/Chain.lean`) -/
namespace GV.Props.C03
open GV GV.Chain

/-- Processing a block moves the head only to that block, only if the block passed every check
against the replayed state of its own parent, and only if it has strictly more cumulative work
than the current head; otherwise the head does not move. -/
theorem head_moves_only_up (p : Params) (n : Node) (b : Blk) :
    (processBlockSingle p n b).1.head = n.head ∨
    ((processBlockSingle p n b).1.head = b.id ∧ b.work > n.workOf n.head ∧
      ∃ n1 par s', processHeader p n b = .ok n1 ∧ precheck n1 b = .go par ∧ checkBlock p n1 b par = .ok s') := by
  rcases processBlockSingle_cases p n b with ⟨e, _, hh, _⟩ | ⟨n1, par, s', h1, h2, h3, h4⟩
  · left; exact hh
  · have hf := processHeader_frame p n n1 b h1
    rw [h4]
    rcases storeBlock_head n1 b with ⟨a, _, _⟩ | ⟨a, _, c⟩
    · left; rw [a, hf.1]
    · right; exact ⟨a, by rw [← hf.1, ← show n1.workOf n1.head = n.workOf n1.head from by
          simp [Node.workOf, Node.blk, hf.2.2.1]]; exact c, n1, par, s', h1, h2, h3⟩

/-- the head has the greatest cumulative work among stored blocks -/
def HeadMax (n : Node) : Prop := ∀ s ∈ n.stored, n.workOf s ≤ n.workOf n.head

/-- `HeadMax` is preserved by processing any block that is the registered definition of its id. -/
theorem headMax_step (p : Params) (n : Node) (b : Blk) (hb : n.blk b.id = some b) (inv : HeadMax n) :
    HeadMax (processBlockSingle p n b).1 := by
  have wf : ∀ m : Node, m.blks = n.blks → ∀ x, m.workOf x = n.workOf x := by
    intro m hm x; simp [Node.workOf, Node.blk, hm]
  rcases processBlockSingle_cases p n b with ⟨e, _, hh, hs⟩ | ⟨n1, par, s', h1, _, _, h4⟩
  · -- nothing stored, head unchanged; blks unchanged in every error branch
    have hbl : (processBlockSingle p n b).1.blks = n.blks := by
      unfold processBlockSingle
      split
      · rfl
      · rename_i n1 hh1
        have hf := processHeader_frame p n n1 b hh1
        split
        · exact hf.2.2.1
        · simp [addOrphan, hf.2.2.1]
        · split
          · exact hf.2.2.1
          · unfold storeBlock; split <;> simp [hf.2.2.1]
    intro s hsm
    rw [hs] at hsm
    rw [wf _ hbl, wf _ hbl, hh]
    exact inv s hsm
  · have hf := processHeader_frame p n n1 b h1
    rw [h4]
    have hbl : (storeBlock n1 b).1.blks = n.blks := by
      unfold storeBlock; split <;> simp [hf.2.2.1]
    have hbw : n.workOf b.id = b.work := by simp [Node.workOf, hb]
    intro s hsm
    rw [storeBlock_stored, hf.2.1] at hsm
    rw [wf _ hbl, wf _ hbl]
    rcases storeBlock_head n1 b with ⟨a, _, c⟩ | ⟨a, _, c⟩
    · rw [a, hf.1]
      rcases List.mem_append.mp hsm with h | h
      · exact inv s h
      · have : s = b.id := by simpa using h
        subst this
        rw [hbw]
        have : n1.workOf n1.head = n.workOf n.head := by rw [wf n1 hf.2.2.1, hf.1]
        omega
    · rw [a, hbw]
      have e1 : n1.workOf n1.head = n.workOf n.head := by rw [wf n1 hf.2.2.1, hf.1]
      rcases List.mem_append.mp hsm with h | h
      · have := inv s h; omega
      · have : s = b.id := by simpa using h
        subst this; rw [hbw]; exact Nat.le_refl _

-- non-vacuity: a two-block tree, delivering the heavier child moves the head to it
example : HeadMax ({ blks := [{ id := 0, parent := none, h := 0, work := 1, ver := 1, ts := 0, ins := [], outs := [], kers := [], tags := [] }] } : Node) := by
  intro s hs
  simp at hs
  subst hs
  exact Nat.le_refl _

end GV.Props.C03
