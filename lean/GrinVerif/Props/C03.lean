import GrinVerif.Lemmas.ChainOrder
/-! # C03 — head is the most-work validated chain, whatever the arrival order
(theorems on `Model/Chain.lean`; definitions used in the statements: `Event`, `run`, `Registered`
in `Lemmas/ChainRun.lean`; `HeadMax`, `StoredClosed`, `HeadStep`, `PassedCheck` in
`Lemmas/ChainInv.lean`; `VOP` (valid on path), `HdrOk`, `Fresh` in `Lemmas/ChainValid.lean` /
`Lemmas/ChainStep.lean`; `ParentsFirst`, `blockIds` in `Lemmas/ChainOrder.lean`) -/
namespace GV.Props.C03
open GV GV.Chain

/-- Processing a block moves the head only to that block, only if the block passed every check
against the replayed state of its own parent, and only if it has strictly more cumulative work
than the current head; otherwise the head does not move. -/
theorem head_moves_only_up (p : Params) (n : Node) (b : Blk) :
    (processBlockSingle p n b).1.head = n.head ∨
    ((processBlockSingle p n b).1.head = b.id ∧ b.work > n.workOf n.head ∧
      ∃ par s', b.parent = some par ∧ checkBlock p n b par = .ok s') := by
  rcases processBlockSingle_core p n b with ⟨hh, _, _⟩ | ⟨par, s', hpar, _, _, hc, _, hd⟩
  · left; exact hh
  · rcases hd with ⟨a, _, _⟩ | ⟨a, c, _⟩
    · left; exact a
    · right; exact ⟨a, c, par, s', hpar, hc⟩

/-- (c) Validity is path-determined: the verdict of `checkBlock` on a block is a function of the
output and block definitions only — not of the delivery history (headers known, blocks stored,
head, orphan pool). -/
theorem validity_path_determined (p : Params) (n m : Node) (ho : n.outs = m.outs)
    (hb : n.blks = m.blks) (b : Blk) (par : Nat) : checkBlock p n b par = checkBlock p m b par :=
  checkBlock_congr ho hb p b par

/-- … in particular it is the same before and after any delivery history. -/
theorem validity_history_independent (p : Params) (n : Node) (es : List Event) (b : Blk) (par : Nat) :
    checkBlock p (run p n es) b par = checkBlock p n b par :=
  checkBlock_congr (run_defs p n es).2 (run_defs p n es).1 p b par

/-- Block and output definitions are never changed by a run. -/
theorem run_keeps_definitions (p : Params) (n : Node) (es : List Event) :
    (run p n es).blks = n.blks ∧ (run p n es).outs = n.outs := run_defs p n es

/-- `HeadMax` (the head has the greatest cumulative work among stored blocks) is preserved by
processing any block that is the registered definition of its id. -/
theorem headMax_step (p : Params) (n : Node) (b : Blk) (hb : n.blk b.id = some b) (inv : HeadMax n) :
    HeadMax (processBlockSingle p n b).1 := (preserved_headMax p).single n b hb inv

/-- (a) `HeadMax` through the orphan re-check loop, a whole block delivery, a header delivery … -/
theorem headMax_checkOrphans (p : Params) (fuel : Nat) (n : Node) (height : Nat) (inv : HeadMax n) :
    HeadMax (checkOrphans p fuel n height) := checkOrphans_preserved (preserved_headMax p) fuel n height inv

theorem headMax_deliverBlock (p : Params) (n : Node) (b : Blk) (hb : n.blk b.id = some b)
    (inv : HeadMax n) : HeadMax (deliverBlock p n b).1 :=
  deliverBlock_preserved (preserved_headMax p) n b hb inv

theorem headMax_deliverHeader (p : Params) (n : Node) (b : Blk) (hb : n.blk b.id = some b)
    (inv : HeadMax n) : HeadMax (deliverHeader p n b).1 :=
  deliverHeader_preserved (preserved_headMax p) n b hb inv

/-- … and through any finite delivery history: **at all times the head has the greatest
cumulative work among the stored blocks** (`head_is_max`). -/
theorem head_is_max (p : Params) (n : Node) (es : List Event) (hreg : Registered n es)
    (inv : HeadMax n) : HeadMax (run p n es) := run_preserved (preserved_headMax p) n es hreg inv

/-- (a) `StoredClosed` (genesis and head are stored; every stored block's parent is stored — so the
stored blocks are exactly "accepted blocks whose ancestors are all accepted") through the orphan
loop, block and header delivery, and any finite history. -/
theorem storedClosed_checkOrphans (p : Params) (fuel : Nat) (n : Node) (height : Nat)
    (inv : StoredClosed n) : StoredClosed (checkOrphans p fuel n height) :=
  checkOrphans_preserved (preserved_storedClosed p) fuel n height inv

theorem storedClosed_deliverBlock (p : Params) (n : Node) (b : Blk) (hb : n.blk b.id = some b)
    (inv : StoredClosed n) : StoredClosed (deliverBlock p n b).1 :=
  deliverBlock_preserved (preserved_storedClosed p) n b hb inv

theorem storedClosed_deliverHeader (p : Params) (n : Node) (b : Blk) (hb : n.blk b.id = some b)
    (inv : StoredClosed n) : StoredClosed (deliverHeader p n b).1 :=
  deliverHeader_preserved (preserved_storedClosed p) n b hb inv

theorem storedClosed_run (p : Params) (n : Node) (es : List Event) (hreg : Registered n es)
    (inv : StoredClosed n) : StoredClosed (run p n es) :=
  run_preserved (preserved_storedClosed p) n es hreg inv

/-- Every stored block is valid on its own path: it and all its ancestors pass the header rules
and `checkBlock` (from a fresh node, after any history). -/
theorem stored_valid_on_path (p : Params) (n : Node) (es : List Event) (hf : Fresh n)
    (hreg : Registered n es) : ∀ s ∈ (run p n es).stored, VOP p n s := by
  intro s hs
  have hi := run_preserved (preserved_inv p) n es hreg (hf.inv p)
  exact (VOP_congr (run_defs p n es).2 (run_defs p n es).1 p s).mp (hi.2.valid s hs)

/-- (b) **Along any run the work of the head never decreases, and if the head differs at the end
it is a block with strictly more work that passed `checkBlock`** against the replayed state of its
own parent. -/
theorem head_work_monotone (p : Params) (n : Node) (es : List Event) (hreg : Registered n es) :
    n.workOf n.head ≤ n.workOf (run p n es).head ∧
    ((run p n es).head ≠ n.head →
      n.workOf n.head < n.workOf (run p n es).head ∧ PassedCheck p n (run p n es).head) :=
  (run_preserved (preserved_headStep p n) n es hreg ⟨⟨rfl, rfl⟩, HeadStep.refl p n⟩).2

/-- … between any two points of a history (so *every* head change, not only the net one, is to a
validated block with strictly more work): split the history anywhere. -/
theorem head_work_monotone_between (p : Params) (n : Node) (es fs : List Event)
    (hreg : Registered n (es ++ fs)) :
    n.workOf (run p n es).head ≤ n.workOf (run p n (es ++ fs)).head ∧
    ((run p n (es ++ fs)).head ≠ (run p n es).head →
      n.workOf (run p n es).head < n.workOf (run p n (es ++ fs)).head ∧
      PassedCheck p n (run p n (es ++ fs)).head) := by
  have hd := run_defs p n es
  have hreg2 : Registered (run p n es) fs := by
    intro e he
    rw [blk_congr hd.1]
    exact hreg e (List.mem_append_right _ he)
  have := head_work_monotone p (run p n es) fs hreg2
  rw [← run_append] at this
  simp only [workOf_congr hd.1, PassedCheck_congr hd.2 hd.1] at this
  exact this

/-- (d) **The store after a parents-first history** (every full block delivered after its parent;
duplicates, headers and invalid blocks anywhere): exactly the genesis plus the delivered blocks
that are valid on their own path. -/
theorem stored_after_parentsFirst (p : Params) (n : Node) (es : List Event) (hf : Fresh n)
    (hreg : Registered n es) (hpf : ParentsFirst [] es) (id : Nat) :
    id ∈ (run p n es).stored ↔ VOP p n id ∧ (id = 0 ∨ id ∈ blockIds es) :=
  GV.Chain.stored_after_parentsFirst p n es hf hreg hpf id

/-- (d) … and the head is the unique maximum of work among those, when there is one. -/
theorem head_after_parentsFirst (p : Params) (n : Node) (es : List Event) (hf : Fresh n)
    (hreg : Registered n es) (hpf : ParentsFirst [] es) (w : Nat)
    (hw : VOP p n w ∧ (w = 0 ∨ w ∈ blockIds es))
    (hu : ∀ id, VOP p n id → (id = 0 ∨ id ∈ blockIds es) → id ≠ w → n.workOf id < n.workOf w) :
    (run p n es).head = w :=
  GV.Chain.head_after_parentsFirst p n es hf hreg hpf w hw hu

/-- (d) **Order independence, parents-first**: two parents-first histories over the same set of
block ids end with the same stored set; if the maximum of work among the valid-on-path delivered
blocks is attained by a unique block `w`, both end on head `w` and report the same unspent set. -/
theorem order_independent_parentsFirst (p : Params) (n : Node) (es₁ es₂ : List Event) (hf : Fresh n)
    (hr₁ : Registered n es₁) (hr₂ : Registered n es₂)
    (hp₁ : ParentsFirst [] es₁) (hp₂ : ParentsFirst [] es₂)
    (hsame : ∀ id, id ∈ blockIds es₁ ↔ id ∈ blockIds es₂) :
    (∀ id, id ∈ (run p n es₁).stored ↔ id ∈ (run p n es₂).stored) ∧
    ∀ w, VOP p n w → (w = 0 ∨ w ∈ blockIds es₁) →
      (∀ id, VOP p n id → (id = 0 ∨ id ∈ blockIds es₁) → id ≠ w → n.workOf id < n.workOf w) →
      (run p n es₁).head = w ∧ (run p n es₂).head = w ∧
      (run p n es₁).reportedUtxo p = (run p n es₂).reportedUtxo p := by
  refine ⟨?_, ?_⟩
  · intro id
    rw [stored_after_parentsFirst p n es₁ hf hr₁ hp₁, stored_after_parentsFirst p n es₂ hf hr₂ hp₂,
      hsame id]
  · intro w hv hd hu
    have h1 := head_after_parentsFirst p n es₁ hf hr₁ hp₁ w ⟨hv, hd⟩ hu
    have h2 := head_after_parentsFirst p n es₂ hf hr₂ hp₂ w
      ⟨hv, hd.imp id (hsame w).mp⟩ (fun id hv' hd' => hu id hv' (hd'.imp _root_.id (hsame id).mpr))
    refine ⟨h1, h2, ?_⟩
    exact reportedUtxo_congr ((run_defs p n es₁).1.trans (run_defs p n es₂).1.symm) (h1.trans h2.symm) p

/-- (d) … **equal to delivering the winning chain alone**: any parents-first sub-history that
still contains the winner `w` (in particular: exactly the blocks on the path from genesis to `w`,
in path order) ends on the same head `w` and the same reported unspent set. -/
theorem winning_chain_alone (p : Params) (n : Node) (es es₃ : List Event) (hf : Fresh n)
    (hr : Registered n es) (hr₃ : Registered n es₃)
    (hp : ParentsFirst [] es) (hp₃ : ParentsFirst [] es₃)
    (hsub : ∀ id ∈ blockIds es₃, id ∈ blockIds es)
    (w : Nat) (hv : VOP p n w) (hd₃ : w = 0 ∨ w ∈ blockIds es₃)
    (hu : ∀ id, VOP p n id → (id = 0 ∨ id ∈ blockIds es) → id ≠ w → n.workOf id < n.workOf w) :
    (run p n es₃).head = w ∧ (run p n es).head = w ∧
    (run p n es₃).reportedUtxo p = (run p n es).reportedUtxo p := by
  have h1 := head_after_parentsFirst p n es hf hr hp w ⟨hv, hd₃.imp id (hsub w)⟩ hu
  have h3 := head_after_parentsFirst p n es₃ hf hr₃ hp₃ w ⟨hv, hd₃⟩
    (fun id hv' hd' => hu id hv' (hd'.imp _root_.id (hsub id)))
  exact ⟨h3, h1, reportedUtxo_congr ((run_defs p n es₃).1.trans (run_defs p n es).1.symm)
    (h3.trans h1.symm) p⟩

end GV.Props.C03
