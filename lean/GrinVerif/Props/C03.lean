import GrinVerif.Lemmas.ChainOrder
import GrinVerif.Lemmas.ChainOrphan
import GrinVerif.Lemmas.ChainExampleFacts
/-! # C03 — head is the most-work validated chain, whatever the arrival order
(theorems on `Model/Chain.lean`; definitions used in the statements: `Event`, `run`, `Registered`
in `Lemmas/ChainRun.lean`; `HeadMax`, `StoredClosed`, `HeadStep`, `PassedCheck` in
`Lemmas/ChainInv.lean`; `VOP` (valid on path), `HdrOk`, `Fresh` in `Lemmas/ChainValid.lean` /
`Lemmas/ChainStep.lean`; `ParentsFirst`, `blockIds` in `Lemmas/ChainOrder.lean`) -/
namespace GV.Props.C03
open GV GV.Chain

/-- Processing a block moves the head only to that block, only if the block passed every check
against the replayed state of its own parent, and only if it has strictly more cumulative work
than the current head; otherwise the head does not move. -/
theorem head_moves_only_up (p : Params) (n : Node) (b : Blk) :
    (processBlockSingle p n b).1.head = n.head ∨
    ((processBlockSingle p n b).1.head = b.id ∧ b.work > n.workOf n.head ∧
      ∃ par s', b.parent = some par ∧ checkBlock p n b par = .ok s') := by
  rcases processBlockSingle_core p n b with ⟨hh, _, _⟩ | ⟨par, s', hpar, _, _, hc, _, hd⟩
  · left; exact hh
  · rcases hd with ⟨a, _, _⟩ | ⟨a, c, _⟩
    · left; exact a
    · right; exact ⟨a, c, par, s', hpar, hc⟩

/-- (c) Validity is path-determined: the verdict of `checkBlock` on a block is a function of the
output and block definitions only — not of the delivery history (headers known, blocks stored,
head, orphan pool). -/
theorem validity_path_determined (p : Params) (n m : Node) (ho : n.outs = m.outs)
    (hb : n.blks = m.blks) (b : Blk) (par : Nat) : checkBlock p n b par = checkBlock p m b par :=
  checkBlock_congr ho hb p b par

/-- … in particular it is the same before and after any delivery history. -/
theorem validity_history_independent (p : Params) (n : Node) (es : List Event) (b : Blk) (par : Nat) :
    checkBlock p (run p n es) b par = checkBlock p n b par :=
  checkBlock_congr (run_defs p n es).2 (run_defs p n es).1 p b par

/-- Block and output definitions are never changed by a run. -/
theorem run_keeps_definitions (p : Params) (n : Node) (es : List Event) :
    (run p n es).blks = n.blks ∧ (run p n es).outs = n.outs := run_defs p n es

/-- `HeadMax` (the head has the greatest cumulative work among stored blocks) is preserved by
processing any block that is the registered definition of its id. -/
theorem headMax_step (p : Params) (n : Node) (b : Blk) (hb : n.blk b.id = some b) (inv : HeadMax n) :
    HeadMax (processBlockSingle p n b).1 := (preserved_headMax p).single n b hb inv

/-- (a) `HeadMax` through the orphan re-check loop, a whole block delivery, a header delivery … -/
theorem headMax_checkOrphans (p : Params) (fuel : Nat) (n : Node) (height : Nat) (inv : HeadMax n) :
    HeadMax (checkOrphans p fuel n height) := checkOrphans_preserved (preserved_headMax p) fuel n height inv

theorem headMax_deliverBlock (p : Params) (n : Node) (b : Blk) (hb : n.blk b.id = some b)
    (inv : HeadMax n) : HeadMax (deliverBlock p n b).1 :=
  deliverBlock_preserved (preserved_headMax p) n b hb inv

theorem headMax_deliverHeader (p : Params) (n : Node) (b : Blk) (hb : n.blk b.id = some b)
    (inv : HeadMax n) : HeadMax (deliverHeader p n b).1 :=
  deliverHeader_preserved (preserved_headMax p) n b hb inv

/-- … and through any finite delivery history: **at all times the head has the greatest
cumulative work among the stored blocks** (`head_is_max`). -/
theorem head_is_max (p : Params) (n : Node) (es : List Event) (hreg : Registered n es)
    (inv : HeadMax n) : HeadMax (run p n es) := run_preserved (preserved_headMax p) n es hreg inv

/-- (a) `StoredClosed` (genesis and head are stored; every stored block's parent is stored — so the
stored blocks are exactly "accepted blocks whose ancestors are all accepted") through the orphan
loop, block and header delivery, and any finite history. -/
theorem storedClosed_checkOrphans (p : Params) (fuel : Nat) (n : Node) (height : Nat)
    (inv : StoredClosed n) : StoredClosed (checkOrphans p fuel n height) :=
  checkOrphans_preserved (preserved_storedClosed p) fuel n height inv

theorem storedClosed_deliverBlock (p : Params) (n : Node) (b : Blk) (hb : n.blk b.id = some b)
    (inv : StoredClosed n) : StoredClosed (deliverBlock p n b).1 :=
  deliverBlock_preserved (preserved_storedClosed p) n b hb inv

theorem storedClosed_deliverHeader (p : Params) (n : Node) (b : Blk) (hb : n.blk b.id = some b)
    (inv : StoredClosed n) : StoredClosed (deliverHeader p n b).1 :=
  deliverHeader_preserved (preserved_storedClosed p) n b hb inv

theorem storedClosed_run (p : Params) (n : Node) (es : List Event) (hreg : Registered n es)
    (inv : StoredClosed n) : StoredClosed (run p n es) :=
  run_preserved (preserved_storedClosed p) n es hreg inv

/-- Every stored block is valid on its own path: it and all its ancestors pass the header rules
and `checkBlock` (from a fresh node, after any history). -/
theorem stored_valid_on_path (p : Params) (n : Node) (es : List Event) (hf : Fresh n)
    (hreg : Registered n es) : ∀ s ∈ (run p n es).stored, VOP p n s := by
  intro s hs
  have hi := run_preserved (preserved_inv p) n es hreg (hf.inv p)
  exact (VOP_congr (run_defs p n es).2 (run_defs p n es).1 p s).mp (hi.2.valid s hs)

/-- (b) **Along any run the work of the head never decreases, and if the head differs at the end
it is a block with strictly more work that passed `checkBlock`** against the replayed state of its
own parent. -/
theorem head_work_monotone (p : Params) (n : Node) (es : List Event) (hreg : Registered n es) :
    n.workOf n.head ≤ n.workOf (run p n es).head ∧
    ((run p n es).head ≠ n.head →
      n.workOf n.head < n.workOf (run p n es).head ∧ PassedCheck p n (run p n es).head) :=
  (run_preserved (preserved_headStep p n) n es hreg ⟨⟨rfl, rfl⟩, HeadStep.refl p n⟩).2

/-- … between any two points of a history (so *every* head change, not only the net one, is to a
validated block with strictly more work): split the history anywhere. -/
theorem head_work_monotone_between (p : Params) (n : Node) (es fs : List Event)
    (hreg : Registered n (es ++ fs)) :
    n.workOf (run p n es).head ≤ n.workOf (run p n (es ++ fs)).head ∧
    ((run p n (es ++ fs)).head ≠ (run p n es).head →
      n.workOf (run p n es).head < n.workOf (run p n (es ++ fs)).head ∧
      PassedCheck p n (run p n (es ++ fs)).head) := by
  have hd := run_defs p n es
  have hreg2 : Registered (run p n es) fs := by
    intro e he
    rw [blk_congr hd.1]
    exact hreg e (List.mem_append_right _ he)
  have := head_work_monotone p (run p n es) fs hreg2
  rw [← run_append] at this
  simp only [workOf_congr hd.1, PassedCheck_congr hd.2 hd.1] at this
  exact this

/-- (d) **The store after a parents-first history** (every full block delivered after its parent;
duplicates, headers and invalid blocks anywhere): exactly the genesis plus the delivered blocks
that are valid on their own path. -/
theorem stored_after_parentsFirst (p : Params) (n : Node) (es : List Event) (hf : Fresh n)
    (hreg : Registered n es) (hpf : ParentsFirst [] es) (id : Nat) :
    id ∈ (run p n es).stored ↔ VOP p n id ∧ (id = 0 ∨ id ∈ blockIds es) :=
  GV.Chain.stored_after_parentsFirst p n es hf hreg hpf id

/-- (d) … and the head is the unique maximum of work among those, when there is one. -/
theorem head_after_parentsFirst (p : Params) (n : Node) (es : List Event) (hf : Fresh n)
    (hreg : Registered n es) (hpf : ParentsFirst [] es) (w : Nat)
    (hw : VOP p n w ∧ (w = 0 ∨ w ∈ blockIds es))
    (hu : ∀ id, VOP p n id → (id = 0 ∨ id ∈ blockIds es) → id ≠ w → n.workOf id < n.workOf w) :
    (run p n es).head = w :=
  GV.Chain.head_after_parentsFirst p n es hf hreg hpf w hw hu

/-- (d) **Order independence, parents-first**: two parents-first histories over the same set of
block ids end with the same stored set; if the maximum of work among the valid-on-path delivered
blocks is attained by a unique block `w`, both end on head `w` and report the same unspent set. -/
theorem order_independent_parentsFirst (p : Params) (n : Node) (es₁ es₂ : List Event) (hf : Fresh n)
    (hr₁ : Registered n es₁) (hr₂ : Registered n es₂)
    (hp₁ : ParentsFirst [] es₁) (hp₂ : ParentsFirst [] es₂)
    (hsame : ∀ id, id ∈ blockIds es₁ ↔ id ∈ blockIds es₂) :
    (∀ id, id ∈ (run p n es₁).stored ↔ id ∈ (run p n es₂).stored) ∧
    ∀ w, VOP p n w → (w = 0 ∨ w ∈ blockIds es₁) →
      (∀ id, VOP p n id → (id = 0 ∨ id ∈ blockIds es₁) → id ≠ w → n.workOf id < n.workOf w) →
      (run p n es₁).head = w ∧ (run p n es₂).head = w ∧
      (run p n es₁).reportedUtxo p = (run p n es₂).reportedUtxo p := by
  refine ⟨?_, ?_⟩
  · intro id
    rw [stored_after_parentsFirst p n es₁ hf hr₁ hp₁, stored_after_parentsFirst p n es₂ hf hr₂ hp₂,
      hsame id]
  · intro w hv hd hu
    have h1 := head_after_parentsFirst p n es₁ hf hr₁ hp₁ w ⟨hv, hd⟩ hu
    have h2 := head_after_parentsFirst p n es₂ hf hr₂ hp₂ w
      ⟨hv, hd.imp id (hsame w).mp⟩ (fun id hv' hd' => hu id hv' (hd'.imp _root_.id (hsame id).mpr))
    refine ⟨h1, h2, ?_⟩
    exact reportedUtxo_congr ((run_defs p n es₁).1.trans (run_defs p n es₂).1.symm) (h1.trans h2.symm) p

/-- (d) … **equal to delivering the winning chain alone**: any parents-first sub-history that
still contains the winner `w` (in particular: exactly the blocks on the path from genesis to `w`,
in path order) ends on the same head `w` and the same reported unspent set. -/
theorem winning_chain_alone (p : Params) (n : Node) (es es₃ : List Event) (hf : Fresh n)
    (hr : Registered n es) (hr₃ : Registered n es₃)
    (hp : ParentsFirst [] es) (hp₃ : ParentsFirst [] es₃)
    (hsub : ∀ id ∈ blockIds es₃, id ∈ blockIds es)
    (w : Nat) (hv : VOP p n w) (hd₃ : w = 0 ∨ w ∈ blockIds es₃)
    (hu : ∀ id, VOP p n id → (id = 0 ∨ id ∈ blockIds es) → id ≠ w → n.workOf id < n.workOf w) :
    (run p n es₃).head = w ∧ (run p n es).head = w ∧
    (run p n es₃).reportedUtxo p = (run p n es).reportedUtxo p := by
  have h1 := head_after_parentsFirst p n es hf hr hp w ⟨hv, hd₃.imp id (hsub w)⟩ hu
  have h3 := head_after_parentsFirst p n es₃ hf hr₃ hp₃ w ⟨hv, hd₃⟩
    (fun id hv' hd' => hu id hv' (hd'.imp _root_.id (hsub id)))
  exact ⟨h3, h1, reportedUtxo_congr ((run_defs p n es₃).1.trans (run_defs p n es).1.symm)
    (h3.trans h1.symm) p⟩


/-- (d) … concretely: `chain` = the registered blocks on the path from the genesis `0` to the winner
`w`, in path order (`Linked`: each block's parent is the one before it), all of them among the
delivered ones. Delivering **just that chain** to a fresh node ends on the same head and the same
reported unspent set as any parents-first delivery of the whole block set. -/
theorem winning_chain_alone_path (p : Params) (n : Node) (es : List Event) (chain : List Blk)
    (hf : Fresh n) (hr : Registered n es) (hp : ParentsFirst [] es)
    (hl : Linked n 0 chain) (hsub : ∀ b ∈ chain, b.id ∈ blockIds es)
    (w : Nat) (hv : VOP p n w) (hw : w = 0 ∨ w ∈ chain.map (·.id))
    (hu : ∀ id, VOP p n id → (id = 0 ∨ id ∈ blockIds es) → id ≠ w → n.workOf id < n.workOf w) :
    (run p n (chain.map Event.block)).head = w ∧ (run p n es).head = w ∧
    (run p n (chain.map Event.block)).reportedUtxo p = (run p n es).reportedUtxo p :=
  winning_chain_alone p n es (chain.map Event.block) hf hr hl.registered hp
    (hl.parentsFirst (Or.inl rfl))
    (by
      intro id hid
      rw [blockIds_map_block] at hid
      obtain ⟨b, hb, hbid⟩ := List.mem_map.mp hid
      exact hbid ▸ hsub b hb)
    w hv (by rw [blockIds_map_block]; exact hw) hu

/-! ## through the orphan pool: children before parents

`HeadersOnly` (only the genesis stored, empty pool, invariants hold — the state after any number of
header deliveries to a fresh node), `Reach p n D id` (the block `id` and all its ancestors down to
the genesis are in `D` and pass their own step: header rules + `checkBlock`) and `ValidStep` are
defined in `Lemmas/ChainOrphan.lean`.

Hypotheses on the history, as in the property text: the header of every delivered block is known
beforehand ("headers known first"). The model's orphan pool has **no capacity eviction and no
age-out** (`Params.maxOrphans` is not used by `addOrphan`), so "the pool never exceeds its
capacity" is not a hypothesis of the theorems below but a condition for the model to describe the
real node: beyond `MAX_ORPHAN_SIZE` / the orphan age limit the real `OrphanBlockPool` evicts, and
the theorems say nothing. -/

/-- (d, stretch) **The store after any delivery order** — children before parents, duplicates,
invalid blocks anywhere: exactly the blocks reachable within the delivered set. No valid orphan is
ever forgotten by `check_orphans`. -/
theorem stored_after_any_order (p : Params) (n : Node) (es : List Event) (hn : HeadersOnly p n)
    (hreg : Registered n es) (hk : ∀ id ∈ blockIds es, id ∈ n.headers) (id : Nat) :
    id ∈ (run p n es).stored ↔ Reach p n (blockIds es) id :=
  GV.Chain.stored_after_any_order p n es hn hreg hk id

/-- … and the head is the unique maximum of work among those, when there is one. -/
theorem head_after_any_order (p : Params) (n : Node) (es : List Event) (hn : HeadersOnly p n)
    (hreg : Registered n es) (hk : ∀ id ∈ blockIds es, id ∈ n.headers) (w : Nat)
    (hw : Reach p n (blockIds es) w)
    (hu : ∀ id, Reach p n (blockIds es) id → id ≠ w → n.workOf id < n.workOf w) :
    (run p n es).head = w := by
  have hi := run_preserved (preserved_inv p) n es hreg hn.inv
  have hdf := run_defs p n es
  apply head_of_unique_max _ hi.1 hi.2.closed.head w
  · exact (stored_after_any_order p n es hn hreg hk w).mpr hw
  · intro s hs hne
    rw [workOf_congr hdf.1, workOf_congr hdf.1]
    exact hu s ((stored_after_any_order p n es hn hreg hk s).mp hs) hne

/-- (d, stretch) **Order independence, any order**: two histories over the same set of blocks
(headers known first; bodies in any order, with repetitions, children before parents) end with the
same stored set, and — when the maximum of work among the reachable blocks is attained by a unique
block `w` — on the same head `w` with the same reported unspent set. -/
theorem order_independent (p : Params) (n : Node) (es₁ es₂ : List Event) (hn : HeadersOnly p n)
    (hr₁ : Registered n es₁) (hr₂ : Registered n es₂)
    (hk₁ : ∀ id ∈ blockIds es₁, id ∈ n.headers)
    (hsame : ∀ id, id ∈ blockIds es₁ ↔ id ∈ blockIds es₂) :
    (∀ id, id ∈ (run p n es₁).stored ↔ id ∈ (run p n es₂).stored) ∧
    ∀ w, Reach p n (blockIds es₁) w →
      (∀ id, Reach p n (blockIds es₁) id → id ≠ w → n.workOf id < n.workOf w) →
      (run p n es₁).head = w ∧ (run p n es₂).head = w ∧
      (run p n es₁).reportedUtxo p = (run p n es₂).reportedUtxo p := by
  have hk₂ : ∀ id ∈ blockIds es₂, id ∈ n.headers := fun id h => hk₁ id ((hsame id).mpr h)
  have hR : ∀ id, Reach p n (blockIds es₁) id ↔ Reach p n (blockIds es₂) id := fun id =>
    ⟨fun h => h.mono (fun x hx => (hsame x).mp hx), fun h => h.mono (fun x hx => (hsame x).mpr hx)⟩
  refine ⟨?_, ?_⟩
  · intro id
    rw [stored_after_any_order p n es₁ hn hr₁ hk₁, stored_after_any_order p n es₂ hn hr₂ hk₂, hR id]
  · intro w hw hu
    have h1 := head_after_any_order p n es₁ hn hr₁ hk₁ w hw hu
    have h2 := head_after_any_order p n es₂ hn hr₂ hk₂ w ((hR w).mp hw)
      (fun id hr hne => hu id ((hR id).mpr hr) hne)
    exact ⟨h1, h2, reportedUtxo_congr ((run_defs p n es₁).1.trans (run_defs p n es₂).1.symm)
      (h1.trans h2.symm) p⟩

/-- … **equal to delivering the winning chain alone**: any history over a subset of the blocks
that still reaches the winner `w` (e.g. exactly the blocks on `w`'s path, in any order) ends on the
same head and the same reported unspent set. -/
theorem winning_chain_alone_any_order (p : Params) (n : Node) (es es₃ : List Event)
    (hn : HeadersOnly p n) (hr : Registered n es) (hr₃ : Registered n es₃)
    (hk : ∀ id ∈ blockIds es, id ∈ n.headers) (hsub : ∀ id ∈ blockIds es₃, id ∈ blockIds es)
    (w : Nat) (hw₃ : Reach p n (blockIds es₃) w)
    (hu : ∀ id, Reach p n (blockIds es) id → id ≠ w → n.workOf id < n.workOf w) :
    (run p n es₃).head = w ∧ (run p n es).head = w ∧
    (run p n es₃).reportedUtxo p = (run p n es).reportedUtxo p := by
  have hk₃ : ∀ id ∈ blockIds es₃, id ∈ n.headers := fun id h => hk id (hsub id h)
  have h1 := head_after_any_order p n es hn hr hk w (hw₃.mono hsub) hu
  have h3 := head_after_any_order p n es₃ hn hr₃ hk₃ w hw₃
    (fun id hr' hne => hu id (hr'.mono hsub) hne)
  exact ⟨h3, h1, reportedUtxo_congr ((run_defs p n es₃).1.trans (run_defs p n es).1.symm)
    (h3.trans h1.symm) p⟩

/-- The state "headers first" is reached from a fresh node by header deliveries. -/
theorem headersOnly_after_headers (p : Params) (n : Node) (bs : List Blk) (hf : Fresh n)
    (hreg : Registered n (bs.map Event.header)) : HeadersOnly p (run p n (bs.map Event.header)) :=
  HeadersOnly.after_headers p n bs hf hreg

/-! ## non-vacuity: the hypotheses of the theorems above hold on a concrete tree
(`Lemmas/ChainExamples.lean`: 0 ── 1 ── 3 ── 4, a lighter sibling 2 of 1, an invalid child 9 of 1
that claims the most work; facts about it in `Lemmas/ChainExampleFacts.lean`) -/
section Examples
open GV.Chain.Ex

-- `head_after_parentsFirst`: all hypotheses hold; the invalid block 9 (most work) does not win
example : (run P N ex_es₁).head = 3 :=
  head_after_parentsFirst P N ex_es₁ ex_fresh ex_reg₁ ex_pf₁ 3
    ⟨ex_vop3, by simp [ex_es₁, blockIds, B3]⟩
    (by
      intro id hv hd hne
      simp only [ex_es₁, blockIds, B1, B2, B3, B9, List.mem_cons, List.not_mem_nil, or_false] at hd
      rcases hd with rfl | rfl | rfl | rfl | rfl | rfl
      · decide
      · decide
      · decide
      · -- block 9 is not valid on its path: it spends an output that never existed
        exfalso
        have h9 : N.blk (B9.id) = some B9 := rfl
        obtain ⟨par, s', hpar, _, _, hc⟩ := VOP.inv (b := B9) hv h9 (by decide)
        have : par = 1 := by
          have : B9.parent = some 1 := rfl
          rw [this] at hpar; exact (Option.some.inj hpar).symm
        subst this
        have : checkBlock P N B9 1 = .error "AlreadySpent" := rfl
        rw [this] at hc; cases hc
      · exact absurd rfl hne
      · decide)

-- the run itself, evaluated: same head, and the store is {0} ∪ valid-on-path ∩ delivered
example : (run P N ex_es₁).head = 3 ∧ (run P N ex_es₁).stored = [0, 2, 1, 3] := by decide

-- `HeadMax` / `StoredClosed` / `head_work_monotone` have only `Registered` as hypothesis
example : HeadMax (run P N ex_es₁) := head_is_max P N ex_es₁ ex_reg₁ (ex_fresh.inv P).1

-- `winning_chain_alone_path`: the chain 1, 3 alone gives the same head and unspent set
example : (run P N ([B1, B3].map Event.block)).head = 3 ∧ (run P N ex_es₁).head = 3 ∧
    (run P N ([B1, B3].map Event.block)).reportedUtxo P = (run P N ex_es₁).reportedUtxo P :=
  winning_chain_alone_path P N ex_es₁ [B1, B3] ex_fresh ex_reg₁ ex_pf₁
    ⟨rfl, rfl, rfl, rfl, trivial⟩ (by decide) 3 ex_vop3 (by decide)
    (by
      intro id hv hd hne
      simp only [ex_es₁, blockIds, B1, B2, B3, B9, List.mem_cons, List.not_mem_nil, or_false] at hd
      rcases hd with rfl | rfl | rfl | rfl | rfl | rfl
      · decide
      · decide
      · decide
      · exfalso
        have h9 : N.blk (B9.id) = some B9 := rfl
        obtain ⟨par, s', hpar, _, _, hc⟩ := VOP.inv (b := B9) hv h9 (by decide)
        have : par = 1 := by
          have : B9.parent = some 1 := rfl
          rw [this] at hpar; exact (Option.some.inj hpar).symm
        subst this
        have : checkBlock P N B9 1 = .error "AlreadySpent" := rfl
        rw [this] at hc; cases hc
      · exact absurd rfl hne
      · decide)

-- `stored_after_any_order`: hypotheses hold, block 3 delivered before its parent ends up stored
example : 3 ∈ (run P ex_N₂ ex_es₂).stored :=
  (stored_after_any_order P ex_N₂ ex_es₂ ex_headersOnly ex_reg₂ (by decide) 3).mpr ex_reach3

-- the orphan pool was really used: after the first delivery 3 sits in the pool
example : (run P ex_N₂ [.block B3]).orphans = [3] ∧ (run P ex_N₂ ex_es₂).head = 3 ∧
    (run P ex_N₂ ex_es₂).orphans = [] := by decide

-- `order_independent` (through the orphan pool): child-first against parent-first with a duplicate
example : (run P ex_N₂ ex_es₂).head = 3 ∧
    (run P ex_N₂ [.block B1, .block B2, .block B3, .block B3]).head = 3 ∧
    (run P ex_N₂ ex_es₂).reportedUtxo P =
      (run P ex_N₂ [.block B1, .block B2, .block B3, .block B3]).reportedUtxo P :=
  (order_independent P ex_N₂ ex_es₂ [.block B1, .block B2, .block B3, .block B3] ex_headersOnly ex_reg₂
    (by
      intro e he
      simp only [List.mem_cons, List.not_mem_nil, or_false] at he
      rcases he with rfl | rfl | rfl | rfl <;> rfl)
    (by decide) (by
      intro id
      simp only [ex_es₂, blockIds, B1, B2, B3, List.mem_cons, List.not_mem_nil, or_false]
      omega)).2 3 ex_reach3
    (by
      intro id hr hne
      cases hr with
      | genesis => decide
      | child b par _ _ hd =>
        simp only [ex_es₂, blockIds, B1, B2, B3, List.mem_cons, List.not_mem_nil, or_false] at hd
        rcases hd with h | h | h <;> rw [h] at hne ⊢
        · exact absurd rfl hne
        · decide
        · decide)

end Examples
end GV.Props.C03
