import GrinVerif.Lemmas.MsgBound
import GrinVerif.Lemmas.DecMerkle
/-! # C11 — decoding untrusted bytes never panics, aborts, hangs or over-allocates

For every instrumented decoder `D` of `Model/Dec.lean` / `Model/Msg.lean` (transliterations of the
Rust `Readable::read` bodies with every pre-sizing allocation and every release-mode panic site
explicit):

* `D_no_panic      : ∀ bytes, (D bytes).isPanic = false`
* `D_alloc_bound   : ∀ bytes, (D bytes).alloc ≤ c * bytes.length + k`   (explicit `c`, `k`)
* progress: a loop driven by an announced count produces at most as many items as it consumed bytes
  (`readN_progress`), so no announced count makes a decoder spin on an exhausted input.

All decoders are total Lean functions by structural recursion, so "yields a value or an error" is
by construction once `no_panic` holds.  Both `Reader` implementations that see untrusted bytes
(`rd = .bin`: `ser::deserialize`; `rd = .buf`: the codec's `BufReader`) and every protocol version
(the native p2p bodies do not consult it) are covered by the quantifiers.

The three decoders for which the property was false when this file was first written
(`MerkleProof::read`, `MerkleProof::from_hex`, `util::from_hex`) have been repaired in /repo; the
theorems below are the positive ones for the repaired code, and the old witnesses are regression
probes in the harness.

The codec state machine's own panic sites (`msg_len - 2`, `*items_left -= 1`, `*left -= next_len`,
`assert!(state.is_none())`) and its per-read allocation bound are in `Props/C19.lean`
(`codec_read_no_panic`, `codec_read_alloc_bound`), stated there because they need the codec model. -/
namespace GV.Props.C11
open GV GV.Ser GV.Dec GV.Msg

/-! ## frame header -/

theorem msgHeader_no_panic (c : NetCfg) (bytes : Bytes) : (decHeader c bytes).isPanic = false :=
  noPanic_decHeader c bytes

/-- `MsgHeaderWrapper::read` allocates nothing (11 bytes are read through `read_u8`/`read_u64`) -/
theorem msgHeader_alloc_bound (c : NetCfg) (bytes : Bytes) : (decHeader c bytes).alloc ≤ 1 * bytes.length + 0 :=
  (bnd_decHeader c).alloc_le bytes

example : decHeader netMainnet [97, 61, 3, 0, 0, 0, 0, 0, 0, 0, 16] = .ok (.known 3 16) [] 0 := by decide

/-! ## handshake bodies (`BinReader`, `msg::read_body`) and `PeerAddr` -/

theorem peerAddr_no_panic (rd : Rdr) (bytes : Bytes) : (decPeerAddr rd bytes).isPanic = false :=
  noPanic_decPeerAddr rd bytes
theorem peerAddr_alloc_bound (rd : Rdr) (bytes : Bytes) : (decPeerAddr rd bytes).alloc ≤ 1 * bytes.length + 4 :=
  (bnd_decPeerAddr rd).alloc_le bytes

theorem hand_no_panic (rd : Rdr) (bytes : Bytes) : (decHand rd bytes).isPanic = false := noPanic_decHand rd bytes
/-- the additive constant is the `read_fixed_bytes` cap: a `BinReader` allocates the announced
user-agent length (≤ 100 000) before it finds the input too short -/
theorem hand_alloc_bound (rd : Rdr) (bytes : Bytes) : (decHand rd bytes).alloc ≤ 1 * bytes.length + 100000 :=
  (bnd_decHand rd).alloc_le bytes

theorem shake_no_panic (rd : Rdr) (bytes : Bytes) : (decShake rd bytes).isPanic = false := noPanic_decShake rd bytes
theorem shake_alloc_bound (rd : Rdr) (bytes : Bytes) : (decShake rd bytes).alloc ≤ 1 * bytes.length + 100000 :=
  (bnd_decShake rd).alloc_le bytes

theorem peerError_no_panic (rd : Rdr) (bytes : Bytes) : (decPeerError rd bytes).isPanic = false :=
  noPanic_decPeerError rd bytes
theorem peerError_alloc_bound (rd : Rdr) (bytes : Bytes) : (decPeerError rd bytes).alloc ≤ 1 * bytes.length + 100000 :=
  (bnd_decPeerError rd).alloc_le bytes

/-! ## every body `decode_message` dispatches (`p2p/src/codec.rs`), for every type byte -/

/-- no arm of `decode_message` panics, provided the payload decoders of the other domains
(`Transaction`, `UntrustedBlock`, … — parameter `pl`) do not -/
theorem body_no_panic {P : Type} (pl : Payload P) (hpl : ∀ t bytes, (pl t bytes).isPanic = false)
    (rd : Rdr) (t : Nat) (bytes : Bytes) : (decBody pl rd t bytes).isPanic = false :=
  noPanic_decBody pl rd hpl t bytes

/-- allocation of the native bodies: at most the input length plus the largest capped
pre-allocation (`PeerAddrs`: 256 socket addresses = 8192 bytes) plus one failed 32-byte read -/
theorem body_alloc_bound {P : Type} (pl : Payload P) (k e : Nat) (hk : 8192 ≤ k) (he : 32 ≤ e)
    (hpl : ∀ t, Bnd 1 k e (pl t)) (rd : Rdr) (t : Nat) (bytes : Bytes) :
    (decBody pl rd t bytes).alloc ≤ 1 * bytes.length + (k + e) :=
  (bnd_decBody pl rd k e hk he hpl t).alloc_le bytes

/-- instance with no payload types at all: the native bodies alone -/
theorem nativeBody_alloc_bound (rd : Rdr) (t : Nat) (bytes : Bytes) :
    (decBody (P := Unit) (fun _ _ => .err .corrupted 0) rd t bytes).alloc ≤ 1 * bytes.length + 8224 :=
  body_alloc_bound _ 8192 32 (Nat.le_refl _) (Nat.le_refl _)
    (fun _ => (Bnd.fail 1 .corrupted).mono (Nat.le_refl 1) (Nat.zero_le _) (Nat.zero_le _)) rd t bytes

theorem locator_no_panic (rd : Rdr) (bytes : Bytes) : (decLocator (P := Unit) rd bytes).isPanic = false :=
  noPanic_decLocator rd bytes
theorem locator_alloc_bound (rd : Rdr) (bytes : Bytes) :
    (decLocator (P := Unit) rd bytes).alloc ≤ 1 * bytes.length + 672 :=
  (bnd_decLocator rd).alloc_le bytes
theorem peerAddrs_no_panic (rd : Rdr) (bytes : Bytes) : (decPeerAddrs (P := Unit) rd bytes).isPanic = false :=
  noPanic_decPeerAddrs rd bytes
theorem peerAddrs_alloc_bound (rd : Rdr) (bytes : Bytes) :
    (decPeerAddrs (P := Unit) rd bytes).alloc ≤ 1 * bytes.length + 8196 :=
  (bnd_decPeerAddrs rd).alloc_le bytes

/-- a 4-byte `PeerAddrs` body announcing 256 peers does reserve 8 KiB: the constant is attained -/
example : (decPeerAddrs (P := Unit) .buf [0, 0, 1, 0]).alloc = 8192 := by decide

/-! ## `read_multi`-style loops make progress -/

/-- whatever count is announced, a loop of hash reads yields at most one item per 32 consumed
bytes; in particular it stops when the input is exhausted -/
theorem hash_loop_progress (rd : Rdr) (count : Nat) (bytes : Bytes) (xs : List Bytes) (rest : Bytes) (n : Nat)
    (h : readN (rHash rd) count bytes = .ok xs rest n) : xs.length + rest.length ≤ bytes.length :=
  readN_progress (prog_rHash rd) count bytes xs rest n h

theorem peerAddr_loop_progress (rd : Rdr) (count : Nat) (bytes : Bytes) (xs : List PeerAddr) (rest : Bytes) (n : Nat)
    (h : readN (decPeerAddr rd) count bytes = .ok xs rest n) : xs.length + rest.length ≤ bytes.length :=
  readN_progress (prog_decPeerAddr rd) count bytes xs rest n h

/-! ## state segments (read side) -/

theorem segmentId_no_panic (bytes : Bytes) : (segmentId bytes).isPanic = false := noPanic_segmentId' bytes

theorem segmentProof_no_panic (rd : Rdr) (bytes : Bytes) : (segmentProof rd bytes).isPanic = false :=
  noPanic_segmentProof rd bytes
/-- `SegmentProof::read`: pre-allocation capped at 1024 hashes -/
theorem segmentProof_alloc_bound (rd : Rdr) (bytes : Bytes) :
    (segmentProof rd bytes).alloc ≤ 1 * bytes.length + 32800 :=
  (bnd_segmentProof rd).alloc_le bytes

/-- `Segment<T>::read` never panics, for any leaf reader that does not (in-memory leaf size `sz`) -/
theorem segment_no_panic {α : Type} (rd : Rdr) (p : Dec α) (hp : ∀ bytes, (p bytes).isPanic = false)
    (sz : Nat) (hsz : 1024 * sz ≤ ISIZE_MAX) (bytes : Bytes) : (segment rd p sz bytes).isPanic = false :=
  noPanic_segment rd hp sz hsz bytes

/-- `Segment<T>::read`: pre-allocations are capped by `SEGMENT_READ_PREALLOC_ITEMS = 1024` items each,
whatever counts (≤ 1 000 000) are announced -/
theorem segment_alloc_bound {α : Type} (rd : Rdr) (p : Dec α) (e : Nat) (hp : Bnd 1 0 e p) (sz : Nat) (bytes : Bytes) :
    (segment rd p sz bytes).alloc ≤ 1 * bytes.length + (81920 + 1024 * sz + max 32 e) :=
  (bnd_segment rd hp sz).alloc_le bytes

/-- positions must strictly increase, so `pos - 1` never underflows and the loop consumes 8 bytes per item -/
theorem segment_positions_no_panic (count : Nat) (bytes : Bytes) : (segPositions count bytes).isPanic = false :=
  noPanic_segPositions count bytes

/-! ## Merkle proofs and hex strings (repaired in /repo: 28eb6068d, 96c08899a, 67ed6aa33)

`MerkleProof::read` used to pre-allocate `path_len` hashes from the wire, `MerkleProof::from_hex`
unwrapped the hex error, `util::from_hex` sliced a `&str` by byte offsets.  The models follow the code
as it is now; the old behaviour is kept as `merkleProofUnrepaired` / `hexLoop_needs_guard` so that the
difference stays kernel-checked, and the harness replays the old witnesses as regression probes. -/

theorem merkleProof_no_panic (rd : Rdr) (bytes : Bytes) : (merkleProof rd bytes).isPanic = false :=
  noPanic_merkleProof rd bytes

/-- `MerkleProof::read`: what it reads, plus at most 64 pre-allocated hashes and one failed 32-byte read -/
theorem merkleProof_alloc_bound (rd : Rdr) (bytes : Bytes) : (merkleProof rd bytes).alloc ≤ 1 * bytes.length + 2080 :=
  (bnd_merkleProof rd).alloc_le bytes

theorem merkleProof_loop_progress (rd : Rdr) (count : Nat) (bytes : Bytes) (xs : List Bytes) (rest : Bytes) (n : Nat)
    (h : readN (rHash rd) count bytes = .ok xs rest n) : 32 * xs.length ≤ 32 * (bytes.length - rest.length) := by
  have := readN_progress (prog_rHash rd) count bytes xs rest n h
  omega

/-- the old witnesses (16 bytes, `path_len = 2^58` / `2^32`) are now an `IOErr` with ≤ 2080 bytes requested -/
theorem merkleProof_old_witnesses (rd : Rdr) :
    (merkleProof rd (mpWitness (2^58))).isPanic = false ∧ (merkleProof rd (mpWitness (2^58))).alloc ≤ 2080 ∧
    (merkleProof rd (mpWitness (2^32))).alloc ≤ 2080 := by
  rw [merkleProof_on_old_witness rd (2^58) (by decide) (by decide),
      merkleProof_on_old_witness rd (2^32) (by decide) (by decide)]
  have : MERKLE_PREALLOC = 64 := rfl
  refine ⟨rfl, ?_, ?_⟩ <;> cases rd <;> simp [Outcome.alloc, this]

/-- what the repair removed: the unrepaired reader panicked on 16 bytes and asked for ≥ 128 GiB on 16 others -/
theorem merkleProof_unrepaired_failed (rd : Rdr) :
    (merkleProofUnrepaired rd (mpWitness (2^58))).isPanic = true ∧
    (merkleProofUnrepaired rd (mpWitness (2^32))).alloc ≥ 2^37 := by
  rw [merkleProofUnrepaired_panics rd]
  exact ⟨rfl, (merkleProofUnrepaired_alloc_witness rd).2⟩

/-- **`util::from_hex` never panics**, on any `&str` -/
theorem utilFromHex_no_panic (s : Bytes) (st : Site) : utilFromHex s ≠ .panic st := utilFromHex_noPanic s st

/-- `"€a"` is an `Err` now; the slicing loop alone would still panic on it -/
theorem utilFromHex_old_witness_is_err :
    utilFromHex [0xE2, 0x82, 0xAC, 0x61] = .err ∧ hexLoop [0xE2, 0x82, 0xAC, 0x61] = .panic .charBoundary :=
  ⟨utilFromHex_old_witness, hexLoop_needs_guard⟩

example : utilFromHex [0x30, 0x78, 0x30, 0x61, 0x46, 0x66] = .ok [10, 255] := by decide
/-- `from_str_radix` accepts a sign: `"+f"` decodes to `0x0f` -/
example : utilFromHex [0x2b, 0x66] = .ok [15] := by decide

/-- **`MerkleProof::from_hex` never panics** (`"zz"`, `"0"`, `"€a"` included) -/
theorem merkleProofFromHex_no_panic (s : Bytes) : (merkleProofFromHex s).isPanic = false :=
  merkleProofFromHex_noPanic s

theorem merkleProofFromHex_alloc_bound (s : Bytes) :
    (merkleProofFromHex s).alloc ≤ (trim0x (strTrim s)).length + 2080 := merkleProofFromHex_alloc s

end GV.Props.C11
