import GrinVerif.Model.PmmrU64
import GrinVerif.Lemmas.XlatePmmr
/-! # C07 — the position arithmetic at the u64 limit

`Model/PmmrU64.lean` is the hand-written model of the pure position functions of `pmmr.rs` with the
arithmetic of the release build (wrapping); `Model/Pmmr.lean` is the same on unbounded naturals and is
what the theorems of `Props/C07.lean` (explicitly built tree, Merkle proofs) speak about.  This file
states, per function, the range of inputs on which the two agree — i.e. on which the code computes
the property's value — with a witness of the difference just outside where the range is exact.
The run `pmmr arith` evaluates the real functions on both sides of every bound (u64::MAX−k, 2^63±k,
2^62±k, 2^j−2 … 2^j, the roots of the perfect trees and their children).

Total on u64 (nothing can wrap, the `Nat` model IS the code): `peak_map_height`, `peak_sizes_height`,
`peaks`, `n_leaves`, `pmmr_leaf_to_insertion_index`, `bintree_postorder_height`, `is_leaf`,
`is_left_sibling`, `bintree_rightmost`, and — proven below — `round_up_to_leaf_pos`. -/
namespace GV.Props.C07U64
open GV GV.Pmmr GV.Pmmr.Co GV.Xlate

theorem mmr_two63_succ : mmr (2^63 + 1) = 2^64 := by
  have pc : popcount (2^63 + 1) = 2 := by simp [popcount]
  unfold mmr; rw [pc]

/-- the peak map (number of leaves before the position) of a u64 position is at most `2^63` -/
theorem peak_map_le (pos : Nat) (h : pos < 2^64) : (peakMapHeight pos).1 ≤ 2^63 := by
  obtain ⟨n, k, hk, rfl⟩ := coord_surj pos
  rw [peakMapHeight_co n k hk]
  by_cases hn : n ≤ 2^63
  · exact hn
  · have := mmr_le_mmr (show 2^63 + 1 ≤ n by omega)
    rw [mmr_two63_succ] at this
    omega

/-- … and at most `2^63 − 1` when the position is not a leaf: `insert_idx + 1` never wraps -/
theorem peak_map_lt_of_node (pos : Nat) (h : pos < 2^64) (hh : (peakMapHeight pos).2 ≠ 0) :
    (peakMapHeight pos).1 + 1 ≤ 2^63 := by
  obtain ⟨n, k, hk, rfl⟩ := coord_surj pos
  rw [peakMapHeight_co n k hk] at hh ⊢
  simp only at hh ⊢
  by_cases hn : n + 1 ≤ 2^63
  · exact hn
  · -- n ≥ 2^63: a node above leaf n has k ≥ 1 trailing ones in n, so n ≥ 2^63 + 1
    have hn' : n = 2^63 ∨ 2^63 + 1 ≤ n := by omega
    rcases hn' with e | e
    · subst e
      have t : trailingOnes (2^63) = 0 := by simp [trailingOnes]
      omega
    · have := mmr_le_mmr e
      rw [mmr_two63_succ] at this
      omega

/-! ## `insertion_to_pmmr_index` -/

/-- exact for `n ≤ 2^63` (below `2^63` nothing wraps, at `2^63` the two wraps cancel) -/
theorem insertion_to_pmmr_index_exact (n : Nat) (h : n ≤ 2^63) :
    U64.insertionToPmmrIndex n = insertionToPmmrIndex n := by
  unfold U64.insertionToPmmrIndex insertionToPmmrIndex mmr
  have hp := popcount_le n
  by_cases hlt : n < 2^63
  · rw [mulW_eq (by omega), subW_eq (by omega) (by omega)]
  · have hn : n = 2^63 := by omega
    have pc : popcount (2^63) = 1 := by simp [popcount]
    subst hn
    rw [pc]; unfold mulW subW; omega

/-- the bound is exact: at `2^63 + 1` the code answers 0, the definition `2^64` -/
theorem insertion_to_pmmr_index_wraps :
    U64.insertionToPmmrIndex (2^63 + 1) = 0 ∧ insertionToPmmrIndex (2^63 + 1) = 2^64 := by
  have pc : popcount (2^63 + 1) = 2 := by simp [popcount]
  unfold U64.insertionToPmmrIndex insertionToPmmrIndex mmr
  rw [pc]; unfold mulW subW; omega

/-! ## `round_up_to_leaf_pos`: total -/

/-- for EVERY u64 position the code computes the definition's value (the leaf index handed to
`insertion_to_pmmr_index` is at most `2^63`), and that value is a u64 -/
theorem round_up_to_leaf_pos_total (pos : Nat) (h : pos < 2^64) :
    U64.roundUpToLeafPos pos = roundUpToLeafPos pos ∧ roundUpToLeafPos pos < 2^64 := by
  have key : ∀ n, n ≤ 2^63 → mmr n < 2^64 := by
    intro n hn
    have := mmr_lt_mmr (show n < 2^63 + 1 by omega)
    rw [mmr_two63_succ] at this; exact this
  unfold U64.roundUpToLeafPos roundUpToLeafPos
  by_cases hz : (peakMapHeight pos).2 = 0
  · simp only [hz, beq_self_eq_true, if_true]
    have b := peak_map_le pos h
    exact ⟨insertion_to_pmmr_index_exact _ b, key _ b⟩
  · simp only [beq_iff_eq, hz, if_false]
    have b := peak_map_lt_of_node pos h hz
    exact ⟨insertion_to_pmmr_index_exact _ b, key _ b⟩

/-! ## `family`, `is_left_sibling` -/

/-- `family(pos0)` for `pos0 < 2^63` (the parent `pos0 + 2·2^h ≤ 2·pos0 + 2` fits a u64) -/
theorem family_exact (pos : Nat) (h : pos < 2^63) : U64.family pos = family pos := by
  unfold U64.family family
  have b := (pmh_bounds pos).1
  have hh : (peakMapHeight pos).2 < 64 := height_lt_64 (by omega)
  simp only [shlW_one_left hh]
  rw [mulW_eq (by omega)]
  by_cases hb : bitSet (peakMapHeight pos).1 (peakMapHeight pos).2 = true
  · have r := right_child_room hb
    simp only [hb, if_true]
    rw [addW_eq (by omega), subW_eq (by omega) (by omega)]
  · simp only [hb, Bool.false_eq_true, if_false]
    rw [addW_eq (by omega), subW_eq (by omega) (by have := two_pow_pos (peakMapHeight pos).2; omega)]

/-- beyond: the first leaf after the perfect tree of `2^64 − 1` nodes, `u64::MAX`, has its parent
beyond the u64 range: the code answers `(1, 0)`, the definition `(2^64 + 1, 2^64)` -/
theorem family_wraps_at_max :
    U64.family (2^64 - 1) = (1, 0) ∧ family (2^64 - 1) = (2^64 + 1, 2^64) := by
  have m : mmr (2^63) = 2^64 - 1 := by
    have pc : popcount (2^63) = 1 := by simp [popcount]
    unfold mmr; rw [pc]
  have t : trailingOnes (2^63) = 0 := by simp [trailingOnes]
  have p := peakMapHeight_co (2^63) 0 (by omega)
  rw [Nat.add_zero, m] at p
  unfold U64.family family
  rw [p]
  have nb : bitSet (2^63) 0 = false := by simp [bitSet]
  simp only [nb, Bool.false_eq_true, if_false]
  constructor
  · simp [shlW, mulW, addW, subW]
  · simp

/-- `is_left_sibling` is total on u64 (`1 << height`, `height ≤ 63`) and says where the sibling sits:
a position is a left sibling exactly when its sibling is the position just before the parent -/
theorem is_left_sibling_iff (pos : Nat) :
    isLeftSibling pos = true ↔ (family pos).2 + 1 = (family pos).1 := by
  unfold isLeftSibling family
  have hp := two_pow_pos (peakMapHeight pos).2
  by_cases hb : bitSet (peakMapHeight pos).1 (peakMapHeight pos).2 = true
  · have r := right_child_room hb
    simp only [hb, Bool.not_true, Bool.false_eq_true, if_true, false_iff]
    omega
  · simp only [hb, Bool.not_eq_true, Bool.false_eq_true, if_false]
    have : bitSet (peakMapHeight pos).1 (peakMapHeight pos).2 = false := by simpa using hb
    simp only [this, Bool.not_false, true_iff]
    omega

theorem height_u64 (pos : Nat) (h : pos < 2^64) : height pos ≤ 63 := by
  have := height_lt_64 h
  unfold height; omega

/-! ## subtree ranges -/

/-- `bintree_leftmost(pos0)` for `pos0 + 2 < 2^64` -/
theorem bintree_leftmost_exact (pos : Nat) (h : pos + 2 < 2^64) :
    U64.bintreeLeftmost pos = bintreeLeftmost pos := by
  unfold U64.bintreeLeftmost bintreeLeftmost
  have b := (pmh_bounds pos).1
  have hh : (peakMapHeight pos).2 < 64 := height_lt_64 (by omega)
  have e : shlW 2 (height pos) = 2 * 2^(height pos) := by
    unfold height; rw [shlW_eq hh (by omega)]
  rw [e, addW_eq h]
  exact subW_eq h (by unfold height; omega)

/-- `bintree_range(pos0)` for `pos0 + 2 < 2^64` -/
theorem bintree_range_exact (pos : Nat) (h : pos + 2 < 2^64) :
    U64.bintreeRange pos = bintreeRange pos := by
  unfold U64.bintreeRange
  rw [bintree_leftmost_exact pos h, addW_eq (by omega)]
  rfl

/-- `bintree_rightmost` is total: `pos0 - height` cannot underflow -/
theorem bintree_rightmost_total (pos : Nat) : height pos ≤ pos := height_le_pos pos

/- NOT proven here: `bintree_leaf_pos_iter(pos0)` for `pos0 + 2 < 2^64` (intended statement:
`U64.bintreeLeafPosIter pos = bintreeLeafPosIter pos`, because every leaf index of the range is at most
`2^63` — `peak_map_le` — so every `insertion_to_pmmr_index` in it is exact,
`insertion_to_pmmr_index_exact`).  The two definitions `match` on `peak_map_height` of symbolic
positions; every tactic that touches the discriminants (`unfold`, `generalize`, `cases … :`) makes the
elaborator evaluate them and does not return.  Covered by the `leafiterw` lines of `pmmr arith`. -/

end GV.Props.C07U64
