import GrinVerif.Model.StoreProtect
import GrinVerif.Lemmas.StoreBlocks
/-! C08, the glue between chain and store at compaction time: which positions the walk
`input_pos_to_rewind` hands to `check_compact` as `rewind_rm_pos`, which positions a compaction
removes, and hence which positions MUST be in that bitmap.

* `walk_collects`: the walk returns exactly the positions listed in the spent index of the blocks
  above the horizon height that have one (a block without a record contributes nothing - the code
  skips it silently).
* `walk_is_the_bookkeeping`: if every block above the horizon has its spent index and the index of
  a block lists exactly the outputs unspent before it and spent after it, the walk returns the
  bitmap `Book.emit (.compact c)` passes (`spentAfter`), i.e. the argument for which
  `chain_bookkeeping_conforms`, `protected_never_compacted`, `protected_never_pruned` are proved.
* `compaction_removes_exactly_unprotected`: `check_compact(cutoff, rm)` removes a leaf iff it lies
  at or below the cutoff, is spent, not yet pruned and NOT in `rm`.
* `must_protect`: hence a spent leaf at or below the cutoff survives iff it is in `rm`; every leaf a
  rewind inside the horizon may make unspent again has to be there - a leaf missing from the bitmap
  (block record missing, off-by-one at the head or at the horizon) is gone after the compaction. -/
namespace GV.Props.C08Protect
open GV GV.Pmmr GV.Store

theorem mem_ofList {l : List Nat} {y : Nat} : y ∈ Bm.ofList l ↔ y ∈ l := by
  have : Bm.ofList l = Bm.or [] l := rfl
  rw [this, mem_or]; simp

theorem takeWhile_all {α : Type} (p : α → Bool) : ∀ (l : List α), (∀ a ∈ l, p a = true) → l.takeWhile p = l := by
  intro l
  induction l with
  | nil => intro _; rfl
  | cons a t ih =>
    intro h
    rw [List.takeWhile_cons_of_pos (h a List.mem_cons_self), ih (fun b hb => h b (List.mem_cons_of_mem _ hb))]

/-- **walk_collects.**  A position is in the bitmap iff some header on the walk whose height is
above the horizon's - with all headers before it on the walk above it too - has a spent index
that lists it. -/
theorem walk_collects (h : Nat) : ∀ (path : List BlkRec) (x : Nat),
    x ∈ inputPosToRewind h path ↔
      ∃ b ∈ path.takeWhile (fun b => decide (b.height > h)), ∃ l, b.spent = some l ∧ x ∈ l := by
  intro path
  induction path with
  | nil => intro x; simp [inputPosToRewind]
  | cons b rest ih =>
    intro x
    simp only [inputPosToRewind]
    by_cases hb : b.height > h
    · rw [if_pos hb, mem_or, mem_ofList, ih x, List.takeWhile_cons_of_pos (by simpa using hb)]
      constructor
      · rintro (hx | ⟨b', hb', l, hl, hxl⟩)
        · cases hs : b.spent with
          | none => rw [hs] at hx; simp at hx
          | some l => rw [hs] at hx; exact ⟨b, List.mem_cons_self, l, hs, by simpa using hx⟩
        · exact ⟨b', List.mem_cons_of_mem _ hb', l, hl, hxl⟩
      · rintro ⟨b', hb', l, hl, hxl⟩
        rcases List.mem_cons.1 hb' with rfl | hb''
        · left; rw [hl]; simpa using hxl
        · right; exact ⟨b', hb'', l, hl, hxl⟩
    · rw [if_neg hb, List.takeWhile_cons_of_neg (by simpa using hb)]
      simp

/-- the spent-index records of the blocks between consecutive boundaries, lowest first: the block
that leads from boundary `a` to boundary `b` spent exactly the outputs unspent at `a` and not at
`b` (1-based positions); heights count up from `h + 1` -/
def blockRecs : Nat → List Bnd → List BlkRec
  | h, a :: b :: rest =>
    ⟨h + 1, some ((a.U.filter fun q => !b.U.elem q).map (· + 1))⟩ :: blockRecs (h + 1) (b :: rest)
  | _, _ => []

theorem blockRecs_heights : ∀ (l : List Bnd) (h : Nat), ∀ r ∈ blockRecs h l, r.height > h := by
  intro l
  induction l with
  | nil => intro h r hr; simp [blockRecs] at hr
  | cons a t ih =>
    intro h r hr
    cases t with
    | nil => simp [blockRecs] at hr
    | cons b rest =>
      simp only [blockRecs, List.mem_cons] at hr
      rcases hr with rfl | hr
      · simp
      · have := ih (h + 1) r hr; omega

theorem mem_blockRecs_spent : ∀ (l : List Bnd) (h : Nat) (x : Nat),
    (∃ r ∈ blockRecs h l, ∃ s, r.spent = some s ∧ x ∈ s) ↔ x ∈ (spentAfter l).map (· + 1) := by
  intro l
  induction l with
  | nil => intro h x; simp [blockRecs, spentAfter]
  | cons a t ih =>
    intro h x
    cases t with
    | nil => simp [blockRecs, spentAfter]
    | cons b rest =>
      simp only [blockRecs, spentAfter, List.map_append, List.mem_append, List.mem_cons]
      rw [← ih (h + 1) x]
      constructor
      · rintro ⟨r, (rfl | hr), s, hs, hx⟩
        · left; simp only [Option.some.injEq] at hs; rw [hs]; exact hx
        · right; exact ⟨r, hr, s, hs, hx⟩
      · rintro (hx | ⟨r, hr, s, hs, hx⟩)
        · exact ⟨_, Or.inl rfl, _, rfl, hx⟩
        · exact ⟨r, Or.inr hr, s, hs, hx⟩

/-- **walk_is_the_bookkeeping.**  Boundaries `l` = the cutoff boundary (the horizon block, height
`c`) followed by the boundaries of the blocks after it up to the head; every one of those blocks
has its spent index, listing what it spent.  Then the walk from the head down to the horizon
returns, as a set, exactly `spentAfter l` shifted to 1-based positions - the `rewind_rm_pos` of
`Book.emit (.compact c)`. -/
theorem walk_is_the_bookkeeping (c : Nat) (l : List Bnd) (x : Nat) :
    x ∈ inputPosToRewind c (blockRecs c l).reverse ↔ x ∈ (spentAfter l).map (· + 1) := by
  rw [walk_collects, ← mem_blockRecs_spent l c x]
  have hall : (blockRecs c l).reverse.takeWhile (fun b => decide (b.height > c)) = (blockRecs c l).reverse := by
    apply takeWhile_all
    intro r hr
    simpa using blockRecs_heights l c r (List.mem_reverse.1 hr)
  rw [hall]
  constructor
  · rintro ⟨b, hb, s, hs, hx⟩; exact ⟨b, List.mem_reverse.1 hb, s, hs, hx⟩
  · rintro ⟨b, hb, s, hs, hx⟩; exact ⟨b, List.mem_reverse.2 hb, s, hs, hx⟩

/-- **compaction_removes_exactly_unprotected.**  The leaves `check_compact(cutoff, rm)` removes
(`pos_to_rm(..).0`, OR-ed into the prune list): 1-based leaf positions at or below the cutoff that
are not in the leaf set, not in `rm`, and not pruned already. -/
theorem compaction_removes_exactly_unprotected {H : Type} (b : Backend H) (cutoff : Nat) (rm : Bitmap)
    (hs : Sorted b.leafSet.bitmap) (x : Nat) :
    x ∈ (b.posToRm cutoff rm).1 ↔
      1 ≤ x ∧ x ≤ cutoff ∧ x ∉ b.leafSet.bitmap ∧ x ∉ rm ∧ isLeaf (x - 1) = true ∧
        b.pruneList.isPruned (x - 1) = false :=
  LeafSet.mem_removedPreCutoff_iff hs

/-- **must_protect.**  A spent, not yet pruned leaf at or below the cutoff survives the compaction
(is not handed to the new prune list) iff the chain put it into `rewind_rm_pos`.  So the bitmap has
to contain every leaf at or below the cutoff that is spent now and unspent at some boundary a
rewind may still target; by `walk_is_the_bookkeeping` the walk delivers exactly the leaves spent by
the blocks above the horizon, which contains them all (`protected_never_pruned`). -/
theorem must_protect {H : Type} (b : Backend H) (cutoff : Nat) (rm : Bitmap)
    (hs : Sorted b.leafSet.bitmap) (x : Nat) (h1 : 1 ≤ x) (hc : x ≤ cutoff)
    (hspent : x ∉ b.leafSet.bitmap) (hl : isLeaf (x - 1) = true)
    (hnp : b.pruneList.isPruned (x - 1) = false) :
    x ∉ (b.posToRm cutoff rm).1 ↔ x ∈ rm := by
  rw [compaction_removes_exactly_unprotected b cutoff rm hs x]
  constructor
  · intro h
    cases Decidable.em (x ∈ rm) with
    | inl hm => exact hm
    | inr hn => exact absurd ⟨h1, hc, hspent, hn, hl, hnp⟩ h
  · intro hm h; exact h.2.2.2.1 hm

/-! ### non-vacuity, and what a missing record does -/

/-- three blocks above the horizon (height 10); the walk ORs their spent indices, the horizon
block's own spends (height 10) and everything below are not included -/
example : inputPosToRewind 10 [⟨13, some [4, 9]⟩, ⟨12, some []⟩, ⟨11, some [2]⟩, ⟨10, some [1]⟩, ⟨9, some [5]⟩]
    = [2, 4, 9] := by decide

/-- a block without a spent-index record is skipped silently: position 2, spent by block 11, is no
longer protected and `must_protect` says the compaction removes it -/
example : inputPosToRewind 10 [⟨13, some [4, 9]⟩, ⟨12, some []⟩, ⟨11, none⟩, ⟨10, some [1]⟩] = [4, 9] := by
  decide

/-- boundaries: 3 leaves unspent; the next block spends position 0 and adds a leaf; the next spends
position 3.  The walk from the head to the first boundary returns the 1-based positions 1 and 4. -/
example : inputPosToRewind 7 (blockRecs 7 [⟨3, [0, 1, 3]⟩, ⟨4, [1, 3, 4]⟩, ⟨4, [1, 4]⟩]).reverse = [1, 4] := by
  decide

end GV.Props.C08Protect
