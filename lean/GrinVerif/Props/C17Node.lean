import GrinVerif.Gen.Locks
import GrinVerif.Gen.LocksNode
import GrinVerif.Lemmas.ConcGraph
import GrinVerif.Props.C17
/-! # C17 at node level — deadlock freedom from an ACYCLIC REGENERATED ORDER GRAPH

`Props/C17.lean` proves deadlock freedom for ops of chain.rs from a rank function written by hand
(`Lock.rank`) and lists as an assumption that nobody locks around the chain from outside.  A running
node does: the transaction pool lock (`servers` `ServerTxPool`), held by the pool-facing adapters WHILE
they call into the chain and taken by the callback `Chain::process_block` makes; the Dandelion epoch lock;
the pool's reorg cache; the `SyncState` locks, taken UNDER the chain's write locks through the status
object handed into `txhashset_write` / the desegmenter.

Here (session 9):
* `Gen/LocksNode.lean` — regenerated on every run by `tools/gen_locks_node.py` from adapters.rs,
  pool/src/{pool,transaction_pool}.rs, chain/src/types.rs, mine_block.rs, dandelion_monitor.rs and the
  chain-level table: `nodeTable` (84 entry points with every call into the chain inlined, the chain's
  callback replaced by `ChainToPoolAndNetAdapter::block_accepted`, the status calls by `SyncState::update`)
  and `chainTableN` (every chain-level entry as it runs inside a node).
* NO rank is written by hand: the obligation on the table is that its ORDER GRAPH (edge `(h, l)` iff
  some entry acquires `l` holding `h`, over ALL paths the translator emits) is acyclic, decided through
  an executable certificate (`acyclicB`: longest-path ranks computed from the graph itself).
* `deadlock_free_of_acyclic_order_graph`: for ANY alphabet, any number of threads, any programs that
  are well bracketed and whose edges lie in a certified graph: no reachable deadlock.
* `node_ops_deadlock_free`: instantiated at the regenerated node + chain table.

NOT covered: api/ handlers are not translated (see the generator's header); the locks inside one `Peer`
(send_handle / stop_handle Mutexes, connection channels); text-level translation as before.
Increment 2: servers/src/grin/sync/* and p2p/src/peers.rs (`impl Peers`) are inside the table. -/
namespace GV.Props.C17Node
open GV GV.Conc GV.Gen

/-- everything a node thread can run: the node-level entry points and the chain-level ops called directly -/
def fullNodeTable : List (String × List NodeEv) := nodeTable ++ chainTableN

/-- a Bool predicate decided on each generated chunk holds on the whole table (the kernel's evaluation
depth grows with the list, so the decisions are made per chunk) -/
theorem all_of_chunks (p : String × List NodeEv → Bool)
    (h1 : nodeTable1.all p = true) (h2 : nodeTable2.all p = true) (h3 : nodeTable3.all p = true)
    (h4 : nodeTable4.all p = true) (h5 : chainTableN.all p = true) : ∀ e ∈ fullNodeTable, p e = true := by
  intro e he
  simp only [fullNodeTable, nodeTable, List.mem_append] at he
  simp only [List.all_eq_true] at h1 h2 h3 h4 h5
  rcases he with (((h | h) | h) | h) | h
  · exact h1 e h
  · exact h2 e h
  · exact h3 e h
  · exact h4 e h
  · exact h5 e h

/-! ## obligations on the regenerated node table -/

/-- every entry releases only what it holds and ends holding nothing -/
theorem node_table_bracketed : ∀ e ∈ fullNodeTable, bracketedFrom [] e.2 = true :=
  all_of_chunks (fun e => bracketedFrom [] e.2) (by decide +kernel) (by decide +kernel) (by decide +kernel)
    (by decide +kernel) (by decide +kernel)

/-- **The order graph of the node, exactly** - 41 edges (22 up to increment 2): the chain-level order (`deseg < hp < ts < batch < deny`,
`orph < hidx`), the pool lock OUTSIDE everything it nests with (`pool → hp, ts, batch, deny, reorg, dand, secp`:
the adapters call `validate_tx` & co. holding `tx_pool`; increment 2: `pool → p2pPeers`, the broadcast of an
accepted transaction under the pool write lock takes p2p's `Peers.peers`), and `SyncState.current` INSIDE the
chain locks (`deseg, hp, ts, batch → syncCur`: the status callbacks of `txhashset_write` and of the desegmenter). -/
def nodeGraph : List (NLock × NLock) :=
  [(.chain .deseg, .chain .hp), (.chain .deseg, .chain .ts), (.chain .deseg, .chain .batch),
   (.chain .hp, .chain .ts), (.chain .hp, .chain .batch), (.chain .ts, .chain .batch),
   (.chain .hp, .chain .deny), (.chain .ts, .chain .deny), (.chain .batch, .chain .deny),
   (.chain .orph, .chain .hidx),
   (.chain .deseg, .syncCur), (.chain .hp, .syncCur), (.chain .ts, .syncCur), (.chain .batch, .syncCur),
   (.pool, .chain .hp), (.pool, .chain .ts), (.pool, .chain .batch), (.pool, .chain .deny),
   (.pool, .reorg), (.pool, .dand), (.pool, .secp), (.pool, .p2pPeers),
   -- increment 3: the Mutexes of one Peer (send under the pool / Dandelion lock, stop under Peers.peers)
   (.pool, .peerSend), (.pool, .peerStop), (.dand, .peerSend), (.p2pPeers, .peerStop),
   -- increment 3: the stratum server holds `current_state` ACROSS Chain::process_block (handle_submit) and
   -- across mine_block::get_block (run): it is outside the pool lock and every chain lock
   (.stratumState, .pool), (.stratumState, .chain .hp), (.stratumState, .chain .ts), (.stratumState, .chain .batch),
   (.stratumState, .chain .deny), (.stratumState, .chain .orph), (.stratumState, .chain .hidx),
   (.stratumState, .reorg), (.stratumState, .secp), (.stratumState, .p2pPeers), (.stratumState, .peerSend),
   (.stratumState, .peerStop), (.stratumState, .stratumStats), (.stratumState, .stratumWorkers),
   (.stratumStats, .stratumWorkers)]

/-- every edge any entry contributes (over all its acquisitions) is an edge of `nodeGraph` -/
theorem node_edges_in_graph : ∀ t ∈ fullNodeTable, ∀ e ∈ edgesFrom [] t.2, e ∈ nodeGraph := by
  have h := all_of_chunks (fun t => (edgesFrom [] t.2).all (fun e => nodeGraph.contains e))
    (by decide +kernel) (by decide +kernel) (by decide +kernel) (by decide +kernel) (by decide +kernel)
  intro t ht e he
  have := h t ht
  simp only [List.all_eq_true, List.contains_iff_mem] at this
  exact this e he

/-- … and each edge of `nodeGraph` is contributed by some entry -/
theorem node_graph_edges_occur : ∀ e ∈ nodeGraph, ∃ t ∈ fullNodeTable, e ∈ edgesFrom [] t.2 := by
  have h : nodeGraph.all (fun e => nodeTable1.any (fun t => (edgesFrom [] t.2).contains e) ||
      nodeTable2.any (fun t => (edgesFrom [] t.2).contains e) || nodeTable3.any (fun t => (edgesFrom [] t.2).contains e) ||
      nodeTable4.any (fun t => (edgesFrom [] t.2).contains e) || chainTableN.any (fun t => (edgesFrom [] t.2).contains e)) = true := by
    decide +kernel
  simp only [List.all_eq_true, Bool.or_eq_true, List.any_eq_true, List.contains_iff_mem] at h
  intro e he
  have hm : ∀ t, (t ∈ nodeTable1 ∨ t ∈ nodeTable2 ∨ t ∈ nodeTable3 ∨ t ∈ nodeTable4 ∨ t ∈ chainTableN) → t ∈ fullNodeTable := by
    intro t ht
    simp only [fullNodeTable, nodeTable, List.mem_append]
    rcases ht with h | h | h | h | h
    · exact Or.inl (Or.inl (Or.inl (Or.inl h)))
    · exact Or.inl (Or.inl (Or.inl (Or.inr h)))
    · exact Or.inl (Or.inl (Or.inr h))
    · exact Or.inl (Or.inr h)
    · exact Or.inr h
  rcases h e he with (((⟨t, ht, hx⟩ | ⟨t, ht, hx⟩) | ⟨t, ht, hx⟩) | ⟨t, ht, hx⟩) | ⟨t, ht, hx⟩
  · exact ⟨t, hm t (Or.inl ht), hx⟩
  · exact ⟨t, hm t (Or.inr (Or.inl ht)), hx⟩
  · exact ⟨t, hm t (Or.inr (Or.inr (Or.inl ht))), hx⟩
  · exact ⟨t, hm t (Or.inr (Or.inr (Or.inr (Or.inl ht)))), hx⟩
  · exact ⟨t, hm t (Or.inr (Or.inr (Or.inr (Or.inr ht)))), hx⟩

/-- **The order graph regenerated from /repo is exactly `nodeGraph`.**  A change in /repo that adds a
nesting (or removes one) breaks this theorem even when the graph stays acyclic. -/
theorem node_order_graph_is (e : NLock × NLock) : e ∈ orderGraph fullNodeTable ↔ e ∈ nodeGraph := by
  rw [mem_orderGraph]
  constructor
  · rintro ⟨t, ht, he⟩; exact node_edges_in_graph t ht e he
  · exact node_graph_edges_occur e

/-- **The order graph of the node is acyclic**: the certificate (longest-path ranks COMPUTED from the graph,
no hand-written rank) accepts it; hence there is no directed cycle of any length through the entries of the
table - no re-acquisition (self-loop), no inversion (2-cycle), no longer cycle. -/
theorem node_order_graph_acyclic :
    acyclicB nodeGraph = true ∧ ∀ a, ¬ Path (orderGraph fullNodeTable) a a := by
  have hc : acyclicB nodeGraph = true := by decide +kernel
  refine ⟨hc, ?_⟩
  intro a hp
  have mono : ∀ x y, Path (orderGraph fullNodeTable) x y → Path nodeGraph x y := by
    intro x y h
    induction h with
    | single hab => exact Path.single ((node_order_graph_is _).1 hab)
    | cons hab _ ih => exact Path.cons ((node_order_graph_is _).1 hab) ih
  exact acyclicB_no_cycle nodeGraph hc a (mono a a hp)

/-- The pool lock is outermost but for the stratum server: it is acquired holding nothing, or holding the
stratum `current_state` only (handle_submit keeps it across `Chain::process_block`, whose callback locks the
pool; run keeps it across `mine_block::get_block`) — in particular `Chain::process_block` reaches
`block_accepted` holding no chain lock and no pool-facing adapter calls `process_block` under the pool
lock.  Nothing is acquired under the `SyncState` locks, `secp`, `reorg`, p2p's `blocked` / per-peer data locks,
the Mutexes of a `Peer`, the tracking caches, the stratum worker list: leaves. -/
theorem pool_outermost_sync_leaves :
    (∀ e ∈ orderGraph fullNodeTable, e.2 = NLock.pool → e.1 = .stratumState) ∧
    (∀ e ∈ orderGraph fullNodeTable, e.2 ≠ NLock.stratumState) ∧
    (∀ e ∈ orderGraph fullNodeTable,
      e.1 ≠ .syncCur ∧ e.1 ≠ .syncErr ∧ e.1 ≠ .syncSegs ∧ e.1 ≠ .secp ∧ e.1 ≠ .reorg ∧
      e.1 ≠ .p2pBlocked ∧ e.1 ≠ .p2pPeerData ∧ e.1 ≠ .peerState ∧ e.1 ≠ .peerSend ∧ e.1 ≠ .peerStop ∧
      e.1 ≠ .peerTrack ∧ e.1 ≠ .stratumWorkers) := by
  have h : ∀ e ∈ nodeGraph, (e.2 = NLock.pool → e.1 = .stratumState) ∧ e.2 ≠ NLock.stratumState ∧
      (e.1 ≠ .syncCur ∧ e.1 ≠ .syncErr ∧ e.1 ≠ .syncSegs ∧ e.1 ≠ .secp ∧ e.1 ≠ .reorg ∧
       e.1 ≠ .p2pBlocked ∧ e.1 ≠ .p2pPeerData ∧ e.1 ≠ .peerState ∧ e.1 ≠ .peerSend ∧ e.1 ≠ .peerStop ∧
       e.1 ≠ .peerTrack ∧ e.1 ≠ .stratumWorkers) := by decide
  exact ⟨fun e he => (h e ((node_order_graph_is e).1 he)).1, fun e he => (h e ((node_order_graph_is e).1 he)).2.1,
    fun e he => (h e ((node_order_graph_is e).1 he)).2.2⟩

/-- The callback of the chain, resolved: inside a node `Chain::process_block` is the only chain-level
entry that takes the pool lock (through `ChainToPoolAndNetAdapter::block_accepted`). -/
theorem only_process_block_takes_pool :
    (chainTableN.filter (fun e => e.2.any (fun ev => match ev with | .acq .pool _ => true | _ => false))).map (·.1)
      = ["Chain::process_block"] := by
  decide +kernel

/-- **p2p's own locks** (increment 2: `impl Peers` of p2p/src/peers.rs is translated, `self.peers().op(..)` /
`self.peers.op(..)` inline `Peers::op`): `Peers.peers`, `Peers.blocked` and the per-peer data locks are acquired
holding nothing or the pool write lock only - never under a chain lock or a `SyncState` lock - and nothing is
acquired under them (leaves: `pool_outermost_sync_leaves`).  No unresolved call into `Peers` is left in the
table (`!callback` marks are gone); what remains outside is a call on a single `Peer` (`send_*`: its
`send_handle` Mutex and the connection's channel), which the translator does not mark. -/
theorem p2p_locks_under_at_most_pool :
    (∀ e ∈ orderGraph fullNodeTable,
      (e.2 = .p2pPeers ∨ e.2 = .p2pBlocked ∨ e.2 = .p2pPeerData) → (e.1 = NLock.pool ∨ e.1 = .stratumState)) ∧
    (∀ e ∈ orderGraph fullNodeTable, (e.2 = .peerSend ∨ e.2 = .peerStop) →
      (e.1 = NLock.pool ∨ e.1 = .stratumState ∨ e.1 = .dand ∨ e.1 = .p2pPeers)) ∧
    (∀ e ∈ fullNodeTable, marksUnder .callback (fun _ => false) [] e.2 = true) := by
  have h1 : ∀ e ∈ nodeGraph, ((e.2 = .p2pPeers ∨ e.2 = .p2pBlocked ∨ e.2 = .p2pPeerData) → (e.1 = NLock.pool ∨ e.1 = .stratumState)) ∧
      ((e.2 = .peerSend ∨ e.2 = .peerStop) → (e.1 = NLock.pool ∨ e.1 = .stratumState ∨ e.1 = .dand ∨ e.1 = .p2pPeers)) := by decide
  exact ⟨fun e he => (h1 e ((node_order_graph_is e).1 he)).1, fun e he => (h1 e ((node_order_graph_is e).1 he)).2,
    all_of_chunks (fun e => marksUnder .callback (fun _ => false) [] e.2) (by decide +kernel) (by decide +kernel)
      (by decide +kernel) (by decide +kernel) (by decide +kernel)⟩

/-- The sync runners and the p2p-facing entry points are in the table (increment 2), and the ones that
move the chain do take its write locks. -/
theorem sync_and_p2p_entries_present :
    (∀ n ∈ ["SyncRunner::sync_loop", "HeaderSync::check_run", "BodySync::check_run", "StateSync::check_run",
            "StateSync::continue_pibd", "Peers::block_received", "Peers::transaction_received",
            "Peers::headers_received", "Peers::header_received", "Peers::broadcast_transaction",
            "Peers::broadcast_header", "Peers::ban_peer", "Peers::check_all", "Peers::clean_peers",
            "Stratum::handle_submit", "Stratum::run", "Miner::run_loop", "api::PoolHandler::push_transaction",
            "api::PoolPushHandler::post", "api::ChainCompactHandler::post", "api::OutputHandler::outputs_by_ids",
            "api::TxHashSetHandler::get_merkle_proof_for_output", "TrackingAdapter::block_received", "Peer::send_header",
            "Peer::stop"],
      (fullNodeTable.lookup n).isSome = true) ∧
    (∀ n ∈ ["Peers::block_received", "Peers::headers_received", "StateSync::check_run", "SyncRunner::sync_loop"],
      (fullNodeTable.lookup n).map (fun p => p.any (fun ev => match ev with | .acq (.chain .ts) .W => true | _ => false)) = some true) := by
  decide +kernel

/-- The two generated tables agree: erasing the node-level events from `chainTableN` gives back the
chain-level table of `Gen/Locks.lean` (without its `!callback` / `!status` marks, which `chainTableN`
resolves), entry by entry, in order — for every entry but `process_block`, whose callback is replaced by
the whole of `block_accepted` (chain-level events included: `only_process_block_takes_pool`). -/
def projEv : NodeEv → Option LockEv
  | .acq (.chain l) m => some (.acq l m)
  | .rel (.chain l) => some (.rel l)
  | .mark k => some (.mark k)
  | _ => none

def unresolved : LockEv → Bool
  | .mark .callback => false
  | .mark .status => false
  | _ => true

theorem chainTableN_projects_to_lockTable :
    (chainTableN.filter (fun e => e.1 != "Chain::process_block")).map (fun e => (e.1, (e.2.filterMap projEv).filter unresolved)) =
      (lockTable.filter (fun e => e.1 != "process_block")).map (fun e => ("Chain::" ++ e.1, e.2.filter unresolved)) ∧
    chainTableN.map (·.1) = lockTable.map (fun e => "Chain::" ++ e.1) := by
  decide +kernel

/-- every chain op the node-level code calls is an entry of the chain-level table -/
theorem chain_ops_reached_present : ∀ n ∈ chainOpsReached, (lockTable.lookup n).isSome = true := by
  decide +kernel

/-- The entry points the harness run `node` drives (and the ones the brief names) are in the table,
and the pool-facing ones do take the pool lock. -/
theorem node_harness_ops_present :
    (∀ n ∈ ["NetToChainAdapter::transaction_received", "NetToChainAdapter::block_received",
            "NetToChainAdapter::header_received", "NetToChainAdapter::headers_received",
            "NetToChainAdapter::locate_headers", "NetToChainAdapter::get_transaction",
            "NetToChainAdapter::tx_kernel_received", "NetToChainAdapter::txhashset_write",
            "NetToChainAdapter::receive_bitmap_segment", "ChainToPoolAndNetAdapter::block_accepted",
            "mine_block::build_block", "dandelion_monitor::process_fluff_phase",
            "dandelion_monitor::process_expired_entries", "SyncState::update", "SyncState::status",
            "SyncState::is_syncing", "Chain::process_block", "Chain::validate_tx", "Chain::compact"],
      (fullNodeTable.lookup n).isSome = true) ∧
    (∀ n ∈ ["NetToChainAdapter::transaction_received", "ChainToPoolAndNetAdapter::block_accepted",
            "NetToChainAdapter::block_received", "mine_block::build_block",
            "dandelion_monitor::process_fluff_phase", "dandelion_monitor::process_expired_entries",
            "Chain::process_block"],
      (fullNodeTable.lookup n).map (fun p => p.any (fun ev => match ev with | .acq .pool _ => true | _ => false)) = some true) := by
  decide +kernel

/-- **An api call is not one view.**  For every entry point of the node's public api objects
(`api/src/{foreign,owner}.rs`, with the handlers, `api/src/types.rs` printable constructors and the chain ops
they call inlined): the number of separate holds of `header_pmmr` / `txhashset` it takes = the number of views of
the chain state it combines (an upper bound: alternatives are emitted one after the other).  In particular
`get_unspent_outputs` = the listing under ONE hold + one look-up per listed output under a hold of its own
(`OutputPrintable::from_output` -> `Chain::get_unspent`; + the Merkle-proof extension when asked for): the position
it prints for an output may belong to a later committed state than the listing - why the paging oracle of the runs
`torn` / `node` judges a page call against committed states per ITEM, and accepts a repeated (commitment, position)
in a page sequence when the head moved (false alarm of increment 5, repaired).  The single-hold and lock-free
entries (`get_tip`, the pool sizes, `validate_chain`, `reset_chain_head` …) are one view.  A change that makes an
entry combine more (or fewer) views breaks the theorem. -/
theorem api_entry_views :
    ∀ nk ∈ [("api::Foreign::get_header", 7),
       ("api::Foreign::get_block", 9),
       ("api::Foreign::get_blocks", 9),
       ("api::Foreign::get_version", 0),
       ("api::Foreign::get_tip", 0),
       ("api::Foreign::get_kernel", 4),
       ("api::Foreign::get_outputs", 8),
       ("api::Foreign::get_unspent_outputs", 3),
       ("api::Foreign::get_pmmr_indices", 2),
       ("api::Foreign::get_pool_size", 0),
       ("api::Foreign::get_stempool_size", 0),
       ("api::Foreign::get_unconfirmed_transactions", 0),
       ("api::Foreign::push_transaction", 10),
       ("api::Owner::get_status", 0),
       ("api::Owner::validate_chain", 1),
       ("api::Owner::compact_chain", 2),
       ("api::Owner::reset_chain_head", 1),
       ("api::Owner::invalidate_header", 0),
       ("api::Owner::get_peers", 0),
       ("api::Owner::get_connected_peers", 0),
       ("api::Owner::ban_peer", 0),
       ("api::Owner::unban_peer", 0)],
      (fullNodeTable.lookup nk.1).map nodeHolds = some nk.2 := by
  decide +kernel

/-- the hold counter sees what it should -/
example : nodeHolds [.acq (.chain .ts) .R, .rel (.chain .ts), .acq .pool .R, .acq (.chain .hp) .R, .acq (.chain .ts) .R,
    .rel (.chain .ts), .rel (.chain .hp), .rel .pool] = 2 := by decide

/-- the table is not trivial: more than 100 acquisitions of node-level locks -/
example : ((fullNodeTable.flatMap (·.2)).filter (fun ev => match ev with
    | .acq (.chain _) _ => false | .acq _ _ => true | _ => false)).length ≥ 100 := by decide +kernel

/-! ## the certificate rejects what it should -/

example : acyclicB [(Lock.hp, Lock.ts), (Lock.ts, Lock.hp)] = false := by decide
example : acyclicB [(Lock.ts, Lock.ts)] = false := by decide
example : acyclicB [(Lock.hp, Lock.ts), (Lock.ts, Lock.batch), (Lock.batch, Lock.hp)] = false := by decide
example : acyclicB [(Lock.hp, Lock.ts), (Lock.ts, Lock.batch), (Lock.hp, Lock.batch)] = true := by decide
/-- a pool-facing op calling into the chain while the chain's callback takes the pool lock UNDER a chain
lock (what `table_callbacks_unlocked` + `pool_outermost_sync_leaves` exclude) would be a cycle -/
example : acyclicB (orderGraph [("tx", [Ev.acq NLock.pool .W, .acq (.chain .ts) .R, .rel (.chain .ts), .rel .pool]),
                                ("blk", [.acq (.chain .ts) .W, .acq .pool .W, .rel .pool, .rel (.chain .ts)])]) = false := by
  decide
/-- edges of a program: held × acquired, a re-acquisition is a self-loop -/
example : edgesFrom [] [Ev.acq Lock.hp .W, .acq .ts .W, .rel .ts, .acq .batch .W, .rel .batch, .rel .hp]
    = [(.hp, .ts), (.hp, .batch)] := by decide
example : edgesFrom [] [Ev.acq Lock.ts .R, .acq .ts .R] = [(.ts, .ts)] := by decide

/-! ## deadlock freedom from an acyclic order graph -/
section
variable {L : Type} [DecidableEq L]

/-- **No reachable deadlock when the order graph is acyclic.**  Any lock alphabet, any number of threads,
any admissible writer-preference policy: if every program is well bracketed and every edge it
contributes to the order graph (over all its acquisitions) lies in a graph `G` that passes the
acyclicity certificate, then no reachable state is deadlocked.  (No rank function is assumed: it is
computed from `G`.) -/
theorem deadlock_free_of_acyclic_order_graph (P : Policy L) (hP : PolicyOK P) (G : List (L × L))
    (hG : acyclicB G = true) (progs : List (List (Ev L)))
    (hb : ∀ p ∈ progs, bracketedFrom [] p = true) (hsub : ∀ p ∈ progs, ∀ e ∈ edgesFrom [] p, e ∈ G)
    (s : State L) (hr : Reach P (init progs) s) : ¬ Deadlocked P s :=
  GV.Props.C17.deadlock_free (rankOf (computeRank G)) P hP progs
    (fun p hp => checkFrom_of_graph G hG p (hb p hp) (hsub p hp)) s hr

/-- what the certificate means: a certified graph has no directed cycle of any length -/
theorem certified_graph_has_no_cycle (G : List (L × L)) (hG : acyclicB G = true) (a : L) : ¬ Path G a a :=
  acyclicB_no_cycle G hG a

/-- the rank discipline of `Props/C17` and the order-graph formulation are the same thing -/
theorem discipline_iff_graph (rank : L → Nat) (p : List (Ev L)) :
    checkFrom rank [] p = true ↔ (bracketedFrom [] p = true ∧ ∀ e ∈ edgesFrom [] p, rank e.1 < rank e.2) :=
  checkFrom_iff_edges rank p []

end

/-- non-vacuity: three well-bracketed programs whose joint order graph is certified -/
example : (∀ p ∈ [[Ev.acq NLock.pool .W, .acq (.chain .hp) .R, .acq (.chain .ts) .R, .rel (.chain .ts), .rel (.chain .hp), .rel .pool],
                  [.acq (.chain .hp) .W, .acq (.chain .ts) .W, .acq .syncCur .W, .rel .syncCur, .rel (.chain .ts), .rel (.chain .hp)],
                  [.acq .pool .R, .rel .pool]], bracketedFrom [] p = true) ∧
    acyclicB [(NLock.pool, NLock.chain .hp), (.pool, .chain .ts), (.chain .hp, .chain .ts), (.chain .hp, .syncCur), (.chain .ts, .syncCur)] = true := by
  decide

/-- **Node-level deadlock freedom**: any number of threads, each running any sequence of entry points of
the regenerated node table (peers delivering blocks / headers / transactions / segments through
`NetToChainAdapter`, the chain's callback into the pool, the miner's `build_block`, the Dandelion
monitor, `SyncState` users, and every chain-level op called directly), under strict writer preference:
no reachable state is deadlocked. -/
theorem node_ops_deadlock_free (threads : List (List String))
    (hknown : ∀ th ∈ threads, ∀ n ∈ th, (fullNodeTable.lookup n).isSome = true) (s : State NLock)
    (hr : Reach strictWP (init (threads.map (fun th => (th.map (fun n => (fullNodeTable.lookup n).getD [])).flatten))) s) :
    ¬ Deadlocked strictWP s := by
  apply GV.Props.C17.deadlock_free (rankOf (computeRank nodeGraph)) strictWP (fun _ _ _ h => h) _ _ s hr
  intro p hp
  simp only [List.mem_map] at hp
  obtain ⟨th, hth, rfl⟩ := hp
  apply checkFrom_flatten
  intro q hq
  simp only [List.mem_map] at hq
  obtain ⟨n, hn, rfl⟩ := hq
  cases hl : fullNodeTable.lookup n with
  | none => have := hknown th hth n hn; rw [hl] at this; cases this
  | some evs =>
    simp only [Option.getD_some]
    have hm := lookup_mem hl
    exact checkFrom_of_graph nodeGraph node_order_graph_acyclic.1 evs (node_table_bracketed (n, evs) hm)
      (fun e he => node_edges_in_graph (n, evs) hm e he)

/-- non-vacuity of `node_ops_deadlock_free`: a four-thread instance whose ops are all in the table -/
example : ∀ th ∈ [["NetToChainAdapter::block_received", "NetToChainAdapter::transaction_received"],
                  ["NetToChainAdapter::transaction_received", "mine_block::build_block"],
                  ["dandelion_monitor::process_fluff_phase", "Chain::compact"],
                  ["NetToChainAdapter::txhashset_write", "SyncState::status"]],
    ∀ n ∈ th, (fullNodeTable.lookup n).isSome = true := by decide +kernel

/-- The executable enabledness test of the driver's node-level replay (`conc nodesim`) decides the
`Enabled` relation of the transition system under strict writer preference, for any alphabet. -/
theorem driver_node_scheduler_is_model {L : Type} [DecidableEq L] (s : State L) (i : Nat) :
    enabledG s i = true ↔ Enabled strictWP s i :=
  enabledG_iff s i

end GV.Props.C17Node
