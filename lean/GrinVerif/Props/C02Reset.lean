import GrinVerif.Model.ChainReset
/-! C02 / C06 for `Chain::reset_chain_head` (`Model/ChainReset.lean`): a reset that succeeds leaves
the node reporting exactly the replay of the NEW head's own path, changes nothing else but the two
heads, and a reset that fails changes nothing. -/

namespace GV.Props.C02Reset
open GV GV.Chain

/-- what a successful reset changes: the body head, and the header head iff asked to -/
theorem reset_frame (p : Params) (n n' : Node) (t : Nat) (rh : Bool)
    (h : resetChainHead p n t rh = .ok n') :
    n'.head = t ∧ n'.hhead = (if rh then t else n.hhead) ∧ n'.stored = n.stored ∧
    n'.headers = n.headers ∧ n'.blks = n.blks ∧ n'.outs = n.outs ∧ n'.orphans = n.orphans := by
  unfold resetChainHead at h
  split at h
  · cases h
  · split at h
    · split at h
      · cases h
      · split at h
        · cases h
        · injection h with h; subst h; exact ⟨rfl, rfl, rfl, rfl, rfl, rfl, rfl⟩
    · cases h

/-- a successful reset targets a block whose own path replays without a fault -/
theorem reset_target_replays (p : Params) (n n' : Node) (t : Nat) (rh : Bool)
    (h : resetChainHead p n t rh = .ok n') : ∃ s, n.stateAt p t = .ok s := by
  unfold resetChainHead at h
  split at h
  · cases h
  · split at h
    · split at h
      · cases h
      · split at h
        · cases h
        · rename_i s hs; exact ⟨s, hs⟩
    · cases h

/-- after a successful reset the node reports the replay of the new head's own path (the state a
node that only ever saw that path reports) -/
theorem reset_reports_replay_of_target (p : Params) (n n' : Node) (t : Nat) (rh : Bool)
    (h : resetChainHead p n t rh = .ok n') :
    ∃ s, n.stateAt p t = .ok s ∧ n'.reportedUtxo p = s.utxo.map (·.1) := by
  obtain ⟨s, hs⟩ := reset_target_replays p n n' t rh h
  obtain ⟨hh, _, _, _, hb, ho, _⟩ := reset_frame p n n' t rh h
  refine ⟨s, hs, ?_⟩
  have hst : n'.stateAt p n'.head = n.stateAt p t := by
    rw [hh]
    unfold Node.stateAt Node.path
    rw [hb]
    have : ∀ fuel id acc, pathTo n' fuel id acc = pathTo n fuel id acc := by
      intro fuel
      induction fuel with
      | zero => intro id acc; rfl
      | succ k ih =>
        intro id acc
        unfold pathTo Node.blk
        rw [hb]
        cases n.blks.find? (·.id == id) with
        | none => rfl
        | some b =>
          simp only
          cases hq : b.parent with
          | none => rfl
          | some q => simp only; exact ih q (b :: acc)
    rw [this]
  unfold Node.reportedUtxo
  rw [hst, hs]

/-- non-vacuity: a three-block chain reset to its middle block -/
private def g0 : Blk := { id := 0, parent := none, h := 0, work := 1, ver := 1, ts := 0, ins := [], outs := [(0, true)], kers := [.cb], tags := [] }
private def mk (id par h work : Nat) : Blk :=
  { id, parent := some par, h, work, ver := 1, ts := h, ins := [], outs := [(id, true)], kers := [.cb], tags := [] }
private def n3 : Node :=
  { blks := [g0, mk 1 0 1 2, mk 2 1 2 3], headers := [0, 1, 2], stored := [0, 1, 2], head := 2, hhead := 2,
    outs := [⟨0, true, GV.Gen.REWARD⟩, ⟨1, true, GV.Gen.REWARD⟩, ⟨2, true, GV.Gen.REWARD⟩] }

example : (match resetChainHead {} n3 1 true with
    | .ok n' => n'.head == 1 && n'.hhead == 1 && n'.reportedUtxo {} == [0, 1]
    | .error _ => false) = true := by decide

end GV.Props.C02Reset
