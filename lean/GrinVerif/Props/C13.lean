import GrinVerif.Lemmas.ChainBasic
import GrinVerif.Lemmas.ChainApply
import GrinVerif.Lemmas.ChainExampleFacts
import GrinVerif.Lemmas.ChainImplRefine
/-! # C13 — coinbase maturity, lock heights and relative locks hold on every fork -/
namespace GV.Props.C13
open GV GV.Chain

/-- Coinbase maturity on the block's own fork: if a block is applied successfully on the state
replayed through its own ancestors, every coinbase output it spends was created at least
`maturity` blocks below it on that path. -/
theorem maturity (p : Params) (s s' : UState) (b : Blk) (h : applyBlock p s b = .ok s')
    (i c : Nat) (hi : i ∈ b.ins) (hc : s.find i = some (i, c, true)) : c + p.maturity ≤ b.h :=
  applyBlock_maturity p s s' b h i c hi hc

/-- Height locks: a body that passes validation has no height-locked kernel whose lock height is
above the block's height. -/
theorem lock_height (p : Params) (outs : List OutDef) (b : Blk) (iv : Nat)
    (h : validateBody p outs b iv = none) :
    ∀ f l, Ker.hl f l ∈ b.kers → l ≤ b.h := by
  intro f l hk
  have hl := (validateBody_none p outs b iv h).2.1
  by_cases hgt : l > b.h
  · have : lockViolation b = true := by
      unfold lockViolation
      exact List.any_eq_true.mpr ⟨_, hk, by simp [hgt]⟩
    rw [this] at hl; cases hl
  · omega

/-- Relative locks: a block applied successfully has no NRD kernel whose excess occurred fewer
than its relative height blocks earlier on the same path. -/
theorem nrd_relative (p : Params) (s s' : UState) (b : Blk) (h : applyBlock p s b = .ok s')
    (f rel : Nat) (ex : String) (hk : Ker.nrd f rel ex ∈ b.kers) (hPrev : Nat)
    (hf : s.nrd.find? (·.1 == ex) = some (ex, hPrev)) : hPrev + rel ≤ b.h := by
  have hn := (applyBlock_ok p s s' b h).2.2.2.1
  by_cases hlt : b.h < hPrev + rel
  · have : nrdBad s b = true := by
      unfold nrdBad
      exact List.any_eq_true.mpr ⟨_, hk, by simp [hf, hlt]⟩
    rw [this] at hn; cases hn
  · omega

/-- The NRD index after a block is the block's NRD kernels at its height in front of the path's
earlier ones, so the most recent occurrence on *this* path is the one found (re-evaluated per fork
because the state is a function of the path only). -/
theorem nrd_index_after (s : UState) (b : Blk) :
    (effects s b).nrd = (b.kers.filterMap fun k => match k with
      | .nrd _ _ ex => some (ex, b.h)
      | _ => none) ++ s.nrd := rfl

/-- **On every fork, at all times**: after any delivery history from a fresh node (forks, reorgs,
orphans re-processed later, duplicates), every stored block other than the genesis satisfies all
three rules against the replayed state `sPar` of *its own* parent — the fork it extends:
coinbase maturity for every coinbase output it spends, height locks, and NRD relative heights.
(The decision is a function of the block's own path — `C03.validity_path_determined` — so it is the
same whenever the block is re-applied during a reorganisation; the incremental txhashset that the
node actually rewinds and re-applies is shown to carry that state in `C02.fork_switch`.) -/
theorem stored_blocks_respect_locks (p : Params) (n : Node) (es : List Event) (hf : Fresh n)
    (hreg : Registered n es) (b : Blk) (hb : n.blk b.id = some b) (h0 : b.id ≠ 0)
    (hs : b.id ∈ (run p n es).stored) :
    ∃ par sPar, b.parent = some par ∧ n.stateAt p par = .ok sPar ∧
      (∀ i c, i ∈ b.ins → sPar.find i = some (i, c, true) → c + p.maturity ≤ b.h) ∧
      (∀ f l, Ker.hl f l ∈ b.kers → l ≤ b.h) ∧
      (∀ f rel ex hPrev, Ker.nrd f rel ex ∈ b.kers →
        sPar.nrd.find? (·.1 == ex) = some (ex, hPrev) → hPrev + rel ≤ b.h) := by
  have hi := run_preserved (preserved_inv p) n es hreg (hf.inv p)
  have hdf := run_defs p n es
  have hv : VOP p n b.id := (VOP_congr hdf.2 hdf.1 p b.id).mp (hi.2.valid b.id hs)
  obtain ⟨par, s', hpar, _, _, hc⟩ := hv.inv hb h0
  obtain ⟨sPar, hst, hvb, hab⟩ := checkBlock_ok p n b par s' hc
  exact ⟨par, sPar, hpar, hst,
    fun i c hi' hc' => maturity p sPar s' b hab i c hi' hc',
    lock_height p n.outs b _ hvb,
    fun f rel ex hPrev hk hfnd => nrd_relative p sPar s' b hab f rel ex hk hPrev hfnd⟩

open TxHS in
/-- The incremental txhashset (`Model/ChainImpl.lean`) records the right creation heights: along
any path `g :: bs` accepted by `replay`, whatever `get_unspent` returns for a commitment carries the
height at which that unspent instance was created in the replayed state — for a re-created
commitment the height of the re-creation. (The node's own maturity check compares MMR positions,
not these heights; the heights are what `get_unspent` hands to callers.) -/
theorem impl_heights_refine_replay (p : Params) (g : Blk) (bs : List Blk) (s : UState) (S : TxHS)
    (hgi : g.ins = []) (hgh : g.h = 0)
    (hct : ∀ b ∈ bs, cutThroughViolation b = false)
    (hr : replay p (genesisState g) bs = .ok s) (hS : applyBlocks {} (g :: bs) = .ok S) :
    ∀ c cp, S.getUnspent c = some cp → ∃ cb, (c, cp.height, cb) ∈ s.utxo := by
  have hctg : cutThroughViolation g = false := by
    apply (cutThrough_false_iff g).mpr; intro c hc; rw [hgi] at hc; cases hc
  simp only [applyBlocks] at hS
  cases h0 : applyBlockImpl {} g with
  | error e => simp only [h0] at hS; cases hS
  | ok S0 =>
    simp only [h0] at hS
    obtain ⟨sp, A⟩ := applyBlockImpl_ok RInv.empty hctg h0
    have ha0 : AbsH S0 (genesisState g) := by
      have := absH_step (s := {}) A (fun c cp h => by cases h)
      have e : (effects {} g).utxo = (genesisState g).utxo := by
        simp [effects, genesisState, hgh]
      intro c cp hg
      obtain ⟨cb, hm⟩ := this c cp hg
      exact ⟨cb, e ▸ hm⟩
    have hah := impl_replay_heights p bs A.rinv ha0 hct hr hS
    intro c cp hu
    apply hah c cp
    unfold TxHS.getUnspent at hu
    cases hgp : S.getOutputPos c with
    | none => rw [hgp] at hu; cases hu
    | some cp' =>
      rw [hgp] at hu
      simp only at hu
      cases hd : S.getData cp'.pos with
      | none => rw [hd] at hu; cases hu
      | some c' =>
        rw [hd] at hu
        simp only at hu
        split at hu
        · injection hu with hu; rw [hu]
        · cases hu

-- non-vacuity: spending a coinbase created at height 2 in a block at height 5 with maturity 3
example : immature {} { utxo := [(7, 2, true)] }
    { id := 9, parent := some 8, h := 5, work := 2, ver := 2, ts := 1, ins := [7], outs := [], kers := [], tags := [] } = false := by
  simp [immature, UState.find, GV.Gen.AUTOMATED_TESTING_COINBASE_MATURITY]

-- `stored_blocks_respect_locks`: hypotheses hold on the example tree; block 4 (height 3) spends
-- the plain output 104, block 3 (height 2) spends the plain genesis output 100
example : ∃ par sPar, Ex.B4.parent = some par ∧ Ex.N.stateAt Ex.P par = .ok sPar ∧
    (∀ i c, i ∈ Ex.B4.ins → sPar.find i = some (i, c, true) → c + Ex.P.maturity ≤ Ex.B4.h) ∧
    (∀ f l, Ker.hl f l ∈ Ex.B4.kers → l ≤ Ex.B4.h) ∧
    (∀ f rel ex hPrev, Ker.nrd f rel ex ∈ Ex.B4.kers →
      sPar.nrd.find? (·.1 == ex) = some (ex, hPrev) → hPrev + rel ≤ Ex.B4.h) :=
  stored_blocks_respect_locks Ex.P Ex.N [.block Ex.B1, .block Ex.B3, .block Ex.B4] Ex.ex_fresh
    (by
      intro e he
      simp only [List.mem_cons, List.not_mem_nil, or_false] at he
      rcases he with rfl | rfl | rfl <;> rfl)
    Ex.B4 rfl (by decide) (by decide)

-- `impl_heights_refine_replay` on the example path 0,1,3,4: commitment 100, spent by block 3 and
-- re-created by block 4, is reported with the height of its re-creation
example : ∃ S, applyBlocks {} [Ex.G, Ex.B1, Ex.B3, Ex.B4] = .ok S ∧ S.getUnspent 100 = some ⟨5, 3⟩ :=
  ⟨_, rfl, by decide⟩

end GV.Props.C13
