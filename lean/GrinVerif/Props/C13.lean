import GrinVerif.Lemmas.ChainBasic
import GrinVerif.Lemmas.ChainApply
import GrinVerif.Lemmas.ChainExampleFacts
import GrinVerif.Lemmas.ChainImplRefine
import GrinVerif.Lemmas.ChainPoolSpec
import GrinVerif.Lemmas.ChainPoolExamples
import GrinVerif.Lemmas.ChainMoreReject
import GrinVerif.Lemmas.ChainMoreExamples
import GrinVerif.Lemmas.ChainInputs
/-! # C13 — coinbase maturity, lock heights and relative locks hold on every fork -/
namespace GV.Props.C13
open GV GV.Chain

/-- Coinbase maturity on the block's own fork: if a block is applied successfully on the state
replayed through its own ancestors, every coinbase output it spends was created at least
`maturity` blocks below it on that path. -/
theorem maturity (p : Params) (s s' : UState) (b : Blk) (h : applyBlock p s b = .ok s')
    (i c : Nat) (hi : i ∈ b.ins) (hc : s.find i = some (i, c, true)) : c + p.maturity ≤ b.h :=
  applyBlock_maturity p s s' b h i c hi hc

/-- Height locks: a body that passes validation has no height-locked kernel whose lock height is
above the block's height. -/
theorem lock_height (p : Params) (outs : List OutDef) (b : Blk) (iv : Nat)
    (h : validateBody p outs b iv = none) :
    ∀ f l, Ker.hl f l ∈ b.kers → l ≤ b.h := by
  intro f l hk
  have hl := (validateBody_none p outs b iv h).2.1
  by_cases hgt : l > b.h
  · have : lockViolation b = true := by
      unfold lockViolation
      exact List.any_eq_true.mpr ⟨_, hk, by simp [hgt]⟩
    rw [this] at hl; cases hl
  · omega

/-- Relative locks: a block applied successfully has no NRD kernel whose excess occurred fewer
than its relative height blocks earlier on the same path. -/
theorem nrd_relative (p : Params) (s s' : UState) (b : Blk) (h : applyBlock p s b = .ok s')
    (f rel : Nat) (ex : String) (hk : Ker.nrd f rel ex ∈ b.kers) (hPrev : Nat)
    (hf : s.nrd.find? (·.1 == ex) = some (ex, hPrev)) : hPrev + rel ≤ b.h := by
  have hn := (applyBlock_ok p s s' b h).2.2.2.1
  by_cases hlt : b.h < hPrev + rel
  · have : nrdBad s b = true := by
      unfold nrdBad
      exact List.any_eq_true.mpr ⟨_, hk, by simp [hf, hlt]⟩
    rw [this] at hn; cases hn
  · omega

/-! ### every kernel and every input of a block is checked, wherever it sorts -/

/-- **Any kernel locked beyond the block's height** — first, last or anywhere in the kernel list,
whatever the other kernels are (satisfied locks, NRD, plain, coinbase) — and the block is refused
by every node in every state; head, stored blocks and reported unspent set are unchanged. -/
theorem any_locked_kernel_refused (p : Params) (n : Node) (b : Blk) (f l : Nat)
    (hk : Ker.hl f l ∈ b.kers) (hl : b.h < l) : Refused p n b := by
  apply refused_of_body_fault
  intro hv
  have := lock_height p n.outs b _ hv f l hk
  omega

/-- … and the verdict of the lock check does not depend on the order of the kernels. -/
theorem lockViolation_perm (b b' : Blk) (hh : b.h = b'.h) (hp : b.kers.Perm b'.kers) :
    lockViolation b = lockViolation b' := by
  unfold lockViolation
  rw [hh]
  exact hp.any_eq

/-- **Any NRD kernel that repeats an excess too early** on the block's own path — wherever it sits
among the block's kernels — and the block is refused, nothing changed. -/
theorem any_nrd_too_recent_refused (p : Params) (n : Node) (b : Blk) (par : Nat) (sPar : UState)
    (hpar : b.parent = some par) (hst : n.stateAt p par = .ok sPar)
    (f rel : Nat) (ex : String) (hk : Ker.nrd f rel ex ∈ b.kers) (hPrev : Nat)
    (hf : sPar.nrd.find? (·.1 == ex) = some (ex, hPrev)) (hlt : b.h < hPrev + rel) :
    Refused p n b := by
  apply refused_of_state_fault
  intro par' sPar' hpar' hst' hn
  rw [hpar] at hpar'
  cases hpar'
  rw [hst] at hst'
  cases hst'
  have hnb := ((stateChecks_none_iff p sPar b).mp hn).2.2.2.2.1
  have : nrdBad sPar b = true := by
    unfold nrdBad
    exact List.any_eq_true.mpr ⟨_, hk, by simp [hf, hlt]⟩
  rw [this] at hnb; cases hnb

/-- **Any immature coinbase among the inputs** — first, second or anywhere in the input list, next
to any number of matured ones — and the block is refused, nothing changed. -/
theorem any_immature_input_refused (p : Params) (n : Node) (b : Blk) (par : Nat) (sPar : UState)
    (hpar : b.parent = some par) (hst : n.stateAt p par = .ok sPar)
    (i c : Nat) (hi : i ∈ b.ins) (hc : sPar.find i = some (i, c, true))
    (hlt : b.h < c + p.maturity) : Refused p n b := by
  apply refused_of_state_fault
  intro par' sPar' hpar' hst' hn
  rw [hpar] at hpar'
  cases hpar'
  rw [hst] at hst'
  cases hst'
  have him := ((stateChecks_none_iff p sPar b).mp hn).2.1
  have : immature p sPar b = true := by
    unfold immature
    exact List.any_eq_true.mpr ⟨i, hi, by simp [hc, hlt]⟩
  rw [this] at him; cases him

/-- **Two NRD kernels sharing an excess inside one block** (`verify_no_nrd_duplicates`) — at any two
positions of the kernel list, with any fees and relative heights, whether or not the excess ever
occurred before — and the block is refused by every node in every state, nothing changed. (Kernels
that are not NRD kernels are not counted: an NRD and a plain kernel may share an excess.) -/
theorem nrd_duplicate_in_block_refused (p : Params) (n : Node) (b : Blk) (pre mid post : List Ker)
    (f1 r1 f2 r2 : Nat) (ex : String)
    (hk : b.kers = pre ++ Ker.nrd f1 r1 ex :: mid ++ Ker.nrd f2 r2 ex :: post) :
    Refused p n b.withNrdDupCheck :=
  refused_of_nrdDup p n b (nrdDupInBody_of_two b pre mid post f1 r1 f2 r2 ex hk)

/-- The NRD index after a block is the block's NRD kernels at its height in front of the path's
earlier ones, so the most recent occurrence on *this* path is the one found (re-evaluated per fork
because the state is a function of the path only). -/
theorem nrd_index_after (s : UState) (b : Blk) :
    (effects s b).nrd = (b.kers.filterMap fun k => match k with
      | .nrd _ _ ex => some (ex, b.h)
      | _ => none) ++ s.nrd := rfl

/-- **On every fork, at all times**: after any delivery history from a fresh node (forks, reorgs,
orphans re-processed later, duplicates), every stored block other than the genesis satisfies all
three rules against the replayed state `sPar` of *its own* parent — the fork it extends:
coinbase maturity for every coinbase output it spends, height locks, and NRD relative heights.
(The decision is a function of the block's own path — `C03.validity_path_determined` — so it is the
same whenever the block is re-applied during a reorganisation; the incremental txhashset that the
node actually rewinds and re-applies is shown to carry that state in `C02.fork_switch`.) -/
theorem stored_blocks_respect_locks (p : Params) (n : Node) (es : List Event) (hf : Fresh n)
    (hreg : Registered n es) (b : Blk) (hb : n.blk b.id = some b) (h0 : b.id ≠ 0)
    (hs : b.id ∈ (run p n es).stored) :
    ∃ par sPar, b.parent = some par ∧ n.stateAt p par = .ok sPar ∧
      (∀ i c, i ∈ b.ins → sPar.find i = some (i, c, true) → c + p.maturity ≤ b.h) ∧
      (∀ f l, Ker.hl f l ∈ b.kers → l ≤ b.h) ∧
      (∀ f rel ex hPrev, Ker.nrd f rel ex ∈ b.kers →
        sPar.nrd.find? (·.1 == ex) = some (ex, hPrev) → hPrev + rel ≤ b.h) := by
  have hi := run_preserved (preserved_inv p) n es hreg (hf.inv p)
  have hdf := run_defs p n es
  have hv : VOP p n b.id := (VOP_congr hdf.2 hdf.1 p b.id).mp (hi.2.valid b.id hs)
  obtain ⟨par, s', hpar, _, _, hc⟩ := hv.inv hb h0
  obtain ⟨sPar, hst, hvb, hab⟩ := checkBlock_ok p n b par s' hc
  exact ⟨par, sPar, hpar, hst,
    fun i c hi' hc' => maturity p sPar s' b hab i c hi' hc',
    lock_height p n.outs b _ hvb,
    fun f rel ex hPrev hk hfnd => nrd_relative p sPar s' b hab f rel ex hk hPrev hfnd⟩

open TxHS in
/-- The incremental txhashset (`Model/ChainImpl.lean`) records the right creation heights: along
any path `g :: bs` accepted by `replay`, whatever `get_unspent` returns for a commitment carries the
height at which that unspent instance was created in the replayed state — for a re-created
commitment the height of the re-creation. (The node's own maturity check compares MMR positions,
not these heights; the heights are what `get_unspent` hands to callers.) -/
theorem impl_heights_refine_replay (p : Params) (g : Blk) (bs : List Blk) (s : UState) (S : TxHS)
    (hgi : g.ins = []) (hgh : g.h = 0)
    (hct : ∀ b ∈ bs, cutThroughViolation b = false)
    (hr : replay p (genesisState g) bs = .ok s) (hS : applyBlocks {} (g :: bs) = .ok S) :
    ∀ c cp, S.getUnspent c = some cp → ∃ cb, (c, cp.height, cb) ∈ s.utxo := by
  have hctg : cutThroughViolation g = false := by
    apply (cutThrough_false_iff g).mpr; intro c hc; rw [hgi] at hc; cases hc
  simp only [applyBlocks] at hS
  cases h0 : applyBlockImpl {} g with
  | error e => simp only [h0] at hS; cases hS
  | ok S0 =>
    simp only [h0] at hS
    obtain ⟨sp, A⟩ := applyBlockImpl_ok RInv.empty hctg h0
    have ha0 : AbsH S0 (genesisState g) := by
      have := absH_step (s := {}) A (fun c cp h => by cases h)
      have e : (effects {} g).utxo = (genesisState g).utxo := by
        simp [effects, genesisState, hgh]
      intro c cp hg
      obtain ⟨cb, hm⟩ := this c cp hg
      exact ⟨cb, e ▸ hm⟩
    have hah := impl_replay_heights p bs A.rinv ha0 hct hr hS
    intro c cp hu
    apply hah c cp
    unfold TxHS.getUnspent at hu
    cases hgp : S.getOutputPos c with
    | none => rw [hgp] at hu; cases hu
    | some cp' =>
      rw [hgp] at hu
      simp only at hu
      cases hd : S.getData cp'.pos with
      | none => rw [hd] at hu; cases hu
      | some c' =>
        rw [hd] at hu
        simp only at hu
        split at hu
        · injection hu with hu; rw [hu]
        · cases hu

/-! ## Pool-facing decisions (`Chain::verify_coinbase_maturity`, `verify_tx_lock_height`,
`validate_tx`; models `txMaturity`, `txLock`, `txValidate` in `Model/Chain.lean`, compared with the
real calls by the harness lines `chain txmat|txlock|txval`)

Definitions used: `txBlock` (the block a transaction would be mined into), `txMaturityImpl` /
`Node.poolMaturityImpl` (position-based implementation-shaped check) in `Model/ChainPool.lean`;
`HeadPath`, `IsPath` in `Lemmas/ChainMorePath.lean`; `CarriesNrd`, `nrdOf` in
`Lemmas/ChainPoolSpec.lean`. -/

/-- **Reorganisation clause.** After any delivery history from a fresh node over any block tree
(forks, reorganisations in both directions, orphans connected later, duplicates, refused blocks,
headers), the state every pool-facing decision reads — `stateAt head` — is the replay of the
*current* head's own path from the genesis: that path exists, every block on it is stored and
passed body validation, and nothing of what was applied and rewound before enters. With the genesis
at height 0 the height of that state is the head's height and the k-th block of the path has
height k. -/
theorem pool_state_is_replay_of_head_path (p : Params) (n : Node) (es : List Event) (hf : Fresh n)
    (hreg : Registered n es) (g : Blk) (hg : n.blk 0 = some g) :
    ∃ rest s, (run p n es).path (run p n es).head = some (g :: rest) ∧
      replay p (genesisState g) rest = .ok s ∧
      (run p n es).stateAt p (run p n es).head = .ok s ∧
      (∀ b ∈ g :: rest, b.id ∈ (run p n es).stored) ∧
      (∀ b ∈ rest, n.blk b.id = some b ∧ validateBody p n.outs b (sumVals n.outs b.ins) = none) ∧
      (g.h = 0 → s.height = rest.length ∧ s.height = (run p n es).heightOf (run p n es).head ∧
        ∀ k (x : Blk), (g :: rest)[k]? = some x → x.h = k) := by
  obtain ⟨rest, s, H, hst⟩ := head_path_after_run p n es hf hreg g hg
  have hdf := run_defs p n es
  refine ⟨rest, s, by rw [path_congr hdf.1]; exact H.path, H.replay, hst,
    head_path_stored p n es hf hreg g rest s H, ?_, ?_⟩
  · intro b hb
    exact ⟨H.isPath.registered b (List.mem_cons_of_mem _ hb), (H.valid b hb).1⟩
  · intro hg0
    refine ⟨H.height_eq hg0, ?_, ?_⟩
    · rw [H.height_eq hg0, heightOf_congr hdf.1, H.heightOf_eq, hg0]; omega
    · intro k x hk
      have := H.height_at k x hk
      omega

/-- … in particular the decisions depend on the current head only: two histories (over the same
block tree) that end on the same head read the same state, whatever either of them applied,
rewound or refused on the way. -/
theorem pool_decisions_path_determined (p : Params) (n : Node) (es₁ es₂ : List Event)
    (hh : (run p n es₁).head = (run p n es₂).head) :
    (run p n es₁).stateAt p (run p n es₁).head = (run p n es₂).stateAt p (run p n es₂).head := by
  rw [stateAt_congr (run_defs p n es₁).1, stateAt_congr (run_defs p n es₂).1, hh]

/-- (a) **Pool / block agreement on every reachable head.** `s` = the state of the head after any
delivery history. For every transaction `t` and the block `b` consisting of `t` plus a coinbase
whose commitment is not unspent, at height `s.height + 1` on that head:
* all three pool-facing checks let `t` in ⟺ every input is unspent, no coinbase input is immature
  at `b`'s height, no lock height exceeds it, no NRD kernel is too close on this path, no output
  duplicates an unspent commitment;
* `checkBlock` — the validation `process_block` runs for `b` against this head — fails with the
  body error if the body is invalid, else with `verify_coinbase_maturity`'s reason if that refuses,
  else with `validate_tx`'s reason if that refuses, and succeeds otherwise;
* a refusal by `verify_tx_lock_height` means the body of `b` is invalid. -/
theorem pool_block_agreement (p : Params) (n : Node) (es : List Event) (hf : Fresh n)
    (hreg : Registered n es) (g : Blk) (hg : n.blk 0 = some g) :
    ∃ s, (run p n es).stateAt p (run p n es).head = .ok s ∧
      ∀ (t : TxA) (id work ver ts cbo : Nat) (b : Blk), s.has cbo = false →
        b = txBlock t id (run p n es).head (s.height + 1) work ver ts cbo →
        ((txMaturity p s t = none ∧ txLock s t = none ∧ txValidate s t = none) ↔
          ((∀ i ∈ t.ins, s.has i = true) ∧ immature p s b = false ∧ lockViolation b = false ∧
            nrdBad s b = false ∧ dupOutput s b = false)) ∧
        (checkBlock p (run p n es) b (run p n es).head =
          match validateBody p (run p n es).outs b (sumVals (run p n es).outs b.ins) with
          | some e => .error e
          | none => match txMaturity p s t with
            | some e => .error e
            | none => match txValidate s t with
              | some e => .error e
              | none => .ok (effects s b)) ∧
        (txLock s t ≠ none → ∀ outs iv, validateBody p outs b iv ≠ none) := by
  obtain ⟨rest, s, _, hst⟩ := head_path_after_run p n es hf hreg g hg
  refine ⟨s, hst, ?_⟩
  intro t id work ver ts cbo b hcbo hb
  subst hb
  refine ⟨pool_admits_iff_block_passes p s t id _ work ver ts cbo hcbo, ?_, ?_⟩
  · unfold checkBlock
    rw [hst]
    simp only
    cases validateBody p (run p n es).outs _ _ with
    | some e => rfl
    | none =>
      simp only
      unfold applyBlock
      rw [stateChecks_txBlock p s t id _ work ver ts cbo hcbo]
      cases txMaturity p s t with
      | some e => rfl
      | none =>
        cases txValidate s t with
        | some e => rfl
        | none => rfl
  · intro hl outs iv
    cases hl' : txLock s t with
    | none => exact absurd hl' hl
    | some e => exact txLock_refusal_is_block_refusal p s t id _ work ver ts cbo outs iv e hl'

/-- (b) **Coinbase threshold, exactly.** On the head reached by any history: an unspent coinbase
`i` recorded with creation height `c` was created by the block of height `c` **on the head's own
path** (or by the genesis, `c = 0`), and a transaction spending it is refused by
`verify_coinbase_maturity` iff the next block height is below `c + maturity` — one below the
threshold refused, at the threshold admitted. A non-coinbase output is never held back. -/
theorem pool_coinbase_threshold (p : Params) (n : Node) (es : List Event) (hf : Fresh n)
    (hreg : Registered n es) (g : Blk) (hg : n.blk 0 = some g) :
    ∃ rest s, (run p n es).path (run p n es).head = some (g :: rest) ∧
      (run p n es).stateAt p (run p n es).head = .ok s ∧
      ∀ i c cb, s.find i = some (i, c, cb) →
        ((c = 0 ∧ (i, cb) ∈ g.outs) ∨ ∃ b ∈ rest, b.h = c ∧ (i, cb) ∈ b.outs) ∧
        ∀ outs kers, txMaturity p s ⟨[i], outs, kers⟩ =
          if cb = true ∧ s.height + 1 < c + p.maturity then some "ImmatureCoinbase" else none := by
  obtain ⟨rest, s, H, hst⟩ := head_path_after_run p n es hf hreg g hg
  refine ⟨rest, s, by rw [path_congr (run_defs p n es).1]; exact H.path, hst, ?_⟩
  intro i c cb hfi
  constructor
  · have hm : (i, c, cb) ∈ s.utxo := by
      unfold UState.find at hfi
      exact List.mem_of_find?_eq_some hfi
    rcases replay_utxo_provenance p rest _ s H.replay _ hm with h | ⟨b, hb, h1, h2⟩
    · left
      simp only [genesisState, List.mem_map] at h
      obtain ⟨o, ho, he⟩ := h
      simp only [Prod.mk.injEq] at he
      obtain ⟨e1, e2, e3⟩ := he
      exact ⟨e2.symm, by rw [← e1, ← e3]; exact ho⟩
    · right
      exact ⟨b, hb, h1.symm, h2⟩
  · intro outs kers
    cases cb with
    | true =>
      rw [txMaturity_single p s i c outs kers hfi]
      simp
    | false =>
      rw [txMaturity_plain p s i c outs kers hfi]
      simp

/-- (b) … for transactions with any number of inputs, all unspent: refused iff *some* coinbase
input is below its threshold. -/
theorem pool_coinbase_threshold_general (p : Params) (s : UState) (t : TxA)
    (hall : ∀ i ∈ t.ins, s.has i = true) :
    (txMaturity p s t = some "ImmatureCoinbase" ↔
      ∃ i ∈ t.ins, ∃ c, s.find i = some (i, c, true) ∧ s.height + 1 < c + p.maturity) ∧
    (txMaturity p s t = none ↔
      ∀ i ∈ t.ins, ∀ c, s.find i = some (i, c, true) → c + p.maturity ≤ s.height + 1) :=
  txMaturity_refuses_iff p s t hall

/-- (b) **Lock-height threshold, exactly**, on the head reached by any history (genesis at height
0): `verify_tx_lock_height` refuses iff some height-locked kernel has a lock above
`head height + 1`, i.e. the kernel is refused until the next block reaches its lock height. -/
theorem pool_lock_threshold (p : Params) (n : Node) (es : List Event) (hf : Fresh n)
    (hreg : Registered n es) (g : Blk) (hg : n.blk 0 = some g) (hg0 : g.h = 0) :
    ∃ s, (run p n es).stateAt p (run p n es).head = .ok s ∧
      s.height = (run p n es).heightOf (run p n es).head ∧
      ∀ t, (txLock s t = some "TxLockHeight" ↔
              ∃ f l, Ker.hl f l ∈ t.kers ∧ (run p n es).heightOf (run p n es).head + 1 < l) ∧
           (txLock s t = none ↔
              ∀ f l, Ker.hl f l ∈ t.kers → l ≤ (run p n es).heightOf (run p n es).head + 1) := by
  obtain ⟨rest, s, _, _, hst, _, _, hh⟩ :=
    pool_state_is_replay_of_head_path p n es hf hreg g hg
  obtain ⟨_, h2, _⟩ := hh hg0
  refine ⟨s, hst, h2, ?_⟩
  intro t
  rw [← h2]
  exact txLock_refuses_iff s t

/-- (b) **NRD threshold, exactly, on this path only.** On the head reached by any history, for
every excess `ex`: either some block of the head's own path carries an NRD kernel with that excess
— then the index lookup answers the height of the **last** such block `b` on the path, and a
transaction (inputs unspent, no duplicate output) whose only NRD kernel is `(rel, ex)` is refused
iff `next height < b.h + rel` — or no block of the path carries it — then the lookup answers
nothing and such a transaction is never refused on NRD grounds. Blocks that are stored but are not
on the head's path (another fork, a branch rewound by a reorganisation) play no role. -/
theorem pool_nrd_threshold (p : Params) (n : Node) (es : List Event) (hf : Fresh n)
    (hreg : Registered n es) (g : Blk) (hg : n.blk 0 = some g) :
    ∃ rest s, (run p n es).path (run p n es).head = some (g :: rest) ∧
      (run p n es).stateAt p (run p n es).head = .ok s ∧
      ∀ ex,
        ((∃ pre b post, rest = pre ++ b :: post ∧ CarriesNrd b ex ∧
            (∀ b' ∈ post, ¬ CarriesNrd b' ex) ∧ s.nrd.find? (·.1 == ex) = some (ex, b.h) ∧
            ∀ ins outs f rel, (∀ i ∈ ins, s.has i = true) → outs.any s.has = false →
              (txValidate s ⟨ins, outs, [.nrd f rel ex]⟩ = some "NRDRelativeHeight" ↔
                s.height + 1 < b.h + rel) ∧
              (txValidate s ⟨ins, outs, [.nrd f rel ex]⟩ = none ↔ b.h + rel ≤ s.height + 1)) ∨
         ((∀ b' ∈ rest, ¬ CarriesNrd b' ex) ∧ s.nrd.find? (·.1 == ex) = none ∧
            ∀ ins outs f rel, (∀ i ∈ ins, s.has i = true) → outs.any s.has = false →
              txValidate s ⟨ins, outs, [.nrd f rel ex]⟩ = none)) := by
  obtain ⟨rest, s, H, hst⟩ := head_path_after_run p n es hf hreg g hg
  refine ⟨rest, s, by rw [path_congr (run_defs p n es).1]; exact H.path, hst, ?_⟩
  intro ex
  rcases nrd_lookup_on_path p rest _ s rfl H.replay ex with
    ⟨pre, b, post, e, hb, hpost, hfind⟩ | ⟨hall, hfind⟩
  · left
    refine ⟨pre, b, post, e, hb, hpost, hfind, ?_⟩
    intro ins outs f rel hins hdup
    obtain ⟨h1, h2⟩ := txValidate_nrd_iff s ⟨ins, outs, [.nrd f rel ex]⟩ hdup hins
    constructor
    · rw [h1]
      constructor
      · rintro ⟨f', rel', ex', hPrev, hk, hf', hlt⟩
        simp only [List.mem_cons, List.not_mem_nil, or_false] at hk
        injection hk with _ e2 e3
        subst e2 e3
        rw [hfind] at hf'
        injection hf' with hf'
        injection hf' with _ e4
        omega
      · intro hlt
        exact ⟨f, rel, ex, b.h, List.mem_cons_self .., hfind, hlt⟩
    · rw [h2]
      constructor
      · intro h
        exact h f rel ex b.h (List.mem_cons_self ..) hfind
      · intro hle f' rel' ex' hPrev hk hf'
        simp only [List.mem_cons, List.not_mem_nil, or_false] at hk
        injection hk with _ e2 e3
        subst e2 e3
        rw [hfind] at hf'
        injection hf' with hf'
        injection hf' with _ e4
        omega
  · right
    refine ⟨hall, hfind, ?_⟩
    intro ins outs f rel hins hdup
    apply (txValidate_nrd_iff s ⟨ins, outs, [.nrd f rel ex]⟩ hdup hins).2.mpr
    intro f' rel' ex' hPrev hk hf'
    simp only [List.mem_cons, List.not_mem_nil, or_false] at hk
    injection hk with _ e2 e3
    subst e2 e3
    rw [hfind] at hf'
    cases hf'

/-- (b) … for transactions with any kernels (inputs unspent, no duplicate output): refused on NRD
grounds iff some NRD kernel's excess was last seen on the replayed path fewer than its relative
height blocks before the next height. -/
theorem pool_nrd_threshold_general (s : UState) (t : TxA) (hdup : t.outs.any s.has = false)
    (hall : ∀ i ∈ t.ins, s.has i = true) :
    (txValidate s t = some "NRDRelativeHeight" ↔
      ∃ f rel ex hPrev, Ker.nrd f rel ex ∈ t.kers ∧ s.nrd.find? (·.1 == ex) = some (ex, hPrev) ∧
        s.height + 1 < hPrev + rel) ∧
    (txValidate s t = none ↔
      ∀ f rel ex hPrev, Ker.nrd f rel ex ∈ t.kers → s.nrd.find? (·.1 == ex) = some (ex, hPrev) →
        hPrev + rel ≤ s.height + 1) :=
  txValidate_nrd_iff s t hdup hall

/-- (c-i) **The implementation-shaped maturity check agrees with the specification while the
header chain follows the body chain.** After any history (genesis at height 0, maturity > 0): let
`hpath` be the path of `header_head` (the header MMR). If the header chain and the path of the
head agree up to the cutoff height `next height − maturity` — in particular if `header_head` is
the head or one of its descendants, or an ancestor not below the cutoff height — the
position-based check of `Model/ChainPool.lean` (largest coinbase position against the
`output_mmr_size` of the header found in the header MMR) returns exactly `txMaturity`, for every
transaction. -/
theorem pool_maturity_impl_agrees (p : Params) (n : Node) (es : List Event) (hf : Fresh n)
    (hreg : Registered n es) (g : Blk) (hg : n.blk 0 = some g) (hg0 : g.h = 0)
    (hpath : List Blk) (hH : (run p n es).path (run p n es).hhead = some hpath) :
    ∃ rest s, (run p n es).path (run p n es).head = some (g :: rest) ∧
      (run p n es).stateAt p (run p n es).head = .ok s ∧
      -- agreement up to the cutoff height
      ((p.maturity ≤ rest.length + 1 → rest.length + 1 - p.maturity < hpath.length ∧
          hpath.take (rest.length + 1 - p.maturity + 1) =
            (g :: rest).take (rest.length + 1 - p.maturity + 1)) →
        ∀ t, (run p n es).poolMaturityImpl p t = txMaturity p s t) ∧
      -- header head = head or a descendant of it
      (0 < p.maturity → (g :: rest) <+: hpath →
        ∀ t, (run p n es).poolMaturityImpl p t = txMaturity p s t) ∧
      -- header head an ancestor of the head that still reaches the cutoff height
      (hpath <+: (g :: rest) → rest.length + 1 - p.maturity < hpath.length →
        ∀ t, (run p n es).poolMaturityImpl p t = txMaturity p s t) := by
  obtain ⟨rest, s, H, hst⟩ := head_path_after_run p n es hf hreg g hg
  have hdf := run_defs p n es
  have key := fun hcut t =>
    poolMaturityImpl_eq p (run p n es) n hdf.1 g rest s H hg0 hpath hH t hcut
  refine ⟨rest, s, by rw [path_congr hdf.1]; exact H.path, hst, key, ?_, ?_⟩
  · intro hm0 hpre
    exact key (by simpa using cut_of_prefix_left p (g :: rest) hpath hm0 hpre)
  · intro hpre hlen
    exact key (by simpa using cut_of_prefix_right p (g :: rest) hpath hpre (by simpa using hlen))

/-! ### (c-ii) negation witnesses for the recorded defect
`C13-pool-maturity-cutoff-read-from-header-fork` (`known_findings.json`): concrete, kernel-checked
histories on which the implementation-shaped check deviates from the specification because
`header_head` sits on another fork (tree and histories in `Lemmas/ChainPoolExamples.lean`). -/

/-- trunk y1..y5 processed, then the header of x2 (child of y1, work 500): `header_head` = x2, the
header MMR has 3 entries, the cutoff height is 6 − 3 = 3 — the implementation-shaped check answers
`Other` for the spend of y1's coinbase, which is mature (6 ≥ 1 + 3: the specification admits it). -/
theorem pool_maturity_header_fork_refuses_mature_witness :
    PoolEx.NX.head = 5 ∧ PoolEx.NX.hhead = 12 ∧
    PoolEx.NX.poolMaturityImpl PoolEx.P PoolEx.spendY1 = some "Other" ∧
    ∃ s, PoolEx.NX.stateAt PoolEx.P PoolEx.NX.head = .ok s ∧
      txMaturity PoolEx.P s PoolEx.spendY1 = none :=
  ⟨PoolEx.NX_head.1, PoolEx.NX_head.2, PoolEx.NX_impl, _, PoolEx.NX_state, PoolEx.NX_spec⟩

/-- trunk y1..y5 processed, then the headers of z2, z3 (fork off y1, three outputs per block, work
200): the header found at the cutoff height 3 is z3 with `output_mmr_size` 8, y4's coinbase sits at
position 5 ≤ 8 — the implementation-shaped check admits the spend of y4's coinbase, which is
immature (6 < 4 + 3: the specification refuses it). -/
theorem pool_maturity_header_fork_admits_immature_witness :
    PoolEx.NZ.head = 5 ∧ PoolEx.NZ.hhead = 23 ∧
    PoolEx.NZ.poolMaturityImpl PoolEx.P PoolEx.spendY4 = none ∧
    ∃ s, PoolEx.NZ.stateAt PoolEx.P PoolEx.NZ.head = .ok s ∧
      txMaturity PoolEx.P s PoolEx.spendY4 = some "ImmatureCoinbase" :=
  ⟨PoolEx.NZ_head.1, PoolEx.NZ_head.2, PoolEx.NZ_impl, _, PoolEx.NZ_state, PoolEx.NZ_spec⟩

/-- … hence the implementation-shaped check does **not** refine the specification on all reachable
nodes: the statement "for every history and transaction `poolMaturityImpl = txMaturity`" is false. -/
theorem pool_maturity_impl_not_always_spec :
    ¬ ∀ (p : Params) (n : Node) (es : List Event), Fresh n → Registered n es →
      ∀ t s, (run p n es).stateAt p (run p n es).head = .ok s →
        (run p n es).poolMaturityImpl p t = txMaturity p s t := by
  intro h
  have := h PoolEx.P PoolEx.N _ PoolEx.fresh_N PoolEx.reg_NX PoolEx.spendY1 _ PoolEx.NX_state
  rw [PoolEx.NX_spec] at this
  exact absurd (PoolEx.NX_impl.symm.trans this) (by decide)

-- non-vacuity: spending a coinbase created at height 2 in a block at height 5 with maturity 3
example : immature {} { utxo := [(7, 2, true)] }
    { id := 9, parent := some 8, h := 5, work := 2, ver := 2, ts := 1, ins := [7], outs := [], kers := [], tags := [] } = false := by
  simp [immature, UState.find, GV.Gen.AUTOMATED_TESTING_COINBASE_MATURITY]

-- `stored_blocks_respect_locks`: hypotheses hold on the example tree; block 4 (height 3) spends
-- the plain output 104, block 3 (height 2) spends the plain genesis output 100
example : ∃ par sPar, Ex.B4.parent = some par ∧ Ex.N.stateAt Ex.P par = .ok sPar ∧
    (∀ i c, i ∈ Ex.B4.ins → sPar.find i = some (i, c, true) → c + Ex.P.maturity ≤ Ex.B4.h) ∧
    (∀ f l, Ker.hl f l ∈ Ex.B4.kers → l ≤ Ex.B4.h) ∧
    (∀ f rel ex hPrev, Ker.nrd f rel ex ∈ Ex.B4.kers →
      sPar.nrd.find? (·.1 == ex) = some (ex, hPrev) → hPrev + rel ≤ Ex.B4.h) :=
  stored_blocks_respect_locks Ex.P Ex.N [.block Ex.B1, .block Ex.B3, .block Ex.B4] Ex.ex_fresh
    (by
      intro e he
      simp only [List.mem_cons, List.not_mem_nil, or_false] at he
      rcases he with rfl | rfl | rfl <;> rfl)
    Ex.B4 rfl (by decide) (by decide)

-- `impl_heights_refine_replay` on the example path 0,1,3,4: commitment 100, spent by block 3 and
-- re-created by block 4, is reported with the height of its re-creation
example : ∃ S, applyBlocks {} [Ex.G, Ex.B1, Ex.B3, Ex.B4] = .ok S ∧ S.getUnspent 100 = some ⟨5, 3⟩ :=
  ⟨_, rfl, by decide⟩

/-! ### non-vacuity of the pool-facing theorems (trees of `Lemmas/ChainPoolExamples.lean`) -/
section PoolExamples
open GV.Chain.PoolEx

-- `pool_state_is_replay_of_head_path`: hypotheses hold for a history with a reorganisation
-- (a1 a2 a3, then b3 b4 take over); the head's path is the genesis, a1, a2, b3, b4 — a3, applied
-- and rewound, is stored but not on it
example : ∃ rest s, (run Q R esAB).path (run Q R esAB).head = some (G :: rest) ∧
    replay Q (genesisState G) rest = .ok s ∧ (run Q R esAB).stateAt Q (run Q R esAB).head = .ok s ∧
    (∀ b ∈ G :: rest, b.id ∈ (run Q R esAB).stored) ∧
    (∀ b ∈ rest, R.blk b.id = some b ∧ validateBody Q R.outs b (sumVals R.outs b.ins) = none) ∧
    (G.h = 0 → s.height = rest.length ∧ s.height = (run Q R esAB).heightOf (run Q R esAB).head ∧
      ∀ k (x : Blk), (G :: rest)[k]? = some x → x.h = k) :=
  pool_state_is_replay_of_head_path Q R esAB fresh_R reg_esAB G rfl
example : (run Q R esAB).path (run Q R esAB).head = some [G, A1, A2, B3, B4] ∧
    3 ∈ (run Q R esAB).stored := ⟨rfl, RAB_head.2⟩

-- `pool_decisions_path_determined`: the history with the reorganisation and a history that never
-- saw a3 end on the same head
example : (run Q R esAB).stateAt Q (run Q R esAB).head =
    (run Q R [.block A1, .block A2, .block B3, .block B4]).stateAt Q
      (run Q R [.block A1, .block A2, .block B3, .block B4]).head :=
  pool_decisions_path_determined Q R esAB _ (by decide)

-- `pool_block_agreement` on the trunk's tip (next height 6): the block made of the spend of y1's
-- coinbase (mature) plus the coinbase 206 passes `checkBlock`; the one spending y4's (immature) is
-- refused with the pool's reason
example : sTrunk.has 206 = false := by decide
example : checkBlock P (run P N trunk) (txBlock spendY1 6 5 (sTrunk.height + 1) 7 3 6 206) 5 =
    .ok (effects sTrunk (txBlock spendY1 6 5 (sTrunk.height + 1) 7 3 6 206)) := rfl
example : checkBlock P (run P N trunk) (txBlock spendY4 6 5 (sTrunk.height + 1) 7 3 6 206) 5 =
    .error "ImmatureCoinbase" := rfl
example : (run P N trunk).stateAt P (run P N trunk).head = .ok sTrunk := rfl

-- thresholds, one below / at: next height 6, maturity 3 — y3's coinbase (height 3) is spendable,
-- y4's (height 4) is not; a lock at 6 passes, at 7 it does not
example : txMaturity P sTrunk ⟨[103], [], []⟩ = none ∧
    txMaturity P sTrunk ⟨[104], [], []⟩ = some "ImmatureCoinbase" := by decide
example : txLock sTrunk ⟨[], [], [.hl 0 6]⟩ = none ∧
    txLock sTrunk ⟨[], [], [.hl 0 7]⟩ = some "TxLockHeight" := by decide

-- NRD across a reorganisation: on a3 (height 3, carries "e") a kernel (rel 5, "e") is refused for
-- the next height 4 and one with rel 1 is admitted; after the reorganisation to b4 the occurrence
-- on a3 — still stored, no longer on the head's path — does not count
example : (run Q R esA).stateAt Q (run Q R esA).head = .ok sA ∧
    txValidate sA nrdTx = some "NRDRelativeHeight" ∧
    txValidate sA ⟨[100], [300], [.nrd 0 1 "e"]⟩ = none := ⟨RA_state, RA_nrd, by decide⟩
example : (run Q R esAB).stateAt Q (run Q R esAB).head = .ok sB ∧ 3 ∈ (run Q R esAB).stored ∧
    CarriesNrd A3 "e" ∧ txValidate sB nrdTx = none :=
  ⟨RAB_state, RAB_head.2, ⟨0, 5, by decide⟩, RAB_nrd⟩

-- `pool_maturity_impl_agrees`: on the trunk alone the header head is the head; the header MMR is
-- the head's path and the implementation-shaped check answers like the specification
example : (run P N trunk).path (run P N trunk).hhead = some [G, Y1, Y2, Y3, Y4, Y5] ∧
    (run P N trunk).path (run P N trunk).head = some [G, Y1, Y2, Y3, Y4, Y5] := ⟨rfl, rfl⟩
example : (run P N trunk).poolMaturityImpl P spendY4 = some "ImmatureCoinbase" ∧
    (run P N trunk).poolMaturityImpl P spendY1 = none := by decide

end PoolExamples

/-! ### every kernel / input is checked: two- and three-item blocks, both orders -/
section MultiExamples
open GV.Chain.Ex2 in
-- `any_locked_kernel_refused`: on b1 (height 1) a block at height 2 with a satisfied lock (2) and a
-- still locked kernel (3): the locked kernel last …
example : Refused Ex2.P NB { Ex2.B4 with kers := [.cb, .hl 0 2, .hl 0 3] } :=
  any_locked_kernel_refused Ex2.P NB _ 0 3 (by decide) (by decide)
open GV.Chain.Ex2 in
-- … and first; the verdict of the check is the same for both orders
example : Refused Ex2.P NB { Ex2.B4 with kers := [.hl 0 3, .hl 0 2, .cb] } :=
  any_locked_kernel_refused Ex2.P NB _ 0 3 (by decide) (by decide)
open GV.Chain.Ex2 in
example : lockViolation { Ex2.B4 with kers := [.cb, .hl 0 2, .hl 0 3] } =
    lockViolation { Ex2.B4 with kers := [.hl 0 3, .hl 0 2, .cb] } :=
  lockViolation_perm _ _ rfl (by decide)
open GV.Chain.Ex2 in
-- the same kernels one block higher: every lock is satisfied
example : lockViolation { Ex2.B4 with h := 3, kers := [.hl 0 3, .hl 0 2, .cb] } = false := by decide
open GV.Chain.Ex2 in
-- mixed with an NRD and a plain kernel, the locked one in the middle
example : Refused Ex2.P NB { Ex2.B4 with kers := [.nrd 0 1 "x", .hl 0 9, .plain 0, .cb] } :=
  any_locked_kernel_refused Ex2.P NB _ 0 9 (by decide) (by decide)
open GV.Chain.Ex2 in
-- `any_immature_input_refused`: inputs 100 (plain, fine) and 121 (coinbase of b1, created at height
-- 1, spent at 2 < 1 + 3): the immature input second … and first
example : Refused Ex2.P NB { Ex2.B4 with ins := [100, 121], outs := [(135, true)] } :=
  any_immature_input_refused Ex2.P NB _ 11 _ rfl
    (rfl : NB.stateAt Ex2.P 11 = .ok { utxo := [(100, 0, false), (121, 1, true)], nrd := [], height := 1 })
    121 1 (by decide) (by decide) (by decide)
open GV.Chain.Ex2 in
example : Refused Ex2.P NB { Ex2.B4 with ins := [121, 100], outs := [(135, true)] } :=
  any_immature_input_refused Ex2.P NB _ 11 _ rfl
    (rfl : NB.stateAt Ex2.P 11 = .ok { utxo := [(100, 0, false), (121, 1, true)], nrd := [], height := 1 })
    121 1 (by decide) (by decide) (by decide)
open GV.Chain.PoolEx in
-- `any_nrd_too_recent_refused`: after a1 a2 a3 (a3 carries the excess "e", relative height 5) a
-- block at height 4 with a fresh NRD excess first and "e" again last … and the other way round
example : Refused Q (run Q R esA)
    { id := 20, parent := some 3, h := 4, work := 9, ver := 5, ts := 9, ins := [], outs := [(120, true)],
      kers := [.cb, .nrd 0 1 "z", .nrd 0 5 "e"], tags := [] } :=
  any_nrd_too_recent_refused Q _ _ 3 sA rfl rfl 0 5 "e" (by decide) 3 (by decide) (by decide)
open GV.Chain.PoolEx in
example : Refused Q (run Q R esA)
    { id := 20, parent := some 3, h := 4, work := 9, ver := 5, ts := 9, ins := [], outs := [(120, true)],
      kers := [.nrd 0 5 "e", .nrd 0 1 "z", .cb], tags := [] } :=
  any_nrd_too_recent_refused Q _ _ 3 sA rfl rfl 0 5 "e" (by decide) 3 (by decide) (by decide)

open GV.Chain.PoolEx in
-- `nrd_duplicate_in_block_refused`: the excess "q" (never seen before) twice in one block, a plain
-- kernel between the two
example : Refused Q (run Q R esA)
    (Blk.withNrdDupCheck
      { id := 20, parent := some 3, h := 4, work := 9, ver := 5, ts := 9, ins := [],
        outs := [(120, true)], kers := [.cb, .nrd 0 1 "q", .plain 0, .nrd 0 2 "q"], tags := [] }) :=
  nrd_duplicate_in_block_refused Q _ _ [.cb] [.plain 0] [] 0 1 0 2 "q" rfl
open GV.Chain.PoolEx in
-- … while an NRD and a plain kernel are never a duplicate pair: the check leaves the block as it is
example : Blk.withNrdDupCheck
    { id := 20, parent := some 3, h := 4, work := 9, ver := 5, ts := 9, ins := [],
      outs := [(120, true)], kers := [.cb, .nrd 0 1 "q", .plain 0], tags := [] } =
    { id := 20, parent := some 3, h := 4, work := 9, ver := 5, ts := 9, ins := [],
      outs := [(120, true)], kers := [.cb, .nrd 0 1 "q", .plain 0], tags := [] } := by
  simp [Blk.withNrdDupCheck, nrdDupInBody, nrdExcesses]

end MultiExamples

end GV.Props.C13
