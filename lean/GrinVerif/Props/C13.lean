import GrinVerif.Lemmas.ChainBasic
import GrinVerif.Lemmas.ChainApply
/-! # C13 — coinbase maturity, lock heights and relative locks hold on every fork -/
namespace GV.Props.C13
open GV GV.Chain

/-- Coinbase maturity on the block's own fork: if a block is applied successfully on the state
replayed through its own ancestors, every coinbase output it spends was created at least
`maturity` blocks below it on that path. -/
theorem maturity (p : Params) (s s' : UState) (b : Blk) (h : applyBlock p s b = .ok s')
    (i c : Nat) (hi : i ∈ b.ins) (hc : s.find i = some (i, c, true)) : c + p.maturity ≤ b.h :=
  applyBlock_maturity p s s' b h i c hi hc

/-- Height locks: a body that passes validation has no height-locked kernel whose lock height is
above the block's height. -/
theorem lock_height (p : Params) (outs : List OutDef) (b : Blk) (iv : Nat)
    (h : validateBody p outs b iv = none) :
    ∀ f l, Ker.hl f l ∈ b.kers → l ≤ b.h := by
  intro f l hk
  have hl := (validateBody_none p outs b iv h).2.1
  by_cases hgt : l > b.h
  · have : lockViolation b = true := by
      unfold lockViolation
      exact List.any_eq_true.mpr ⟨_, hk, by simp [hgt]⟩
    rw [this] at hl; cases hl
  · omega

/-- Relative locks: a block applied successfully has no NRD kernel whose excess occurred fewer
than its relative height blocks earlier on the same path. -/
theorem nrd_relative (p : Params) (s s' : UState) (b : Blk) (h : applyBlock p s b = .ok s')
    (f rel : Nat) (ex : String) (hk : Ker.nrd f rel ex ∈ b.kers) (hPrev : Nat)
    (hf : s.nrd.find? (·.1 == ex) = some (ex, hPrev)) : hPrev + rel ≤ b.h := by
  have hn := (applyBlock_ok p s s' b h).2.2.2.1
  by_cases hlt : b.h < hPrev + rel
  · have : nrdBad s b = true := by
      unfold nrdBad
      exact List.any_eq_true.mpr ⟨_, hk, by simp [hf, hlt]⟩
    rw [this] at hn; cases hn
  · omega

/-- The NRD index after a block is the block's NRD kernels at its height in front of the path's
earlier ones, so the most recent occurrence on *this* path is the one found (re-evaluated per fork
because the state is a function of the path only). -/
theorem nrd_index_after (s : UState) (b : Blk) :
    (effects s b).nrd = (b.kers.filterMap fun k => match k with
      | .nrd _ _ ex => some (ex, b.h)
      | _ => none) ++ s.nrd := rfl

-- non-vacuity: spending a coinbase created at height 2 in a block at height 5 with maturity 3
example : immature {} { utxo := [(7, 2, true)] }
    { id := 9, parent := some 8, h := 5, work := 2, ver := 2, ts := 1, ins := [7], outs := [], kers := [], tags := [] } = false := by
  simp [immature, UState.find, GV.Gen.AUTOMATED_TESTING_COINBASE_MATURITY]

end GV.Props.C13
