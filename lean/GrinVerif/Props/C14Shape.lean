import GrinVerif.Model.Pool
import GrinVerif.Gen.PipeShapePool
import GrinVerif.Props.XlateShapeLib
/-! # C14 — the regenerated shape of the pool's admission path = the order of checks of the hand model

`Model/Pool.lean` writes `TxPool.addCore` (`TransactionPool::add_to_pool` after the stem-duplicate
redirect), `Pool.addToPool`, `validateRawTx` as chains of `if` / `match`.  Here each of them is
shown — for ALL inputs — to be the "first failing stage" interpreter over an explicit LIST of named
stages (followed, for the two `add_to_pool`s, by the state change once every stage has passed), and
the names of the list, in order, are shown (`decide`) to be the error spine tools/gen_pipeshape.py
reads from the CURRENT source (`Gen/PipeShapePool.lean`).  A check that is dropped, moved (the seeded
changes C14-A "fee check before de-aggregation", C14-D "validate once", C13-J "maturity gate moved up
front" were of this kind) or added in the code breaks a `*_shape_is_model` theorem; a change of the
model's order breaks a `*_stages` theorem. -/
namespace GV.Props.C14Shape
open GV GV.Pool GV.Gen.PipeShape GV.Props.XlateShape

/-- first failing stage of a list of named checks -/
def firstFail {α : Type} (x : α) : List (String × (α → Option Err)) → Option Err
  | [] => none
  | s :: rest =>
    match s.2 x with
    | some e => some e
    | none => firstFail x rest

/-! ## `Pool::validate_raw_tx` -/

def rawStages : List (String × (Ctx × Weighting × Tx → Option Err)) := [
  ("validate", fun i => (i.2.2.validate i.1 i.2.1).map viaPoolError),
  ("validate_tx", fun i => chainValidateTx i.1 i.2.2),
  -- `apply_tx_to_block_sums`: the kernel-sum arithmetic adds nothing in the opening model
  ("apply_tx_to_block_sums", fun _ => none) ]

theorem validateRawTx_stages (c : Ctx) (w : Weighting) (t : Tx) :
    validateRawTx c w t = firstFail (c, w, t) rawStages := by
  unfold validateRawTx
  simp only [rawStages, firstFail]
  cases t.validate c w with
  | some e => rfl
  | none =>
    simp only [Option.map_none]
    cases chainValidateTx c t <;> rfl

theorem validate_raw_tx_shape_is_model :
    readOk pool_validate_raw_tx = true ∧ spine pool_validate_raw_tx = rawStages.map (·.1) ∧
    earlyOks pool_validate_raw_tx = [] ∧ calls pool_validate_raw_tx = [] := by decide

/-! ## `Pool::add_to_pool` -/

structure PIn where
  c : Ctx
  p : Pool
  e : Entry
  extra : Option Tx

/-- `transaction::aggregate(&txs)` of pool ++ extra ++ new (the `txs.is_empty()` shortcut is the
single-transaction shortcut of `aggregate`) -/
def aggOf (i : PIn) : Except Err Tx := aggregate (i.p.txs ++ i.extra.toList ++ [i.e.tx])

def poolStages : List (String × (PIn → Option Err)) := [
  ("DuplicateTx", fun i => if i.p.txs.contains i.e.tx then some "DuplicateTx" else none),
  ("aggregate", fun i => match aggOf i with | .error er => some er | .ok _ => none),
  ("validate_raw_tx", fun i => match aggOf i with | .ok a => validateRawTx i.c .noLimit a | .error _ => none) ]

/-- **`Pool::add_to_pool` is its stage list**, then the push -/
theorem addToPool_stages (c : Ctx) (p : Pool) (e : Entry) (extra : Option Tx) :
    Pool.addToPool c p e extra =
      match firstFail ⟨c, p, e, extra⟩ poolStages with
      | some er => .error er
      | none => .ok (p ++ [e]) := by
  unfold Pool.addToPool
  simp only [poolStages, firstFail, aggOf]
  by_cases h1 : p.txs.contains e.tx = true
  · simp only [h1, if_true]
  · simp only [h1, Bool.false_eq_true, if_false]
    cases aggregate (p.txs ++ extra.toList ++ [e.tx]) with
    | error er => rfl
    | ok a =>
      simp only []
      cases validateRawTx c .noLimit a <;> rfl

theorem pool_add_to_pool_shape_is_model :
    readOk pool_add_to_pool = true ∧ spine pool_add_to_pool = poolStages.map (·.1) ∧
    earlyOks pool_add_to_pool = [] ∧
    -- what is not a check: building the list, logging, the push itself
    calls pool_add_to_pool = ["extend", "push", "log_pool_add", "push"] := by decide

/-! ## `Pool::reconcile` -/

/-- the model's `reconcile` is: start from the empty pool, `add_to_pool` every old entry in order,
dropping the result — exactly the two discarded calls of the code, no error propagated -/
theorem reconcile_is_fold (c : Ctx) (p : Pool) (extra : Option Tx) :
    Pool.reconcile c p extra =
      p.foldl (fun acc e => match Pool.addToPool c acc e extra with | .ok acc' => acc' | .error _ => acc) [] := rfl

theorem pool_reconcile_shape_is_model :
    readOk pool_reconcile = true ∧ spine pool_reconcile = [] ∧ earlyOks pool_reconcile = [] ∧
    calls pool_reconcile = ["clear", "add_to_pool"] ∧
    (pool_reconcile.steps.filter (·.name == "add_to_pool")).map (·.guard) = [["for $2"]] := by decide

/-! ## `TransactionPool::add_to_pool` -/

structure AIn where
  c : Ctx
  s : TxPool
  src : Src
  tx : Tx
  stem : Bool

/-- `let entry = if stem { PoolEntry::new(tx, src) } else { self.deaggregate_tx(..)? }` -/
def entryOf (i : AIn) : Except Err Entry :=
  if i.stem then .ok { tx := i.tx, src := i.src } else i.s.deaggregateTx { tx := i.tx, src := i.src }

def entryD (i : AIn) : Entry :=
  match entryOf i with
  | .ok e => e
  | .error _ => { tx := i.tx, src := i.src }

/-- `let acceptability = self.is_acceptable(tx, stem)` -/
def accOf (i : AIn) : Res := i.s.isAcceptable i.c (entryD i).tx i.stem

/-- `evict`: fluff path and `OverCapacity` -/
def evictOf (i : AIn) : Bool := !i.stem && accOf i == some "OverCapacity"

/-- `let extra_tx = if stem { self.txpool.all_transactions_aggregate(None)? } else { None }` -/
def extraOf (i : AIn) : Except Err (Option Tx) :=
  if i.stem then Pool.allAggregate i.c i.s.txpool none else .ok none

def extraD (i : AIn) : Option Tx :=
  match extraOf i with
  | .ok x => x
  | .error _ => none

/-- `let (spent_pool, spent_utxo) = if stem { stempool.locate_spends(..) } else { txpool.locate_spends(..) }?` -/
def spendsOf (i : AIn) : Except Err (List Nat × List Nat) :=
  if i.stem then i.s.stempool.locateSpends i.c (entryD i).tx (extraD i)
  else i.s.txpool.locateSpends i.c (entryD i).tx none

/-- the checks of `TransactionPool::add_to_pool` in the model's order -/
def coreStages : List (String × (AIn → Option Err)) := [
  ("DuplicateTx", fun i => if i.s.txpool.containsTx i.tx then some "DuplicateTx" else none),
  ("deaggregate_tx", fun i => match entryOf i with | .error er => some er | .ok _ => none),
  ("verify_kernel_variants", fun i => verifyKernelVariants i.c (entryD i).tx),
  ("acceptability", fun i => if !evictOf i && (accOf i).isSome then accOf i else none),
  ("validate", fun i => (entryD i).tx.validate i.c .asTransaction),
  ("verify_tx_lock_height", fun i =>
    if (entryD i).tx.lockHeight > i.c.head.height + 1 then some "ImmatureTransaction" else none),
  ("all_transactions_aggregate", fun i => match extraOf i with | .error er => some er | .ok _ => none),
  ("<if>", fun i => match spendsOf i with | .error er => some er | .ok _ => none),
  ("verify_coinbase_maturity", fun i =>
    match spendsOf i with
    | .ok (_, su) => if immatureCoinbase i.c su then some "ImmatureCoinbase" else none
    | .error _ => none),
  -- `convert_tx_v2` re-validates the same transaction: nothing new in the model
  ("convert_tx_v2", fun _ => none) ]

/-- what `add_to_pool` does once every check has passed: stempool (and the relay's answer), else
txpool + stempool reconciliation, reorg cache, eviction -/
def admitEntry (c : Ctx) (s : TxPool) (entry : Entry) (extra : Option Tx) (evict stem stemOk : Bool) : TxPool × Res :=
  let stemStep : Except Err (TxPool × Bool) :=
    if stem then
      match Pool.addToPool c s.stempool entry extra with
      | .error er => .error er
      | .ok sp => .ok ({ s with stempool := sp }, stemOk)
    else .ok (s, false)
  match stemStep with
  | .error er => (s, some er)
  | .ok (s1, true) => (s1, none)
  | .ok (s1, false) =>
    match s1.addToTxpool c entry with
    | (s2, some er) => (s2, some er)
    | (s2, none) =>
      let s3 := s2.addToReorgCache c entry
      if evict then ({ s3 with txpool := s3.txpool.evict c }, none) else (s3, none)

/-- **`TransactionPool::add_to_pool` (after the stem-duplicate redirect) is its stage list**: the
first failing check answers and leaves the pool untouched; when all pass, `admitEntry` -/
theorem addCore_stages (c : Ctx) (s : TxPool) (src : Src) (tx : Tx) (stem stemOk : Bool) :
    s.addCore c src tx stem stemOk =
      match firstFail (⟨c, s, src, tx, stem⟩ : AIn) coreStages with
      | some er => (s, some er)
      | none =>
        admitEntry c s (entryD ⟨c, s, src, tx, stem⟩) (extraD ⟨c, s, src, tx, stem⟩) (evictOf ⟨c, s, src, tx, stem⟩)
          stem stemOk := by
  unfold TxPool.addCore
  simp only [coreStages, firstFail]
  by_cases h1 : s.txpool.containsTx tx = true
  · simp [h1]
  · simp only [h1, Bool.false_eq_true, if_false]
    cases h2 : entryOf ⟨c, s, src, tx, stem⟩ with
    | error er =>
      have : (if stem = true then Except.ok { tx := tx, src := src } else s.deaggregateTx { tx := tx, src := src })
          = Except.error er := h2
      simp [this]
    | ok entry =>
      have h2' : (if stem = true then Except.ok { tx := tx, src := src } else s.deaggregateTx { tx := tx, src := src })
          = Except.ok entry := h2
      have hD : entryD ⟨c, s, src, tx, stem⟩ = entry := by simp [entryD, h2]
      simp only [h2', hD]
      cases h3 : verifyKernelVariants c entry.tx with
      | some er => rfl
      | none =>
        simp only []
        have hacc : accOf ⟨c, s, src, tx, stem⟩ = s.isAcceptable c entry.tx stem := by simp [accOf, hD]
        have hev : evictOf ⟨c, s, src, tx, stem⟩ = (!stem && s.isAcceptable c entry.tx stem == some "OverCapacity") := by
          simp [evictOf, hacc]
        simp only [hacc, hev]
        by_cases h4 : (!(!stem && s.isAcceptable c entry.tx stem == some "OverCapacity") &&
            (s.isAcceptable c entry.tx stem).isSome) = true
        · simp only [h4, if_true]
          cases hx : s.isAcceptable c entry.tx stem with
          | none => simp [hx] at h4
          | some er => rfl
        · simp only [h4, Bool.false_eq_true, if_false]
          cases h5 : entry.tx.validate c .asTransaction with
          | some er => rfl
          | none =>
            simp only []
            by_cases h6 : entry.tx.lockHeight > c.head.height + 1
            · simp [h6]
            · simp only [h6, if_false]
              cases h7 : extraOf ⟨c, s, src, tx, stem⟩ with
              | error er =>
                have : (if stem = true then Pool.allAggregate c s.txpool none else Except.ok none) = Except.error er := h7
                simp [this]
              | ok extra =>
                have h7' : (if stem = true then Pool.allAggregate c s.txpool none else Except.ok none) = Except.ok extra := h7
                have hX : extraD ⟨c, s, src, tx, stem⟩ = extra := by simp [extraD, h7]
                simp only [h7', hX]
                have hsp : spendsOf ⟨c, s, src, tx, stem⟩ =
                    (if stem = true then s.stempool.locateSpends c entry.tx extra else s.txpool.locateSpends c entry.tx none) := by
                  simp [spendsOf, hD, hX]
                rw [hsp]
                cases h8 : (if stem = true then s.stempool.locateSpends c entry.tx extra else s.txpool.locateSpends c entry.tx none) with
                | error er => rfl
                | ok sp =>
                  obtain ⟨spPool, spUtxo⟩ := sp
                  simp only []
                  by_cases h9 : immatureCoinbase c spUtxo = true
                  · simp [h9]
                  · simp only [h9, Bool.false_eq_true, if_false]
                    rfl

/-- the names the code's error spine must show, in order: the stem-duplicate redirect (a tail call of
`add_to_pool` itself: `TxPool.addToPool`), the stages, then the two admissions -/
def modelSpine : List String :=
  ["add_to_pool"] ++ coreStages.map (·.1) ++ ["add_to_stempool", "add_to_txpool"]

/-- the code's spine without the closure inside the coinbase filter (`.filter(|x| x.is_coinbase())`: the
model's `immatureCoinbase` looks at coinbase outputs only) -/
def codeSpine : List String := (spine tpool_add_to_pool).filter (· != "is_coinbase")

/-- **shape = model**: the order of checks read from the current source of
`TransactionPool::add_to_pool` is the order of the model's stage list -/
theorem add_to_pool_shape_is_model : readOk tpool_add_to_pool = true ∧ codeSpine = modelSpine := by decide

/-- the only early `Ok` is "stem and the relay took it" (`admitEntry`: `.ok (s1, true) => (s1, none)`), after every
check and after `add_to_stempool`; the discarded calls are the three of `admitEntry`'s last branch, the eviction under
the `evict` flag -/
theorem add_to_pool_tail_is_admission :
    earlyOks tpool_add_to_pool = [["$2", "self.adapter.stem_tx_accepted($13).is_ok()"]] ∧
    (spineBeforeFirstEarlyOk tpool_add_to_pool).filter (· != "is_coinbase") =
      ["add_to_pool"] ++ coreStages.map (·.1) ++ ["add_to_stempool"] ∧
    calls tpool_add_to_pool = ["add_to_reorg_cache", "tx_accepted", "evict_from_txpool"] ∧
    (tpool_add_to_pool.steps.filter (·.name == "evict_from_txpool")).map (·.guard) = [["$7"]] ∧
    -- the stem-only and the fluff-only checks
    under "$2" tpool_add_to_pool = ["all_transactions_aggregate", "add_to_stempool"] ∧
    under "!($2)" tpool_add_to_pool = ["deaggregate_tx"] := by
  decide

/-- `add_to_txpool`: add, aggregate, reconcile the stempool — the model's `TxPool.addToTxpool` in this order -/
theorem add_to_txpool_shape_is_model :
    readOk tpool_add_to_txpool = true ∧
    spine tpool_add_to_txpool = ["add_to_pool", "all_transactions_aggregate", "reconcile"] := by decide

/-! ## what an admission implies, read off the stage list -/

theorem firstFail_none {α : Type} {x : α} {l : List (String × (α → Option Err))} (h : firstFail x l = none) :
    ∀ st ∈ l, st.2 x = none := by
  induction l with
  | nil => intro st hst; simp at hst
  | cons a rest ih =>
    intro st hst
    unfold firstFail at h
    cases ha : a.2 x with
    | some e => rw [ha] at h; simp at h
    | none =>
      rw [ha] at h
      rcases List.mem_cons.mp hst with h' | h'
      · subst h'; exact ha
      · exact ih h st h'

/-- an admitted transaction passed EVERY stage -/
theorem admitted_passes_every_stage {c : Ctx} {s : TxPool} {src : Src} {tx : Tx} {stem stemOk : Bool}
    (h : (s.addCore c src tx stem stemOk).2 = none) :
    ∀ st ∈ coreStages, st.2 (⟨c, s, src, tx, stem⟩ : AIn) = none := by
  rw [addCore_stages] at h
  cases hf : firstFail (⟨c, s, src, tx, stem⟩ : AIn) coreStages with
  | some er => rw [hf] at h; simp at h
  | none => exact firstFail_none hf

/-- **the hard-fork gate of `verify_kernel_variants`**: a transaction that is admitted (in the form in
which it is pooled: after de-aggregation on the fluff path) and carries an NRD kernel was admitted with the
feature on and a head of header version ≥ 4 -/
theorem nrd_admitted_needs_version_4 {c : Ctx} {s : TxPool} {src : Src} {tx : Tx} {stem stemOk : Bool}
    (h : (s.addCore c src tx stem stemOk).2 = none)
    (hn : (entryD ⟨c, s, src, tx, stem⟩).tx.hasNrd = true) :
    c.cfg.nrdEnabled = true ∧ 4 ≤ c.ver := by
  have := admitted_passes_every_stage h ("verify_kernel_variants", fun i => verifyKernelVariants i.c (entryD i).tx)
    (by simp [coreStages])
  simp only [verifyKernelVariants, hn, if_true] at this
  by_cases he : c.cfg.nrdEnabled = true
  · refine ⟨he, ?_⟩
    simp only [he, Bool.not_true, Bool.false_eq_true, if_false] at this
    by_cases hv : c.ver < 4
    · simp [hv] at this
    · omega
  · simp [he] at this

theorem headerVersion_mono (p : GV.Chain.Params) {h h' : Nat} (hle : h ≤ h') :
    GV.Chain.headerVersion p h ≤ GV.Chain.headerVersion p h' := by
  unfold GV.Chain.headerVersion
  have := Nat.div_le_div_right (c := p.hfInterval) hle
  simp only []
  split <;> split <;> omega

/-- … hence the block it can be mined into - the NEXT block, whose version is at least the head's -
has header version ≥ 4: block validation (`NRDKernelPreHF3`) does not refuse it for that reason -/
theorem nrd_admitted_next_block_version {c : Ctx} {s : TxPool} {src : Src} {tx : Tx} {stem stemOk : Bool}
    (P : GV.Chain.Params) (hver : c.ver = GV.Chain.headerVersion P c.head.height)
    (h : (s.addCore c src tx stem stemOk).2 = none)
    (hn : (entryD ⟨c, s, src, tx, stem⟩).tx.hasNrd = true) :
    4 ≤ GV.Chain.headerVersion P (c.head.height + 1) := by
  have h4 := (nrd_admitted_needs_version_4 h hn).2
  have hm : GV.Chain.headerVersion P c.head.height ≤ GV.Chain.headerVersion P (c.head.height + 1) :=
    headerVersion_mono P (Nat.le_add_right _ 1)
  omega

/-- non-vacuity: an NRD transaction on a head of version 4 passes the gate stage; on version 3 it does not -/
example :
    let t : Tx := { ins := [1], outs := [2], kers := [{ kid := 1, ker := .nrd 100 2 "K" }] }
    verifyKernelVariants { ver := 4 } t = none ∧ verifyKernelVariants { ver := 3 } t = some "NRDKernelPreHF3" := by decide

/-- non-vacuity: a stage list run on a concrete input (a low-fee transaction stops at `acceptability`) -/
example : firstFail (⟨{}, {}, .broadcast, { ins := [1], outs := [2], kers := [{ kid := 1, ker := .plain 0 }] }, false⟩ : AIn)
    coreStages = some "LowFee" := by decide

end GV.Props.C14Shape
