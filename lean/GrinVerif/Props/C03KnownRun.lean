import GrinVerif.Props.C03Known
/-! `Chain::process_block` AS CODED (`deliverBlockK`, Model/ChainKnown.lean) = `deliverBlockEv`
(Model/ChainStatus.lean) = `deliverBlock` with notifications, through the whole orphan loop, on
every state block processing alone reaches; and hence along every delivery history from a node that
satisfies the two invariants (`run_coded_eq`): every theorem about `deliverBlock` / `run`
(C02, C03, C06, C13) is a theorem about the coded functions. -/
namespace GV.Props.C03Known
open GV GV.Chain

/-- `checkOrphansEv` / `deliverBlockEv` are the generic loops over `processBlockSingleEv` -/
theorem orphanStepEv_eq_G (p : Params) : orphanStepEv p = orphanStepG (processBlockSingleEv p) := rfl

theorem checkOrphansEv_eq_G (p : Params) (fuel : Nat) (n : Node) (h : Nat) :
    checkOrphansEv p fuel n h = checkOrphansG (processBlockSingleEv p) fuel n h := by
  induction fuel generalizing n h with
  | zero => rfl
  | succ k ih =>
    unfold checkOrphansEv checkOrphansG
    simp only [orphanStepEv_eq_G, ih]
    rfl

theorem deliverBlockEv_eq_G (p : Params) (n : Node) (b : Blk) :
    deliverBlockEv p n b = deliverBlockG (processBlockSingleEv p) n b := by
  unfold deliverBlockEv deliverBlockG
  simp only [checkOrphansEv_eq_G]
  cases (processBlockSingleEv p n b).2.1 <;> rfl

section congr
variable (f g : BStep) (P : Node → Prop)
  (hfg : ∀ n b, P n → n.blk b.id = some b → f n b = g n b)
  (hpres : ∀ n b, P n → n.blk b.id = some b → P (g n b).1)
  (horph : ∀ (n : Node) (os : List Nat), P n → P { n with orphans := os })
include hfg hpres

theorem orphanStepG_congr (acc : (Node × Option Nat) × List Ev) (o : Nat) (h : P acc.1.1) :
    orphanStepG f acc o = orphanStepG g acc o ∧ P (orphanStepG g acc o).1.1 := by
  unfold orphanStepG
  cases hb : acc.1.1.blk o with
  | none => exact ⟨rfl, h⟩
  | some b =>
    have hreg : acc.1.1.blk b.id = some b := by rw [blk_id hb]; exact hb
    simp only
    rw [hfg acc.1.1 b h hreg]
    refine ⟨rfl, ?_⟩
    have := hpres acc.1.1 b h hreg
    cases (g acc.1.1 b).2.1 <;> exact this

theorem orphanFoldG_congr (l : List Nat) (acc : (Node × Option Nat) × List Ev) (h : P acc.1.1) :
    l.foldl (orphanStepG f) acc = l.foldl (orphanStepG g) acc ∧ P (l.foldl (orphanStepG g) acc).1.1 := by
  induction l generalizing acc with
  | nil => exact ⟨rfl, h⟩
  | cons o os ih =>
    simp only [List.foldl_cons]
    obtain ⟨e, hp⟩ := orphanStepG_congr f g P hfg hpres acc o h
    rw [e]
    exact ih _ hp

include horph

/-- two single-block steps that agree wherever an invariant holds which one of them preserves run
the same `check_orphans` -/
theorem checkOrphansG_congr (fuel : Nat) : ∀ (n : Node) (height : Nat), P n →
    checkOrphansG f fuel n height = checkOrphansG g fuel n height ∧ P (checkOrphansG g fuel n height).1 := by
  induction fuel with
  | zero => intro n _ h; exact ⟨rfl, h⟩
  | succ k ih =>
    intro n height h
    unfold checkOrphansG
    simp only
    split
    · exact ⟨rfl, h⟩
    · obtain ⟨e, hp⟩ := orphanFoldG_congr f g P hfg hpres
        (n.orphans.partition (fun o => n.heightOf o == height)).1
        (({ n with orphans := (n.orphans.partition (fun o => n.heightOf o == height)).2 }, none), [])
        (horph n _ h)
      rw [e]
      split
      · rename_i hAcc _
        obtain ⟨e2, hp2⟩ := ih _ (hAcc + 1) hp
        rw [e2]
        exact ⟨rfl, hp2⟩
      · exact ⟨rfl, hp⟩

/-- ... and the same `process_block` -/
theorem deliverBlockG_congr (n : Node) (b : Blk) (hb : n.blk b.id = some b) (h : P n) :
    deliverBlockG f n b = deliverBlockG g n b ∧ P (deliverBlockG g n b).1 := by
  unfold deliverBlockG
  simp only
  rw [hfg n b h hb]
  have hp := hpres n b h hb
  cases hr : (g n b).2.1 with
  | err e => exact ⟨rfl, hp⟩
  | okHead =>
    simp only
    obtain ⟨e, hp2⟩ := checkOrphansG_congr f g P hfg hpres horph ((g n b).1.blks.length + 2) (g n b).1 (b.h + 1) hp
    rw [e]; exact ⟨rfl, hp2⟩
  | okFork =>
    simp only
    obtain ⟨e, hp2⟩ := checkOrphansG_congr f g P hfg hpres horph ((g n b).1.blks.length + 2) (g n b).1 (b.h + 1) hp
    rw [e]; exact ⟨rfl, hp2⟩

end congr

/-- the two invariants under which "stored ⇒ known" and the code's work-conditional check agree -/
def KInv (n : Node) : Prop := HeadMax n ∧ StoredClosed n

theorem kinv_single (p : Params) (n : Node) (b : Blk) (h : KInv n) (hb : n.blk b.id = some b) :
    KInv (processBlockSingleEv p n b).1 := by
  rw [C03Status.processBlockSingleEv_fst]
  exact ⟨(preserved_headMax p).single n b hb h.1, (preserved_storedClosed p).single n b hb h.2⟩

theorem kinv_orphans (n : Node) (os : List Nat) (h : KInv n) : KInv { n with orphans := os } :=
  ⟨fun s hs => h.1 s hs, ⟨h.2.zero, h.2.head, h.2.parent⟩⟩

/-- **`Chain::process_block` as coded is `deliverBlockEv`** - node, verdict and every notification,
through the whole orphan loop - on every state with the two invariants; the invariants hold again
afterwards -/
theorem deliverBlockK_eq (p : Params) (n : Node) (b : Blk) (h : KInv n) (hb : n.blk b.id = some b) :
    deliverBlockK p [] n b = deliverBlockEv p n b ∧ KInv (deliverBlockK p [] n b).1 := by
  have := deliverBlockG_congr (processBlockSingleK p []) (processBlockSingleEv p) KInv
    (fun n b hn hb => processBlockSingleK_eq p n b hn.1 hn.2 hb)
    (fun n b hn hb => kinv_single p n b hn hb) kinv_orphans n b hb h
  unfold deliverBlockK
  rw [deliverBlockEv_eq_G, this.1]
  exact ⟨rfl, this.2⟩

/-- ... hence `deliverBlock` once the notifications are forgotten -/
theorem deliverBlockK_proj (p : Params) (n : Node) (b : Blk) (h : KInv n) (hb : n.blk b.id = some b) :
    (deliverBlockK p [] n b).1 = (deliverBlock p n b).1 ∧ (deliverBlockK p [] n b).2.1 = (deliverBlock p n b).2 := by
  rw [(deliverBlockK_eq p n b h hb).1]
  exact ⟨C03Status.deliverBlockEv_fst p n b, C03Status.deliverBlockEv_res p n b⟩

theorem deliverHeaderK_eq (p : Params) (n : Node) (b : Blk) (h : KInv n) (hb : n.blk b.id = some b) :
    deliverHeaderK p [] n b = deliverHeader p n b := by
  unfold deliverHeaderK deliverHeader
  rw [processHeaderK_eq p n b h.1 h.2 hb]
  cases processHeader p n b <;> rfl

/-- the initial node (only genesis stored) has both invariants: `run_coded_eq` applies to every
history of a freshly initialised node -/
theorem kinv_init (outs : List OutDef) (blks : List Blk)
    (hg : ∀ g, ({ outs := outs, blks := blks } : Node).blk 0 = some g → g.parent = none) :
    KInv { outs := outs, blks := blks } :=
  ⟨headMax_init outs blks, storedClosed_init outs blks hg⟩

/-- one delivery as coded -/
def stepK (p : Params) (n : Node) : Event → Node
  | .block b => (deliverBlockK p [] n b).1
  | .header b => (deliverHeaderK p [] n b).1

/-- **every delivery history as coded is the history of `Model/Chain.lean`** (`run`), from any node
with the two invariants - the initial node has them (`headMax_init`, `storedClosed_init`) - as long
as no reset intervenes: the theorems about `run` (head is the most-work validated chain, order
independence, reported unspent set = replay, rejected input changes nothing) hold for the coded
functions -/
theorem run_coded_eq (p : Params) (es : List Event) : ∀ (n : Node), KInv n → Registered n es →
    es.foldl (stepK p) n = run p n es ∧ KInv (run p n es) := by
  induction es with
  | nil => intro n h _; exact ⟨rfl, h⟩
  | cons e es ih =>
    intro n h hreg
    have he : n.blk e.blk.id = some e.blk := hreg e (by simp)
    have hstep : stepK p n e = step p n e ∧ KInv (step p n e) := by
      cases e with
      | block b =>
        have := deliverBlockK_eq p n b h he
        have hp := deliverBlockK_proj p n b h he
        refine ⟨hp.1, ?_⟩
        show KInv (deliverBlock p n b).1
        rw [← hp.1]; exact this.2
      | header b =>
        have := deliverHeaderK_eq p n b h he
        refine ⟨by simp only [stepK, step]; rw [this], ?_⟩
        exact ⟨deliverHeader_preserved (preserved_headMax p) n b he h.1,
               deliverHeader_preserved (preserved_storedClosed p) n b he h.2⟩
    simp only [List.foldl_cons, run_cons]
    rw [hstep.1]
    have hdefs : (step p n e).blks = n.blks := by
      cases e with
      | block b => exact (deliverBlock_defs p n b).1
      | header b => exact (deliverHeader_defs p n b).1
    apply ih _ hstep.2
    intro e' he'
    rw [blk_congr hdefs]
    exact hreg e' (by simp [he'])

end GV.Props.C03Known
