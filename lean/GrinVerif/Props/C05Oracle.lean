import GrinVerif.Lemmas.PowOracleExec
import GrinVerif.Lemmas.PowOracleRoom
import GrinVerif.Props.C05Entry
/-! # C05 — the executable cycle oracle IS the specification

`Model/PowSpec.lean oracleCycle` (degree counting + connectivity closure, written without reference
to the verifiers) is what the driver evaluates next to the verifier models on every line.  Here it is
proved equal to the declarative `IsProofCycle*` for all five graph definitions: "every vertex has exactly two edge ends that continue into each
other, and the edge set is connected" ⟺ "an ordering of all edges in which consecutive edges meet
in a vertex and no vertex repeats".  Mathematical core: `Lemmas/PowOracle.lean`
(`cycle_of_deg2_conn`: the orbit of slot 0 under "partner, other end" closes, never retraces an edge
and — by connectivity — covers everything; `deg2_conn_of_cycle`), executable side:
`Lemmas/PowOracleExec.lean` (`degreeOkG_iff`, `closureG_iff`).

With the `_iff` theorems of `Props/C05.lean` this closes a triangle — verifier model = specification =
independent oracle — so the cross-check the driver performs on every line compares two functions
that are PROVED equal: a DIFF "oracle disagrees" can then only come from
the compiled code not being the Lean definition.

Cuckarood: `oracleCycle_cuckarood` (direction bit encoded as the low bit of the vertex value, the
Cuckatoo engine).  Cuckaroom (directed): `oracleCycle_cuckaroom_slots` (slot parity as the low bit)
and `slotCycle_iff_dirCycle` (Lemmas/PowOracleRoom.lean) give `oracleCycle_cuckaroom`.  All five:
`oracleAccept_iff_all`, `verifier_eq_oracle_all`. -/
namespace GV.Props.C05Oracle
open GV GV.Pow GV.Props.C05

theorem shr_one' (x : Nat) : x >>> 1 = x / 2 := by
  rw [Nat.shiftRight_eq_div_pow]

/-- unfolding `oracleCycle` for a variant without a balance clause -/
theorem oracleCycle_unfold (v : Variant) (hv : v ≠ .cuckarood) (es : List (Nat × Nat)) (dirs : List Nat) :
    oracleCycle v es dirs = true ↔
      (0 < es.length ∧
        degreeOkG (2 * es.length) (sameVb v (slotArray es)) (contb v (slotArray es) dirs.toArray) = true ∧
        (closureG (sameVb v (slotArray es)) es.length es.length [0]).length = es.length) := by
  simp only [oracleCycle, degreeOk, closure, slotArray_size]
  cases v <;> simp at hv ⊢ <;> exact ⟨fun ⟨⟨a, b⟩, c⟩ => ⟨a, b, c⟩, fun ⟨a, b, c⟩ => ⟨⟨a, b⟩, c⟩⟩

/-- **Cuckaroo: the executable oracle decides `IsProofCycleCuckaroo`.** -/
theorem oracleCycle_cuckaroo (es : List (Nat × Nat)) (dirs : List Nat) (hL : 0 < es.length) :
    oracleCycle .cuckaroo es dirs = true ↔ IsProofCycleCuckaroo es := by
  rw [oracleCycle_unfold _ (by decide)]
  have core := oracle_core (C := cfgCuckaroo) mtEquiv_cuckaroo (key := fun s => s % 2)
    (uv := slotNode es) hL (sameVb .cuckaroo (slotArray es)) (contb .cuckaroo (slotArray es) dirs.toArray)
    (by
      intro a b _ _
      simp only [sameVb, slotArray_get, sameVG, cfgCuckaroo, Bool.and_eq_true, beq_iff_eq])
    (by intro a b _ _ _; simp [contb, cfgCuckaroo])
  constructor
  · rintro ⟨_, h2, h3⟩
    obtain ⟨c, hc⟩ := core.mp ⟨h2, h3⟩
    refine ⟨c, hc.mono ?_ ?_⟩
    · intro a b ⟨hk, hm, _⟩
      simp only [cfgCuckaroo, beq_iff_eq] at hm
      have hk' : b % 2 = a % 2 := hk
      exact ⟨by unfold sameSide; omega, hm.symm⟩
    · intro a b ⟨hs, hn⟩
      unfold sameSide at hs
      exact ⟨hs, by simp only [cfgCuckaroo, beq_iff_eq]; exact hn⟩
  · rintro ⟨c, hc⟩
    have := core.mpr ⟨c, hc.mono (by
      intro a b ⟨hs, hn⟩
      unfold sameSide at hs
      exact ⟨hs.symm, by simp only [cfgCuckaroo, beq_iff_eq]; exact hn.symm, by simp [cfgCuckaroo]⟩) (by
      intro a b ⟨hk, hm⟩
      simp only [cfgCuckaroo, beq_iff_eq] at hm
      exact ⟨by unfold sameSide; exact hk, hm⟩)⟩
    exact ⟨hL, this.1, this.2⟩

/-- **Cuckarooz: the executable oracle decides `IsProofCycleCuckarooz`.** -/
theorem oracleCycle_cuckarooz (es : List (Nat × Nat)) (dirs : List Nat) (hL : 0 < es.length) :
    oracleCycle .cuckarooz es dirs = true ↔ IsProofCycleCuckarooz es := by
  rw [oracleCycle_unfold _ (by decide)]
  have core := oracle_core (C := cfgCuckarooz) mtEquiv_cuckarooz (key := fun _ => 0)
    (uv := slotNode es) hL (sameVb .cuckarooz (slotArray es)) (contb .cuckarooz (slotArray es) dirs.toArray)
    (by
      intro a b _ _
      simp only [sameVb, slotArray_get, sameVG, cfgCuckarooz, beq_iff_eq, true_and])
    (by intro a b _ _ _; simp [contb, cfgCuckarooz])
  constructor
  · rintro ⟨_, h2, h3⟩
    obtain ⟨c, hc⟩ := core.mp ⟨h2, h3⟩
    refine ⟨c, hc.mono ?_ ?_⟩
    · intro a b ⟨_, hm, _⟩
      simp only [cfgCuckarooz, beq_iff_eq] at hm
      exact hm.symm
    · intro a b hn
      exact ⟨rfl, by simp only [cfgCuckarooz, beq_iff_eq]; exact hn⟩
  · rintro ⟨c, hc⟩
    have := core.mpr ⟨c, hc.mono (by
      intro a b hn
      exact ⟨rfl, by simp only [cfgCuckarooz, beq_iff_eq]; exact hn.symm, by simp [cfgCuckarooz]⟩) (by
      intro a b ⟨_, hm⟩
      simp only [cfgCuckarooz, beq_iff_eq] at hm
      exact hm)⟩
    exact ⟨hL, this.1, this.2⟩

/-- **Cuckatoo: the executable oracle decides `IsProofCycleCuckatoo`.** -/
theorem oracleCycle_cuckatoo (es : List (Nat × Nat)) (dirs : List Nat) (hL : 0 < es.length) :
    oracleCycle .cuckatoo es dirs = true ↔ IsProofCycleCuckatoo es := by
  rw [oracleCycle_unfold _ (by decide)]
  have core := oracle_core (C := cfgCuckatoo) mtEquiv_cuckatoo (key := fun s => s % 2)
    (uv := slotNode es) hL (sameVb .cuckatoo (slotArray es)) (contb .cuckatoo (slotArray es) dirs.toArray)
    (by
      intro a b _ _
      simp only [sameVb, slotArray_get, sameVG, cfgCuckatoo, Bool.and_eq_true, beq_iff_eq, shr_one'])
    (by
      intro a b _ _ _
      simp only [contb, slotArray_get, cfgCuckatoo, bne_iff_ne, ne_eq, forall_const]
      exact ⟨fun h e => h e.symm, fun h e => h e.symm⟩)
  constructor
  · rintro ⟨_, h2, h3⟩
    obtain ⟨c, hc⟩ := core.mp ⟨h2, h3⟩
    refine ⟨c, hc.mono ?_ ?_⟩
    · intro a b ⟨hk, hm, hd⟩
      simp only [cfgCuckatoo, beq_iff_eq, shr_one'] at hm
      have hne := hd rfl
      have hk' : b % 2 = a % 2 := hk
      refine ⟨by unfold sameSide; omega, ?_⟩
      rcases eq_or_xor_of_half _ _ hm.symm with e | e
      · exact absurd e.symm hne
      · exact e
    · intro a b ⟨hs, hn⟩
      unfold sameSide at hs
      exact ⟨hs, by simp only [cfgCuckatoo, beq_iff_eq]; exact hn⟩
  · rintro ⟨c, hc⟩
    have := core.mpr ⟨c, hc.mono (by
      intro a b ⟨hs, hn⟩
      unfold sameSide at hs
      have hhalf : slotNode es b / 2 = slotNode es a / 2 := by
        rw [hn]; simp [Nat.xor_div_two]
      refine ⟨hs.symm, by simp only [cfgCuckatoo, beq_iff_eq, shr_one']; exact hhalf, ?_⟩
      intro _ e
      rw [hn] at e
      exact ne_xor_one _ e) (by
      intro a b ⟨hk, hm⟩
      simp only [cfgCuckatoo, beq_iff_eq] at hm
      exact ⟨by unfold sameSide; exact hk, hm⟩)⟩
    exact ⟨hL, this.1, this.2⟩

/-! ### Cuckarood: the direction bit as the low bit of the vertex value

A Cuckarood vertex is (side, node); two edge ends continue into each other iff their direction bits
differ.  With `uv s = 2·node + dir` this is the Cuckatoo engine: same vertex iff `uv >> 1` agree,
continuation iff the `uv` differ. -/

/-- direction bit at a slot -/
def dirAt (des : List (Nat × (Nat × Nat))) (s : Nat) : Nat := (des.getD (s / 2) (0, (0, 0))).1

theorem dirAt_le (des : List (Nat × (Nat × Nat))) (hd : ∀ d ∈ des, d.1 ≤ 1) (s : Nat) :
    dirAt des s ≤ 1 := by
  unfold dirAt
  rw [List.getD_eq_getElem?_getD]
  cases h : des[s / 2]? with
  | none => simp
  | some d => simpa using hd d (List.mem_of_getElem? h)

theorem dirs_get (des : List (Nat × (Nat × Nat))) (i : Nat) :
    ((des.map (·.1)).toArray)[i]! = (des.getD i (0, (0, 0))).1 := by
  simp only [getElem!_def, List.getElem?_toArray, List.getElem?_map, List.getD_eq_getElem?_getD]
  cases des[i]? <;> rfl

theorem balance_iff (des : List (Nat × (Nat × Nat))) :
    ((des.map (·.1)).filter (· == 0)).length = ((des.map (·.1)).filter (· != 0)).length ↔
      (des.filter (fun d => d.1 = 0)).length = (des.filter (fun d => d.1 ≠ 0)).length := by
  rw [List.filter_map, List.filter_map, List.length_map, List.length_map]
  have e1 : des.filter ((· == 0) ∘ (·.1)) = des.filter (fun d => d.1 = 0) := by
    apply List.filter_congr; intro d _
    by_cases h : d.1 = 0 <;> simp [h]
  have e2 : des.filter ((· != 0) ∘ (·.1)) = des.filter (fun d => d.1 ≠ 0) := by
    apply List.filter_congr; intro d _
    by_cases h : d.1 = 0 <;> simp [h]
  rw [e1, e2]

/-- **Cuckarood: the executable oracle decides `IsProofCycleCuckarood`** (direction bits 0 / 1, as
`nonce & 1` always is). -/
theorem oracleCycle_cuckarood (des : List (Nat × (Nat × Nat))) (hL : 0 < des.length)
    (hd : ∀ d ∈ des, d.1 ≤ 1) :
    oracleCycle .cuckarood (des.map (·.2)) (des.map (·.1)) = true ↔ IsProofCycleCuckarood des := by
  have hlen : (des.map (·.2)).length = des.length := List.length_map _
  have hdl := dirAt_le des hd
  have core := oracle_core (C := cfgCuckatoo) mtEquiv_cuckatoo (key := fun s => s % 2)
    (uv := fun s => 2 * slotNode (des.map (·.2)) s + dirAt des s) (L := (des.map (·.2)).length)
    (by rw [hlen]; exact hL)
    (sameVb .cuckarood (slotArray (des.map (·.2))))
    (contb .cuckarood (slotArray (des.map (·.2))) (des.map (·.1)).toArray)
    (by
      intro a b _ _
      have := hdl a; have := hdl b
      simp only [sameVb, slotArray_get, sameVG, cfgCuckatoo, Bool.and_eq_true, beq_iff_eq, shr_one']
      constructor
      · rintro ⟨h1, h2⟩; exact ⟨h1, by omega⟩
      · rintro ⟨h1, h2⟩; exact ⟨h1, by omega⟩)
    (by
      intro a b _ _ hs
      have := hdl a; have := hdl b
      simp only [sameVb, slotArray_get, Bool.and_eq_true, beq_iff_eq] at hs
      simp only [contb, dirs_get, cfgCuckatoo, bne_iff_ne, ne_eq, forall_const]
      show ¬ dirAt des a = dirAt des b ↔ _
      constructor
      · intro h e; apply h; omega
      · intro h e; apply h; omega)
  rw [hlen] at core
  simp only [oracleCycle, degreeOk, closure, slotArray_size, hlen, Bool.and_eq_true,
    decide_eq_true_iff, beq_iff_eq]
  unfold IsProofCycleCuckarood
  simp only
  constructor
  · rintro ⟨⟨⟨_, h2⟩, hb⟩, h3⟩
    obtain ⟨c, hc⟩ := core.mp ⟨h2, h3⟩
    refine ⟨(balance_iff des).mp hb, c, hc.mono ?_ ?_⟩
    · intro a b ⟨hk, hm, hne⟩
      have := hdl a; have := hdl b
      simp only [cfgCuckatoo, beq_iff_eq, shr_one'] at hm
      have hk' : b % 2 = a % 2 := hk
      have hne' := hne rfl
      dsimp only at hm hne'
      refine ⟨by unfold sameSide; omega, by omega, ?_⟩
      show dirAt des a ≠ dirAt des b
      intro e; apply hne'; omega
    · intro a b ⟨hs, hn⟩
      unfold sameSide at hs
      have := hdl a; have := hdl b
      refine ⟨hs, ?_⟩
      simp only [cfgCuckatoo, beq_iff_eq, shr_one']
      omega
  · rintro ⟨hb, c, hc⟩
    have := core.mpr ⟨c, hc.mono (by
      intro a b ⟨hs, hn, hdne⟩
      unfold sameSide at hs
      have := hdl a; have := hdl b
      have hdne' : dirAt des a ≠ dirAt des b := hdne
      refine ⟨hs.symm, ?_, ?_⟩
      · simp only [cfgCuckatoo, beq_iff_eq, shr_one']; omega
      · intro _ e; dsimp only at e; apply hdne'; omega) (by
      intro a b ⟨hk, hm⟩
      have := hdl a; have := hdl b
      simp only [cfgCuckatoo, beq_iff_eq, shr_one'] at hm
      exact ⟨by unfold sameSide; exact hk, by omega⟩)⟩
    exact ⟨⟨⟨hL, this.1⟩, (balance_iff des).mpr hb⟩, this.2⟩

/-- the oracle's call for Cuckarood in the shape of the specification's argument -/
theorem oracleCycle_cuckarood_nonces (ep : Nat → Nat × Nat) (ns : List Nat) (hL : 0 < ns.length) :
    oracleCycle .cuckarood (ns.map ep) (ns.map (· % 2)) = true ↔
      IsProofCycleCuckarood (ns.map (fun x => (x % 2, ep x))) := by
  have h := oracleCycle_cuckarood (ns.map (fun x => (x % 2, ep x))) (by rw [List.length_map]; exact hL)
    (by intro d hd; obtain ⟨x, _, rfl⟩ := List.mem_map.mp hd; show x % 2 ≤ 1; omega)
  simp only [List.map_map, Function.comp_def] at h
  exact h

/-- **The whole acceptance condition of the executable oracle is the property's rule**, for the
four graph definitions on slots (every variant but the directed Cuckaroom): exactly `ps` nonces,
within the edge mask, strictly ascending, and the selected edges form one simple cycle through all of
them. -/
theorem oracleAccept_iff (v : Variant) (hv : v ≠ .cuckaroom)
    (ps mask : Nat) (hps : 0 < ps) (ep : Nat → Nat × Nat) (ns : List Nat) :
    oracleAccept v ps mask ep ns = true ↔
      (ns.length = ps ∧ (∀ x ∈ ns, x ≤ mask) ∧ Ascending ns ∧ IsProofCycleOf v ep ns) := by
  unfold oracleAccept
  simp only [Bool.and_eq_true, beq_iff_eq, List.all_eq_true, decide_eq_true_iff, ascendingb_iff]
  constructor
  · rintro ⟨⟨⟨h1, h2⟩, h3⟩, h4⟩
    refine ⟨h1, h2, h3, ?_⟩
    have hL : 0 < (ns.map ep).length := by rw [List.length_map, h1]; exact hps
    cases v
    · exact (oracleCycle_cuckatoo _ _ hL).mp h4
    · exact (oracleCycle_cuckaroo _ _ hL).mp h4
    · exact (oracleCycle_cuckarood_nonces ep ns (by rw [h1]; exact hps)).mp h4
    · exact absurd rfl hv
    · exact (oracleCycle_cuckarooz _ _ hL).mp h4
  · rintro ⟨h1, h2, h3, h4⟩
    refine ⟨⟨⟨h1, h2⟩, h3⟩, ?_⟩
    have hL : 0 < (ns.map ep).length := by rw [List.length_map, h1]; exact hps
    cases v
    · exact (oracleCycle_cuckatoo _ _ hL).mpr h4
    · exact (oracleCycle_cuckaroo _ _ hL).mpr h4
    · exact (oracleCycle_cuckarood_nonces ep ns (by rw [h1]; exact hps)).mpr h4
    · exact absurd rfl hv
    · exact (oracleCycle_cuckarooz _ _ hL).mpr h4

/-- **verifier model = independent oracle**, as functions, for every variant but Cuckaroom and the
parameters `verify_size` builds: the two things the driver compares on every line are equal. -/
theorem verifier_eq_oracle (v : Variant) (hv : v ≠ .cuckaroom)
    (P : Params) (ep : Nat → Nat × Nat) (ns : List Nat)
    (hps : 0 < P.proofsize) (hctx : P.ctxProofSize = P.proofsize) (hbk : ∀ x, P.bk x % 2 = x % 2) :
    (verifyOf v P ep ns = .ok ()) ↔ oracleAccept v P.proofsize P.edgeMask ep ns = true := by
  rw [GV.Props.C05Entry.verifyOf_iff v P ep ns hps hctx hbk, oracleAccept_iff v hv _ _ hps]
  exact ⟨fun ⟨a, b, c, d⟩ => ⟨a, c, b, d⟩, fun ⟨a, b, c, d⟩ => ⟨a, c, b, d⟩⟩

/-! ### Cuckaroom: the slot parity (`from` / `to`) as the low bit of the vertex value -/

/-- **Cuckaroom: the executable oracle decides "one simple cycle through all edges in which every
vertex has one incoming and one outgoing edge end"** (the slot-level reading of a directed cycle). -/
theorem oracleCycle_cuckaroom_slots (es : List (Nat × Nat)) (dirs : List Nat) (hL : 0 < es.length) :
    oracleCycle .cuckaroom es dirs = true ↔ IsSlotCycleCuckaroom es := by
  rw [oracleCycle_unfold _ (by decide)]
  have hp : ∀ s : Nat, s % 2 ≤ 1 := fun s => by omega
  have core := oracle_core (C := cfgCuckatoo) mtEquiv_cuckatoo (key := fun _ => 0)
    (uv := fun s => 2 * slotNode es s + s % 2) hL
    (sameVb .cuckaroom (slotArray es)) (contb .cuckaroom (slotArray es) dirs.toArray)
    (by
      intro a b _ _
      have := hp a; have := hp b
      simp only [sameVb, slotArray_get, sameVG, cfgCuckatoo, beq_iff_eq, shr_one', true_and]
      constructor <;> intro h <;> omega)
    (by
      intro a b _ _ hs
      have := hp a; have := hp b
      simp only [sameVb, slotArray_get, beq_iff_eq] at hs
      simp only [contb, cfgCuckatoo, bne_iff_ne, ne_eq, forall_const]
      constructor
      · intro h e; apply h; omega
      · intro h e; apply h; omega)
  unfold IsSlotCycleCuckaroom
  constructor
  · rintro ⟨_, h2, h3⟩
    obtain ⟨c, hc⟩ := core.mp ⟨h2, h3⟩
    refine ⟨c, hc.mono ?_ ?_⟩
    · intro a b ⟨_, hm, hne⟩
      have := hp a; have := hp b
      simp only [cfgCuckatoo, beq_iff_eq, shr_one'] at hm
      have hne' := hne rfl
      dsimp only at hm hne'
      exact ⟨by omega, fun e => hne' (by omega)⟩
    · intro a b hn
      have := hp a; have := hp b
      refine ⟨rfl, ?_⟩
      simp only [cfgCuckatoo, beq_iff_eq, shr_one']
      omega
  · rintro ⟨c, hc⟩
    have := core.mpr ⟨c, hc.mono (by
      intro a b ⟨hn, hpar⟩
      have := hp a; have := hp b
      refine ⟨rfl, ?_, ?_⟩
      · simp only [cfgCuckatoo, beq_iff_eq, shr_one']; omega
      · intro _ e; dsimp only at e; apply hpar; omega) (by
      intro a b ⟨_, hm⟩
      have := hp a; have := hp b
      simp only [cfgCuckatoo, beq_iff_eq, shr_one'] at hm
      omega)⟩
    exact ⟨hL, this.1, this.2⟩

/-- **Cuckaroom: the executable oracle decides `IsProofCycleCuckaroom`** (`oracleCycle_cuckaroom_slots`
with `Lemmas/PowOracleRoom.lean slotCycle_iff_dirCycle`: the slot cycle entered through the `to` ends
is the directed cycle, entered through the `from` ends its reversal). -/
theorem oracleCycle_cuckaroom (es : List (Nat × Nat)) (dirs : List Nat) (hL : 0 < es.length) :
    oracleCycle .cuckaroom es dirs = true ↔ IsProofCycleCuckaroom es := by
  rw [oracleCycle_cuckaroom_slots es dirs hL, slotCycle_iff_dirCycle es hL]

/-- **The whole acceptance condition of the executable oracle is the property's rule**, for all five
graph definitions: exactly `ps` nonces, within the edge mask, strictly ascending, and the selected
edges form one simple cycle through all of them. -/
theorem oracleAccept_iff_all (v : Variant)
    (ps mask : Nat) (hps : 0 < ps) (ep : Nat → Nat × Nat) (ns : List Nat) :
    oracleAccept v ps mask ep ns = true ↔
      (ns.length = ps ∧ (∀ x ∈ ns, x ≤ mask) ∧ Ascending ns ∧ IsProofCycleOf v ep ns) := by
  by_cases hv : v = .cuckaroom
  · subst hv
    unfold oracleAccept
    simp only [Bool.and_eq_true, beq_iff_eq, List.all_eq_true, decide_eq_true_iff, ascendingb_iff]
    constructor
    · rintro ⟨⟨⟨h1, h2⟩, h3⟩, h4⟩
      have hL : 0 < (ns.map ep).length := by rw [List.length_map, h1]; exact hps
      exact ⟨h1, h2, h3, (oracleCycle_cuckaroom _ _ hL).mp h4⟩
    · rintro ⟨h1, h2, h3, h4⟩
      have hL : 0 < (ns.map ep).length := by rw [List.length_map, h1]; exact hps
      exact ⟨⟨⟨h1, h2⟩, h3⟩, (oracleCycle_cuckaroom _ _ hL).mpr h4⟩
  · exact oracleAccept_iff v hv ps mask hps ep ns

/-- **verifier model = independent oracle, for all five variants** and the parameters `verify_size`
builds: the two functions the driver compares on every line are equal. -/
theorem verifier_eq_oracle_all (v : Variant)
    (P : Params) (ep : Nat → Nat × Nat) (ns : List Nat)
    (hps : 0 < P.proofsize) (hctx : P.ctxProofSize = P.proofsize) (hbk : ∀ x, P.bk x % 2 = x % 2) :
    (verifyOf v P ep ns = .ok ()) ↔ oracleAccept v P.proofsize P.edgeMask ep ns = true := by
  rw [GV.Props.C05Entry.verifyOf_iff v P ep ns hps hctx hbk, oracleAccept_iff_all v _ _ hps]
  exact ⟨fun ⟨a, b, c, d⟩ => ⟨a, c, b, d⟩, fun ⟨a, b, c, d⟩ => ⟨a, c, b, d⟩⟩

/-! ### non-vacuity -/

/-- a 4-cycle and two disjoint 2-cycles, through the oracle and hence (by the theorems) the spec -/
example : oracleCycle .cuckarooz [(1, 2), (2, 3), (3, 4), (4, 1)] [] = true := by decide
example : IsProofCycleCuckarooz [(1, 2), (2, 3), (3, 4), (4, 1)] :=
  (oracleCycle_cuckarooz _ [] (by decide)).mp (by decide)
example : ¬ IsProofCycleCuckarooz [(1, 2), (1, 2), (3, 4), (3, 4)] := by
  rw [← oracleCycle_cuckarooz _ [] (by decide)]; decide
example : IsProofCycleCuckatoo [(4, 8), (6, 9), (7, 2), (5, 3)] :=
  (oracleCycle_cuckatoo _ [] (by decide)).mp (by decide)

end GV.Props.C05Oracle
