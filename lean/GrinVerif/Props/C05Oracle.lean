import GrinVerif.Lemmas.PowOracleExec
import GrinVerif.Props.C05Entry
/-! # C05 — the executable cycle oracle IS the specification

`Model/PowSpec.lean oracleCycle` (degree counting + connectivity closure, written without reference
to the verifiers) is what the driver evaluates next to the verifier models on every line.  Here it is
proved equal to the declarative `IsProofCycle*` for the three undirected graph definitions
(Cuckaroo, Cuckarooz, Cuckatoo): "every vertex has exactly two edge ends that continue into each
other, and the edge set is connected" ⟺ "an ordering of all edges in which consecutive edges meet
in a vertex and no vertex repeats".  Mathematical core: `Lemmas/PowOracle.lean`
(`cycle_of_deg2_conn`: the orbit of slot 0 under "partner, other end" closes, never retraces an edge
and — by connectivity — covers everything; `deg2_conn_of_cycle`), executable side:
`Lemmas/PowOracleExec.lean` (`degreeOkG_iff`, `closureG_iff`).

With the `_iff` theorems of `Props/C05.lean` this closes a triangle — verifier model = specification =
independent oracle — so the cross-check the driver performs on every line compares two functions
that are PROVED equal (for these three variants): a DIFF "oracle disagrees" can then only come from
the compiled code not being the Lean definition.

Cuckarood (direction bits) and Cuckaroom (directed) use the same oracle with their own `contb`
clause; for them the equality is still only tested (`oracleCycle_cuckarood_cuckaroom_partial` states
what is missing). -/
namespace GV.Props.C05Oracle
open GV GV.Pow GV.Props.C05

theorem shr_one' (x : Nat) : x >>> 1 = x / 2 := by
  rw [Nat.shiftRight_eq_div_pow]

/-- unfolding `oracleCycle` for a variant without a balance clause -/
theorem oracleCycle_unfold (v : Variant) (hv : v ≠ .cuckarood) (es : List (Nat × Nat)) (dirs : List Nat) :
    oracleCycle v es dirs = true ↔
      (0 < es.length ∧
        degreeOkG (2 * es.length) (sameVb v (slotArray es)) (contb v (slotArray es) dirs.toArray) = true ∧
        (closureG (sameVb v (slotArray es)) es.length es.length [0]).length = es.length) := by
  simp only [oracleCycle, degreeOk, closure, slotArray_size]
  cases v <;> simp at hv ⊢ <;> exact ⟨fun ⟨⟨a, b⟩, c⟩ => ⟨a, b, c⟩, fun ⟨a, b, c⟩ => ⟨⟨a, b⟩, c⟩⟩

/-- **Cuckaroo: the executable oracle decides `IsProofCycleCuckaroo`.** -/
theorem oracleCycle_cuckaroo (es : List (Nat × Nat)) (dirs : List Nat) (hL : 0 < es.length) :
    oracleCycle .cuckaroo es dirs = true ↔ IsProofCycleCuckaroo es := by
  rw [oracleCycle_unfold _ (by decide)]
  have core := oracle_core (C := cfgCuckaroo) mtEquiv_cuckaroo (key := fun s => s % 2)
    (uv := slotNode es) hL (sameVb .cuckaroo (slotArray es)) (contb .cuckaroo (slotArray es) dirs.toArray)
    (by
      intro a b _ _
      simp only [sameVb, slotArray_get, sameVG, cfgCuckaroo, Bool.and_eq_true, beq_iff_eq])
    (by intro a b _ _; simp [contb, cfgCuckaroo])
  constructor
  · rintro ⟨_, h2, h3⟩
    obtain ⟨c, hc⟩ := core.mp ⟨h2, h3⟩
    refine ⟨c, hc.mono ?_ ?_⟩
    · intro a b ⟨hk, hm, _⟩
      simp only [cfgCuckaroo, beq_iff_eq] at hm
      have hk' : b % 2 = a % 2 := hk
      exact ⟨by unfold sameSide; omega, hm.symm⟩
    · intro a b ⟨hs, hn⟩
      unfold sameSide at hs
      exact ⟨hs, by simp only [cfgCuckaroo, beq_iff_eq]; exact hn⟩
  · rintro ⟨c, hc⟩
    have := core.mpr ⟨c, hc.mono (by
      intro a b ⟨hs, hn⟩
      unfold sameSide at hs
      exact ⟨hs.symm, by simp only [cfgCuckaroo, beq_iff_eq]; exact hn.symm, by simp [cfgCuckaroo]⟩) (by
      intro a b ⟨hk, hm⟩
      simp only [cfgCuckaroo, beq_iff_eq] at hm
      exact ⟨by unfold sameSide; exact hk, hm⟩)⟩
    exact ⟨hL, this.1, this.2⟩

/-- **Cuckarooz: the executable oracle decides `IsProofCycleCuckarooz`.** -/
theorem oracleCycle_cuckarooz (es : List (Nat × Nat)) (dirs : List Nat) (hL : 0 < es.length) :
    oracleCycle .cuckarooz es dirs = true ↔ IsProofCycleCuckarooz es := by
  rw [oracleCycle_unfold _ (by decide)]
  have core := oracle_core (C := cfgCuckarooz) mtEquiv_cuckarooz (key := fun _ => 0)
    (uv := slotNode es) hL (sameVb .cuckarooz (slotArray es)) (contb .cuckarooz (slotArray es) dirs.toArray)
    (by
      intro a b _ _
      simp only [sameVb, slotArray_get, sameVG, cfgCuckarooz, beq_iff_eq, true_and])
    (by intro a b _ _; simp [contb, cfgCuckarooz])
  constructor
  · rintro ⟨_, h2, h3⟩
    obtain ⟨c, hc⟩ := core.mp ⟨h2, h3⟩
    refine ⟨c, hc.mono ?_ ?_⟩
    · intro a b ⟨_, hm, _⟩
      simp only [cfgCuckarooz, beq_iff_eq] at hm
      exact hm.symm
    · intro a b hn
      exact ⟨rfl, by simp only [cfgCuckarooz, beq_iff_eq]; exact hn⟩
  · rintro ⟨c, hc⟩
    have := core.mpr ⟨c, hc.mono (by
      intro a b hn
      exact ⟨rfl, by simp only [cfgCuckarooz, beq_iff_eq]; exact hn.symm, by simp [cfgCuckarooz]⟩) (by
      intro a b ⟨_, hm⟩
      simp only [cfgCuckarooz, beq_iff_eq] at hm
      exact hm)⟩
    exact ⟨hL, this.1, this.2⟩

/-- **Cuckatoo: the executable oracle decides `IsProofCycleCuckatoo`.** -/
theorem oracleCycle_cuckatoo (es : List (Nat × Nat)) (dirs : List Nat) (hL : 0 < es.length) :
    oracleCycle .cuckatoo es dirs = true ↔ IsProofCycleCuckatoo es := by
  rw [oracleCycle_unfold _ (by decide)]
  have core := oracle_core (C := cfgCuckatoo) mtEquiv_cuckatoo (key := fun s => s % 2)
    (uv := slotNode es) hL (sameVb .cuckatoo (slotArray es)) (contb .cuckatoo (slotArray es) dirs.toArray)
    (by
      intro a b _ _
      simp only [sameVb, slotArray_get, sameVG, cfgCuckatoo, Bool.and_eq_true, beq_iff_eq, shr_one'])
    (by
      intro a b _ _
      simp only [contb, slotArray_get, cfgCuckatoo, bne_iff_ne, ne_eq, forall_const]
      exact ⟨fun h e => h e.symm, fun h e => h e.symm⟩)
  constructor
  · rintro ⟨_, h2, h3⟩
    obtain ⟨c, hc⟩ := core.mp ⟨h2, h3⟩
    refine ⟨c, hc.mono ?_ ?_⟩
    · intro a b ⟨hk, hm, hd⟩
      simp only [cfgCuckatoo, beq_iff_eq, shr_one'] at hm
      have hne := hd rfl
      have hk' : b % 2 = a % 2 := hk
      refine ⟨by unfold sameSide; omega, ?_⟩
      rcases eq_or_xor_of_half _ _ hm.symm with e | e
      · exact absurd e.symm hne
      · exact e
    · intro a b ⟨hs, hn⟩
      unfold sameSide at hs
      exact ⟨hs, by simp only [cfgCuckatoo, beq_iff_eq]; exact hn⟩
  · rintro ⟨c, hc⟩
    have := core.mpr ⟨c, hc.mono (by
      intro a b ⟨hs, hn⟩
      unfold sameSide at hs
      have hhalf : slotNode es b / 2 = slotNode es a / 2 := by
        rw [hn]; simp [Nat.xor_div_two]
      refine ⟨hs.symm, by simp only [cfgCuckatoo, beq_iff_eq, shr_one']; exact hhalf, ?_⟩
      intro _ e
      rw [hn] at e
      exact ne_xor_one _ e) (by
      intro a b ⟨hk, hm⟩
      simp only [cfgCuckatoo, beq_iff_eq] at hm
      exact ⟨by unfold sameSide; exact hk, hm⟩)⟩
    exact ⟨hL, this.1, this.2⟩

/-- **The whole acceptance condition of the executable oracle is the property's rule**, for the
three undirected graph definitions: exactly `ps` nonces, within the edge mask, strictly ascending,
and the selected edges form one simple cycle through all of them. -/
theorem oracleAccept_iff (v : Variant) (hv : v = .cuckaroo ∨ v = .cuckarooz ∨ v = .cuckatoo)
    (ps mask : Nat) (hps : 0 < ps) (ep : Nat → Nat × Nat) (ns : List Nat) :
    oracleAccept v ps mask ep ns = true ↔
      (ns.length = ps ∧ (∀ x ∈ ns, x ≤ mask) ∧ Ascending ns ∧ IsProofCycleOf v ep ns) := by
  unfold oracleAccept
  simp only [Bool.and_eq_true, beq_iff_eq, List.all_eq_true, decide_eq_true_iff, ascendingb_iff]
  constructor
  · rintro ⟨⟨⟨h1, h2⟩, h3⟩, h4⟩
    refine ⟨h1, h2, h3, ?_⟩
    have hL : 0 < (ns.map ep).length := by rw [List.length_map, h1]; exact hps
    rcases hv with rfl | rfl | rfl
    · exact (oracleCycle_cuckaroo _ _ hL).mp h4
    · exact (oracleCycle_cuckarooz _ _ hL).mp h4
    · exact (oracleCycle_cuckatoo _ _ hL).mp h4
  · rintro ⟨h1, h2, h3, h4⟩
    refine ⟨⟨⟨h1, h2⟩, h3⟩, ?_⟩
    have hL : 0 < (ns.map ep).length := by rw [List.length_map, h1]; exact hps
    rcases hv with rfl | rfl | rfl
    · exact (oracleCycle_cuckaroo _ _ hL).mpr h4
    · exact (oracleCycle_cuckarooz _ _ hL).mpr h4
    · exact (oracleCycle_cuckatoo _ _ hL).mpr h4

/-- **verifier model = independent oracle**, as functions, for the three undirected variants and
the parameters `verify_size` builds: the two things the driver compares on every line are equal. -/
theorem verifier_eq_oracle (v : Variant) (hv : v = .cuckaroo ∨ v = .cuckarooz ∨ v = .cuckatoo)
    (P : Params) (ep : Nat → Nat × Nat) (ns : List Nat)
    (hps : 0 < P.proofsize) (hctx : P.ctxProofSize = P.proofsize) (hbk : ∀ x, P.bk x % 2 = x % 2) :
    (verifyOf v P ep ns = .ok ()) ↔ oracleAccept v P.proofsize P.edgeMask ep ns = true := by
  rw [GV.Props.C05Entry.verifyOf_iff v P ep ns hps hctx hbk, oracleAccept_iff v hv _ _ hps]
  exact ⟨fun ⟨a, b, c, d⟩ => ⟨a, c, b, d⟩, fun ⟨a, b, c, d⟩ => ⟨a, c, b, d⟩⟩

/- **`oracleCycle = IsProofCycle` for Cuckarood and Cuckaroom — full statements, not proved:**

    theorem oracleCycle_cuckarood (des : List (Nat × (Nat × Nat))) (hL : 0 < des.length)
        (hd : ∀ d ∈ des, d.1 ≤ 1) :
        oracleCycle .cuckarood (des.map (·.2)) (des.map (·.1)) = true ↔ IsProofCycleCuckarood des
    theorem oracleCycle_cuckaroom (es : List (Nat × Nat)) (dirs : List Nat) (hL : 0 < es.length) :
        oracleCycle .cuckaroom es dirs = true ↔ IsProofCycleCuckaroom es

Missing: Cuckarood's continuation clause is "opposite direction bits", which is not a function of
the two node values (`UCfg.deadSame` / `Partner` know only `uv`): `Lemmas/PowOracle.lean` has to be
generalised to a partner relation with an arbitrary symmetric continuation predicate.  Cuckaroom's
specification is `IsDirCycle` (an ordering of EDGES with `to = from`), a different structure from
`IsCycle` on slots; its oracle clause (`one incoming, one outgoing end per vertex`) needs the
directed analogue of `cycle_of_deg2_conn`.  What IS proved for them: the degree count and the closure
compute `Deg2`-style and `Conn` predicates for any relation (`degreeOkG_iff`, `closureG_iff` are
generic).  Meanwhile the equality is tested on every line of every run (no disagreement). -/

/-- the part that holds for every variant: the connectivity closure computes connectivity of the
"shares a vertex" relation the variant defines (here for Cuckarood / Cuckaroom with equality of node
values on the same side resp. in one node space) -/
theorem oracleCycle_cuckarood_cuckaroom_partial (es : List (Nat × Nat)) (hL : 0 < es.length) :
    ((closure .cuckaroom (slotArray es) es.length es.length [0]).length = es.length ↔
      Conn cfgCuckarooz (fun _ => 0) (slotNode es) es.length) ∧
    ((closure .cuckarood (slotArray es) es.length es.length [0]).length = es.length ↔
      Conn cfgCuckaroo (fun s => s % 2) (slotNode es) es.length) := by
  constructor
  · exact closureG_iff hL _ (by
      intro a b _ _
      simp only [sameVb, slotArray_get, sameVG, cfgCuckarooz, beq_iff_eq, true_and])
  · exact closureG_iff hL _ (by
      intro a b _ _
      simp only [sameVb, slotArray_get, sameVG, cfgCuckaroo, Bool.and_eq_true, beq_iff_eq])

/-! ### non-vacuity -/

/-- a 4-cycle and two disjoint 2-cycles, through the oracle and hence (by the theorems) the spec -/
example : oracleCycle .cuckarooz [(1, 2), (2, 3), (3, 4), (4, 1)] [] = true := by decide
example : IsProofCycleCuckarooz [(1, 2), (2, 3), (3, 4), (4, 1)] :=
  (oracleCycle_cuckarooz _ [] (by decide)).mp (by decide)
example : ¬ IsProofCycleCuckarooz [(1, 2), (1, 2), (3, 4), (3, 4)] := by
  rw [← oracleCycle_cuckarooz _ [] (by decide)]; decide
example : IsProofCycleCuckatoo [(4, 8), (6, 9), (7, 2), (5, 3)] :=
  (oracleCycle_cuckatoo _ [] (by decide)).mp (by decide)

end GV.Props.C05Oracle
