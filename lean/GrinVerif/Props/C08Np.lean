import GrinVerif.Lemmas.StoreNp
import GrinVerif.Props.C08Var
/-! C08 for the NON-PRUNABLE backends of the node (`PMMRBackend::new(.., prunable = false, ..)`):
the header MMR (fixed-size entries) and the **kernel MMR** (variable-size `TxKernel`s: the one
variable-size data file the node has, `pmmr_data.bin` + `pmmr_size.bin`).

Operations: `push`, `rewind` (no `rewind_rm_pos`: nothing is ever removed), `sync`, `discard`,
`reopen`, in any protocol-respecting order (rewinds before the first append of a unit, to a
boundary inside the MMR).  After every such history: size, `unpruned_size`, root, and for EVERY
leaf ever appended and not rewound its hash and its data – read through the size file for the
kernel flavour – are those of the unpruned reference; the leaf set is never written. -/
namespace GV.Props.C08Np
open GV GV.Pmmr GV.Pmmr.Co GV.Store GV.Store.VarFile

/-- shared step: from the observables of the prunable run to the non-prunable one -/
theorem np_of_prunable {H : Type} {el : Bytes → Option Nat} {hf : HashFn Bytes H}
    {pn pp : PM H} {r : RefSt} (hs : NSim pn pp) (hall : r.cur.AllUnspent)
    (hobs :
      pp.size = mmr r.cur.es.length ∧
      (r.dirty = false → pp.b.unprunedSize = mmr r.cur.es.length) ∧
      PM.root hf pp = Pmmr.root hf (allHashes hf (leafFn r.cur.es) r.cur.es.length) ∧
      (∀ q, (q + 1) ∈ pp.b.leafSet.bitmap ↔ q ∈ r.cur.U) ∧
      (∀ q, q ∈ r.cur.U → ∃ i, i < r.cur.es.length ∧ q = mmr i ∧
        PM.getHash pp q = some (refHash hf (leafFn r.cur.es) q) ∧
        (allHashes hf (leafFn r.cur.es) r.cur.es.length)[q]? = some (refHash hf (leafFn r.cur.es) q) ∧
        PM.getData el pp q = some (r.cur.es.getD i [])) ∧
      (∀ pk ∈ peaks (mmr r.cur.es.length),
        pp.b.getPeakFromFile pk = some (refHash hf (leafFn r.cur.es) pk))) :
    pn.size = mmr r.cur.es.length ∧
    (r.dirty = false → pn.b.unprunedSize = mmr r.cur.es.length) ∧
    rootG hf pn.size pn.npGetPeak = Pmmr.root hf (allHashes hf (leafFn r.cur.es) r.cur.es.length) ∧
    pn.b.leafSet = {} ∧
    (∀ i, i < r.cur.es.length →
      PM.npGetHash pn (mmr i) = some (refHash hf (leafFn r.cur.es) (mmr i)) ∧
      PM.npGetData el pn (mmr i) = some (r.cur.es.getD i [])) ∧
    (∀ pk ∈ peaks (mmr r.cur.es.length),
      pn.b.getPeakFromFile pk = some (refHash hf (leafFn r.cur.es) pk)) := by
  obtain ⟨o1, o2, o3, o4, o5, o7⟩ := hobs
  refine ⟨by rw [hs.size]; exact o1, fun hd => by rw [hs.unprunedSize]; exact o2 hd,
    by rw [hs.root]; exact o3, by rw [hs.1], ?_, fun pk hpk => by rw [hs.getPeakFromFile]; exact o7 pk hpk⟩
  intro i hi
  have hu := hall i hi
  have hm := (o4 (mmr i)).2 hu
  obtain ⟨j, hj, hij, a3, _, a5⟩ := o5 (mmr i) hu
  have : i = j := by
    rcases Nat.lt_trichotomy i j with hlt | heq | hgt
    · have := mmr_lt_mmr hlt; omega
    · exact heq
    · have := mmr_lt_mmr hgt; omega
  subst this
  exact ⟨by rw [hs.getHash _ hm]; exact a3, by rw [hs.getData _ hm]; exact a5⟩

/-- **np_history_preserves_reference** (fixed-size data file: the header MMR flavour).  After any
protocol-respecting sequence of `push` / `rewind` / `sync` / `discard` / `reopen` on a
non-prunable backend starting from the empty store. -/
theorem np_history_preserves_reference {H : Type} (el : Bytes → Option Nat) (hf : HashFn Bytes H)
    (ops : List HOp) (hnp : ∀ op ∈ ops, op.np = true) (hproto : RefSt.Proto {} ops) :
    let p := ops.foldl (npstep el hf) ({} : PM H)
    let r := ops.foldl RefSt.step {}
    let N := r.cur.es.length
    let rh := allHashes hf (leafFn r.cur.es) N
    p.size = mmr N ∧
    (r.dirty = false → p.b.unprunedSize = mmr N) ∧
    rootG hf p.size p.npGetPeak = Pmmr.root hf rh ∧
    p.b.leafSet = {} ∧
    (∀ i, i < N → PM.npGetHash p (mmr i) = some (refHash hf (leafFn r.cur.es) (mmr i)) ∧
      PM.npGetData el p (mmr i) = some (r.cur.es.getD i [])) ∧
    (∀ pk ∈ peaks (mmr N), p.b.getPeakFromFile pk = some (refHash hf (leafFn r.cur.es) pk)) := by
  intro p r N rh
  have hs : NSim p (ops.foldl (bstep el hf) ({} : PM H)) := NSim.run ops _ _ NSim.init hnp
  have hall : r.cur.AllUnspent := allUnspent_run ops {} hnp hproto
    (fun i hi => absurd hi (by simp)) (fun i hi => absurd hi (by simp))
  have hobs := hinv_observables el hf (hinv_run el hf ops _ _ (hinv_init hf) hproto)
  obtain ⟨o1, o2, o3, o4, o5, _, o7⟩ := hobs
  exact np_of_prunable hs hall ⟨o1, o2, o3, o4, o5, o7⟩

/-- **np_var_history_preserves_reference** (variable-size data file: the KERNEL MMR).  Same
statement with the data read through the size file; elements self-delimiting (`VarFile.Delim`). -/
theorem np_var_history_preserves_reference {H : Type} (el : Bytes → Option Nat) (hf : HashFn Bytes H)
    (ops : List HOp) (hnp : ∀ op ∈ ops, op.np = true) (hproto : RefSt.Proto {} ops)
    (hd : ∀ e, HOp.push e ∈ ops → Delim el e) :
    let p := ops.foldl (npstep el hf) ({ b := { dataFile := .var {} }, size := 0 } : PM H)
    let r := ops.foldl RefSt.step {}
    let N := r.cur.es.length
    let rh := allHashes hf (leafFn r.cur.es) N
    p.size = mmr N ∧
    (r.dirty = false → p.b.unprunedSize = mmr N) ∧
    rootG hf p.size p.npGetPeak = Pmmr.root hf rh ∧
    p.b.leafSet = {} ∧
    (∀ i, i < N → PM.npGetHash p (mmr i) = some (refHash hf (leafFn r.cur.es) (mmr i)) ∧
      PM.npGetData el p (mmr i) = some (r.cur.es.getD i [])) ∧
    (∀ pk ∈ peaks (mmr N), p.b.getPeakFromFile pk = some (refHash hf (leafFn r.cur.es) pk)) := by
  intro p r N rh
  have hs : NSim p (ops.foldl (bstep el hf) ({ b := { dataFile := .var {} }, size := 0 } : PM H)) :=
    NSim.run ops _ _ NSim.initVar hnp
  have hall : r.cur.AllUnspent := allUnspent_run ops {} hnp hproto
    (fun i hi => absurd hi (by simp)) (fun i hi => absurd hi (by simp))
  obtain ⟨o1, o2, o3, o4, o5, _, o7⟩ := C08Var.history_preserves_reference_var el hf ops hproto hd
  exact np_of_prunable hs hall ⟨o1, o2, o3, o4, o5, o7⟩

/-- the data file pair of the kernel flavour on disk after such a history represents an
element-level file, i.e. `pmmr_data.bin` is the concatenation of its elements and `pmmr_size.bin`
their `(offset, size)` list whenever the history ends in `sync` -/
theorem np_var_files_consistent {H : Type} (el : Bytes → Option Nat) (hf : HashFn Bytes H)
    (ops : List HOp) (hnp : ∀ op ∈ ops, op.np = true) (hproto : RefSt.Proto {} ops)
    (hd : ∀ e, HOp.push e ∈ ops → Delim el e) :
    let p := ops.foldl (npstep el hf) ({ b := { dataFile := .var {} }, size := 0 } : PM H)
    ∃ v f, p.b.dataFile = .var v ∧ Rep el v f := by
  intro p
  have hs : NSim p (ops.foldl (bstep el hf) ({ b := { dataFile := .var {} }, size := 0 } : PM H)) :=
    NSim.run ops _ _ NSim.initVar hnp
  obtain ⟨_, _, _, _, _, ⟨v, f, h1, _, h3⟩, _⟩ := C08Var.history_var_simulates_fixed el hf ops hproto hd
  exact ⟨v, f, by rw [hs.1]; exact h1, h3⟩

/-! ### non-vacuity -/

example : (∀ op ∈ [HOp.push [2, 7, 9], .push [0], .sync, .rewind 1 [], .push [1, 5], .sync, .reopen],
    op.np = true) := by
  intro op h
  simp only [List.mem_cons, List.mem_nil_iff, or_false] at h
  rcases h with rfl | rfl | rfl | rfl | rfl | rfl | rfl <;> rfl

end GV.Props.C08Np
