import GrinVerif.Model.ChainTxVal
/-! C01 at transaction level (`Model/ChainTxVal.lean` = `Transaction::validate(weighting)` with the
fee fields as read from bytes).

* The weighting matters through the weight limit ONLY: `validate_eq_of_weight_ok`,
  `validate_noLimit_of_accepted`, `accepted_iff_noLimit_and_weight`; a crypto fault (one bad range
  proof, one bad signature), a features fault, an unbalanced or blinding-faulted body is refused
  under EVERY weighting (`crypto_fault_refused_under_every_weighting`,
  `unbalanced_refused_under_every_weighting`).
* Fee fields: whatever the reserved bits 44..63 of the word hold, `fee` is the low 40 bits and
  `fee_shift` the next 4 (`feeOf_reserved`, `shiftOf_reserved`, `feeOf_lt`, `shiftOf_lt`); the body
  fee of fewer than 2^23 kernels is the plain sum of the 40-bit fees, the overage is that sum and
  never negative (`bodyFee_eq_sum`, `overage_eq_sum`); hence an accepted transaction gives up
  exactly the 40-bit fees: outputs + fees = inputs, under every weighting, whatever the reserved bits
  (`accepted_balances`), and setting reserved bits never changes the verdict
  (`validate_reserved_invariant`). -/

namespace GV.Props.C01TxVal
open GV GV.Chain.TxVal

/-! ### the weighting -/

/-- under a weighting whose weight limit the body respects, the verdict is the verdict without limit -/
theorem validate_eq_of_weight_ok (P : WParams) (w : Weighting) (t : TxV)
    (h : verifyWeight P w t = none) : validate P w t = validate P .noLimit t := by
  unfold validate
  cases verifyFeatures t with
  | some e => rfl
  | none => simp only [h]; rfl

/-- two weightings under which the body is not too heavy give the same verdict -/
theorem validate_weighting_independent (P : WParams) (w1 w2 : Weighting) (t : TxV)
    (h1 : verifyWeight P w1 t = none) (h2 : verifyWeight P w2 t = none) :
    validate P w1 t = validate P w2 t := by
  rw [validate_eq_of_weight_ok P w1 t h1, validate_eq_of_weight_ok P w2 t h2]

/-- accepted under any weighting ⇒ accepted without limit (what the pool's aggregates use) -/
theorem validate_noLimit_of_accepted (P : WParams) (w : Weighting) (t : TxV)
    (h : validate P w t = none) : validate P .noLimit t = none := by
  unfold validate at *
  cases hf : verifyFeatures t with
  | some e => rw [hf] at h; cases h
  | none =>
    rw [hf] at h
    simp only at h ⊢
    cases hw : verifyWeight P w t with
    | some e => rw [hw] at h; cases h
    | none => rw [hw] at h; exact h

/-- accepted under `w` iff accepted without limit and not too heavy for `w` -/
theorem accepted_iff_noLimit_and_weight (P : WParams) (w : Weighting) (t : TxV) :
    validate P w t = none ↔ (validate P .noLimit t = none ∧ verifyWeight P w t = none) := by
  constructor
  · intro h
    refine ⟨validate_noLimit_of_accepted P w t h, ?_⟩
    unfold validate at h
    cases hf : verifyFeatures t with
    | some e => rw [hf] at h; cases h
    | none =>
      rw [hf] at h
      cases hw : verifyWeight P w t with
      | some e => rw [hw] at h; cases h
      | none => rfl
  · rintro ⟨h1, h2⟩
    rw [validate_eq_of_weight_ok P w t h2]; exact h1

/-- one bad range proof or one bad signature anywhere: refused under EVERY weighting -/
theorem crypto_fault_refused_under_every_weighting (P : WParams) (w : Weighting) (t : TxV)
    (h : (∃ o ∈ t.outs, o.proofBad = true) ∨ (∃ k ∈ t.kers, k.sigBad = true)) :
    validate P w t ≠ none := by
  intro hv
  have h0 := validate_noLimit_of_accepted P w t hv
  unfold validate at h0
  cases hf : verifyFeatures t with
  | some e => rw [hf] at h0; cases h0
  | none =>
    rw [hf] at h0
    simp only [verifyWeight] at h0
    unfold validateRest at h0
    cases hr : t.readFault with
    | some e => rw [hr] at h0; cases h0
    | none =>
      rw [hr] at h0
      simp only at h0
      by_cases hp : t.outs.any (·.proofBad) = true
      · rw [if_pos hp] at h0; cases h0
      · rw [if_neg hp] at h0
        by_cases hs : t.kers.any (·.sigBad) = true
        · rw [if_pos hs] at h0; cases h0
        · rcases h with ⟨o, ho, hb⟩ | ⟨k, hk, hb⟩
          · exact hp (List.any_eq_true.mpr ⟨o, ho, hb⟩)
          · exact hs (List.any_eq_true.mpr ⟨k, hk, hb⟩)

/-- an accepted transaction passed the sums check, whatever the weighting -/
theorem accepted_sums (P : WParams) (w : Weighting) (t : TxV) (h : validate P w t = none) :
    verifyKernelSums t = none := by
  have h0 := validate_noLimit_of_accepted P w t h
  unfold validate at h0
  cases hf : verifyFeatures t with
  | some e => rw [hf] at h0; cases h0
  | none =>
    rw [hf] at h0
    simp only [verifyWeight] at h0
    unfold validateRest at h0
    cases hr : t.readFault with
    | some e => rw [hr] at h0; cases h0
    | none =>
      rw [hr] at h0
      simp only at h0
      by_cases hp : t.outs.any (·.proofBad) = true
      · rw [if_pos hp] at h0; cases h0
      · rw [if_neg hp] at h0
        by_cases hs : t.kers.any (·.sigBad) = true
        · rw [if_pos hs] at h0; cases h0
        · rw [if_neg hs] at h0; exact h0

/-- a body whose values do not balance with its overage, or whose blinding factors do not, is
refused under every weighting -/
theorem unbalanced_refused_under_every_weighting (P : WParams) (w : Weighting) (t : TxV)
    (h : (sumNat (t.outs.map (·.v)) : Int) + overage t ≠ (sumNat t.ins : Int) ∨ t.blindFault = true) :
    validate P w t ≠ none := by
  intro hv
  have hs := accepted_sums P w t hv
  unfold verifyKernelSums at hs
  simp only at hs
  split at hs
  · cases hs
  · first | cases hs | (rw [if_pos h] at hs; cases hs)

/-! ### fee fields read from bytes -/

theorem feeOf_lt (w : Nat) : feeOf w < FEE_MOD := Nat.mod_lt _ (by decide)
theorem shiftOf_lt (w : Nat) : shiftOf w < SHIFT_MOD := Nat.mod_lt _ (by decide)

/-- the reserved bits (everything from bit 44 up) never reach the fee -/
theorem feeOf_reserved (lo r : Nat) : feeOf (lo + 17592186044416 * r) = feeOf lo := by
  unfold feeOf FEE_MOD; omega

/-- … nor the fee shift -/
theorem shiftOf_reserved (lo r : Nat) : shiftOf (lo + 17592186044416 * r) = shiftOf lo := by
  unfold shiftOf FEE_MOD SHIFT_MOD; omega

theorem fold_satAdd (l : List Nat) : ∀ acc, acc + sumNat (l.map feeOf) < U64_MOD →
    l.foldl (fun a w => satAdd a (feeOf w)) acc = acc + sumNat (l.map feeOf) := by
  have hsum : ∀ (l : List Nat) a, l.foldl (· + ·) a = a + l.foldl (· + ·) 0 := by
    intro l
    induction l with
    | nil => intro a; simp
    | cons x xs ih => intro a; simp only [List.foldl_cons]; rw [ih (a + x), ih (0 + x)]; omega
  induction l with
  | nil => intro acc _; simp [sumNat]
  | cons x xs ih =>
    intro acc h
    simp only [List.foldl_cons, List.map_cons, sumNat] at h ⊢
    rw [hsum] at h
    rw [hsum (xs.map feeOf) (0 + feeOf x)]
    have hx : satAdd acc (feeOf x) = acc + feeOf x := by
      unfold satAdd; rw [if_pos (by omega)]
    rw [hx, ih (acc + feeOf x) (by unfold sumNat; omega)]
    unfold sumNat; omega

theorem sum_fees_le (l : List Nat) : sumNat (l.map feeOf) ≤ l.length * (FEE_MOD - 1) := by
  have hsum : ∀ (l : List Nat) a, l.foldl (· + ·) a = a + l.foldl (· + ·) 0 := by
    intro l
    induction l with
    | nil => intro a; simp
    | cons x xs ih => intro a; simp only [List.foldl_cons]; rw [ih (a + x), ih (0 + x)]; omega
  induction l with
  | nil => simp [sumNat]
  | cons x xs ih =>
    have := feeOf_lt x
    simp only [List.map_cons, sumNat, List.foldl_cons, List.length_cons] at ih ⊢
    rw [hsum]
    rw [Nat.add_mul]
    unfold FEE_MOD at *
    omega

/-- with fewer than 2^23 fee-carrying kernels the body fee is the plain sum of the 40-bit fees -/
theorem bodyFee_eq_sum (t : TxV) (hn : (words t).length < 8388608) :
    bodyFee t = sumNat ((words t).map feeOf) ∧ bodyFee t < I64_LIM := by
  have hle := sum_fees_le (words t)
  have hb : sumNat ((words t).map feeOf) < I64_LIM := by
    unfold FEE_MOD at hle; unfold I64_LIM
    have : (words t).length * (1099511627776 - 1) ≤ 8388607 * (1099511627776 - 1) :=
      Nat.mul_le_mul_right _ (by omega)
    omega
  unfold bodyFee
  rw [fold_satAdd _ 0 (by unfold U64_MOD; unfold I64_LIM at hb; omega)]
  rw [Nat.zero_add]
  exact ⟨rfl, hb⟩

/-- … and the overage is that sum: never negative, whatever the reserved bits of the words -/
theorem overage_eq_sum (t : TxV) (hn : (words t).length < 8388608) :
    overage t = (sumNat ((words t).map feeOf) : Int) ∧ 0 ≤ overage t := by
  obtain ⟨h1, h2⟩ := bodyFee_eq_sum t hn
  unfold overage toI64
  rw [if_pos h2, h1]
  exact ⟨rfl, Int.natCast_nonneg _⟩

/-- **no value is created**: a transaction accepted under any weighting gives up exactly the 40-bit
fees of its kernels - outputs + fees = inputs - whatever the reserved bits of the fee-field words -/
theorem accepted_balances (P : WParams) (w : Weighting) (t : TxV) (hn : (words t).length < 8388608)
    (h : validate P w t = none) :
    sumNat (t.outs.map (·.v)) + sumNat ((words t).map feeOf) = sumNat t.ins := by
  have hs := accepted_sums P w t h
  obtain ⟨ho, _⟩ := overage_eq_sum t hn
  unfold verifyKernelSums at hs
  simp only at hs
  split at hs
  · cases hs
  · split at hs
    · cases hs
    · rename_i hne
      have heq : (sumNat (t.outs.map (·.v)) : Int) + overage t = (sumNat t.ins : Int) :=
        Classical.byContradiction fun hc => hne (Or.inl hc)
      rw [ho] at heq
      exact_mod_cast heq

/-- rewrite the fee-field word of every fee-carrying kernel -/
def mapWords (f : Nat → Nat) (t : TxV) : TxV :=
  { t with kers := t.kers.map fun k => { k with word := k.word.map f } }

theorem words_mapWords (f : Nat → Nat) (t : TxV) : words (mapWords f t) = (words t).map f := by
  unfold words mapWords
  simp only
  induction t.kers with
  | nil => rfl
  | cons k ks ih =>
    cases hk : k.word with
    | none => simp [hk, ih]
    | some w => simp [hk, ih]

theorem foldl_fee_map (f : Nat → Nat) (hf : ∀ w, feeOf (f w) = feeOf w) (l : List Nat) :
    ∀ acc, (l.map f).foldl (fun a w => satAdd a (feeOf w)) acc = l.foldl (fun a w => satAdd a (feeOf w)) acc := by
  induction l with
  | nil => intro acc; rfl
  | cons x xs ih => intro acc; simp only [List.map_cons, List.foldl_cons, hf, ih]

/-- the verdict depends on the fee-field words only through their 40-bit fees: rewriting the words
by any function that keeps the low 40 bits changes nothing, under any weighting -/
theorem validate_depends_on_fee_bits_only (P : WParams) (w : Weighting) (t : TxV) (f : Nat → Nat)
    (hf : ∀ x, feeOf (f x) = feeOf x) : validate P w (mapWords f t) = validate P w t := by
  have hfee : bodyFee (mapWords f t) = bodyFee t := by
    unfold bodyFee; rw [words_mapWords, foldl_fee_map f hf]
  have hov : overage (mapWords f t) = overage t := by unfold overage; rw [hfee]
  have hnone : (mapWords f t).kers.any (·.word.isNone) = t.kers.any (·.word.isNone) := by
    unfold mapWords
    simp only
    induction t.kers with
    | nil => rfl
    | cons k ks ih => cases hk : k.word <;> simp [hk, ih]
  have hsig : (mapWords f t).kers.any (·.sigBad) = t.kers.any (·.sigBad) := by
    unfold mapWords
    simp only
    induction t.kers with
    | nil => rfl
    | cons k ks ih => simp [ih]
  have hlen : (mapWords f t).kers.length = t.kers.length := by unfold mapWords; simp
  have hfeat : verifyFeatures (mapWords f t) = verifyFeatures t := by
    unfold verifyFeatures; rw [hnone]; rfl
  have hw : verifyWeight P w (mapWords f t) = verifyWeight P w t := by
    unfold verifyWeight weight; rw [hlen]; rfl
  have hsums : verifyKernelSums (mapWords f t) = verifyKernelSums t := by
    unfold verifyKernelSums; rw [hov]; rfl
  have hrest : validateRest (mapWords f t) = validateRest t := by
    unfold validateRest; rw [hsig, hsums]; rfl
  unfold validate
  rw [hfeat, hw, hrest]

/-- in particular: setting any reserved bits (bits 44..63 and beyond) in any kernel never changes
the verdict -/
theorem validate_reserved_invariant (P : WParams) (w : Weighting) (t : TxV) (r : Nat) :
    validate P w (mapWords (· + 17592186044416 * r) t) = validate P w t :=
  validate_depends_on_fee_bits_only P w t _ (fun x => feeOf_reserved x r)

/-! ### non-vacuity -/

/-- 5 in, 3 out, fee 2 in a word whose bit 63 is set: accepted under every weighting -/
private def honest63 : TxV :=
  { ins := [5], outs := [{ v := 3 }], kers := [{ word := some (9223372036854775808 + 2) }] }

example : validate {} .asTransaction honest63 = none ∧ validate {} .noLimit honest63 = none ∧
    validate {} .asBlock honest63 = none ∧ validate {} (.asLimitedTransaction 100) honest63 = none := by
  decide

/-- 5 in, 2^63 + 3 out with the same word: refused (it would balance if bit 63 reached the overage) -/
example : validate {} .noLimit { honest63 with outs := [{ v := 9223372036854775808 + 3 }] }
    = some "Committed:KernelSumMismatch" := by decide

/-- a swapped range proof is refused without limit as well; only the weight check sees the weighting -/
example : validate {} .noLimit { honest63 with outs := [{ v := 3, proofBad := true }] }
    = some "Secp:InvalidRangeProof" ∧
    validate {} (.asLimitedTransaction 30) honest63 = some "TooHeavy" := by decide

end GV.Props.C01TxVal
