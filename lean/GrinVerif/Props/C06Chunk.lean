import GrinVerif.Model.ChainKnown
/-! C06 / C03 for header sync chunks (`Chain::sync_block_headers` / `pipe::process_block_headers`;
`Model/ChainKnown.lean` `processHeadersK`): a refused chunk leaves NOTHING behind, an accepted chunk
touches only the header store and the header head, and a chunk is accepted only if NO header on the
last header's own path that the header MMR does not hold yet - in particular no non-last header of
the chunk the followers build on - is denied or fails its root check.

"A chunk of fresh headers is accepted iff each header is accepted singly, in order" is proved in
three steps: the reduction to two path facts about `forkBlocks` here
(`chunk_accepted_iff_given_fork_set`), the path facts in Props/C06ChunkPath.lean
(`chunk_accepted_iff_no_root_fault`), the fold of the single-header path in
Props/C06ChunkSingles.lean (`singles_iff`, `chunk_accepted_iff_each_singly`). -/
namespace GV.Props.C06Chunk
open GV GV.Chain

/-- **all or nothing**: a refused chunk returns the node it was given -/
theorem refused_chunk_changes_nothing (p : Params) (deny : List Nat) (n : Node) (bs : List Blk) (e : Err)
    (h : processHeadersK p deny n bs = .error e) :
    deliverHeadersK p deny n bs = (n, s!"err:{e}") := by
  unfold deliverHeadersK; rw [h]

/-- the per-header loop touches only the header store, which only grows, and afterwards holds every
header of the chunk -/
theorem validateChunk_frame (p : Params) (deny : List Nat) (bs : List Blk) : ∀ (n n1 : Node),
    validateChunk p deny n bs = .ok n1 →
    n1.head = n.head ∧ n1.hhead = n.hhead ∧ n1.stored = n.stored ∧ n1.blks = n.blks ∧
    n1.outs = n.outs ∧ n1.orphans = n.orphans ∧ (∀ x ∈ n.headers, x ∈ n1.headers) ∧
    (∀ b ∈ bs, b.id ∈ n1.headers) := by
  induction bs with
  | nil =>
    intro n n1 h
    unfold validateChunk at h
    injection h with h; subst h
    exact ⟨rfl, rfl, rfl, rfl, rfl, rfl, fun _ hx => hx, fun _ hb => absurd hb (by simp)⟩
  | cons b bs ih =>
    intro n n1 h
    unfold validateChunk at h
    split at h
    · cases h
    · split at h
      · cases h
      · have := ih _ n1 h
        obtain ⟨a1, a2, a3, a4, a5, a6, a7, a8⟩ := this
        have hsub : ∀ x ∈ n.headers, x ∈ (if n.headers.contains b.id then n.headers else n.headers ++ [b.id]) := by
          intro x hx; split
          · exact hx
          · exact List.mem_append_left _ hx
        have hbin : b.id ∈ (if n.headers.contains b.id then n.headers else n.headers ++ [b.id]) := by
          split
          · rename_i hc; simpa using hc
          · simp
        refine ⟨a1, a2, a3, a4, a5, a6, fun x hx => a7 x (hsub x hx), ?_⟩
        intro b' hb'
        rcases List.mem_cons.mp hb' with hb' | hb'
        · subst hb'; exact a7 _ hbin
        · exact a8 b' hb'

/-- every header of a chunk that passes the loop is off the denylist -/
theorem validateChunk_not_denied (p : Params) (deny : List Nat) (bs : List Blk) : ∀ (n n1 : Node),
    validateChunk p deny n bs = .ok n1 → ∀ b ∈ bs, deny.contains b.id = false := by
  induction bs with
  | nil => intro n n1 _ b hb; exact absurd hb (by simp)
  | cons b bs ih =>
    intro n n1 h b' hb'
    unfold validateChunk at h
    split at h
    · cases h
    · rename_i hd
      split at h
      · cases h
      · rcases List.mem_cons.mp hb' with hb' | hb'
        · subst hb'; simpa using hd
        · exact ih _ n1 h b' hb'

/-- the header-MMR step passes iff every re-applied header is off the denylist and passes its root
check -/
theorem applyForkHeaders_none_iff (deny : List Nat) (l : List Blk) :
    applyForkHeaders deny l = none ↔ ∀ b ∈ l, deny.contains b.id = false ∧ hasTag b "hdr:" = none := by
  induction l with
  | nil => simp [applyForkHeaders]
  | cons b bs ih =>
    unfold applyForkHeaders
    by_cases hd : b.id ∈ deny <;> cases ht : hasTag b "hdr:" <;> simp [hd, ht, ih]

/-- what an accepted chunk changes: the header store grows by its headers, the header head moves to
the LAST header iff that has more work; head, block store, orphan pool untouched -/
theorem accepted_chunk_frame (p : Params) (deny : List Nat) (n n' : Node) (bs : List Blk)
    (h : processHeadersK p deny n bs = .ok n') :
    n'.head = n.head ∧ n'.stored = n.stored ∧ n'.blks = n.blks ∧ n'.outs = n.outs ∧
    n'.orphans = n.orphans ∧ (∀ x ∈ n.headers, x ∈ n'.headers) ∧ (∀ b ∈ bs, b.id ∈ n'.headers) ∧
    (n'.hhead = n.hhead ∨ ∃ last, bs.getLast? = some last ∧ n'.hhead = last.id ∧ last.work > n.workOf n.hhead) := by
  unfold processHeadersK at h
  split at h
  · rename_i hl
    injection h with h; subst h
    have : bs = [] := by
      cases bs with
      | nil => rfl
      | cons b bs => simp [List.getLast?] at hl
    subst this
    exact ⟨rfl, rfl, rfl, rfl, rfl, fun _ hx => hx, fun _ hb => absurd hb (by simp), Or.inl rfl⟩
  · rename_i last hl
    split at h
    · cases h
    · rename_i n1 hv
      obtain ⟨a1, a2, a3, a4, a5, a6, a7, a8⟩ := validateChunk_frame p deny bs n n1 hv
      split at h
      · cases h
      · injection h with h; subst h
        refine ⟨a1, a3, a4, a5, a6, a7, a8, ?_⟩
        by_cases hw : last.work > n.workOf n.hhead
        · right; exact ⟨last, hl, by simp [hw], hw⟩
        · left; simp only [hw, if_false] <;> exact a2

/-- **an accepted chunk re-applied only clean headers**: no header on the last header's own path
that the header MMR did not hold - the chunk's non-last headers the followers build on included -
is denied or fails `validate_root`. Contrapositive: ONE wrong header below the last one, at any
position, refuses the whole chunk. -/
theorem accepted_chunk_fork_headers_clean (p : Params) (deny : List Nat) (n n' : Node) (bs : List Blk)
    (last : Blk) (hl : bs.getLast? = some last) (h : processHeadersK p deny n bs = .ok n') :
    ∃ n1, validateChunk p deny n bs = .ok n1 ∧
      ∀ b ∈ forkBlocks n1 last.id, deny.contains b.id = false ∧ hasTag b "hdr:" = none := by
  unfold processHeadersK at h
  rw [hl] at h
  simp only at h
  split at h
  · cases h
  · rename_i n1 hv
    split at h
    · cases h
    · rename_i hf
      exact ⟨n1, hv, (applyForkHeaders_none_iff deny _).mp hf⟩

/-- ... in particular a chunk with a wrong header among the headers being re-applied is refused
and, by `refused_chunk_changes_nothing`, leaves nothing behind -/
theorem chunk_with_wrong_fork_header_refused (p : Params) (deny : List Nat) (n n1 : Node) (bs : List Blk)
    (last b : Blk) (e : Err) (hl : bs.getLast? = some last) (hv : validateChunk p deny n bs = .ok n1)
    (hb : b ∈ forkBlocks n1 last.id) (ht : hasTag b "hdr:" = some e) :
    ∃ e', processHeadersK p deny n bs = .error e' := by
  cases hr : processHeadersK p deny n bs with
  | error e' => exact ⟨e', rfl⟩
  | ok n' =>
    obtain ⟨n1', hv', hc⟩ := accepted_chunk_fork_headers_clean p deny n n' bs last hl hr
    rw [hv] at hv'
    injection hv' with hv'
    subst hv'
    have := (hc b hb).2
    rw [ht] at this
    cases this

/- The full statement (proved as `chunk_accepted_iff_each_singly`, Props/C06ChunkSingles.lean): for a chunk `bs` of registered headers, none known as a full block,
none in the header store, each the child of its predecessor and the first a child of a stored
header, on a node whose stored headers all passed their root check and whose header chain lies in
the header store:  (∃ n', processHeadersK p [] n bs = .ok n')  ↔  the fold of `processHeaderK p []`
over `bs` succeeds at every step. -/
/-- **chunk = its headers one by one, reduced to one path fact.** With no denylist: once the
per-header loop is through (it runs the same `validate_header` checks, on the same growing header
store, as the single-header path does for fresh headers), the chunk is accepted iff NO header of
the chunk fails its root check - which is what delivering them one by one decides - PROVIDED the
headers the MMR step re-applies are the chunk's own plus already stored, untagged ones (`H1`: every
chunk header is on the last header's path and off the header chain; `H2`: the other re-applied
headers passed their root check when they were stored). `H1` / `H2` are derived from "fresh,
linked chunk" in Props/C06ChunkPath.lean. -/
theorem chunk_accepted_iff_given_fork_set (p : Params) (n n1 : Node) (bs : List Blk) (last : Blk)
    (hl : bs.getLast? = some last) (hv : validateChunk p [] n bs = .ok n1)
    (H1 : ∀ b ∈ bs, b ∈ forkBlocks n1 last.id)
    (H2 : ∀ b ∈ forkBlocks n1 last.id, b ∉ bs → hasTag b "hdr:" = none) :
    (∃ n', processHeadersK p [] n bs = .ok n') ↔ ∀ b ∈ bs, hasTag b "hdr:" = none := by
  have key : applyForkHeaders [] (forkBlocks n1 last.id) = none ↔ ∀ b ∈ bs, hasTag b "hdr:" = none := by
    rw [applyForkHeaders_none_iff]
    constructor
    · intro h b hb; exact (h b (H1 b hb)).2
    · intro h b hb
      refine ⟨by simp, ?_⟩
      by_cases hm : b ∈ bs
      · exact h b hm
      · exact H2 b hb hm
  unfold processHeadersK
  rw [hl]
  simp only [hv]
  constructor
  · intro ⟨n', h⟩
    apply key.mp
    cases hf : applyForkHeaders [] (forkBlocks n1 last.id) with
    | none => rfl
    | some e => rw [hf] at h; cases h
  · intro h
    rw [key.mpr h]
    exact ⟨_, rfl⟩

/-! ### witnesses -/

private def g0 : Blk := { id := 0, parent := none, h := 0, work := 1, ver := 1, ts := 0, ins := [], outs := [(0, true)], kers := [.cb], tags := [] }
private def mk (id par h work : Nat) (tags : List String) : Blk :=
  { id, parent := some par, h, work, ver := h / 3 + 1, ts := h, ins := [], outs := [(id, true)], kers := [.cb], tags }
/-- genesis known; b1 (wrong prev_root) - b2 - b3 built on it; v1 - v2 honest -/
private def nd : Node :=
  { blks := [g0, mk 1 0 1 2 ["hdr:InvalidRoot"], mk 2 1 2 3 [], mk 3 2 3 9 [], mk 4 0 1 2 [], mk 5 4 2 3 []] }

/-- the honest chunk v1 - v2 is taken: both headers saved, the header head on the last one (that
the twin chunk b1 - b2 - b3 with the wrong first header is refused is
`chunk_with_wrong_fork_header_refused`, whose hypotheses the next example instantiates) -/
theorem honest_chunk_taken :
    (match processHeadersK {} [] nd [mk 4 0 1 2 [], mk 5 4 2 3 []] with
     | .ok n' => n'.headers == [0, 4, 5] && n'.hhead == 5 && n'.head == 0
     | .error _ => false) = true := by decide

/-- hypotheses of `chunk_with_wrong_fork_header_refused` are satisfiable (the wrong header is among
the fork blocks of the last header) -/
example : (match validateChunk {} [] nd [mk 1 0 1 2 ["hdr:InvalidRoot"], mk 2 1 2 3 []] with
    | .ok n1 => ((forkBlocks n1 2).map (·.id)) == [1, 2]
    | .error _ => false) = true := by decide

end GV.Props.C06Chunk
