import GrinVerif.Lemmas.StoreVarHistory
/-! C08 for VARIABLE-SIZE data files (`store/src/types.rs`: `AppendOnlyFile<T>` with
`SizeInfo::VariableSize(size_file)`, `SizeEntry { offset, size }`; in the node the kernel MMR's
`pmmr_data.bin` + `pmmr_size.bin`).

`Props/C08.lean` proves the history theorems for backends whose data file is modelled at element
level (`.fixed`; exact for fixed-size elements).  Here:

* **file level** – the byte-level file with its size file (`VarFile`: data bytes, byte buffer, size
  entries on disk and buffered, both `buffer_start_pos` / `_bak` pairs) REFINES the element-level
  file, operation by operation: `append` (offset taken from the previous size entry), `read_as_elmt`
  (offset/size from the size file, mmap vs buffer, buffer offset = entry at `buffer_start_pos`),
  `rewind`, `flush` (size file first; `set_len(offset + size)` of entry `buffer_start_pos - 1`),
  `discard`, compaction (`write_tmp_pruned` over the parsed stream, `replace_with_tmp`,
  `rebuild_size_file`, `init`), reopen – also with a missing / stale size file that `open` notices.
* **history level** – along every protocol-respecting history the variable-size backend is the
  fixed-size backend with its data file replaced by a representing `VarFile`; hence
  `history_preserves_reference` and `history_merkle_proofs` hold verbatim for it.

Hypothesis on the element type: its encoding is self-delimiting and not empty (`VarFile.Delim`:
`T::read` consumes exactly what `T::write` produced, whatever follows) – what every `Writeable`
stored in a data file satisfies – and is shorter than 65536 bytes: `SizeEntry.size` is a `u16`
(`bytes.len() as u16`; the model wraps as the code does, `VarFile.u16`, and `oversize_element_lost`
shows what then happens). -/
namespace GV.Props.C08Var
open GV GV.Pmmr GV.Pmmr.Co GV.Store GV.Store.VarFile

/-! ## the file refines the element-level file -/

/-- the empty file pair represents the empty element file -/
theorem var_file_empty (el : Bytes → Option Nat) : Rep el {} {} := rep_empty el

/-- **`read_as_elmt`** of the variable-size file = `read` of the element-level file, at every
position (synced part, buffer, beyond the end), in every state incl. rewound ones -/
theorem var_file_read {el : Bytes → Option Nat} {v : VarFile} {f : AOF Bytes} (h : Rep el v f)
    (pos : Nat) : VarFile.read el v pos = f.read pos ∧ VarFile.read1 el v pos = f.read1 pos :=
  ⟨h.read pos, h.read1 pos⟩

/-- **`append`** never fails (the previous size entry is always readable) and is `append` -/
theorem var_file_append {el : Bytes → Option Nat} {v : VarFile} {f : AOF Bytes} (h : Rep el v f)
    (e : Bytes) (he : Delim el e) :
    ∃ v', VarFile.append v e = some v' ∧ Rep el v' (f.append e) ∧
      VarFile.sizeUnsyncInElmts v' = (f.append e).sizeUnsyncInElmts := by
  obtain ⟨v', h1, h2⟩ := h.append e he
  exact ⟨v', h1, h2, h2.sizeUnsync⟩

/-- **`rewind`** to a position inside the file, before anything is buffered (the usage protocol:
`Extension::rewind` precedes the appends of a unit of work) -/
theorem var_file_rewind {el : Bytes → Option Nat} {v : VarFile} {f : AOF Bytes} (h : Rep el v f)
    (hb : f.buffer = []) (pos : Nat) (hp : pos ≤ f.disk.length) :
    Rep el (v.rewind pos) (f.rewind pos) := h.rewind hb pos hp

/-- **`flush`**: data file and size file on disk are again consistent – the data file is the
concatenation of the elements, the size file their `(offset, size)` list -/
theorem var_file_flush {el : Bytes → Option Nat} {v : VarFile} {f : AOF Bytes} (h : Rep el v f) :
    Rep el v.flush f.flush ∧ v.flush.disk = f.flush.disk.flatten ∧
    v.flush.sizeFile.disk = sizeEntries 0 f.flush.disk :=
  ⟨h.flush, h.flush.disk, h.flush.sfDisk⟩

/-- **`discard`** -/
theorem var_file_discard {el : Bytes → Option Nat} {v : VarFile} {f : AOF Bytes} (h : Rep el v f) :
    Rep el v.discard f.discard := h.discard

/-- **compaction** of a synced file -/
theorem var_file_compact {el : Bytes → Option Nat} {v : VarFile} {f : AOF Bytes} (h : Rep el v f)
    (hc : f.Clean) (idx : List Nat) :
    Rep el (replaceWith el v (writeTmpPruned el v idx)) (f.replaceWith (f.writeTmpPruned idx)) :=
  h.compact hc idx

/-- **reopen** from the durable parts -/
theorem var_file_reopen {el : Bytes → Option Nat} {v : VarFile} {f : AOF Bytes} (h : Rep el v f) :
    Rep el (ofDisk el v.disk v.sizeFile.disk) (AOF.ofDisk f.disk) := h.reopen

/-- **`open` with a missing or stale size file** (state sync ships no size file; a crash can leave
an old one): whenever `sum_sizes() != data file length` the size file is rebuilt from the data
file and the opened pair represents exactly the elements the data file holds – whatever the size
file contained. -/
theorem var_file_open_rebuilds {el : Bytes → Option Nat} (E : List Bytes) (hd : ∀ e ∈ E, Delim el e)
    (sizes : List SizeEntry)
    (hs : sumSizes (VarFile.init { disk := E.flatten, sizeFile := { disk := sizes } }).sizeFile ≠
      E.flatten.length) :
    Rep el (ofDisk el E.flatten sizes) (AOF.ofDisk E) := rep_ofDisk hd sizes (Or.inr hs)

/-- one whole unit of work on a synced file and its end: rewind, appends, then `flush` or
`discard` – the durable result is the element-level result -/
theorem var_file_unit {el : Bytes → Option Nat} {v : VarFile} {f : AOF Bytes} (h : Rep el v f)
    (hb : f.buffer = []) (pos : Nat) (hp : pos ≤ f.disk.length) (e₁ e₂ : Bytes)
    (h1 : Delim el e₁) (h2 : Delim el e₂) :
    ∃ v₂, (VarFile.append (v.rewind pos) e₁).bind (fun v₁ => VarFile.append v₁ e₂) = some v₂ ∧
      Rep el v₂.flush (((f.rewind pos).append e₁).append e₂).flush ∧
      Rep el v₂.discard (((f.rewind pos).append e₁).append e₂).discard := by
  obtain ⟨v₁, a1, r1⟩ := (h.rewind hb pos hp).append e₁ h1
  obtain ⟨v₂, a2, r2⟩ := r1.append e₂ h2
  exact ⟨v₂, by rw [a1]; exact a2, r2.flush, r2.discard⟩

/-- **An element of 65536 bytes or more is lost** (`size: bytes.len() as u16`): its size entry holds
the length modulo 2^16, so reading it back hands `T::read` a slice that is too short – for a
self-delimiting reader a read error (`None`), although `append` reported success.  No type stored
in a variable-size data file comes near (a `TxKernel` has at most 114 bytes); run `varopen`
probes it on the code with a test element type (`store new big`). -/
theorem oversize_element_lost (el : Bytes → Option Nat) (e : Bytes) (he : 65536 ≤ e.length)
    (hel : ∀ b, b.length < e.length → el b = none ∨ ∃ n, el b = some n ∧ b.length < n) :
    ∃ v', VarFile.append {} e = some v' ∧ v'.sizeFile.buffer = [(0, e.length % 65536)] ∧
      VarFile.read el v' 0 = none := by
  refine ⟨_, rfl, rfl, ?_⟩
  have hlt : e.length % 65536 < e.length := by
    have := Nat.mod_lt e.length (show 0 < 65536 by omega); omega
  have hs : (slice e 0 (e.length % 65536)).length < e.length := by
    unfold slice
    split
    · simp; omega
    · simp; omega
  simp only [VarFile.read, VarFile.readBytes, VarFile.sizeUnsyncInElmts, VarFile.offsetAndSize, VarFile.append,
    VarFile.u16, AOF.sizeUnsyncInElmts, AOF.append, AOF.read]
  simp only [List.nil_append, List.length_cons, List.length_nil, Nat.zero_add, ge_iff_le, Nat.le_refl,
    Nat.not_succ_le_zero, if_false, Nat.lt_irrefl, Nat.sub_self, List.getElem?_cons_zero, Nat.zero_sub]
  rcases hel _ hs with h | ⟨n, h, hn⟩
  · simp [h]
  · simp [h]; omega

/-! ## histories -/

/-- **The variable-size backend simulates the fixed-size one along every protocol-respecting
history** (all pushed elements self-delimiting): same size, hash file, leaf set, prune list and
prune-list file; the data file pair represents the element-level data file; `get_data` agrees at
every position. -/
theorem history_var_simulates_fixed {H : Type} (el : Bytes → Option Nat) (hf : HashFn Bytes H)
    (ops : List HOp) (hproto : RefSt.Proto {} ops) (hd : ∀ e, HOp.push e ∈ ops → Delim el e) :
    let pv := ops.foldl (bstep el hf) ({ b := { dataFile := .var {} }, size := 0 } : PM H)
    let pf := ops.foldl (bstep el hf) ({} : PM H)
    pv.size = pf.size ∧ pv.b.hashFile = pf.b.hashFile ∧ pv.b.leafSet = pf.b.leafSet ∧
    pv.b.pruneList = pf.b.pruneList ∧ pv.b.pruneFile = pf.b.pruneFile ∧
    (∃ v f, pv.b.dataFile = .var v ∧ pf.b.dataFile = .fixed f ∧ Rep el v f) ∧
    (∀ q, PM.getData el pv q = PM.getData el pf q) := by
  intro pv pf
  have hs : PSim el pv pf := psim_run el hf ops _ _ _ (hinv_init hf) (psim_init el) hproto hd
  refine ⟨hs.size, hs.hashFile, hs.leafSet, hs.pruneList, hs.pruneFile, ?_, hs.getData⟩
  obtain ⟨v, f, h1, h2, h3⟩ := hs
  exact ⟨v, f, by rw [h3], h1, h2⟩

/-- **history_preserves_reference for variable-size data files.**  After ANY sequence of `push` /
`prune` / `rewind` / `sync` / `discard` / `compact` / `reopen` obeying the usage protocol, starting
from the empty store with a variable-size data file: size, root, the unspent-leaf set, hash and
DATA (read through the size file) of every unspent leaf, every hash on the Merkle path of an
unspent leaf and every peak hash equal those of the unpruned reference. -/
theorem history_preserves_reference_var {H : Type} (el : Bytes → Option Nat) (hf : HashFn Bytes H)
    (ops : List HOp) (hproto : RefSt.Proto {} ops) (hd : ∀ e, HOp.push e ∈ ops → Delim el e) :
    let p := ops.foldl (bstep el hf) ({ b := { dataFile := .var {} }, size := 0 } : PM H)
    let r := ops.foldl RefSt.step {}
    let N := r.cur.es.length
    let rh := Pmmr.Co.allHashes hf (leafFn r.cur.es) N
    p.size = mmr N ∧
    (r.dirty = false → p.b.unprunedSize = mmr N) ∧
    PM.root hf p = Pmmr.root hf rh ∧
    (∀ q, (q + 1) ∈ p.b.leafSet.bitmap ↔ q ∈ r.cur.U) ∧
    (∀ q, q ∈ r.cur.U → ∃ i, i < N ∧ q = mmr i ∧
      PM.getHash p q = some (refHash hf (leafFn r.cur.es) q) ∧
      rh[q]? = some (refHash hf (leafFn r.cur.es) q) ∧
      PM.getData el p q = some (r.cur.es.getD i [])) ∧
    (∀ q, q ∈ r.cur.U → ∀ a, Store.Sub (family a).1 q → a < mmr N →
      p.b.getFromFile a = some (refHash hf (leafFn r.cur.es) a)) ∧
    (∀ pk ∈ peaks (mmr N), p.b.getPeakFromFile pk = some (refHash hf (leafFn r.cur.es) pk)) := by
  intro p r N rh
  have hs : PSim el p (ops.foldl (bstep el hf) ({} : PM H)) :=
    psim_run el hf ops _ _ _ (hinv_init hf) (psim_init el) hproto hd
  have hobs := hinv_observables el hf (hinv_run el hf ops _ _ (hinv_init hf) hproto)
  obtain ⟨o1, o2, o3, o4, o5, o6, o7⟩ := hobs
  refine ⟨?_, ?_, ?_, ?_, ?_, ?_, ?_⟩
  · rw [hs.size]; exact o1
  · intro hdirty; rw [hs.unprunedSize]; exact o2 hdirty
  · rw [hs.root]; exact o3
  · intro q; rw [hs.leafSet]; exact o4 q
  · intro q hq
    obtain ⟨i, a1, a2, a3, a4, a5⟩ := o5 q hq
    exact ⟨i, a1, a2, by rw [hs.getHash]; exact a3, a4, by rw [hs.getData]; exact a5⟩
  · intro q hq a ha hlt; rw [hs.getFromFile]; exact o6 q hq a ha hlt
  · intro pk hpk; rw [hs.getPeakFromFile]; exact o7 pk hpk

/-- **Merkle proofs over histories, variable-size data files** -/
theorem history_merkle_proofs_var {H : Type} (el : Bytes → Option Nat) (hf : HashFn Bytes H)
    (ops : List HOp) (hproto : RefSt.Proto {} ops) (hd : ∀ e, HOp.push e ∈ ops → Delim el e) :
    let p := ops.foldl (bstep el hf) ({ b := { dataFile := .var {} }, size := 0 } : PM H)
    let r := ops.foldl RefSt.step {}
    ∀ q, q ∈ r.cur.U → PM.merkleProof hf p q =
      Pmmr.merkleProof hf (Pmmr.Co.allHashes hf (leafFn r.cur.es) r.cur.es.length) q := by
  intro p r q hq
  have hs : PSim el p (ops.foldl (bstep el hf) ({} : PM H)) :=
    psim_run el hf ops _ _ _ (hinv_init hf) (psim_init el) hproto hd
  rw [hs.merkleProof]
  exact hinv_merkleProof hf (hinv_run el hf ops _ _ (hinv_init hf) hproto) q hq

/-! ## non-vacuity -/

/-- the harness' variable-size element: one length byte, then that many bytes -/
def lenPrefixed : Bytes → Option Nat
  | [] => none
  | n :: _ => some (n + 1)

theorem lenPrefixed_delim (n : Nat) (body : Bytes) (h : body.length = n) (hn : n < 65535) :
    Delim lenPrefixed (n :: body) := by
  refine ⟨⟨by simp, by simp [h]; omega⟩, fun rest => ?_⟩
  simp [lenPrefixed, h]

/-- a concrete represented file: two elements on disk, the file rewound to one element, one element
buffered (hypotheses of every file-level theorem are satisfiable in a rewound, dirty state) -/
example : ∃ v : VarFile, Rep lenPrefixed v
    { disk := [[2, 7, 9], [0]], buffer := [[1, 5]], bsp := 1, bak := 2 } ∧
    VarFile.read lenPrefixed v 1 = some [1, 5] ∧ v.sizeFile.buffer = [(3, 2)] := by
  have d1 := lenPrefixed_delim 2 [7, 9] rfl (by omega)
  have d2 := lenPrefixed_delim 0 [] rfl (by omega)
  have d3 := lenPrefixed_delim 1 [5] rfl (by omega)
  have h0 : Rep lenPrefixed {} {} := rep_empty _
  obtain ⟨v1, a1, r1⟩ := h0.append _ d1
  obtain ⟨v2, a2, r2⟩ := r1.append _ d2
  have r3 := r2.flush
  have r4 := r3.rewind rfl 1 (by decide)
  obtain ⟨v5, a5, r5⟩ := r4.append _ d3
  have e : ((((({} : AOF Bytes).append [2, 7, 9]).append [0]).flush.rewind 1).append [1, 5]) =
      { disk := [[2, 7, 9], [0]], buffer := [[1, 5]], bsp := 1, bak := 2 } := by
    simp [AOF.append, AOF.flush, AOF.rewind]
  rw [e] at r5
  refine ⟨v5, r5, ?_, ?_⟩
  · rw [r5.read]; rfl
  · rw [r5.sfBuffer]; rfl

/-- a protocol-respecting history whose pushes are length-prefixed elements: append, commit, rewind
below the last element, append another one, commit, reopen -/
example : RefSt.Proto {} [.push [2, 7, 9], .push [0], .sync, .rewind 1 [], .push [1, 5], .sync, .reopen] ∧
    ∀ e, HOp.push e ∈ [HOp.push [2, 7, 9], .push [0], .sync, .rewind 1 [], .push [1, 5], .sync, .reopen] →
      Delim lenPrefixed e := by
  constructor
  · have hb : ∀ n, n ≤ 10 → mmr n + 64 < 2 ^ 64 := fun n hn => by
      have := Pmmr.Co.mmr_le_two_mul n; omega
    simp only [RefSt.Proto, RefSt.ok, RefSt.step, List.length_append, List.length_cons,
      List.length_nil, and_true, true_and]
    refine ⟨hb _ (by omega), hb _ (by omega), ?_⟩
    simp
    exact hb _ (by omega)
  · intro e he
    simp only [List.mem_cons, HOp.push.injEq, List.mem_nil_iff, or_false, reduceCtorEq, false_or] at he
    rcases he with rfl | rfl | rfl
    · exact lenPrefixed_delim 2 [7, 9] rfl (by omega)
    · exact lenPrefixed_delim 0 [] rfl (by omega)
    · exact lenPrefixed_delim 1 [5] rfl (by omega)

end GV.Props.C08Var
