import GrinVerif.Lemmas.ChainPoolPos
import GrinVerif.Lemmas.ChainPoolExamples
/-! C13 / C14 — coinbase maturity at pool admission reads its cutoff on the BODY chain, whatever
fork the header chain is on.

`Node.poolMaturityFixed` (`Model/ChainPool.lean`) is the implementation-shaped
`Chain::verify_coinbase_maturity` as it is since the repair 34e76938f of the recorded defect
`C13-pool-maturity-cutoff-read-from-header-fork` (`Node.poolMaturityImpl` is the code before the
repair; `Props/C13.lean` keeps the witnesses of what it did).  Position-based: the largest
output-MMR position of a spent coinbase against `output_mmr_size` of the header at height
`next - maturity` in the header MMR - the header MMR of `header_head` while the body head is on
it, else the header MMR rewound to the body head.

* `pool_maturity_fixed_agrees` / `pool_maturity_fixed_after_any_history` — full strength: for
  every node reached by any history of blocks and headers in any order (any header chain: the
  body chain, an extension of it, or a competing fork of any fork point, length, work and number
  of outputs per block, shorter or longer than the cutoff height) the check returns exactly the
  height-based specification `txMaturity` of the body head's state, for every transaction.
* `pool_maturity_fixed_on_competing_fork` — the branch the repair added, on its own.
* `pool_maturity_fixed_agrees_of_tree` — both branches with the tree property as a hypothesis;
  `header_chain_through_head` (from `isPath_of_path`, `isPath_prefix`, `isPath_unique`) proves that
  property: a header chain which holds the body head at the head's height holds the head's
  ancestors below it.
* `pool_maturity_fixed_body_only` — two nodes with the same blocks and the same body head answer
  alike, whatever their header heads.
* witnesses: the two nodes of `Lemmas/ChainPoolExamples.lean` on which the unrepaired check went
  wrong (header fork with more outputs admits an immature coinbase; short heavy header fork
  refuses a mature one) are now answered as the specification answers. -/
namespace GV.Props.C13PoolFork
open GV.Chain

theorem headIdx (p : Params) (N n : Node) (hb : N.blks = n.blks) (g : Blk) (rest : List Blk)
    (s : UState) (H : HeadPath p n g N.head rest s) (hg0 : g.h = 0) :
    N.heightOf N.head + 1 = (g :: rest).length := by
  obtain ⟨b, hbk, hlast⟩ := H.isPath.last
  have hk : (g :: rest)[rest.length]? = some b := by
    rw [← hlast, List.getLast?_eq_getElem?]; simp
  have := H.height_at rest.length b hk
  simp only [Node.heightOf, blk_congr hb, hbk, List.length_cons]
  omega

/-- the position-based check along the BODY path is the specification -/
theorem bodyPath_check_eq (p : Params) (N n : Node) (_hb : N.blks = n.blks) (g : Blk)
    (rest : List Blk) (s : UState) (H : HeadPath p n g N.head rest s) (hg0 : g.h = 0)
    (hm : 0 < p.maturity) (hpath : List Blk) (t : TxA)
    (hcut : p.maturity ≤ rest.length + 1 → rest.length + 1 - p.maturity < hpath.length ∧
      hpath.take (rest.length + 1 - p.maturity + 1) = (g :: rest).take (rest.length + 1 - p.maturity + 1)) :
    txMaturityImpl p (replayP (genesisP g) rest) hpath (g :: rest).length t.ins = txMaturity p s t := by
  have _ := hm
  have hA : AbsP (replayP (genesisP g) rest) s := absP_replay p rest (absP_genesis g) H.replay
  have hI : PosInv (replayP (genesisP g) rest) ([g] ++ rest) :=
    posInv_replay rest (posInv_genesis g) (by
      intro k x hk
      have := H.height_at (k + 1) x (by simpa using hk)
      simp only [List.length_cons, List.length_nil]
      omega)
  exact txMaturityImpl_eq p (g :: rest) hpath _ s t hA hI
    (by rw [H.height_eq hg0]; rfl) (by simpa using hcut)

/-- **Both branches.**  `htree`: if the header chain holds the body head at the head's height, it
holds the head's ancestors below it. -/
theorem pool_maturity_fixed_agrees_of_tree (p : Params) (N n : Node) (hb : N.blks = n.blks) (g : Blk)
    (rest : List Blk) (s : UState) (H : HeadPath p n g N.head rest s) (hg0 : g.h = 0)
    (hm : 0 < p.maturity) (hpath : List Blk) (hH : N.path N.hhead = some hpath) (t : TxA)
    (htree : ∀ b, hpath[rest.length]? = some b → b.id = N.head →
      hpath.take (rest.length + 1) = (g :: rest).take (rest.length + 1)) :
    N.poolMaturityFixed p t = txMaturity p s t := by
  have hP : N.path N.head = some (g :: rest) := by rw [path_congr hb]; exact H.path
  have hho := headIdx p N n hb g rest s H hg0
  have hidx : N.heightOf N.head = rest.length := by simpa using hho
  unfold Node.poolMaturityFixed
  rw [hP, hH]
  simp only
  rw [hho, hidx]
  cases hx : hpath[rest.length]? with
  | none =>
    simp only [Bool.false_eq_true, if_false]
    exact bodyPath_check_eq p N n hb g rest s H hg0 hm (g :: rest) t
      (fun _ => ⟨by simp only [List.length_cons]; omega, rfl⟩)
  | some b =>
    simp only
    by_cases hid : (b.id == N.head) = true
    · simp only [hid, if_true]
      have htk := htree b hx (by simpa using hid)
      have hlen : rest.length < hpath.length := by
        rcases List.getElem?_eq_some_iff.mp hx with ⟨h, _⟩
        exact h
      refine bodyPath_check_eq p N n hb g rest s H hg0 hm hpath t (fun _ => ⟨by omega, ?_⟩)
      have hle : rest.length + 1 - p.maturity + 1 ≤ rest.length + 1 := by omega
      have e1 : hpath.take (rest.length + 1 - p.maturity + 1) =
          (hpath.take (rest.length + 1)).take (rest.length + 1 - p.maturity + 1) := by
        rw [List.take_take, Nat.min_eq_left hle]
      have e2 : (g :: rest).take (rest.length + 1 - p.maturity + 1) =
          ((g :: rest).take (rest.length + 1)).take (rest.length + 1 - p.maturity + 1) := by
        rw [List.take_take, Nat.min_eq_left hle]
      rw [e1, e2, htk]
    · simp only [hid]
      exact bodyPath_check_eq p N n hb g rest s H hg0 hm (g :: rest) t
        (fun _ => ⟨by simp only [List.length_cons]; omega, rfl⟩)

/-! ### the tree: a header chain that holds the body head holds the head's ancestors below it -/

theorem blk_id {n : Node} {id : Nat} {b : Blk} (h : n.blk id = some b) : b.id = id := by
  unfold Node.blk at h
  have := List.find?_some h
  simpa using this

/-- what `pathTo` returns is a parent-linked path put in front of the accumulator -/
theorem isPath_of_pathTo {n : Node} : ∀ (fuel id : Nat) (acc r : List Blk),
    pathTo n fuel id acc = some r → ∃ l, r = l ++ acc ∧ IsPath n id l := by
  intro fuel
  induction fuel with
  | zero => intro id acc r h; simp [pathTo] at h
  | succ k ih =>
    intro id acc r h
    simp only [pathTo] at h
    cases hb : n.blk id with
    | none => rw [hb] at h; simp at h
    | some b =>
      rw [hb] at h
      simp only at h
      cases hp : b.parent with
      | none =>
        rw [hp] at h
        simp only [Option.some.injEq] at h
        exact ⟨[b], by rw [← h]; rfl, IsPath.root id b hb hp⟩
      | some par =>
        rw [hp] at h
        simp only at h
        obtain ⟨l, hl, hpath⟩ := ih par (b :: acc) r h
        exact ⟨l ++ [b], by rw [hl]; simp, IsPath.child id b par l hb hp hpath⟩

theorem isPath_of_path {n : Node} {id : Nat} {l : List Blk} (h : n.path id = some l) : IsPath n id l := by
  obtain ⟨l', hl, hp⟩ := isPath_of_pathTo _ id [] l h
  simp only [List.append_nil] at hl
  rw [hl]; exact hp

/-- a block has one path -/
theorem isPath_unique {n : Node} {id : Nat} {l₁ l₂ : List Blk} (h₁ : IsPath n id l₁)
    (h₂ : IsPath n id l₂) : l₁ = l₂ := by
  induction h₁ generalizing l₂ with
  | root id b hb hp =>
    cases h₂ with
    | root _ b' hb' hp' =>
      rw [hb] at hb'; cases hb'; rfl
    | child _ b' par l hb' hp' hl =>
      rw [hb] at hb'; cases hb'
      rw [hp] at hp'; cases hp'
  | child id b par l hb hp hl ih =>
    cases h₂ with
    | root _ b' hb' hp' =>
      rw [hb] at hb'; cases hb'
      rw [hp] at hp'; cases hp'
    | child _ b' par' l' hb' hp' hl' =>
      rw [hb] at hb'; cases hb'
      rw [hp] at hp'; cases hp'
      rw [ih hl']

/-- every non-empty prefix of a path is the path of its last block -/
theorem isPath_prefix {n : Node} {id : Nat} {l : List Blk} (h : IsPath n id l) :
    ∀ k b, l[k]? = some b → IsPath n b.id (l.take (k + 1)) := by
  induction h with
  | root id b hb hp =>
    intro k x hk
    cases k with
    | zero =>
      simp only [List.getElem?_cons_zero, Option.some.injEq] at hk
      subst hk
      rw [blk_id hb]
      exact IsPath.root id b hb hp
    | succ j => simp at hk
  | child id b par l hb hp hl ih =>
    intro k x hk
    by_cases hlt : k < l.length
    · rw [List.getElem?_append_left hlt] at hk
      have := ih k x hk
      rw [List.take_append_of_le_length (by omega)]
      exact this
    · have hkl : k = l.length := by
        have hlen : k < (l ++ [b]).length := by
          rcases List.getElem?_eq_some_iff.mp hk with ⟨h, _⟩
          exact h
        simp only [List.length_append, List.length_cons, List.length_nil] at hlen
        omega
      subst hkl
      simp only [List.getElem?_concat_length, Option.some.injEq] at hk
      subst hk
      rw [blk_id hb]
      have : (l ++ [b]).take (l.length + 1) = l ++ [b] := by
        apply List.take_of_length_le; simp
      rw [this]
      exact IsPath.child id b par l hb hp hl

/-- **the tree property** used by `pool_maturity_fixed_agrees_of_tree` -/
theorem header_chain_through_head {n : Node} {head : Nat} {P hpath : List Blk} {hhead : Nat}
    (hP : IsPath n head P) (hH : n.path hhead = some hpath) (b : Blk)
    (hx : hpath[P.length - 1]? = some b) (hid : b.id = head) (hne : P ≠ []) :
    hpath.take P.length = P.take P.length := by
  have h1 := isPath_prefix (isPath_of_path hH) (P.length - 1) b hx
  rw [hid] at h1
  have hlen : P.length - 1 + 1 = P.length := by
    have : 0 < P.length := List.length_pos_iff.mpr hne
    omega
  rw [hlen] at h1
  rw [List.take_length]
  exact isPath_unique h1 hP

/-- **Coinbase maturity at admission is the rule on the body chain — every node, every header
chain.**  For a node whose body head has the valid path `g :: rest` (genesis at height 0,
maturity > 0) and whose header head has any path at all: the repaired position-based check
answers exactly the height-based specification on the body head's state, for every transaction. -/
theorem pool_maturity_fixed_agrees (p : Params) (N n : Node) (hb : N.blks = n.blks) (g : Blk)
    (rest : List Blk) (s : UState) (H : HeadPath p n g N.head rest s) (hg0 : g.h = 0)
    (hm : 0 < p.maturity) (hpath : List Blk) (hH : N.path N.hhead = some hpath) (t : TxA) :
    N.poolMaturityFixed p t = txMaturity p s t := by
  refine pool_maturity_fixed_agrees_of_tree p N n hb g rest s H hg0 hm hpath hH t ?_
  intro b hx hid
  have hH' : n.path N.hhead = some hpath := by rw [← path_congr hb]; exact hH
  have := header_chain_through_head (P := g :: rest) H.isPath hH' b (by simpa using hx) hid (by simp)
  simpa using this

/-- …after any history of blocks and headers in any order (`run`), from a fresh node -/
theorem pool_maturity_fixed_after_any_history (p : Params) (n : Node) (es : List Event) (hf : Fresh n)
    (hreg : Registered n es) (g : Blk) (hg : n.blk 0 = some g) (hg0 : g.h = 0) (hm : 0 < p.maturity)
    (hpath : List Blk) (hH : (run p n es).path (run p n es).hhead = some hpath) :
    ∃ s, (run p n es).stateAt p (run p n es).head = .ok s ∧
      ∀ t, (run p n es).poolMaturityFixed p t = txMaturity p s t := by
  obtain ⟨rest, s, H, hst⟩ := head_path_after_run p n es hf hreg g hg
  have hdf := run_defs p n es
  exact ⟨s, hst, fun t => pool_maturity_fixed_agrees p (run p n es) n hdf.1 g rest s H hg0 hm hpath hH t⟩

/-- **The header chain on a competing fork** (the body head is not on the header chain: at the
head's height the header MMR holds another block, or nothing): the pool-facing maturity check is
the specification on the body head's state — for every header fork, with no side condition on its
fork point, length, work or contents. -/
theorem pool_maturity_fixed_on_competing_fork (p : Params) (N n : Node) (hb : N.blks = n.blks) (g : Blk)
    (rest : List Blk) (s : UState) (H : HeadPath p n g N.head rest s) (hg0 : g.h = 0)
    (hm : 0 < p.maturity) (hpath : List Blk) (hH : N.path N.hhead = some hpath) (t : TxA)
    (hfork : ∀ b, hpath[rest.length]? = some b → b.id ≠ N.head) :
    N.poolMaturityFixed p t = txMaturity p s t :=
  pool_maturity_fixed_agrees_of_tree p N n hb g rest s H hg0 hm hpath hH t
    (fun b hx hid => absurd hid (hfork b hx))

/-- the answer is a function of the blocks and the BODY head only: two nodes that differ in their
header heads (and nothing else the check reads) answer alike -/
theorem pool_maturity_fixed_body_only (p : Params) (N₁ N₂ n : Node) (hb₁ : N₁.blks = n.blks)
    (hb₂ : N₂.blks = n.blks) (hhd : N₁.head = N₂.head) (g : Blk) (rest : List Blk) (s : UState)
    (H : HeadPath p n g N₁.head rest s) (hg0 : g.h = 0) (hm : 0 < p.maturity)
    (hp₁ hp₂ : List Blk) (hH₁ : N₁.path N₁.hhead = some hp₁) (hH₂ : N₂.path N₂.hhead = some hp₂)
    (t : TxA) :
    N₁.poolMaturityFixed p t = N₂.poolMaturityFixed p t := by
  rw [pool_maturity_fixed_agrees p N₁ n hb₁ g rest s H hg0 hm hp₁ hH₁ t]
  have H₂ : HeadPath p n g N₂.head rest s := hhd ▸ H
  rw [pool_maturity_fixed_agrees p N₂ n hb₂ g rest s H₂ hg0 hm hp₂ hH₂ t]

/-! ### witnesses: the nodes on which the unrepaired check deviated -/

/-- trunk y1..y5, header of x2 (short heavy fork off y1): the repaired check admits the spend of
y1's mature coinbase (the unrepaired one answered `Other`: `PoolEx.NX_impl`) -/
theorem short_heavy_header_fork_witness :
    PoolEx.NX.poolMaturityFixed PoolEx.P PoolEx.spendY1 = none ∧
    PoolEx.NX.poolMaturityImpl PoolEx.P PoolEx.spendY1 = some "Other" ∧
    txMaturity PoolEx.P PoolEx.sTrunk PoolEx.spendY1 = none := by
  decide

/-- trunk y1..y5, headers of z2, z3 (fork off y1 with three outputs per block): the repaired check
refuses the spend of y4's immature coinbase (the unrepaired one admitted it: `PoolEx.NZ_impl`) -/
theorem header_fork_with_more_outputs_witness :
    PoolEx.NZ.poolMaturityFixed PoolEx.P PoolEx.spendY4 = some "ImmatureCoinbase" ∧
    PoolEx.NZ.poolMaturityImpl PoolEx.P PoolEx.spendY4 = none ∧
    txMaturity PoolEx.P PoolEx.sTrunk PoolEx.spendY4 = some "ImmatureCoinbase" := by
  decide

/-- non-vacuity of `pool_maturity_fixed_on_competing_fork`: the node NZ (body head y5, header head
z3 on a fork off y1) satisfies its hypotheses, so the check is the specification for EVERY
transaction there -/
theorem reg_NZ : Registered PoolEx.N (PoolEx.trunk ++ [.header PoolEx.Z2, .header PoolEx.Z3]) := by
  intro e he
  simp only [PoolEx.trunk, List.cons_append, List.nil_append, List.mem_cons, List.not_mem_nil,
    or_false] at he
  rcases he with rfl | rfl | rfl | rfl | rfl | rfl | rfl <;> rfl

example : ∀ t, PoolEx.NZ.poolMaturityFixed PoolEx.P t = txMaturity PoolEx.P PoolEx.sTrunk t := by
  obtain ⟨rest, s, H, hst⟩ := head_path_after_run PoolEx.P PoolEx.N
    (PoolEx.trunk ++ [.header PoolEx.Z2, .header PoolEx.Z3]) PoolEx.fresh_N reg_NZ PoolEx.G rfl
  have hdf := run_defs PoolEx.P PoolEx.N (PoolEx.trunk ++ [.header PoolEx.Z2, .header PoolEx.Z3])
  have hs : s = PoolEx.sTrunk := by
    have h2 : PoolEx.NZ.stateAt PoolEx.P PoolEx.NZ.head = .ok s := hst
    rw [PoolEx.NZ_state] at h2
    exact (Except.ok.inj h2).symm
  have hrest : rest = [PoolEx.Y1, PoolEx.Y2, PoolEx.Y3, PoolEx.Y4, PoolEx.Y5] := by
    have h1 := H.path
    have h2 : PoolEx.N.path PoolEx.NZ.head = some [PoolEx.G, PoolEx.Y1, PoolEx.Y2, PoolEx.Y3, PoolEx.Y4, PoolEx.Y5] := by
      rfl
    have h3 : PoolEx.N.path (run PoolEx.P PoolEx.N (PoolEx.trunk ++ [.header PoolEx.Z2, .header PoolEx.Z3])).head =
        some (PoolEx.G :: rest) := h1
    have : some (PoolEx.G :: rest) = some [PoolEx.G, PoolEx.Y1, PoolEx.Y2, PoolEx.Y3, PoolEx.Y4, PoolEx.Y5] :=
      h3.symm.trans h2
    exact List.tail_eq_of_cons_eq (Option.some.inj this)
  intro t
  subst hs
  refine pool_maturity_fixed_on_competing_fork PoolEx.P PoolEx.NZ PoolEx.N hdf.1 PoolEx.G rest _ H rfl
    (by decide) [PoolEx.G, PoolEx.Y1, PoolEx.Z2, PoolEx.Z3] (by rfl) t ?_
  subst hrest
  intro b hb
  simp at hb

end GV.Props.C13PoolFork
