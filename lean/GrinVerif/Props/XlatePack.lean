import GrinVerif.Model.PowPack
import GrinVerif.Model.PowSelect
import GrinVerif.Gen.FnsPow
import GrinVerif.Lemmas.XlateArith
import GrinVerif.Props.XlateCons
/-! # Translated read side of the proof-nonce packing (`core/src/pow/types.rs`) = `Model/PowPack.lean`

`GV.Gen.Fns.{extract_bits, read_number, Proof_pack_len, CuckooParams_sipnode}` and `GV.Gen.Fns.proofsize`
(files `Gen/FnsPow.lean`, `Gen/FnsCons.lean`) are regenerated on every check run from the CURRENT Rust
source by `tools/rs2lean.py`.  Slices are lists, `usize` is 64 bits; `…_ok` is the generated condition
"the Rust function returns normally" (here: the slice `bits[read_from..read_from + 8]` is in range and
`copy_from_slice` gets 8 bytes).

`pack_bits` itself (the write side) writes through a re-sliced `&mut [u8]` and is not translated. -/

namespace GV.Props.XlatePack
open GV GV.Gen GV.Xlate

/-! ## `extract_bits` -/

theorem shrW_lt {a s : Nat} (hs : s < 64) : shrW a s = a >>> s := by
  unfold shrW; rw [Nat.mod_eq_of_lt hs, Nat.shiftRight_eq_div_pow]

/-- `bits[read_from..read_from + 8]` as the model writes it -/
theorem slice_eq (bits : List Nat) (r : Nat) :
    List.drop r (List.take (r + 8) bits) = (bits.drop r).take 8 := by
  rw [List.drop_take]; congr 1; omega

/-- `extract_bits(bits, bit_start, bit_count, read_from)` = `Pow.extractBits` whenever the slice is in
range, the bit offset inside the 8-byte window is `< 64` and at most 64 bits are asked for (all callers:
`read_number` with `bit_count ≤ 63 + …`, see `read_number_eq`). -/
theorem extract_bits_eq (bits : List Nat) (bitStart bitCount readFrom : Nat)
    (hlen : readFrom + 8 ≤ bits.length) (hl : bits.length < 2^60)
    (hlo : readFrom * 8 ≤ bitStart) (hhi : bitStart < readFrom * 8 + 64) (hc : bitCount ≤ 64) :
    Fns.extract_bits bits bitStart bitCount readFrom = GV.Pow.extractBits bits bitStart bitCount readFrom := by
  have h1 : addW readFrom 8 = readFrom + 8 := addW_eq (by omega)
  have h2 : mulW readFrom 8 = readFrom * 8 := mulW_eq (by omega)
  have h3 : subW bitStart (readFrom * 8) = bitStart - readFrom * 8 := subW_eq (by omega) hlo
  unfold Fns.extract_bits GV.Pow.extractBits
  simp only [h1, h2, h3, slice_eq]
  by_cases h64 : bitCount = 64
  · simp [h64]
  · have hc' : bitCount < 64 := by omega
    have h4 : shlW 1 bitCount = 2^bitCount := shlW_one_left hc'
    have h5 : subW (2^bitCount) 1 = 2^bitCount - 1 :=
      subW_eq (Nat.lt_of_lt_of_le (Nat.pow_lt_pow_right (by omega) hc') (Nat.le_refl _)) (Nat.pow_pos (by omega))
    have h6 : shrW (ofLE ((bits.drop readFrom).take 8)) (bitStart - readFrom * 8)
        = ofLE ((bits.drop readFrom).take 8) >>> (bitStart - readFrom * 8) := shrW_lt (by omega)
    simp [h64, h4, h5, h6]

/-- the slice and the `copy_from_slice` of `extract_bits` do not panic iff `read_from + 8 ≤ bits.len()` -/
theorem extract_bits_ok_iff (bits : List Nat) (bitStart bitCount readFrom : Nat) (hr : readFrom + 8 < 2^64) :
    Fns.extract_bits_ok bits bitStart bitCount readFrom = decide (readFrom + 8 ≤ bits.length) := by
  have h1 : addW readFrom 8 = readFrom + 8 := addW_eq hr
  unfold Fns.extract_bits_ok
  simp only [h1, slice_eq]
  by_cases h : readFrom + 8 ≤ bits.length
  · have : ((bits.drop readFrom).take 8).length = 8 := by simp; omega
    simp [h, this]
  · simp [h]

example : Fns.extract_bits [0x34, 0x12, 0, 0, 0, 0, 0, 0, 0xff] 4 8 0 = 0x23 := by decide
example : Fns.extract_bits_ok [1, 2, 3] 0 8 0 = false := by decide

/-! ## `read_number` -/

/-- the part of `read_number` after the read window `r` has been chosen -/
theorem rn_inner (bits : List Nat) (bitStart bitCount r : Nat)
    (hr : r + 8 ≤ bits.length) (hl : bits.length < 2^60) (hlo : r * 8 ≤ bitStart)
    (hhi : bitStart < r * 8 + 64) (hc : bitCount ≤ 63) (h0 : bitCount ≠ 0)
    (hs : bitStart + bitCount ≤ bits.length * 8)
    (hw : bitStart < r * 8 + 8 ∨ bitStart + bitCount ≤ (r + 8) * 8) :
    (if decide (addW bitStart bitCount ≤ mulW (addW r 8) 8) = true then Fns.extract_bits bits bitStart bitCount r
     else addW (shlW (Fns.extract_bits bits (addW bitStart 8) (subW bitCount 8) (addW r 1)) 8)
            (Fns.extract_bits bits bitStart 8 r))
    = (if bitStart + bitCount ≤ (r + 8) * 8 then GV.Pow.extractBits bits bitStart bitCount r
       else (GV.Pow.extractBits bits (bitStart + 8) (bitCount - 8) (r + 1) <<< 8)
            + GV.Pow.extractBits bits bitStart 8 r) := by
  have e1 : addW r 8 = r + 8 := addW_eq (by omega)
  have e3 : addW bitStart bitCount = bitStart + bitCount := addW_eq (by omega)
  have e4 : mulW (r + 8) 8 = (r + 8) * 8 := mulW_eq (by omega)
  rw [e1, e3, e4]
  by_cases hfit : bitStart + bitCount ≤ (r + 8) * 8
  · rw [if_pos (by simpa using hfit), if_pos hfit]
    exact extract_bits_eq bits bitStart bitCount r hr hl hlo hhi (by omega)
  · rw [if_neg (by simpa using hfit), if_neg hfit]
    have e5 : addW bitStart 8 = bitStart + 8 := addW_eq (by omega)
    have e6 : subW bitCount 8 = bitCount - 8 := subW_eq (by omega) (by omega)
    have e7 : addW r 1 = r + 1 := addW_eq (by omega)
    rw [e5, e6, e7,
        extract_bits_eq bits bitStart 8 r hr hl hlo hhi (by omega),
        extract_bits_eq bits (bitStart + 8) (bitCount - 8) (r + 1) (by omega) hl (by omega) (by omega) (by omega)]
    -- `(high << 8) + low` cannot wrap: `high < 2^(bitCount - 8)`, `low < 2^8`
    have hlow : GV.Pow.extractBits bits bitStart 8 r < 2^8 := by
      unfold GV.Pow.extractBits
      rw [if_neg (by omega)]
      exact Nat.lt_of_le_of_lt Nat.and_le_right (by omega)
    have hhigh : GV.Pow.extractBits bits (bitStart + 8) (bitCount - 8) (r + 1) < 2^(bitCount - 8) := by
      unfold GV.Pow.extractBits
      rw [if_neg (by omega)]
      have := Nat.pow_pos (n := bitCount - 8) (show 0 < 2 by omega)
      exact Nat.lt_of_le_of_lt Nat.and_le_right (by omega)
    have hp : 2^(bitCount - 8) ≤ 2^55 := Nat.pow_le_pow_right (by omega) (by omega)
    rw [shlW_eq (by omega) (by omega), addW_eq (by omega), Nat.shiftLeft_eq]

/-- `read_number(bits, bit_start, bit_count)` = `Pow.readNumber` for every buffer of at least 8 bytes (the
caller `Proof::read` refuses `bytes_len < 8`), every request inside the buffer and at most 63 bits
(`edge_bits ≤ 63`; the padding check asks for `< 8` bits). -/
theorem read_number_eq (bits : List Nat) (bitStart bitCount : Nat)
    (h8 : 8 ≤ bits.length) (hl : bits.length < 2^60)
    (hs : bitStart + bitCount ≤ bits.length * 8) (hc : bitCount ≤ 63) :
    Fns.read_number bits bitStart bitCount = GV.Pow.readNumber bits bitStart bitCount := by
  unfold Fns.read_number GV.Pow.readNumber
  by_cases h0 : bitCount = 0
  · simp [h0]
  · have e1 : addW (bitStart / 8) 8 = bitStart / 8 + 8 := addW_eq (by omega)
    have e2 : subW bits.length 8 = bits.length - 8 := subW_eq (by omega) h8
    have hb0 : (bitCount == 0) = false := by simpa using h0
    by_cases hb : bitStart / 8 + 8 > bits.length
    · have hcnd : decide (addW (bitStart / 8) 8 > bits.length) = true := by rw [e1]; simpa using hb
      simp only [hb0, e2, hcnd, hb, if_true, ite_true, if_false, ite_false, Bool.false_eq_true, h0]
      exact rn_inner bits bitStart bitCount (bits.length - 8) (by omega) hl (by omega) (by omega) hc h0 hs
        (by omega)
    · have hcnd : decide (addW (bitStart / 8) 8 > bits.length) = false := by rw [e1]; simpa using hb
      simp only [hb0, e2, hcnd, hb, if_true, ite_true, if_false, ite_false, Bool.false_eq_true, h0]
      exact rn_inner bits bitStart bitCount (bitStart / 8) (by omega) hl (by omega) (by omega) hc h0 hs
        (by omega)

/-- `read_number` does not panic on a buffer of at least 8 bytes when the requested bits lie inside it -/
theorem read_number_ok (bits : List Nat) (bitStart bitCount : Nat)
    (h8 : 8 ≤ bits.length) (hl : bits.length < 2^60)
    (hs : bitStart + bitCount ≤ bits.length * 8) :
    Fns.read_number_ok bits bitStart bitCount = true := by
  unfold Fns.read_number_ok
  by_cases h0 : bitCount = 0
  · simp [h0]
  · have e1 : addW (bitStart / 8) 8 = bitStart / 8 + 8 := addW_eq (by omega)
    have e2 : subW bits.length 8 = bits.length - 8 := subW_eq (by omega) h8
    have e3 : addW bitStart bitCount = bitStart + bitCount := addW_eq (by omega)
    have hb0 : (bitCount == 0) = false := by simpa using h0
    have key : ∀ r, r + 8 ≤ bits.length → r * 8 ≤ bitStart →
        (if decide (bitStart + bitCount ≤ mulW (addW r 8) 8) = true then Fns.extract_bits_ok bits bitStart bitCount r
         else (Fns.extract_bits_ok bits bitStart 8 r &&
               Fns.extract_bits_ok bits (addW bitStart 8) (subW bitCount 8) (addW r 1))) = true := by
      intro r hr hlo
      have f1 : addW r 8 = r + 8 := addW_eq (by omega)
      have f4 : mulW (r + 8) 8 = (r + 8) * 8 := mulW_eq (by omega)
      have f7 : addW r 1 = r + 1 := addW_eq (by omega)
      rw [f1, f4, f7]
      by_cases hfit : bitStart + bitCount ≤ (r + 8) * 8
      · rw [if_pos (by simpa using hfit), extract_bits_ok_iff _ _ _ _ (by omega)]; simpa using hr
      · rw [if_neg (by simpa using hfit), extract_bits_ok_iff _ _ _ _ (by omega),
            extract_bits_ok_iff _ _ _ _ (by omega)]
        simp; omega
    by_cases hb : bitStart / 8 + 8 > bits.length
    · have hcnd : decide (addW (bitStart / 8) 8 > bits.length) = true := by rw [e1]; simpa using hb
      simp only [hb0, e2, e3, hcnd, if_true, ite_true, if_false, ite_false, Bool.false_eq_true]
      exact key (bits.length - 8) (by omega) (by omega)
    · have hcnd : decide (addW (bitStart / 8) 8 > bits.length) = false := by rw [e1]; simpa using hb
      simp only [hb0, e2, e3, hcnd, if_true, ite_true, if_false, ite_false, Bool.false_eq_true]
      exact key (bitStart / 8) (by omega) (by omega)

example : Fns.read_number [0xef, 0xcd, 0xab, 0x89, 0x67, 0x45, 0x23, 0x01, 0xff, 0x7f] 60 19 = 0x7fff0 := by
  decide
example : Fns.read_number_ok [1, 2, 3, 4, 5, 6, 7] 0 8 = false := by decide

/-! ## `global::proofsize`, `Proof::pack_len`, `CuckooParams::sipnode` -/

/-- `global::proofsize()` per chain type, in terms of the regenerated constants -/
theorem proofsize_eq (c : Fns.ChainTypes) :
    Fns.proofsize c = match c with
      | .AutomatedTesting => AUTOMATED_TESTING_PROOF_SIZE
      | .UserTesting => USER_TESTING_PROOF_SIZE
      | _ => PROOFSIZE := by
  cases c <;> rfl

/-- `Proof::pack_len(bit_width) = (bit_width * proofsize + 7) / 8` = `Pow.packLen` (the product of a `u8`
and the proof size cannot wrap a `usize`) -/
theorem pack_len_eq (c : Fns.ChainTypes) (w : Nat) (hw : w < 256) :
    Fns.Proof_pack_len c w = GV.Pow.packLen w (Fns.proofsize c) := by
  have hp : Fns.proofsize c ≤ 42 := by cases c <;> decide
  unfold Fns.Proof_pack_len GV.Pow.packLen
  have hm : w * Fns.proofsize c ≤ 255 * 42 := Nat.mul_le_mul (by omega) hp
  rw [mulW_eq (by omega), addW_eq (by omega)]

example : Fns.Proof_pack_len .Mainnet 29 = 153 := by decide

end GV.Props.XlatePack
