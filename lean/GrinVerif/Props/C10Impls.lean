import GrinVerif.Model.SerImpls
/-! # C10 — obligations about the inventory of `Readable` / `Writeable` impls

`Gen/SerImpls.lean` is REGENERATED from the source on every check run (tools/gen_serimpls.py): every
`impl … Readable for …` / `impl … Writeable for …` of every crate (outside `#[cfg(test)]`) with a
fingerprint of its text (comments and white space removed). `Model/SerImpls.lean` is the hand-kept
side: the fingerprint each impl had when it was read against the model, and WHAT COVERS IT.
`inventory_matches_source` decides that the two agree - a new, removed or changed impl breaks it
until the impl has been re-read and the pin updated. The other obligations say that the table is
complete and coherent (bookkeeping, not statements about grin). The driver checks at run time that
every codec name below is one its dispatch knows (`ser implcodecs` line of the `db` run).

The coverage classes: `codec` (own `ser dec` / `ser enc` lines, byte-exact), `inside` (read as a field
of the named codec), `wrapper` (read-time validation wrapper on top of the named plain codec; the
wrapper itself is a C11 model with `untrusted*_accepts_subset`), `op` (another driver op), `excluded`
(with the reason). -/
namespace GV.Props.C10Impls
open GV.SerImpls

set_option maxRecDepth 100000

/-- the source as it is NOW has exactly the impls of the table, in the same order, each with the
text it had when it was read against the model -/
theorem inventory_matches_source :
    GV.Gen.SerImpls.parseError = none ∧ GV.Gen.SerImpls.found = table.map Impl.key := by decide

/-- 72 readers and 72 writers -/
theorem inventory_size : table.length = 144 ∧ count "R" = 72 ∧ count "W" = 72 := by decide

/-- no impl is listed twice: the fingerprints of the 144 impl texts are pairwise different -/
theorem inventory_nodup : (table.map fun i => i.fp).Nodup := by decide

/-- the only kinds are `R` and `W` -/
theorem inventory_kinds : table.all (fun i => i.kind == "R" || i.kind == "W") = true := by decide

/-- readers without a writer of the same type in the same file: exactly the three read-time
validation wrappers and the frame-header wrapper (whose writer is `MsgHeader`) -/
def readerOnly : List String := ["UntrustedBlock", "UntrustedBlockHeader", "UntrustedCompactBlock", "MsgHeaderWrapper"]

theorem every_reader_has_a_writer :
    (table.filter fun i => i.kind == "R" && !(table.any fun j => j.kind == "W" && j.ty == i.ty && j.file == i.file)).map
      (fun i => i.ty) = ["UntrustedBlockHeader", "UntrustedBlock", "UntrustedCompactBlock", "MsgHeaderWrapper"] := by
  decide

/-- writers without a reader: `Inputs` (read inside `TransactionBody::read`), the forwarding impl for
references, `MsgHeader` (read as `MsgHeaderWrapper`), `Headers` (streamed by the codec: C19) -/
theorem every_writer_has_a_reader :
    (table.filter fun i => i.kind == "W" && !(table.any fun j => j.kind == "R" && j.ty == i.ty && j.file == i.file)).map
      (fun i => i.ty) = ["&'aA", "Inputs", "MsgHeader", "Headers"] := by
  decide

/-- the readers NOT compared byte for byte by any run, each with its reason in the table -/
theorem excluded_readers :
    (table.filter fun i => i.kind == "R" && (match i.cover with | .excluded _ => true | _ => false)).map
      (fun i => i.ty) = ["BoolFlag", "BitmapChunk"] := by
  decide

/-- a reader and the writer of the same type are covered by the same thing -/
theorem reader_and_writer_covered_alike :
    (table.filter fun i => i.kind == "R").all (fun i => (table.filter fun j => j.kind == "W").all fun j =>
      !(i.ty == j.ty && i.file == j.file) || i.cover == j.cover) = true := by
  decide

/-- every codec the table refers to is in `codecNames` (which the driver checks against its dispatch
when it answers the count line), every op in `opNames` -/
theorem cover_names_known :
    table.all (fun i => match i.cover with
      | .op n => opNames.contains n
      | .excluded _ => true
      | c => match c.ref? with
        | some n => codecNames.contains n
        | none => false) = true := by
  decide

/-- every reader that is a codec of its own or a wrapper is one of the types the harness prints
`ser dec` lines for - as a list, so that re-classifying one changes this statement -/
theorem readers_with_own_lines :
    ((table.filter fun i => i.kind == "R" && (match i.cover with | .codec _ => true | _ => false)).map
      fun i => i.ty).length = 58 := by
  decide

example : table.any (fun i => i.ty == "PeerData" && i.kind == "R") = true := by decide

end GV.Props.C10Impls
