import GrinVerif.Model.SerImpls
import GrinVerif.Model.SerReaders
import GrinVerif.Model.DecDb
/-! # C10 — obligations about the inventory of `Readable` / `Writeable` impls

`Gen/SerImpls.lean` is REGENERATED from the source on every check run (tools/gen_serimpls.py): every
`impl … Readable for …` / `impl … Writeable for …` of every crate (outside `#[cfg(test)]`) with a
fingerprint of its text (comments and white space removed). `Model/SerImpls.lean` is the hand-kept
side: the fingerprint each impl had when it was read against the model, and WHAT COVERS IT.
`inventory_matches_source` decides that the two agree - a new, removed or changed impl breaks it
until the impl has been re-read and the pin updated. The other obligations say that the table is
complete and coherent (bookkeeping, not statements about grin). The driver checks at run time that
every codec name below is one its dispatch knows (`ser implcodecs` line of the `db` run).

The coverage classes: `codec` (own `ser dec` / `ser enc` lines, byte-exact), `inside` (read as a field
of the named codec), `wrapper` (read-time validation wrapper on top of the named plain codec; the
wrapper itself is a C11 model with `untrusted*_accepts_subset`), `op` (another driver op), `excluded`
(with the reason). -/
namespace GV.Props.C10Impls
open GV.SerImpls

set_option maxRecDepth 100000

/-- the source as it is NOW has exactly the impls of the table, in the same order, each with the
text it had when it was read against the model -/
theorem inventory_matches_source :
    GV.Gen.SerImpls.parseError = none ∧ GV.Gen.SerImpls.found = table.map Impl.key := by decide

/-- 72 readers and 72 writers -/
theorem inventory_size : table.length = 144 ∧ count "R" = 72 ∧ count "W" = 72 := by decide

/-- no impl is listed twice: the fingerprints of the 144 impl texts are pairwise different -/
theorem inventory_nodup : (table.map fun i => i.fp).Nodup := by decide

/-- the only kinds are `R` and `W` -/
theorem inventory_kinds : table.all (fun i => i.kind == "R" || i.kind == "W") = true := by decide

/-- readers without a writer of the same type in the same file: exactly the three read-time
validation wrappers and the frame-header wrapper (whose writer is `MsgHeader`) -/
def readerOnly : List String := ["UntrustedBlock", "UntrustedBlockHeader", "UntrustedCompactBlock", "MsgHeaderWrapper"]

theorem every_reader_has_a_writer :
    (table.filter fun i => i.kind == "R" && !(table.any fun j => j.kind == "W" && j.ty == i.ty && j.file == i.file)).map
      (fun i => i.ty) = ["UntrustedBlockHeader", "UntrustedBlock", "UntrustedCompactBlock", "MsgHeaderWrapper"] := by
  decide

/-- writers without a reader: `Inputs` (read inside `TransactionBody::read`), the forwarding impl for
references, `MsgHeader` (read as `MsgHeaderWrapper`), `Headers` (streamed by the codec: C19) -/
theorem every_writer_has_a_reader :
    (table.filter fun i => i.kind == "W" && !(table.any fun j => j.kind == "R" && j.ty == i.ty && j.file == i.file)).map
      (fun i => i.ty) = ["&'aA", "Inputs", "MsgHeader", "Headers"] := by
  decide

/-- the readers NOT compared byte for byte by any run, each with its reason in the table -/
theorem excluded_readers :
    (table.filter fun i => i.kind == "R" && (match i.cover with | .excluded _ => true | _ => false)).map
      (fun i => i.ty) = ["BoolFlag", "BitmapChunk"] := by
  decide

/-- a reader and the writer of the same type are covered by the same thing -/
theorem reader_and_writer_covered_alike :
    (table.filter fun i => i.kind == "R").all (fun i => (table.filter fun j => j.kind == "W").all fun j =>
      !(i.ty == j.ty && i.file == j.file) || i.cover == j.cover) = true := by
  decide

/-- every codec the table refers to is in `codecNames` (which the driver checks against its dispatch
when it answers the count line), every op in `opNames` -/
theorem cover_names_known :
    table.all (fun i => match i.cover with
      | .op n => opNames.contains n
      | .excluded _ => true
      | c => match c.ref? with
        | some n => codecNames.contains n
        | none => false) = true := by
  decide

/-- every reader that is a codec of its own or a wrapper is one of the types the harness prints
`ser dec` lines for - as a list, so that re-classifying one changes this statement -/
theorem readers_with_own_lines :
    ((table.filter fun i => i.kind == "R" && (match i.cover with | .codec _ => true | _ => false)).map
      fun i => i.ty).length = 58 := by
  decide

example : table.any (fun i => i.ty == "PeerData" && i.kind == "R") = true := by decide

/-! ## the `Reader` implementations -/

/-- the three `impl Reader for …` blocks of the tree are the pinned ones: same types, same methods
defined, same text -/
theorem reader_impls_match_source : GV.Gen.SerImpls.readerImpls = GV.SerReaders.readers := by decide

/-- the trait has eleven required methods and exactly one default, `read_empty_bytes` -/
theorem reader_trait_matches_source :
    (GV.Gen.SerImpls.readerTrait.filter fun m => m.2.2).map (fun m => m.2.1) = GV.SerReaders.defaults
    ∧ ((GV.Gen.SerImpls.readerTrait.filter fun m => !m.2.2).map fun m => m.2.1) = GV.SerReaders.requiredBuf := by
  decide

/-- NO reader overrides a method the trait gives a default for: `read_empty_bytes` (the zero-padding
check of the v1 kernel layout) is the same code for `BinReader`, `StreamingReader` and `BufReader`.
A reader-specific override breaks this obligation without any input having to hit it. -/
theorem reader_overrides_none :
    GV.Gen.SerImpls.readerImpls.all (fun r =>
      r.2.2.1.all fun m => !(GV.Gen.SerImpls.readerTrait.any fun t => t.2.1 == m && t.2.2)) = true := by
  decide

/-- every reader defines every required method (nothing is left to a default that is not there) -/
theorem reader_defines_all_required :
    GV.Gen.SerImpls.readerImpls.all (fun r =>
      (GV.Gen.SerImpls.readerTrait.filter fun t => !t.2.2).all fun t => r.2.2.1.contains t.2.1) = true := by
  decide

/-- the shared default over the model's `read_u8` IS the `readEmpty` every kernel decoder of the model
uses (`Model/Ser.lean`), for every length and input … -/
theorem readEmpty_is_the_shared_default (n : Nat) (bs : GV.Bytes) :
    GV.SerReaders.readEmptyVia GV.Ser.readU8 n bs = GV.Ser.readEmpty n bs := by
  induction n generalizing bs with
  | zero => rfl
  | succ n ih =>
    unfold GV.SerReaders.readEmptyVia GV.Ser.readEmpty
    cases h : GV.Ser.readU8 bs with
    | error e => rfl
    | ok v =>
      obtain ⟨b, r⟩ := v
      simp only
      split
      · rfl
      · exact ih r

/-- … and the three readers have the same `read_u8` / `read_fixed_bytes` within the cap (`BufReader` and
`BinReader`: `rFixed`; `StreamingReader`: `stream_eq_bin_within_cap` of `Props/C11Db.lean`), so a decoder
built from the trait's methods cannot tell them apart below 100 000 bytes per read: value, rest and
error kind. For the capped pair this is `payload_readers_agree` / `item_readers_agree` /
`segment_readers_agree` of `Props/C11Ser.lean`; the streaming reader's primitive: -/
theorem stream_u8_is_bin_u8 (bs : GV.Bytes) :
    (GV.DecDb.sFixed 1 bs).toExcept = (GV.Dec.rFixed .bin 1 bs).toExcept := by
  unfold GV.DecDb.sFixed GV.Dec.rFixed
  have h1 : ¬ 1 > GV.Dec.ISIZE_MAX := by decide
  have h2 : ¬ 1 > GV.Ser.MAX_FIXED_READ := by decide
  simp only [h1, h2, ↓reduceIte]
  cases GV.Ser.splitExact 1 bs with
  | none => rfl
  | some p => rfl

end GV.Props.C10Impls
