import GrinVerif.Model.TxOverage
import GrinVerif.Props.XlateTxFee
import GrinVerif.Props.XlateMisc
/-! # C12 — the balance check with a signed overage: exactly when `fee() as i64` wraps and what
`validate` does then; `tx_fee` = `accept_fee`

`Model/TxOverage.lean` (value part of `Committed::verify_kernel_sums`).  The aggregate's fee is the
saturating sum of the kernels' 40-bit fees (`TransactionBody::fee`, regenerated from the source:
`Props/XlateTxFee.body_fee_eq`); `overage()` casts it to `i64`.  Theorems: the cast is exact below
2^63, which every body of fewer than 2^23 fee-carrying kernels satisfies — in particular everything
within any consensus weight limit (tied to the TRANSLATED `fee`); at exactly 2^63 `validate` answers
`InvalidValue`; above, the overage is negative and lands on the INPUT side: the accepted equation is
Σout = Σin + (2^64 − fee) — an honest transaction is refused and one that creates 2^64 − fee is
accepted (only reachable under `Weighting::NoLimit` with ≥ 2^23 kernels; an observation about the
code, run on the real `verify_kernel_sums` with chosen overages).  Last section: `libtx::tx_fee`
and `Transaction::accept_fee` (both regenerated) are the same function of the counts, and a
transaction that pays `tx_fee` in a single kernel is accepted by the pool's fee test. -/
namespace GV.Props.C12
open GV GV.Tx GV.Gen GV.Xlate GV.Props.XlateTxFee

theorem asI64_of_lt {x : Nat} (h : x < 2^63) : asI64 x = (x : Int) := by
  unfold asI64
  have : x % 2^64 = x := Nat.mod_eq_of_lt (by omega)
  simp [this, h]

theorem asI64_of_ge {x : Nat} (h : 2^63 ≤ x) (h64 : x < 2^64) : asI64 x = (x : Int) - 2^64 := by
  unfold asI64
  have : x % 2^64 = x := Nat.mod_eq_of_lt h64
  have h' : ¬ x < 2^63 := by omega
  simp [this, h']

/-- **exactly when the cast wraps**: for a u64 fee, `fee as i64` is the fee iff `fee < 2^63`;
otherwise it is negative -/
theorem overage_exact_iff (fee : Nat) (h64 : fee < 2^64) :
    (asI64 fee = (fee : Int) ↔ fee < 2^63) ∧ (asI64 fee < 0 ↔ 2^63 ≤ fee) := by
  by_cases h : fee < 2^63
  · rw [asI64_of_lt h]; constructor <;> constructor <;> intro <;> omega
  · rw [asI64_of_ge (by omega) h64]; constructor <;> constructor <;> intro <;> omega

/-- the translated `TransactionBody::fee` stays below 2^63 for fewer than 2^23 kernels: no consensus
weight limit (40 000 / 3 kernels) comes near -/
theorem translated_fee_below_wrap (ks : List Fns.TxKernel) (h : ks.length < 2^23) :
    Fns.TransactionBody_fee ks < 2^63 := by
  rw [body_fee_eq]
  have h1 : ∀ (l : List Nat), (l.map (· % 2^40)).sum ≤ l.length * 2^40 := by
    intro l
    induction l with
    | nil => simp
    | cons a t ih =>
      simp only [List.map_cons, List.sum_cons, List.length_cons]
      have : a % 2^40 < 2^40 := Nat.mod_lt _ (by decide)
      rw [Nat.succ_mul]; omega
  have h2 : (feeFields ks).length ≤ ks.length := by
    unfold feeFields; exact List.length_filterMap_le _ _
  have h3 := h1 (feeFields ks)
  have h4 : (feeFields ks).length * 2^40 ≤ ks.length * 2^40 := Nat.mul_le_mul_right _ h2
  have h5 : ks.length * 2^40 < 2^23 * 2^40 := Nat.mul_lt_mul_of_pos_right h (by decide)
  have : ((feeFields ks).map (· % 2^40)).sum < 2^63 := by
    have e : (2:Nat)^23 * 2^40 = 2^63 := by decide
    omega
  exact Nat.lt_of_le_of_lt (Nat.min_le_left _ _) this

/-- **below the wrap `validate` checks the intended equation**: Σ outputs + fee = Σ inputs -/
theorem kernel_sums_no_wrap (sumIn sumOut fee : Nat) (h : fee < 2^63) :
    txKernelSumsValues sumIn sumOut fee = .ok ↔ sumOut + fee = sumIn := by
  unfold txKernelSumsValues kernelSumsValues
  rw [asI64_of_lt h]
  by_cases h0 : fee = 0
  · subst h0; simp
  · have h1 : ((fee : Nat) : Int) ≠ 0 := by omega
    have h2 : ((fee : Nat) : Int) ≠ -(2^63 : Int) := by omega
    have h3 : ¬ ((fee : Nat) : Int) < 0 := by omega
    simp only [h1, h2, h3, if_false, Int.natAbs_natCast]
    split <;> simp_all

/-- … for the aggregate of fewer than 2^23 kernels with the fee the regenerated `fee()` computes -/
theorem kernel_sums_translated_fee (ks : List Fns.TxKernel) (h : ks.length < 2^23) (sumIn sumOut : Nat) :
    txKernelSumsValues sumIn sumOut (Fns.TransactionBody_fee ks) = .ok ↔
      sumOut + Fns.TransactionBody_fee ks = sumIn :=
  kernel_sums_no_wrap _ _ _ (translated_fee_below_wrap ks h)

/-- **a fee of exactly 2^63**: `checked_abs` of `i64::MIN` fails, `validate` answers `InvalidValue`
whatever the body is -/
theorem kernel_sums_at_wrap (sumIn sumOut : Nat) : txKernelSumsValues sumIn sumOut (2^63) = .invalidValue := by
  unfold txKernelSumsValues kernelSumsValues
  rw [asI64_of_ge (Nat.le_refl _) (by decide)]
  have h2 : (((2:Nat)^63 : Nat) : Int) - 2^64 = -(2^63 : Int) := by decide
  have h1 : ¬ (-(2^63 : Int) = 0) := by decide
  rw [h2, if_neg h1, if_pos rfl]

/-- **above 2^63 the overage changes sides**: the accepted equation is Σout = Σin + (2^64 − fee) -/
theorem kernel_sums_wrapped (sumIn sumOut fee : Nat) (h : 2^63 < fee) (h64 : fee < 2^64) :
    txKernelSumsValues sumIn sumOut fee = .ok ↔ sumOut = sumIn + (2^64 - fee) := by
  unfold txKernelSumsValues kernelSumsValues
  rw [asI64_of_ge (by omega) h64]
  have h1 : ((fee : Nat) : Int) - 2^64 ≠ 0 := by omega
  have h2 : ((fee : Nat) : Int) - 2^64 ≠ -(2^63 : Int) := by omega
  have h3 : ((fee : Nat) : Int) - 2^64 < 0 := by omega
  have h4 : (((fee : Nat) : Int) - 2^64).natAbs = 2^64 - fee := by omega
  simp only [h1, h2, h3, if_false, if_true, h4]
  split <;> simp_all

/-- … so an honest transaction (Σout + fee = Σin) is refused there, and one that creates value is accepted -/
theorem honest_refused_when_wrapped (sumIn sumOut fee : Nat) (h : 2^63 < fee) (h64 : fee < 2^64)
    (hon : sumOut + fee = sumIn) : txKernelSumsValues sumIn sumOut fee = .mismatch := by
  have hne : ¬ (txKernelSumsValues sumIn sumOut fee = .ok) := by
    rw [kernel_sums_wrapped _ _ _ h h64]; omega
  unfold txKernelSumsValues kernelSumsValues at hne ⊢
  rw [asI64_of_ge (by omega) h64] at hne ⊢
  have h1 : ((fee : Nat) : Int) - 2^64 ≠ 0 := by omega
  have h2 : ((fee : Nat) : Int) - 2^64 ≠ -(2^63 : Int) := by omega
  have h3 : ((fee : Nat) : Int) - 2^64 < 0 := by omega
  simp only [h1, h2, h3, if_false, if_true] at hne ⊢
  split
  · rename_i hh; simp [hh] at hne
  · rfl

/-- witness: fee 2^64 − 1 (the saturated sum), inputs worth 5, outputs worth 6 — accepted -/
example : txKernelSumsValues 5 6 (2^64 - 1) = .ok := by decide
example : txKernelSumsValues (2^64 - 1 + 6) 6 (2^64 - 1) = .mismatch := by decide
example : txKernelSumsValues 10 7 3 = .ok := by decide

/-- the block side: `header.overage()` = −REWARD puts the reward on the input side -/
theorem block_kernel_sums (sumIn sumOut reward : Nat) (h0 : 0 < reward) (h : reward < 2^63) :
    kernelSumsValues sumIn sumOut (-(reward : Int)) = .ok ↔ sumOut = sumIn + reward := by
  unfold kernelSumsValues
  have h1 : -(reward : Int) ≠ 0 := by omega
  have h2 : -(reward : Int) ≠ -(2^63 : Int) := by omega
  have h3 : -(reward : Int) < 0 := by omega
  have h4 : (-(reward : Int)).natAbs = reward := by omega
  simp only [h1, h2, h3, if_false, if_true, h4]
  split <;> simp_all

/-! ## `libtx::tx_fee` and `Transaction::accept_fee` -/

/-- **one function of the counts**: the fee a wallet computes with `libtx::tx_fee(i, o, k)` is the
`accept_fee()` the pool demands of a transaction with `i` inputs, `o` outputs and `k` kernels (both
regenerated from the source; the same wrapping product with the same base) -/
theorem tx_fee_agrees_with_accept_fee (base : Nat) (b : Fns.TransactionBody) (i o : Nat) :
    Fns.tx_fee base i o b.kernels.length = Fns.Transaction_accept_fee base b i o := by
  rw [GV.Props.XlateMisc.tx_fee_eq, tx_accept_fee_eq]

/-- **paying `tx_fee` in one plain kernel passes the pool's fee test** for every fee shift whose
factor is paid as well: with fee fields `(shift, tx_fee · 2^shift)` (the fee fits 40 bits) the
`shifted_fee()` of the body is `tx_fee`, i.e. exactly `accept_fee()`. -/
theorem paying_tx_fee_is_accepted (base i o shift : Nat) (hs : shift < 16)
    (hf : Fns.tx_fee base i o 1 * 2^shift < 2^40) :
    Fns.TransactionBody_shifted_fee [⟨.Plain (packFee (Fns.tx_fee base i o 1 * 2^shift) shift)⟩] =
      Fns.Transaction_accept_fee base ⟨[⟨.Plain (packFee (Fns.tx_fee base i o 1 * 2^shift) shift)⟩]⟩ i o := by
  rw [← tx_fee_agrees_with_accept_fee]
  simp only [List.length_singleton]
  rw [body_shifted_fee_eq]
  have hfee := body_fee_plain [(Fns.tx_fee base i o 1 * 2^shift, shift)] (by simpa using hf) (by simp; omega)
  simp only [List.map_cons, List.map_nil, List.sum_cons, List.sum_nil, Nat.add_zero] at hfee
  rw [hfee]
  have hsh : Fns.TransactionBody_fee_shift [⟨.Plain (packFee (Fns.tx_fee base i o 1 * 2^shift) shift)⟩] = shift := by
    rw [body_fee_shift_eq]
    simp [feeFields, feeFieldsOf, packFee_shift hf hs]
  rw [hsh, Nat.mul_div_cancel _ (Nat.pow_pos (by decide))]

end GV.Props.C12
