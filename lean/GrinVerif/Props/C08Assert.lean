import GrinVerif.Lemmas.PruneListAssert
import GrinVerif.Lemmas.StoreSynced
/-! C08: the `assert!`s of `store/src/prune_list.rs` ("prune list append only - pos=… bitmap.maximum=…"
at the top of `append` and `append_single`, `!bitmap.contains(0)` in `new` / `open`) are panics
inside compaction, start-up and state sync.  `Model/PruneList.lean` carries them as a `none`
outcome (`appendChecked`, `newChecked`, `openChecked`); here: they never fire for what the store
passes.  (The theorems of `Props/C08.lean` are stated for `append` / `new` without the assertions;
these theorems discharge that precondition at every call site.) -/
namespace GV.Props.C08Assert
open GV GV.Pmmr GV.Pmmr.Co GV.Store

/-- `append(pos0)` with every root strictly left of `pos0` (1-based roots `<= pos0` – exactly what
the assertion tests): no assertion fires at any level of the roll-up recursion nor in
`append_single` after `cleanup_subtree` -/
theorem append_no_panic (pl : PruneList) (h : pl.Inv) (pos0 : Nat) (hall : ∀ y ∈ pl.bitmap, y ≤ pos0) :
    PruneList.appendChecked 64 pl pos0 = some (pl.append pos0) :=
  PruneList.appendChecked_eq 64 pl pos0 h hall

/-- the assertion is not vacuous: appending at or left of the last root is the panic -/
theorem append_panics_left_of_max (pl : PruneList) (pos0 m : Nat) (hm : Bm.maximum pl.bitmap = some m)
    (h : pos0 < m) : PruneList.appendChecked 64 pl pos0 = none := by
  unfold PruneList.appendChecked PruneList.appendAssert
  simp [hm]; omega

/-- **`check_compact` never trips the assertions**: for a synced backend satisfying the reference
invariant, any cutoff inside the MMR and any `rewind_rm_pos`, `PruneList::new` on the merged bitmap
(old roots OR removed leaves) runs through – it is the list `check_compact` installs -/
theorem check_compact_no_panic {H : Type} (el : Bytes → Option Nat) (b : Backend H) (N : Nat)
    (ref : Nat → H) (dref : Nat → Bytes) (df : AOF Bytes) (hs : Synced b N ref dref df)
    (cutoff : Nat) (hc : cutoff ≤ mmr N) (rm : Bitmap) :
    PruneList.newChecked (Bm.or b.pruneList.bitmap (b.posToRm cutoff rm).1) =
      some (b.checkCompact el cutoff rm).pruneList := by
  have hp : Backend.CompactPre b (mmr N) cutoff := ⟨hs.inv, hs.lsSorted, hs.roots, hc, hs.bound⟩
  exact checkCompact_new_no_panic hp rm

/-- **reopen never trips the assertions**: `PruneList::open` on the flushed bitmap of a list
satisfying the roll-up invariant (what every `sync` / compaction writes) gives that list back -/
theorem reopen_no_panic (pl : PruneList) (h : pl.Inv) (hb : ∀ x ∈ pl.bitmap, x + 64 < 2 ^ 64) :
    PruneList.openChecked pl.bitmap = some pl := by
  have hanti : List.Pairwise (fun a c => ¬ Store.Sub (c - 1) (a - 1)) pl.bitmap := by
    apply List.Pairwise.imp_of_mem (R := fun a c => a ≤ bintreeLeftmost (c - 1)) ?_ h.disj
    intro a c ha _ hac hsub
    have := hsub.1
    have := h.pos a ha
    omega
  unfold PruneList.openChecked
  rw [PruneList.newChecked_eq pl.bitmap h.sorted (fun e he => ⟨h.pos e he, hb e he⟩) hanti]
  have := PruneList.openBm_of_inv h
  unfold PruneList.openBm at this
  simp only [Option.map_some, this]

/-- **state sync never trips the assertion**: `append_pruned_subtree(hash, pos0)` for a root whose
subtree starts at or right of every existing root (`roots <= mmr N <= pos0`) -/
theorem import_append_no_panic (pl : PruneList) (h : pl.Inv) (N pos0 : Nat)
    (hroots : ∀ x ∈ pl.bitmap, x ≤ mmr N) (hl : bintreeLeftmost pos0 = mmr N) :
    PruneList.appendChecked 64 pl pos0 = some (pl.append pos0) := by
  apply append_no_panic pl h pos0
  intro y hy
  have := hroots y hy
  have := PruneList.leftmost_le pos0
  omega

/-- non-vacuity: the list with the single root 3 (positions 0..2 pruned) – appending position 3
(the next leaf) passes, appending position 1 again is the panic -/
example : PruneList.appendChecked 64 (PruneList.new [3]) 1 = none := by
  apply append_panics_left_of_max _ 1 3 _ (by omega)
  have h2 : height 2 = 1 := by
    have := pmh_coord 1 1 (by simp [trailingOnes])
    have h1 : mmr 1 = 1 := by simp [mmr, popcount]
    rw [h1] at this
    simp [height, this]
  simp [PruneList.new, PruneList.append, PruneList.appendFuel, PruneList.isPruned, PruneList.isPrunedRoot,
    Bm.contains, Bm.select, Bm.rank, PruneList.cleanupSubtree, PruneList.appendSingle, Bm.maximum, Bm.add,
    bintreeLeftmost, h2]

end GV.Props.C08Assert
