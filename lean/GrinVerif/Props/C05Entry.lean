import GrinVerif.Props.C05
import GrinVerif.Model.PowEntry
/-! # C05 at the node's entry point, for every `edge_bits : u8`

`Props/C05.lean` proves, per graph definition, that `verify` accepts exactly the simple cycles, for
every endpoint function.  Here the glue in front of the five verifiers (`pow::verify_size` →
`global::create_pow_context` → `new_*_ctx` → `CuckooParams::new` → `Graph::new` →
`set_header_nonce` → `verify`; `Model/PowEntry.lean`) is composed with those theorems into ONE
statement about the function the node calls: `verify_size_accepts_exactly_cycles`.  All hypotheses
of the per-variant theorems (proof size > 0, context proof size = global proof size for Cuckarooz,
the bucket hash keeps the low bit for Cuckarood) are discharged for the parameters `verify_size`
really builds.

The model covers the whole `u8` range of `edge_bits` in release arithmetic; for the sizes a header
read from the wire can have (1..=62; 63 is always refused) it coincides with `verifySize`
(`entry_eq_verifySize`), the function the runs `vsize` / `cons powsize` compare.  Outside that range
(headers built through the API) the shift `1u64 << edge_bits` takes its amount modulo 64:
`entry_relabel_64` — a proof for the graph of `edge_bits` is accepted under the label
`edge_bits + 64` (an observation about the shipped build, see the report; run `pow entry`). -/
namespace GV.Props.C05Entry
open GV GV.Pow GV.Gen GV.Props.C05

/-- `epOf` (the endpoint function of the context model) is `epNode` at the node bits
`new_*_ctx` computes, wherever the `u8` arithmetic does not wrap -/
theorem epOf_eq_epNode (v : Variant) (k : Keys) (eb : Nat) (h1 : 1 ≤ eb) (h2 : eb ≤ 254) :
    epNode v k (nodeBitsOf v eb) = epOf v k eb := by
  cases v
  · rfl
  · rfl
  · show epBlock k ((eb + 255) % 256) 25 false = epBlock k (eb - 1) 25 false
    have : (eb + 255) % 256 = eb - 1 := by omega
    rw [this]
  · rfl
  · show epBlock k ((eb + 1) % 256) 21 true = epBlock k (eb + 1) 21 true
    have : (eb + 1) % 256 = eb + 1 := by omega
    rw [this]

theorem proofsizeOf_pos (c : ChainType) : 0 < proofsizeOf c := by
  cases c <;> decide

/-- the node mask `CuckooParams::new` computes, `(1u64 << node_bits) - 1` with the shift amount
taken modulo 64, is what `maskOfBits` yields — for every `u8` -/
theorem maskOfBits_release : ∀ nb, nb < 256 → (maskOfBits nb).toNat = 2^(nb % 64) - 1 := by
  decide +kernel

/-- `Graph::new` refuses exactly the sizes with `edge_bits % 64 = 63` -/
theorem graphTooBig_iff (eb : Nat) : graphTooBig eb = true ↔ eb % 64 = 63 := by
  unfold graphTooBig numEdges
  rw [decide_eq_true_iff]
  have hk : eb % 64 < 64 := Nat.mod_lt _ (by decide)
  generalize eb % 64 = k at hk
  constructor
  · intro h
    apply Classical.byContradiction
    intro hne
    have hle : k ≤ 62 := by omega
    have : 2^k ≤ 2^62 := Nat.pow_le_pow_right (by decide) hle
    have h63 : U64MAX / 2 = 2^63 - 1 := by decide
    rw [h63] at h
    have : (2:Nat)^62 < 2^63 - 1 := by decide
    omega
  · intro h
    subst h
    decide

/-- all five verifiers at once: `verify` accepts exactly the proofs with the required count,
strictly ascending, in range, whose edges form one simple cycle in that variant's graph -/
theorem verifyOf_iff (v : Variant) (P : Params) (ep : Nat → Nat × Nat) (ns : List Nat)
    (hps : 0 < P.proofsize) (hctx : P.ctxProofSize = P.proofsize) (hbk : ∀ x, P.bk x % 2 = x % 2) :
    verifyOf v P ep ns = .ok () ↔
      (ns.length = P.proofsize ∧ Ascending ns ∧ (∀ x ∈ ns, x ≤ P.edgeMask) ∧ IsProofCycleOf v ep ns) := by
  cases v
  · exact verifyCuckatoo_iff P ep ns hps
  · exact verifyCuckaroo_iff P ep ns hps
  · exact verifyCuckarood_iff P ep ns hbk hps
  · exact verifyCuckaroom_iff P ep ns hps
  · exact verifyCuckarooz_iff P ep ns hps hctx

/-- **`pow::verify_size` accepts exactly the simple cycles of the header-seeded graph** — the
property's first sentence for the function the node calls, for every chain type, height,
`edge_bits : u8`, pre-PoW bytes and nonce list: `Ok(())` iff a verifier exists for (chain type,
height, edge_bits), the graph is not refused for its size, the header carries exactly
`global::proofsize()` nonces, strictly ascending, each within `edge_mask`, and the edges they select
in the graph seeded by `pre_pow` form one simple cycle through all of them under the selected graph
definition. -/
theorem verify_size_accepts_exactly_cycles (c : ChainType) (height eb : Nat) (prePow : Bytes)
    (ns : List Nat) :
    verifySizeEntry c height eb prePow ns = .ok () ↔
      ∃ v, selectVariant c height eb = some v ∧ ¬ (v = .cuckatoo ∧ eb % 64 = 63) ∧
        ns.length = proofsizeOf c ∧ Ascending ns ∧ (∀ x ∈ ns, x ≤ edgeMaskRel eb) ∧
        IsProofCycleOf v (epNode v (keysOfHeader prePow none) (nodeBitsOf v eb)) ns := by
  unfold verifySizeEntry
  split
  · next hv => simp [hv]
  · next v hv =>
    by_cases hbig' : v = .cuckatoo ∧ graphTooBig eb = true
    · have hbig : v = .cuckatoo ∧ eb % 64 = 63 := ⟨hbig'.1, (graphTooBig_iff eb).mp hbig'.2⟩
      rw [if_pos hbig']
      constructor
      · intro h; cases h
      · rintro ⟨v', hv', hnb, _⟩
        rw [hv] at hv'; cases hv'
        exact absurd hbig hnb
    · have hbig : ¬ (v = .cuckatoo ∧ eb % 64 = 63) :=
        fun h => hbig' ⟨h.1, (graphTooBig_iff eb).mpr h.2⟩
      rw [if_neg hbig']
      by_cases hlen : ns.length = proofsizeOf c
      · have hiff := verifyOf_iff v (entryParams c eb ns.length)
          (epNode v (keysOfHeader prePow none) (nodeBitsOf v eb)) ns
          (proofsizeOf_pos c) hlen
          (fun x => bucketMask_low_bit (proofsizeOf c) (proofsizeOf_pos c) x)
        constructor
        · intro h
          split at h
          · next hok =>
            obtain ⟨h1, h2, h3, h4⟩ := hiff.mp hok
            exact ⟨v, hv, hbig, h1, h2, h3, h4⟩
          · cases h
        · rintro ⟨v', hv', _, h1, h2, h3, h4⟩
          rw [hv] at hv'; cases hv'
          rw [hiff.mpr ⟨h1, h2, h3, h4⟩]
      · constructor
        · intro h
          split at h
          · next hok => exact absurd (verifyOf_ok_length v _ _ ns hok) hlen
          · cases h
        · rintro ⟨_, _, _, h1, _⟩
          exact absurd h1 hlen

/-- soundness half, as the property reads: whatever `verify_size` accepts is a proof of the right
length, strictly ascending, in range, selecting one simple cycle -/
theorem verify_size_sound (c : ChainType) (height eb : Nat) (prePow : Bytes) (ns : List Nat)
    (h : verifySizeEntry c height eb prePow ns = .ok ()) :
    ns.length = proofsizeOf c ∧ Ascending ns ∧ (∀ x ∈ ns, x ≤ edgeMaskRel eb) ∧
    ∃ v, selectVariant c height eb = some v ∧
      IsProofCycleOf v (epNode v (keysOfHeader prePow none) (nodeBitsOf v eb)) ns := by
  obtain ⟨v, hv, _, h1, h2, h3, h4⟩ := (verify_size_accepts_exactly_cycles c height eb prePow ns).mp h
  exact ⟨h1, h2, h3, v, hv, h4⟩

/-- **For the sizes a header from the wire can have, the entry model IS `verifySize`** (the model
the runs `vsize` and `cons powsize` compare with the real `pow::verify_size`). -/
theorem entry_eq_verifySize (c : ChainType) (height eb : Nat) (prePow : Bytes) (ns : List Nat)
    (h1 : 1 ≤ eb) (h2 : eb ≤ 62) :
    verifySizeEntry c height eb prePow ns =
      (match verifySize c height eb prePow ns with
       | .ok () => .ok ()
       | .error .noCtx => .error .noCtx
       | .error (.verify e) => .error (.verify e)) := by
  unfold verifySizeEntry verifySize
  cases hv : selectVariant c height eb with
  | none => rfl
  | some v =>
    simp only
    have hnb : ¬ (v = .cuckatoo ∧ graphTooBig eb = true) := by
      rw [graphTooBig_iff]; omega
    rw [if_neg hnb, fresh_verify, epOf_eq_epNode v _ eb h1 (by omega)]
    have hP : entryParams c eb ns.length = mkParams eb (proofsizeOf c) ns.length := by
      unfold entryParams mkParams edgeMaskRel numEdges
      rw [Nat.mod_eq_of_lt (by omega : eb < 64)]
    rw [hP]
    generalize verifyOf v (mkParams eb (proofsizeOf c) ns.length) (epOf v (keysOfHeader prePow none) eb) ns = r
    match r with
    | .ok () => rfl
    | .error _ => rfl

/-- **`edge_bits` 63, 127, 191, 255 are always refused**: every chain type selects Cuckatoo there and
`Graph::new` refuses the size before anything is verified. -/
theorem entry_eb63_refused (c : ChainType) (height eb : Nat) (prePow : Bytes) (ns : List Nat)
    (h : eb % 64 = 63) : verifySizeEntry c height eb prePow ns = .error .graphTooBig := by
  have hgt : eb > 29 := by omega
  have hsel : selectVariant c height eb = some .cuckatoo := by
    cases c <;> simp [selectVariant, hgt]
  unfold verifySizeEntry
  rw [hsel]
  simp [(graphTooBig_iff eb).mpr h]

/-- the node mask of the Cuckatoo graph only depends on `edge_bits mod 64` -/
theorem maskOfBits_add_64 : ∀ nb, nb < 192 → maskOfBits (nb + 64) = maskOfBits nb := by
  decide +kernel

/-- **Observation (release build): the label `edge_bits + 64` opens the graph of `edge_bits`.**
On the chain types that verify with Cuckatoo at every size, `verify_size` answers for a header
labelled `edge_bits + 64` exactly what it answers for the same header labelled `edge_bits`
(`1u64 << edge_bits` uses the low six bits of the amount).  Such a label cannot be read from the
wire (`proof_read_refuses_bad_edge_bits`); it can be set on a header built through the API. -/
theorem entry_relabel_64 (c : ChainType) (hc : c = .automated ∨ c = .user) (height eb : Nat)
    (prePow : Bytes) (ns : List Nat) (h : eb + 64 < 256) :
    verifySizeEntry c height (eb + 64) prePow ns = verifySizeEntry c height eb prePow ns := by
  have hsel : ∀ e, selectVariant c height e = some .cuckatoo := by
    intro e; rcases hc with rfl | rfl <;> rfl
  unfold verifySizeEntry
  rw [hsel, hsel]
  simp only
  have hm : (eb + 64) % 64 = eb % 64 := by omega
  have hg : graphTooBig (eb + 64) = graphTooBig eb := by
    unfold graphTooBig numEdges; rw [hm]
  have hP : entryParams c (eb + 64) ns.length = entryParams c eb ns.length := by
    unfold entryParams edgeMaskRel numEdges; rw [hm]
  have hep : epNode .cuckatoo (keysOfHeader prePow none) (nodeBitsOf .cuckatoo (eb + 64))
      = epNode .cuckatoo (keysOfHeader prePow none) (nodeBitsOf .cuckatoo eb) := by
    funext n
    show epCuckatoo _ (eb + 64) n = epCuckatoo _ eb n
    unfold epCuckatoo
    rw [maskOfBits_add_64 eb (by omega)]
  rw [hg, hP, hep]

/-- the verdict is a function of (chain type, height, edge_bits, pre-PoW bytes, nonces) and of
nothing else: stated as congruence in the pre-PoW bytes through the siphash keys — two headers
whose pre-PoW bytes hash to the same keys get the same verdict for every proof -/
theorem entry_depends_on_keys_only (c : ChainType) (height eb : Nat) (pre₁ pre₂ : Bytes) (ns : List Nat)
    (hk : keysOfHeader pre₁ none = keysOfHeader pre₂ none) :
    verifySizeEntry c height eb pre₁ ns = verifySizeEntry c height eb pre₂ ns := by
  unfold verifySizeEntry
  rw [hk]

/-! ### non-vacuity -/

/-- a header genuinely mined by the repo's `pow_size` (AutomatedTesting, height 0, edge_bits 10;
`pre_pow` bytes and nonces as observed in the `vsize` run) is accepted at its own label … -/
def exPre : Bytes := [0, 1, 0, 0, 0, 0, 0, 0, 0, 0, 0, 0, 0, 0, 0, 0, 0, 0, 5, 156, 63, 119, 183, 153, 125, 96, 95, 182, 153, 68, 48, 49, 222, 211, 30, 128, 111, 33, 254, 209, 143, 20, 206, 89, 22, 34, 96, 80, 31, 110, 199, 117, 92, 148, 109, 21, 143, 117, 166, 188, 141, 81, 173, 55, 17, 247, 246, 104, 172, 95, 173, 55, 15, 160, 22, 241, 102, 176, 138, 237, 116, 81, 219, 249, 212, 232, 101, 106, 173, 154, 203, 79, 212, 151, 3, 141, 49, 177, 39, 44, 112, 245, 136, 161, 218, 62, 137, 234, 216, 249, 156, 155, 84, 109, 0, 0, 0, 0, 0, 0, 0, 0, 0, 0, 0, 0, 0, 0, 0, 0, 0, 0, 0, 0, 0, 0, 0, 0, 0, 0, 0, 0, 0, 0, 0, 0, 164, 43, 73, 128, 31, 234, 176, 65, 59, 185, 80, 137, 47, 18, 36, 23, 254, 75, 200, 195, 209, 154, 138, 75, 31, 5, 235, 77, 30, 104, 76, 167, 0, 0, 0, 0, 0, 0, 0, 0, 0, 0, 0, 0, 0, 0, 0, 0, 0, 0, 0, 0, 0, 0, 0, 0, 0, 0, 0, 0, 0, 0, 0, 0, 0, 0, 0, 0, 0, 4, 217, 56, 0, 0, 0, 0, 0, 8, 213, 104, 0, 8, 83, 13, 68, 200, 14, 188, 83, 245, 21, 65, 35, 1, 10, 200, 34, 26, 128, 183]
def exNonces : List Nat := [30,397,435,521,683,836,1018,1023]

theorem ex_accepted : verifySizeEntry .automated 0 10 exPre exNonces = .ok () := by decide +kernel
/-- … hence (by `verify_size_sound`) its edges are a simple 8-cycle of the Cuckatoo graph … -/
example : IsProofCycleOf .cuckatoo (epNode .cuckatoo (keysOfHeader exPre none) 10) exNonces := by
  obtain ⟨_, _, _, v, hv, hc⟩ := verify_size_sound .automated 0 10 exPre exNonces ex_accepted
  cases hv
  exact hc
/-- … and it is accepted under the labels 74, 138, 202 as well, refused (out of range) under 9, and
refused for its size under 63 -/
example : verifySizeEntry .automated 0 74 exPre exNonces = .ok () := by
  rw [show (74 : Nat) = 10 + 64 from rfl, entry_relabel_64 _ (.inl rfl) _ _ _ _ (by decide)]; exact ex_accepted
example : verifySizeEntry .automated 0 202 exPre exNonces = .ok () := by
  rw [show (202 : Nat) = 138 + 64 from rfl, entry_relabel_64 _ (.inl rfl) _ _ _ _ (by decide),
    show (138 : Nat) = 74 + 64 from rfl, entry_relabel_64 _ (.inl rfl) _ _ _ _ (by decide),
    show (74 : Nat) = 10 + 64 from rfl, entry_relabel_64 _ (.inl rfl) _ _ _ _ (by decide)]; exact ex_accepted
example : verifySizeEntry .automated 0 9 exPre exNonces = .error (.verify .tooBig) := by decide +kernel
example : verifySizeEntry .automated 0 63 exPre exNonces = .error .graphTooBig := by decide +kernel
/-- Cuckarood at `edge_bits = 0`: `node_bits` wraps to 255, the node mask is `2^63 - 1` -/
example : nodeBitsOf .cuckarood 0 = 255 ∧ (maskOfBits 255).toNat = 2^63 - 1 ∧
    nodeBitsOf .cuckarooz 255 = 0 ∧ (maskOfBits 0).toNat = 0 := by decide

end GV.Props.C05Entry
