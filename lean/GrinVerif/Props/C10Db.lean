import GrinVerif.Lemmas.SerDbRt
/-! # C10, sixth part — the remaining `Readable` / `Writeable` impls: database values, wrappers

`Model/SerDb.lean` transliterates every impl of the source tree the earlier parts left out (inventory:
`Model/SerImpls.lean`, obligations `Props/C10Impls.lean`): the NRD kernel index lists of
`chain/src/linked_list.rs`, `BlockSums`, `SizeEntry`, `ProtocolVersion`, the integer / tuple / fixed
byte-string impls of `core/src/ser.rs`, `PeerData`, `BoolFlag`. Tied to the code by the `db` run of the
`ser` harness. Same three shapes as the other parts: round trip with any continuation; for ALL byte
strings "accepted ⇒ the bytes are the encoding of the returned value"; refusal of unknown tags. Where
the code normalises instead of refusing (`BoolFlag`, the optional trailing fields of `PeerData`) the
theorem says exactly what it does. None of these encodings has a version or mode parameter. -/
namespace GV.Props.C10Db
open GV GV.Ser GV.SerMsg GV.SerDb

/-! ## the NRD kernel index: `ListWrapper<T>` and `ListEntry<T>` -/

/-- generic in the item codec -/
theorem listWrapper_roundtrip {α : Type} (p : Parser α) (w : α → Bytes) (x : ListWrapper α)
    (h : x.WF p w) (rest : Bytes) : decListWrapper p (encListWrapper w x ++ rest) = .ok (x, rest) :=
  decListWrapper_enc p w x h rest

theorem listEntry_roundtrip {α : Type} (p : Parser α) (w : α → Bytes) (x : ListEntry α)
    (h : x.WF p w) (rest : Bytes) : decListEntry p (encListEntry w x ++ rest) = .ok (x, rest) :=
  decListEntry_enc p w x h rest

/-- for ALL byte strings: an accepted list value is byte for byte the encoding of what was returned,
provided the item reader has that property -/
theorem listWrapper_accepts_only_canonical {α : Type} {p : Parser α} {w : α → Bytes} (hc : ItemCanon p w)
    {bs : Bytes} {x : ListWrapper α} {r : Bytes} (hb : AllBytes bs)
    (h : decListWrapper p bs = .ok (x, r)) : bs = encListWrapper w x ++ r := decListWrapper_inv hc hb h

theorem listEntry_accepts_only_canonical {α : Type} {p : Parser α} {w : α → Bytes} (hc : ItemCanon p w)
    {bs : Bytes} {x : ListEntry α} {r : Bytes} (hb : AllBytes bs)
    (h : decListEntry p bs = .ok (x, r)) : bs = encListEntry w x ++ r := decListEntry_inv hc hb h

/-- unknown variant bytes are refused (`from_u8(..).ok_or(CorruptedData)`), whatever follows -/
theorem listWrapper_unknown_variant_refused {α : Type} (p : Parser α) (t : Nat) (ht : 2 ≤ t) (r : Bytes) :
    decListWrapper p (t :: r) = .error .corrupted := decListWrapper_unknown p t ht r

theorem listEntry_unknown_variant_refused {α : Type} (p : Parser α) (t : Nat) (ht : t < 2 ∨ 4 < t) (r : Bytes) :
    decListEntry p (t :: r) = .error .corrupted := decListEntry_unknown p t ht r

/-- "Start at 2 here to differentiate from ListWrapperVariant": a stored ENTRY is never read as a
LIST and a stored list never as an entry, whatever the item codec (the two db prefixes share the
key layout, the tag ranges are what keeps a mixed-up key from being misread). -/
theorem entry_never_reads_as_list {α β : Type} (p : Parser β) (w : α → Bytes) (e : ListEntry α) (rest : Bytes) :
    decListWrapper p (encListEntry w e ++ rest) = .error .corrupted := by
  obtain ⟨t, tl, h, ht⟩ := encListEntry_head w e
  rw [h, List.cons_append]
  exact decListWrapper_unknown p t ht _

theorem list_never_reads_as_entry {α β : Type} (p : Parser β) (w : α → Bytes) (l : ListWrapper α) (rest : Bytes) :
    decListEntry p (encListWrapper w l ++ rest) = .error .corrupted := by
  obtain ⟨t, tl, h, ht⟩ := encListWrapper_head w l
  rw [h, List.cons_append]
  exact decListEntry_unknown p t (Or.inl ht) _

/-- the instances the node stores: `MultiIndex<CommitPos>` -/
def NrdListWF : ListWrapper CommitPos → Prop
  | .single c => c.WF
  | .multi a b => a < 2^64 ∧ b < 2^64

def NrdEntryWF : ListEntry CommitPos → Prop
  | .head c n => c.WF ∧ n < 2^64
  | .tail c p => c.WF ∧ p < 2^64
  | .middle c n p => c.WF ∧ n < 2^64 ∧ p < 2^64

theorem nrdList_roundtrip (x : ListWrapper CommitPos) (h : NrdListWF x) (rest : Bytes) :
    decNrdList (encNrdList x ++ rest) = .ok (x, rest) := by
  cases x with
  | single c =>
    exact decListWrapper_enc decCommitPos encCommitPos (.single c) (commitPos_itemRt c h) rest
  | multi a b => exact decListWrapper_enc decCommitPos encCommitPos (.multi a b) h rest

theorem nrdEntry_roundtrip (x : ListEntry CommitPos) (h : NrdEntryWF x) (rest : Bytes) :
    decNrdEntry (encNrdEntry x ++ rest) = .ok (x, rest) := by
  cases x with
  | head c n =>
    exact decListEntry_enc decCommitPos encCommitPos (.head c n) (And.intro (commitPos_itemRt c h.1) h.2) rest
  | tail c p =>
    exact decListEntry_enc decCommitPos encCommitPos (.tail c p) (And.intro (commitPos_itemRt c h.1) h.2) rest
  | middle c n p =>
    exact decListEntry_enc decCommitPos encCommitPos (.middle c n p)
      (And.intro (commitPos_itemRt c h.1) h.2) rest

example : NrdEntryWF (.middle { pos := 2^64 - 1, height := 7 } 0 (2^64 - 1)) := by
  refine ⟨⟨by decide, by decide⟩, by decide, by decide⟩

example : decNrdEntry (encNrdEntry (.middle { pos := 2^64 - 1, height := 7 } 0 (2^64 - 1)) ++ [9])
    = .ok (.middle { pos := 2^64 - 1, height := 7 } 0 (2^64 - 1), [9]) := by rfl

theorem nrdList_accepts_only_canonical {bs : Bytes} {x : ListWrapper CommitPos} {r : Bytes} (hb : AllBytes bs)
    (h : decNrdList bs = .ok (x, r)) : bs = encNrdList x ++ r := decListWrapper_inv commitPos_itemCanon hb h

theorem nrdEntry_accepts_only_canonical {bs : Bytes} {x : ListEntry CommitPos} {r : Bytes} (hb : AllBytes bs)
    (h : decNrdEntry bs = .ok (x, r)) : bs = encNrdEntry x ++ r := decListEntry_inv commitPos_itemCanon hb h

/-- both list variants of the NRD index are 17 bytes; entries are 25 or 33 -/
theorem nrdList_length (x : ListWrapper CommitPos) : (encNrdList x).length = 17 := by
  cases x <;> rfl

theorem nrdEntry_length (x : ListEntry CommitPos) :
    (encNrdEntry x).length = match x with | .middle _ _ _ => 33 | _ => 25 := by
  cases x <;> rfl

/-! ## BlockSums, SizeEntry, ProtocolVersion -/

theorem blockSums_roundtrip (s : BlockSums) (h : s.WF) (rest : Bytes) :
    decBlockSums (encBlockSums s ++ rest) = .ok (s, rest) := decBlockSums_enc s h rest

theorem blockSums_accepts_only_canonical {bs : Bytes} {s : BlockSums} {r : Bytes}
    (h : decBlockSums bs = .ok (s, r)) : bs = encBlockSums s ++ r ∧ s.WF := decBlockSums_inv h

example : ({ utxoSum := List.replicate 33 8, kernelSum := List.replicate 33 9 } : BlockSums).WF := by decide

theorem sizeEntry_roundtrip (e : SizeEntry) (h : e.WF) (rest : Bytes) :
    decSizeEntry (encSizeEntry e ++ rest) = .ok (e, rest) := decSizeEntry_enc e h rest

theorem sizeEntry_accepts_only_canonical {bs : Bytes} {e : SizeEntry} {r : Bytes} (hb : AllBytes bs)
    (h : decSizeEntry bs = .ok (e, r)) : bs = encSizeEntry e ++ r ∧ e.WF := decSizeEntry_inv hb h

/-- the size file is addressed by `position * SizeEntry::LEN`: every entry has that length -/
theorem sizeEntry_fixed_length (e : SizeEntry) : (encSizeEntry e).length = SIZE_ENTRY_LEN :=
  encSizeEntry_length e

example : ({ offset := 2^64 - 1, size := 2^16 - 1 } : SizeEntry).WF := by decide

theorem protocolVersion_roundtrip (v : Nat) (h : v < 2^32) (rest : Bytes) :
    decProtocolVersion (encProtocolVersion v ++ rest) = .ok (v, rest) := readU32_write v h rest

theorem protocolVersion_accepts_only_canonical {bs : Bytes} {v : Nat} {r : Bytes} (hb : AllBytes bs)
    (h : decProtocolVersion bs = .ok (v, r)) : bs = encProtocolVersion v ++ r ∧ v < 2^32 :=
  readU32_inv hb h

/-! ## integers, tuples, fixed-size byte strings -/

theorem i32_roundtrip (z : Int) (h1 : -(2^31 : Int) ≤ z) (h2 : z < (2^31 : Int)) (rest : Bytes) :
    readI32 (writeI32 z ++ rest) = .ok (z, rest) := readI32_write z h1 h2 rest

theorem i32_accepts_only_canonical {bs : Bytes} {z : Int} {r : Bytes} (hb : AllBytes bs)
    (h : readI32 bs = .ok (z, r)) : bs = writeI32 z ++ r ∧ -(2^31 : Int) ≤ z ∧ z < (2^31 : Int) :=
  readI32_inv hb h

example : readI32 (writeI32 (-2147483648) ++ [1]) = .ok (-2147483648, [1]) :=
  readI32_write _ (by decide) (by decide) _

/-- `(A, B, C)` / `(A, B, C, D)`: generic in the component codecs -/
theorem triple_roundtrip {α β γ : Type} (pa : Parser α) (pb : Parser β) (pc : Parser γ)
    (wa : α → Bytes) (wb : β → Bytes) (wc : γ → Bytes) (x : α × β × γ)
    (ha : ItemRt pa wa x.1) (hb : ItemRt pb wb x.2.1) (hc : ItemRt pc wc x.2.2) (rest : Bytes) :
    decTriple pa pb pc (encTriple wa wb wc x ++ rest) = .ok (x, rest) :=
  decTriple_enc pa pb pc wa wb wc x ha hb hc rest

theorem triple_accepts_only_canonical {α β γ : Type} {pa : Parser α} {pb : Parser β} {pc : Parser γ}
    {wa : α → Bytes} {wb : β → Bytes} {wc : γ → Bytes}
    (ca : ItemCanon pa wa) (cb : ItemCanon pb wb) (cc : ItemCanon pc wc)
    {bs : Bytes} {x : α × β × γ} {r : Bytes} (hbs : AllBytes bs)
    (h : decTriple pa pb pc bs = .ok (x, r)) : bs = encTriple wa wb wc x ++ r :=
  decTriple_inv ca cb cc hbs h

theorem quad_roundtrip {α β γ δ : Type} (pa : Parser α) (pb : Parser β) (pc : Parser γ) (pd : Parser δ)
    (wa : α → Bytes) (wb : β → Bytes) (wc : γ → Bytes) (wd : δ → Bytes) (x : α × β × γ × δ)
    (ha : ItemRt pa wa x.1) (hb : ItemRt pb wb x.2.1) (hc : ItemRt pc wc x.2.2.1)
    (hd : ItemRt pd wd x.2.2.2) (rest : Bytes) :
    decQuad pa pb pc pd (encQuad wa wb wc wd x ++ rest) = .ok (x, rest) :=
  decQuad_enc pa pb pc pd wa wb wc wd x ha hb hc hd rest

example : ItemRt readU64 writeU64 (2^64 - 1) := fun rest => readU64_write _ (by decide) rest

/-- `Commitment` (33), `BlindingFactor` (32), `Identifier` (17), `Signature` (64), `Hash` (32):
exactly `n` bytes, any content, nothing normalised -/
theorem fixed_roundtrip (n : Nat) (hn : n ≤ MAX_FIXED_READ) (b : Bytes) (h : b.length = n) (rest : Bytes) :
    decFixedN n (encFixedN b ++ rest) = .ok (b, rest) := readFixed_write b n h hn rest

theorem fixed_accepts_only_canonical {n : Nat} {bs b r : Bytes} (h : decFixedN n bs = .ok (b, r)) :
    bs = encFixedN b ++ r ∧ b.length = n := readFixed_ok h

/-- `PublicKey`: whatever is accepted is 33 bytes that pass the curve test, written back unchanged
(given that the writer's compressed form of a parsed key is the bytes it was parsed from) -/
theorem publicKey_accepts {onCurve : Bytes → Bool} {bs b r : Bytes} (h : decPublicKey onCurve bs = .ok (b, r)) :
    bs = b ++ r ∧ b.length = PUBKEY_SIZE ∧ onCurve b = true := by
  unfold decPublicKey at h
  obtain ⟨x, r1, h1, k⟩ := andThen_inv h
  by_cases hc : onCurve x = true
  · simp only [hc, ↓reduceIte, Except.ok.injEq, Prod.mk.injEq] at k
    obtain ⟨rfl, rfl⟩ := k
    obtain ⟨e, l⟩ := readFixed_ok h1
    exact ⟨e, l, hc⟩
  · simp [hc] at k

/-! ## BoolFlag: the low bit decides -/

theorem boolFlag_roundtrip (b : Bool) (rest : Bytes) : decBoolFlag (encBoolFlag b ++ rest) = .ok (b, rest) :=
  decBoolFlag_enc b rest

/-- what the code does: EVERY byte is accepted; it is canonical iff it is 0 or 1; an odd byte ≥ 3 is
read as `true` and written back as 1, an even byte ≥ 2 as `false` and written back as 0 (the type is
private and never constructed in this source tree) -/
theorem boolFlag_accepts_every_byte (x : Nat) (rest : Bytes) :
    ∃ b, decBoolFlag (x :: rest) = .ok (b, rest) ∧ (encBoolFlag b ++ rest = x :: rest ↔ x ≤ 1) := by
  refine ⟨x % 2 == 1, rfl, ?_⟩
  rcases Nat.mod_two_eq_zero_or_one x with h | h <;> simp [encBoolFlag, writeU8, h] <;> omega

example : decBoolFlag [3] = .ok (true, []) ∧ encBoolFlag true = [1] := ⟨rfl, rfl⟩

/-! ## PeerData -/

/-- a record with both trailing fields reads back as itself, whatever the clock says -/
theorem peerData_roundtrip (now : Int) (p : PeerData) (h : p.WF) (rest : Bytes) :
    decPeerData now (encPeerData p ++ rest) = .ok (p, rest) := by
  rw [encPeerData_eq, List.append_assoc, decPeerData_head now p h,
    readTrailing_full now _ _ h.2.2.2.2.2.2.2.1 h.2.2.2.2.2.2.2.2 rest]

example : ({ addr := .v4 [10, 0, 0, 1] 3414, capabilities := 15, userAgent := [77, 87], flags := 1,
             lastBanned := -1, banReason := 5, lastConnected := 1600000000, lastAttempt := 0 } : PeerData).WF := by
  refine ⟨by decide, by decide, by decide, by decide, by decide, by decide, by decide, by decide, by decide⟩

/-- What the code does with the records of older versions (the two trailing fields are read WITHOUT
`?`): a record that ends after the ban reason, or less than 8 bytes later, is ACCEPTED; its
`last_connected` is the CLOCK and its `last_attempt` 0; it re-encodes 16 bytes longer … -/
theorem peerData_trailing_fields_optional (now : Int) (p : PeerData) (h : p.WF) (tail : Bytes) (ht : tail.length < 8) :
    decPeerData now (encPeerDataHead p ++ tail) = .ok ({ p with lastConnected := now, lastAttempt := 0 }, []) := by
  rw [decPeerData_head now p h, readTrailing_none now tail ht]

/-- … a record with `last_connected` but without (all of) `last_attempt` likewise … -/
theorem peerData_last_attempt_optional (now : Int) (p : PeerData) (h : p.WF) (tail : Bytes) (ht : tail.length < 8) :
    decPeerData now (encPeerDataHead p ++ (writeI64 p.lastConnected ++ tail)) = .ok ({ p with lastAttempt := 0 }, []) := by
  rw [decPeerData_head now p h, readTrailing_one now _ h.2.2.2.2.2.2.2.1 tail ht]

/-- … so the decoded value is NOT a function of the bytes alone (two clock readings, two values):
the only reader of the source tree with that property. -/
theorem peerData_short_record_depends_on_clock (p : PeerData) (h : p.WF) (n1 n2 : Int) (hn : n1 ≠ n2) :
    decPeerData n1 (encPeerDataHead p) ≠ decPeerData n2 (encPeerDataHead p) := by
  have h1 := peerData_trailing_fields_optional n1 p h [] (by decide)
  have h2 := peerData_trailing_fields_optional n2 p h [] (by decide)
  rw [List.append_nil] at h1 h2
  rw [h1, h2]
  intro hc
  simp only [Except.ok.injEq, Prod.mk.injEq, and_true] at hc
  exact hn (congrArg PeerData.lastConnected hc)

/-- refusals: an unknown `State` byte, an unknown ban reason, a user agent that is not UTF-8 — each
`CorruptedData`, and only after ALL mandatory fields were read (compared on the `bad-utf8-and-short`
lines of the `db` run: the I/O error comes first) -/
theorem peerData_unknown_state_refused (now : Int) (p : PeerData) (h : p.WF) (fl : Nat) (hfl : PEER_STATE_MAX < fl)
    (tail : Bytes) :
    decPeerData now (encPeerAddr p.addr ++ writeU32 p.capabilities ++ writeBytes p.userAgent ++ writeU8 fl
      ++ writeI64 p.lastBanned ++ writeU32 p.banReason ++ tail) = .error .corrupted := by
  obtain ⟨ha, hn, hc, hs, hf, ⟨hb1, hb2⟩, hr, _, _⟩ := h
  have hc32 := capsWF_lt hc
  have hr32 : p.banReason < 2^32 := by omega
  rw [decPeerData]
  simp only [List.append_assoc]
  rw [decPeerAddr_enc _ ha, andThen_ok, readU32_write _ hc32, andThen_ok,
    readBytesLenPrefix_write _ hs.1, andThen_ok, readU8_write, andThen_ok,
    readI64_write _ hb1 hb2, andThen_ok, readU32_write _ hr32, andThen_ok]
  have hu : validUtf8 p.userAgent = true := hs.2
  have hfl' : fl > PEER_STATE_MAX := hfl
  simp only [hu, Bool.not_true, Bool.false_eq_true, ↓reduceIte, reasonOfI32_some _ hr, hfl']

theorem peerData_unknown_ban_reason_refused (now : Int) (p : PeerData) (h : p.WF) (br : Nat) (h32 : br < 2^32)
    (hbr : 8 ≤ br) (tail : Bytes) :
    decPeerData now (encPeerAddr p.addr ++ writeU32 p.capabilities ++ writeBytes p.userAgent ++ writeU8 p.flags
      ++ writeI64 p.lastBanned ++ writeU32 br ++ tail) = .error .corrupted := by
  obtain ⟨ha, hn, hc, hs, hf, ⟨hb1, hb2⟩, hr, _, _⟩ := h
  have hc32 := capsWF_lt hc
  rw [decPeerData]
  simp only [List.append_assoc]
  rw [decPeerAddr_enc _ ha, andThen_ok, readU32_write _ hc32, andThen_ok,
    readBytesLenPrefix_write _ hs.1, andThen_ok, readU8_write, andThen_ok,
    readI64_write _ hb1 hb2, andThen_ok, readU32_write _ h32, andThen_ok]
  have hu : validUtf8 p.userAgent = true := hs.2
  have hnone : reasonOfI32 (toI32 br) = none := by
    apply reasonOfI32_none
    unfold toI32
    split <;> omega
  simp only [hu, Bool.not_true, Bool.false_eq_true, ↓reduceIte, hnone]

end GV.Props.C10Db
