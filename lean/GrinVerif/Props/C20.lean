import GrinVerif.Lemmas.KeysArith
import GrinVerif.Lemmas.KeysView
import GrinVerif.Lemmas.KeysSeed
/-! # C20 — keys, commitments and range-proof rewind are deterministic and recoverable

Property theorems only. What is proved here is the **logic layer**: blinding-factor arithmetic
mod the group order (exactly as `Secp256k1::blind_sum` / `BlindingFactor::{add,split}` /
`ExtKeychain::blind_sum` compute it, zero special cases included), the `Identifier` ↔ path codec,
the range-proof message logic of both builder generations, and the balance of a built transaction
at the level of openings. Key derivation, Pedersen commitments, Bulletproofs and aggsig are the
opaque contracts `KeyDeriv` / `Crypto` (hypotheses, checked by sampling in the harness); the
theorems `rewind_recovers*` say what the property claims **given** those contracts. -/
namespace GV.Props.C20
open GV GV.Keys

/-! ## blinding-factor arithmetic -/

/-- Blind sums do not depend on operand order: any permutation of the positive and of the
negative operands gives the same result (same key, same error, same panic). -/
theorem sum_perm {pos pos' neg neg' : List Nat} (hp : pos.Perm pos') (hn : neg.Perm neg') :
    secpBlindSum pos neg = secpBlindSum pos' neg' := by
  simp only [secpBlindSum_eq, rawSum_perm hp hn, overflows_perm hp, overflows_perm hn]

/-- … also for `ExtKeychain::blind_sum` with its four operand lists (key ids and explicit factors). -/
theorem kc_sum_perm {pk pk' nk nk' pb pb' nb nb' : List Nat}
    (h1 : pk.Perm pk') (h2 : nk.Perm nk') (h3 : pb.Perm pb') (h4 : nb.Perm nb') :
    kcBlindSum pk nk pb nb = kcBlindSum pk' nk' pb' nb' := by
  unfold kcBlindSum
  exact sum_perm (h1.append (h3.filterMap _)) (h2.append (h4.filterMap _))

/-- A blind sum that succeeds is the mathematical sum Σpos − Σneg mod n, a valid non-zero key. -/
theorem sum_value {pos neg : List Nat} {k : Nat} (h : secpBlindSum pos neg = .ok k) :
    k = (pos.sum + (neg.map sneg).sum) % N ∧ 0 < k ∧ k < N := by
  rw [secpBlindSum_eq] at h
  split at h
  · cases h
  · split at h
    · cases h
    · injection h with h
      subst h
      exact ⟨rfl, by omega, rawSum_lt _ _⟩

/-- Zero special case: the sum is an error exactly when it is 0 mod n (zero is not a valid secret
key), provided every operand is a scalar; it panics exactly when some operand is ≥ n. -/
theorem sum_zero_iff (pos neg : List Nat) (h : overflows pos = false ∧ overflows neg = false) :
    secpBlindSum pos neg = .invalidKey ↔ (pos.sum + (neg.map sneg).sum) % N = 0 := by
  rw [secpBlindSum_eq]
  simp only [h.1, h.2, Bool.or_self, Bool.false_eq_true, if_false]
  show (if rawSum pos neg = 0 then _ else _) = _ ↔ rawSum pos neg = 0
  by_cases hh : rawSum pos neg = 0 <;> simp [hh]

theorem sum_panic_iff (pos neg : List Nat) :
    secpBlindSum pos neg = .panic ↔ (∃ x ∈ pos ++ neg, N ≤ x) := by
  rw [secpBlindSum_eq]
  constructor
  · intro h
    split at h
    · rename_i hov
      simp only [overflows, Bool.or_eq_true, List.any_eq_true, decide_eq_true_eq] at hov
      rcases hov with ⟨x, hx, hn⟩ | ⟨x, hx, hn⟩
      · exact ⟨x, by simp [hx], hn⟩
      · exact ⟨x, by simp [hx], hn⟩
    · split at h <;> cases h
  · rintro ⟨x, hx, hn⟩
    have : (overflows pos || overflows neg) = true := by
      simp only [overflows, Bool.or_eq_true, List.any_eq_true, decide_eq_true_eq]
      rcases List.mem_append.mp hx with h | h
      · exact Or.inl ⟨x, h, hn⟩
      · exact Or.inr ⟨x, h, hn⟩
    rw [if_pos this]

/-- `split`: the two parts are scalars and sum to the whole mod n (`self = blind_1 + blind_2`). -/
theorem split_sum {self b1 b2 : Nat} (h : bfSplit self b1 = .ok b2) :
    self < N ∧ b1 < N ∧ 0 < b2 ∧ b2 < N ∧ (b1 + b2) % N = self := by
  have hN := N_pos
  by_cases hs : self < N
  · by_cases hb : b1 < N
    · rw [bfSplit_eq hs hb] at h
      split at h
      · cases h
      · rename_i hne
        injection h with h
        refine ⟨hs, hb, by omega, by rw [← h]; exact Nat.mod_lt _ hN, ?_⟩
        subst h
        unfold sneg at *; unfold N at *; omega
    · rw [bfSplit_big self b1 (Or.inr (by omega))] at h; cases h
  · rw [bfSplit_big self b1 (Or.inl (by omega))] at h; cases h

/-- … and through the API: adding the parts back with `BlindingFactor::add` returns the whole,
for every non-zero whole. -/
theorem split_add {self b1 b2 : Nat} (h : bfSplit self b1 = .ok b2) (hs : self ≠ 0) :
    bfAdd b1 b2 = .ok self := by
  obtain ⟨h1, h2, h3, h4, h5⟩ := split_sum h
  have hN := N_pos
  rw [bfAdd_eq, nzKey_valid (by omega) h4]
  by_cases hb : b1 = 0
  · subst hb
    rw [Nat.zero_add, Nat.mod_eq_of_lt h4] at h5
    subst h5
    simp [nzKey_zero, secpBlindSum_one h4, hs]
  · simp [nzKey_valid hb h2, secpBlindSum_two h2 h4, h5, hs]

/-- Zero special case of `split`: the zero factor splits into `b` and `−b`; adding them back is
reported as `InvalidSecretKey` (their sum, zero, is not a secret key). -/
theorem split_zero {b1 b2 : Nat} (h : bfSplit 0 b1 = .ok b2) :
    b1 ≠ 0 ∧ b2 = sneg b1 ∧ bfAdd b1 b2 = .invalidKey := by
  obtain ⟨_, h2, h3, h4, h5⟩ := split_sum h
  have hN := N_pos
  have hb : b1 ≠ 0 := by
    intro hb; subst hb
    rw [Nat.zero_add, Nat.mod_eq_of_lt h4] at h5; omega
  refine ⟨hb, ?_, ?_⟩
  · unfold sneg; unfold N at *; omega
  · rw [bfAdd_eq, nzKey_valid (by omega) h4, nzKey_valid hb h2]
    simp [secpBlindSum_two h2 h4, h5]

/-- `split` fails exactly when an operand is not a scalar or the two operands are equal
(then the second part would be zero) — in particular `split(0, 0)` fails. -/
theorem split_fails_iff (self b1 : Nat) :
    bfSplit self b1 = .invalidKey ↔ (N ≤ self ∨ N ≤ b1 ∨ self = b1) := by
  have hN := N_pos
  by_cases hs : self < N
  · by_cases hb : b1 < N
    · rw [bfSplit_eq hs hb]
      have : (self + sneg b1) % N = 0 ↔ self = b1 := by
        unfold sneg; unfold N at *; omega
      by_cases he : self = b1
      · rw [if_pos (this.mpr he)]; simp [he]
      · have hne : ¬ (self + sneg b1) % N = 0 := fun hh => he (this.mp hh)
        simp only [hne, if_false]
        constructor
        · intro hh; cases hh
        · intro hh; omega
    · simp [bfSplit_big self b1 (Or.inr (by omega))]; omega
  · simp [bfSplit_big self b1 (Or.inl (by omega))]; omega

/-- Adding then subtracting restores the original: `(a + b) − b = a` for every non-zero scalar `a`
and every scalar `b` (zero included), whenever the intermediate sum exists. -/
theorem add_sub_cancel {a b c : Nat} (ha : 0 < a ∧ a < N) (hb : b < N) (h : bfAdd a b = .ok c) :
    secpBlindSum [c] [b] = .ok a := by
  have hN := N_pos
  have ha0 : a ≠ 0 := by omega
  rw [bfAdd_eq, nzKey_valid ha0 ha.2] at h
  by_cases hb0 : b = 0
  · subst hb0
    simp [nzKey_zero, secpBlindSum_one ha.2, ha0] at h
    subst h
    rw [secpBlindSum_sub ha.2 hN]
    have : (a + sneg 0) % N = a := by unfold sneg; unfold N at *; omega
    simp [this, ha0]
  · simp only [nzKey_valid hb0 hb, List.cons_append, List.nil_append, List.isEmpty_cons,
      Bool.false_eq_true, if_false, secpBlindSum_two ha.2 hb] at h
    by_cases hz : (a + b) % N = 0
    · rw [if_pos hz] at h; cases h
    rw [if_neg hz] at h
    injection h with hc
    have hcl : c < N := by rw [← hc]; exact Nat.mod_lt _ hN
    rw [secpBlindSum_sub hcl hb]
    have : (c + sneg b) % N = a := by subst hc; unfold sneg; unfold N at *; omega
    simp [this, ha0]

/-- … the intermediate sum fails exactly when `a + b ≡ 0` (then there is nothing to subtract from) -/
theorem add_fails_iff {a b : Nat} (ha : 0 < a ∧ a < N) (hb : 0 < b ∧ b < N) :
    bfAdd a b = .invalidKey ↔ (a + b) % N = 0 := by
  rw [bfAdd_eq, nzKey_valid (by omega) ha.2, nzKey_valid (by omega) hb.2]
  by_cases hh : (a + b) % N = 0 <;> simp [secpBlindSum_two ha.2 hb.2, hh]

/-- Zero special cases of `add`: zero is neutral, `0 + 0 = 0` (no key at all is summed). -/
theorem add_zero_cases (a : Nat) (ha : 0 < a ∧ a < N) :
    bfAdd a 0 = .ok a ∧ bfAdd 0 a = .ok a ∧ bfAdd 0 0 = .ok 0 := by
  have ha0 : a ≠ 0 := by omega
  refine ⟨?_, ?_, ?_⟩ <;>
    simp [bfAdd_eq, nzKey_zero, nzKey_valid ha0 ha.2, secpBlindSum_one ha.2, ha0]

/-- A factor that is not a scalar (≥ n) is silently dropped by `add` (`filter_map(.. .ok())`). -/
theorem add_drops_invalid (a x : Nat) (ha : 0 < a ∧ a < N) (hx : N ≤ x) : bfAdd a x = .ok a := by
  have ha0 : a ≠ 0 := by omega
  simp [bfAdd_eq, nzKey_big hx, nzKey_valid ha0 ha.2, secpBlindSum_one ha.2, ha0]

/-- **Kernel offsets that cancel out** (`committed::blind_sum_or_zero`, repair b04699b48): for
operands that are scalars the sum is the zero factor exactly when the operands cancel mod n, and the
mathematical sum otherwise — never `InvalidSecretKey`. -/
theorem blind_sum_or_zero_value (pos neg : List Nat)
    (h : overflows pos = false ∧ overflows neg = false) :
    blindSumOrZero pos neg = .ok ((pos.sum + (neg.map sneg).sum) % N) := by
  have hN : 1 < N := by unfold N; omega
  have ho : overflows (pos ++ [1]) = false := by
    simp only [overflows, List.any_append, List.any_cons, List.any_nil, Bool.or_false,
      Bool.or_eq_false_iff, decide_eq_false_iff_not] at h ⊢
    exact ⟨h.1, by omega⟩
  unfold blindSumOrZero
  rw [secpBlindSum_eq pos neg, secpBlindSum_eq (pos ++ [1]) neg]
  simp only [h.1, h.2, ho, Bool.or_self, Bool.false_eq_true, if_false]
  show (match (if rawSum pos neg = 0 then SumRes.invalidKey else SumRes.ok (rawSum pos neg)) with
    | .ok k => SumRes.ok k
    | .panic => .panic
    | .invalidKey => match (if rawSum (pos ++ [1]) neg = 0 then SumRes.invalidKey
        else SumRes.ok (rawSum (pos ++ [1]) neg)) with
      | .ok k => if k = 1 then .ok 0 else .invalidKey
      | .panic => .panic
      | .invalidKey => .invalidKey) = .ok (rawSum pos neg)
  by_cases hz : rawSum pos neg = 0
  · have h1 : rawSum (pos ++ [1]) neg = 1 := by
      unfold rawSum at hz ⊢
      rw [List.sum_append]
      simp only [List.sum_cons, List.sum_nil]
      generalize (List.map sneg neg).sum = t at *
      generalize pos.sum = u at *
      unfold N at *
      omega
    simp [hz, h1]
  · simp [hz]

/-- Non-vacuity: concrete scalars near the group order. `(n−1) + 2 = 1`, `split (1) (n−1) = 2`. -/
example : bfAdd (N - 1) 2 = .ok 1 ∧ bfSplit 1 (N - 1) = .ok 2 ∧ bfSplit 5 5 = .invalidKey ∧
    secpBlindSum [N - 1, 1] [] = .invalidKey ∧ secpBlindSum [N] [] = .panic ∧
    secpBlindSum [3, 0] [1, 0] = .ok 2 := by decide

/-! ## `ChildNumber`, `ExtKeychainPath` ↔ `Identifier` -/

/-- `u32 → ChildNumber → u32` is the identity on every u32 (hardened bit included). -/
theorem child_u32_roundtrip (n : Nat) (h : n < 2^32) :
    (ChildNumber.ofU32 n).toU32 = n ∧ (ChildNumber.ofU32 n).WF := ⟨ofU32_toU32 n h, ofU32_WF n h⟩

/-- `ChildNumber → u32 → ChildNumber` is the identity on canonical child numbers. -/
theorem child_roundtrip (c : ChildNumber) (h : c.WF) : ChildNumber.ofU32 c.toU32 = c :=
  toU32_ofU32 c h

/-- `to_path (from_path p)` for every path struct — every `u8` depth, all u32 components: the same
components, the depth **clamped to 4** (`from_identifier`, repair cb1f5b25f); hence `= p` for every
path of depth ≤ 4. -/
theorem path_roundtrip (p : Path) (h : p.WF) :
    p.toIdentifier.toPath = { p with depth := min p.depth 4 } ∧
      (p.depth ≤ 4 → p.toIdentifier.toPath = p) := by
  obtain ⟨hd, h0, h1, h2, h3⟩ := h
  obtain ⟨d, c0, c1, c2, c3⟩ := p
  have e : Ident.toPath (Path.toIdentifier ⟨d, c0, c1, c2, c3⟩) = ⟨min d 4, c0, c1, c2, c3⟩ := by
    simp only [Path.toIdentifier, u32be, List.cons_append, List.nil_append, Ident.toPath]
    rw [readU32_u32be _ (toU32_lt _ h0), readU32_u32be _ (toU32_lt _ h1),
      readU32_u32be _ (toU32_lt _ h2), readU32_u32be _ (toU32_lt _ h3),
      toU32_ofU32 _ h0, toU32_ofU32 _ h1, toU32_ofU32 _ h2, toU32_ofU32 _ h3, Nat.mod_eq_of_lt hd]
  refine ⟨e, ?_⟩
  intro hle
  simp only at hle
  rw [e]
  congr 1; omega

/-- … in terms of the constructor `ExtKeychainPath::new(depth, d0, d1, d2, d3)` on raw integers. -/
theorem path_new_roundtrip (depth d0 d1 d2 d3 : Nat) (hd : depth < 256)
    (h0 : d0 < 2^32) (h1 : d1 < 2^32) (h2 : d2 < 2^32) (h3 : d3 < 2^32) :
    (deriveKeyId depth d0 d1 d2 d3).toPath = Path.new (min depth 4) d0 d1 d2 d3 :=
  (path_roundtrip _ ⟨hd, ofU32_WF _ h0, ofU32_WF _ h1, ofU32_WF _ h2, ofU32_WF _ h3⟩).1

/-- `from_path (to_path id)` for **every** 17-byte identifier: the identifier with its depth byte
clamped to 4 — `id` itself whenever the depth byte is at most 4. -/
theorem ident_roundtrip (id : Ident) (h : IdWF id) :
    id.toPath.toIdentifier = clampId id ∧ (id.depthByte ≤ 4 → id.toPath.toIdentifier = id) := by
  have e : id.toPath.toIdentifier = clampId id := by
    obtain ⟨hl, hb⟩ := h
    obtain ⟨d, a0, a1, a2, a3, b0, b1, b2, b3, e0, e1, e2, e3, f0, f1, f2, f3, rfl⟩ := list17 id hl
    simp only [List.mem_cons, List.not_mem_nil, or_false, forall_eq_or_imp, forall_eq] at hb
    obtain ⟨hd, ha0, ha1, ha2, ha3, hb0, hb1, hb2, hb3, he0, he1, he2, he3, hf0, hf1, hf2, hf3⟩ := hb
    have hm : min d 4 % 256 = min d 4 := by omega
    simp only [Ident.toPath, Path.toIdentifier, clampId, List.headD_cons, List.drop_succ_cons, List.drop_zero]
    rw [ofU32_toU32 _ (readU32_lt _ _ _ _ ha0 ha1 ha2 ha3), ofU32_toU32 _ (readU32_lt _ _ _ _ hb0 hb1 hb2 hb3),
      ofU32_toU32 _ (readU32_lt _ _ _ _ he0 he1 he2 he3), ofU32_toU32 _ (readU32_lt _ _ _ _ hf0 hf1 hf2 hf3),
      u32be_readU32 _ _ _ _ ha0 ha1 ha2 ha3, u32be_readU32 _ _ _ _ hb0 hb1 hb2 hb3,
      u32be_readU32 _ _ _ _ he0 he1 he2 he3, u32be_readU32 _ _ _ _ hf0 hf1 hf2 hf3, hm]
    rfl
  exact ⟨e, fun hd => by rw [e, clampId_of_le id h hd]⟩

/-- the identifier of a path is a well-formed identifier (17 bytes) -/
theorem toIdentifier_WF (p : Path) : IdWF p.toIdentifier := by
  refine ⟨by simp [Path.toIdentifier, u32be], ?_⟩
  intro b hb
  simp only [Path.toIdentifier, u32be, List.cons_append, List.nil_append, List.mem_cons,
    List.not_mem_nil, or_false] at hb
  rcases hb with h | h | h | h | h | h | h | h | h | h | h | h | h | h | h | h | h <;> omega

/-- `from_serialized_path(depth_byte, serialize_path(id)) = id` -/
theorem serialize_roundtrip (id : Ident) (h : IdWF id) :
    Ident.fromSerializedPath (id.headD 0) id.serializePath = some id := by
  obtain ⟨hl, hb⟩ := h
  obtain ⟨d, a0, a1, a2, a3, b0, b1, b2, b3, e0, e1, e2, e3, f0, f1, f2, f3, rfl⟩ := list17 id hl
  have hd : d < 256 := hb d (by simp)
  simp [Ident.fromSerializedPath, Ident.serializePath, Nat.mod_eq_of_lt hd]

/-- `Identifier::from_bytes` always yields a 17-byte identifier and is the identity on one. -/
theorem fromBytes_spec (b : Bytes) :
    (Ident.fromBytes b).length = 17 ∧ (b.length = 17 → Ident.fromBytes b = b) := by
  refine ⟨by simp [Ident.fromBytes, fit], ?_⟩
  intro h
  simp [Ident.fromBytes, fit, h]

/-- **Every 17-byte identifier is usable** (repair cb1f5b25f of the recorded finding
C20-depth-gt4-panic): `to_path` never returns a depth above 4, so `derive_key`'s path walk,
`parent_path`, `last_path_index` and `to_bip_32_string` never index out of the 4-array — whatever
the depth byte (0..255). -/
theorem identifier_ops_total (id : Ident) :
    id.toPath.depth ≤ 4 ∧ id.toPath.prefix? ≠ none ∧ id.parentPath ≠ none ∧
    id.toPath.lastPathIndex ≠ none ∧ id.bip32 ≠ none := by
  have hd := toPath_depth_le4 id
  refine ⟨hd, ?_, ?_, ?_, ?_⟩
  · simp [Path.prefix?, hd]
  · simp only [Ident.parentPath]
    split
    · rw [if_pos (by omega)]; simp
    · simp
  · simp only [Path.lastPathIndex]
    split
    · simp
    · rename_i hne
      generalize hdp : id.toPath.depth = dp at *
      match dp, hne, hd with
      | 1, _, _ => simp [Path.get?]
      | 2, _, _ => simp [Path.get?]
      | 3, _, _ => simp [Path.get?]
      | 4, _, _ => simp [Path.get?]
  · simp [Ident.bip32, Path.prefix?, hd]

/-- The panic that still exists: the `depth` field of the path *struct* is public, and a struct with
depth above 4 (`ExtKeychainPath::new(5, ..)` used directly, not obtained from an identifier) still
makes `last_path_index` and the path walk index out of bounds. -/
theorem path_struct_depth_gt4_panics (p : Path) (h : 4 < p.depth) :
    p.lastPathIndex = none ∧ p.prefix? = none := by
  constructor
  · simp only [Path.lastPathIndex]
    rw [if_neg (by omega)]
    generalize hdp : p.depth = dp at *
    match dp, h with
    | n + 5, _ => simp [Path.get?]
  · simp only [Path.prefix?]; rw [if_neg (by omega)]

/-- **derive_key / commit are total on all identifiers** and read the depth byte only through
`min(·, 4)`: they never panic, and for a depth byte above 4 the result is the one for the same four
components with depth 4 (`clampId id`). -/
theorem derive_total {K : Type} (kd : KeyDeriv K) (amount : Nat) (id : Ident) (sw : Switch)
    (h : IdWF id) :
    (∀ r, deriveKey kd amount id sw = r → r = .panic → False) ∧
    deriveKey kd amount id sw = deriveKey kd amount (clampId id) sw ∧
    commit kd amount id sw = commit kd amount (clampId id) sw := by
  have hp : id.toPath.prefix? = some id.words := prefix?_eq_words id (toPath_depth_le4 id)
  have hc : deriveKey kd amount id sw = deriveKey kd amount (clampId id) sw := by
    simp only [deriveKey, toPath_clampId id h]
  refine ⟨?_, hc, by simp only [commit, hc]⟩
  intro r hr hpan
  subst hr
  simp only [deriveKey, hp] at hpan
  split at hpan
  · cases hpan
  · cases sw <;> cases hpan

/-! ## range-proof messages -/

/-- What `ProofBuilder::check_output` reads back from `ProofBuilder::proof_message(id, switch)`:
the same switch, the same 16 path bytes, and the depth byte **clamped to 4** (`u8::min(msg[3], 4)`). -/
theorem parse_message (id : Ident) (sw : Switch) (h : IdWF id) :
    parseMessage (proofMessage id sw) = some (min (id.headD 0) 4 :: id.drop 1, sw) := by
  obtain ⟨hl, hb⟩ := h
  obtain ⟨d, a0, a1, a2, a3, b0, b1, b2, b3, e0, e1, e2, e3, f0, f1, f2, f3, rfl⟩ := list17 id hl
  have hd : min d 4 % 256 = min d 4 := by omega
  simp [parseMessage, proofMessage, switch_roundtrip, Ident.fromSerializedPath, hd]

/-- byte-level round trip of the message for depth ≤ 4 -/
theorem parse_roundtrip (id : Ident) (sw : Switch) (h : IdWF id) (hd : id.depthByte ≤ 4) :
    parseMessage (proofMessage id sw) = some (id, sw) := by
  have hp := parse_message id sw h
  obtain ⟨hl, _⟩ := h
  obtain ⟨d, a0, a1, a2, a3, b0, b1, b2, b3, e0, e1, e2, e3, f0, f1, f2, f3, rfl⟩ := list17 id hl
  simp only [Ident.depthByte, List.headD_cons] at hd
  have : min d 4 = d := by omega
  simpa only [List.headD_cons, List.drop_succ_cons, List.drop_zero, this] using hp

/-- **View key** (root, depth 0): it reads the same message and recovers `(id, None)` for every
identifier of depth ≤ 4 whose used components are not hardened, for every non-zero amount — and
that is all it can do in the code as it is: a `Regular` output or a zero amount gives `Err`
(`ViewKey::commit`), a hardened component gives `None`. -/
theorem view_message_roundtrip (vkChild : ChildNumber) (pubMatches : Ident → Switch → Bool)
    (amount : Nat) (id : Ident) (sw : Switch) (h : IdWF id) (hd : id.depthByte ≤ 4) :
    viewCheckOutput 0 vkChild pubMatches amount (proofMessage id sw) =
      if (id.toPath.comps.take id.toPath.depth).any ChildNumber.isHardened then .none
      else if amount = 0 then .err
      else match sw with
        | .regular => .err
        | .none => if pubMatches id .none then .some id .none else .none := by
  simp only [viewCheckOutput, parse_roundtrip id sw h hd, Nat.not_lt_zero, if_false,
    Nat.lt_irrefl, Bool.false_and, List.drop_zero, gt_iff_lt, decide_false, Bool.false_eq_true]
  split
  · rfl
  · split
    · rfl
    · cases sw <;> rfl

/-- **message_roundtrip (ProofBuilder), every 17-byte identifier**: `check_output` on the commitment
made for `(amount, id, switch)` and the message `proof_message(id, switch)` returns the switch and
the identifier **with its depth byte clamped to 4** — exactly `(id, switch)` whenever the depth byte
is at most 4.  `commitOf` is any `keychain.commit` that, like the real one, reads the depth byte
only through `to_path` (`hcl`; `derive_total` for the model's `commit`). -/
theorem message_roundtrip_all (commitOf : Nat → Ident → Switch → Res Opening) (amount : Nat) (id : Ident)
    (sw : Switch) (c : Opening) (h : IdWF id)
    (hcl : commitOf amount (clampId id) sw = commitOf amount id sw)
    (hc : commitOf amount id sw = .ok c) :
    checkOutput commitOf c amount (proofMessage id sw) = .some (clampId id) sw := by
  simp [checkOutput, parseMessage_proofMessage_clamp id sw h, hcl, hc]

/-- **message_roundtrip (ProofBuilder)**: for every identifier with depth byte ≤ 4 — all u32
components — and both switch modes, `check_output` returns exactly `(id, switch)`. -/
theorem message_roundtrip (commitOf : Nat → Ident → Switch → Res Opening) (amount : Nat) (id : Ident)
    (sw : Switch) (c : Opening) (h : IdWF id) (hd : id.depthByte ≤ 4)
    (hc : commitOf amount id sw = .ok c) :
    checkOutput commitOf c amount (proofMessage id sw) = .some id sw := by
  have e := clampId_of_le id h hd
  have := message_roundtrip_all commitOf amount id sw c h (by rw [e]) hc
  rw [e] at this; exact this

/-- Depth bytes > 4 do **not** round-trip through the message: what comes back is the identifier
with depth byte 4 — a different 17-byte value that names the **same** key (`derive_total`). -/
theorem message_depth_gt4 (id : Ident) (sw : Switch) (h : IdWF id) (hd : 4 < id.depthByte) :
    parseMessage (proofMessage id sw) = some (clampId id, sw) ∧ clampId id ≠ id ∧
      (clampId id).depthByte = 4 ∧ (clampId id).toPath = id.toPath := by
  refine ⟨parseMessage_proofMessage_clamp id sw h, ?_, ?_, toPath_clampId id h⟩
  · obtain ⟨hl, _⟩ := h
    obtain ⟨d, a0, a1, a2, a3, b0, b1, b2, b3, e0, e1, e2, e3, f0, f1, f2, f3, rfl⟩ := list17 id hl
    simp only [Ident.depthByte, List.headD_cons] at hd
    simp only [clampId, List.headD_cons, List.drop_succ_cons, List.drop_zero]
    intro he
    injection he with he _
    omega
  · simp only [Ident.depthByte] at hd
    simp only [clampId, Ident.depthByte, List.headD_cons]; omega

/-- A message whose reserved / wallet-type bytes are not zero, whose switch byte is not 0 or 1, or
whose length is not 20 is never accepted. -/
theorem message_rejects (commitOf : Nat → Ident → Switch → Res Opening) (c : Opening) (amount : Nat)
    (msg : Bytes)
    (h : msg.length ≠ 20 ∨ msg.take 2 ≠ [0, 0] ∨ Switch.ofU8 (msg.getD 2 0) = none) :
    checkOutput commitOf c amount msg = .none := by
  have : parseMessage msg = none := by
    unfold parseMessage
    rcases h with h | h | h
    · simp [h]
    · by_cases hl : msg.length ≠ 20
      · simp [hl]
      · simp [hl, h]
    · by_cases hl : msg.length ≠ 20
      · simp [hl]
      · by_cases ht : msg.take 2 ≠ [0, 0]
        · simp [hl, ht]
        · rw [if_neg hl, if_neg ht, h]
  simp [checkOutput, this]

/-- What `LegacyProofBuilder::check_output` reads back from `LegacyProofBuilder::proof_message`:
the 16 path bytes with depth **forced to 3** and the switch **forced to Regular**, whatever the
identifier's depth and the switch mode were. -/
theorem legacy_parse_message (id : Ident) (sw : Switch) (h : IdWF id) :
    legacyParseMessage (legacyProofMessage id sw) = some (3 :: id.drop 1, .regular) := by
  obtain ⟨hl, hb⟩ := h
  obtain ⟨d, a0, a1, a2, a3, b0, b1, b2, b3, e0, e1, e2, e3, f0, f1, f2, f3, rfl⟩ := list17 id hl
  simp [legacyParseMessage, legacyProofMessage, Ident.serializePath, Ident.fromSerializedPath]

/-- **message_roundtrip (LegacyProofBuilder)**: exact for identifiers of depth 3 under `Regular`. -/
theorem legacy_message_roundtrip (commitOf : Nat → Ident → Switch → Res Opening) (amount : Nat)
    (id : Ident) (c : Opening) (h : IdWF id) (hd : id.depthByte = 3)
    (hc : commitOf amount id .regular = .ok c) :
    legacyCheckOutput commitOf c amount (legacyProofMessage id .regular) = .some id .regular := by
  have hp := legacy_parse_message id .regular h
  obtain ⟨hl, _⟩ := h
  obtain ⟨d, a0, a1, a2, a3, b0, b1, b2, b3, e0, e1, e2, e3, f0, f1, f2, f3, rfl⟩ := list17 id hl
  simp only [Ident.depthByte, List.headD_cons] at hd
  subst hd
  simp only [List.drop_succ_cons, List.drop_zero] at hp
  simp [legacyCheckOutput, hp, hc]

/-- … and for any other depth or for switch `None` the legacy builder cannot return the original:
whatever it returns has depth byte 3 and switch Regular. -/
theorem legacy_recovers_only_depth3_regular (commitOf : Nat → Ident → Switch → Res Opening)
    (amount : Nat) (id id' : Ident) (sw sw' : Switch) (c : Opening) (h : IdWF id)
    (hr : legacyCheckOutput commitOf c amount (legacyProofMessage id sw) = .some id' sw') :
    id' = 3 :: id.drop 1 ∧ sw' = .regular ∧
      ((id', sw') = (id, sw) → id.depthByte = 3 ∧ sw = .regular) := by
  have hp := legacy_parse_message id sw h
  simp only [legacyCheckOutput, hp] at hr
  split at hr
  · split at hr
    · injection hr with h1 h2
      subst h1; subst h2
      refine ⟨rfl, rfl, ?_⟩
      intro he
      injection he with he1 he2
      obtain ⟨hl, _⟩ := h
      obtain ⟨d, a0, a1, a2, a3, b0, b1, b2, b3, e0, e1, e2, e3, f0, f1, f2, f3, rfl⟩ := list17 id hl
      simp only [List.drop_succ_cons, List.drop_zero] at he1
      injection he1 with hd _
      exact ⟨by simp [Ident.depthByte, ← hd], he2.symm⟩
    · cases hr
  · cases hr
  · cases hr

/-- Non-vacuity: a depth-4 identifier with hardened / maximal components round-trips through the
path, the serialized path and the message under both switch modes; a depth-5 identifier does not
round-trip through the message (it comes back with depth 4). -/
example :
    let id := deriveKeyId 4 (2^32 - 1) (2^31) (2^31 - 1) 1
    IdWF id ∧ id.toPath.depth ≤ 4 ∧ id.toPath.toIdentifier = id ∧
    parseMessage (proofMessage id .none) = some (id, .none) ∧
    parseMessage (proofMessage id .regular) = some (id, .regular) ∧
    legacyParseMessage (legacyProofMessage id .regular) = some (deriveKeyId 3 (2^32 - 1) (2^31) (2^31 - 1) 1, .regular) ∧
    parseMessage (proofMessage (deriveKeyId 5 1 2 3 4) .regular) = some (deriveKeyId 4 1 2 3 4, .regular) := by
  refine ⟨toIdentifier_WF _, ?_, ?_, ?_, ?_, ?_, ?_⟩ <;> decide

/-! ## create / rewind, given the opaque contracts -/

theorem commit_ok {K : Type} {kd : KeyDeriv K} {amount : Nat} {id : Ident} {sw : Switch} {c : Opening}
    (h : commit kd amount id sw = .ok c) : c.value = amount := by
  unfold commit at h
  split at h
  · injection h with h; subst h; rfl
  · cases h
  · cases h

/-- Key derivation and commitment are functions of (seed, amount, identifier, switch): the model
has no other input, so two evaluations agree. (That the *real* code is such a function is sampled.) -/
theorem derive_deterministic {K : Type} (kd : KeyDeriv K) (amount : Nat) (id : Ident) (sw : Switch) :
    ∀ r r', deriveKey kd amount id sw = r → deriveKey kd amount id sw = r' → r = r' := by
  intro r r' h h'; rw [← h, ← h']

/-- **rewind_recovers (ProofBuilder), every 17-byte identifier**: given the contracts of `Crypto`,
the proof created for an output `(amount, id, switch)` — whatever the depth byte of `id` — verifies,
and rewinding it with the same builder returns exactly the amount and the switch mode and the
identifier **with its depth byte clamped to 4** (`proof_message` copies the raw depth byte,
`check_output` applies `min(·, 4)`): for a depth byte 5..255 the recovered identifier differs from
the one used at creation in that byte only and names the same key. -/
theorem rewind_recovers_all {K P : Type} (kd : KeyDeriv K) (cr : Crypto P) (rn pn : Opening → Nat)
    (amount : Nat) (id : Ident) (sw : Switch) (c : Opening) (proof : P)
    (hid : IdWF id) (ha : amount < 2^64)
    (hc : commit kd amount id sw = .ok c)
    (hp : proofCreate kd cr (newBuilder kd rn pn) amount id sw = .ok proof) :
    cr.verify c proof = true ∧
    proofRewind cr (newBuilder kd rn pn) c proof = .some amount (clampId id) sw := by
  have hv := commit_ok hc
  simp only [proofCreate, hc, newBuilder] at hp
  injection hp with hp
  subst hp
  obtain ⟨v, k⟩ := c
  simp only at hv
  subst hv
  have hlen : (proofMessage id sw).length = 20 := by
    obtain ⟨hl, _⟩ := hid
    simp [proofMessage, hl]
  refine ⟨cr.verify_honest _ _ _ _ _ ha, ?_⟩
  simp only [proofRewind, newBuilder, cr.rewind_same _ _ _ _ _ ha hlen,
    message_roundtrip_all (commit kd) v id sw ⟨v, k⟩ hid ((derive_total kd v id sw hid).2.2).symm hc]

/-- **rewind_recovers (ProofBuilder)**: for an output whose identifier has depth byte ≤ 4, rewinding
returns exactly the amount, the identifier and the switch mode — for every amount in the u64 range
and both modes. -/
theorem rewind_recovers {K P : Type} (kd : KeyDeriv K) (cr : Crypto P) (rn pn : Opening → Nat)
    (amount : Nat) (id : Ident) (sw : Switch) (c : Opening) (proof : P)
    (hid : IdWF id) (hd : id.depthByte ≤ 4) (ha : amount < 2^64)
    (hc : commit kd amount id sw = .ok c)
    (hp : proofCreate kd cr (newBuilder kd rn pn) amount id sw = .ok proof) :
    cr.verify c proof = true ∧
    proofRewind cr (newBuilder kd rn pn) c proof = .some amount id sw := by
  have := rewind_recovers_all kd cr rn pn amount id sw c proof hid ha hc hp
  rw [clampId_of_le id hid hd] at this
  exact this

/-- **rewind_recovers (LegacyProofBuilder)**: the same for outputs of depth 3 under `Regular`. -/
theorem legacy_rewind_recovers {K P : Type} (kd : KeyDeriv K) (cr : Crypto P) (rn : Opening → Nat)
    (amount : Nat) (id : Ident) (c : Opening) (proof : P)
    (hid : IdWF id) (hd : id.depthByte = 3) (ha : amount < 2^64)
    (hc : commit kd amount id .regular = .ok c)
    (hp : proofCreate kd cr (legacyBuilder kd rn) amount id .regular = .ok proof) :
    cr.verify c proof = true ∧
    proofRewind cr (legacyBuilder kd rn) c proof = .some amount id .regular := by
  have hv := commit_ok hc
  simp only [proofCreate, hc, legacyBuilder] at hp
  injection hp with hp
  subst hp
  obtain ⟨v, k⟩ := c
  simp only at hv
  subst hv
  have hlen : (legacyProofMessage id .regular).length = 20 := by
    obtain ⟨hl, _⟩ := hid
    simp [legacyProofMessage, Ident.serializePath, hl]
  refine ⟨cr.verify_honest _ _ _ _ _ ha, ?_⟩
  simp only [proofRewind, legacyBuilder, cr.rewind_same _ _ _ _ _ ha hlen,
    legacy_message_roundtrip (commit kd) v id ⟨v, k⟩ hid hd hc]

/-- **rewind with another seed recovers nothing**: any builder whose rewind nonce for this
commitment differs (another seed hashes to another nonce — hash assumption) gets `None`. -/
theorem rewind_other_seed {K P : Type} (kd : KeyDeriv K) (cr : Crypto P) (b b' : Builder)
    (amount : Nat) (id : Ident) (sw : Switch) (c : Opening) (proof : P)
    (hc : commit kd amount id sw = .ok c)
    (hp : proofCreate kd cr b amount id sw = .ok proof)
    (hn : b'.rewindNonce c ≠ b.rewindNonce c) :
    proofRewind cr b' c proof = .none := by
  have hv := commit_ok hc
  simp only [proofCreate, hc] at hp
  injection hp with hp
  subst hp
  obtain ⟨v, k⟩ := c
  simp only at hv
  subst hv
  simp only [proofRewind, cr.rewind_other _ _ _ _ _ _ hn]

/-- Non-vacuity of `rewind_recovers`: the free keychain, depth 4, hardened and maximal components,
amount 2^64−1, switch None; and of the legacy statement at depth 3. -/
example :
    let id := deriveKeyId 4 0 (2^31) (2^32 - 1) 7
    IdWF id ∧ id.toPath.depth ≤ 4 ∧
    (∃ c proof, commit freeKD (2^64 - 1) id .none = .ok c ∧
      proofCreate freeKD toyCrypto (newBuilder freeKD (fun _ => 11) (fun _ => 12)) (2^64 - 1) id .none = .ok proof ∧
      proofRewind toyCrypto (newBuilder freeKD (fun _ => 11) (fun _ => 12)) c proof = .some (2^64 - 1) id .none ∧
      proofRewind toyCrypto (newBuilder freeKD (fun _ => 99) (fun _ => 12)) c proof = .none) := by
  refine ⟨toIdentifier_WF _, by decide, _, _, rfl, rfl, by decide, by decide⟩

/-! ## view keys of (hardened) accounts: the path algebra -/

/-- non-vacuity of `DeriveInj` (collision-freedom of the key derivation): the term model, in which
the key at a path is the path itself, satisfies it -/
example : DeriveInj termKD := termKD_inj

/-- **view_key_covers_iff.** Take any keychain whose derivation is collision-free, the view key made
from its private key at `m/vk` (any depth, hardened words allowed: `ViewKey::create(keychain,
master.derive_priv(vk), ..)`), and an output `(amount ≠ 0, id, SwitchCommitmentType::None)` of that
keychain with `depth(id) ≤ 4`. `check_output` of the view key on the output's own message returns
exactly `(id, None)` **iff** the view key covers `id`: `depth(id) ≥ d`, the first `d` words of `id`
are `vk`, and the words `d..depth` are all normal (< 2^31). Otherwise — a hardened step below the
view key, another account, a shorter path — it returns something else (never a wrong identifier:
`view_check_exact`). -/
theorem view_key_covers_iff {K : Type} (kd : KeyDeriv K) (hinj : DeriveInj kd) (vk : List ChildNumber)
    (amount : Nat) (id : Ident) (c : Opening) (hid : IdWF id) (hraw : id.depthByte ≤ 4)
    (ha : amount ≠ 0) (hc : commit kd amount id .none = .ok c) :
    viewCheckAt kd vk c amount (proofMessage id .none) = .some id .none ↔ viewCovers vk id = true := by
  have hd := toPath_depth_le4 id
  rw [viewCheckAt_honest_none kd vk c amount id hid hraw, viewCovers_iff]
  constructor
  · intro h
    split at h
    · cases h
    · rename_i h1
      split at h
      · cases h
      · split at h
        · cases h
        · rename_i h3
          split at h
          · rename_i h4
            exact ⟨hd, by omega, covers_of_pubMatches kd hinj vk amount id c hd hc h4, by simpa using h3⟩
          · cases h
  · rintro ⟨_, h1, h2, h3⟩
    rw [if_neg (by omega)]
    have hch : (decide (vk.length > 0) && decide (id.toPath.depth > 0) &&
        (id.toPath.get? (vk.length - 1) != some (vkChildNumber vk))) = false := by
      by_cases h0 : 0 < vk.length
      · rw [covers_child vk id hd h1 h0 h2]; simp
      · simp [h0]
    rw [hch, h3, if_neg ha, pubMatches_of_covers kd vk amount id c hd hc h2]
    simp

/-- Exactness of the view key's `check_output` on an honest message, for **every** amount and both
switch modes: whatever it returns, it is never a wrong identifier or mode — a `Some` result is
`(id, None)`, the amount is not 0, and the view key covers `id`. (`Regular` and amount 0 give `Err`:
recorded finding C20-view-key-limits.) -/
theorem view_check_exact {K : Type} (kd : KeyDeriv K) (hinj : DeriveInj kd) (vk : List ChildNumber)
    (amount : Nat) (id id' : Ident) (sw sw' : Switch) (c : Opening) (hid : IdWF id)
    (hraw : id.depthByte ≤ 4) (hc : commit kd amount id sw = .ok c)
    (h : viewCheckAt kd vk c amount (proofMessage id sw) = .some id' sw') :
    id' = id ∧ sw' = .none ∧ sw = .none ∧ amount ≠ 0 ∧ viewCovers vk id = true := by
  have h0 := h
  rw [viewCheckAt_honest kd vk c amount id sw hid hraw] at h
  split at h
  · cases h
  · split at h
    · cases h
    · split at h
      · cases h
      · split at h
        · cases h
        · rename_i ha
          cases sw with
          | regular => cases h
          | none =>
            simp only at h
            split at h
            · injection h with h1 h2
              subst h1; subst h2
              exact ⟨rfl, rfl, rfl, ha, (view_key_covers_iff kd hinj vk amount id c hid hraw ha hc).mp h0⟩
            · cases h

/-- **rewind_with_view_key_exact.** Given the contracts of `Crypto`: the proof created by
`ProofBuilder` for an output `(0 < amount < 2^64, id of depth ≤ 4, None)` is rewound by the view key
made from the private key at `m/vk` of the same keychain to exactly `(amount, id, None)` when the
view key covers `id`, and to `None` (nothing) when it does not — whatever the depth of the view
key and whether its words are hardened. -/
theorem rewind_with_view_key_exact {K P : Type} (kd : KeyDeriv K) (hinj : DeriveInj kd) (cr : Crypto P)
    (rn pn : Opening → Nat) (vk : List ChildNumber) (amount : Nat) (id : Ident) (c : Opening) (proof : P)
    (hid : IdWF id) (hd : id.depthByte ≤ 4) (ha : amount < 2^64) (ha0 : amount ≠ 0)
    (hc : commit kd amount id .none = .ok c)
    (hp : proofCreate kd cr (newBuilder kd rn pn) amount id .none = .ok proof) :
    proofRewind cr (viewBuilder kd vk rn) c proof =
      if viewCovers vk id = true then .some amount id .none else .none := by
  have hv := commit_ok hc
  simp only [proofCreate, hc, newBuilder] at hp
  injection hp with hp
  subst hp
  obtain ⟨v, k⟩ := c
  simp only at hv
  subst hv
  have hlen : (proofMessage id .none).length = 20 := by
    obtain ⟨hl, _⟩ := hid
    simp [proofMessage, hl]
  simp only [proofRewind, viewBuilder, cr.rewind_same _ _ _ _ _ ha hlen]
  have hiff := view_key_covers_iff kd hinj vk v id ⟨v, k⟩ hid hd ha0 hc
  by_cases hcov : viewCovers vk id = true
  · rw [if_pos hcov, hiff.mpr hcov]
  · rw [if_neg hcov]
    cases hr : viewCheckAt kd vk ⟨v, k⟩ v (proofMessage id .none) with
    | none => rfl
    | some id' sw' =>
      obtain ⟨h1, h2, _, _, h5⟩ := view_check_exact kd hinj vk v id id' .none sw' ⟨v, k⟩ hid hd hc hr
      exact absurd h5 hcov
    | err =>
      exfalso
      rw [viewCheckAt_honest kd vk ⟨v, k⟩ v id .none hid hd] at hr
      simp only [ha0, if_false] at hr
      repeat' split at hr
      all_goals cases hr
    | panic =>
      exfalso
      rw [viewCheckAt_honest kd vk ⟨v, k⟩ v id .none hid hd] at hr
      simp only [ha0, if_false] at hr
      repeat' split at hr
      all_goals cases hr

/-- the view key's `check_output` never looks at a depth byte above 4 either -/
theorem view_check_msg_clamp {K : Type} (kd : KeyDeriv K) (vk : List ChildNumber) (c : Opening)
    (amount : Nat) (id : Ident) (sw : Switch) (hid : IdWF id) :
    viewCheckAt kd vk c amount (proofMessage id sw) =
      viewCheckAt kd vk c amount (proofMessage (clampId id) sw) := by
  have e : clampId (clampId id) = clampId id :=
    clampId_of_le _ (clampId_WF id hid) (clampId_depthByte id)
  simp only [viewCheckAt, viewCheckOutput, parseMessage_proofMessage_clamp id sw hid,
    parseMessage_proofMessage_clamp (clampId id) sw (clampId_WF id hid), e]

/-- **rewind_with_view_key_all** (every 17-byte identifier): as `rewind_with_view_key_exact`, with
the identifier coming back with its depth byte clamped to 4; which identifiers a view key covers
does not depend on the depth byte beyond 4 either. -/
theorem rewind_with_view_key_all {K P : Type} (kd : KeyDeriv K) (hinj : DeriveInj kd) (cr : Crypto P)
    (rn pn : Opening → Nat) (vk : List ChildNumber) (amount : Nat) (id : Ident) (c : Opening) (proof : P)
    (hid : IdWF id) (ha : amount < 2^64) (ha0 : amount ≠ 0)
    (hc : commit kd amount id .none = .ok c)
    (hp : proofCreate kd cr (newBuilder kd rn pn) amount id .none = .ok proof) :
    proofRewind cr (viewBuilder kd vk rn) c proof =
      (if viewCovers vk id = true then .some amount (clampId id) .none else .none) ∧
    viewCovers vk (clampId id) = viewCovers vk id := by
  have hcovEq : viewCovers vk (clampId id) = viewCovers vk id := by
    simp only [viewCovers, Ident.words, toPath_clampId id hid]
  refine ⟨?_, hcovEq⟩
  have hv := commit_ok hc
  have hc4 : commit kd amount (clampId id) .none = .ok c := by
    rw [← (derive_total kd amount id .none hid).2.2]; exact hc
  -- the proof a ProofBuilder would create for the clamped identifier is rewound the same way
  simp only [proofCreate, hc, newBuilder] at hp
  injection hp with hp
  subst hp
  obtain ⟨v, k⟩ := c
  simp only at hv
  subst hv
  have hlen : (proofMessage id .none).length = 20 := by
    obtain ⟨hl, _⟩ := hid
    simp [proofMessage, hl]
  simp only [proofRewind, viewBuilder, cr.rewind_same _ _ _ _ _ ha hlen,
    view_check_msg_clamp kd vk ⟨v, k⟩ v id .none hid]
  have hid4 := clampId_WF id hid
  have hd4 := clampId_depthByte id
  have hiff := view_key_covers_iff kd hinj vk v (clampId id) ⟨v, k⟩ hid4 hd4 ha0 hc4
  rw [← hcovEq]
  by_cases hcov : viewCovers vk (clampId id) = true
  · rw [if_pos hcov, hiff.mpr hcov]
  · rw [if_neg hcov]
    cases hr : viewCheckAt kd vk ⟨v, k⟩ v (proofMessage (clampId id) .none) with
    | none => rfl
    | some id' sw' =>
      obtain ⟨h1, h2, _, _, h5⟩ := view_check_exact kd hinj vk v (clampId id) id' .none sw' ⟨v, k⟩ hid4 hd4 hc4 hr
      exact absurd h5 hcov
    | err =>
      exfalso
      rw [viewCheckAt_honest kd vk ⟨v, k⟩ v (clampId id) .none hid4 hd4] at hr
      simp only [ha0, if_false] at hr
      repeat' split at hr
      all_goals cases hr
    | panic =>
      exfalso
      rw [viewCheckAt_honest kd vk ⟨v, k⟩ v (clampId id) .none hid4 hd4] at hr
      simp only [ha0, if_false] at hr
      repeat' split at hr
      all_goals cases hr

/-- Non-vacuity of the `…_all` statements (kernel-evaluated, term keychain, toy crypto): an output
created for the identifier with depth byte 200 and words (1, 2, 3, 4) is rewound by its
`ProofBuilder` and by the root view key to the identifier with depth byte 4 — the key and the
commitment are those of `m/1/2/3/4`. -/
example :
    let id := deriveKeyId 200 1 2 3 4
    let id4 := deriveKeyId 4 1 2 3 4
    IdWF id ∧ clampId id = id4 ∧ id ≠ id4 ∧
    (∃ c p, commit termKD 9 id .none = .ok c ∧ commit termKD 9 id4 .none = .ok c ∧
      proofCreate termKD toyCrypto (newBuilder termKD (fun _ => 11) (fun _ => 12)) 9 id .none = .ok p ∧
      proofRewind toyCrypto (newBuilder termKD (fun _ => 11) (fun _ => 12)) c p = .some 9 id4 .none ∧
      proofRewind toyCrypto (viewBuilder termKD [] (fun _ => 11)) c p = .some 9 id4 .none) :=
  ⟨toIdentifier_WF _, by decide, by decide, _, _, rfl, rfl, rfl, by decide +kernel, by decide +kernel⟩

/-- Non-vacuity (kernel-evaluated on the collision-free term keychain): the view key of the hardened
account `m/0'` rewinds the outputs at `m/0'/5/9`, `m/0'/5`, `m/0'/1/2/3` and at `m/0'` itself to
exactly (amount, full path, None), amount `2^64-1` included; it does not rewind `m/0'/5'/9` (hardened
step below the view key), `m/1'/5/9` (another account), `m/0/5/9` (the normal account 0) or the
root; the view key at depth 2 `m/7/0'` covers `m/7/0'/3` but not `m/8/0'/3`, which shares its
`child_number` and differs only in an earlier word. -/
example :
    toyViewRewind [.hardened 0] (2^64 - 1) (deriveKeyId 3 (2^31) 5 9 77) =
      .some (2^64 - 1) (deriveKeyId 3 (2^31) 5 9 77) .none ∧
    toyViewRewind [.hardened 0] 1 (deriveKeyId 2 (2^31) 5 0 0) = .some 1 (deriveKeyId 2 (2^31) 5 0 0) .none ∧
    toyViewRewind [.hardened 0] 7 (deriveKeyId 4 (2^31) 1 2 3) = .some 7 (deriveKeyId 4 (2^31) 1 2 3) .none ∧
    toyViewRewind [.hardened 0] 7 (deriveKeyId 1 (2^31) 0 0 0) = .some 7 (deriveKeyId 1 (2^31) 0 0 0) .none ∧
    toyViewRewind [.hardened 0] 7 (deriveKeyId 3 (2^31) (2^31 + 5) 9 0) = .none ∧
    toyViewRewind [.hardened 0] 7 (deriveKeyId 3 (2^31 + 1) 5 9 0) = .none ∧
    toyViewRewind [.hardened 0] 7 (deriveKeyId 3 0 5 9 0) = .none ∧
    toyViewRewind [.hardened 0] 7 (deriveKeyId 0 0 0 0 0) = .none ∧
    toyViewRewind [.normal 7, .hardened 0] 7 (deriveKeyId 3 7 (2^31) 3 0) =
      .some 7 (deriveKeyId 3 7 (2^31) 3 0) .none ∧
    toyViewRewind [.normal 7, .hardened 0] 7 (deriveKeyId 3 8 (2^31) 3 0) = .none ∧
    viewCovers [.hardened 0] (deriveKeyId 3 (2^31) 5 9 77) = true ∧
    viewCovers [.hardened 0] (deriveKeyId 3 (2^31) (2^31 + 5) 9 0) = false := by
  refine ⟨?_, ?_, ?_, ?_, ?_, ?_, ?_, ?_, ?_, ?_, ?_, ?_⟩ <;> decide +kernel

/-! ## seeds of any length: another seed recovers nothing

`SeedDeriv`: the master key is a function of the **whole** seed (`masterOf`, the abstract
HMAC-SHA512 of `new_master`), seeds are byte strings of any length.  The three collision-freedom
hypotheses (`SeedInj`, `SwitchInj`, `NonceInj`) are what HMAC-SHA512 / `blind_switch` / blake2b are
trusted to give; the term instance `termSD` satisfies all of them.  That the *real* `from_seed`
reads the whole seed for every length (16 … 255 bytes, common prefixes up to 95 bytes, one seed a
strict prefix of the other) is established by the `seeds` correspondence run, not here. -/

-- non-vacuity of the hypotheses: the term model satisfies all three
example : SeedInj termSD ∧ SwitchInj termSD ∧ NonceInj termSD :=
  ⟨termSD_seedInj, termSD_switchInj, termSD_nonceInj⟩

/-- **different_seeds_different_master.**  Two different seeds — of any lengths, equal or not, one
possibly a prefix of the other, differing in any single byte — give different master secret keys,
and then different commitments for the same (amount, identifier, switch mode) and different rewind
nonces for the same commitment. -/
theorem different_seeds_different_master {K : Type} (sd : SeedDeriv K) (hinj : SeedInj sd)
    (s s' : Bytes) (hne : s ≠ s') :
    sd.secret (sd.masterOf s) ≠ sd.secret (sd.masterOf s') ∧
    (∀ c, NonceInj sd → sd.rn s c ≠ sd.rn s' c) ∧
    (∀ amount id sw c c', SwitchInj sd →
      commit (sd.kd s) amount id sw = .ok c → commit (sd.kd s') amount id sw = .ok c' → c ≠ c') :=
  ⟨master_ne sd hinj s s' hne, fun c hn => nonce_ne sd hinj hn s s' hne c,
    fun amount id sw c c' hsw h h' =>
      commit_ne sd hinj hsw s s' hne amount id sw c c' (toPath_depth_le4 id) h h'⟩

/-- **other_seed_recovers_nothing** (seeds of any length).  An output created under seed `s` with
either proof-builder generation, in either switch mode, for any amount and identifier, is rewound
to `None` by the `ProofBuilder`, the `LegacyProofBuilder` and every `ViewKey` (root or below, any
path `vk`) of a different seed `s'`. -/
theorem other_seed_recovers_nothing {K P : Type} (sd : SeedDeriv K) (hinj : SeedInj sd)
    (hn : NonceInj sd) (cr : Crypto P) (s s' : Bytes) (hne : s ≠ s') (pn pn' : Opening → Nat)
    (amount : Nat) (id : Ident) (sw : Switch) (c : Opening) (proof : P)
    (hc : commit (sd.kd s) amount id sw = .ok c)
    (hp : proofCreate (sd.kd s) cr (newBuilder (sd.kd s) (sd.rn s) pn) amount id sw = .ok proof ∨
      proofCreate (sd.kd s) cr (legacyBuilder (sd.kd s) (sd.rn s)) amount id sw = .ok proof) :
    proofRewind cr (newBuilder (sd.kd s') (sd.rn s') pn') c proof = .none ∧
    proofRewind cr (legacyBuilder (sd.kd s') (sd.rn s')) c proof = .none ∧
    (∀ vk, proofRewind cr (viewBuilder (sd.kd s') vk (sd.rn s')) c proof = .none) := by
  have hnon : sd.rn s' c ≠ sd.rn s c := fun h => nonce_ne sd hinj hn s s' hne c h.symm
  rcases hp with hp | hp
  · exact ⟨rewind_other_seed (sd.kd s) cr _ _ amount id sw c proof hc hp hnon,
      rewind_other_seed (sd.kd s) cr _ _ amount id sw c proof hc hp hnon,
      fun vk => rewind_other_seed (sd.kd s) cr _ (viewBuilder (sd.kd s') vk (sd.rn s')) amount id sw c proof hc hp hnon⟩
  · exact ⟨rewind_other_seed (sd.kd s) cr _ _ amount id sw c proof hc hp hnon,
      rewind_other_seed (sd.kd s) cr _ _ amount id sw c proof hc hp hnon,
      fun vk => rewind_other_seed (sd.kd s) cr _ (viewBuilder (sd.kd s') vk (sd.rn s')) amount id sw c proof hc hp hnon⟩

/-- … while the seed rewinds its own output to exactly (amount, id, switch) — `rewind_recovers`
instantiated with the keychain of the seed. -/
theorem own_seed_recovers {K P : Type} (sd : SeedDeriv K) (cr : Crypto P) (s : Bytes)
    (pn : Opening → Nat) (amount : Nat) (id : Ident) (sw : Switch) (c : Opening) (proof : P)
    (hid : IdWF id) (hd : id.depthByte ≤ 4) (ha : amount < 2^64)
    (hc : commit (sd.kd s) amount id sw = .ok c)
    (hp : proofCreate (sd.kd s) cr (newBuilder (sd.kd s) (sd.rn s) pn) amount id sw = .ok proof) :
    proofRewind cr (newBuilder (sd.kd s) (sd.rn s) pn) c proof = .some amount id sw :=
  (rewind_recovers (sd.kd s) cr (sd.rn s) pn amount id sw c proof hid hd ha hc hp).2

/-- Non-vacuity (kernel-evaluated on the term model under the toy crypto): a 16-byte seed and the
17-byte seed that extends it by a zero byte (one a strict prefix of the other) have different master
secrets; an output of the first is rewound by the first and not by the second. -/
example :
    let s : Bytes := List.replicate 16 7
    let s' : Bytes := List.replicate 16 7 ++ [0]
    let id := deriveKeyId 3 1 2 3 0
    termSD.secret (termSD.masterOf s) ≠ termSD.secret (termSD.masterOf s') ∧
    ∃ c p, commit (termSD.kd s) 5 id .regular = .ok c ∧
      proofCreate (termSD.kd s) toyCrypto (newBuilder (termSD.kd s) (termSD.rn s) (fun _ => 1)) 5 id .regular = .ok p ∧
      proofRewind toyCrypto (newBuilder (termSD.kd s) (termSD.rn s) (fun _ => 1)) c p = .some 5 id .regular ∧
      proofRewind toyCrypto (newBuilder (termSD.kd s') (termSD.rn s') (fun _ => 1)) c p = .none :=
  ⟨master_ne termSD termSD_seedInj _ _ (by decide), _, _, rfl, rfl, by decide +kernel, by decide +kernel⟩

/-! ## the hasher object carries nothing from one derivation to the next -/

/-- **hasher_state_irrelevant.**  A derivation step's HMAC output does not depend on what the hasher
object was used for before: `init_sha512` replaces its state.  Whatever states `h`, `h'` two hasher
objects are in, the same step (same HMAC key, same parts) gives the same 64 bytes. -/
theorem hasher_state_irrelevant (hmac : Bytes → Bytes → Bytes) (h h' : HState) (key : Bytes)
    (parts : List Bytes) : (hashStep hmac h key parts).1 = (hashStep hmac h' key parts).1 := rfl

/-- … hence any sequence of derivations threaded through ONE hasher object — siblings m/10, m/11,
m/10 again from one parent, `new_master` twice, child view keys one after another — yields, step by
step, what each step yields with a brand-new hasher. -/
theorem hasher_reuse_equals_fresh (hmac : Bytes → Bytes → Bytes) :
    ∀ (steps : List (Bytes × List Bytes)) (h : HState),
      hashSeq hmac h steps = steps.map fun st => (hashStep hmac HState.fresh st.1 st.2).1 := by
  intro steps
  induction steps with
  | nil => intro h; rfl
  | cons st rest ih =>
    intro h
    obtain ⟨key, parts⟩ := st
    simp only [hashSeq, List.map_cons]
    rw [ih]
    rfl

/-- Non-vacuity (a toy "HMAC" that just records key and message): m/10, m/11, m/10 on one hasher
object that was first used for the master key — third result equals the first, both differ from
the second. -/
example :
    let hmac : Bytes → Bytes → Bytes := fun k d => k ++ [255] ++ d
    let cc : Bytes := [1, 2, 3]
    let steps : List (Bytes × List Bytes) :=
      [([73, 97, 109], [[9, 9]]), (cc, [[7], u32be 10]), (cc, [[7], u32be 11]), (cc, [[7], u32be 10])]
    let r := hashSeq hmac HState.fresh steps
    r.length = 4 ∧ r[1]? = r[3]? ∧ r[1]? ≠ r[2]? ∧
      r[3]? = some (hashStep hmac HState.fresh cc [[7], u32be 10]).1 := by
  decide

/-! ## determinism across the history of a keychain instance -/

/-- **derive_history_independent.** The answer of a keychain instance to `derive_key(amount, id,
switch)` does not depend on what was derived on that instance before: after any sequence `before`
of earlier calls the answer is the one of a fresh keychain from the same seed — in particular for
identifiers that share their 16 path bytes with earlier ones and differ only in depth. In the model
this is immediate (`derive_key` takes `&self` and works on copies of the hasher and the master key,
so the model has no instance state at all); that the real instance and its clones behave like that
is established by the `history` correspondence run, not by this theorem. -/
theorem derive_history_independent {K : Type} (kd : KeyDeriv K) (before : List Query) (amount : Nat)
    (id : Ident) (sw : Switch) :
    (deriveSeq kd (before ++ [(amount, id, sw)])).getLast? = some (deriveKey kd amount id sw) ∧
    (deriveSeq kd (before ++ [(amount, id, sw)])).getLast? = (deriveSeq kd [(amount, id, sw)]).getLast? := by
  simp [deriveSeq]

/-- … and the commitment likewise: `commit` is `derive_key` followed by the Pedersen commitment. -/
theorem commit_history_independent {K : Type} (kd : KeyDeriv K) (before : List Query) (amount : Nat)
    (id : Ident) (sw : Switch) (k : Nat)
    (h : (deriveSeq kd (before ++ [(amount, id, sw)])).getLast? = some (.ok k)) :
    commit kd amount id sw = .ok ⟨amount, k⟩ := by
  have := (derive_history_independent kd before amount id sw).1
  rw [this] at h
  injection h with h
  simp [commit, h]

/-- The key is a function of (seed, depth, the first `depth` words, switch, amount under Regular)
only: two identifiers with the same depth byte (≤ 4) and the same used words derive the same key,
whatever their unused path bytes are — and nothing else of the identifier is read. -/
theorem derive_reads_depth_and_words {K : Type} (kd : KeyDeriv K) (amount : Nat) (id id' : Ident)
    (sw : Switch) (hd : id.toPath.depth = id'.toPath.depth) (hw : id.words = id'.words) :
    deriveKey kd amount id sw = deriveKey kd amount id' sw := by
  have : id.toPath.prefix? = id'.toPath.prefix? := by
    simp only [Ident.words] at hw
    unfold Path.prefix?
    rw [hd] at hw ⊢
    rw [hw]
  simp only [deriveKey, this]

/-- Non-vacuity: `m/7`, `m/7/0`, `m/7/0/0` share their 16 path bytes and differ in depth; on the
term keychain they derive three different keys, in any order of asking. -/
example :
    (deriveKeyId 1 7 0 0 0).drop 1 = (deriveKeyId 2 7 0 0 0).drop 1 ∧
    (deriveKeyId 2 7 0 0 0).drop 1 = (deriveKeyId 3 7 0 0 0).drop 1 ∧
    ∃ x y z, deriveKey termKD 5 (deriveKeyId 1 7 0 0 0) .none = .ok x ∧
      deriveKey termKD 5 (deriveKeyId 2 7 0 0 0) .none = .ok y ∧
      deriveKey termKD 5 (deriveKeyId 3 7 0 0 0) .none = .ok z ∧
      (deriveSeq termKD [(5, deriveKeyId 3 7 0 0 0, .none), (5, deriveKeyId 2 7 0 0 0, .none),
        (5, deriveKeyId 1 7 0 0 0, .none)]).getLast? = some (.ok x) ∧
      x ≠ y ∧ y ≠ z ∧ x ≠ z :=
  ⟨by decide, by decide, _, _, _, rfl, rfl, rfl, rfl, by decide +kernel, by decide +kernel,
    by decide +kernel⟩

/-! ## the transaction builder at the level of openings -/

/-- Whatever is handed to the builder (any interleaving, repeated elements, `with_excess`), when it
succeeds the kernel excess and the offset sum to the blind sum of **everything handed in**, counted
with multiplicity: Σ output keys + Σ extra factors − Σ input keys (mod n). -/
theorem builder_offset_sum (elems : List Step) (fee excess : Nat) (tx : Tx)
    (h : transactionWithKernel elems fee excess = some tx) :
    tx.ins = (runSteps {} elems).ins ∧ tx.outs = (runSteps {} elems).outs ∧
    tx.fee = fee ∧ tx.excess = excess ∧ excess < N ∧ tx.offset < N ∧
    (tx.excess + tx.offset) % N =
      rawSum (blinds (outputsOf elems) ++ (excessesOf elems).filterMap bfSecretKey)
        (blinds (inputsOf elems)) := by
  obtain ⟨hneg, hpos, hb⟩ := runSteps_keys {} elems
  simp only [List.nil_append] at hneg hpos hb
  unfold transactionWithKernel at h
  simp only [hneg, hpos, hb, kcBlindSum, List.filterMap_nil, List.append_nil] at h
  split at h
  · rename_i bs hbs
    split at h
    · rename_i off hoff
      injection h with h
      subst h
      obtain ⟨_, h2, _, h4, h5⟩ := split_sum hoff
      refine ⟨rfl, rfl, rfl, rfl, h2, h4, ?_⟩
      have := (sum_value hbs).1
      simp only [rawSum]
      omega
    · cases h
  · cases h

/-- **builder_balances**: for any list of builder steps — any number of inputs and outputs in any
order, any fee — whose input openings are pairwise distinct, whose output openings are pairwise
distinct, without `with_excess`, and whose values balance (Σin = Σout + fee), the transaction the
builder returns contains exactly those inputs and outputs and satisfies the kernel-sum equation:
Σout + fee·H − Σin opens to (0, excess + offset). -/
theorem builder_balances (elems : List Step) (fee excess : Nat) (tx : Tx)
    (h : transactionWithKernel elems fee excess = some tx)
    (hi : (inputsOf elems).Nodup) (ho : (outputsOf elems).Nodup) (hx : excessesOf elems = [])
    (hv : sumValues (inputsOf elems) = sumValues (outputsOf elems) + fee) :
    tx.ins = inputsOf elems ∧ tx.outs = outputsOf elems ∧ txBalances tx = true := by
  obtain ⟨hti, hto, hf, he, hel, hol, hsum⟩ := builder_offset_sum elems fee excess tx h
  have hins := runSteps_ins {} elems (by simpa using hi)
  have houts := runSteps_outs {} elems (by simpa using ho)
  simp only [List.nil_append] at hins houts
  have htx : tx.ins = inputsOf elems ∧ tx.outs = outputsOf elems := ⟨hti.trans hins, hto.trans houts⟩
  refine ⟨htx.1, htx.2, ?_⟩
  simp only [hx, List.filterMap_nil, List.append_nil] at hsum
  simp only [txBalances, htx.1, htx.2, hf, hv, acc_eq_rawSum, ← hsum, sadd, he,
    Nat.mod_eq_of_lt hel, Nat.mod_eq_of_lt hol, beq_self_eq_true, Bool.and_self]

/-- … and then `Transaction::validate` accepts it (opening level: kernel sums; no cut-through when
no opening is both spent and created; at least one element). Range proofs and the kernel signature
are the sampled contracts. -/
theorem builder_validates (elems : List Step) (fee excess : Nat) (tx : Tx)
    (h : transactionWithKernel elems fee excess = some tx)
    (hi : (inputsOf elems).Nodup) (ho : (outputsOf elems).Nodup) (hx : excessesOf elems = [])
    (hv : sumValues (inputsOf elems) = sumValues (outputsOf elems) + fee)
    (hct : ∀ i ∈ inputsOf elems, i ∉ outputsOf elems)
    (hne : inputsOf elems ≠ [] ∨ outputsOf elems ≠ []) :
    txValidate tx = .ok := by
  obtain ⟨h1, h2, h3⟩ := builder_balances elems fee excess tx h hi ho hx hv
  unfold txValidate
  have hnc : (tx.ins.any fun i => tx.outs.contains i) = false := by
    rw [h1, h2]
    simp only [List.any_eq_false, List.contains_eq_mem, decide_eq_true_eq]
    exact hct
  have hnn : (tx.ins.isEmpty && tx.outs.isEmpty && tx.fee == 0) = false := by
    rw [h1, h2]
    rcases hne with hh | hh
    · cases hq : inputsOf elems with
      | nil => exact absurd hq hh
      | cons a l => simp
    · cases hq : outputsOf elems with
      | nil => exact absurd hq hh
      | cons a l => simp
  simp only [hnc, hnn, h3, Bool.false_eq_true, if_false, if_true]

/-- The builder fails (returns `Err`) exactly in the zero special cases: the blind sum of what was
handed in is 0 mod n (e.g. nothing was handed in, or the same key on both sides), the excess is
not a scalar, or the excess equals the blind sum (the offset would be zero) — provided all keys are
scalars. -/
theorem builder_fails_iff (elems : List Step) (fee excess : Nat) (hx : excessesOf elems = [])
    (hk : overflows (blinds (outputsOf elems)) = false ∧ overflows (blinds (inputsOf elems)) = false) :
    transactionWithKernel elems fee excess = none ↔
      (rawSum (blinds (outputsOf elems)) (blinds (inputsOf elems)) = 0 ∨ N ≤ excess ∨
        rawSum (blinds (outputsOf elems)) (blinds (inputsOf elems)) = excess) := by
  obtain ⟨hneg, hpos, hb⟩ := runSteps_keys {} elems
  simp only [List.nil_append] at hneg hpos hb
  have hN := N_pos
  have hbsl := rawSum_lt (blinds (outputsOf elems)) (blinds (inputsOf elems))
  unfold transactionWithKernel
  simp only [hneg, hpos, hb, hx, kcBlindSum, List.filterMap_nil, List.append_nil, secpBlindSum_eq,
    hk.1, hk.2, Bool.or_self, Bool.false_eq_true, if_false]
  generalize rawSum (blinds (outputsOf elems)) (blinds (inputsOf elems)) = bs at *
  by_cases hz : bs = 0
  · simp [hz]
  · simp only [hz, if_false, false_or]
    have hsp := split_fails_iff bs excess
    cases hq : bfSplit bs excess with
    | ok off =>
      simp only [reduceCtorEq, false_iff]
      intro hh
      have := hsp.mpr (by rcases hh with hh | hh; exact Or.inr (Or.inl hh); exact Or.inr (Or.inr hh))
      rw [hq] at this; cases this
    | invalidKey =>
      simp only [true_iff]
      rcases hsp.mp hq with hh | hh | hh
      · omega
      · exact Or.inl hh
      · exact Or.inr hh
    | panic =>
      exfalso
      by_cases he : excess < N
      · rw [bfSplit_eq hbsl he] at hq
        split at hq <;> cases hq
      · rw [bfSplit_big bs excess (Or.inr (by omega))] at hq; cases hq

/-- A repeated element breaks the balance: the body keeps it once (`with_input` drops an input that
is already present) but the blind sum counts it twice. Kernel-checked counter-example: inputs
(10, k=5) twice and output (18, k=9), fee 2 — values balance as a multiset (20 = 18 + 2), the built
transaction has one input and fails the kernel-sum check. -/
theorem builder_duplicate_counterexample :
    ∃ elems fee excess tx, transactionWithKernel elems fee excess = some tx ∧
      sumValues (inputsOf elems) = sumValues (outputsOf elems) + fee ∧
      tx.ins.length = 1 ∧ txBalances tx = false :=
  ⟨[.input ⟨10, 5⟩, .input ⟨10, 5⟩, .output ⟨18, 9⟩], 2, 3, _, rfl, by decide, by decide, by decide⟩

/-- Non-vacuity of `builder_balances`: two inputs, two outputs, interleaved, fee 2^40−1, blinds near
the group order. -/
example :
    let elems := [Step.output ⟨5, N - 1⟩, .input ⟨2^40 + 4, 17⟩, .output ⟨1, 2⟩, .input ⟨1, N - 2⟩]
    ∃ tx, transactionWithKernel elems (2^40 - 1) 1000 = some tx ∧ (inputsOf elems).Nodup ∧
      (outputsOf elems).Nodup ∧ excessesOf elems = [] ∧
      sumValues (inputsOf elems) = sumValues (outputsOf elems) + (2^40 - 1) ∧ txValidate tx = .ok :=
  ⟨_, rfl, by decide, by decide, rfl, by decide, by decide⟩

/-- `partial_transaction` returns the blind sum of what was added: Σ outputs − Σ inputs (+ factors). -/
theorem partial_sum (ins outs : List Opening) (elems : List Step) (bs : Nat)
    (h : (partialTransaction ins outs elems).2.2 = .ok bs) :
    bs = rawSum (blinds (outputsOf elems) ++ (excessesOf elems).filterMap bfSecretKey)
        (blinds (inputsOf elems)) := by
  obtain ⟨hneg, hpos, hb⟩ := runSteps_keys { ins := ins, outs := outs } elems
  simp only [List.nil_append] at hneg hpos hb
  simp only [partialTransaction, hneg, hpos, hb, kcBlindSum, List.filterMap_nil, List.append_nil] at h
  exact (sum_value h).1

/-- **Coinbase**: the kernel excess of `reward::output` opens to value 0 with the output's own key,
and `verify_coinbase` holds for the block whose total fees are the `fees` given — for every fee
(the reward saturates at u64::MAX). -/
theorem coinbase_balances (reward fees key : Nat) (hk : key < N) :
    (rewardOutput reward fees key).2 = ⟨0, key⟩ ∧
    (rewardOutput reward fees key).1.value = rewardOf reward fees ∧
    verifyCoinbase reward fees (rewardOutput reward fees key).1 (rewardOutput reward fees key).2 = true := by
  have hN := N_pos
  have h0 : sadd key (sneg 0) = key := by unfold sadd sneg; unfold N at *; omega
  simp [rewardOutput, verifyCoinbase, h0]

end GV.Props.C20
