import GrinVerif.Gen.SyncOrder
import GrinVerif.Model.Crash
import GrinVerif.Model.CrashMulti
import GrinVerif.Model.CrashRecov
import GrinVerif.Model.CrashCompact
/-! C09 — the ORDER of the durable writes of the crash models is the order of the source.

`Gen/SyncOrder.lean` is regenerated on every check run from `PMMRBackend::sync` (store/src/pmmr.rs),
`AppendOnlyFile::flush` (store/src/types.rs), `txhashset::extending` / `header_extending`
(chain/src/txhashset/txhashset.rs) and `Chain::process_block_single` (chain/src/chain.rs).
`expand` turns those lists into model steps (the range-proof backend mirrors the output backend and
is not modelled; the kernel and header backends are not prunable: no leaf set; prune lists do not
change outside compaction); the obligations below are DECIDED: `blockSteps`, `headerSteps`,
`bodySteps`, the recovery's `syncIns` and the kernel size-file-before-data-file order equal the
expansion. A flush that is reordered in the source (leaf set before the data file, prune list before
the leaf set, kernel backend before the output backend, LMDB commit before the file syncs, data file
before its size file) breaks an obligation without any crash run having to hit the window. -/
namespace GV.Props.C09SyncOrder
open GV GV.Crash GV.Gen

/-- consecutive duplicates (the two `set_len` branches) count once -/
def dedup : List Nat → List Nat
  | a :: b :: rest => if a = b then dedup (b :: rest) else a :: dedup (b :: rest)
  | l => l

/-- one `AppendOnlyFile::flush`: `set_len` (11) = the truncation, `write_all` (12) = the append -/
def fileSteps (trunc app : Step) (flush : List Nat) : List Step :=
  (dedup flush).filterMap fun c => if c = 11 then some trunc else if c = 12 then some app else none

/-- one `PMMRBackend::sync` of backend `b` (21 output, 22 range proof, 23 kernel, 24 header) -/
def backendSteps (b : Nat) (sync flush : List Nat) : List Step :=
  sync.flatMap fun c =>
    if c = 1 then
      (if b = 21 then fileSteps .outHashTrunc .outHashApp flush
       else if b = 23 then fileSteps .kerHashTrunc .kerHashApp flush
       else if b = 24 then fileSteps .hdrHashTrunc .hdrHashApp flush else [])
    else if c = 2 then
      (if b = 21 then fileSteps .outDataTrunc .outDataApp flush
       else if b = 23 then fileSteps .kerDataTrunc .kerDataApp flush
       else if b = 24 then fileSteps .hdrDataTrunc .hdrDataApp flush else [])
    else if c = 3 then (if b = 21 then [.leafRename] else [])
    else []

/-- a commit path (`extending` / `header_extending`): nested commit (20), then the backends -/
def expand (path sync flush : List Nat) : List Step :=
  path.flatMap fun c => if c = 20 then [.childCommit] else backendSteps c sync flush

/-- what the generator must have seen for the expansion to mean anything -/
def wellRead : Bool :=
  SyncOrder.parseError.isNone &&
  !(SyncOrder.backendSync ++ SyncOrder.aofFlush ++ SyncOrder.extendingCommit ++
      SyncOrder.headerExtendingCommit ++ SyncOrder.processBlockSingle ++ SyncOrder.checkCompact ++
      SyncOrder.aofReplace ++ SyncOrder.txhashsetCompact ++ SyncOrder.chainCompact).contains 0

/-- **`blockSteps` is the source's order**: header commit path, the header-head commit, the body
commit path, and the outer `batch.commit()` AFTER `pipe::process_block` -/
theorem blockSteps_is_source_order :
    wellRead = true ∧ SyncOrder.processBlockSingle = [30, 31] ∧
    blockSteps =
      expand SyncOrder.headerExtendingCommit SyncOrder.backendSync SyncOrder.aofFlush ++ [.hdrCommit] ++
      expand SyncOrder.extendingCommit SyncOrder.backendSync SyncOrder.aofFlush ++ [.finalCommit] := by
  decide

theorem headerSteps_is_source_order :
    headerSteps =
      expand SyncOrder.headerExtendingCommit SyncOrder.backendSync SyncOrder.aofFlush ++ [.hdrCommit] := by
  decide

/-- header-first acceptance (`Model/CrashMulti.lean`; nested commits left out) -/
theorem bodySteps_is_source_order :
    bodySteps =
      (expand SyncOrder.extendingCommit SyncOrder.backendSync SyncOrder.aofFlush).filter (· != .childCommit)
        ++ [.finalCommit] := by
  decide

/-- the recovery's writes per rewind (`Model/CrashRecov.lean` `syncIns`): the truncations of the same
expansion, leaf set in its place -/
def rstepOf : Step → Option RStep
  | .outHashTrunc => some .outHashTrunc | .outDataTrunc => some .outDataTrunc
  | .leafRename => some .leafRename
  | .kerHashTrunc => some .kerHashTrunc | .kerDataTrunc => some .kerDataTrunc
  | .hdrHashTrunc => some .hdrHashTrunc | .hdrDataTrunc => some .hdrDataTrunc
  | _ => none

theorem syncIns_is_source_order (P : List BlkInfo) (r : List Leaf) :
    (syncIns P r).map (·.step) =
      (expand SyncOrder.extendingCommit SyncOrder.backendSync SyncOrder.aofFlush).filterMap rstepOf := by
  have h : (expand SyncOrder.extendingCommit SyncOrder.backendSync SyncOrder.aofFlush).filterMap rstepOf =
      [.outHashTrunc, .outDataTrunc, .leafRename, .kerHashTrunc, .kerDataTrunc] := by decide
  rw [h]; rfl

theorem hdrIns_is_source_order (P : List BlkInfo) :
    (hdrIns P).map (·.step) =
      (expand SyncOrder.headerExtendingCommit SyncOrder.backendSync SyncOrder.aofFlush).filterMap rstepOf := by
  have h : (expand SyncOrder.headerExtendingCommit SyncOrder.backendSync SyncOrder.aofFlush).filterMap rstepOf =
      [.hdrHashTrunc, .hdrDataTrunc] := by decide
  rw [h]; rfl

/-- one backend: hash file, data file, leaf set, prune list — and inside one file: its size file,
then the truncation, then the append, then the fsync (`Model/CrashAof.lean` `Aof.flush`,
`Model/CrashKernel.lean` `kSync`, `Model/CrashCompact.lean` nothing: compaction has its own path) -/
theorem backend_and_file_order :
    SyncOrder.backendSync = [1, 2, 3, 4] ∧ dedup SyncOrder.aofFlush = [10, 11, 12, 13] ∧
    SyncOrder.extendingCommit = [20, 21, 22, 23] ∧ SyncOrder.headerExtendingCommit = [20, 24] := by
  decide

/-! ### compaction path -/

/-- one `check_compact` of backend `b` (50 output, 51 range proof): `replace_with_tmp` (42 hash, 43 data)
= `AppendOnlyFile::replace` = remove (45) then rename (46); prune list flush (4) and leaf set flush (44)
are one rename each; writing the temporary copies (40, 41) changes no file of the state -/
def compactBackend (b : Nat) (cc rep : List Nat) : List CStep :=
  cc.flatMap fun c =>
    if c = 42 then rep.filterMap fun r =>
      if r = 45 then some (if b = 50 then CStep.outHashRemove else CStep.rpHashRemove)
      else if r = 46 then some (if b = 50 then CStep.outHashRename else CStep.rpHashRename) else none
    else if c = 43 then rep.filterMap fun r =>
      if r = 45 then some (if b = 50 then CStep.outDataRemove else CStep.rpDataRemove)
      else if r = 46 then some (if b = 50 then CStep.outDataRename else CStep.rpDataRename) else none
    else if c = 4 then [if b = 50 then CStep.outPrunRename else CStep.rpPrunRename]
    else if c = 44 then [if b = 50 then CStep.outLeafRename else CStep.rpLeafRename]
    else []

/-- **`compactSteps` is the source's order**: `Chain::compact` = `TxHashSet::compact` (output backend,
then range-proof backend, each `check_compact`), then ONE `batch.commit()` after
`remove_historical_blocks` -/
theorem compactSteps_is_source_order :
    wellRead = true ∧ SyncOrder.chainCompact = [52, 53, 31] ∧
    compactSteps =
      SyncOrder.txhashsetCompact.flatMap (fun b => compactBackend b SyncOrder.checkCompact SyncOrder.aofReplace)
        ++ [.compactCommit] := by
  decide

end GV.Props.C09SyncOrder
