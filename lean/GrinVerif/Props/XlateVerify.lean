import GrinVerif.Lemmas.XlateVerify

/-! # Translated cycle verifiers (`Gen/FnsVerify.lean`) = hand-written model (`Model/Pow.lean`)

`GV.Gen.Fns.Cuckaroo_verify` is regenerated from the CURRENT `core/src/pow/cuckaroo.rs` with
release-build semantics (wrapping `2 * n`, `2 * n + 1`, `n - 1`, `n += 1`; `Vec`s as lists; index
conditions and loop exits collected in `Cuckaroo_verify_ok`).  The hand model `verifyCuckaroo`
(= `verifyU cfgCuckaroo`) works on function arrays and one packed `head` map.  Under
`Cuckaroo_verify_ok = true` (the Rust function returns normally) both give the same verdict.

Loop-level ties (in `Lemmas/XlateVerify.lean`, all universally quantified, by induction):
`c1_eq` first `for` = `uBuild`; `c2_eq` second `for` = `uCirc`; `c4_eq` inner `loop` = `uFind`;
`c3_eq` outer `loop` = `uWalk (uStep …)`.  Array relation: `R l f` (list and function agree on the
indices of the list); `headu[b] = head (2*b)`, `headv[b] = head (2*b+1)`.
No disagreement between translation and model was found.

The other variants: Cuckarooz is tied at full strength in `Props/XlateVerifyZ.lean` (`cuckarooz_verify_eq`), Cuckatoo in
`Props/XlateVerifyT.lean` (`cuckatoo_verify_eq`, `cuckatoo_verify_eq_sip`), Cuckarood / Cuckaroom in
`Props/XlateVerifyD.lean` (see there for their status).  `cuckarooz_walk_eq_partial` / `cuckatoo_find_eq_partial` below are
the loop-level lemmas those files build on (kept under their phase-4 names). -/

namespace GV.Props.XlateVerify
open GV GV.Gen GV.Gen.Fns GV.Pow GV.Lemmas.XlateVerify

theorem proofsize_le (ct : ChainTypes) : proofsize ct ≤ 42 := by
  cases ct <;> decide

/-- Cuckaroo: the translated `verify` and the model agree on accept / reject, for every chain type,
every parameter set, every proof on which the Rust function returns normally. -/
theorem cuckaroo_verify_rel (ct : ChainTypes) (params : CuckooParams) (proof : Proof)
    (P : Pow.Params) (ep : Nat → Nat × Nat)
    (hP1 : P.proofsize = proofsize ct) (hP2 : P.edgeMask = params.edge_mask)
    (hbk : ∀ u, P.bk u = u &&& shrW (2^64-1) (leadingZeros64 proof.nonces.length))
    (hep : ∀ x, ep x = (let e := siphash_block params.siphash_keys x 21 false
                        (e &&& params.node_mask, (shrW e 32) &&& params.node_mask)))
    (hok : Cuckaroo_verify_ok ct params proof = true) :
    (Cuckaroo_verify ct params proof = some () ∧ verifyCuckaroo P ep proof.nonces = .ok ()) ∨
    (Cuckaroo_verify ct params proof = none ∧ ∃ e, verifyCuckaroo P ep proof.nonces = .error e) := by
  unfold Cuckaroo_verify_ok at hok
  unfold Cuckaroo_verify verifyCuckaroo verifyU
  dsimp only [Proof_proof_size] at hok ⊢
  by_cases hs : proof.nonces.length = proofsize ct
  · have h42 : proof.nonces.length ≤ 42 := by rw [hs]; exact proofsize_le ct
    rw [if_neg (by simpa using hs), Bool.and_eq_true] at hok
    rw [if_neg (by simpa using hs), if_neg (by rw [hP1]; simpa using hs)]
    rw [Nat.sub_zero, mulW_two _ (by omega)] at hok ⊢
    obtain ⟨hok1, hok2⟩ := hok
    have hinit : RelU k0 k1 (List.replicate (2 * proof.nonces.length) 0, 0, 0,
        List.replicate (addW 1 (shrW 18446744073709551615 (leadingZeros64 proof.nonces.length)))
          (2 * proof.nonces.length),
        List.replicate (addW 1 (shrW 18446744073709551615 (leadingZeros64 proof.nonces.length)))
          (2 * proof.nonces.length),
        List.replicate (2 * proof.nonces.length) 0) (USt.init cfgCuckaroo proof.nonces.length) :=
      ⟨R_replicate _ _, rfl, rfl, RK_replicate _ _ _, RK_replicate _ _ _, R_replicate _ _⟩
    have h1 := c1_eq params proof.nonces _ P ep (by omega) hP2 hbk hep proof.nonces.length 0
      _ _ _ _ _ _ _ (by omega) hinit hok1
    rw [List.drop_zero, show lastOf proof.nonces 0 = none from rfl] at h1
    rcases h1 with ⟨e1, e, e2⟩ | ⟨st, s', e1, e2, r1, r2, r3, r4, r5, r6⟩
    · right
      rw [e1, e2]
      exact ⟨rfl, _, rfl⟩
    · rw [e1] at hok2 ⊢
      rw [e2]
      dsimp only at hok2 ⊢
      simp only [cfgCuckaroo, Bool.false_eq_true, if_false]
      rw [← r2, ← r3]
      by_cases hx : st.2.1 ||| st.2.2.1 = 0
      · rw [if_neg (by simpa using hx)] at hok2
        rw [if_neg (by simpa using hx), if_neg (by simpa using hx)]
        rw [Bool.and_eq_true] at hok2
        obtain ⟨hok3, hok4⟩ := hok2
        have hR := c2_eq proof.nonces.length st.1 _ st.2.2.2.1 st.2.2.2.2.1 P s' (by omega) hbk
          r1 r4 r5 proof.nonces.length 0 st.2.2.2.2.2 s'.prev (by omega) r6 hok3
        have h3 := c3_eq proof.nonces.length st.1 _ s'.uvs _ r1 hR (2 * proof.nonces.length + 1)
          0 0 0 (by omega) hok4
        rcases h3 with ⟨f1, e, f2⟩ | ⟨n', i', j', f1, f2⟩
        · right
          rw [f1]; simp only [cfgCuckaroo] at f2; rw [f2]
          exact ⟨rfl, _, rfl⟩
        · rw [f1]; simp only [cfgCuckaroo] at f2; rw [f2]
          dsimp only
          by_cases hn : n' = proof.nonces.length
          · left
            rw [if_pos (by simpa using hn), if_pos hn]
            exact ⟨rfl, rfl⟩
          · right
            rw [if_neg (by simpa using hn), if_neg hn]
            exact ⟨rfl, _, rfl⟩
      · right
        rw [if_pos (by simpa using hx), if_pos (by simpa using hx)]
        exact ⟨rfl, _, rfl⟩
  · right
    rw [if_pos (by simpa using hs), if_pos (by rw [hP1]; simpa using hs)]
    exact ⟨rfl, _, rfl⟩

/-- accept form: the translated Cuckaroo verifier returns `Ok(())` iff the model does -/
theorem cuckaroo_verify_eq (ct : ChainTypes) (params : CuckooParams) (proof : Proof)
    (P : Pow.Params) (ep : Nat → Nat × Nat)
    (hP1 : P.proofsize = proofsize ct) (hP2 : P.edgeMask = params.edge_mask)
    (hbk : ∀ u, P.bk u = u &&& shrW (2^64-1) (leadingZeros64 proof.nonces.length))
    (hep : ∀ x, ep x = (let e := siphash_block params.siphash_keys x 21 false
                        (e &&& params.node_mask, (shrW e 32) &&& params.node_mask)))
    (hok : Cuckaroo_verify_ok ct params proof = true) :
    (Cuckaroo_verify ct params proof = some ()) ↔ (verifyCuckaroo P ep proof.nonces = .ok ()) := by
  rcases cuckaroo_verify_rel ct params proof P ep hP1 hP2 hbk hep hok with ⟨a, b⟩ | ⟨a, e, b⟩
  · exact ⟨fun _ => b, fun _ => a⟩
  · rw [a, b]; exact ⟨fun h => (by cases h), fun h => (by cases h)⟩

/-- reject form: `Err(_)` iff the model returns an error -/
theorem cuckaroo_verify_eq_none (ct : ChainTypes) (params : CuckooParams) (proof : Proof)
    (P : Pow.Params) (ep : Nat → Nat × Nat)
    (hP1 : P.proofsize = proofsize ct) (hP2 : P.edgeMask = params.edge_mask)
    (hbk : ∀ u, P.bk u = u &&& shrW (2^64-1) (leadingZeros64 proof.nonces.length))
    (hep : ∀ x, ep x = (let e := siphash_block params.siphash_keys x 21 false
                        (e &&& params.node_mask, (shrW e 32) &&& params.node_mask)))
    (hok : Cuckaroo_verify_ok ct params proof = true) :
    (Cuckaroo_verify ct params proof = none) ↔ (∃ e, verifyCuckaroo P ep proof.nonces = .error e) := by
  rcases cuckaroo_verify_rel ct params proof P ep hP1 hP2 hbk hep hok with ⟨a, b⟩ | ⟨a, e, b⟩
  · rw [a, b]; exact ⟨fun h => (by cases h), fun ⟨_, h⟩ => (by cases h)⟩
  · exact ⟨fun _ => ⟨e, b⟩, fun _ => a⟩

/-- under `_ok` the model never reports `hang` where the code returns: a translated loop that runs
out of fuel has `_exits = false`; combined with `verifyU_no_hang` this is consistent. Non-vacuity:
the hypotheses are satisfiable (wrong-length proof on Mainnet: `_ok = true`, result `none`). -/
example : Cuckaroo_verify_ok ChainTypes.Mainnet ⟨42, 0, [0, 0, 0, 0], 0, 0⟩ ⟨29, []⟩ = true ∧
    Cuckaroo_verify ChainTypes.Mainnet ⟨42, 0, [0, 0, 0, 0], 0, 0⟩ ⟨29, []⟩ = none := by
  constructor <;> rfl

/-- Cuckarooz, PARTIAL (loops 3+4 only): the translated outer walk equals the model's
`uWalk (uStep cfgCuckarooz …)` whenever `_exits` holds and the arrays agree. -/
theorem cuckarooz_walk_eq_partial (size : Nat) (uvs prev : List Nat) (uvsf prevf : Nat → Nat)
    (r1 : R uvs uvsf) (r6 : R prev prevf) (f n i j : Nat) (hn : n + f < 2^63)
    (h : Cuckarooz_verify_loop3_exits size uvs prev f n i j = true) :
    (Cuckarooz_verify_loop3 size uvs prev f n i j = .ret none ∧
      ∃ e, uWalk (uStep cfgCuckarooz size uvsf prevf) f i n = .error e) ∨
    (∃ n' i' j', Cuckarooz_verify_loop3 size uvs prev f n i j = .go (n', i', j') ∧
      uWalk (uStep cfgCuckarooz size uvsf prevf) f i n = .ok n') :=
  z3_eq size uvs prev uvsf prevf r1 r6 f n i j hn h

/-- Cuckatoo, PARTIAL (loop 4 only): the translated inner search equals `uFind cfgCuckatoo`. -/
theorem cuckatoo_find_eq_partial (uvs prev : List Nat) (uvsf prevf : Nat → Nat) (i : Nat)
    (r1 : R uvs uvsf) (r6 : R prev prevf) (f j k : Nat)
    (h : Cuckatoo_verify_loop4_exits uvs prev i f j k = true) :
    (Cuckatoo_verify_loop4 uvs prev i f j k = .ret none ∧
      uFind cfgCuckatoo uvsf prevf i f k j = .error .branch) ∨
    (∃ j' k', Cuckatoo_verify_loop4 uvs prev i f j k = .go (j', k') ∧
      uFind cfgCuckatoo uvsf prevf i f k j = .ok j') :=
  t4_eq uvs prev uvsf prevf i r1 r6 f j k h

/-- non-vacuity of the loop-level hypotheses: a 2-slot self-loop exits at once -/
example : Cuckatoo_verify_loop4_exits [5, 5] [0, 0] 0 1 0 0 = true ∧ R [5, 5] (fun _ => 5) := by
  refine ⟨rfl, ?_⟩
  intro i hi
  match i, hi with
  | 0, _ => rfl
  | 1, _ => rfl

end GV.Props.XlateVerify
