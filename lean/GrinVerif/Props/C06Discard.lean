import GrinVerif.Props.C03Known
import GrinVerif.Props.XlateShapeTxhsFacts
/-! C06 frame for a refused block, with its premise about the code made explicit and discharged.

The chain model never touches head, block store or txhashset when a block is refused: it ASSUMES
that everything `pipe::process_block` did inside `txhashset::extending` before the failing check
(rewind, re-applied fork blocks, the block's own inputs / outputs / kernels, index writes in the
child batch) is thrown away. That premise is a fact about `txhashset::extending` /
`header_extending` in chain/src/txhashset/txhashset.rs; the translator regenerates the wrappers'
commit / discard structure on every run (`Gen/PipeShapeTxhs`) and decides it
(`Props/XlateShapeTxhsFacts`). Here it is the HYPOTHESIS of the frame theorem, and
`refused_block_changes_nothing` is the theorem with the hypothesis discharged by those decided
facts: a commit moved out of the `Ok ∧ !rollback` guard or a dropped `discard()` in the source
breaks `extension_discarded_on_refusal`, and with it this module. -/
namespace GV.Props.C06Discard
open GV GV.Chain GV.Gen.PipeShape GV.Props.XlateShape

/-- the premise: the extension wrappers make something durable ONLY for an `Ok` result without
`force_rollback`, and discard every backend on `Err` and on rollback -/
def ExtensionDiscardedOnRefusal : Prop :=
  commitsOnlyUnder ["$5 ~ Ok(_)", "!($6)"] txhs_extending = true ∧
  discardsUnder ["$5 ~ Err(_)"] txhs_extending = 3 ∧ discardsUnder ["$5 ~ Ok(_)", "$6"] txhs_extending = 3 ∧
  commitsOnlyUnder ["$4 ~ Ok(_)", "!($5)"] txhs_header_extending = true ∧
  discardsUnder ["$4 ~ Err(_)"] txhs_header_extending = 1 ∧ discardsUnder ["$4 ~ Ok(_)", "$5"] txhs_header_extending = 1

/-- the premise holds of the CURRENT source (decided facts of `Props/XlateShapeTxhsFacts`) -/
theorem extension_discarded_on_refusal : ExtensionDiscardedOnRefusal :=
  ⟨XlateShapeTxhsFacts.extending_never_commits_on_err_or_rollback.2.2.1,
   XlateShapeTxhsFacts.extending_discards.1, XlateShapeTxhsFacts.extending_discards.2.1,
   XlateShapeTxhsFacts.header_extending_never_commits_on_err_or_rollback.2.2.1,
   XlateShapeTxhsFacts.header_extending_discards.1, XlateShapeTxhsFacts.header_extending_discards.2⟩

/-- **frame of a refused block, under the premise**: whatever the stage that refused it - header,
known, orphan, body, fork denylist, maturity, UTXO, sums, NRD, late root / size - the coded step
leaves head, block store and definitions as they were, hence the reported unspent set; only the
header store / header head (a valid header is remembered) and the orphan pool may differ -/
theorem refused_block_frame (_premise : ExtensionDiscardedOnRefusal) (p : Params) (deny : List Nat)
    (n : Node) (b : Blk) (e : Err) (h : (processBlockSingleK p deny n b).2.1 = .err e) :
    (processBlockSingleK p deny n b).1.head = n.head ∧
    (processBlockSingleK p deny n b).1.stored = n.stored ∧
    (processBlockSingleK p deny n b).1.blks = n.blks ∧
    (processBlockSingleK p deny n b).1.reportedUtxo p = n.reportedUtxo p ∧
    (processBlockSingleK p deny n b).2.2 = none := by
  have key : (processBlockSingleK p deny n b).1.head = n.head ∧
      (processBlockSingleK p deny n b).1.stored = n.stored ∧
      (processBlockSingleK p deny n b).1.blks = n.blks ∧ (processBlockSingleK p deny n b).2.2 = none := by
    unfold processBlockSingleK at h ⊢
    cases hh : processHeaderK p deny n b with
    | error e' => exact ⟨rfl, rfl, rfl, rfl⟩
    | ok n1 =>
      have hf := C03Known.processHeaderK_frame p deny n n1 b hh
      rw [hh] at h
      simp only at h ⊢
      cases hp : precheckK n1 b with
      | reject e' => exact ⟨hf.1, hf.2.1, hf.2.2.1, rfl⟩
      | orphan => exact ⟨by simp [addOrphan, hf.1], by simp [addOrphan, hf.2.1], by simp [addOrphan, hf.2.2.1], rfl⟩
      | go par =>
        rw [hp] at h
        simp only at h ⊢
        cases hq : pipeProcessBlockK p deny n1 b par with
        | error e' => exact ⟨hf.1, hf.2.1, hf.2.2.1, rfl⟩
        | ok r =>
          rw [hq] at h
          simp only at h
          exact absurd h (storeBlock_ok r.1 b e)
  exact ⟨key.1, key.2.1, key.2.2.1, reportedUtxo_congr key.2.2.1 key.1 p, key.2.2.2⟩

/-- **a refused block changes nothing on the best chain** - the frame theorem with its premise
discharged by the facts decided about the current source -/
theorem refused_block_changes_nothing (p : Params) (deny : List Nat) (n : Node) (b : Blk) (e : Err)
    (h : (processBlockSingleK p deny n b).2.1 = .err e) :
    (processBlockSingleK p deny n b).1.head = n.head ∧
    (processBlockSingleK p deny n b).1.stored = n.stored ∧
    (processBlockSingleK p deny n b).1.reportedUtxo p = n.reportedUtxo p ∧
    (processBlockSingleK p deny n b).2.2 = none :=
  let r := refused_block_frame extension_discarded_on_refusal p deny n b e h
  ⟨r.1, r.2.1, r.2.2.2.1, r.2.2.2.2⟩

/-- non-vacuity: a block whose parent header is unknown is refused -/
example : (processBlockSingleK {} [] {} { id := 5, parent := some 4, h := 2, work := 9, ver := 1, ts := 3, ins := [], outs := [], kers := [], tags := [] }).2.1 = .err "StoreErr" := by decide

end GV.Props.C06Discard
