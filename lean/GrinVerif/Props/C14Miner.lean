import GrinVerif.Model.PoolMiner
import GrinVerif.Props.C14Node
/-! C14 — the miner's block builder on top of the pool (`mine_block::get_block`, model
`Model/PoolMiner.lean`).

* `getBlock_returns_iff` / `getBlock_first` — `get_block` returns iff SOME call of `build_block`
  succeeds, and then with the block of the FIRST state in which it does; the only exit of the loop;
* `persistent_failure_never_returns` — while the pool keeps offering a set the chain refuses and the head
  does not move, it never returns: nothing is mined, not even an empty block (`build_block` falls back to
  an empty block only when `prepare_mineable_transactions` itself fails: `blockTxs`);
* `no_pause_without_key_id` — a node without wallet listener retries without any pause (a busy loop);
* `healthy_pool_returns_at_once` — whenever the block built from the mineable set is acceptable
  (`mineVerdict`; for sets without NRD kernels from a pool of valid entries that is
  `mineable_block_accepted` of Props/C14) the first call returns;
* `recovers_when_the_state_recovers` — as soon as the calls see a state in which the set is acceptable
  again (the next block by somebody else raises the height to the lock height: run `poolminer`), it
  returns that block;
* `stuck_miner_witness` — the state of the recorded finding C14-reorg-lower-height-keeps-locked-tx:
  the pool is jointly valid, the mineable set is not mineable, `get_block` loops. -/
namespace GV.Props.C14Miner
open GV.Pool

theorem getBlock_returns_iff (l : List (Ctx × TxPool)) :
    (getBlock l).isSome = true ↔ ∃ cs ∈ l, (cs.2.buildBlock cs.1).isSome = true := by
  induction l with
  | nil => simp [getBlock]
  | cons cs rest ih =>
    unfold getBlock
    cases h : cs.2.buildBlock cs.1 with
    | some txs => simp [h]
    | none =>
      simp only [List.mem_cons, exists_eq_or_imp, h, Option.isSome_none, Bool.false_eq_true, false_or]
      exact ih

/-- it returns the block of the first state that builds: everything before failed -/
theorem getBlock_first (pre post : List (Ctx × TxPool)) (cs : Ctx × TxPool) (txs : List Tx)
    (hpre : ∀ x ∈ pre, x.2.buildBlock x.1 = none) (h : cs.2.buildBlock cs.1 = some txs) :
    getBlock (pre ++ cs :: post) = some txs ∧ getBlockCalls (pre ++ cs :: post) = pre.length := by
  induction pre with
  | nil => simp [getBlock, getBlockCalls, h]
  | cons x xs ih =>
    have hx := hpre x (by simp)
    have := ih (fun y hy => hpre y (by simp [hy]))
    simp only [List.cons_append, getBlock, getBlockCalls, hx, Option.isSome_none, Bool.false_eq_true, if_false,
      List.length_cons, this.1, this.2]
    exact ⟨trivial, trivial⟩

/-- **a persistent error is retried for ever**: as long as every state the calls see fails -/
theorem persistent_failure_never_returns (l : List (Ctx × TxPool))
    (h : ∀ cs ∈ l, cs.2.buildBlock cs.1 = none) : getBlock l = none ∧ getBlockCalls l = l.length := by
  induction l with
  | nil => exact ⟨rfl, rfl⟩
  | cons cs rest ih =>
    have hc := h cs (by simp)
    have := ih (fun y hy => h y (by simp [hy]))
    simp [getBlock, getBlockCalls, hc, this.1, this.2]

/-- the same state seen `n` times (head and pool unchanged): `n` failed calls, no block -/
theorem unchanged_state_never_returns (cs : Ctx × TxPool) (n : Nat) (h : cs.2.buildBlock cs.1 = none) :
    getBlock (List.replicate n cs) = none :=
  (persistent_failure_never_returns _ (fun x hx => by rw [(List.mem_replicate.mp hx).2]; exact h)).1

theorem no_pause_without_key_id : retryPause false false = none ∧ retryPause true false = some 100 ∧
    retryPause false true = some 5000 := by decide

theorem buildBlock_some_iff (c : Ctx) (s : TxPool) :
    (s.buildBlock c).isSome = true ↔ mineVerdict c (s.blockTxs c) = true := by
  unfold TxPool.buildBlock
  simp only []
  split <;> simp_all

theorem healthy_pool_returns_at_once (cs : Ctx × TxPool) (rest : List (Ctx × TxPool))
    (h : mineVerdict cs.1 (cs.2.blockTxs cs.1) = true) :
    getBlock (cs :: rest) = some (cs.2.blockTxs cs.1) ∧ getBlockCalls (cs :: rest) = 0 := by
  have hb : cs.2.buildBlock cs.1 = some (cs.2.blockTxs cs.1) := by
    unfold TxPool.buildBlock; simp [h]
  simp [getBlock, getBlockCalls, hb]

theorem recovers_when_the_state_recovers (stuck : Ctx × TxPool) (n : Nat) (good : Ctx × TxPool)
    (rest : List (Ctx × TxPool)) (h1 : stuck.2.buildBlock stuck.1 = none)
    (h2 : mineVerdict good.1 (good.2.blockTxs good.1) = true) :
    getBlock (List.replicate n stuck ++ good :: rest) = some (good.2.blockTxs good.1) := by
  have hb : good.2.buildBlock good.1 = some (good.2.blockTxs good.1) := by
    unfold TxPool.buildBlock; simp [h2]
  exact (getBlock_first _ rest good _ (fun x hx => by rw [(List.mem_replicate.mp hx).2]; exact h1) hb).1

/-- head at height 12 (next block 13), a pooled transaction whose kernel is locked at 14 (admitted when the
head was at 13, before the reorganisation onto the shorter branch): the txpool is jointly valid, the set is
offered, the block is refused, `get_block` loops; at height 13 it is built -/
def stuckCtx (h : Nat) : Ctx :=
  { cfg := { feeBase := 1 }, outs := [⟨1, false, 1000⟩, ⟨2, false, 900⟩],
    head := { utxo := [(1, 3, false)], nrd := [], height := h }, ver := 5 }
def lockedTx : Tx := { ins := [1], outs := [2], kers := [{ kid := 1, ker := .hl 100 14 }] }
def stuckPool : TxPool := { txpool := [⟨lockedTx, .broadcast⟩] }

theorem stuck_miner_witness :
    jointlyValidB (stuckCtx 12).outs (utxoIds (stuckCtx 12)) stuckPool.txpool.txs = true ∧
    stuckPool.blockTxs (stuckCtx 12) = [lockedTx] ∧
    getBlock (List.replicate 5 (stuckCtx 12, stuckPool)) = none ∧
    getBlock (List.replicate 5 (stuckCtx 12, stuckPool) ++ [(stuckCtx 13, stuckPool)]) = some [lockedTx] := by
  decide

end GV.Props.C14Miner
