import GrinVerif.Gen.PipeShapeChain
import GrinVerif.Props.XlateShapeLib
/-! # Obligations about the validation pipelines (Chain), stated over the REGENERATED shape tables

`Gen/PipeShapeChain.lean` is rewritten on every check run from the current Rust source by
tools/gen_pipeshape.py.  For every function:
* `<fn>_order`  — the ORDER of the steps that can end it with an error (`?`-propagated calls, explicit
  `Err`, tail expression), by callee / error variant: a dropped, added, duplicated or moved check breaks it;
* `<fn>_propagated` — no call to a validation function (`XlateShape.watch`) has its result discarded
  (a `?` replaced by `let _ =` / `.ok();` / a bare statement breaks `_order` and this), and the list of all
  discarded calls (side-effecting helpers) is as reviewed;
* `<fn>_early_ok` — the conditions under which it returns `Ok` early, and the checks that come BEFORE the
  first early return (a new early return, or one moved in front of a check, breaks it);
* `<fn>_errors` — the explicit error variants with the innermost condition they sit under, and the variants
  introduced by `map_err` (a check weakened by changing its condition or wrapped in a new guard breaks it;
  `_depth` records the nesting depth of every step).
All are closed by `decide`.  They do not mention arguments or local names (the exact pins in
`Props/XlateShapeChainPins.lean` do).  After a REVIEWED change regenerate with
`python3 tools/gen_pipeshape.py --obligations Chain`; the ties to the hand models are in
`Props/XlateShapeModel.lean`. -/
namespace GV.Props.XlateShapeChain
open GV.Gen.PipeShape GV.Props.XlateShape

set_option maxRecDepth 4000

/-! ### `check_known (chain/src/pipe.rs)` -/
theorem pipe_check_known_order : readOk pipe_check_known = true ∧ spine pipe_check_known =
    ["check_known_head", "check_known_store"] := by decide
theorem pipe_check_known_propagated : discarded watch pipe_check_known = [] ∧ calls pipe_check_known = [] := by decide
theorem pipe_check_known_early_ok : earlyOks pipe_check_known = [] := by decide
theorem pipe_check_known_errors : fails pipe_check_known = []
    ∧ mapped pipe_check_known = [] := by decide
theorem pipe_check_known_depth : depths pipe_check_known = [1, 1] := by decide
theorem pipe_check_known_guard_inputs : guardInputs pipe_check_known = [] := by decide

/-! ### `validate_pow_only (chain/src/pipe.rs)` -/
theorem pipe_validate_pow_only_order : readOk pipe_validate_pow_only = true ∧ spine pipe_validate_pow_only =
    ["LowEdgebits", "InvalidPow"] := by decide
theorem pipe_validate_pow_only_propagated : discarded watch pipe_validate_pow_only = [] ∧ calls pipe_validate_pow_only = [] := by decide
theorem pipe_validate_pow_only_early_ok : earlyOks pipe_validate_pow_only = [["$1.opts.contains(Options::SKIP_POW)"]]
    ∧ spineBeforeFirstEarlyOk pipe_validate_pow_only = [] := by decide
theorem pipe_validate_pow_only_errors : fails pipe_validate_pow_only = [("LowEdgebits", "(!($0.pow.is_primary()) && !($0.pow.is_secondary()))"), ("InvalidPow", "($1.pow_verifier)($0).is_err()")]
    ∧ mapped pipe_validate_pow_only = [] := by decide
theorem pipe_validate_pow_only_depth : depths pipe_validate_pow_only = [1, 1] := by decide
theorem pipe_validate_pow_only_guard_inputs : guardInputs pipe_validate_pow_only = [] := by decide

/-! ### `process_block (chain/src/pipe.rs)` -/
theorem pipe_process_block_order : readOk pipe_process_block = true ∧ spine pipe_process_block =
    ["head", "check_known", "validate_pow_only", "prev_header_store", "process_block_header", "validate_block", "rewind_and_apply_fork", "verify_coinbase_maturity", "validate_utxo", "verify_block_sums", "apply_block_to_txhashset", "head", "extending", "add_block", "update_body_tail", "update_head"] := by decide
theorem pipe_process_block_propagated : discarded watch pipe_process_block = [] ∧ calls pipe_process_block = ["force_rollback"] := by decide
theorem pipe_process_block_early_ok : earlyOks pipe_process_block = [] := by decide
theorem pipe_process_block_errors : fails pipe_process_block = []
    ∧ mapped pipe_process_block = [] := by decide
theorem pipe_process_block_depth : depths pipe_process_block = [0, 0, 0, 0, 0, 0, 1, 1, 1, 1, 1, 1, 0, 0, 1, 1] := by decide
theorem pipe_process_block_guard_inputs : guardInputs pipe_process_block = ["head", "head"] := by decide

/-! ### `process_block_headers (chain/src/pipe.rs)` -/
theorem pipe_process_block_headers_order : readOk pipe_process_block_headers = true ∧ spine pipe_process_block_headers =
    ["header_head", "validate_header", "add_block_header", "rewind_and_apply_header_fork", "is_on_current_chain", "update_header_head", "header_extending"] := by decide
theorem pipe_process_block_headers_propagated : discarded watch pipe_process_block_headers = [] ∧ calls pipe_process_block_headers = ["force_rollback"] := by decide
theorem pipe_process_block_headers_early_ok : earlyOks pipe_process_block_headers = [["$0.is_empty()"]]
    ∧ spineBeforeFirstEarlyOk pipe_process_block_headers = [] := by decide
theorem pipe_process_block_headers_errors : fails pipe_process_block_headers = []
    ∧ mapped pipe_process_block_headers = [] := by decide
theorem pipe_process_block_headers_depth : depths pipe_process_block_headers = [0, 1, 1, 1, 1, 2, 0] := by decide
theorem pipe_process_block_headers_guard_inputs : guardInputs pipe_process_block_headers = ["last", "header_head", "is_on_current_chain"] := by decide

/-! ### `process_block_header (chain/src/pipe.rs)` -/
theorem pipe_process_block_header_order : readOk pipe_process_block_header = true ∧ spine pipe_process_block_header =
    ["head", "get_previous_header", "header_head", "validate_header", "rewind_and_apply_header_fork", "validate_root", "apply_header", "header_extending", "add_block_header", "update_header_head"] := by decide
theorem pipe_process_block_header_propagated : discarded watch pipe_process_block_header = [] ∧ calls pipe_process_block_header = ["force_rollback"] := by decide
theorem pipe_process_block_header_early_ok : earlyOks pipe_process_block_header = [["check_known($0, &$2, $1).is_err()"], ["$1.batch.get_block_header(&$0.hash()) ~ Ok(_)", "!(has_more_work(&$5, &$4))"]]
    ∧ spineBeforeFirstEarlyOk pipe_process_block_header = ["head"] := by decide
theorem pipe_process_block_header_errors : fails pipe_process_block_header = []
    ∧ mapped pipe_process_block_header = [] := by decide
theorem pipe_process_block_header_depth : depths pipe_process_block_header = [0, 0, 0, 0, 1, 1, 1, 0, 0, 1] := by decide
theorem pipe_process_block_header_guard_inputs : guardInputs pipe_process_block_header = ["head", "header_head"] := by decide

/-! ### `check_known_head (chain/src/pipe.rs)` -/
theorem pipe_check_known_head_order : readOk pipe_check_known_head = true ∧ spine pipe_check_known_head =
    ["Unfit"] := by decide
theorem pipe_check_known_head_propagated : discarded watch pipe_check_known_head = [] ∧ calls pipe_check_known_head = [] := by decide
theorem pipe_check_known_head_early_ok : earlyOks pipe_check_known_head = [] := by decide
theorem pipe_check_known_head_errors : fails pipe_check_known_head = [("Unfit", "(($2 == $1.last_block_h) || ($2 == $1.prev_block_h))")]
    ∧ mapped pipe_check_known_head = [] := by decide
theorem pipe_check_known_head_depth : depths pipe_check_known_head = [1] := by decide
theorem pipe_check_known_head_guard_inputs : guardInputs pipe_check_known_head = ["hash"] := by decide

/-! ### `check_known_store (chain/src/pipe.rs)` -/
theorem pipe_check_known_store_order : readOk pipe_check_known_store = true ∧ spine pipe_check_known_store =
    ["OldBlock", "Unfit", "StoreErr"] := by decide
theorem pipe_check_known_store_propagated : discarded watch pipe_check_known_store = [] ∧ calls pipe_check_known_store = [] := by decide
theorem pipe_check_known_store_early_ok : earlyOks pipe_check_known_store = [] := by decide
theorem pipe_check_known_store_errors : fails pipe_check_known_store = [("OldBlock", "($0.height < $1.height.saturating_sub(50))"), ("Unfit", "!(($0.height < $1.height.saturating_sub(50)))"), ("StoreErr", "$2.batch.block_exists(&$0.hash()) ~ Err(_)")]
    ∧ mapped pipe_check_known_store = [] := by decide
theorem pipe_check_known_store_depth : depths pipe_check_known_store = [2, 2, 1] := by decide
theorem pipe_check_known_store_guard_inputs : guardInputs pipe_check_known_store = [] := by decide

/-! ### `prev_header_store (chain/src/pipe.rs)` -/
theorem pipe_prev_header_store_order : readOk pipe_prev_header_store = true ∧ spine pipe_prev_header_store =
    ["get_previous_header"] := by decide
theorem pipe_prev_header_store_propagated : discarded watch pipe_prev_header_store = [] ∧ calls pipe_prev_header_store = [] := by decide
theorem pipe_prev_header_store_early_ok : earlyOks pipe_prev_header_store = [] := by decide
theorem pipe_prev_header_store_errors : fails pipe_prev_header_store = []
    ∧ mapped pipe_prev_header_store = [] := by decide
theorem pipe_prev_header_store_depth : depths pipe_prev_header_store = [0] := by decide
theorem pipe_prev_header_store_guard_inputs : guardInputs pipe_prev_header_store = [] := by decide

/-! ### `validate_header_ctx (chain/src/pipe.rs)` -/
theorem pipe_validate_header_ctx_order : readOk pipe_validate_header_ctx = true ∧ spine pipe_validate_header_ctx =
    ["header_allowed"] := by decide
theorem pipe_validate_header_ctx_propagated : discarded watch pipe_validate_header_ctx = [] ∧ calls pipe_validate_header_ctx = [] := by decide
theorem pipe_validate_header_ctx_early_ok : earlyOks pipe_validate_header_ctx = [] := by decide
theorem pipe_validate_header_ctx_errors : fails pipe_validate_header_ctx = []
    ∧ mapped pipe_validate_header_ctx = [] := by decide
theorem pipe_validate_header_ctx_depth : depths pipe_validate_header_ctx = [0] := by decide
theorem pipe_validate_header_ctx_guard_inputs : guardInputs pipe_validate_header_ctx = [] := by decide

/-! ### `validate_header_denylist (chain/src/pipe.rs)` -/
theorem pipe_validate_header_denylist_order : readOk pipe_validate_header_denylist = true ∧ spine pipe_validate_header_denylist =
    ["Block.Other"] := by decide
theorem pipe_validate_header_denylist_propagated : discarded watch pipe_validate_header_denylist = [] ∧ calls pipe_validate_header_denylist = [] := by decide
theorem pipe_validate_header_denylist_early_ok : earlyOks pipe_validate_header_denylist = [["$1.is_empty()"], ["!($1.contains(&$0.hash()))"]]
    ∧ spineBeforeFirstEarlyOk pipe_validate_header_denylist = [] := by decide
theorem pipe_validate_header_denylist_errors : fails pipe_validate_header_denylist = [("Block.Other", "$1.contains(&$0.hash())")]
    ∧ mapped pipe_validate_header_denylist = [] := by decide
theorem pipe_validate_header_denylist_depth : depths pipe_validate_header_denylist = [1] := by decide
theorem pipe_validate_header_denylist_guard_inputs : guardInputs pipe_validate_header_denylist = [] := by decide

/-! ### `validate_header (chain/src/pipe.rs)` -/
theorem pipe_validate_header_order : readOk pipe_validate_header = true ∧ spine pipe_validate_header =
    ["validate_header_ctx", "prev_header_store", "InvalidBlockHeight", "InvalidBlockVersion", "InvalidBlockTime", "InvalidMMRSize", "Block.TooHeavy", "validate_pow_only", "DifficultyTooLow", "DifficultyTooLow", "child", "WrongTotalDifficulty", "InvalidScaling"] := by decide
theorem pipe_validate_header_propagated : discarded watch pipe_validate_header = [] ∧ calls pipe_validate_header = [] := by decide
theorem pipe_validate_header_early_ok : earlyOks pipe_validate_header = [] := by decide
theorem pipe_validate_header_errors : fails pipe_validate_header = [("InvalidBlockHeight", "($0.height != ($2.height + 1))"), ("InvalidBlockVersion", "!(consensus::valid_header_version($0.height, $0.version))"), ("InvalidBlockTime", "($0.timestamp <= $2.timestamp)"), ("InvalidMMRSize", "(($3 == 0) || ($4 == 0))"), ("Block.TooHeavy", "($5 > global::max_block_weight())"), ("DifficultyTooLow", "($0.total_difficulty() <= $2.total_difficulty())"), ("DifficultyTooLow", "($0.pow.to_difficulty($0.height) < $6)"), ("WrongTotalDifficulty", "($6 != $9.difficulty)"), ("InvalidScaling", "(($0.version < HeaderVersion(5)) && ($0.pow.secondary_scaling != $9.secondary_scaling))")]
    ∧ mapped pipe_validate_header = [] := by decide
theorem pipe_validate_header_depth : depths pipe_validate_header = [0, 0, 1, 1, 1, 1, 1, 1, 2, 2, 1, 2, 2] := by decide
theorem pipe_validate_header_guard_inputs : guardInputs pipe_validate_header = ["prev_header_store", "saturating_sub", "saturating_sub", "weight_by_iok", "<bin>", "child", "from_batch", "next_difficulty"] := by decide

/-! ### `validate_block (chain/src/pipe.rs)` -/
theorem pipe_validate_block_order : readOk pipe_validate_block = true ∧ spine pipe_validate_block =
    ["get_previous_header", "validate"] := by decide
theorem pipe_validate_block_propagated : discarded watch pipe_validate_block = [] ∧ calls pipe_validate_block = [] := by decide
theorem pipe_validate_block_early_ok : earlyOks pipe_validate_block = [] := by decide
theorem pipe_validate_block_errors : fails pipe_validate_block = []
    ∧ mapped pipe_validate_block = [] := by decide
theorem pipe_validate_block_depth : depths pipe_validate_block = [0, 0] := by decide
theorem pipe_validate_block_guard_inputs : guardInputs pipe_validate_block = [] := by decide

/-! ### `verify_coinbase_maturity (chain/src/pipe.rs)` -/
theorem pipe_verify_coinbase_maturity_order : readOk pipe_verify_coinbase_maturity = true ∧ spine pipe_verify_coinbase_maturity =
    ["verify_coinbase_maturity"] := by decide
theorem pipe_verify_coinbase_maturity_propagated : discarded watch pipe_verify_coinbase_maturity = [] ∧ calls pipe_verify_coinbase_maturity = [] := by decide
theorem pipe_verify_coinbase_maturity_early_ok : earlyOks pipe_verify_coinbase_maturity = [] := by decide
theorem pipe_verify_coinbase_maturity_errors : fails pipe_verify_coinbase_maturity = []
    ∧ mapped pipe_verify_coinbase_maturity = [] := by decide
theorem pipe_verify_coinbase_maturity_depth : depths pipe_verify_coinbase_maturity = [0] := by decide
theorem pipe_verify_coinbase_maturity_guard_inputs : guardInputs pipe_verify_coinbase_maturity = [] := by decide

/-! ### `verify_block_sums (chain/src/pipe.rs)` -/
theorem pipe_verify_block_sums_order : readOk pipe_verify_block_sums = true ∧ spine pipe_verify_block_sums =
    ["get_block_sums", "verify_kernel_sums", "save_block_sums"] := by decide
theorem pipe_verify_block_sums_propagated : discarded watch pipe_verify_block_sums = [] ∧ calls pipe_verify_block_sums = [] := by decide
theorem pipe_verify_block_sums_early_ok : earlyOks pipe_verify_block_sums = [] := by decide
theorem pipe_verify_block_sums_errors : fails pipe_verify_block_sums = []
    ∧ mapped pipe_verify_block_sums = [] := by decide
theorem pipe_verify_block_sums_depth : depths pipe_verify_block_sums = [0, 0, 0] := by decide
theorem pipe_verify_block_sums_guard_inputs : guardInputs pipe_verify_block_sums = [] := by decide

/-! ### `apply_block_to_txhashset (chain/src/pipe.rs)` -/
theorem pipe_apply_block_to_txhashset_order : readOk pipe_apply_block_to_txhashset = true ∧ spine pipe_apply_block_to_txhashset =
    ["apply_block", "validate_roots", "validate_sizes"] := by decide
theorem pipe_apply_block_to_txhashset_propagated : discarded watch pipe_apply_block_to_txhashset = [] ∧ calls pipe_apply_block_to_txhashset = [] := by decide
theorem pipe_apply_block_to_txhashset_early_ok : earlyOks pipe_apply_block_to_txhashset = [] := by decide
theorem pipe_apply_block_to_txhashset_errors : fails pipe_apply_block_to_txhashset = []
    ∧ mapped pipe_apply_block_to_txhashset = [] := by decide
theorem pipe_apply_block_to_txhashset_depth : depths pipe_apply_block_to_txhashset = [0, 0, 0] := by decide
theorem pipe_apply_block_to_txhashset_guard_inputs : guardInputs pipe_apply_block_to_txhashset = [] := by decide

/-! ### `add_block (chain/src/pipe.rs)` -/
theorem pipe_add_block_order : readOk pipe_add_block = true ∧ spine pipe_add_block =
    ["save_block"] := by decide
theorem pipe_add_block_propagated : discarded watch pipe_add_block = [] ∧ calls pipe_add_block = [] := by decide
theorem pipe_add_block_early_ok : earlyOks pipe_add_block = [] := by decide
theorem pipe_add_block_errors : fails pipe_add_block = []
    ∧ mapped pipe_add_block = [] := by decide
theorem pipe_add_block_depth : depths pipe_add_block = [0] := by decide
theorem pipe_add_block_guard_inputs : guardInputs pipe_add_block = [] := by decide

/-! ### `update_body_tail (chain/src/pipe.rs)` -/
theorem pipe_update_body_tail_order : readOk pipe_update_body_tail = true ∧ spine pipe_update_body_tail =
    ["StoreErr", "save_body_tail"] := by decide
theorem pipe_update_body_tail_propagated : discarded watch pipe_update_body_tail = [] ∧ calls pipe_update_body_tail = [] := by decide
theorem pipe_update_body_tail_early_ok : earlyOks pipe_update_body_tail = [] := by decide
theorem pipe_update_body_tail_errors : fails pipe_update_body_tail = []
    ∧ mapped pipe_update_body_tail = [("save_body_tail", "StoreErr")] := by decide
theorem pipe_update_body_tail_depth : depths pipe_update_body_tail = [1, 0] := by decide
theorem pipe_update_body_tail_guard_inputs : guardInputs pipe_update_body_tail = [] := by decide

/-! ### `add_block_header (chain/src/pipe.rs)` -/
theorem pipe_add_block_header_order : readOk pipe_add_block_header = true ∧ spine pipe_add_block_header =
    ["StoreErr", "save_block_header"] := by decide
theorem pipe_add_block_header_propagated : discarded watch pipe_add_block_header = [] ∧ calls pipe_add_block_header = [] := by decide
theorem pipe_add_block_header_early_ok : earlyOks pipe_add_block_header = [] := by decide
theorem pipe_add_block_header_errors : fails pipe_add_block_header = []
    ∧ mapped pipe_add_block_header = [("save_block_header", "StoreErr")] := by decide
theorem pipe_add_block_header_depth : depths pipe_add_block_header = [1, 0] := by decide
theorem pipe_add_block_header_guard_inputs : guardInputs pipe_add_block_header = [] := by decide

/-! ### `update_header_head (chain/src/pipe.rs)` -/
theorem pipe_update_header_head_order : readOk pipe_update_header_head = true ∧ spine pipe_update_header_head =
    ["StoreErr", "save_header_head"] := by decide
theorem pipe_update_header_head_propagated : discarded watch pipe_update_header_head = [] ∧ calls pipe_update_header_head = [] := by decide
theorem pipe_update_header_head_early_ok : earlyOks pipe_update_header_head = [] := by decide
theorem pipe_update_header_head_errors : fails pipe_update_header_head = []
    ∧ mapped pipe_update_header_head = [("save_header_head", "StoreErr")] := by decide
theorem pipe_update_header_head_depth : depths pipe_update_header_head = [1, 0] := by decide
theorem pipe_update_header_head_guard_inputs : guardInputs pipe_update_header_head = [] := by decide

/-! ### `update_head (chain/src/pipe.rs)` -/
theorem pipe_update_head_order : readOk pipe_update_head = true ∧ spine pipe_update_head =
    ["StoreErr", "save_body_head"] := by decide
theorem pipe_update_head_propagated : discarded watch pipe_update_head = [] ∧ calls pipe_update_head = [] := by decide
theorem pipe_update_head_early_ok : earlyOks pipe_update_head = [] := by decide
theorem pipe_update_head_errors : fails pipe_update_head = []
    ∧ mapped pipe_update_head = [("save_body_head", "StoreErr")] := by decide
theorem pipe_update_head_depth : depths pipe_update_head = [1, 0] := by decide
theorem pipe_update_head_guard_inputs : guardInputs pipe_update_head = [] := by decide

/-! ### `has_more_work (chain/src/pipe.rs)` -/
theorem pipe_has_more_work_order : readOk pipe_has_more_work = true ∧ spine pipe_has_more_work =
    ["<bin>"] := by decide
theorem pipe_has_more_work_propagated : discarded watch pipe_has_more_work = [] ∧ calls pipe_has_more_work = [] := by decide
theorem pipe_has_more_work_early_ok : earlyOks pipe_has_more_work = [] := by decide
theorem pipe_has_more_work_errors : fails pipe_has_more_work = []
    ∧ mapped pipe_has_more_work = [] := by decide
theorem pipe_has_more_work_depth : depths pipe_has_more_work = [0] := by decide
theorem pipe_has_more_work_guard_inputs : guardInputs pipe_has_more_work = [] := by decide

/-! ### `rewind_and_apply_header_fork (chain/src/pipe.rs)` -/
theorem pipe_rewind_and_apply_header_fork_order : readOk pipe_rewind_and_apply_header_fork = true ∧ spine pipe_rewind_and_apply_header_fork =
    ["is_on_current_chain", "get_previous_header", "rewind", "StoreErr", "get_block_header", "$3", "validate_root", "apply_header"] := by decide
theorem pipe_rewind_and_apply_header_fork_propagated : discarded watch pipe_rewind_and_apply_header_fork = [] ∧ calls pipe_rewind_and_apply_header_fork = ["push", "reverse"] := by decide
theorem pipe_rewind_and_apply_header_fork_early_ok : earlyOks pipe_rewind_and_apply_header_fork = [] := by decide
theorem pipe_rewind_and_apply_header_fork_errors : fails pipe_rewind_and_apply_header_fork = []
    ∧ mapped pipe_rewind_and_apply_header_fork = [("get_block_header", "StoreErr")] := by decide
theorem pipe_rewind_and_apply_header_fork_depth : depths pipe_rewind_and_apply_header_fork = [1, 1, 0, 2, 1, 1, 1, 1] := by decide
theorem pipe_rewind_and_apply_header_fork_guard_inputs : guardInputs pipe_rewind_and_apply_header_fork = ["<vec>", "header", "get_previous_header"] := by decide

/-! ### `rewind_and_apply_fork (chain/src/pipe.rs)` -/
theorem pipe_rewind_and_apply_fork_order : readOk pipe_rewind_and_apply_fork = true ∧ spine pipe_rewind_and_apply_fork =
    ["rewind_and_apply_header_fork", "head_header", "is_on_current_chain", "get_previous_header", "rewind", "get_previous_header", "StoreErr", "get_block", "verify_coinbase_maturity", "validate_utxo", "verify_block_sums", "apply_block_to_txhashset"] := by decide
theorem pipe_rewind_and_apply_fork_propagated : discarded watch pipe_rewind_and_apply_fork = [] ∧ calls pipe_rewind_and_apply_fork = ["push", "reverse"] := by decide
theorem pipe_rewind_and_apply_fork_early_ok : earlyOks pipe_rewind_and_apply_fork = [] := by decide
theorem pipe_rewind_and_apply_fork_errors : fails pipe_rewind_and_apply_fork = []
    ∧ mapped pipe_rewind_and_apply_fork = [("get_block", "StoreErr")] := by decide
theorem pipe_rewind_and_apply_fork_depth : depths pipe_rewind_and_apply_fork = [0, 0, 1, 1, 0, 1, 2, 1, 1, 1, 1, 1] := by decide
theorem pipe_rewind_and_apply_fork_guard_inputs : guardInputs pipe_rewind_and_apply_fork = ["header_extension", "head_header", "get_previous_header", "current", "<vec>", "header", "get_previous_header"] := by decide

/-! ### `validate_utxo (chain/src/pipe.rs)` -/
theorem pipe_validate_utxo_order : readOk pipe_validate_utxo = true ∧ spine pipe_validate_utxo =
    ["validate_block"] := by decide
theorem pipe_validate_utxo_propagated : discarded watch pipe_validate_utxo = [] ∧ calls pipe_validate_utxo = [] := by decide
theorem pipe_validate_utxo_early_ok : earlyOks pipe_validate_utxo = [] := by decide
theorem pipe_validate_utxo_errors : fails pipe_validate_utxo = []
    ∧ mapped pipe_validate_utxo = [] := by decide
theorem pipe_validate_utxo_depth : depths pipe_validate_utxo = [0] := by decide
theorem pipe_validate_utxo_guard_inputs : guardInputs pipe_validate_utxo = [] := by decide

/-! ### `UTXOView::validate_block (chain/src/txhashset/utxo_view.rs)` -/
theorem utxo_validate_block_order : readOk utxo_validate_block = true ∧ spine utxo_validate_block =
    ["validate_output", "validate_inputs"] := by decide
theorem utxo_validate_block_propagated : discarded watch utxo_validate_block = [] ∧ calls utxo_validate_block = [] := by decide
theorem utxo_validate_block_early_ok : earlyOks utxo_validate_block = [] := by decide
theorem utxo_validate_block_errors : fails utxo_validate_block = []
    ∧ mapped utxo_validate_block = [] := by decide
theorem utxo_validate_block_depth : depths utxo_validate_block = [1, 0] := by decide
theorem utxo_validate_block_guard_inputs : guardInputs utxo_validate_block = [] := by decide

/-! ### `UTXOView::validate_tx (chain/src/txhashset/utxo_view.rs)` -/
theorem utxo_validate_tx_order : readOk utxo_validate_tx = true ∧ spine utxo_validate_tx =
    ["validate_output", "validate_inputs"] := by decide
theorem utxo_validate_tx_propagated : discarded watch utxo_validate_tx = [] ∧ calls utxo_validate_tx = [] := by decide
theorem utxo_validate_tx_early_ok : earlyOks utxo_validate_tx = [] := by decide
theorem utxo_validate_tx_errors : fails utxo_validate_tx = []
    ∧ mapped utxo_validate_tx = [] := by decide
theorem utxo_validate_tx_depth : depths utxo_validate_tx = [1, 0] := by decide
theorem utxo_validate_tx_guard_inputs : guardInputs utxo_validate_tx = [] := by decide

/-! ### `UTXOView::validate_input (chain/src/txhashset/utxo_view.rs)` -/
theorem utxo_validate_input_order : readOk utxo_validate_input = true ∧ spine utxo_validate_input =
    ["get_output_pos_height", "Other", "AlreadySpent"] := by decide
theorem utxo_validate_input_propagated : discarded watch utxo_validate_input = [] ∧ calls utxo_validate_input = [] := by decide
theorem utxo_validate_input_early_ok : earlyOks utxo_validate_input = [["$2 ~ Some(_)", "self.output_pmmr.get_data(($3.pos - 1)) ~ Some(_)", "($4.commitment() == $0)"]]
    ∧ spineBeforeFirstEarlyOk utxo_validate_input = ["get_output_pos_height"] := by decide
theorem utxo_validate_input_errors : fails utxo_validate_input = [("Other", "!(($4.commitment() == $0))"), ("AlreadySpent", "")]
    ∧ mapped utxo_validate_input = [] := by decide
theorem utxo_validate_input_depth : depths utxo_validate_input = [0, 3, 0] := by decide
theorem utxo_validate_input_guard_inputs : guardInputs utxo_validate_input = ["get_output_pos_height"] := by decide

/-! ### `UTXOView::validate_inputs (chain/src/txhashset/utxo_view.rs)` -/
theorem utxo_validate_inputs_order : readOk utxo_validate_inputs = true ∧ spine utxo_validate_inputs =
    ["validate_input", "outputs_spent", "Other", "validate_input", "outputs_spent"] := by decide
theorem utxo_validate_inputs_propagated : discarded watch utxo_validate_inputs = [] ∧ calls utxo_validate_inputs = [] := by decide
theorem utxo_validate_inputs_early_ok : earlyOks utxo_validate_inputs = [] := by decide
theorem utxo_validate_inputs_errors : fails utxo_validate_inputs = [("Other", "!(($9 == $8.into()))")]
    ∧ mapped utxo_validate_inputs = [] := by decide
theorem utxo_validate_inputs_depth : depths utxo_validate_inputs = [2, 1, 4, 2, 1] := by decide
theorem utxo_validate_inputs_guard_inputs : guardInputs utxo_validate_inputs = [] := by decide

/-! ### `UTXOView::validate_output (chain/src/txhashset/utxo_view.rs)` -/
theorem utxo_validate_output_order : readOk utxo_validate_output = true ∧ spine utxo_validate_output =
    ["DuplicateCommitment"] := by decide
theorem utxo_validate_output_propagated : discarded watch utxo_validate_output = [] ∧ calls utxo_validate_output = [] := by decide
theorem utxo_validate_output_early_ok : earlyOks utxo_validate_output = [] := by decide
theorem utxo_validate_output_errors : fails utxo_validate_output = [("DuplicateCommitment", "($3.commitment() == $0.commitment())")]
    ∧ mapped utxo_validate_output = [] := by decide
theorem utxo_validate_output_depth : depths utxo_validate_output = [3] := by decide
theorem utxo_validate_output_guard_inputs : guardInputs utxo_validate_output = [] := by decide

/-! ### `UTXOView::verify_coinbase_maturity (chain/src/txhashset/utxo_view.rs)` -/
theorem utxo_verify_coinbase_maturity_order : readOk utxo_verify_coinbase_maturity = true ∧ spine utxo_verify_coinbase_maturity =
    ["validate_input", "spent", "pos", "None", "ImmatureCoinbase", "get_header_by_height", "ImmatureCoinbase"] := by decide
theorem utxo_verify_coinbase_maturity_propagated : discarded watch utxo_verify_coinbase_maturity = [] ∧ calls utxo_verify_coinbase_maturity = [] := by decide
theorem utxo_verify_coinbase_maturity_early_ok : earlyOks utxo_verify_coinbase_maturity = [] := by decide
theorem utxo_verify_coinbase_maturity_errors : fails utxo_verify_coinbase_maturity = [("ImmatureCoinbase", "($1 < global::coinbase_maturity())"), ("ImmatureCoinbase", "($9 > $12)")]
    ∧ mapped utxo_verify_coinbase_maturity = [] := by decide
theorem utxo_verify_coinbase_maturity_depth : depths utxo_verify_coinbase_maturity = [1, 0, 2, 2, 2, 1, 2] := by decide
theorem utxo_verify_coinbase_maturity_guard_inputs : guardInputs utxo_verify_coinbase_maturity = ["inputs", "inputs", "max", "saturating_sub", "get_header_by_height", "output_mmr_size"] := by decide

/-! ### `Extension::apply_block (chain/src/txhashset/txhashset.rs)` -/
theorem ext_apply_block_order : readOk ext_apply_block = true ∧ spine ext_apply_block =
    ["apply_output", "save_output_pos_height", "validate_inputs", "apply_input", "delete_output_pos_height", "pos", "save_spent_index", "apply_kernels", "apply_to_bitmap_accumulator"] := by decide
theorem ext_apply_block_propagated : discarded watch ext_apply_block = [] ∧ calls ext_apply_block = ["push", "push"] := by decide
theorem ext_apply_block_early_ok : earlyOks ext_apply_block = [] := by decide
theorem ext_apply_block_errors : fails ext_apply_block = []
    ∧ mapped ext_apply_block = [] := by decide
theorem ext_apply_block_depth : depths ext_apply_block = [1, 1, 0, 1, 1, 1, 0, 0, 0] := by decide
theorem ext_apply_block_guard_inputs : guardInputs ext_apply_block = ["validate_inputs"] := by decide

/-! ### `Extension::apply_input (chain/src/txhashset/txhashset.rs)` -/
theorem ext_apply_input_order : readOk ext_apply_input = true ∧ spine ext_apply_input =
    ["prune", "AlreadySpent", "TxHashSetErr"] := by decide
theorem ext_apply_input_propagated : discarded watch ext_apply_input = [] ∧ calls ext_apply_input = [] := by decide
theorem ext_apply_input_early_ok : earlyOks ext_apply_input = [] := by decide
theorem ext_apply_input_errors : fails ext_apply_input = [("AlreadySpent", "self.output_pmmr.prune(($1.pos - 1)) ~ Ok(_)"), ("TxHashSetErr", "self.output_pmmr.prune(($1.pos - 1)) ~ Err(_)")]
    ∧ mapped ext_apply_input = [("prune", "TxHashSetErr")] := by decide
theorem ext_apply_input_depth : depths ext_apply_input = [1, 1, 1] := by decide
theorem ext_apply_input_guard_inputs : guardInputs ext_apply_input = [] := by decide

/-! ### `Extension::apply_output (chain/src/txhashset/txhashset.rs)` -/
theorem ext_apply_output_order : readOk ext_apply_output = true ∧ spine ext_apply_output =
    ["DuplicateCommitment", "push", "push", "Other", "Other"] := by decide
theorem ext_apply_output_propagated : discarded watch ext_apply_output = [] ∧ calls ext_apply_output = [] := by decide
theorem ext_apply_output_early_ok : earlyOks ext_apply_output = [] := by decide
theorem ext_apply_output_errors : fails ext_apply_output = [("DuplicateCommitment", "($4.commitment() == $2)"), ("Other", "(self.output_pmmr.unpruned_size() != self.rproof_pmmr.unpruned_size())"), ("Other", "($5 != $6)")]
    ∧ mapped ext_apply_output = [("push", "TxHashSetErr"), ("push", "TxHashSetErr")] := by decide
theorem ext_apply_output_depth : depths ext_apply_output = [3, 0, 0, 1, 1] := by decide
theorem ext_apply_output_guard_inputs : guardInputs ext_apply_output = ["commitment", "push", "push"] := by decide

/-! ### `Extension::apply_kernel (chain/src/txhashset/txhashset.rs)` -/
theorem ext_apply_kernel_order : readOk ext_apply_kernel = true ∧ spine ext_apply_kernel =
    ["push"] := by decide
theorem ext_apply_kernel_propagated : discarded watch ext_apply_kernel = [] ∧ calls ext_apply_kernel = [] := by decide
theorem ext_apply_kernel_early_ok : earlyOks ext_apply_kernel = [] := by decide
theorem ext_apply_kernel_errors : fails ext_apply_kernel = []
    ∧ mapped ext_apply_kernel = [("push", "TxHashSetErr")] := by decide
theorem ext_apply_kernel_depth : depths ext_apply_kernel = [0] := by decide
theorem ext_apply_kernel_guard_inputs : guardInputs ext_apply_kernel = [] := by decide

/-! ### `Extension::rewind (chain/src/txhashset/txhashset.rs)` -/
theorem ext_rewind_order : readOk ext_rewind = true ∧ spine ext_rewind =
    ["get_block_header", "rewind_mmrs_to_pos", "apply_to_bitmap_accumulator", "get_block", "rewind_single_block", "get_previous_header", "apply_to_bitmap_accumulator"] := by decide
theorem ext_rewind_propagated : discarded watch ext_rewind = [] ∧ calls ext_rewind = ["append"] := by decide
theorem ext_rewind_early_ok : earlyOks ext_rewind = [] := by decide
theorem ext_rewind_errors : fails ext_rewind = []
    ∧ mapped ext_rewind = [] := by decide
theorem ext_rewind_depth : depths ext_rewind = [0, 1, 1, 2, 2, 2, 1] := by decide
theorem ext_rewind_guard_inputs : guardInputs ext_rewind = ["get_block_header", "head_header", "get_previous_header"] := by decide

/-! ### `Extension::rewind_single_block (chain/src/txhashset/txhashset.rs)` -/
theorem ext_rewind_single_block_order : readOk ext_rewind_single_block = true ∧ spine ext_rewind_single_block =
    ["get_previous_header", "pos", "get_block_input_bitmap", "x", "rewind_mmrs_to_pos", "get_previous_header", "rewind_mmrs_to_pos", "rewind", "save_output_pos_height"] := by decide
theorem ext_rewind_single_block_propagated : discarded watch ext_rewind_single_block = [] ∧ calls ext_rewind_single_block = ["push"] := by decide
theorem ext_rewind_single_block_early_ok : earlyOks ext_rewind_single_block = [] := by decide
theorem ext_rewind_single_block_errors : fails ext_rewind_single_block = []
    ∧ mapped ext_rewind_single_block = [] := by decide
theorem ext_rewind_single_block_depth : depths ext_rewind_single_block = [0, 2, 1, 2, 1, 1, 1, 3, 3] := by decide
theorem ext_rewind_single_block_guard_inputs : guardInputs ext_rewind_single_block = ["header", "get_spent_index"] := by decide

/-! ### `Extension::validate_roots (chain/src/txhashset/txhashset.rs)` -/
theorem ext_validate_roots_order : readOk ext_validate_roots = true ∧ spine ext_validate_roots =
    ["roots", "validate"] := by decide
theorem ext_validate_roots_propagated : discarded watch ext_validate_roots = [] ∧ calls ext_validate_roots = [] := by decide
theorem ext_validate_roots_early_ok : earlyOks ext_validate_roots = [["($0.height == 0)"]]
    ∧ spineBeforeFirstEarlyOk ext_validate_roots = [] := by decide
theorem ext_validate_roots_errors : fails ext_validate_roots = []
    ∧ mapped ext_validate_roots = [] := by decide
theorem ext_validate_roots_depth : depths ext_validate_roots = [0, 0] := by decide
theorem ext_validate_roots_guard_inputs : guardInputs ext_validate_roots = [] := by decide

/-! ### `Extension::validate_sizes (chain/src/txhashset/txhashset.rs)` -/
theorem ext_validate_sizes_order : readOk ext_validate_sizes = true ∧ spine ext_validate_sizes =
    ["InvalidMMRSize"] := by decide
theorem ext_validate_sizes_propagated : discarded watch ext_validate_sizes = [] ∧ calls ext_validate_sizes = [] := by decide
theorem ext_validate_sizes_early_ok : earlyOks ext_validate_sizes = [["($0.height == 0)"]]
    ∧ spineBeforeFirstEarlyOk ext_validate_sizes = [] := by decide
theorem ext_validate_sizes_errors : fails ext_validate_sizes = [("InvalidMMRSize", "(($0.output_mmr_size, $0.output_mmr_size, $0.kernel_mmr_size) != self.sizes())")]
    ∧ mapped ext_validate_sizes = [] := by decide
theorem ext_validate_sizes_depth : depths ext_validate_sizes = [1] := by decide
theorem ext_validate_sizes_guard_inputs : guardInputs ext_validate_sizes = [] := by decide

/-! ### `Extension::validate_mmrs (chain/src/txhashset/txhashset.rs)` -/
theorem ext_validate_mmrs_order : readOk ext_validate_mmrs = true ∧ spine ext_validate_mmrs =
    ["InvalidTxHashSet", "InvalidTxHashSet", "InvalidTxHashSet"] := by decide
theorem ext_validate_mmrs_propagated : discarded watch ext_validate_mmrs = [] ∧ calls ext_validate_mmrs = [] := by decide
theorem ext_validate_mmrs_early_ok : earlyOks ext_validate_mmrs = [] := by decide
theorem ext_validate_mmrs_errors : fails ext_validate_mmrs = [("InvalidTxHashSet", "self.output_pmmr.validate() ~ Err(_)"), ("InvalidTxHashSet", "self.rproof_pmmr.validate() ~ Err(_)"), ("InvalidTxHashSet", "self.kernel_pmmr.validate() ~ Err(_)")]
    ∧ mapped ext_validate_mmrs = [] := by decide
theorem ext_validate_mmrs_depth : depths ext_validate_mmrs = [1, 1, 1] := by decide
theorem ext_validate_mmrs_guard_inputs : guardInputs ext_validate_mmrs = [] := by decide

/-! ### `Extension::validate (chain/src/txhashset/txhashset.rs)` -/
theorem ext_validate_order : readOk ext_validate = true ∧ spine ext_validate =
    ["validate_mmrs", "validate_roots", "validate_sizes", "validate_kernel_sums", "verify_rangeproofs", "Stopped", "verify_kernel_signatures", "Stopped"] := by decide
theorem ext_validate_propagated : discarded watch ext_validate = [] ∧ calls ext_validate = [] := by decide
theorem ext_validate_early_ok : earlyOks ext_validate = [["(self.head.height == 0)"]]
    ∧ spineBeforeFirstEarlyOk ext_validate = ["validate_mmrs", "validate_roots", "validate_sizes"] := by decide
theorem ext_validate_errors : fails ext_validate = [("Stopped", "$10.is_stopped()"), ("Stopped", "$11.is_stopped()")]
    ∧ mapped ext_validate = [] := by decide
theorem ext_validate_depth : depths ext_validate = [0, 0, 0, 0, 1, 3, 1, 3] := by decide
theorem ext_validate_guard_inputs : guardInputs ext_validate = [] := by decide

/-! ### `Extension::validate_kernel_sums (chain/src/txhashset/txhashset.rs)` -/
theorem ext_validate_kernel_sums_order : readOk ext_validate_kernel_sums = true ∧ spine ext_validate_kernel_sums =
    ["verify_kernel_sums"] := by decide
theorem ext_validate_kernel_sums_propagated : discarded watch ext_validate_kernel_sums = [] ∧ calls ext_validate_kernel_sums = [] := by decide
theorem ext_validate_kernel_sums_early_ok : earlyOks ext_validate_kernel_sums = [] := by decide
theorem ext_validate_kernel_sums_errors : fails ext_validate_kernel_sums = []
    ∧ mapped ext_validate_kernel_sums = [] := by decide
theorem ext_validate_kernel_sums_depth : depths ext_validate_kernel_sums = [0] := by decide
theorem ext_validate_kernel_sums_guard_inputs : guardInputs ext_validate_kernel_sums = [] := by decide

/-! ### `HeaderExtension::apply_header (chain/src/txhashset/txhashset.rs)` -/
theorem hext_apply_header_order : readOk hext_apply_header = true ∧ spine hext_apply_header =
    ["push"] := by decide
theorem hext_apply_header_propagated : discarded watch hext_apply_header = [] ∧ calls hext_apply_header = [] := by decide
theorem hext_apply_header_early_ok : earlyOks hext_apply_header = [] := by decide
theorem hext_apply_header_errors : fails hext_apply_header = []
    ∧ mapped hext_apply_header = [("push", "TxHashSetErr")] := by decide
theorem hext_apply_header_depth : depths hext_apply_header = [0] := by decide
theorem hext_apply_header_guard_inputs : guardInputs hext_apply_header = [] := by decide

/-! ### `HeaderExtension::rewind (chain/src/txhashset/txhashset.rs)` -/
theorem hext_rewind_order : readOk hext_rewind = true ∧ spine hext_rewind =
    ["rewind"] := by decide
theorem hext_rewind_propagated : discarded watch hext_rewind = [] ∧ calls hext_rewind = [] := by decide
theorem hext_rewind_early_ok : earlyOks hext_rewind = [] := by decide
theorem hext_rewind_errors : fails hext_rewind = []
    ∧ mapped hext_rewind = [("rewind", "TxHashSetErr")] := by decide
theorem hext_rewind_depth : depths hext_rewind = [0] := by decide
theorem hext_rewind_guard_inputs : guardInputs hext_rewind = [] := by decide

/-! ### `HeaderExtension::validate_root (chain/src/txhashset/txhashset.rs)` -/
theorem hext_validate_root_order : readOk hext_validate_root = true ∧ spine hext_validate_root =
    ["root", "InvalidRoot"] := by decide
theorem hext_validate_root_propagated : discarded watch hext_validate_root = [] ∧ calls hext_validate_root = [] := by decide
theorem hext_validate_root_early_ok : earlyOks hext_validate_root = [["($0.height == 0)"]]
    ∧ spineBeforeFirstEarlyOk hext_validate_root = [] := by decide
theorem hext_validate_root_errors : fails hext_validate_root = [("InvalidRoot", "(self.root()? != $0.prev_root)")]
    ∧ mapped hext_validate_root = [] := by decide
theorem hext_validate_root_depth : depths hext_validate_root = [0, 1] := by decide
theorem hext_validate_root_guard_inputs : guardInputs hext_validate_root = [] := by decide

end GV.Props.XlateShapeChain
