import GrinVerif.Model.ChainKnown
import GrinVerif.Gen.PipeShapeChain
import GrinVerif.Props.XlateShapeLib
/-! # The regenerated shape of `pipe::process_block` / `check_known*` = the order of checks of the
hand model (`Model/ChainKnown.lean`)

`pipeProcessBlockK` is shown (for ALL inputs) to be "the header once more, then the first failing
stage of an explicit LIST of named stages"; the names of that list, in order, are shown (`decide`)
to be the error spine that tools/gen_pipeshape.py reads from the CURRENT source of
`chain/src/pipe.rs::process_block`. So a check of `process_block` that is dropped, moved or added
breaks `process_block_shape_is_model`; the work condition in front of `check_known_head` /
`check_known_store`, the two hashes `check_known_head` looks at, the `OldBlock` / `Unfit` split of
`check_known_store` and the guards of `update_head` / `force_rollback` are pinned likewise. -/
namespace GV.Props.C03Shape
open GV GV.Chain GV.Gen.PipeShape GV.Props.XlateShape

/-- a stage of `pipe::process_block` after the header was processed: the code's step it belongs
to, whether the code has a step of that name (`false`: a model-only outcome), and when it fails -/
structure Stage where
  name : String
  inCode : Bool
  fails : Params → List Nat → Node → Blk → Nat → Option Err

/-- the replayed state of the parent's own path, once `rewind_and_apply_fork` is through -/
def parState (p : Params) (n2 : Node) (par : Nat) : UState :=
  match n2.stateAt p par with
  | .ok s => s
  | .error _ => {}

def stages : List Stage := [
  ⟨"rewind_and_apply_fork (own path replays)", false, fun p _ n2 _ par =>
    match n2.stateAt p par with
    | .error e => some s!"ParentState:{e}"
    | .ok _ => none⟩,
  ⟨"validate_block", true, fun p _ n2 b _ => validateBody p n2.outs b (sumVals n2.outs b.ins)⟩,
  ⟨"rewind_and_apply_fork", true, fun _ deny n2 _ par => if forkDenied deny n2 par then some "Block" else none⟩,
  ⟨"verify_coinbase_maturity", true, fun p _ n2 b par =>
    if !(b.ins.all (parState p n2 par).has) then some "AlreadySpent"
    else if immature p (parState p n2 par) b then some "ImmatureCoinbase" else none⟩,
  ⟨"validate_utxo", true, fun p _ n2 b par =>
    if dupOutput (parState p n2 par) b then some "DuplicateCommitment" else none⟩,
  ⟨"verify_block_sums", true, fun _ _ _ b _ => hasTag b "sums:"⟩,
  ⟨"apply_block_to_txhashset", true, fun p _ n2 b par =>
    if nrdBad (parState p n2 par) b then some "NRDRelativeHeight" else hasTag b "late:"⟩ ]

/-- first failing stage -/
def run (p : Params) (deny : List Nat) (n2 : Node) (b : Blk) (par : Nat) : List Stage → Option Err
  | [] => none
  | s :: rest => match s.fails p deny n2 b par with
    | some e => some e
    | none => run p deny n2 b par rest

/-- **the model is the stage list**: `pipe::process_block` after `check_known` = the header once
more, then the first failing stage of `stages` in order, else the block's effects on its own
parent's replayed state -/
theorem pipeProcessBlockK_stages (p : Params) (deny : List Nat) (n1 : Node) (b : Blk) (par : Nat) :
    pipeProcessBlockK p deny n1 b par =
      match processHeaderK p deny n1 b with
      | .error e => .error e
      | .ok n2 => match run p deny n2 b par stages with
        | some e => .error e
        | none => .ok (n2, effects (parState p n2 par) b) := by
  unfold pipeProcessBlockK
  cases processHeaderK p deny n1 b with
  | error e => rfl
  | ok n2 =>
    simp only
    cases hst : n2.stateAt p par with
    | error e => simp [stages, run, hst]
    | ok sPar =>
      simp only [stages, run, parState, hst]
      cases validateBody p n2.outs b (sumVals n2.outs b.ins) with
      | some e => rfl
      | none =>
        simp only
        by_cases hd : forkDenied deny n2 par = true
        · simp [hd]
        · simp only [hd, Bool.false_eq_true, if_false]
          unfold applyBlock stateChecks
          by_cases h1 : (!(b.ins.all sPar.has)) = true
          · simp [h1]
          · simp only [h1, Bool.false_eq_true, if_false]
            by_cases h2 : immature p sPar b = true
            · simp [h2]
            · simp only [h2, Bool.false_eq_true, if_false]
              by_cases h3 : dupOutput sPar b = true
              · simp [h3]
              · simp only [h3, Bool.false_eq_true, if_false]
                cases hs : hasTag b "sums:" with
                | some e => simp
                | none =>
                  simp only
                  by_cases h4 : nrdBad sPar b = true
                  · simp [h4]
                  · simp only [h4, Bool.false_eq_true, if_false]
                    cases hasTag b "late:" <;> simp

/-- the names the code's error spine must show, in order -/
def modelSpine : List String :=
  ["check_known", "process_block_header"] ++ (stages.filter (·.inCode)).map (·.name) ++ ["add_block", "update_head"]

/-- the code's spine without the steps the model abstracts: reads of the head (a store error),
`validate_pow_only` (the runs use SKIP_POW; C04 / C05), the look-up of the previous header (its
absence is answered by `process_block_header`), the `extending` wrapper itself, the body tail -/
def codeSpine : List String :=
  (spine pipe_process_block).filter fun n =>
    !(["head", "validate_pow_only", "prev_header_store", "extending", "update_body_tail"].contains n)

/-- **shape = model**: the order of checks read from the current source of `pipe::process_block`
is the order of the model's stage list -/
theorem process_block_shape_is_model : readOk pipe_process_block = true ∧ codeSpine = modelSpine := by decide

/-- the head moves exactly under `has_more_work(block, head)`, the extension is rolled back exactly
under its negation, and nothing else in `process_block` has its result discarded -/
theorem process_block_head_guard :
    under "has_more_work(&$0.header, &$2)" pipe_process_block = ["update_head"] ∧
    calls pipe_process_block = ["force_rollback"] ∧
    ((pipe_process_block.steps.filter fun s => s.kind == .call).map (·.guard)) =
      [["closure", "!(has_more_work(&$0.header, &$11))"]] ∧
    discarded watch pipe_process_block = [] ∧ earlyOks pipe_process_block = [] := by decide

/-- `check_known` asks `check_known_head` and `check_known_store`, in this order, and BOTH only for
a block that has no more work than the head (`checkKnown`'s outer `if`) -/
theorem check_known_shape :
    readOk pipe_check_known = true ∧
    spine pipe_check_known = ["check_known_head", "check_known_store"] ∧
    under "($0.total_difficulty() <= $1.total_difficulty)" pipe_check_known = ["check_known_head", "check_known_store"] ∧
    depths pipe_check_known = [1, 1] := by decide

/-- `check_known_head`: `Unfit` iff the hash is the head's or the head's parent's -/
theorem check_known_head_shape :
    readOk pipe_check_known_head = true ∧
    fails pipe_check_known_head = [("Unfit", "(($2 == $1.last_block_h) || ($2 == $1.prev_block_h))")] := by decide

/-- `check_known_store`: for a stored block `OldBlock` below `head.height - 50` (saturating),
`Unfit` otherwise; nothing for a block not in the store -/
theorem check_known_store_shape :
    readOk pipe_check_known_store = true ∧
    fails pipe_check_known_store =
      [("OldBlock", "($0.height < $1.height.saturating_sub(50))"),
       ("Unfit", "!(($0.height < $1.height.saturating_sub(50)))"),
       ("StoreErr", "$2.batch.block_exists(&$0.hash()) ~ Err(_)")] := by decide

/-- `process_block_header`: the two "nothing to do" exits come before `validate_header`, in the
model's order (`processHeaderK`): known full block, then known header with no more work than the
header head; then `validate_header`, the header fork (denylist), `validate_root`, `apply_header`,
and the header head moves exactly under `has_more_work(header, header_head)` -/
theorem process_block_header_shape :
    readOk pipe_process_block_header = true ∧
    earlyOks pipe_process_block_header =
      [["check_known($0, &$2, $1).is_err()"],
       ["$1.batch.get_block_header(&$0.hash()) ~ Ok(_)", "!(has_more_work(&$5, &$4))"]] ∧
    spineBeforeFirstEarlyOk pipe_process_block_header = ["head"] ∧
    (spine pipe_process_block_header).filter (fun n => !(["head", "header_head", "header_extending"].contains n)) =
      ["get_previous_header", "validate_header", "rewind_and_apply_header_fork", "validate_root",
       "apply_header", "add_block_header", "update_header_head"] ∧
    under "has_more_work($0, &$4)" pipe_process_block_header = ["update_header_head"] := by decide

/-- the denylist is consulted first in `validate_header`, and for every header the fork re-applies
(`($3)(&header)` is the call of the context's validation closure), before `validate_root` -/
theorem denylist_shape :
    (spine pipe_validate_header).take 2 = ["validate_header_ctx", "prev_header_store"] ∧
    under "for $4" pipe_rewind_and_apply_header_fork =
      ["StoreErr", "get_block_header", "$3", "validate_root", "apply_header"] := by decide

/-- non-vacuity: the stage list run on a concrete input (a block spending an output that does not
exist fails at the maturity stage, which resolves every input first) -/
example : run {} [] { blks := [{ id := 0, parent := none, h := 0, work := 1, ver := 1, ts := 0, ins := [], outs := [(0, true)], kers := [.cb], tags := [] }] }
    { id := 1, parent := some 0, h := 1, work := 2, ver := 1, ts := 1, ins := [7], outs := [], kers := [], tags := [] } 0
    (stages.drop 3) = some "AlreadySpent" := by decide

end GV.Props.C03Shape
