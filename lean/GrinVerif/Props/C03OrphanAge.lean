import GrinVerif.Model.ChainOrphanAge
import GrinVerif.Gen.Orphans
import GrinVerif.Gen.Consts
/-! The age rule of the orphan pool (`Model/ChainOrphanAge.lean`; C03 assumption "no orphan waits
longer than 300 s"): what the rule does when it fires, and that it fires ONLY beyond the capacity.
Not tied to the real pool by a run (the pool reads `Instant::now()` only: 300 s of wall time); tied to
the source by the regenerated shape of `OrphanBlockPool::add` (`orphan_pool_shape_is_model`); the clock-free part of the same function
is (`chain opool` lines, Props/C03Orphans.lean). -/
namespace GV.Props.C03OrphanAge
open GV GV.Chain

/-- the pool after the insertion itself (`orphans.insert`), before any eviction -/
def inserted (P : OPoolT) (now id h : Nat) : List (Nat × Nat × Nat) :=
  if P.orphans.any (·.1 == id)
    then P.orphans.map (fun o => if o.1 == id then (o.1, o.2.1, now) else o)
    else P.orphans ++ [(id, h, now)]

/-- **the age rule fires only beyond the capacity**: while the insertion leaves at most `maxSize`
entries nothing is evicted, however long the others have waited (a stale orphan in a pool that
never fills stays for ever) -/
theorem add_within_capacity_keeps_stale (maxSize maxAge : Nat) (P : OPoolT) (now id h : Nat)
    (hc : (inserted P now id h).length ≤ maxSize) :
    (P.add maxSize maxAge now id h).orphans = inserted P now id h ∧
    (P.add maxSize maxAge now id h).evicted = P.evicted := by
  unfold OPoolT.add
  unfold inserted at hc
  simp only
  rw [if_neg (by omega)]
  exact ⟨rfl, rfl⟩

/-- **beyond the capacity no stale orphan survives**: everything left has waited less than `maxAge` -/
theorem add_keeps_no_stale (maxSize maxAge : Nat) (P : OPoolT) (now id h : Nat)
    (hc : (inserted P now id h).length > maxSize) :
    ∀ o ∈ (P.add maxSize maxAge now id h).orphans, now - o.2.2 < maxAge := by
  unfold OPoolT.add
  unfold inserted at hc
  simp only
  rw [if_pos hc]
  intro o ho
  simp only [List.mem_filter] at ho
  simpa using ho.1.2

/-- ... and what is left was in the pool after the insertion (nothing is invented, times kept) -/
theorem add_keeps_only_inserted (maxSize maxAge : Nat) (P : OPoolT) (now id h : Nat) :
    ∀ o ∈ (P.add maxSize maxAge now id h).orphans, o ∈ inserted P now id h := by
  by_cases hc : (inserted P now id h).length > maxSize
  · unfold OPoolT.add
    unfold inserted at hc ⊢
    simp only
    rw [if_pos hc]
    intro o ho
    simp only [List.mem_filter] at ho
    exact ho.1.1
  · rw [(add_within_capacity_keeps_stale maxSize maxAge P now id h (by omega)).1]
    intro o ho; exact ho

/-- a block offered again starts a new age -/
theorem reoffer_renews_age (P : OPoolT) (now id h : Nat) (hin : P.orphans.any (·.1 == id) = true) :
    ∀ o ∈ inserted P now id h, o.1 = id → o.2.2 = now := by
  unfold inserted
  rw [if_pos hin]
  intro o ho hid
  simp only [List.mem_map] at ho
  obtain ⟨x, _, hx⟩ := ho
  by_cases hxi : (x.1 == id) = true
  · rw [if_pos hxi] at hx; rw [← hx]
  · rw [if_neg hxi] at hx
    subst hx
    exact absurd (by simpa using hid) hxi

/-- **observation**: the height loop runs at least once after the age rule: two stale orphans and a
capacity of two; a third block arrives at the greatest height - the stale ones go by age, and the
block just offered goes too (the pool is empty, three evictions counted) -/
theorem fresh_orphan_evicted_with_the_stale_ones :
    let P : OPoolT := { orphans := [(1, 5, 0), (2, 6, 0)], heightIdx := [(5, [1]), (6, [2])] }
    (P.add 2 300 400 3 7).orphans = [] ∧ (P.add 2 300 400 3 7).evicted = 3 := by decide

/-- the same arrival at the lowest height: the stale ones go, the new block stays -/
example :
    let P : OPoolT := { orphans := [(1, 5, 0), (2, 6, 0)], heightIdx := [(5, [1]), (6, [2])] }
    (P.add 2 300 400 3 4).orphans = [(3, 4, 400)] ∧ (P.add 2 300 400 3 4).evicted = 2 := by decide

/-- with every entry young the clocked pool does what the clock-free pool of
`Model/ChainOrphans.lean` does (instance: capacity 2, third block at the greatest height) -/
example :
    let P : OPoolT := { orphans := [(1, 5, 390), (2, 6, 395)], heightIdx := [(5, [1]), (6, [2])] }
    (P.add 2 300 400 3 7).erase.orphans = (P.erase.add 2 3 7).orphans ∧
    (P.add 2 300 400 3 7).erase.evicted = (P.erase.add 2 3 7).evicted := by decide

/-! ### the model's rule against the table regenerated from chain/src/chain.rs

The pool takes an orphan's time from `Instant::now()` only (`clockIsInstantNowOnly`): no run can
drive the age rule without waiting 300 s, so it is tied to the source by the regenerated SHAPE of
`OrphanBlockPool::add` instead (tools/gen_orphans.py → Gen/Orphans.lean). -/

/-- the pool as coded: `OPoolT.add` at the constants of the current source -/
def addCoded (P : OPoolT) (now id h : Nat) : OPoolT :=
  P.add GV.Gen.Orphans.MAX_ORPHAN_SIZE GV.Gen.Orphans.MAX_ORPHAN_AGE_SECS now id h

/-- **shape = model**: the comparisons and the step order `OPoolT.add` / `evictLoop` transliterate
are those of the current source - eviction opens on `len > MAX_ORPHAN_SIZE`, the age rule KEEPS
`elapsed < MAX_ORPHAN_AGE_SECS`, the height loop stops on `len < MAX_ORPHAN_SIZE` tested AFTER the
removal, in the order age rule, height loop, index clean-up, count; a re-offered block replaces its
entry; the constants are 200 / 300 s and the size is the one `Gen/Consts` gives the chain model -/
theorem orphan_pool_shape_is_model :
    GV.Gen.Orphans.guardOp = ">" ∧ GV.Gen.Orphans.ageRetainOp = "<" ∧ GV.Gen.Orphans.breakOp = "<" ∧
    GV.Gen.Orphans.breakAfterRemoval = true ∧
    GV.Gen.Orphans.steps = ["age", "heights", "cleanup", "count"] ∧
    GV.Gen.Orphans.insertReplaces = true ∧ GV.Gen.Orphans.clockIsInstantNowOnly = true ∧
    GV.Gen.Orphans.MAX_ORPHAN_SIZE = GV.Gen.MAX_ORPHAN_SIZE ∧
    GV.Gen.Orphans.MAX_ORPHAN_SIZE = 200 ∧ GV.Gen.Orphans.MAX_ORPHAN_AGE_SECS = 300 := by decide

/-- the theorems above at the constants of the source: up to 200 entries nothing is ever evicted,
beyond that nothing that waited 300 s or longer survives -/
theorem coded_pool_age_rule (P : OPoolT) (now id h : Nat) :
    ((inserted P now id h).length ≤ 200 → (addCoded P now id h).orphans = inserted P now id h) ∧
    ((inserted P now id h).length > 200 → ∀ o ∈ (addCoded P now id h).orphans, now - o.2.2 < 300) := by
  constructor
  · intro hc
    exact (add_within_capacity_keeps_stale _ _ P now id h hc).1
  · intro hc
    exact add_keeps_no_stale _ _ P now id h hc

end GV.Props.C03OrphanAge
