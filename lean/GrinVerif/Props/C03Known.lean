import GrinVerif.Model.ChainKnown
import GrinVerif.Lemmas.ChainInv
import GrinVerif.Props.C03Status
import GrinVerif.Props.C02Reset
/-! C03 / C06 / C02 for block processing AS CODED (`Model/ChainKnown.lean`: work-conditional
`check_known`, header denylist, second `process_block_header` inside `pipe::process_block`).

* On every state block processing alone reaches (head has the most work among stored blocks, stored
  blocks closed under parents: both invariants of every history, Props/C03 `headMax_step`,
  Lemmas/ChainInv `preserved_storedClosed`) the coded step IS the step all other theorems are about:
  `processHeaderK_eq`, `precheckK_eq`, `processBlockSingleK_eq`.
* `oldBlock_unreachable`: the `OldBlock` answer of `check_known_store` cannot come out of
  `Chain::process_block` - `Chain::is_known` answers `Unfit` first in exactly those states.
* `processHeaderK_idem`: the second `process_block_header` of one `process_block` call is a no-op.
* After `reset_chain_head` the invariants do NOT hold; there: `redeliver_after_reset` (a stored
  valid block above the new head, offered again, becomes the head at once - its own ancestors come
  from the store), `reset_then_head_again_restores` (offering the old head again leads back to the
  head and the reported unspent set from before the reset).
* Denylist: `denied_header_never_saved`, `denied_unseen_block_refused`,
  `descendant_of_denied_refused`, `reset_over_denied_refused`; and the witness
  `denied_block_taken_again_when_header_chain_kept`. -/
namespace GV.Props.C03Known
open GV GV.Chain

/-! ### `check_known` -/

theorem checkKnown_isSome_iff (n : Node) (b : Blk) :
    (checkKnown n b).isSome ↔ (b.work ≤ n.workOf n.head ∧ KnownFull n b) := by
  unfold checkKnown KnownFull
  by_cases hw : b.work ≤ n.workOf n.head
  · by_cases h1 : b.id = n.head
    · simp [hw, h1]
    · by_cases h2 : some b.id = n.parentOf n.head
      · simp [hw, h2]
      · by_cases h3 : b.id ∈ n.stored
        · simp [hw, h1, h2, h3]
        · simp [hw, h1, h2, h3]
  · simp [hw]

theorem checkKnown_congr {n m : Node} (hb : n.blks = m.blks) (hh : n.head = m.head)
    (hs : n.stored = m.stored) (b : Blk) : checkKnown n b = checkKnown m b := by
  unfold checkKnown
  rw [workOf_congr hb, parentOf_congr hb, heightOf_congr hb, hh, hs]

/-- while the head has the most work among stored blocks, a known full block never has more work
than the head: the condition the code puts in front of `check_known` is then always met -/
theorem knownFull_work_le (n : Node) (b : Blk) (hm : HeadMax n) (hc : StoredClosed n)
    (hb : n.blk b.id = some b) (hk : KnownFull n b) : b.work ≤ n.workOf n.head := by
  have hbw : n.workOf b.id = b.work := by simp [Node.workOf, hb]
  rcases hk with h | h | h
  · rw [← h, hbw]; exact Nat.le_refl _
  · rw [← hbw]
    apply hm
    unfold Node.parentOf at h
    cases hh : n.blk n.head with
    | none => rw [hh] at h; cases h
    | some hb' =>
      rw [hh] at h
      exact hc.parent n.head hc.head hb' b.id hh h.symm
  · rw [← hbw]; exact hm _ h

theorem checkKnown_isSome_iff_knownFull (n : Node) (b : Blk) (hm : HeadMax n) (hc : StoredClosed n)
    (hb : n.blk b.id = some b) : (checkKnown n b).isSome ↔ KnownFull n b := by
  rw [checkKnown_isSome_iff]
  exact ⟨fun h => h.2, fun h => ⟨knownFull_work_le n b hm hc hb h, h⟩⟩

/-! ### the coded step is the step of `Model/Chain.lean` on every state block processing reaches -/

theorem validateHeader_split (p : Params) (n : Node) (b : Blk) :
    validateHeader p n b = (match validateHeaderPre p n b with
      | some e => some e
      | none => hasTag b "hdr:") := by
  unfold validateHeader validateHeaderPre
  repeat' split
  all_goals simp_all
  all_goals (first | omega | (exfalso; omega))

theorem forkDenied_nil (n : Node) (x : Nat) : forkDenied [] n x = false := by
  simp [forkDenied]

theorem processHeaderK_eq (p : Params) (n : Node) (b : Blk) (hm : HeadMax n) (hc : StoredClosed n)
    (hb : n.blk b.id = some b) : processHeaderK p [] n b = processHeader p n b := by
  have hk := checkKnown_isSome_iff_knownFull n b hm hc hb
  unfold processHeaderK processHeader
  by_cases h : KnownFull n b
  · have h' : (b.id == n.head ∨ some b.id == n.parentOf n.head ∨ n.stored.contains b.id = true) := by
      unfold KnownFull at h; simpa using h
    rw [if_pos (hk.mpr h), if_pos h']
  · have h' : ¬ (b.id == n.head ∨ some b.id == n.parentOf n.head ∨ n.stored.contains b.id = true) := by
      unfold KnownFull at h; simpa using h
    rw [if_neg (fun x => h (hk.mp x)), if_neg h']
    cases hp : b.parent with
    | none => rfl
    | some par =>
      simp only [forkDenied_nil, List.contains_nil, Bool.false_eq_true, if_false]
      rw [validateHeader_split]
      split
      · rfl
      · split
        · rfl
        · cases validateHeaderPre p n b with
          | some e => rfl
          | none =>
            simp only
            cases hasTag b "hdr:" <;> rfl

theorem precheckK_eq (n1 : Node) (b : Blk) (hm : HeadMax n1) (hc : StoredClosed n1)
    (hb : n1.blk b.id = some b) : precheckK n1 b = precheck n1 b := by
  have hk := checkKnown_isSome_iff_knownFull n1 b hm hc hb
  unfold precheckK precheck
  split
  · rfl
  · rename_i h1
    split
    · rfl
    · rename_i h2
      cases hp : b.parent with
      | none => rfl
      | some par =>
        simp only
        split
        · rfl
        · by_cases h : KnownFull n1 b
          · have hw := knownFull_work_le n1 b hm hc hb h
            have hns : ¬ n1.stored.contains b.id = true := fun x => h2 ⟨hw, x⟩
            have hpar : some b.id = n1.parentOf n1.head := by
              rcases h with h | h | h
              · exact absurd (by simpa using h) h1
              · exact h
              · exact absurd (by simpa using h) hns
            have : checkKnown n1 b = some "Unfit" := by
              unfold checkKnown; simp [hw, hpar]
            rw [this]
            simp [hpar]
          · have hnone : checkKnown n1 b = none := by
              cases hck : checkKnown n1 b with
              | none => rfl
              | some e => exact absurd (hk.mp (by simp [hck])) h
            rw [hnone]
            unfold KnownFull at h
            simp only [not_or] at h
            have a1 : ¬ (b.id == n1.head ∨ some b.id == n1.parentOf n1.head) := by
              simp only [beq_iff_eq, not_or]; exact ⟨h.1, h.2.1⟩
            have a2 : ¬ n1.stored.contains b.id = true := by simpa using h.2.2
            rw [if_neg a1, if_neg a2]

/-- header processing as coded touches only the header store and the header head -/
theorem processHeaderK_frame (p : Params) (deny : List Nat) (n n' : Node) (b : Blk)
    (h : processHeaderK p deny n b = .ok n') :
    n'.head = n.head ∧ n'.stored = n.stored ∧ n'.blks = n.blks ∧ n'.orphans = n.orphans ∧ n'.outs = n.outs := by
  unfold processHeaderK at h
  repeat' split at h
  all_goals first | (cases h; simp) | (simp at h)

/-- **the second `process_block_header` of one `process_block` call is a no-op** -/
theorem processHeaderK_idem (p : Params) (deny : List Nat) (n n1 : Node) (b : Blk)
    (hb : n.blk b.id = some b) (h : processHeaderK p deny n b = .ok n1) :
    processHeaderK p deny n1 b = .ok n1 := by
  have hbw : n.workOf b.id = b.work := by simp [Node.workOf, hb]
  unfold processHeaderK at h
  split at h
  · rename_i hk
    cases h
    unfold processHeaderK
    rw [if_pos hk]
  · rename_i hk
    split at h
    · cases h
    · rename_i par hpar
      split at h
      · cases h
      · rename_i hc
        split at h
        · rename_i hs
          cases h
          unfold processHeaderK
          rw [if_neg hk]
          simp only [hpar]
          rw [if_neg hc, if_pos hs]
        · rename_i hs
          split at h
          · cases h
          · split at h
            · cases h
            · split at h
              · cases h
              · split at h
                · cases h
                · injection h with h
                  subst h
                  unfold processHeaderK
                  have hck : checkKnown { n with
                      headers := if n.headers.contains b.id then n.headers else n.headers ++ [b.id],
                      hhead := if b.work > n.workOf n.hhead then b.id else n.hhead } b = checkKnown n b :=
                    checkKnown_congr rfl rfl rfl b
                  rw [hck, if_neg hk]
                  simp only [hpar]
                  have hc' : n.headers.contains par = true := by simpa using hc
                  have hpar' : (if n.headers.contains b.id then n.headers else n.headers ++ [b.id]).contains par = true := by
                    split
                    · exact hc'
                    · simp only [List.contains_eq_mem, List.mem_append, decide_eq_true_eq]
                      left; simpa using hc'
                  have hbid : (if n.headers.contains b.id then n.headers else n.headers ++ [b.id]).contains b.id = true := by
                    split
                    · assumption
                    · simp
                  have hnw : ¬ b.work > Node.workOf { n with
                      headers := if n.headers.contains b.id then n.headers else n.headers ++ [b.id],
                      hhead := if b.work > n.workOf n.hhead then b.id else n.hhead }
                        (if b.work > n.workOf n.hhead then b.id else n.hhead) := by
                    have : ∀ x, Node.workOf { n with
                      headers := if n.headers.contains b.id then n.headers else n.headers ++ [b.id],
                      hhead := if b.work > n.workOf n.hhead then b.id else n.hhead } x = n.workOf x :=
                      fun x => workOf_congr rfl x
                    rw [this]
                    split
                    · rw [hbw]; omega
                    · assumption
                  rw [if_neg (by rw [hpar']; simp), if_pos ⟨hbid, hnw⟩]

/-- `pipe::process_block` after its `check_known`, without a denylist and after the header was
processed: the body / state checks of `checkBlock` -/
theorem pipeProcessBlockK_eq (p : Params) (n n1 : Node) (b : Blk) (par : Nat)
    (hb : n.blk b.id = some b) (h : processHeaderK p [] n b = .ok n1) :
    pipeProcessBlockK p [] n1 b par = (match checkBlock p n1 b par with
      | .error e => .error e
      | .ok s' => .ok (n1, s')) := by
  unfold pipeProcessBlockK checkBlock
  rw [processHeaderK_idem p [] n n1 b hb h]
  simp only [forkDenied_nil, Bool.false_eq_true, if_false]
  cases n1.stateAt p par with
  | error e => rfl
  | ok sPar =>
    simp only
    cases validateBody p n1.outs b (sumVals n1.outs b.ins) with
    | some e => rfl
    | none => simp only; cases applyBlock p sPar b <;> rfl

/-- **the coded single-block step is `processBlockSingleEv`** (hence, forgetting the notification,
`processBlockSingle`) on every state in which the head has the most work among stored blocks -/
theorem processBlockSingleK_eq (p : Params) (n : Node) (b : Blk) (hm : HeadMax n) (hc : StoredClosed n)
    (hb : n.blk b.id = some b) : processBlockSingleK p [] n b = processBlockSingleEv p n b := by
  unfold processBlockSingleK processBlockSingleEv
  rw [← processHeaderK_eq p n b hm hc hb]
  cases hh : processHeaderK p [] n b with
  | error e => rfl
  | ok n1 =>
    simp only
    have hf := processHeaderK_frame p [] n n1 b hh
    have hm1 : HeadMax n1 := by
      intro s hs
      rw [workOf_congr hf.2.2.1, workOf_congr hf.2.2.1, hf.1]
      exact hm s (hf.2.1 ▸ hs)
    have hc1 : StoredClosed n1 := by
      refine ⟨hf.2.1 ▸ hc.zero, by rw [hf.1, hf.2.1]; exact hc.head, ?_⟩
      intro s hs b' par' hb' hp'
      rw [hf.2.1] at hs ⊢
      rw [blk_congr hf.2.2.1] at hb'
      exact hc.parent s hs b' par' hb' hp'
    have hb1 : n1.blk b.id = some b := by rw [blk_congr hf.2.2.1]; exact hb
    rw [precheckK_eq n1 b hm1 hc1 hb1]
    cases precheck n1 b with
    | reject e => rfl
    | orphan => rfl
    | go par =>
      simp only
      rw [pipeProcessBlockK_eq p n n1 b par hb hh]
      cases checkBlock p n1 b par <;> rfl

/-- ... and so is its verdict and its effect on the node -/
theorem processBlockSingleK_proj (p : Params) (n : Node) (b : Blk) (hm : HeadMax n) (hc : StoredClosed n)
    (hb : n.blk b.id = some b) :
    ((processBlockSingleK p [] n b).1, (processBlockSingleK p [] n b).2.1) = processBlockSingle p n b := by
  rw [processBlockSingleK_eq p n b hm hc hb]
  exact C03Status.processBlockSingleEv_proj p n b

/-! ### `OldBlock` -/

/-- **`Error::OldBlock` cannot come out of `Chain::process_block`**: `check_known_store` is reached
only for a stored block with no more work than the head, and for exactly those `Chain::is_known`
has already answered `Unfit` (in every state, reset or not) -/
theorem oldBlock_unreachable (n1 : Node) (b : Blk) : precheckK n1 b ≠ .reject "OldBlock" := by
  unfold precheckK
  split
  · simp
  · split
    · simp
    · rename_i h2
      split
      · simp
      · split
        · simp
        · split
          · rename_i e he
            intro hx
            injection hx with hx
            subst hx
            unfold checkKnown at he
            split at he
            · rename_i hw
              split at he
              · simp at he
              · split at he
                · rename_i hs
                  exact h2 ⟨hw, hs⟩
                · simp at he
            · simp at he
          · simp

/-! ### after `reset_chain_head`: stored blocks above the head are processed again -/

/-- a block with more work than the head is not "known", whatever the store holds -/
theorem checkKnown_none_of_more_work (n : Node) (b : Blk) (h : b.work > n.workOf n.head) :
    checkKnown n b = none := by
  unfold checkKnown
  rw [if_neg (by omega)]

/-- header processing of a block with more work than the head, parent header known, header rules
met, nothing denied: it succeeds -/
theorem processHeaderK_ok_of_valid (p : Params) (n : Node) (b : Blk) (par : Nat)
    (hpar : b.parent = some par) (hph : par ∈ n.headers) (hv : validateHeader p n b = none) :
    ∃ n1, processHeaderK p [] n b = .ok n1 := by
  unfold processHeaderK
  split
  · exact ⟨_, rfl⟩
  · simp only [hpar]
    rw [if_neg (by simpa using hph)]
    split
    · exact ⟨_, rfl⟩
    · simp only [forkDenied_nil, List.contains_nil, Bool.false_eq_true, if_false]
      rw [validateHeader_split] at hv
      cases hpre : validateHeaderPre p n b with
      | some e => rw [hpre] at hv; cases hv
      | none =>
        rw [hpre] at hv
        simp only at hv ⊢
        rw [hv]
        exact ⟨_, rfl⟩

/-- **a stored valid block above the head, offered again, becomes the head at once.**
`n'` is any node (in particular one just reset: `HeadMax` is NOT assumed) in which `b` has more
work than the head, its parent is the head or in the block store, its header passes the header
rules and the block passes every check against its own parent's replayed state. Whether `b` is
already in the block store does not matter. -/
theorem stored_block_above_head_becomes_head (p : Params) (n' : Node) (b : Blk) (par : Nat) (s : UState)
    (hb : n'.blk b.id = some b) (hw : b.work > n'.workOf n'.head)
    (hpar : b.parent = some par) (hps : par = n'.head ∨ par ∈ n'.stored) (hph : par ∈ n'.headers)
    (hv : validateHeader p n' b = none) (hcb : checkBlock p n' b par = .ok s) :
    (processBlockSingleK p [] n' b).2.1 = .okHead ∧ (processBlockSingleK p [] n' b).1.head = b.id ∧
    (processBlockSingleK p [] n' b).1.blks = n'.blks := by
  obtain ⟨n1, h1⟩ := processHeaderK_ok_of_valid p n' b par hpar hph hv
  have hf := processHeaderK_frame p [] n' n1 b h1
  have hw1 : b.work > n1.workOf n1.head := by rw [workOf_congr hf.2.2.1, hf.1]; exact hw
  have hbw : n'.workOf b.id = b.work := by simp [Node.workOf, hb]
  have hne : ¬ (b.id == n1.head) = true := by
    intro h
    have h : b.id = n1.head := by simpa using h
    rw [← h, workOf_congr hf.2.2.1, hbw] at hw1
    omega
  have hpre : precheckK n1 b = .go par := by
    unfold precheckK
    rw [if_neg hne, if_neg (by intro x; omega)]
    simp only [hpar]
    rw [if_neg (by
      simp only [beq_iff_eq, List.contains_eq_mem, decide_eq_true_eq, Decidable.not_not]
      rw [hf.1, hf.2.1]; exact hps)]
    rw [checkKnown_none_of_more_work n1 b hw1]
  have hcb1 : checkBlock p n1 b par = .ok s := by
    rw [checkBlock_congr hf.2.2.2.2 hf.2.2.1]; exact hcb
  unfold processBlockSingleK
  rw [h1]
  simp only [hpre]
  rw [pipeProcessBlockK_eq p n' n1 b par hb h1, hcb1]
  simp only
  have hsb : b.work > n1.workOf n1.head := hw1
  unfold storeBlock
  rw [if_pos hsb]
  exact ⟨rfl, rfl, hf.2.2.1⟩

/-- **reset below the head, then the old head offered again: the node is back.** After a
successful `reset_chain_head(t, rewind_headers)` (either flag) of a node whose head block `b` has
more work than `t`, processing `b` again - its ancestors above `t` are re-applied from the block
store - makes it the head again, and the node reports the unspent set it reported before. -/
theorem reset_then_head_again_restores (p : Params) (n n' : Node) (t : Nat) (rh : Bool) (b : Blk)
    (par : Nat) (s : UState)
    (hr : resetChainHead p n t rh = .ok n')
    (hb : n.blk b.id = some b) (hhead : b.id = n.head) (hw : b.work > n.workOf t)
    (hpar : b.parent = some par) (hps : par = t ∨ par ∈ n.stored) (hph : par ∈ n.headers)
    (hv : validateHeader p n b = none) (hcb : checkBlock p n b par = .ok s) :
    (processBlockSingleK p [] n' b).2.1 = .okHead ∧
    (processBlockSingleK p [] n' b).1.head = n.head ∧
    (processBlockSingleK p [] n' b).1.reportedUtxo p = n.reportedUtxo p := by
  obtain ⟨hh, _, hst, hhd, hbl, hou, _⟩ := C02Reset.reset_frame p n n' t rh hr
  have hv' : validateHeader p n' b = none := by
    unfold validateHeader at hv ⊢
    simp only [hhd, heightOf_congr hbl, blk_congr hbl]; exact hv
  have h := stored_block_above_head_becomes_head p n' b par s
    (by rw [blk_congr hbl]; exact hb) (by rw [workOf_congr hbl, hh]; exact hw) hpar
    (by rw [hh, hst]; exact hps) (by rw [hhd]; exact hph) hv'
    (by rw [checkBlock_congr hou hbl]; exact hcb)
  refine ⟨h.1, by rw [h.2.1, hhead], ?_⟩
  exact reportedUtxo_congr (h.2.2.trans hbl) (by rw [h.2.1, hhead]) p

/-! ### the denylist -/

/-- **a denied header is never saved and never moves the header head**: header processing of a
block on the denylist returns the node it was given, or an error -/
theorem denied_header_never_saved (p : Params) (deny : List Nat) (n n' : Node) (b : Blk)
    (hd : deny.contains b.id = true) (h : processHeaderK p deny n b = .ok n') : n' = n := by
  unfold processHeaderK at h
  split at h
  · cases h; rfl
  · split at h
    · cases h
    · split at h
      · cases h
      · split at h
        · cases h; rfl
        · first | cases h | (rw [if_pos hd] at h; cases h)

/-- **a denied block the node has not seen is refused and the node is unchanged**: not known as a
full block, header not in the store (or above the header head) -/
theorem denied_unseen_block_refused (p : Params) (deny : List Nat) (n : Node) (b : Blk)
    (hd : deny.contains b.id = true) (hk : checkKnown n b = none)
    (hu : b.id ∉ n.headers ∨ b.work > n.workOf n.hhead) :
    ∃ e, processBlockSingleK p deny n b = (n, .err e, none) := by
  have : ∃ e, processHeaderK p deny n b = .error e := by
    unfold processHeaderK
    rw [hk]
    simp only [Option.isSome_none, Bool.false_eq_true, if_false]
    split
    · exact ⟨_, rfl⟩
    · split
      · exact ⟨_, rfl⟩
      · rw [if_neg (by
          intro ⟨h1, h2⟩
          rcases hu with hu | hu
          · exact hu (by simpa using h1)
          · exact h2 hu)]
        first | exact ⟨_, rfl⟩ | (rw [if_pos hd]; exact ⟨_, rfl⟩)
  obtain ⟨e, he⟩ := this
  exact ⟨e, by unfold processBlockSingleK; rw [he]⟩

/-- **a block whose own header path needs a denied header re-applied is refused**: the parent's
fork headers (those the header MMR does not hold) contain a denied one, and the header is not
short-cut (not known as a full block; not in the header store, or above the header head) -/
theorem descendant_of_denied_refused (p : Params) (deny : List Nat) (n : Node) (b : Blk) (par : Nat)
    (hpar : b.parent = some par) (hfd : forkDenied deny n par = true) (hk : checkKnown n b = none)
    (hu : b.id ∉ n.headers ∨ b.work > n.workOf n.hhead) :
    ∃ e, processBlockSingleK p deny n b = (n, .err e, none) := by
  have : ∃ e, processHeaderK p deny n b = .error e := by
    unfold processHeaderK
    rw [hk]
    simp only [Option.isSome_none, Bool.false_eq_true, if_false, hpar]
    split
    · exact ⟨_, rfl⟩
    · rw [if_neg (by
        intro ⟨h1, h2⟩
        rcases hu with hu | hu
        · exact hu (by simpa using h1)
        · exact h2 hu)]
      split
      · exact ⟨_, rfl⟩
      · split
        · exact ⟨_, rfl⟩
        · first | exact ⟨_, rfl⟩ | (rw [if_pos hfd]; exact ⟨_, rfl⟩)
  obtain ⟨e, he⟩ := this
  exact ⟨e, by unfold processBlockSingleK; rw [he]⟩

/-- a reset whose target needs a denied header re-applied is refused -/
theorem reset_over_denied_refused (p : Params) (deny : List Nat) (n : Node) (t : Nat) (rh : Bool)
    (hfd : forkDenied deny n t = true) : ∃ e, resetChainHeadK p deny n t rh = .error e := by
  unfold resetChainHeadK
  split
  · exact ⟨_, rfl⟩
  · first | exact ⟨_, rfl⟩ | (rw [if_pos hfd]; exact ⟨_, rfl⟩)

/-- without a denylist the reset is the reset of `Model/ChainReset.lean` (Props/C02Reset) -/
theorem resetChainHeadK_nil (p : Params) (n : Node) (t : Nat) (rh : Bool) :
    resetChainHeadK p [] n t rh = resetChainHead p n t rh := by
  unfold resetChainHeadK resetChainHead
  split
  · rfl
  · simp [forkDenied_nil]

/-! ### witnesses (kernel-checked instances; also the non-vacuity of the theorems above) -/

private def g0 : Blk := { id := 0, parent := none, h := 0, work := 1, ver := 1, ts := 0, ins := [], outs := [(0, true)], kers := [.cb], tags := [] }
private def mk (id par h work : Nat) : Blk :=
  { id, parent := some par, h, work, ver := 1, ts := h, ins := [], outs := [(id, true)], kers := [.cb], tags := [] }
/-- genesis - b1 - b2, everything stored, head b2 -/
private def n3 : Node :=
  { blks := [g0, mk 1 0 1 2, mk 2 1 2 3], headers := [0, 1, 2], stored := [0, 1, 2], head := 2, hhead := 2,
    outs := [⟨0, true, GV.Gen.REWARD⟩, ⟨1, true, GV.Gen.REWARD⟩, ⟨2, true, GV.Gen.REWARD⟩] }

/-- the model of `Model/Chain.lean` and the code differ after a reset: reset to b1, then b2 again -
the coded step makes it the head, the uncoded "stored ⇒ known" refuses it -/
theorem reset_state_needs_the_coded_check :
    (match resetChainHead {} n3 1 true with
     | .ok n' => (processBlockSingleK {} [] n' (mk 2 1 2 3)).2.1 == .okHead &&
                 (processBlockSingle {} n' (mk 2 1 2 3)).2 == .err "Unfit"
     | .error _ => false) = true := by decide

/-- **observation (denylist)**: b2 is denied, the node reset to b1 WITH its header chain kept
(`rewind_headers = false`): b2's header is known and not above the header head, so
`validate_header` - the only place the denylist is consulted for the header itself - is not
reached, and the denied block is taken again. With the header chain rewound it is refused. The
owner API always rewinds the headers. -/
theorem denied_block_taken_again_when_header_chain_kept :
    (match resetChainHeadK {} [2] n3 1 false, resetChainHeadK {} [2] n3 1 true with
     | .ok nKeep, .ok nRew =>
        (processBlockSingleK {} [2] nKeep (mk 2 1 2 3)).2.1 == .okHead &&
        (processBlockSingleK {} [2] nRew (mk 2 1 2 3)).2.1 == .err "Block"
     | _, _ => false) = true := by decide

/-- hypotheses of `reset_then_head_again_restores` are satisfiable: n3 reset to b1, b2 again -/
example : (match resetChainHead {} n3 1 true, checkBlock {} n3 (mk 2 1 2 3) 1 with
    | .ok _, .ok _ => ((n3.blk 2).map (·.id) == some 2) && decide ((mk 2 1 2 3).work > n3.workOf 1) &&
        (validateHeader {} n3 (mk 2 1 2 3)).isNone && decide (1 ∈ n3.headers)
    | _, _ => false) = true := by decide

/-- hypotheses of `descendant_of_denied_refused` are satisfiable: header chain rewound to b0, b1
denied, b2 offered -/
example : forkDenied [1] { n3 with head := 0, hhead := 0 } 1 = true ∧
    checkKnown { n3 with head := 0, hhead := 0 } (mk 2 1 2 3) = none := by decide

/-- `processBlockSingleK_eq` applies to a non-trivial node: n3 has both invariants -/
example : HeadMax n3 ∧ StoredClosed n3 := by
  refine ⟨by intro s hs; simp [n3] at hs; rcases hs with h | h | h <;> subst h <;> decide, ?_, ?_, ?_⟩
  · decide
  · decide
  · intro s hs b par hb hp
    simp [n3] at hs
    rcases hs with h | h | h <;> subst h <;> simp [n3, Node.blk, g0, mk] at hb <;> subst hb <;> simp at hp <;> subst hp <;> decide

end GV.Props.C03Known
