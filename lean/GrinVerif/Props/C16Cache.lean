import GrinVerif.Model.SegCache
/-! # C16 — the `Segmenter` cache: what is served always belongs to the header it is keyed by -/
namespace GV.Props.C16Cache
open GV.SegCache

variable {Hd Sn : Type} [DecidableEq Hd]

/-- the cache holds the snapshot of its own header -/
def CacheOk (snap : Hd → Sn) : Option (Segmenter Hd Sn) → Prop
  | none => True
  | some x => x.snapshot = snap x.header

/-- one call: the segmenter handed out is keyed by the CURRENT archive header and carries that
header's snapshot; the cache stays consistent -/
theorem segmenter_spec (snap : Hd → Sn) (cache : Option (Segmenter Hd Sn)) (archive : Hd)
    (h : CacheOk snap cache) :
    (segmenter snap cache archive).1.header = archive ∧
    (segmenter snap cache archive).1.snapshot = snap archive ∧
    CacheOk snap (segmenter snap cache archive).2 := by
  cases cache with
  | none =>
    simp only [segmenter]
    exact ⟨trivial, trivial, rfl⟩
  | some x =>
    by_cases e : x.header = archive
    · simp only [segmenter, if_pos e]
      exact ⟨e, by rw [← e]; exact h, h⟩
    · simp only [segmenter, if_neg e]
      exact ⟨trivial, trivial, rfl⟩

/-- **Every segmenter handed out over any history of archive headers — moving forward through
archive periods, going back, or replaced at the same height by a reorganisation — is keyed by the
archive header of ITS call and carries exactly that header's snapshot**: a stale cache entry is
never served (the i-th answer belongs to the i-th header) -/
theorem served_belongs_to_its_header (snap : Hd → Sn) : ∀ (as : List Hd) (cache : Option (Segmenter Hd Sn)),
    CacheOk snap cache →
    (serve snap cache as).1.map (fun s => (s.header, s.snapshot)) = as.map (fun a => (a, snap a)) ∧
    CacheOk snap (serve snap cache as).2
  | [], _, h => ⟨rfl, h⟩
  | a :: as, cache, h => by
    obtain ⟨h1, h2, h3⟩ := segmenter_spec snap cache a h
    obtain ⟨r1, r2⟩ := served_belongs_to_its_header snap as _ h3
    refine ⟨?_, r2⟩
    show ((segmenter snap cache a).1.header, (segmenter snap cache a).1.snapshot) :: _ = (a, snap a) :: _
    rw [h1, h2, r1]

/-- non-vacuity: three archive periods, the second header replaced by a reorganisation (`21`
instead of `20`), then back to a cached header -/
example : (serve (fun h : Nat => h * 100) none [10, 20, 21, 21, 30]).1.map (fun s => (s.header, s.snapshot)) =
    [(10, 1000), (20, 2000), (21, 2100), (21, 2100), (30, 3000)] := by decide

end GV.Props.C16Cache
