import GrinVerif.Model.Pmmr
import GrinVerif.Gen.FnsPmmr
import GrinVerif.Lemmas.XlatePmmr
/-! # Translated `core/src/core/pmmr/pmmr.rs` = hand-written model (`Model/Pmmr.lean`)

`GV.Gen.Fns.*` (file `Gen/FnsPmmr.lean`) is regenerated on every check run from the CURRENT Rust
source by `tools/rs2lean.py` (release-build u64 semantics: wrapping `+ - *`, masked shifts).  Each
theorem below states that the translated function equals the hand-written model function on the
stated range of inputs, and that the Rust function returns normally there (`…_ok`: every `while`
loop exits within the fuel of the translation).  A change of one of these Rust function bodies
changes the generated definition, and the corresponding theorem stops checking.

Ranges: the hand model is on unbounded `Nat`, the code wraps at `2^64`.  `size/pos < 2^64` means
"every u64".  Where a smaller bound is stated it is a sufficient one (`insertion_to_pmmr_index`:
the exact one, with a kernel-checked witness of the difference just outside). -/

namespace GV.Props.XlatePmmr
open GV GV.Pmmr GV.Pmmr.Co GV.Xlate
open GV.Gen

/-! ## `peak_map_height`, `peak_sizes_height` -/

/-- `peak_map_height(size)` for every u64 `size` -/
theorem peak_map_height_eq (size : Nat) (h : size < 2^64) :
    Fns.peak_map_height size = peakMapHeight size := by
  unfold Fns.peak_map_height peakMapHeight
  by_cases h0 : size = 0
  · simp [h0]
  · have hb := bitLen_le 64 size h
    simp only [beq_iff_eq, h0, if_false, Fns.ALL_ONES]
    rw [all_ones_shr (by omega) h,
      pmh_loop_eq (bitLen size) hb 65 size 0 (by omega) h (Nat.pow_pos (by omega))]

/-- the loop of `peak_map_height` exits within its fuel (65) for every u64 -/
theorem peak_map_height_ok (size : Nat) (h : size < 2^64) : Fns.peak_map_height_ok size = true := by
  unfold Fns.peak_map_height_ok
  by_cases h0 : size = 0
  · simp [h0]
  · have hb := bitLen_le 64 size h
    simp only [beq_iff_eq, h0, if_false, Fns.ALL_ONES]
    rw [all_ones_shr (by omega) h]
    exact pmh_loop_exits (bitLen size) 65 size 0 (by omega)

example : Fns.peak_map_height 7 = (4, 0) ∧ Fns.peak_map_height 6 = (3, 2) := by
  have m3 : mmr 3 = 4 := by simp [mmr, popcount]
  have m4 : mmr 4 = 7 := by simp [mmr, popcount]
  have t3 : trailingOnes 3 = 2 := by simp [trailingOnes]
  constructor
  · rw [peak_map_height_eq 7 (by omega)]
    have := peakMapHeight_co 4 0 (by omega); rwa [m4] at this
  · rw [peak_map_height_eq 6 (by omega)]
    have := peakMapHeight_co 3 2 (by omega); rwa [m3] at this

/-- `peak_sizes_height(size)` for every u64 `size` (the `Vec` as a `List`) -/
theorem peak_sizes_height_eq (size : Nat) (h : size < 2^64) :
    Fns.peak_sizes_height size = peakSizesHeight size := by
  unfold Fns.peak_sizes_height peakSizesHeight
  by_cases h0 : size = 0
  · simp [h0]
  · have hb := bitLen_le 64 size h
    simp only [beq_iff_eq, h0, if_false, Fns.ALL_ONES]
    rw [all_ones_shr (by omega) h, psh_loop_eq (bitLen size) hb 65 size [] (by omega) h]
    simp

theorem peak_sizes_height_ok (size : Nat) (h : size < 2^64) : Fns.peak_sizes_height_ok size = true := by
  unfold Fns.peak_sizes_height_ok
  by_cases h0 : size = 0
  · simp [h0]
  · have hb := bitLen_le 64 size h
    simp only [beq_iff_eq, h0, if_false, Fns.ALL_ONES]
    rw [all_ones_shr (by omega) h]
    exact psh_loop_exits (bitLen size) 65 size [] (by omega)

example : Fns.peak_sizes_height 5 = ([3, 1], 1) := by
  rw [peak_sizes_height_eq 5 (by omega)]
  simp [peakSizesHeight, bitLen, greedySizes]

/-! ## functions built on `peak_map_height` -/

/-- `n_leaves(size)` for every u64 `size` (`peak_map + 1` cannot wrap) -/
theorem n_leaves_eq (size : Nat) (h : size < 2^64) : Fns.n_leaves size = nLeaves size := by
  unfold Fns.n_leaves nLeaves
  rw [peak_map_height_eq size h]
  have b := pmh_bounds size
  by_cases hz : (peakMapHeight size).2 = 0
  · simp [hz]
  · simp only [beq_iff_eq, hz, if_false]
    exact addW_eq (by have := b.2.2 hz; omega)

theorem n_leaves_ok (size : Nat) (h : size < 2^64) : Fns.n_leaves_ok size = true := by
  simp [Fns.n_leaves_ok, peak_map_height_ok size h]

example : Fns.n_leaves 7 = 4 := by
  rw [n_leaves_eq 7 (by omega)]
  have m4 : mmr 4 = 7 := by simp [mmr, popcount]
  have := peakMapHeight_co 4 0 (by omega); rw [m4] at this
  simp [nLeaves, this]

/-- `insertion_to_pmmr_index(n)` for `n ≤ 2^63`: `2 * n` does not wrap below `2^63`, and at `2^63`
the two wraps cancel -/
theorem insertion_to_pmmr_index_eq (n : Nat) (h : n ≤ 2^63) :
    Fns.insertion_to_pmmr_index n = insertionToPmmrIndex n := by
  unfold Fns.insertion_to_pmmr_index insertionToPmmrIndex mmr
  have hp := popcount_le n
  by_cases hlt : n < 2^63
  · rw [mulW_eq (by omega), subW_eq (by omega) (by omega)]
  · have hn : n = 2^63 := by omega
    have pc : popcount (2^63) = 1 := by
      simp [popcount]
    subst hn
    rw [pc]; unfold mulW subW; omega

/-- … and the bound is exact: at `2^63 + 1` the code wraps to 0, the model gives `2^64` -/
theorem insertion_to_pmmr_index_wraps :
    Fns.insertion_to_pmmr_index (2^63 + 1) = 0 ∧ insertionToPmmrIndex (2^63 + 1) = 2^64 := by
  have pc : popcount (2^63 + 1) = 2 := by
    simp [popcount]
  unfold Fns.insertion_to_pmmr_index insertionToPmmrIndex mmr
  rw [pc]; unfold mulW subW; omega

example : Fns.insertion_to_pmmr_index 4 = 7 := by
  simp [Fns.insertion_to_pmmr_index, popcount, mulW, subW]

/-- `round_up_to_leaf_pos(pos0)` for `pos0 < 2^63` -/
theorem round_up_to_leaf_pos_eq (pos : Nat) (h : pos < 2^63) :
    Fns.round_up_to_leaf_pos pos = roundUpToLeafPos pos := by
  unfold Fns.round_up_to_leaf_pos roundUpToLeafPos
  rw [peak_map_height_eq pos (by omega)]
  have b := pmh_bounds pos
  by_cases hz : (peakMapHeight pos).2 = 0
  · simp only [hz, beq_self_eq_true, if_true]
    exact insertion_to_pmmr_index_eq _ (by omega)
  · simp only [beq_iff_eq, hz, if_false]
    rw [addW_eq (by have := b.2.2 hz; omega)]
    exact insertion_to_pmmr_index_eq _ (by have := b.2.2 hz; omega)

theorem round_up_to_leaf_pos_ok (pos : Nat) (h : pos < 2^64) : Fns.round_up_to_leaf_pos_ok pos = true := by
  simp [Fns.round_up_to_leaf_pos_ok, peak_map_height_ok pos h]

/-- `pmmr_leaf_to_insertion_index(pos0)` for every u64 -/
theorem pmmr_leaf_to_insertion_index_eq (pos : Nat) (h : pos < 2^64) :
    Fns.pmmr_leaf_to_insertion_index pos = pmmrLeafToInsertionIndex pos := by
  unfold Fns.pmmr_leaf_to_insertion_index pmmrLeafToInsertionIndex
  rw [peak_map_height_eq pos h]
  by_cases hz : (peakMapHeight pos).2 = 0 <;> simp [hz]

theorem pmmr_leaf_to_insertion_index_ok (pos : Nat) (h : pos < 2^64) :
    Fns.pmmr_leaf_to_insertion_index_ok pos = true := by
  simp [Fns.pmmr_leaf_to_insertion_index_ok, peak_map_height_ok pos h]

/-- `bintree_postorder_height(pos0)` for every u64 -/
theorem bintree_postorder_height_eq (pos : Nat) (h : pos < 2^64) :
    Fns.bintree_postorder_height pos = height pos := by
  unfold Fns.bintree_postorder_height height
  rw [peak_map_height_eq pos h]

theorem bintree_postorder_height_ok (pos : Nat) (h : pos < 2^64) :
    Fns.bintree_postorder_height_ok pos = true := by
  simp [Fns.bintree_postorder_height_ok, peak_map_height_ok pos h]

/-- `is_leaf(pos0)` for every u64 -/
theorem is_leaf_eq (pos : Nat) (h : pos < 2^64) : Fns.is_leaf pos = isLeaf pos := by
  unfold Fns.is_leaf isLeaf
  rw [bintree_postorder_height_eq pos h]

theorem is_leaf_ok (pos : Nat) (h : pos < 2^64) : Fns.is_leaf_ok pos = true := by
  simp [Fns.is_leaf_ok, bintree_postorder_height_ok pos h]

/-- `family(pos0)` for `pos0 < 2^63` (the parent `pos0 + 2·2^h ≤ 2·pos0 + 2` must fit a u64) -/
theorem family_eq (pos : Nat) (h : pos < 2^63) : Fns.family pos = family pos := by
  unfold Fns.family family
  rw [peak_map_height_eq pos (by omega)]
  have b := (pmh_bounds pos).1
  have hh : (peakMapHeight pos).2 < 64 := height_lt_64 (by omega)
  have hbs : ∀ a b : Nat, (a / 2^b % 2 == 1) = bitSet a b := fun _ _ => rfl
  simp only [shlW_one_left hh, and_two_pow_ne_zero, hbs]
  rw [mulW_eq (by omega)]
  by_cases hb : bitSet (peakMapHeight pos).1 (peakMapHeight pos).2 = true
  · have r := right_child_room hb
    simp only [hb, if_true]
    rw [addW_eq (by omega), subW_eq (by omega) (by omega)]
  · simp only [hb, Bool.false_eq_true, if_false]
    rw [addW_eq (by omega), subW_eq (by omega) (by have := two_pow_pos (peakMapHeight pos).2; omega)]

theorem family_ok (pos : Nat) (h : pos < 2^64) : Fns.family_ok pos = true := by
  simp [Fns.family_ok, peak_map_height_ok pos h]

example : Fns.family 6 = (14, 13) := by
  rw [family_eq 6 (by omega)]
  have m3 : mmr 3 = 4 := by simp [mmr, popcount]
  have t3 : trailingOnes 3 = 2 := by simp [trailingOnes]
  have := peakMapHeight_co 3 2 (by omega); rw [m3] at this
  simp [family, this, bitSet]

/-- `is_left_sibling(pos0)` for every u64 -/
theorem is_left_sibling_eq (pos : Nat) (h : pos < 2^64) : Fns.is_left_sibling pos = isLeftSibling pos := by
  unfold Fns.is_left_sibling isLeftSibling
  rw [peak_map_height_eq pos h]
  have hh : (peakMapHeight pos).2 < 64 := height_lt_64 h
  simp only [shlW_one_left hh, and_two_pow_eq_zero, bitSet]

theorem is_left_sibling_ok (pos : Nat) (h : pos < 2^64) : Fns.is_left_sibling_ok pos = true := by
  simp [Fns.is_left_sibling_ok, peak_map_height_ok pos h]

/-- `bintree_rightmost(pos0)` for every u64 (`pos0 - height` cannot underflow) -/
theorem bintree_rightmost_eq (pos : Nat) (h : pos < 2^64) :
    Fns.bintree_rightmost pos = bintreeRightmost pos := by
  unfold Fns.bintree_rightmost bintreeRightmost
  rw [bintree_postorder_height_eq pos h]
  exact subW_eq h (height_le_pos pos)

theorem bintree_rightmost_ok (pos : Nat) (h : pos < 2^64) : Fns.bintree_rightmost_ok pos = true := by
  simp [Fns.bintree_rightmost_ok, bintree_postorder_height_ok pos h]

/-- `2 << height` -/
theorem shl_two_height {pos : Nat} (h : pos + 2 < 2^64) :
    shlW 2 (height pos) = 2 * 2^(height pos) := by
  have b := (pmh_bounds pos).1
  have hh : (peakMapHeight pos).2 < 64 := height_lt_64 (by omega)
  unfold height
  rw [shlW_eq hh (by omega)]

/-- `bintree_leftmost(pos0)` for `pos0 + 2 < 2^64` -/
theorem bintree_leftmost_eq (pos : Nat) (h : pos + 2 < 2^64) :
    Fns.bintree_leftmost pos = bintreeLeftmost pos := by
  unfold Fns.bintree_leftmost bintreeLeftmost
  simp only [bintree_postorder_height_eq pos (by omega), shl_two_height h, addW_eq h]
  have b := (pmh_bounds pos).1
  exact subW_eq h (by unfold height; omega)

theorem bintree_leftmost_ok (pos : Nat) (h : pos < 2^64) : Fns.bintree_leftmost_ok pos = true := by
  simp [Fns.bintree_leftmost_ok, bintree_postorder_height_ok pos h]

/-- `bintree_range(pos0)` (the `Range<u64>` as the pair `(start, end)`) for `pos0 + 2 < 2^64` -/
theorem bintree_range_eq (pos : Nat) (h : pos + 2 < 2^64) :
    Fns.bintree_range pos = bintreeRange pos := by
  unfold Fns.bintree_range bintreeRange
  have h1 : addW pos 1 = pos + 1 := addW_eq (by omega)
  simp only [bintree_postorder_height_eq pos (by omega), shl_two_height h, addW_eq h, h1]
  have b := (pmh_bounds pos).1
  rw [subW_eq h (by unfold height; omega)]

theorem bintree_range_ok (pos : Nat) (h : pos < 2^64) : Fns.bintree_range_ok pos = true := by
  simp [Fns.bintree_range_ok, bintree_postorder_height_ok pos h]

example : Fns.bintree_range 9 = (7, 10) ∧ Fns.bintree_leftmost 9 = 7 ∧ Fns.bintree_rightmost 9 = 8 := by
  have m5 : mmr 5 = 8 := by simp [mmr, popcount]
  have t5 : trailingOnes 5 = 1 := by simp [trailingOnes]
  have p := peakMapHeight_co 5 1 (by omega); rw [m5] at p
  have hh : height 9 = 1 := by simp [height, p]
  rw [bintree_range_eq 9 (by omega), bintree_leftmost_eq 9 (by omega), bintree_rightmost_eq 9 (by omega)]
  simp [bintreeRange, bintreeLeftmost, bintreeRightmost, hh]

/-- non-vacuity of the remaining `peak_map_height` clients: node 6 (height 2, left child), leaf 7 -/
example : Fns.round_up_to_leaf_pos 6 = 7 ∧ Fns.pmmr_leaf_to_insertion_index 7 = some 4
    ∧ Fns.pmmr_leaf_to_insertion_index 6 = none ∧ Fns.is_leaf 7 = true ∧ Fns.is_leaf 6 = false
    ∧ Fns.is_left_sibling 6 = true ∧ Fns.bintree_postorder_height 6 = 2 := by
  have m3 : mmr 3 = 4 := by simp [mmr, popcount]
  have m4 : mmr 4 = 7 := by simp [mmr, popcount]
  have t3 : trailingOnes 3 = 2 := by simp [trailingOnes]
  have p6 := peakMapHeight_co 3 2 (by omega); rw [m3] at p6
  have p7 := peakMapHeight_co 4 0 (by omega); rw [m4] at p7
  rw [round_up_to_leaf_pos_eq 6 (by omega), pmmr_leaf_to_insertion_index_eq 7 (by omega),
    pmmr_leaf_to_insertion_index_eq 6 (by omega), is_leaf_eq 7 (by omega), is_leaf_eq 6 (by omega),
    is_left_sibling_eq 6 (by omega), bintree_postorder_height_eq 6 (by omega)]
  simp [roundUpToLeafPos, pmmrLeafToInsertionIndex, isLeaf, isLeftSibling, height, p6, p7, bitSet,
    insertionToPmmrIndex, m4]

/-! ## `family_branch` (a `Vec<(u64, u64)>`-building loop with `break`) -/

/-- `family_branch(pos0, size)` for `pos0 + 1 < 2^64` and `size ≤ 2^63` (beyond that the parent
position `current + 2·peak` can wrap and re-enter the loop) -/
theorem family_branch_eq (pos size : Nat) (hp : pos + 1 < 2^64) (hs : size ≤ 2^63) :
    Fns.family_branch pos size = familyBranch pos size := by
  unfold Fns.family_branch familyBranch
  rw [peak_map_height_eq pos (by omega)]
  have hh64 : (peakMapHeight pos).2 < 64 := height_lt_64 (by omega)
  obtain ⟨n, h, hh, rfl⟩ := coord_surj pos
  rw [peakMapHeight_co n h hh] at hh64 ⊢
  simp only at hh64
  have hup : up n h = n := up_of_valid hh
  have hc : mmr n + h = cpos (up n h, h) := by simp [cpos, hup]
  simp only [shlW_one_left hh64]
  rw [hc]
  have := fb_loop_eq n size hs 65 h (size + 1) [] 0 (by omega) (by omega) (by rw [← hc]; exact hp)
  simpa using this

theorem family_branch_ok (pos size : Nat) (hp : pos + 1 < 2^64) (hs : size ≤ 2^63) :
    Fns.family_branch_ok pos size = true := by
  unfold Fns.family_branch_ok
  rw [peak_map_height_ok pos (by omega), peak_map_height_eq pos (by omega)]
  have hh64 : (peakMapHeight pos).2 < 64 := height_lt_64 (by omega)
  obtain ⟨n, h, hh, rfl⟩ := coord_surj pos
  rw [peakMapHeight_co n h hh] at hh64 ⊢
  simp only at hh64
  have hup : up n h = n := up_of_valid hh
  have hc : mmr n + h = cpos (up n h, h) := by simp [cpos, hup]
  simp only [shlW_one_left hh64, Bool.true_and]
  rw [hc]
  exact fb_loop_exits n size hs 65 h [] 0 (by omega) (by rw [← hc]; exact hp)

example : Fns.family_branch 0 7 = [(2, 1), (6, 5)] := by
  rw [family_branch_eq 0 7 (by omega) (by omega)]
  have p0 : peakMapHeight 0 = (0, 0) := by simp [peakMapHeight]
  simp [familyBranch, p0, familyBranchLoop, bitSet]

end GV.Props.XlatePmmr
