import GrinVerif.Props.C12Block
/-! # C12 — two kernels of ONE block with the same short id

`compact_read_accepts_written` (Props/C12Block) assumes the short ids of a block's own kernels are
pairwise different.  Here the other case, on the short-id VALUES the wire carries
(`Model/TxBlock.lean: compactWireIds / compactReadIds`): if two different non-coinbase kernels of a
block collide under (block hash, nonce), the `kern_ids` vector `From<Block>` writes holds that value
twice and EVERY reader refuses it (`verify_sorted_and_unique` → `DuplicateError`) — the compact form
of a valid block cannot be received, the peer has to ask for the full block; without a collision
the values pass.  `hydrate_from` itself never reads the ids (`hydrate_ignores_nonce`), so in memory
the block still re-hydrates.  The harness builds such a block from a real 48-bit collision found by
a birthday search (`tx findcollision`, hard-coded) and shows the refusal on the real reader. -/
namespace GV.Props.C12
open GV GV.Tx GV.Tx.Ex List

/-- a sorted vector with two adjacent equal values is refused with `dup` -/
theorem sortedUnique_id_dup : ∀ {l : List Nat}, l.Pairwise (KeyLe id) → adjDup l = true →
    sortedUnique id l = some .dup
  | [], _, d => by simp [adjDup] at d
  | [_], _, d => by simp [adjDup] at d
  | a :: b :: t, s, d => by
    have hab : id a ≤ id b := (pairwise_cons.1 s).1 b mem_cons_self
    simp only [adjDup, Bool.or_eq_true] at d
    by_cases e : a = b
    · subst e; simp [sortedUnique]
    · have hne : (a == b) = false := by simpa using e
      rw [hne] at d
      have d' : adjDup (b :: t) = true := by simpa using d
      have ih := sortedUnique_id_dup (pairwise_cons.1 s).2 d'
      have : ¬ (id a > id b) := Nat.not_lt.2 hab
      simp only [sortedUnique, this, hne, ih, if_false, Bool.false_eq_true]

theorem map_sorted {sk : Nat → Nat} {l : List Nat} (h : l.Pairwise (KeyLe sk)) : (l.map sk).Pairwise (KeyLe id) := by
  rw [pairwise_map]; exact h

theorem eq_of_nodup_map {f : Nat → Nat} : ∀ {l : List Nat}, (l.map f).Nodup → ∀ {a b}, a ∈ l → b ∈ l → f a = f b → a = b
  | [], _, _, _, ha, _, _ => by cases ha
  | x :: t, nd, a, b, ha, hb, e => by
    rw [map_cons, nodup_cons] at nd
    rcases mem_cons.1 ha with rfl | ha' <;> rcases mem_cons.1 hb with rfl | hb'
    · rfl
    · exact absurd (mem_map.2 ⟨b, hb', e.symm⟩) nd.1
    · exact absurd (mem_map.2 ⟨a, ha', e⟩) nd.1
    · exact eq_of_nodup_map nd.2 ha' hb' e

theorem nodup_map_of_injOn {f : Nat → Nat} : ∀ {l : List Nat}, InjOn f l → l.Nodup → (l.map f).Nodup
  | [], _, _ => by simp
  | x :: t, inj, nd => by
    rw [nodup_cons] at nd
    rw [map_cons, nodup_cons]
    refine ⟨?_, nodup_map_of_injOn (inj.of_subset fun a ha => mem_cons_of_mem _ ha) nd.2⟩
    intro hm
    obtain ⟨y, hy, e⟩ := mem_map.1 hm
    have := inj y x (mem_cons_of_mem _ hy) mem_cons_self e
    exact nd.1 (this ▸ hy)

/-- **a collision inside the block makes its compact form unreadable**: two different non-coinbase
kernels of `b` with the same short id under the nonce ⇒ the reader answers `dup` on the written ids. -/
theorem compact_read_refuses_colliding_ids (K : Keys) (sk : Nat → Nat) (nonce : Nat) (b : Block)
    (k1 k2 : Nat) (h1 : k1 ∈ b.kernels) (h2 : k2 ∈ b.kernels) (hne : k1 ≠ k2)
    (c1 : isCoinbase k1 = false) (c2 : isCoinbase k2 = false) (hc : sk k1 = sk k2) :
    compactReadIds (compactWireIds K sk nonce b) = some .dup := by
  unfold compactReadIds compactWireIds
  have m1 : k1 ∈ sortBy sk (compact K nonce b).kernIds := mem_sortBy.2 (by simp [compact, h1, c1])
  have m2 : k2 ∈ sortBy sk (compact K nonce b).kernIds := mem_sortBy.2 (by simp [compact, h2, c2])
  have hs : ((sortBy sk (compact K nonce b).kernIds).map sk).Pairwise (KeyLe id) := map_sorted (sortBy_sorted sk _)
  apply sortedUnique_id_dup hs
  -- not duplicate-free, hence (sorted) two adjacent equal values
  cases hd : adjDup ((sortBy sk (compact K nonce b).kernIds).map sk)
  · exfalso
    have nd := (adjDup_false_iff (injOn_id _) hs).1 hd
    exact hne (eq_of_nodup_map nd m1 m2 hc)
  · rfl

/-- without a collision (and without a kernel twice) the written ids pass -/
theorem compact_read_ids_accepts (K : Keys) (sk : Nat → Nat) (nonce : Nat) (b : Block)
    (ndK : b.kernels.Nodup) (injS : InjOn sk (b.kernels.filter fun k => !isCoinbase k)) :
    compactReadIds (compactWireIds K sk nonce b) = none := by
  unfold compactReadIds compactWireIds
  have hs : ((sortBy sk (compact K nonce b).kernIds).map sk).Pairwise (KeyLe id) := map_sorted (sortBy_sorted sk _)
  apply sortedUnique_none hs
  rw [adjDup_false_iff (injOn_id _) hs]
  have nd0 : (b.kernels.filter fun k => !isCoinbase k).Nodup := ndK.filter _
  have nd : (sortBy sk (compact K nonce b).kernIds).Nodup := (sortBy_perm _ _).nodup_iff.2 nd0
  apply nodup_map_of_injOn _ nd
  exact injS.of_perm (sortBy_perm sk _).symm

/-- non-vacuity: kernels 2 and 4 collide under `sk = (· / 8)`; kernels 2 and 10 do not -/
example : compactReadIds (compactWireIds K0 (· / 8) 0 ⟨0, false, [], [3], [1, 2, 4]⟩) = some .dup := by
  simp [compactReadIds, compactWireIds, compact, isCoinbase, sortBy, sortedUnique, List.mergeSort, List.MergeSort.Internal.splitInTwo]
example : compactReadIds (compactWireIds K0 (· / 8) 0 ⟨0, false, [], [3], [1, 2, 10]⟩) = none := by
  simp [compactReadIds, compactWireIds, compact, isCoinbase, sortBy, sortedUnique, List.mergeSort, List.MergeSort.Internal.splitInTwo]

end GV.Props.C12
