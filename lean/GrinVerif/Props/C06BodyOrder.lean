import GrinVerif.Model.ChainBodyOrder
import GrinVerif.Model.ChainBodyTags
import GrinVerif.Gen.PipeShapeCore
import GrinVerif.Props.XlateShapeLib
/-! The order of the stateless body checks (`Model/ChainBodyOrder.lean`): the fault `withBodyOrder`
puts in front is one of least stage (`firstFault_min`), a block without body-stage fault is left
alone (`withBodyOrder_id`), and the stage numbering IS the order regenerated from the current source
of `TransactionBody::validate_read` / `validate` and `Block::validate` (`body_stage_order_is_code`).
That the error CLASSES map to the right stage is observed by the runs: `hist` delivers two-fault
blocks and the sweep `c01` two-fault transactions with the first stage of the code's order as the
expected verdict. -/
namespace GV.Props.C06BodyOrder
open GV GV.Chain GV.Gen.PipeShape GV.Props.XlateShape

/-- **first failing stage**: the chosen fault is one of the block's faults and no fault of the
block belongs to an earlier stage -/
theorem firstFault_min (l : List (Nat × String)) (x : Nat × String) (h : firstFault l = some x) :
    x ∈ l ∧ ∀ y ∈ l, x.1 ≤ y.1 := by
  induction l generalizing x with
  | nil => cases h
  | cons a as ih =>
    unfold firstFault at h
    cases hr : firstFault as with
    | none =>
      rw [hr] at h
      injection h with h; subst h
      have : as = [] := by
        cases as with
        | nil => rfl
        | cons c cs =>
          unfold firstFault at hr
          cases h2 : firstFault cs <;> rw [h2] at hr <;> simp at hr
          split at hr <;> cases hr
      subst this
      exact ⟨by simp, by intro y hy; simp at hy; subst hy; exact Nat.le_refl _⟩
    | some y =>
      rw [hr] at h
      simp only at h
      obtain ⟨hy, hmin⟩ := ih y hr
      by_cases hle : a.1 ≤ y.1
      · rw [if_pos hle] at h
        injection h with h; subst h
        refine ⟨by simp, ?_⟩
        intro z hz
        rcases List.mem_cons.mp hz with hz | hz
        · subst hz; exact Nat.le_refl _
        · exact Nat.le_trans hle (hmin z hz)
      · rw [if_neg hle] at h
        injection h with h; subst h
        refine ⟨List.mem_cons_of_mem _ hy, ?_⟩
        intro z hz
        rcases List.mem_cons.mp hz with hz | hz
        · subst hz; omega
        · exact hmin z hz

/-- some fault is found whenever there is one -/
theorem firstFault_isSome (l : List (Nat × String)) (h : l ≠ []) : (firstFault l).isSome := by
  cases l with
  | nil => exact absurd rfl h
  | cons a as =>
    unfold firstFault
    cases firstFault as with
    | none => rfl
    | some y => simp only; split <;> rfl

/-- a block without body-stage fault is left as it is: acceptance is untouched -/
theorem withBodyOrder_id (b : Blk) (h : bodyFaults b = []) : b.withBodyOrder = b := by
  unfold Blk.withBodyOrder
  rw [h]
  rfl

/-! ### the ordered block is answered with the chosen error (structured tags, `Model/ChainBodyTags.lean`) -/

theorem firstBody_none_of_no_body (ts : List STag) (h : ∀ t ∈ ts, t.isBody = false) : firstBody ts = none := by
  induction ts with
  | nil => rfl
  | cons t ts ih =>
    cases t with
    | body e => have := h (.body e) (by simp); simp [STag.isBody] at this
    | ksum e => exact ih (fun t ht => h t (List.mem_cons_of_mem _ ht))
    | other r => exact ih (fun t ht => h t (List.mem_cons_of_mem _ ht))

theorem firstBody_ne_none_of_mem (ts : List STag) (e : Err) (h : STag.body e ∈ ts) : firstBody ts ≠ none := by
  induction ts with
  | nil => cases h
  | cons a as ih =>
    cases a with
    | body x => simp [firstBody]
    | ksum x =>
      rcases List.mem_cons.mp h with h | h
      · cases h
      · simpa [firstBody] using ih h
    | other x =>
      rcases List.mem_cons.mp h with h | h
      · cases h
      · simpa [firstBody] using ih h

/-- **`validateBody (withBodyOrder b)` = the chosen error**: whenever the block has a body-stage
fault, the ordered block is refused with the error of the fault `firstFault` chose - by
`firstFault_min` one of the least stage in the code's order -/
theorem validateBodyS_ordered (p : Params) (outs : List OutDef) (b : Blk) (ts : List STag) (iv k : Nat)
    (e : Err) (h : firstFault (bodyFaultsS b ts) = some (k, e)) :
    validateBodyS p outs b (withBodyOrderS b ts) iv = some e := by
  unfold withBodyOrderS validateBodyS
  rw [h]
  rfl

/-- a block without body-stage fault keeps its tags, and then has no `body:` tag, no repeated
commitment and no cut-through: `validateBodyS` goes on to the block-level checks exactly as before -/
theorem validateBodyS_no_fault (b : Blk) (ts : List STag) (h : bodyFaultsS b ts = []) :
    withBodyOrderS b ts = ts ∧ firstBody ts = none ∧ dupInBody b = false ∧ cutThroughViolation b = false := by
  unfold bodyFaultsS at h
  have h1 := List.append_eq_nil_iff.mp h
  have h2 := List.append_eq_nil_iff.mp h1.1
  refine ⟨by unfold withBodyOrderS bodyFaultsS; rw [h]; rfl, ?_, ?_, ?_⟩
  · apply firstBody_none_of_no_body
    intro t ht
    cases t with
    | body e =>
      have : (bodyStage e, e) ∈ ts.filterMap STag.bodyFault :=
        List.mem_filterMap.mpr ⟨.body e, ht, rfl⟩
      rw [h2.1] at this
      cases this
    | ksum e => rfl
    | other r => rfl
  · cases hd : dupInBody b with
    | false => rfl
    | true => rw [hd] at h2; simp at h2
  · cases hc : cutThroughViolation b with
    | false => rfl
    | true => rw [hc] at h1; simp at h1

/-- acceptance is untouched by the ordering: the ordered block passes iff the block passes -/
theorem validateBodyS_ordered_none_iff (p : Params) (outs : List OutDef) (b : Blk) (ts : List STag) (iv : Nat) :
    validateBodyS p outs b (withBodyOrderS b ts) iv = none ↔ validateBodyS p outs b ts iv = none := by
  cases hf : firstFault (bodyFaultsS b ts) with
  | some x =>
    obtain ⟨k, e⟩ := x
    rw [validateBodyS_ordered p outs b ts iv k e hf]
    constructor
    · intro h; cases h
    · intro h
      -- the block has a fault, so the unordered block is refused as well
      exfalso
      have hm := (firstFault_min _ _ hf).1
      unfold bodyFaultsS at hm
      unfold validateBodyS at h
      rcases List.mem_append.mp hm with hm | hm
      · rcases List.mem_append.mp hm with hm | hm
        · obtain ⟨t, ht, hte⟩ := List.mem_filterMap.mp hm
          cases t with
          | body e' =>
            have : firstBody ts ≠ none := firstBody_ne_none_of_mem ts e' ht
            cases hb : firstBody ts with
            | none => exact this hb
            | some x => rw [hb] at h; cases h
          | ksum e' => cases hte
          | other r => cases hte
        · cases hd : dupInBody b with
          | false => rw [hd] at hm; simp at hm
          | true =>
            rw [hd] at h
            cases hb : firstBody ts <;> rw [hb] at h <;> simp at h
      · cases hc : cutThroughViolation b with
        | false => rw [hc] at hm; simp at hm
        | true =>
          rw [hc] at h
          cases hb : firstBody ts <;> rw [hb] at h <;> simp at h
          split at h <;> simp at h
  | none =>
    have : withBodyOrderS b ts = ts := by unfold withBodyOrderS; rw [hf]
    rw [this]

/-- non-vacuity: a block that names one input twice and carries a (later-stage) signature fault is
answered `Serialization` once ordered -/
example : validateBodyS {} [] { id := 1, parent := some 0, h := 1, work := 1, ver := 1, ts := 1, ins := [4, 4], outs := [], kers := [], tags := [] }
    (withBodyOrderS { id := 1, parent := some 0, h := 1, work := 1, ver := 1, ts := 1, ins := [4, 4], outs := [], kers := [], tags := [] }
      [.other "kind:x", .ksum "Block:KernelSumMismatch"]) 0
    = some "Block:Transaction:Serialization" := by decide

/-- the stages of `bodyStage`, in its numbering -/
def stageNames : List String :=
  ["verify_weight", "verify_no_nrd_duplicates", "verify_sorted", "verify_cut_through",
   "batch_verify_proofs", "batch_sig_verify"]

/-- **stage order = code**: the numbering of `bodyStage` is the order of checks read from the
current source of `TransactionBody::validate_read` followed by the rest of
`TransactionBody::validate`; `Block::validate` runs the body first, then lock heights, the NRD era,
the coinbase claim and the kernel sums - the order of `validateBody` after its `body:` tag; and
`Transaction::validate` checks the features BEFORE the body while `validate_read` checks them after -/
theorem body_stage_order_is_code :
    readOk body_validate_read = true ∧ readOk body_validate = true ∧ readOk block_validate = true ∧
    spine body_validate_read ++ (spine body_validate).filter (· != "validate_read") = stageNames ∧
    spine block_validate = ["validate", "verify_kernel_lock_heights", "verify_nrd_kernels_for_header_version",
      "verify_coinbase", "block_kernel_offset", "verify_kernel_sums"] ∧
    spine tx_validate = ["verify_features", "validate", "verify_kernel_sums"] ∧
    spine tx_validate_read = ["validate_read", "verify_features"] := by decide

/-- non-vacuity of `firstFault_min`: three faults, the one of the least stage wins, the earlier of
two equal ones -/
example : firstFault [(5, "sig"), (2, "unsorted"), (4, "proof"), (2, "repeated")] = some (2, "unsorted") := by decide

end GV.Props.C06BodyOrder
