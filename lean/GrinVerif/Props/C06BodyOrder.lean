import GrinVerif.Model.ChainBodyOrder
import GrinVerif.Gen.PipeShapeCore
import GrinVerif.Props.XlateShapeLib
/-! The order of the stateless body checks (`Model/ChainBodyOrder.lean`): the fault `withBodyOrder`
puts in front is one of least stage (`firstFault_min`), a block without body-stage fault is left
alone (`withBodyOrder_id`), and the stage numbering IS the order regenerated from the current source
of `TransactionBody::validate_read` / `validate` and `Block::validate` (`body_stage_order_is_code`).
That the error CLASSES map to the right stage is observed by the runs: `hist` delivers two-fault
blocks and the sweep `c01` two-fault transactions with the first stage of the code's order as the
expected verdict. -/
namespace GV.Props.C06BodyOrder
open GV GV.Chain GV.Gen.PipeShape GV.Props.XlateShape

/-- **first failing stage**: the chosen fault is one of the block's faults and no fault of the
block belongs to an earlier stage -/
theorem firstFault_min (l : List (Nat × String)) (x : Nat × String) (h : firstFault l = some x) :
    x ∈ l ∧ ∀ y ∈ l, x.1 ≤ y.1 := by
  induction l generalizing x with
  | nil => cases h
  | cons a as ih =>
    unfold firstFault at h
    cases hr : firstFault as with
    | none =>
      rw [hr] at h
      injection h with h; subst h
      have : as = [] := by
        cases as with
        | nil => rfl
        | cons c cs =>
          unfold firstFault at hr
          cases h2 : firstFault cs <;> rw [h2] at hr <;> simp at hr
          split at hr <;> cases hr
      subst this
      exact ⟨by simp, by intro y hy; simp at hy; subst hy; exact Nat.le_refl _⟩
    | some y =>
      rw [hr] at h
      simp only at h
      obtain ⟨hy, hmin⟩ := ih y hr
      by_cases hle : a.1 ≤ y.1
      · rw [if_pos hle] at h
        injection h with h; subst h
        refine ⟨by simp, ?_⟩
        intro z hz
        rcases List.mem_cons.mp hz with hz | hz
        · subst hz; exact Nat.le_refl _
        · exact Nat.le_trans hle (hmin z hz)
      · rw [if_neg hle] at h
        injection h with h; subst h
        refine ⟨List.mem_cons_of_mem _ hy, ?_⟩
        intro z hz
        rcases List.mem_cons.mp hz with hz | hz
        · subst hz; omega
        · exact hmin z hz

/-- some fault is found whenever there is one -/
theorem firstFault_isSome (l : List (Nat × String)) (h : l ≠ []) : (firstFault l).isSome := by
  cases l with
  | nil => exact absurd rfl h
  | cons a as =>
    unfold firstFault
    cases firstFault as with
    | none => rfl
    | some y => simp only; split <;> rfl

/-- a block without body-stage fault is left as it is: acceptance is untouched -/
theorem withBodyOrder_id (b : Blk) (h : bodyFaults b = []) : b.withBodyOrder = b := by
  unfold Blk.withBodyOrder
  rw [h]
  rfl

/-- the stages of `bodyStage`, in its numbering -/
def stageNames : List String :=
  ["verify_weight", "verify_no_nrd_duplicates", "verify_sorted", "verify_cut_through",
   "batch_verify_proofs", "batch_sig_verify"]

/-- **stage order = code**: the numbering of `bodyStage` is the order of checks read from the
current source of `TransactionBody::validate_read` followed by the rest of
`TransactionBody::validate`; `Block::validate` runs the body first, then lock heights, the NRD era,
the coinbase claim and the kernel sums - the order of `validateBody` after its `body:` tag; and
`Transaction::validate` checks the features BEFORE the body while `validate_read` checks them after -/
theorem body_stage_order_is_code :
    readOk body_validate_read = true ∧ readOk body_validate = true ∧ readOk block_validate = true ∧
    spine body_validate_read ++ (spine body_validate).filter (· != "validate_read") = stageNames ∧
    spine block_validate = ["validate", "verify_kernel_lock_heights", "verify_nrd_kernels_for_header_version",
      "verify_coinbase", "block_kernel_offset", "verify_kernel_sums"] ∧
    spine tx_validate = ["verify_features", "validate", "verify_kernel_sums"] ∧
    spine tx_validate_read = ["validate_read", "verify_features"] := by decide

/-- non-vacuity of `firstFault_min`: three faults, the one of the least stage wins, the earlier of
two equal ones -/
example : firstFault [(5, "sig"), (2, "unsorted"), (4, "proof"), (2, "repeated")] = some (2, "unsorted") := by decide

end GV.Props.C06BodyOrder
