import GrinVerif.Model.CodecGlue
import GrinVerif.Gen.CodecDispatch
/-! # C19 — the dispatch above the framing layer is the regenerated table

`tools/gen_codec_dispatch.py` regenerates on every run (`Gen/CodecDispatch.lean`):
`decodeArms` (the arms of `decode_message`, codec.rs), `consumeArms` (the arms of `Protocol::consume`,
protocol.rs: message variant → adapter methods called → outcomes), `senders` (every `pub fn send_*` of
`impl Peer`, peer.rs: function → `msg::Type`, guard, side effects) and `messageVariants`.

The hand model (`Model/CodecGlue.lean`: `consumeGlue`, `sendGlue`, driven against the real `Peer` /
`Protocol` by the `glue` run) is tied to these tables for EVERY input, not for samples:

* `consume_follows_table` — for every peer state and every message the model calls adapter methods that
  are a prefix of the arm's methods in source order, the whole list when no gate returns early
  (`consume_full_path_calls_all`), and ends in one of the arm's outcomes;
* `consume_arms_are_the_message_variants`, `model_covers_every_arm` — `Protocol::consume` has exactly one
  arm per variant of `enum Message`; the model has an input for each of them except `Unknown` (dropped by
  the reader loop before the handler: `Model/CodecConn.connLoop`);
* `request_answered_with_its_response_type` — the table pairs every request with the response type the
  protocol defines (`GetBlock → Block`, … , the four segment pairs, `TxHashSetRequest →
  TxHashSetArchive+attachment`), `response_type_of_model` the same for the model, as type BYTES;
* `decode_dispatch_is_identity` — `decode_message` maps `Type::X` to `Message::X` for exactly the types the
  model dispatches (`isDispatched`), and refuses `Error | Hand | Shake | Headers`;
* `senders_follow_table`, `senders_all_modelled`, `sender_effects` — every `Peer::send_*` puts the type of
  the table on the wire (a transaction as `TransactionKernel` iff the remote announced `TX_KERNEL_HASH`),
  only the guarded ones can suppress, only `send_block_request` / `send_txhashset_request` change state.

A misrouted arm (e.g. `GetCompactBlock` answered with `Type::Block`, a `send_*` wrapper with the wrong
`msg::Type`, a dropped `push_req`) changes the generated table and breaks these theorems; the same
change in the hand model alone breaks them too. -/
namespace GV.Props.C19Dispatch
open GV GV.Ser GV.Msg GV.Codec GV.Gen.Msg GV.Gen.CodecConn GV.Gen.CodecDispatch

/-- no gate of the arm returns before its last adapter call -/
def fullPath (g : Glue) : In → Bool
  | .archive _ _ => g.ready && g.syncRequested
  | .txhashsetReq hdrOk _ => hdrOk
  | .attachment _ _ left => left == 0
  | _ => true

/-- **`Protocol::consume` follows the regenerated table** (peer not banned; a banned peer: see
`C19Glue.banned_peer_gets_nothing`) -/
theorem consume_follows_table (g : Glue) (hb : g.banned = false) (m : In) :
    ∃ calls outs, consumeArms.lookup m.arm = some (calls, outs) ∧
      (consumeGlue g m).2.1.map Call.method <+: calls ∧
      ((consumeGlue g m).2.2.name ∈ outs ∨ (consumeGlue g m).2.2 = .chainErr) := by
  cases m with
  | ping td h => exact ⟨_, _, rfl, by simp [consumeGlue, hb, Call.method], by simp [consumeGlue, hb, GOut.name]⟩
  | pong td h => exact ⟨_, _, rfl, by simp [consumeGlue, hb, Call.method], by simp [consumeGlue, hb, GOut.name]⟩
  | banReason => exact ⟨_, _, rfl, by simp [consumeGlue, hb], by simp [consumeGlue, hb, GOut.name]⟩
  | kernel h => exact ⟨_, _, rfl, by simp [consumeGlue, hb, Call.method], by simp [consumeGlue, hb, GOut.name]⟩
  | tx k0 stem =>
    cases stem
    · exact ⟨_, _, rfl, by simp [consumeGlue, hb, Call.method], by simp [consumeGlue, hb, GOut.name]⟩
    · exact ⟨_, _, rfl, by simp [consumeGlue, hb, Call.method], by simp [consumeGlue, hb, GOut.name]⟩
  | block h => exact ⟨_, _, rfl, by simp [consumeGlue, hb, Call.method], by simp [consumeGlue, hb, GOut.name]⟩
  | cblock h => exact ⟨_, _, rfl, by simp [consumeGlue, hb, Call.method], by simp [consumeGlue, hb, GOut.name]⟩
  | header h => exact ⟨_, _, rfl, by simp [consumeGlue, hb, Call.method], by simp [consumeGlue, hb, GOut.name]⟩
  | getBlock h found =>
    cases found
    · exact ⟨_, _, rfl, by simp [consumeGlue, hb, Call.method], by simp [consumeGlue, hb, GOut.name]⟩
    · exact ⟨_, _, rfl, by simp [consumeGlue, hb, Call.method], Or.inl (by simp only [consumeGlue, hb, Bool.false_eq_true, ↓reduceIte]; decide)⟩
  | getCompactBlock h found =>
    cases found
    · exact ⟨_, _, rfl, by simp [consumeGlue, hb, Call.method], by simp [consumeGlue, hb, GOut.name]⟩
    · exact ⟨_, _, rfl, by simp [consumeGlue, hb, Call.method], Or.inl (by simp only [consumeGlue, hb, Bool.false_eq_true, ↓reduceIte]; decide)⟩
  | getTx h found =>
    cases found
    · exact ⟨_, _, rfl, by simp [consumeGlue, hb, Call.method], by simp [consumeGlue, hb, GOut.name]⟩
    · exact ⟨_, _, rfl, by simp [consumeGlue, hb, Call.method], Or.inl (by simp only [consumeGlue, hb, Bool.false_eq_true, ↓reduceIte]; decide)⟩
  | getPeerAddrs caps =>
    exact ⟨_, _, rfl, by simp [consumeGlue, hb, Call.method], Or.inl (by simp only [consumeGlue, hb, Bool.false_eq_true, ↓reduceIte]; decide)⟩
  | getHeaders n =>
    exact ⟨_, _, rfl, by simp [consumeGlue, hb, Call.method], Or.inl (by simp only [consumeGlue, hb, Bool.false_eq_true, ↓reduceIte]; decide)⟩
  | archive h bytes =>
    refine ⟨_, _, rfl, ?_, ?_⟩
    · cases hr : g.ready <;> cases hs : g.syncRequested <;> simp [consumeGlue, hb, hr, hs, Call.method] <;> decide
    · cases hr : g.ready <;> cases hs : g.syncRequested <;> simp [consumeGlue, hb, hr, hs, GOut.name]
  | attachment h size left =>
    refine ⟨_, _, rfl, ?_, ?_⟩
    · by_cases hl : left = 0
      · simp [consumeGlue, hb, hl, Call.method]
      · simp only [consumeGlue, hb, hl, if_false, Bool.false_eq_true, List.map, Call.method]; decide
    · simp [consumeGlue, hb, GOut.name]
  | headers n => exact ⟨_, _, rfl, by simp [consumeGlue, hb, Call.method], by simp [consumeGlue, hb, GOut.name]⟩
  | peerAddrs n => exact ⟨_, _, rfl, by simp [consumeGlue, hb, Call.method], by simp [consumeGlue, hb, GOut.name]⟩
  | txhashsetReq hdrOk found =>
    refine ⟨_, _, rfl, ?_, ?_⟩
    · cases hdrOk <;> simp [consumeGlue, hb, Call.method] <;> decide
    · cases hdrOk <;> cases found <;> simp only [consumeGlue, hb, Bool.false_eq_true, ↓reduceIte, Bool.not_false, Bool.not_true] <;> decide
  | getSegment k found =>
    cases k <;> cases found <;>
      exact ⟨_, _, rfl, by simp [consumeGlue, hb, Call.method, SegKind.getMethod],
        Or.inl (by simp only [consumeGlue, hb, Bool.false_eq_true, ↓reduceIte]; decide)⟩
  | segment k =>
    cases k <;>
      exact ⟨_, _, rfl, by simp [consumeGlue, hb, Call.method, SegKind.recvMethod], by simp [consumeGlue, hb, GOut.name]⟩

/-- … and when no gate returns early the model calls ALL the adapter methods of the arm, in source order
(so an adapter notification dropped from the model, or added to the source, breaks this) -/
theorem consume_full_path_calls_all (g : Glue) (hb : g.banned = false) (m : In) (hf : fullPath g m = true) :
    ∃ outs, consumeArms.lookup m.arm = some ((consumeGlue g m).2.1.map Call.method, outs) := by
  cases m with
  | ping td h => exact ⟨_, by simp only [consumeGlue, hb]; rfl⟩
  | pong td h => exact ⟨_, by simp only [consumeGlue, hb]; rfl⟩
  | banReason => exact ⟨_, by simp only [consumeGlue, hb]; rfl⟩
  | kernel h => exact ⟨_, by simp only [consumeGlue, hb]; rfl⟩
  | tx k0 stem => cases stem <;> exact ⟨_, by simp only [consumeGlue, hb]; rfl⟩
  | block h => exact ⟨_, by simp only [consumeGlue, hb]; rfl⟩
  | cblock h => exact ⟨_, by simp only [consumeGlue, hb]; rfl⟩
  | header h => exact ⟨_, by simp only [consumeGlue, hb]; rfl⟩
  | getBlock h found => exact ⟨_, by simp only [consumeGlue, hb]; rfl⟩
  | getCompactBlock h found => exact ⟨_, by simp only [consumeGlue, hb]; rfl⟩
  | getTx h found => exact ⟨_, by simp only [consumeGlue, hb]; rfl⟩
  | getPeerAddrs caps => exact ⟨_, by simp only [consumeGlue, hb]; rfl⟩
  | getHeaders n => exact ⟨_, by simp only [consumeGlue, hb]; rfl⟩
  | archive h bytes =>
    simp only [fullPath, Bool.and_eq_true] at hf
    exact ⟨_, by simp only [consumeGlue, hb, hf.1, hf.2]; rfl⟩
  | attachment h size left =>
    simp only [fullPath, beq_iff_eq] at hf
    exact ⟨_, by simp only [consumeGlue, hb, hf]; rfl⟩
  | headers n => exact ⟨_, by simp only [consumeGlue, hb]; rfl⟩
  | peerAddrs n => exact ⟨_, by simp only [consumeGlue, hb]; rfl⟩
  | txhashsetReq hdrOk found =>
    simp only [fullPath] at hf
    exact ⟨_, by simp only [consumeGlue, hb, hf]; rfl⟩
  | getSegment k found => cases k <;> exact ⟨_, by simp only [consumeGlue, hb]; rfl⟩
  | segment k => cases k <;> exact ⟨_, by simp only [consumeGlue, hb]; rfl⟩

/-- non-vacuity: a peer state in which every gate is open -/
example : fullPath { Glue.new 3 1000 0 ⟨[127, 0, 0, 1], 1⟩ 1 1 with ready := true, syncRequested := true }
    (.archive [1] 7) = true := rfl

/-- **one arm per `Message` variant**: `Protocol::consume` handles every variant of `enum Message`
exactly once -/
theorem consume_arms_are_the_message_variants :
    (consumeArms.map (·.1)).length = messageVariants.length ∧ (consumeArms.map (·.1)).Nodup ∧
    (∀ v ∈ messageVariants, v ∈ consumeArms.map (·.1)) := by
  refine ⟨by decide, by decide, by decide⟩

/-- one input of the model per arm -/
def representatives : List In :=
  [.attachment [] 0 0, .ping 0 0, .pong 0 0, .banReason, .kernel [], .getTx [] true, .tx [] false, .tx [] true,
   .getBlock [] true, .block [], .getCompactBlock [] true, .cblock [], .getHeaders 0, .header [], .headers 0,
   .getPeerAddrs 0, .peerAddrs 0, .txhashsetReq true true, .archive [] 0,
   .getSegment .bitmap true, .getSegment .output true, .getSegment .rangeproof true, .getSegment .kernel true,
   .segment .bitmap, .segment .output, .segment .rangeproof, .segment .kernel]

/-- **the model has an input for every arm** except `Unknown` (which never reaches the handler) -/
theorem model_covers_every_arm :
    representatives.map In.arm ++ ["Unknown"] = consumeArms.map (·.1) := by decide

/-- the request → response pairs the protocol defines -/
def requestResponse : List (String × String) :=
  [("Ping", "Response:Pong"), ("GetPeerAddrs", "Response:PeerAddrs"), ("GetHeaders", "Response:Headers"),
   ("GetBlock", "Response:Block"), ("GetCompactBlock", "Response:CompactBlock"),
   ("GetTransaction", "Response:Transaction"), ("TxHashSetRequest", "Response:TxHashSetArchive+attachment"),
   ("GetOutputBitmapSegment", "Response:OutputBitmapSegment"), ("GetOutputSegment", "Response:OutputSegment"),
   ("GetRangeProofSegment", "Response:RangeProofSegment"), ("GetKernelSegment", "Response:KernelSegment")]

/-- **every request is answered with its own response type or not at all**, and nothing else is ever
answered: the arms that can produce a `Consumed::Response` are exactly the eleven requests, each with the
type the protocol pairs it with -/
theorem request_answered_with_its_response_type :
    (∀ e ∈ consumeArms, ∀ o ∈ e.2.2, o ∈ ["None", "Disconnect", "Attachment", "Err:BadMessage"] ∨ (e.1, o) ∈ requestResponse) ∧
    (∀ p ∈ requestResponse, ∃ e ∈ consumeArms, e.1 = p.1 ∧ p.2 ∈ e.2.2) ∧
    protocolResponses = requestResponse.length := by
  refine ⟨by decide, by decide, by decide⟩

/-- … as type bytes, for the model: whatever the peer state, a response carries the type byte paired
with the request (`GetBlock` 10 → 11, `GetCompactBlock` 12 → 13, `GetTransaction` 19 → 15,
`GetHeaders` 7 → 9, `GetPeerAddrs` 5 → 6, `TxHashSetRequest` 16 → 17, segment requests 21/23/25/27 → +1) -/
theorem response_type_of_model (g : Glue) (m : In) (t : Nat)
    (h : (consumeGlue g m).2.2 = .stored t ∨ (consumeGlue g m).2.2 = .storedAtt t) :
    (m.arm, t) ∈ [("GetBlock", 11), ("GetCompactBlock", 13), ("GetTransaction", 15), ("GetHeaders", 9), ("GetPeerAddrs", 6),
      ("TxHashSetRequest", 17), ("GetOutputBitmapSegment", 22), ("GetOutputSegment", 24),
      ("GetRangeProofSegment", 26), ("GetKernelSegment", 28)] := by
  unfold consumeGlue at h
  cases hb : g.banned
  · simp only [hb, Bool.false_eq_true, if_false] at h
    cases m with
    | getBlock _ found => cases found <;> simp at h; subst h; simp only [In.arm]; decide
    | getCompactBlock _ found => cases found <;> simp at h; subst h; simp only [In.arm]; decide
    | getTx _ found => cases found <;> simp at h; subst h; simp only [In.arm]; decide
    | getPeerAddrs _ => simp at h; subst h; simp only [In.arm]; decide
    | getHeaders _ => simp at h; subst h; simp only [In.arm]; decide
    | txhashsetReq hdrOk found => cases hdrOk <;> cases found <;> simp at h; subst h; simp only [In.arm]; decide
    | getSegment k found => cases k <;> cases found <;> simp at h <;> (subst h; simp only [In.arm]; decide)
    | archive _ _ => cases hr : g.ready <;> cases hs : g.syncRequested <;> simp [hr, hs] at h
    | tx _ stem => cases stem <;> simp at h
    | attachment _ _ left => simp at h
    | _ => simp at h
  · simp [hb] at h

/-! ## order-exact: every execution of an arm is one PATH of the regenerated statement walk -/

/-- the regenerated paths, flattened: (arm, adapter calls in execution order with `?` marks, outcome) -/
def flatPaths : List (String × List String × String) :=
  consumePaths.flatMap fun e => e.2.map fun p => (e.1, p.2.1, p.2.2.2)

/-- **`Protocol::consume` is order-exact**: for every peer state and every message whose adapter calls
succeed, the adapter methods the model calls — in ORDER, with the `?` marks — and the outcome are exactly
one path of the statement-by-statement walk of the arm in the current source (no prefix, no superset) -/
theorem consume_is_a_path (g : Glue) (hb : g.banned = false) (m : In) (hok : ∀ f, m ≠ .txhashsetReq false f) :
    (m.arm, (consumeGlue g m).2.1.map Call.tag, (consumeGlue g m).2.2.name) ∈ flatPaths := by
  cases m with
  | ping td h => simp only [consumeGlue, hb, Bool.false_eq_true, ↓reduceIte, In.arm, List.map, Call.tag, Call.fallible, Call.method, GOut.name]; decide
  | pong td h => simp only [consumeGlue, hb, Bool.false_eq_true, ↓reduceIte, In.arm, List.map, Call.tag, Call.fallible, Call.method, GOut.name]; decide
  | banReason => simp only [consumeGlue, hb, Bool.false_eq_true, ↓reduceIte, In.arm, List.map]; decide
  | kernel h => simp only [consumeGlue, hb, Bool.false_eq_true, ↓reduceIte, In.arm, List.map, Call.tag, Call.fallible, Call.method]; decide
  | tx k0 stem => cases stem <;> (simp only [consumeGlue, hb, Bool.false_eq_true, ↓reduceIte, In.arm, List.map, Call.tag, Call.fallible, Call.method]; decide)
  | block h => simp only [consumeGlue, hb, Bool.false_eq_true, ↓reduceIte, In.arm, List.map, Call.tag, Call.fallible, Call.method]; decide
  | cblock h => simp only [consumeGlue, hb, Bool.false_eq_true, ↓reduceIte, In.arm, List.map, Call.tag, Call.fallible, Call.method]; decide
  | header h => simp only [consumeGlue, hb, Bool.false_eq_true, ↓reduceIte, In.arm, List.map, Call.tag, Call.fallible, Call.method]; decide
  | getBlock h found => cases found <;> (simp only [consumeGlue, hb, Bool.false_eq_true, ↓reduceIte, In.arm, List.map, Call.tag, Call.fallible, Call.method]; decide)
  | getCompactBlock h found => cases found <;> (simp only [consumeGlue, hb, Bool.false_eq_true, ↓reduceIte, In.arm, List.map, Call.tag, Call.fallible, Call.method]; decide)
  | getTx h found => cases found <;> (simp only [consumeGlue, hb, Bool.false_eq_true, ↓reduceIte, In.arm, List.map, Call.tag, Call.fallible, Call.method]; decide)
  | getPeerAddrs caps => simp only [consumeGlue, hb, Bool.false_eq_true, ↓reduceIte, In.arm, List.map, Call.tag, Call.fallible, Call.method]; decide
  | getHeaders n => simp only [consumeGlue, hb, Bool.false_eq_true, ↓reduceIte, In.arm, List.map, Call.tag, Call.fallible, Call.method]; decide
  | archive h bytes =>
    cases hr : g.ready <;> cases hs : g.syncRequested <;>
      (simp only [consumeGlue, hb, hr, hs, Bool.false_eq_true, ↓reduceIte, In.arm, List.map, Call.tag, Call.fallible, Call.method, Bool.not_false, Bool.not_true, GOut.name]; decide)
  | attachment h size left =>
    by_cases hl : left = 0
    · simp only [consumeGlue, hb, hl, Bool.false_eq_true, ↓reduceIte, In.arm, List.map, Call.tag, Call.fallible, Call.method]; decide
    · simp only [consumeGlue, hb, hl, Bool.false_eq_true, ↓reduceIte, In.arm, List.map, Call.tag, Call.fallible, Call.method]; decide
  | headers n => simp only [consumeGlue, hb, Bool.false_eq_true, ↓reduceIte, In.arm, List.map, Call.tag, Call.fallible, Call.method]; decide
  | peerAddrs n => simp only [consumeGlue, hb, Bool.false_eq_true, ↓reduceIte, In.arm, List.map, Call.tag, Call.fallible, Call.method]; decide
  | txhashsetReq hdrOk found =>
    cases hdrOk
    · exact absurd rfl (hok found)
    · cases found <;> (simp only [consumeGlue, hb, Bool.false_eq_true, ↓reduceIte, In.arm, List.map, Call.tag, Call.fallible, Call.method, Bool.not_true]; decide)
  | getSegment k found =>
    cases k <;> cases found <;>
      (simp only [consumeGlue, hb, Bool.false_eq_true, ↓reduceIte, In.arm, List.map, Call.tag, Call.fallible, Call.method]; decide)
  | segment k =>
    cases k <;> (simp only [consumeGlue, hb, Bool.false_eq_true, ↓reduceIte, In.arm, List.map, Call.tag, Call.fallible, Call.method]; decide)

/-- one (ready, requested, input) per path of the table, in table order -/
def pathRepresentatives : List (Bool × Bool × In) :=
  [(false, false, .attachment [] 0 0), (false, false, .attachment [] 1 1), (false, false, .ping 0 0), (false, false, .pong 0 0),
   (false, false, .banReason), (false, false, .kernel []), (false, false, .getTx [] true), (false, false, .getTx [] false),
   (false, false, .tx [] false), (false, false, .tx [] true), (false, false, .getBlock [] true), (false, false, .getBlock [] false),
   (false, false, .block []), (false, false, .getCompactBlock [] true), (false, false, .getCompactBlock [] false),
   (false, false, .cblock []), (false, false, .getHeaders 0), (false, false, .header []), (false, false, .headers 0),
   (false, false, .getPeerAddrs 0), (false, false, .peerAddrs 0), (false, false, .txhashsetReq true true),
   (false, false, .txhashsetReq true false), (false, false, .archive [] 0), (true, true, .archive [] 0),
   (false, false, .getSegment .bitmap true), (false, false, .getSegment .bitmap false),
   (false, false, .getSegment .output true), (false, false, .getSegment .output false),
   (false, false, .getSegment .rangeproof true), (false, false, .getSegment .rangeproof false),
   (false, false, .getSegment .kernel true), (false, false, .getSegment .kernel false),
   (false, false, .segment .bitmap), (false, false, .segment .output), (false, false, .segment .rangeproof),
   (false, false, .segment .kernel)]

/-- **every path of the source is an execution of the model** (and the table has no other paths):
the model, run on one representative per path, reproduces the regenerated table path by path -/
theorem model_paths_are_the_table :
    pathRepresentatives.map (fun r =>
      let g : Glue := { Glue.new 1000 1000 0 ⟨[127, 0, 0, 1], 1⟩ 1 1 with ready := r.1, syncRequested := r.2.1 }
      (r.2.2.arm, (consumeGlue g r.2.2).2.1.map Call.tag, (consumeGlue g r.2.2).2.2.name)) ++ [("Unknown", [], "None")] = flatPaths := by
  decide

/-! ## adapter errors -/

/-- **an adapter error is swallowed**: whichever `?`-call fails, the handler stops right there (the calls
made are the path up to and including the failing one), answers nothing, the error is `Error::Chain`,
which `try_break!` tolerates (the connection stays), and the peer state is the one of the successful run
(the `TrackingAdapter` remembers a hash BEFORE it hands the object to the adapter) -/
theorem adapter_error_swallowed (g : Glue) (m : In) (f : String) (pre : List Call)
    (h : truncAt f (consumeGlue g m).2.1 = some pre) :
    consumeGlueF g m f = ((consumeGlue g m).1, pre, .chainErr) ∧ pre <+: (consumeGlue g m).2.1 ∧
    (∃ c, pre.getLast? = some c ∧ c.fallible = true ∧ c.method = f) := by
  refine ⟨by simp [consumeGlueF, h], ?_, ?_⟩
  · generalize (consumeGlue g m).2.1 = cs at h
    induction cs generalizing pre with
    | nil => simp [truncAt] at h
    | cons c r ih =>
      simp only [truncAt] at h
      split at h
      · cases h; exact ⟨r, rfl⟩
      · cases hr : truncAt f r with
        | none => simp [hr] at h
        | some p =>
          simp [hr] at h; subst h
          obtain ⟨t, ht⟩ := ih p hr
          exact ⟨t, by simp [← ht]⟩
  · generalize (consumeGlue g m).2.1 = cs at h
    induction cs generalizing pre with
    | nil => simp [truncAt] at h
    | cons c r ih =>
      simp only [truncAt] at h
      split at h
      · rename_i hc
        cases h
        simp only [Bool.and_eq_true, beq_iff_eq] at hc
        exact ⟨c, rfl, hc.1, hc.2⟩
      · cases hr : truncAt f r with
        | none => simp [hr] at h
        | some p =>
          simp [hr] at h; subst h
          obtain ⟨c', h1, h2, h3⟩ := ih p hr
          refine ⟨c', ?_, h2, h3⟩
          cases p with
          | nil => simp at h1
          | cons a t => simpa [List.getLast?_cons_cons] using h1

/-- … and when no `?`-call of that method is on the path nothing changes -/
theorem adapter_error_elsewhere (g : Glue) (m : In) (f : String) (h : truncAt f (consumeGlue g m).2.1 = none) :
    consumeGlueF g m f = consumeGlue g m := by
  simp [consumeGlueF, h]

/-- the model's "no archive header" input IS the failure of `txhashset_archive_header` -/
theorem no_archive_header_is_adapter_failure (g : Glue) (found : Bool) :
    consumeGlue g (.txhashsetReq false found) = consumeGlueF g (.txhashsetReq true found) "txhashset_archive_header" := by
  cases hb : g.banned <;> cases found <;> simp [consumeGlue, consumeGlueF, truncAt, hb, Call.fallible, Call.method]

/-- **an io error inside the handler ends the connection**: the only `io` point on the accepted-archive path is
the `open` of the temporary file (regenerated); when it fails the adapter calls made are those of the
successful path, the request is used up all the same, no attachment is expected (`ioErr`, not `attachment`),
and `Error::Connection` is not among the errors `try_break!` tolerates -/
theorem io_error_ends_connection (g : Glue) (hb : g.banned = false) (hr : g.ready = true) (hs : g.syncRequested = true)
    (h : Bytes) (n : Nat) :
    (consumeGlueIo g (.archive h n)).2.2 = .ioErr ∧
    (consumeGlueIo g (.archive h n)).2.1 = (consumeGlue g (.archive h n)).2.1 ∧
    (consumeGlueIo g (.archive h n)).1.syncRequested = false ∧
    (consumePaths.lookup "TxHashSetArchive").map (fun ps => ps.map (·.2.2.1)) = some [[], ["io:open"]] ∧
    ("io::Error", "Connection") ∈ errorConversions ∧ "Connection" ∉ toleratedErrors := by
  refine ⟨by simp [consumeGlueIo, hb, hr, hs], by simp [consumeGlueIo, consumeGlue, hb, hr, hs],
    by simp [consumeGlueIo, hb, hr, hs], by decide, by decide, by decide⟩

/-- **which errors are swallowed, which end the connection** (regenerated facts): every entry of a path is a `ChainAdapter` / `NetAdapter` method, and every `?` behind an
adapter call is on a method returning `Result<_, chain::Error>`; `chain::Error` becomes `Error::Chain`,
which `try_break!` tolerates; the other `?` points of the handler are `io::Error` (→ `Error::Connection`,
tolerated only for the kinds `TimedOut` / `WouldBlock`) and `ser::Error` (→ `Error::Serialization`, never
tolerated), and the explicit `return Err(Error::BadMessage)`: these end the connection -/
theorem error_classes :
    (∀ p ∈ flatPaths, ∀ c ∈ p.2.1, c ∈ adapterMethods ∨ c ∈ ["find_peer_addrs", "peer_addrs_received", "peer_difficulty"] ∨ c ∈ adapterResultMethods.map (· ++ "?")) ∧
    ("chain::Error", "Chain") ∈ errorConversions ∧ "Chain" ∈ toleratedErrors ∧
    ("io::Error", "Connection") ∈ errorConversions ∧ "Connection" ∉ toleratedErrors ∧
    ("ser::Error", "Serialization") ∈ errorConversions ∧ "Serialization" ∉ toleratedErrors ∧
    "BadMessage" ∉ toleratedErrors ∧ toleratedIoKinds = ["TimedOut", "WouldBlock"] ∧
    (consumePaths.flatMap fun e => e.2.flatMap fun p => p.2.2.1).eraseDups = ["io:open", "ser:new", "io:metadata", "ser:into_segment"] := by
  refine ⟨?_, by decide, by decide, by decide, by decide, by decide, by decide, by decide, by decide, by decide⟩
  decide

/-- **`decode_message` is the identity on names**, dispatches exactly the types the model dispatches and
refuses exactly `Error`, `Hand`, `Shake`, `Headers` -/
theorem decode_dispatch_is_identity :
    (∀ e ∈ decodeArms, e.1 = e.2) ∧
    (∀ e ∈ typeTable, isDispatched e.2 = (decodeArms.map (·.1)).contains e.1) ∧
    (∀ e ∈ typeTable, (isKnownType e.2 && !isDispatched e.2) = decodeRefused.contains e.1) ∧
    (decodeArms.map (·.1)).Nodup ∧ decodeArms.length + decodeRefused.length = typeTable.length := by
  refine ⟨by decide, by decide, by decide, by decide, by decide⟩

/-- every `Message` variant other than `Unknown`, `Headers`, `Attachment` (produced by the codec's own
states) comes out of `decode_message` -/
theorem decode_produces_the_variants :
    ∀ v ∈ messageVariants, v ∈ ["Unknown", "Headers", "Attachment"] ∨ v ∈ decodeArms.map (·.2) := by decide

/-- one request of the harness per `pub fn send_*` -/
def outRepresentatives : List Out :=
  [.ping 0 0, .banReason, .cblock [], .header [], .kernel [], .tx [], .stem, .headerReq, .txReq, .blockReq [] 0,
   .cblockReq, .peerReq, .txhashsetReq, .segReq .bitmap, .segReq .output, .segReq .rangeproof, .segReq .kernel]

/-- **every `Peer::send_*` is modelled** (and there are no others) -/
theorem senders_all_modelled : outRepresentatives.map Out.sender = senders.map (·.1) := by decide

/-- **a `Peer::send_*` puts the type of the table on the wire**; a transaction goes out as its kernel hash
iff the remote announced `TX_KERNEL_HASH` (the table records the delegation); only the senders the table
marks as guarded can suppress the message -/
theorem senders_follow_table (g : Glue) (o : Out) :
    ∃ ty guarded eff, senders.lookup o.sender = some (ty, guarded, eff) ∧
      (∀ t, (sendGlue g o).2 = some t →
        typeName t = ty ∨ (g.caps &&& TX_KERNEL_HASH ≠ 0 ∧ "delegate:send_tx_kernel_hash" ∈ eff ∧ t = T_TransactionKernel)) ∧
      ((sendGlue g o).2 = none → guarded = true) := by
  cases o with
  | ping _ _ => exact ⟨_, _, _, rfl, by simp [sendGlue]; decide, by simp [sendGlue]⟩
  | banReason => exact ⟨_, _, _, rfl, by simp [sendGlue]; decide, by simp [sendGlue]⟩
  | header h =>
    refine ⟨_, _, _, rfl, ?_, fun _ => rfl⟩
    intro t ht
    simp only [sendGlue] at ht
    split at ht
    · cases ht
    · cases ht; exact Or.inl (by decide)
  | cblock h =>
    refine ⟨_, _, _, rfl, ?_, fun _ => rfl⟩
    intro t ht
    simp only [sendGlue] at ht
    split at ht
    · cases ht
    · cases ht; exact Or.inl (by decide)
  | kernel h =>
    refine ⟨_, _, _, rfl, ?_, fun _ => rfl⟩
    intro t ht
    simp only [sendGlue] at ht
    split at ht
    · cases ht
    · cases ht; exact Or.inl (by decide)
  | tx k0 =>
    refine ⟨_, _, _, rfl, ?_, fun _ => rfl⟩
    intro t ht
    simp only [sendGlue] at ht
    split at ht
    · cases ht
    · cases ht
      by_cases hc : g.caps &&& TX_KERNEL_HASH ≠ 0
      · rw [if_pos hc]; exact Or.inr ⟨hc, by decide, rfl⟩
      · rw [if_neg hc]; exact Or.inl (by decide)
  | stem => exact ⟨_, _, _, rfl, by simp [sendGlue]; decide, by simp [sendGlue]⟩
  | headerReq => exact ⟨_, _, _, rfl, by simp [sendGlue]; decide, by simp [sendGlue]⟩
  | txReq => exact ⟨_, _, _, rfl, by simp [sendGlue]; decide, by simp [sendGlue]⟩
  | blockReq _ _ => exact ⟨_, _, _, rfl, by simp [sendGlue]; decide, by simp [sendGlue]⟩
  | cblockReq => exact ⟨_, _, _, rfl, by simp [sendGlue]; decide, by simp [sendGlue]⟩
  | peerReq => exact ⟨_, _, _, rfl, by simp [sendGlue]; decide, by simp [sendGlue]⟩
  | txhashsetReq => exact ⟨_, _, _, rfl, by simp [sendGlue]; decide, by simp [sendGlue]⟩
  | segReq k => cases k <;> exact ⟨_, _, _, rfl, by simp [sendGlue]; decide, by simp [sendGlue]⟩

/-- **side effects are the ones of the table**: the request memory changes only in the sender marked
`push_req`, the archive gate opens only in the sender marked `state_sync_requested` -/
theorem sender_effects (g : Glue) (o : Out) :
    ∃ ty guarded eff, senders.lookup o.sender = some (ty, guarded, eff) ∧
      ((sendGlue g o).1.syncRequested = (g.syncRequested || eff.contains "state_sync_requested")) ∧
      (eff.contains "push_req" = false → (sendGlue g o).1.requested = g.requested) := by
  cases o with
  | segReq k => cases k <;> exact ⟨_, _, _, rfl, by simp [sendGlue], by simp [sendGlue]⟩
  | header h => exact ⟨_, _, _, rfl, by simp [sendGlue, hasRecv], by simp [sendGlue, hasRecv]⟩
  | cblock h => exact ⟨_, _, _, rfl, by simp [sendGlue, hasRecv], by simp [sendGlue, hasRecv]⟩
  | kernel h => exact ⟨_, _, _, rfl, by simp [sendGlue, hasRecv], by simp [sendGlue, hasRecv]⟩
  | tx h => exact ⟨_, _, _, rfl, by simp [sendGlue, hasRecv], by simp [sendGlue, hasRecv]⟩
  | blockReq h o => exact ⟨_, _, _, rfl, by simp [sendGlue], by simp⟩
  | txhashsetReq => exact ⟨_, _, _, rfl, by simp [sendGlue], by simp [sendGlue]⟩
  | _ => exact ⟨_, _, _, rfl, by simp [sendGlue], by simp [sendGlue]⟩

/-! ## the small decision functions of the handshake are the regenerated tables -/

/-- what a branch condition of `Peer::is_denied` (as spelt in the source) means in the model -/
def condHolds (deny allow : Option (List SockAddr)) (addr : SockAddr) (c : String) : Bool :=
  if c = "let Some(ref denied) = config.peers_deny" then deny.isSome
  else if c = "!(let Some(ref denied) = config.peers_deny)" then !deny.isSome
  else if c = "denied.peers.contains(&peer_addr)" then (deny.map (addrsContain · addr)).getD false
  else if c = "!(denied.peers.contains(&peer_addr))" then !(deny.map (addrsContain · addr)).getD false
  else if c = "let Some(ref allowed) = config.peers_allow" then allow.isSome
  else if c = "!(let Some(ref allowed) = config.peers_allow)" then !allow.isSome
  else if c = "allowed.peers.contains(&peer_addr)" then (allow.map (addrsContain · addr)).getD false
  else if c = "!(allowed.peers.contains(&peer_addr))" then !(allow.map (addrsContain · addr)).getD false
  else false

/-- the result of the first path all of whose conditions hold -/
def evalPaths (holds : String → Bool) (paths : List (List String × Bool)) : Option Bool :=
  (paths.find? fun p => p.1.all holds).map (·.2)

/-- **`Peer::is_denied` of the model is the regenerated decision table**: for every configuration and
address exactly one path of the source applies and its result is the model's -/
theorem isDenied_is_the_table (deny allow : Option (List SockAddr)) (addr : SockAddr) :
    evalPaths (condHolds deny allow addr) isDeniedPaths = some (isDenied deny allow addr) := by
  cases deny with
  | none =>
    cases allow with
    | none => simp [evalPaths, isDeniedPaths, condHolds, isDenied]
    | some a => cases ha : addrsContain a addr <;> simp [evalPaths, isDeniedPaths, condHolds, isDenied, ha]
  | some d =>
    cases hd : addrsContain d addr
    · cases allow with
      | none => simp [evalPaths, isDeniedPaths, condHolds, isDenied, hd]
      | some a => cases ha : addrsContain a addr <;> simp [evalPaths, isDeniedPaths, condHolds, isDenied, hd, ha]
    · cases allow <;> simp [evalPaths, isDeniedPaths, condHolds, isDenied, hd]

/-- the paths are exhaustive and exclusive by construction of the walk; here: 7 of them, 3 deny -/
example : isDeniedPaths.length = 7 ∧ (isDeniedPaths.filter (·.2)).length = 3 := by decide

/-- **`resolve_peer_addr` and `negotiate_protocol_version`**: the socket's ip with the ADVERTISED port (the
advertised address when the socket does not know its peer); the lower of the two versions, applied to
the version the Hand / the Shake announces -/
theorem resolve_and_negotiate_are_the_table (port : Nat) (peer adv : SockAddr) (a b : Nat) :
    resolveParts = [("port", "advertised.0.port()"), ("ok.ip", "addr.ip()"), ("ok.port", "port"), ("err", "advertised")] ∧
    resolvePeerAddr adv.port (some peer) adv = { ip := peer.ip, port := adv.port } ∧
    resolvePeerAddr port none adv = adv ∧
    negotiateExpr = "std::cmp::min(self.protocol_version, other)" ∧ negotiate a b = min a b ∧
    negotiateArgs = ["shake", "hand"] := by
  refine ⟨by decide, ?_, ?_, by decide, rfl, by decide⟩ <;> simp [resolvePeerAddr]

/-- the handshake timeouts as regenerated: 10 s to read the Hand / the Shake, 2 s to write them; both
well above the codec's header timeout and installed before the first socket operation (generator
shape check) -/
theorem handshake_timeouts_pinned :
    HAND_READ_TIMEOUT_MS = 10000 ∧ SHAKE_READ_TIMEOUT_MS = 10000 ∧ HAND_WRITE_TIMEOUT_MS = 2000 ∧
    SHAKE_WRITE_TIMEOUT_MS = 2000 ∧ acceptReadTimeout = "HAND_READ_TIMEOUT" ∧ initiateReadTimeout = "SHAKE_READ_TIMEOUT" := by
  decide

end GV.Props.C19Dispatch
