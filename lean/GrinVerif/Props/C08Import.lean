import GrinVerif.Lemmas.StoreProof
import GrinVerif.Lemmas.StoreBlocks
import GrinVerif.Model.StoreExt
import GrinVerif.Lemmas.StoreImport
import GrinVerif.Lemmas.StoreImportLoop
import GrinVerif.Lemmas.StoreImportSeq
/-! C08, stores that were not built leaf by leaf (state sync fills a backend through
`push_pruned_subtree` / `push` / `remove_from_leaf_set`, `Model/StoreExt.lean`), the leaf-set
views, and the non-prunable backend.

* `history_from_synced_state`: the history theorem of `Props/C08.lean` does not need the empty
  store as its start.  From ANY synced backend that satisfies the reference invariant for some
  leaf history – the pruned leaves being the ghost set `G`, the lowest rewind target the current
  size – every protocol-respecting history keeps size, root, unspent set, hash / data of every
  unspent leaf, Merkle paths, peaks and whole Merkle proofs equal to the unpruned reference.
  The state an import leaves behind is such a state (sampled by run `store imported`, see
  `import_establishes_reference` below: the import itself establishes such a state).
* frame facts about the import functions (what they cannot touch), the invariant under
  `remove_from_leaf_set`, the specifications of `n_unpruned_leaves_to_index` / `leaf_idx_iter`,
  frame facts about the non-prunable backend. -/
namespace GV.Props.C08Import
open GV GV.Pmmr GV.Pmmr.Co GV.Store

/-- the reference-side state right after an import of the leaf history `v.es` whose compacted
leaves are `G`: synced, nothing below the import boundary can be rewound to -/
def importedRef (v : RefView) (G : List Nat) : RefSt :=
  { cur := v, saved := v, dirty := false, G := G, C := v.es.length }

/-- **history_from_synced_state.**  Start: any backend `b` that is synced and satisfies the
reference invariant for the leaf history `v.es` (hash file / data file = reference values in
prune-list layout), whose leaf set is the unspent set `v.U` and whose prune list prunes exactly
the leaves `G`.  Then after every operation list obeying the usage protocol (rewinds not below
the import boundary) all observables equal those of the unpruned reference holding the same leaf
history, Merkle proofs included. -/
theorem history_from_synced_state {H : Type} (el : Bytes → Option Nat) (hf : HashFn Bytes H)
    (b : Backend H) (v : RefView) (G : List Nat) (df : AOF Bytes)
    (hs : Synced b v.es.length (refHash hf (leafFn v.es)) (refData (leafFn v.es)) df)
    (hu : ∀ q, (q + 1) ∈ b.leafSet.bitmap ↔ q ∈ v.U)
    (hp : ∀ l, height l = 0 → (PrunedBy b.pruneList.bitmap l ↔ l ∈ G))
    (ops : List HOp) (hproto : RefSt.Proto (importedRef v G) ops) :
    let p := ops.foldl (bstep el hf) ({ b := b, size := mmr v.es.length } : PM H)
    let r := ops.foldl RefSt.step (importedRef v G)
    let N := r.cur.es.length
    p.size = mmr N ∧
    (r.dirty = false → p.b.unprunedSize = mmr N) ∧
    PM.root hf p = Pmmr.root hf (allHashes hf (leafFn r.cur.es) N) ∧
    (∀ q, (q + 1) ∈ p.b.leafSet.bitmap ↔ q ∈ r.cur.U) ∧
    (∀ q, q ∈ r.cur.U → ∃ i, i < N ∧ q = mmr i ∧
      PM.getHash p q = some (refHash hf (leafFn r.cur.es) q) ∧
      PM.getData el p q = some (r.cur.es.getD i [])) ∧
    (∀ q, q ∈ r.cur.U → ∀ a, Store.Sub (family a).1 q → a < mmr N →
      p.b.getFromFile a = some (refHash hf (leafFn r.cur.es) a)) ∧
    (∀ pk ∈ peaks (mmr N), p.b.getPeakFromFile pk = some (refHash hf (leafFn r.cur.es) pk)) ∧
    (∀ q, q ∈ r.cur.U → PM.merkleProof hf p q =
      Pmmr.merkleProof hf (allHashes hf (leafFn r.cur.es) N) q) := by
  intro p r N
  have ha := agree_of_synced (hf := hf) (G := G) (C := v.es.length) hs hu hp hs.roots (Nat.le_refl _)
  have h0 : HInv hf ({ b := b, size := mmr v.es.length } : PM H) (importedRef v G) :=
    hinv_of_synced (s := v) hs ha
  have hrun := hinv_run el hf ops _ _ h0 hproto
  obtain ⟨o1, o2, o3, o4, o5, o6, o7⟩ := hinv_observables el hf hrun
  refine ⟨o1, o2, o3, o4, ?_, o6, o7, fun q hq => hinv_merkleProof hf hrun q hq⟩
  intro q hq
  obtain ⟨i, hi, e, g1, _, g3⟩ := o5 q hq
  exact ⟨i, hi, e, g1, g3⟩

/-! ### the import functions: what they cannot touch -/

/-- `append_pruned_subtree` appends exactly one hash and one prune-list entry; the data file, the
leaf set and the prune-list FILE are untouched (the prune list reaches the disk with `sync`) -/
theorem append_pruned_subtree_frame {H : Type} (b : Backend H) (hash : H) (pos0 : Nat) :
    let b' := b.appendPrunedSubtree hash pos0
    b'.hashFile.buffer = b.hashFile.buffer ++ [hash] ∧ b'.hashFile.disk = b.hashFile.disk ∧
    b'.dataFile = b.dataFile ∧ b'.leafSet = b.leafSet ∧ b'.pruneFile = b.pruneFile ∧
    b'.pruneList = b.pruneList.append pos0 := by
  simp [Backend.appendPrunedSubtree, AOF.append]

/-- the loop of `push_pruned_subtree` only appends hashes to the un-synced buffer of the hash
file: data file, leaf set, prune list and everything on disk stay as they are -/
theorem push_pruned_loop_frame {H : Type} (hf : HashFn Bytes H) (pm : Nat) :
    ∀ (fuel j : Nat) (b : Backend H) (pos : Nat) (cur : H),
      let r := PM.pushPrunedLoop hf pm fuel j b pos cur
      r.1.dataFile = b.dataFile ∧ r.1.leafSet = b.leafSet ∧ r.1.pruneList = b.pruneList ∧
      r.1.pruneFile = b.pruneFile ∧ r.1.hashFile.disk = b.hashFile.disk ∧
      r.1.hashFile.bsp = b.hashFile.bsp ∧ r.1.hashFile.bak = b.hashFile.bak ∧
      ∃ more, r.1.hashFile.buffer = b.hashFile.buffer ++ more := by
  intro fuel
  induction fuel with
  | zero => intro j b pos cur; simp [PM.pushPrunedLoop]
  | succ n ih =>
    intro j b pos cur
    simp only [PM.pushPrunedLoop]
    split
    · split
      · exact ih _ _ _ _
      · split
        · simp
        · rename_i l hl
          obtain ⟨a1, a2, a3, a4, a5, a6, a7, more, a8⟩ :=
            ih (j + 1) (b.appendHash (hf.node (family pos).1 l cur)) (family pos).1
              (hf.node (family pos).1 l cur)
          refine ⟨a1, a2, a3, a4, a5, a6, a7, [hf.node (family pos).1 l cur] ++ more, ?_⟩
          rw [a8]
          simp [Backend.appendHash, AOF.append]
    · simp

/-- **`push_pruned_subtree` writes nothing to disk and never touches data file or leaf set**
(whatever hash and position it is given, also when it is refused): together with
`unit_disk_untouched` an import can be discarded like any other unit of work. -/
theorem push_pruned_subtree_frame {H : Type} (hf : HashFn Bytes H) (p : PM H) (hash : H) (pos0 : Nat) :
    let p' := (PM.pushPrunedSubtree hf p hash pos0).1
    p'.b.dataFile = p.b.dataFile ∧ p'.b.leafSet = p.b.leafSet ∧ p'.b.pruneFile = p.b.pruneFile ∧
    p'.b.hashFile.disk = p.b.hashFile.disk ∧ p'.b.pruneList = p.b.pruneList.append pos0 ∧
    ∃ more, p'.b.hashFile.buffer = p.b.hashFile.buffer ++ hash :: more := by
  have hl := push_pruned_loop_frame hf (peakMapHeight pos0).1 65 0
    (p.b.appendPrunedSubtree hash pos0) pos0 hash
  simp only at hl
  obtain ⟨a1, a2, a3, a4, a5, _, _, more, a8⟩ := hl
  have hb : (p.b.appendPrunedSubtree hash pos0).hashFile.buffer = p.b.hashFile.buffer ++ [hash] := by
    simp [Backend.appendPrunedSubtree, AOF.append]
  simp only [PM.pushPrunedSubtree]
  split <;> rename_i heq <;> rw [heq] at a1 a2 a3 a4 a5 a8 <;>
    exact ⟨a1, a2, a4, a5, a3, more, by rw [a8, hb]; simp⟩

/-- a leaf that arrives with its data but is spent (`remove_from_leaf_set`) keeps the in-unit
reference invariant, and is gone from the leaf set -/
theorem remove_from_leaf_set_live {H : Type} {b : Backend H} {N : Nat} {ref : Nat → H}
    {dref : Nat → Bytes} {df : AOF Bytes} (h : Live b N ref dref df) (p : Nat) :
    Live (b.removeFromLeafSet p) N ref dref df ∧
    ∀ q, (q + 1) ∈ (b.removeFromLeafSet p).leafSet.bitmap ↔ (q + 1) ∈ b.leafSet.bitmap ∧ q ≠ p := by
  refine ⟨h.remove p, ?_⟩
  intro q
  show (q + 1) ∈ Bm.remove b.leafSet.bitmap (1 + p) ↔ _
  rw [mem_remove]
  constructor
  · rintro ⟨a, c⟩; exact ⟨a, by omega⟩
  · rintro ⟨a, c⟩; exact ⟨a, by omega⟩

/-! ### the leaf-set views -/

/-- `n_unpruned_leaves_to_index(i)` is the number of unspent leaves whose 1-based position is
below `i` (leaf-set entries are 1-based positions, so none is 0) -/
theorem n_unpruned_leaves_to_index_spec {H : Type} (b : Backend H) (i : Nat)
    (hpos : ∀ x ∈ b.leafSet.bitmap, 1 ≤ x) :
    b.nUnprunedLeavesToIndex i = (b.leafPosIter.filter (· + 1 < i)).length := by
  unfold Backend.nUnprunedLeavesToIndex Backend.leafPosIter
  rw [List.filter_map, List.length_map]
  congr 1
  apply List.filter_congr
  intro x hx
  have := hpos x hx
  simp only [Function.comp, decide_eq_decide]
  omega

/-- on an ascending list `skip_while(x < a)` keeps exactly the entries `>= a` -/
theorem dropWhile_lt_sorted : ∀ (l : List Nat) (a : Nat), l.Pairwise (· < ·) →
    l.dropWhile (· < a) = l.filter (fun x => decide (a ≤ x)) := by
  intro l a hs
  induction l with
  | nil => rfl
  | cons x xs ih =>
    rw [List.pairwise_cons] at hs
    by_cases hx : x < a
    · rw [List.dropWhile_cons_of_pos (by simpa using hx), List.filter_cons_of_neg (by simpa using hx)]
      exact ih hs.2
    · rw [List.dropWhile_cons_of_neg (by simpa using hx), List.filter_cons_of_pos (by simpa using hx)]
      congr 1
      symm
      rw [List.filter_eq_self]
      intro y hy
      have := hs.1 y hy
      simp; omega

/-- `leaf_idx_iter(from)` lists, in order, `n_leaves(pos1) - 1` for exactly the unspent leaves from
insertion index `from` on (the leaf set iterates in ascending order) -/
theorem leaf_idx_iter_spec {H : Type} (b : Backend H) (hs : b.leafSet.bitmap.Pairwise (· < ·)) (i : Nat) :
    b.leafIdxIter i =
      (b.leafSet.bitmap.filter (fun x => decide (1 + insertionToPmmrIndex i ≤ x))).map
        (fun x => nLeaves x - 1) := by
  unfold Backend.leafIdxIter
  simp only
  rw [dropWhile_lt_sorted _ _ hs]

/-! ### the non-prunable backend: nothing ever reaches the leaf set or the prune list -/

theorem np_frame {H : Type} (b : Backend H) :
    (∀ data hashes b', b.npAppend data hashes = some b' →
      b'.leafSet = b.leafSet ∧ b'.pruneList = b.pruneList ∧ b'.pruneFile = b.pruneFile) ∧
    (∀ pos, (b.npRewind pos).leafSet = b.leafSet ∧ (b.npRewind pos).pruneList = b.pruneList) ∧
    b.npSync.leafSet = b.leafSet ∧ b.npSync.pruneList = b.pruneList := by
  refine ⟨?_, fun pos => ⟨rfl, rfl⟩, rfl, rfl⟩
  intro data hashes b' h
  unfold Backend.npAppend at h
  split at h
  · exact absurd h (by simp)
  · simp only [Option.some.injEq] at h
    subst h
    exact ⟨rfl, rfl, rfl⟩

/-- with an empty prune list the non-prunable getters read the files at the plain positions -/
theorem np_get_hash_plain {H : Type} (b : Backend H) (hpl : b.pruneList = {}) (hls : b.leafSet.bitmap = [])
    (pos0 : Nat) : b.npGetHash pos0 = b.hashFile.read1 (1 + pos0) := by
  unfold Backend.npGetHash Backend.getFromFile Backend.isCompacted Backend.isPrunedRoot Backend.isPruned
  simp [hpl, hls, LeafSet.includes, Bm.contains, PruneList.isPrunedRoot, PruneList.isPruned,
    PruneList.getShift, PruneList.cacheAt, Bm.rank, Bm.select]

/-! ### non-vacuity -/

/-- the empty store is a synced state with `G = []`: `history_from_synced_state` contains
`history_preserves_reference` -/
example {H : Type} (hf : HashFn Bytes H) :
    Synced ({} : Backend H) ({} : RefView).es.length (refHash hf (leafFn ({} : RefView).es))
      (refData (leafFn ({} : RefView).es)) {} := synced_empty _ _

/-- a protocol-respecting history from an imported state of 4 leaves whose first pair is compacted:
append, spend, commit, rewind to the import boundary, commit, compact there, reopen -/
example : RefSt.Proto (importedRef { es := [[1], [2], [3], [4]], U := [3, 4] } [0, 1])
    [.push [5], .prune 3, .sync, .rewind 4 [], .sync, .compact 4 [], .reopen] := by
  have hb : ∀ n, n ≤ 10 → mmr n + 64 < 2 ^ 64 := fun n hn => by
    have := Pmmr.Co.mmr_le_two_mul n; omega
  simp only [RefSt.Proto, RefSt.ok, RefSt.step, importedRef, List.length_append, List.length_cons,
    List.length_nil, and_true, true_and]
  refine ⟨hb _ (by omega), ?_⟩
  simp

/-! ### the import step against the reference (increment 2) -/

/-- **`PruneList::append` of a new rightmost root.**  Every root of the list lies at or below the
first position `mmr N` of the new root's subtree and the new root's sibling is not pruned: the
bitmap grows by exactly that root (no roll-up, nothing cleaned up) and the invariant (hence both
shift caches, `shift_spec` / `leaf_shift_spec`) holds again. -/
theorem prune_list_append_rightmost (pl : PruneList) (h : pl.Inv) (N pos0 : Nat)
    (hroots : ∀ x ∈ pl.bitmap, x ≤ mmr N) (hl : bintreeLeftmost pos0 = mmr N)
    (hsib : pl.isPruned (family pos0).2 = false) :
    (pl.append pos0).bitmap = pl.bitmap ++ [pos0 + 1] ∧ (pl.append pos0).Inv :=
  PruneList.append_rightmost h hroots hl hsib

/-- **The file layouts after that append**: the hash file has to hold the old layout followed by
the root and every later position (the `2^(h+1) - 2` positions inside the subtree never get an
entry); the data file layout is unchanged provided no position from the root on is a leaf (root of
height `>= 1`). -/
theorem import_layout_step (bm : Bitmap) (N pos0 M' : Nat) (hroots : ∀ x ∈ bm, x ≤ mmr N)
    (hl : bintreeLeftmost pos0 = mmr N) (hlt : pos0 < M')
    (hnl : ∀ q, pos0 ≤ q → q < M' → isLeaf q = false) :
    layout (bm ++ [pos0 + 1]) M' = layout bm (mmr N) ++ List.range' pos0 (M' - pos0) ∧
    dataLayout (bm ++ [pos0 + 1]) M' = dataLayout bm (mmr N) :=
  ⟨layout_snoc hroots hl hlt, dataLayout_snoc hl hlt hnl⟩

/-- **import_step_preserves_reference.**  One `push_pruned_subtree` step against the reference:
`b` satisfies the in-unit reference invariant for `N` leaves (prune-list file brought up to date,
`fixPF`), the new root's subtree starts at `mmr N`, its sibling is not pruned, the MMR with its
leaves has size `mmr N' = pos0 + 1 + k` and no position from `pos0` on is a leaf.  If the backend
`b2` after the step differs from `b` by `PruneList.append pos0` and by a hash buffer extended with
the reference hashes of `pos0 … mmr N' − 1` (frame: `push_pruned_subtree_frame`), it satisfies the
invariant for `N'` leaves with the same data file - so `sync` yields a `Synced` backend
(`Live.sync`) and `history_from_synced_state` applies. -/
theorem import_step_preserves_reference {H : Type} (hf : HashFn Bytes H) (f : Nat → Bytes)
    (b b2 : Backend H) (N N' pos0 k : Nat) (df : AOF Bytes)
    (h : Live b.fixPF N (refHash hf f) (refData f) df)
    (hl : bintreeLeftmost pos0 = mmr N) (hsz : mmr N' = pos0 + 1 + k)
    (hsib : b.pruneList.isPruned (family pos0).2 = false)
    (hnl : ∀ q, pos0 ≤ q → q < mmr N' → isLeaf q = false)
    (hbd : mmr N' + 64 < 2 ^ 64)
    (hdf : b2.dataFile = b.dataFile) (hls : b2.leafSet = b.leafSet)
    (hpl : b2.pruneList = b.pruneList.append pos0)
    (hdisk : b2.hashFile.disk = b.hashFile.disk) (hbsp : b2.hashFile.bsp = b.hashFile.bsp)
    (hbak : b2.hashFile.bak = b.hashFile.bak)
    (hbuf : b2.hashFile.buffer = b.hashFile.buffer ++ (List.range' pos0 (k + 1)).map (refHash hf f)) :
    Live b2.fixPF N' (refHash hf f) (refData f) df ∧
    ∃ df', Synced b2.fixPF.sync N' (refHash hf f) (refData f) df' :=
  have hl' := Live.import_step h hl hsz hsib hnl hbd hdf hls hpl hdisk hbsp hbak hbuf
  ⟨hl', ⟨_, hl'.sync⟩⟩

/-- the geometric hypotheses are satisfiable: the pair of leaves 0, 1 as the first pruned subtree
(root position 2 of height 1, `N = 0`, `N' = 2`, no merged parent: `k = 0`) -/
example : bintreeLeftmost 2 = mmr 0 ∧ mmr 2 = 2 + 1 + 0 ∧ (∀ q, 2 ≤ q → q < mmr 2 → isLeaf q = false) ∧
    (({} : PruneList).isPruned (family 2).2 = false) := by
  have h2 : height 2 = 1 := by
    have := pmh_coord 1 1 (by simp [trailingOnes])
    have h1 : mmr 1 = 1 := by simp [mmr, popcount]
    rw [h1] at this
    simp [height, this]
  have m2 : mmr 2 = 3 := by simp [mmr, popcount]
  have m0 : mmr 0 = 0 := by simp [mmr, popcount]
  refine ⟨by simp [bintreeLeftmost, h2, m0], by omega, ?_, by simp [PruneList.isPruned, PruneList.isPrunedRoot, Bm.contains, Bm.select, Bm.rank]⟩
  intro q a b
  have : q = 2 := by omega
  subst this
  simp [isLeaf, h2]

/-! ### the whole import step (L1 + L2 of the note above, now proved) -/

/-- **import_step_establishes_reference.**  `PMMR::push_pruned_subtree(hash, pos0)` as a whole
against the reference.  The backend satisfies the in-unit reference invariant for `N` leaves; the
subtree root sits at coordinates `(n, h)` (`pos0 = mmr n + h`, height `1 ≤ h ≤ trailingOnes n`), its
`2^h` leaves are the next leaves of the history (`N + 2^h = n + 1`), its sibling is not pruned (no
roll-up in the prune list), the hash handed in is the reference hash of `pos0`.  Then the call
succeeds, the loop appends exactly the parents that merge the subtree with the peaks to its left
(every left sibling is read from the hash file and is the reference hash), the handle's size is
`mmr (n + 1)` – the size of the MMR with all leaves up to `n` – and the backend satisfies the
invariant for `n + 1` leaves with the same data file; `sync` then yields a `Synced` backend, the
start of `history_from_synced_state`. -/
theorem import_step_establishes_reference {H : Type} (hf : HashFn Bytes H) (f : Nat → Bytes)
    (p : PM H) (N n h : Nat) (df : AOF Bytes)
    (hlive : Live p.b.fixPF N (refHash hf f) (refData f) df)
    (hh : h ≤ trailingOnes n) (h1 : 1 ≤ h) (hN : N + 2 ^ h = n + 1)
    (hsib : p.b.pruneList.isPruned (family (mmr n + h)).2 = false)
    (hbd : mmr (n + 1) + 64 < 2 ^ 64) :
    ∃ p', PM.pushPrunedSubtree hf p (refHash hf f (mmr n + h)) (mmr n + h) = (p', true) ∧
      p'.size = mmr (n + 1) ∧
      Live p'.b.fixPF (n + 1) (refHash hf f) (refData f) df ∧
      (∃ df', Synced p'.b.fixPF.sync (n + 1) (refHash hf f) (refData f) df') ∧
      p'.b.dataFile = p.b.dataFile ∧ p'.b.leafSet = p.b.leafSet := by
  -- the loop has fuel for every set bit
  have ht : trailingOnes n < 65 := by
    have h2 := two_pow_le_of_le_trailingOnes (Nat.le_refl (trailingOnes n))
    have h3 := le_mmr (n + 1)
    have h4 : 2 ^ trailingOnes n < 2 ^ 64 := by omega
    have := (Nat.pow_lt_pow_iff_right (a := 2) (by omega)).1 h4
    omega
  -- the state after `append_pruned_subtree`
  have hst0 : ImpSt hf f p.b (mmr n + h) 0
      (p.b.appendPrunedSubtree (refHash hf f (mmr n + h)) (mmr n + h)) :=
    ⟨rfl, rfl, rfl, rfl, rfl, rfl, rfl, by simp [Backend.appendPrunedSubtree, AOF.append]⟩
  obtain ⟨b', hloop, hst⟩ := pushPrunedLoop_spec hf f hlive hh h1 hN hsib (trailingOnes n - h) 0 65 _
    (by omega) (by omega) hst0
  rw [Nat.add_zero] at hloop
  -- geometry
  have hheight : height (mmr n + h) = h := height_co n h hh
  have hlc := leftmost_coord hh
  have hl : bintreeLeftmost (mmr n + h) = mmr N := by
    unfold bintreeLeftmost
    rw [hheight]
    have : n + 1 - 2 ^ h = N := by omega
    rw [this] at hlc
    omega
  have hsz : mmr (n + 1) = mmr n + h + 1 + (trailingOnes n - h) := by rw [mmr_succ]; omega
  have hnl : ∀ q, mmr n + h ≤ q → q < mmr (n + 1) → isLeaf q = false := by
    intro q a b
    obtain ⟨g, hg⟩ : ∃ g, q = mmr n + g := ⟨q - mmr n, by omega⟩
    have hgt : g ≤ trailingOnes n := by rw [mmr_succ] at b; omega
    unfold isLeaf
    rw [hg, height_co n g hgt]
    simp; omega
  have hround : roundUpToLeafPos (mmr n + trailingOnes n) = mmr (n + 1) := by
    unfold roundUpToLeafPos
    rw [peakMapHeight_co n _ (Nat.le_refl _)]
    have : ¬ trailingOnes n = 0 := by omega
    simp only [this, if_false]
    rfl
  have hl' := Live.import_step hlive hl hsz hsib hnl hbd hst.df hst.ls hst.pl hst.disk hst.bsp hst.bak hst.buf
  refine ⟨{ b := b', size := mmr (n + 1) }, ?_, rfl, hl', ⟨_, hl'.sync⟩, hst.df, hst.ls⟩
  unfold PM.pushPrunedSubtree
  simp only [peakMapHeight_co n h hh, hloop, hround]

/-- non-vacuity of the step: on the empty store, the first pair of leaves as one pruned subtree
(`n = 1`, `h = 1`, `N = 0`) – the call succeeds and leaves size 3 -/
example {H : Type} (hf : HashFn Bytes H) (f : Nat → Bytes) :
    ∃ p', PM.pushPrunedSubtree hf ({} : PM H) (refHash hf f (mmr 1 + 1)) (mmr 1 + 1) = (p', true) ∧
      p'.size = mmr 2 := by
  have hs : Synced ({} : Backend H) 0 (refHash hf f) (refData f) {} := synced_empty _ _
  have hl : Live ({} : Backend H).fixPF 0 (refHash hf f) (refData f) {} := hs.live
  have ht : trailingOnes 1 = 1 := by simp [trailingOnes]
  obtain ⟨p', a, b, _⟩ := import_step_establishes_reference hf f ({} : PM H) 0 1 1 {} hl
    (by omega) (by omega) (by omega)
    (by simp [PruneList.isPruned, PruneList.isPrunedRoot, Bm.contains, Bm.select, Bm.rank])
    (by show mmr 2 + 64 < 2 ^ 64; have := Pmmr.Co.mmr_le_two_mul 2; omega)
  exact ⟨p', a, b⟩

/-- **import_establishes_reference** (full; the former `…_partial` with its two open lemmas L1 – the
loop of `push_pruned_subtree` – and L2 – the geometry of an aligned subtree – proved in
`Lemmas/StoreImportLoop.lean`).  For every leaf history `f` and every import sequence fed to an EMPTY
backend in position order – `push_pruned_subtree(reference hash, root)` for pruned subtree roots
of height `>= 1` whose sibling is not pruned (neither siblings nor nested: the sender's prune list
is rolled up), `push` for every other leaf, `remove_from_leaf_set` for spent ones (`IValid`) – the
handle ends at the size of the MMR over all leaves so far and `sync` leaves a backend that
satisfies the reference invariant `Synced` for that many leaves: hash file and data file hold the
reference values in prune-list layout, the prune list satisfies the roll-up invariant, the leaf set
holds only unpruned leaves.  This is the hypothesis of `history_from_synced_state`. -/
theorem import_establishes_reference {H : Type} (hf : HashFn Bytes H) (f : Nat → Bytes)
    (ops : List IOp) (hv : IValid hf f (({} : PM H), 0) ops) :
    let s := ops.foldl (istep hf f) (({} : PM H), 0)
    s.1.size = mmr s.2 ∧
    ∃ df, Synced s.1.b.sync s.2 (refHash hf f) (refData f) df := by
  intro s
  have hs0 : Synced ({} : Backend H) 0 (refHash hf f) (refData f) {} := synced_empty _ _
  have hl0 : Live ({} : Backend H).fixPF 0 (refHash hf f) (refData f) {} := hs0.live
  have hsz0 : ({} : PM H).size = mmr 0 := by rw [mmr_zero]
  obtain ⟨df, hl, hsz⟩ := import_run_live hf f ops (({} : PM H), 0) {} hl0 hsz0 hv
  exact ⟨hsz, ⟨_, hl.sync⟩⟩

/-- the same from ANY state that satisfies the in-unit invariant (an import continues where an
earlier batch of segments stopped) -/
theorem import_preserves_reference {H : Type} (hf : HashFn Bytes H) (f : Nat → Bytes)
    (p : PM H) (N : Nat) (df : AOF Bytes)
    (hl : Live p.b.fixPF N (refHash hf f) (refData f) df) (hsz : p.size = mmr N)
    (ops : List IOp) (hv : IValid hf f (p, N) ops) :
    let s := ops.foldl (istep hf f) (p, N)
    s.1.size = mmr s.2 ∧ ∃ df', Synced s.1.b.sync s.2 (refHash hf f) (refData f) df' := by
  intro s
  obtain ⟨df', hl', hsz'⟩ := import_run_live hf f ops (p, N) df hl hsz hv
  exact ⟨hsz', ⟨_, hl'.sync⟩⟩

/-- **The state an import leaves behind meets the hypotheses of `history_from_synced_state`**: with
the leaf history `v.es = [f 0, …, f (N−1)]`, the unspent list `v.U` read off the leaf set and the
ghost list `G` of the leaves below the pruned roots.  So import followed by ANY protocol-respecting
history (appends, spends, rewinds not below the import boundary, commits, discards, compactions,
reopen) keeps every observable equal to the never-pruned reference – with no sampled step left in
between. -/
theorem import_meets_history_hypotheses {H : Type} (hf : HashFn Bytes H) (f : Nat → Bytes)
    (ops : List IOp) (hv : IValid hf f (({} : PM H), 0) ops) :
    let s := ops.foldl (istep hf f) (({} : PM H), 0)
    ∃ (v : RefView) (G : List Nat) (df : AOF Bytes),
      v.es = (List.range s.2).map f ∧ s.1.size = mmr v.es.length ∧
      Synced s.1.b.sync v.es.length (refHash hf (leafFn v.es)) (refData (leafFn v.es)) df ∧
      (∀ q, (q + 1) ∈ s.1.b.sync.leafSet.bitmap ↔ q ∈ v.U) ∧
      (∀ l, height l = 0 → (PrunedBy s.1.b.sync.pruneList.bitmap l ↔ l ∈ G)) := by
  intro s
  have hs0 : Synced ({} : Backend H) 0 (refHash hf f) (refData f) {} := synced_empty _ _
  have hl0 : Live ({} : Backend H).fixPF 0 (refHash hf f) (refData f) {} := hs0.live
  have hsz0 : ({} : PM H).size = mmr 0 := by rw [mmr_zero]
  obtain ⟨df, hl, hsz⟩ := import_run_live hf f ops (({} : PM H), 0) {} hl0 hsz0 hv
  have hlen : ((List.range s.2).map f).length = s.2 := by simp
  have hfg : ∀ i, i < s.2 → f i = leafFn ((List.range s.2).map f) i := by
    intro i hi
    unfold leafFn
    simp [List.getD, hi]
  have hl' := hl.congr hfg
  refine ⟨{ es := (List.range s.2).map f, U := s.1.b.leafSet.bitmap.map (· - 1) },
    (List.range (mmr s.2)).filter (fun l => s.1.b.pruneList.bitmap.any fun x => decide (Store.Sub (x - 1) l)),
    _, rfl, by rw [hlen]; exact hsz, by rw [hlen]; exact hl'.sync, ?_, ?_⟩
  · intro q
    show (q + 1) ∈ s.1.b.leafSet.bitmap ↔ q ∈ s.1.b.leafSet.bitmap.map (· - 1)
    have hp1 : ∀ y ∈ s.1.b.leafSet.bitmap, 1 ≤ y := fun y hy => (hl.lsLeaf y hy).1
    exact (mem_pred hp1 q).symm
  · intro l _
    show PrunedBy s.1.b.pruneList.bitmap l ↔ _
    rw [List.mem_filter, List.any_eq_true]
    constructor
    · rintro ⟨x, hx, hsub⟩
      refine ⟨?_, x, hx, by simpa using hsub⟩
      rw [List.mem_range]
      have h1 : x ≤ mmr s.2 := hl.roots x hx
      have h2 : 1 ≤ x := hl.inv.pos x hx
      have := hsub.2
      omega
    · rintro ⟨_, x, hx, hsub⟩
      exact ⟨x, hx, by simpa using hsub⟩

/-! ### the leaf-set snapshot path (`LeafSet::snapshot`, `copy_snapshot` through
`PMMRBackend::new(.., Some(header))`: `Chain::txhashset_read` / `txhashset_write`) -/

/-- **snapshot_path_is_reopen_then_rewind.**  The sender, inside a unit of work on a synced backend
`b`, rewinds to `cutoff` with `rewind_rm_pos = rm` (all `<= cutoff`), writes the leaf-set snapshot
and discards; the files travel as they are.  The receiver opens them with the snapshot put in
place of the leaf set, rewinds to the same `cutoff` with an EMPTY `rewind_rm_pos` and commits.  The
committed backend is exactly what `reopen; rewind cutoff rm; sync` gives – a history covered by
`history_preserves_reference` / `history_from_synced_state`.  (Until now the snapshot path was tied
to the reference by run `snapshot` only.) -/
theorem snapshot_path_is_reopen_then_rewind {H : Type} (el : Bytes → Option Nat) (b : Backend H)
    (hclean : b.leafSet.Clean) (hs : Sorted b.leafSet.bitmap) (cutoff : Nat) (rm : Bitmap)
    (hrm : ∀ x ∈ rm, x ≤ cutoff) :
    ((b.reopenWithSnapshot el (b.rewind cutoff rm).snapshot).rewind cutoff []).sync =
      ((b.reopen el).rewind cutoff rm).sync := by
  -- the snapshot holds nothing above the cutoff, so rewinding it again changes nothing
  have hsnap : ∀ x ∈ (b.leafSet.rewind cutoff rm).bitmap, x ≤ cutoff := by
    intro x hx
    rcases (LeafSet.mem_rewind b.leafSet cutoff rm hs x).1 hx with ⟨_, h2⟩ | h
    · exact h2
    · exact hrm x h
  have hfix : (LeafSet.rewind { bitmap := (b.leafSet.rewind cutoff rm).bitmap, bak := (b.leafSet.rewind cutoff rm).bitmap } cutoff []).bitmap = (b.leafSet.rewind cutoff rm).bitmap := by
    show Bm.or (Bm.removeRange _ _ _) [] = _
    show Bm.removeRange _ _ _ = _
    unfold Bm.removeRange
    rw [List.filter_eq_self]
    intro x hx
    have := hsnap x hx
    simp; omega
  have hre : (b.leafSet.reopen).rewind cutoff rm = { (b.leafSet.rewind cutoff rm) with bak := b.leafSet.bak } := by
    unfold LeafSet.reopen LeafSet.rewind
    have hc : b.leafSet.bitmap = b.leafSet.bak := hclean
    simp only [← hc]
  obtain ⟨hF, dF, lS, pL, pF⟩ := b
  simp only [Backend.reopenWithSnapshot, Backend.snapshot, Backend.rewind, Backend.reopen, Backend.sync,
    LeafSet.flush] at hfix hre ⊢
  rw [hfix, hre]

/-- `push_pruned_subtree` touches neither the data file nor the leaf set, and what `sync` writes to
the prune-list file is the rolled-up list with the new root (frame part of the former partial
theorem, for ANY arguments – also the ones outside the importer's discipline) -/
theorem push_pruned_subtree_sync_frame {H : Type} (hf : HashFn Bytes H) (p : PM H) (hash : H)
    (pos0 : Nat) :
    let p' := (PM.pushPrunedSubtree hf p hash pos0).1
    p'.b.sync.dataFile = p.b.sync.dataFile ∧ p'.b.sync.leafSet = p.b.sync.leafSet ∧
    p'.b.sync.pruneFile = (p.b.pruneList.append pos0).bitmap := by
  obtain ⟨a1, a2, _, _, a5, _⟩ := push_pruned_subtree_frame hf p hash pos0
  simp only [Backend.sync]
  exact ⟨by rw [a1], by rw [a2], by rw [a5]⟩

/-- non-vacuity: a valid import of 7 leaves into the empty store – the first four leaves as one
pruned subtree (root at coordinates `(3, 2)`, position 6), leaf 4 pushed and spent, leaves 5 and 6
pushed -/
example {H : Type} (hf : HashFn Bytes H) (f : Nat → Bytes) :
    IValid hf f (({} : PM H), 0) [.subtree 3 2, .leaf, .spend 7, .leaf, .leaf] := by
  have hb : ∀ n, n ≤ 10 → mmr n + 64 < 2 ^ 64 := fun n hn => by
    have := Pmmr.Co.mmr_le_two_mul n; omega
  have ht : trailingOnes 3 = 2 := by simp [trailingOnes]
  refine ⟨⟨by omega, by omega, by rfl, ?_, hb _ (by omega)⟩, ?_⟩
  · simp [PruneList.isPruned, PruneList.isPrunedRoot, Bm.contains, Bm.select, Bm.rank]
  · simp only [istep, IValid, IOp.ok, and_true, true_and]
    exact ⟨hb _ (by omega), hb _ (by omega), hb _ (by omega)⟩

end GV.Props.C08Import
