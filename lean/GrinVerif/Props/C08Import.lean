import GrinVerif.Lemmas.StoreProof
import GrinVerif.Lemmas.StoreBlocks
import GrinVerif.Model.StoreExt
import GrinVerif.Lemmas.StoreImport
/-! C08, stores that were not built leaf by leaf (state sync fills a backend through
`push_pruned_subtree` / `push` / `remove_from_leaf_set`, `Model/StoreExt.lean`), the leaf-set
views, and the non-prunable backend.

* `history_from_synced_state`: the history theorem of `Props/C08.lean` does not need the empty
  store as its start.  From ANY synced backend that satisfies the reference invariant for some
  leaf history – the pruned leaves being the ghost set `G`, the lowest rewind target the current
  size – every protocol-respecting history keeps size, root, unspent set, hash / data of every
  unspent leaf, Merkle paths, peaks and whole Merkle proofs equal to the unpruned reference.
  The state an import leaves behind is such a state (sampled by run `store imported`, see
  `import_establishes_reference_partial` for what is proved about the import itself).
* frame facts about the import functions (what they cannot touch), the invariant under
  `remove_from_leaf_set`, the specifications of `n_unpruned_leaves_to_index` / `leaf_idx_iter`,
  frame facts about the non-prunable backend. -/
namespace GV.Props.C08Import
open GV GV.Pmmr GV.Pmmr.Co GV.Store

/-- the reference-side state right after an import of the leaf history `v.es` whose compacted
leaves are `G`: synced, nothing below the import boundary can be rewound to -/
def importedRef (v : RefView) (G : List Nat) : RefSt :=
  { cur := v, saved := v, dirty := false, G := G, C := v.es.length }

/-- **history_from_synced_state.**  Start: any backend `b` that is synced and satisfies the
reference invariant for the leaf history `v.es` (hash file / data file = reference values in
prune-list layout), whose leaf set is the unspent set `v.U` and whose prune list prunes exactly
the leaves `G`.  Then after every operation list obeying the usage protocol (rewinds not below
the import boundary) all observables equal those of the unpruned reference holding the same leaf
history, Merkle proofs included. -/
theorem history_from_synced_state {H : Type} (el : Bytes → Option Nat) (hf : HashFn Bytes H)
    (b : Backend H) (v : RefView) (G : List Nat) (df : AOF Bytes)
    (hs : Synced b v.es.length (refHash hf (leafFn v.es)) (refData (leafFn v.es)) df)
    (hu : ∀ q, (q + 1) ∈ b.leafSet.bitmap ↔ q ∈ v.U)
    (hp : ∀ l, height l = 0 → (PrunedBy b.pruneList.bitmap l ↔ l ∈ G))
    (ops : List HOp) (hproto : RefSt.Proto (importedRef v G) ops) :
    let p := ops.foldl (bstep el hf) ({ b := b, size := mmr v.es.length } : PM H)
    let r := ops.foldl RefSt.step (importedRef v G)
    let N := r.cur.es.length
    p.size = mmr N ∧
    (r.dirty = false → p.b.unprunedSize = mmr N) ∧
    PM.root hf p = Pmmr.root hf (allHashes hf (leafFn r.cur.es) N) ∧
    (∀ q, (q + 1) ∈ p.b.leafSet.bitmap ↔ q ∈ r.cur.U) ∧
    (∀ q, q ∈ r.cur.U → ∃ i, i < N ∧ q = mmr i ∧
      PM.getHash p q = some (refHash hf (leafFn r.cur.es) q) ∧
      PM.getData el p q = some (r.cur.es.getD i [])) ∧
    (∀ q, q ∈ r.cur.U → ∀ a, Store.Sub (family a).1 q → a < mmr N →
      p.b.getFromFile a = some (refHash hf (leafFn r.cur.es) a)) ∧
    (∀ pk ∈ peaks (mmr N), p.b.getPeakFromFile pk = some (refHash hf (leafFn r.cur.es) pk)) ∧
    (∀ q, q ∈ r.cur.U → PM.merkleProof hf p q =
      Pmmr.merkleProof hf (allHashes hf (leafFn r.cur.es) N) q) := by
  intro p r N
  have ha := agree_of_synced (hf := hf) (G := G) (C := v.es.length) hs hu hp hs.roots (Nat.le_refl _)
  have h0 : HInv hf ({ b := b, size := mmr v.es.length } : PM H) (importedRef v G) :=
    hinv_of_synced (s := v) hs ha
  have hrun := hinv_run el hf ops _ _ h0 hproto
  obtain ⟨o1, o2, o3, o4, o5, o6, o7⟩ := hinv_observables el hf hrun
  refine ⟨o1, o2, o3, o4, ?_, o6, o7, fun q hq => hinv_merkleProof hf hrun q hq⟩
  intro q hq
  obtain ⟨i, hi, e, g1, _, g3⟩ := o5 q hq
  exact ⟨i, hi, e, g1, g3⟩

/-! ### the import functions: what they cannot touch -/

/-- `append_pruned_subtree` appends exactly one hash and one prune-list entry; the data file, the
leaf set and the prune-list FILE are untouched (the prune list reaches the disk with `sync`) -/
theorem append_pruned_subtree_frame {H : Type} (b : Backend H) (hash : H) (pos0 : Nat) :
    let b' := b.appendPrunedSubtree hash pos0
    b'.hashFile.buffer = b.hashFile.buffer ++ [hash] ∧ b'.hashFile.disk = b.hashFile.disk ∧
    b'.dataFile = b.dataFile ∧ b'.leafSet = b.leafSet ∧ b'.pruneFile = b.pruneFile ∧
    b'.pruneList = b.pruneList.append pos0 := by
  simp [Backend.appendPrunedSubtree, AOF.append]

/-- the loop of `push_pruned_subtree` only appends hashes to the un-synced buffer of the hash
file: data file, leaf set, prune list and everything on disk stay as they are -/
theorem push_pruned_loop_frame {H : Type} (hf : HashFn Bytes H) (pm : Nat) :
    ∀ (fuel j : Nat) (b : Backend H) (pos : Nat) (cur : H),
      let r := PM.pushPrunedLoop hf pm fuel j b pos cur
      r.1.dataFile = b.dataFile ∧ r.1.leafSet = b.leafSet ∧ r.1.pruneList = b.pruneList ∧
      r.1.pruneFile = b.pruneFile ∧ r.1.hashFile.disk = b.hashFile.disk ∧
      r.1.hashFile.bsp = b.hashFile.bsp ∧ r.1.hashFile.bak = b.hashFile.bak ∧
      ∃ more, r.1.hashFile.buffer = b.hashFile.buffer ++ more := by
  intro fuel
  induction fuel with
  | zero => intro j b pos cur; simp [PM.pushPrunedLoop]
  | succ n ih =>
    intro j b pos cur
    simp only [PM.pushPrunedLoop]
    split
    · split
      · exact ih _ _ _ _
      · split
        · simp
        · rename_i l hl
          obtain ⟨a1, a2, a3, a4, a5, a6, a7, more, a8⟩ :=
            ih (j + 1) (b.appendHash (hf.node (family pos).1 l cur)) (family pos).1
              (hf.node (family pos).1 l cur)
          refine ⟨a1, a2, a3, a4, a5, a6, a7, [hf.node (family pos).1 l cur] ++ more, ?_⟩
          rw [a8]
          simp [Backend.appendHash, AOF.append]
    · simp

/-- **`push_pruned_subtree` writes nothing to disk and never touches data file or leaf set**
(whatever hash and position it is given, also when it is refused): together with
`unit_disk_untouched` an import can be discarded like any other unit of work. -/
theorem push_pruned_subtree_frame {H : Type} (hf : HashFn Bytes H) (p : PM H) (hash : H) (pos0 : Nat) :
    let p' := (PM.pushPrunedSubtree hf p hash pos0).1
    p'.b.dataFile = p.b.dataFile ∧ p'.b.leafSet = p.b.leafSet ∧ p'.b.pruneFile = p.b.pruneFile ∧
    p'.b.hashFile.disk = p.b.hashFile.disk ∧ p'.b.pruneList = p.b.pruneList.append pos0 ∧
    ∃ more, p'.b.hashFile.buffer = p.b.hashFile.buffer ++ hash :: more := by
  have hl := push_pruned_loop_frame hf (peakMapHeight pos0).1 65 0
    (p.b.appendPrunedSubtree hash pos0) pos0 hash
  simp only at hl
  obtain ⟨a1, a2, a3, a4, a5, _, _, more, a8⟩ := hl
  have hb : (p.b.appendPrunedSubtree hash pos0).hashFile.buffer = p.b.hashFile.buffer ++ [hash] := by
    simp [Backend.appendPrunedSubtree, AOF.append]
  simp only [PM.pushPrunedSubtree]
  split <;> rename_i heq <;> rw [heq] at a1 a2 a3 a4 a5 a8 <;>
    exact ⟨a1, a2, a4, a5, a3, more, by rw [a8, hb]; simp⟩

/-- a leaf that arrives with its data but is spent (`remove_from_leaf_set`) keeps the in-unit
reference invariant, and is gone from the leaf set -/
theorem remove_from_leaf_set_live {H : Type} {b : Backend H} {N : Nat} {ref : Nat → H}
    {dref : Nat → Bytes} {df : AOF Bytes} (h : Live b N ref dref df) (p : Nat) :
    Live (b.removeFromLeafSet p) N ref dref df ∧
    ∀ q, (q + 1) ∈ (b.removeFromLeafSet p).leafSet.bitmap ↔ (q + 1) ∈ b.leafSet.bitmap ∧ q ≠ p := by
  refine ⟨h.remove p, ?_⟩
  intro q
  show (q + 1) ∈ Bm.remove b.leafSet.bitmap (1 + p) ↔ _
  rw [mem_remove]
  constructor
  · rintro ⟨a, c⟩; exact ⟨a, by omega⟩
  · rintro ⟨a, c⟩; exact ⟨a, by omega⟩

/-! ### the leaf-set views -/

/-- `n_unpruned_leaves_to_index(i)` is the number of unspent leaves whose 1-based position is
below `i` (leaf-set entries are 1-based positions, so none is 0) -/
theorem n_unpruned_leaves_to_index_spec {H : Type} (b : Backend H) (i : Nat)
    (hpos : ∀ x ∈ b.leafSet.bitmap, 1 ≤ x) :
    b.nUnprunedLeavesToIndex i = (b.leafPosIter.filter (· + 1 < i)).length := by
  unfold Backend.nUnprunedLeavesToIndex Backend.leafPosIter
  rw [List.filter_map, List.length_map]
  congr 1
  apply List.filter_congr
  intro x hx
  have := hpos x hx
  simp only [Function.comp, decide_eq_decide]
  omega

/-- on an ascending list `skip_while(x < a)` keeps exactly the entries `>= a` -/
theorem dropWhile_lt_sorted : ∀ (l : List Nat) (a : Nat), l.Pairwise (· < ·) →
    l.dropWhile (· < a) = l.filter (fun x => decide (a ≤ x)) := by
  intro l a hs
  induction l with
  | nil => rfl
  | cons x xs ih =>
    rw [List.pairwise_cons] at hs
    by_cases hx : x < a
    · rw [List.dropWhile_cons_of_pos (by simpa using hx), List.filter_cons_of_neg (by simpa using hx)]
      exact ih hs.2
    · rw [List.dropWhile_cons_of_neg (by simpa using hx), List.filter_cons_of_pos (by simpa using hx)]
      congr 1
      symm
      rw [List.filter_eq_self]
      intro y hy
      have := hs.1 y hy
      simp; omega

/-- `leaf_idx_iter(from)` lists, in order, `n_leaves(pos1) - 1` for exactly the unspent leaves from
insertion index `from` on (the leaf set iterates in ascending order) -/
theorem leaf_idx_iter_spec {H : Type} (b : Backend H) (hs : b.leafSet.bitmap.Pairwise (· < ·)) (i : Nat) :
    b.leafIdxIter i =
      (b.leafSet.bitmap.filter (fun x => decide (1 + insertionToPmmrIndex i ≤ x))).map
        (fun x => nLeaves x - 1) := by
  unfold Backend.leafIdxIter
  simp only
  rw [dropWhile_lt_sorted _ _ hs]

/-! ### the non-prunable backend: nothing ever reaches the leaf set or the prune list -/

theorem np_frame {H : Type} (b : Backend H) :
    (∀ data hashes b', b.npAppend data hashes = some b' →
      b'.leafSet = b.leafSet ∧ b'.pruneList = b.pruneList ∧ b'.pruneFile = b.pruneFile) ∧
    (∀ pos, (b.npRewind pos).leafSet = b.leafSet ∧ (b.npRewind pos).pruneList = b.pruneList) ∧
    b.npSync.leafSet = b.leafSet ∧ b.npSync.pruneList = b.pruneList := by
  refine ⟨?_, fun pos => ⟨rfl, rfl⟩, rfl, rfl⟩
  intro data hashes b' h
  unfold Backend.npAppend at h
  split at h
  · exact absurd h (by simp)
  · simp only [Option.some.injEq] at h
    subst h
    exact ⟨rfl, rfl, rfl⟩

/-- with an empty prune list the non-prunable getters read the files at the plain positions -/
theorem np_get_hash_plain {H : Type} (b : Backend H) (hpl : b.pruneList = {}) (hls : b.leafSet.bitmap = [])
    (pos0 : Nat) : b.npGetHash pos0 = b.hashFile.read1 (1 + pos0) := by
  unfold Backend.npGetHash Backend.getFromFile Backend.isCompacted Backend.isPrunedRoot Backend.isPruned
  simp [hpl, hls, LeafSet.includes, Bm.contains, PruneList.isPrunedRoot, PruneList.isPruned,
    PruneList.getShift, PruneList.cacheAt, Bm.rank, Bm.select]

/-! ### non-vacuity -/

/-- the empty store is a synced state with `G = []`: `history_from_synced_state` contains
`history_preserves_reference` -/
example {H : Type} (hf : HashFn Bytes H) :
    Synced ({} : Backend H) ({} : RefView).es.length (refHash hf (leafFn ({} : RefView).es))
      (refData (leafFn ({} : RefView).es)) {} := synced_empty _ _

/-- a protocol-respecting history from an imported state of 4 leaves whose first pair is compacted:
append, spend, commit, rewind to the import boundary, commit, compact there, reopen -/
example : RefSt.Proto (importedRef { es := [[1], [2], [3], [4]], U := [3, 4] } [0, 1])
    [.push [5], .prune 3, .sync, .rewind 4 [], .sync, .compact 4 [], .reopen] := by
  have hb : ∀ n, n ≤ 10 → mmr n + 64 < 2 ^ 64 := fun n hn => by
    have := Pmmr.Co.mmr_le_two_mul n; omega
  simp only [RefSt.Proto, RefSt.ok, RefSt.step, importedRef, List.length_append, List.length_cons,
    List.length_nil, and_true, true_and]
  refine ⟨hb _ (by omega), ?_⟩
  simp

/-! ### the import step against the reference (increment 2) -/

/-- **`PruneList::append` of a new rightmost root.**  Every root of the list lies at or below the
first position `mmr N` of the new root's subtree and the new root's sibling is not pruned: the
bitmap grows by exactly that root (no roll-up, nothing cleaned up) and the invariant (hence both
shift caches, `shift_spec` / `leaf_shift_spec`) holds again. -/
theorem prune_list_append_rightmost (pl : PruneList) (h : pl.Inv) (N pos0 : Nat)
    (hroots : ∀ x ∈ pl.bitmap, x ≤ mmr N) (hl : bintreeLeftmost pos0 = mmr N)
    (hsib : pl.isPruned (family pos0).2 = false) :
    (pl.append pos0).bitmap = pl.bitmap ++ [pos0 + 1] ∧ (pl.append pos0).Inv :=
  PruneList.append_rightmost h hroots hl hsib

/-- **The file layouts after that append**: the hash file has to hold the old layout followed by
the root and every later position (the `2^(h+1) - 2` positions inside the subtree never get an
entry); the data file layout is unchanged provided no position from the root on is a leaf (root of
height `>= 1`). -/
theorem import_layout_step (bm : Bitmap) (N pos0 M' : Nat) (hroots : ∀ x ∈ bm, x ≤ mmr N)
    (hl : bintreeLeftmost pos0 = mmr N) (hlt : pos0 < M')
    (hnl : ∀ q, pos0 ≤ q → q < M' → isLeaf q = false) :
    layout (bm ++ [pos0 + 1]) M' = layout bm (mmr N) ++ List.range' pos0 (M' - pos0) ∧
    dataLayout (bm ++ [pos0 + 1]) M' = dataLayout bm (mmr N) :=
  ⟨layout_snoc hroots hl hlt, dataLayout_snoc hl hlt hnl⟩

/-- **import_step_preserves_reference.**  One `push_pruned_subtree` step against the reference:
`b` satisfies the in-unit reference invariant for `N` leaves (prune-list file brought up to date,
`fixPF`), the new root's subtree starts at `mmr N`, its sibling is not pruned, the MMR with its
leaves has size `mmr N' = pos0 + 1 + k` and no position from `pos0` on is a leaf.  If the backend
`b2` after the step differs from `b` by `PruneList.append pos0` and by a hash buffer extended with
the reference hashes of `pos0 … mmr N' − 1` (frame: `push_pruned_subtree_frame`), it satisfies the
invariant for `N'` leaves with the same data file - so `sync` yields a `Synced` backend
(`Live.sync`) and `history_from_synced_state` applies. -/
theorem import_step_preserves_reference {H : Type} (hf : HashFn Bytes H) (f : Nat → Bytes)
    (b b2 : Backend H) (N N' pos0 k : Nat) (df : AOF Bytes)
    (h : Live b.fixPF N (refHash hf f) (refData f) df)
    (hl : bintreeLeftmost pos0 = mmr N) (hsz : mmr N' = pos0 + 1 + k)
    (hsib : b.pruneList.isPruned (family pos0).2 = false)
    (hnl : ∀ q, pos0 ≤ q → q < mmr N' → isLeaf q = false)
    (hbd : mmr N' + 64 < 2 ^ 64)
    (hdf : b2.dataFile = b.dataFile) (hls : b2.leafSet = b.leafSet)
    (hpl : b2.pruneList = b.pruneList.append pos0)
    (hdisk : b2.hashFile.disk = b.hashFile.disk) (hbsp : b2.hashFile.bsp = b.hashFile.bsp)
    (hbak : b2.hashFile.bak = b.hashFile.bak)
    (hbuf : b2.hashFile.buffer = b.hashFile.buffer ++ (List.range' pos0 (k + 1)).map (refHash hf f)) :
    Live b2.fixPF N' (refHash hf f) (refData f) df ∧
    ∃ df', Synced b2.fixPF.sync N' (refHash hf f) (refData f) df' :=
  have hl' := Live.import_step h hl hsz hsib hnl hbd hdf hls hpl hdisk hbsp hbak hbuf
  ⟨hl', ⟨_, hl'.sync⟩⟩

/-- the geometric hypotheses are satisfiable: the pair of leaves 0, 1 as the first pruned subtree
(root position 2 of height 1, `N = 0`, `N' = 2`, no merged parent: `k = 0`) -/
example : bintreeLeftmost 2 = mmr 0 ∧ mmr 2 = 2 + 1 + 0 ∧ (∀ q, 2 ≤ q → q < mmr 2 → isLeaf q = false) ∧
    (({} : PruneList).isPruned (family 2).2 = false) := by
  have h2 : height 2 = 1 := by
    have := pmh_coord 1 1 (by simp [trailingOnes])
    have h1 : mmr 1 = 1 := by simp [mmr, popcount]
    rw [h1] at this
    simp [height, this]
  have m2 : mmr 2 = 3 := by simp [mmr, popcount]
  have m0 : mmr 0 = 0 := by simp [mmr, popcount]
  refine ⟨by simp [bintreeLeftmost, h2, m0], by omega, ?_, by simp [PruneList.isPruned, PruneList.isPrunedRoot, Bm.contains, Bm.select, Bm.rank]⟩
  intro q a b
  have : q = 2 := by omega
  subst this
  simp [isLeaf, h2]

/- **import_establishes_reference** (full statement, NOT proved as a whole – `_partial` below):
   for every leaf history `es`, every set `R` of subtree roots of height ≥ 1 no two of which are
   siblings or nested, and every spent set `S ⊇ leaves below R`: feeding an empty backend, in
   position order, `push_pruned_subtree (refHash r) r` for `r ∈ R`, `push e` for every other leaf and
   `remove_from_leaf_set` for the spent ones, then `sync`, yields a backend `b` with
   `Synced b es.length (refHash hf (leafFn es)) (refData (leafFn es)) df`, leaf set = the unspent
   leaves and prune list pruning exactly the leaves below `R` – i.e. the hypotheses of
   `history_from_synced_state`.
   PROVED since increment 2: the step lemma for `PruneList.append` of a new rightmost root against
   the file layout (`prune_list_append_rightmost`, `import_layout_step`) and the preservation of
   the reference invariant by one import step GIVEN what the step appended to the hash buffer
   (`import_step_preserves_reference`); with `Live.push` (leaf steps), `remove_from_leaf_set_live`
   and `Live.sync` these are all the per-step lemmas of the induction.
   EXACTLY WHAT IS LEFT, both about `core/src/core/pmmr/pmmr.rs` arithmetic rather than the store:
   (L1) the loop of `push_pruned_subtree` (`PM.pushPrunedLoop`): for a root at coordinates
        `(n, h)` (`pos0 = mmr n + h`, `h ≤ trailingOnes n`) the `while (peak_map & peak) != 0` loop
        runs `trailingOnes n` times, merges in exactly the first `trailingOnes n − h` of them (the
        later ones see a left child and `continue`), each merge reads the left sibling through
        `get_hash` (a non-leaf: `get_from_file`, equal to the reference by `Live.read_hash` because
        it is not compacted: `left_sibling_ok`), so the buffer grows by the reference hashes of
        `pos0 + 1 … pos0 + (trailingOnes n − h)`, the flag is `true` and
        `round_up_to_leaf_pos` of the last position is `mmr (n + 1)`;
   (L2) the geometry of an aligned subtree in coordinates: `bintreeLeftmost (mmr n + h) =
        mmr (n + 1 − 2^h)`, `mmr (n + 1) = mmr n + trailingOnes n + 1`, `height (mmr n + j) = j`
        for `j ≤ trailingOnes n` (so no leaf from the root on) – all instances of `coord` lemmas of
        Lemmas/PmmrCoord.lean, not yet instantiated.
   The import step as a whole stays tied to the code and to the never-pruned reference by
   differential execution (run `store imported`: 0 deviations over every import shape of 2..13
   leaves and random ones up to 70 leaves). -/
theorem import_establishes_reference_partial {H : Type} (hf : HashFn Bytes H) (p : PM H) (hash : H)
    (pos0 : Nat) :
    let p' := (PM.pushPrunedSubtree hf p hash pos0).1
    p'.b.sync.dataFile = p.b.sync.dataFile ∧ p'.b.sync.leafSet = p.b.sync.leafSet ∧
    p'.b.sync.pruneFile = (p.b.pruneList.append pos0).bitmap := by
  obtain ⟨a1, a2, _, _, a5, _⟩ := push_pruned_subtree_frame hf p hash pos0
  simp only [Backend.sync]
  exact ⟨by rw [a1], by rw [a2], by rw [a5]⟩

end GV.Props.C08Import
